"""Per-property configuration of ./check: theorem obligations, correspondence streams,
property-specific post-processing (oracles that need several observations at once)."""
import json, os, re


def _parse_nats(s):
    s = s.strip()[1:-1]
    return [int(x) for x in s.split(",")] if s else []


def _marker_table(ops_file, obs_file, bound):
    """{(s,n,E): (past, future)} for the exhaustive part of the c08.markers stream"""
    tab = {}
    with open(ops_file) as fo, open(obs_file) as fb:
        for o, b in zip(fo, fb):
            t = o.split()
            if len(t) != 4 or t[0] != "mk":
                continue
            s, n, e = int(t[1]), int(t[2]), int(t[3])
            if e > bound or not (1 <= s <= n <= e):
                continue
            b = b.strip()
            if b == "panic":
                tab[(s, n, e)] = None
            else:
                p, f = b.split(" ")
                tab[(s, n, e)] = (_parse_nats(p), _parse_nats(f))
    return tab


def _gaps(tab, bound):
    """cross-proof agreement evaluated on a marker table.
    returns (hh_failures, hl_gaps, evaluated) — see DESIGN §7/C08 for the demand sets."""
    hh, hl = [], set()
    evaluated = 0
    past = {}
    fut = {}
    for (s, n, e), v in tab.items():
        if v is None:
            continue
        past[s] = v[0]
        fut[(n, e)] = v[1]
    for E in range(1, bound + 1):
        for n in range(1, E + 1):
            f = fut.get((n, E))
            if f is None:
                continue
            fs = set(f)
            for m in range(n + 1, E + 1):
                # lookup m vs complete history n
                evaluated += 1
                pw = 1 << (m.bit_length() - 1)
                if m not in fs and pw not in fs:
                    hl.add((E, n, m))
                # history [s', m] vs history [*, n]
                for s2 in range(1, m + 1):
                    evaluated += 1
                    p2 = past.get(s2)
                    if p2 is None:
                        continue
                    if not any((x in p2) or (s2 <= x <= m) for x in f):
                        if len(hh) < 20:
                            hh.append((E, n, s2, m))
    return hh, hl, evaluated


def post_c08(ctx):
    bound = 40 if ctx["tier"] == "quick" else 72
    res = next(r for r in ctx["results"] if r["ops_file"].endswith(f"c08.markers.{ctx['tier']}.ops"))
    base = res["ops_file"][:-4]
    impl_tab = _marker_table(res["ops_file"], base + ".impl", bound)
    model_tab = _marker_table(res["ops_file"], base + ".model", bound)
    hh_i, hl_i, ev = _gaps(impl_tab, bound)
    _, hl_m, _ = _gaps(model_tab, bound)
    failures = []
    for (E, n, s2, m) in hh_i:
        failures.append({"property": "C08", "tag": f"hh:{E}:{n}:{s2}:{m}",
                         "what": f"two history proofs do not conflict: epoch {E}, latest {n} vs range [{s2},{m}] "
                                 f"(no version shown absent by the first is shown present by the second)",
                         "replay_lines": [f"mk 1 {n} {E}", f"mk {s2} {m} {E}"]})
    for (E, n, m) in sorted(hl_i):
        in_family = (E, n, m) in hl_m
        failures.append({"property": "C08",
                         "tag": ("F1-gap" if in_family else f"hl-new:{E}:{n}:{m}"),
                         "what": f"complete history with latest {n} and lookup of version {m} do not conflict at epoch {E}",
                         "replay_lines": [f"mk 1 {n} {E}", f"mk {m} {m} {E}"]})
    smallest = min(hl_i) if hl_i else None
    return {"oracle_failures": failures, "evaluations": ev,
            "cross_table_bound": bound, "lookup_history_gaps_impl": len(hl_i),
            "lookup_history_gaps_model": len(hl_m), "smallest_gap": smallest,
            "history_history_nonconflicts": len(hh_i),
            "samples": [f"cross-proof table E<={bound}: {len(hl_i)} lookup/history gaps (known family F1), "
                        f"{len(hh_i)} history/history non-conflicts"]}


def post_c12(ctx):
    """validate every recorded scheduler trace with the model (Conc.validate)"""
    extra = []
    n = 0
    for r in ctx["results"]:
        impl = r["ops_file"][:-4] + ".impl"
        tf = impl + ".traces"
        if os.path.exists(tf):
            res = ctx["compare_recorded"](ctx["pid"], tf, "traces")
            n += res["n_ops"]
            extra.append(res)
    return {"extra_results": extra, "traces_validated_against_model": n,
            "samples": [open(extra[0]["ops_file"]).readline().strip()[:300]] if extra and extra[0]["n_ops"] else []}


COMMON_ASSUME = [
    "BLAKE3 idealised as a free term algebra (collision-free; no digest equals a structured preimage fragment)",
    "the correspondence run is differential testing: as strong as its generators (distribution in coverage)",
]

PROPS = {
    "C17": {
        "thm_module": "AkdModel.Thm.C17",
        "theorems": ["Akd.C17." + t for t in [
            "isPrefixOf_iff", "getPrefix_spec", "getPrefix_ge", "bits_getPrefix", "lcp_spec", "lcp_empty",
            "prefixOrdering_spec", "cmp_spec", "bits_ofBits", "ofBits_normalised", "ofBits_bits",
            "partition_sorted_eq_linear", "setLcp_sorted_eq_linear", "setLcp_counterexample",
            "containsPrefix_sorted_eq_linear", "sortByLabel_sorted"]],
        "streams": ["c17"],
        "rule": "exhaustive pairs of short labels (at bit offset 0 and behind shared prefixes crossing byte "
                "boundaries), every length 0..256 with adversarial patterns and garbage beyond the length, "
                "over-long lengths, all small label sets at 4 offsets plus random sets; each op line runs on "
                "the Rust code and on the Lean model and is judged by an independent bit-string oracle; "
                "distinct = distinct op lines",
        "assumptions": ["u32/usize modelled as Nat (no operation overflows for label_len <= 2^32-1)"],
    },
    "C01": {
        "thm_module": ["AkdModel.Thm.C01a", "AkdModel.Thm.C01b", "AkdModel.Thm.C01c"],
        "theorems": ["Akd.C01." + t for t in ["insert1_wf", "insert1_leaves", "wf_prefixFree", "wf_unique", "ofLeaves_spec",
                                              "ofLeaves_perm", "rootHash_perm", "rootHash_injective",
                                              "azksNew_repr", "batchInsert_refines", "emptyLabel_len",
                                              "batchInsert_rootHash", "batchInsert_perm",
                                              "init_refines", "publish_refines", "history_refines", "refines_honest"]],
        "streams": ["l1.dir.c01", "l1.trie"],
        "rule": "random publish histories through the real Directory (batches of 0..12 from a label pool with the empty, "
                "1-byte, 300-byte and prefix-related labels; empty/short/2 KiB values; 30% re-submissions; duplicate-label "
                "batches), both configurations; after EVERY publish: returned EpochHash, get_epoch_hash, the full database dump "
                "(every node record with previous version, epoch metadata, value states) compared with the model, and the "
                "oracle line spec.root: real root hash vs the canonical trie over the specification's leaf set "
                "(Spec.leaves of the history) evaluated with the real hash. Plus the l1.trie stream (crafted 256-bit labels "
                "sharing prefixes of every length, decompression at every depth and byte boundary).",
        "assumptions": ["VRF outputs taken from the real HardCodedAkdVRF as an oracle table; collision-free on the inputs in play"],
    },
    "C02": {
        "thm_module": ["AkdModel.Thm.C02", "AkdModel.Thm.C02b"],
        "theorems": ["Akd.C02.batch_lookup_complete", "Akd.C02.batch_lookup_unpublished", "Akd.C02.batchLookup_sound",
                     "Akd.C02.batchLookup_complete", "Akd.C02.batchLookup_fails",
                     "Akd.C02.lookup_complete", "Akd.C02.lookup_unpublished", "Akd.C02.rootHash_refines",
                     "Akd.C02.membershipProof_refines", "Akd.C02.nonMembershipProof_refines", "Akd.C02.noProperPrefix_of_256",
                     "Akd.C02.membershipProof_refines_counterexample",
                     "Akd.C05.membership_complete", "Akd.C05.membership_complete_leaf", "Akd.C05.nonmembership_complete"],
        "streams": ["l1.dir.c02"],
        "rule": "histories as in C01 with a label updated in every epoch (versions 1,2,3,... crossing powers of two); after every "
                "publish, for EVERY label of the pool (published or not): the real LookupProof compared field by field with the "
                "model's, and the oracle line spec.lookup: result of the real lookup_verify vs (epoch of latest update, version "
                "count, latest value) read off the specification; unpublished labels must fail",
        "assumptions": [],
    },
    "C03": {
        "thm_module": ["AkdModel.Thm.C03"],
        "theorems": ["Akd.C03.history_complete",
                     "Akd.C05.membership_complete", "Akd.C05.membership_complete_leaf", "Akd.C05.nonmembership_complete",
                     "Akd.C08.markers_no_panic", "Akd.C08.past_lt_start", "Akd.C08.future_bounds"],
        "streams": ["l1.dir.c03", "l1.sched.hist"],
        # l1.sched.hist: the history requests of the C13 scheduler scenario (a publish gives the label its next version while
        # its history is being generated); one case in four also serves histories (Complete, MostRecent 1..3) from pinned read-only instances lagging
        # 0..3 epochs behind storage; a returned proof that does not verify is a C03 failure as much as a C13 one
        "also_reports": ["C13"],
        "rule": "histories as in C02; for every label: Complete and MostRecent(n) for n in {1,2,3,total,total+1,1000}: real "
                "HistoryProof compared with the model's; oracle line spec.history: real key_history_verify result list vs the "
                "specification's version list (newest first, all or newest n); l1.sched.hist: Complete / MostRecent(1,2) "
                "histories of a label on an instance interleaved at storage-call granularity with the publish of that label's next "
                "version (all schedules with at most 2, thorough 3, preemptions; uncached, own cache, cache shared with the writer): "
                "what is returned is an error or verifies against a published (epoch, root) and is the label's history at it",
        "assumptions": [],
    },
    "C04": {
        "thm_module": ["AkdModel.Thm.C04b"],
        "theorems": ["Akd.C04.audit_complete_history", "Akd.C04.prefix_epochs", "Akd.C04.rootHash_prefix", "Akd.C04.audit_complete", "Akd.C04.audit_complete_dense", "Akd.C04.appendOnlyProof_eq",
                     "Akd.C04.audit_refused", "Akd.C04.audit_counterexample",
                     "Akd.C01.wf_unique", "Akd.C01.ofLeaves_perm"],
        "streams": ["l1.dir.c04"],
        "rule": "histories of up to 12 epochs; at several points ALL pairs (s,e) in [0,E+1]^2: the real audit proof compared with the "
                "model's (as sets) and verified by the real audit_verify against the recorded published root hashes; oracle: "
                "valid ranges verify, invalid ranges are refused",
        "assumptions": [],
    },
    "C16": {
        "thm_module": ["AkdModel.Thm.C16", "AkdModel.Thm.C16b"],
        "theorems": ["Akd.Store." + t for t in ["inv_step", "inv_run", "inv_init", "get_eq_truth", "batchGet_eq_truth",
                                                "flush_then_epoch", "rejected_write_witness"]]
                    + ["Akd.CacheFill." + t for t in ["coherent_reachable", "quiescent_cache_exact", "answers_recent",
                                                      "stale_fill_witness", "stale_fill_witness_fixed", "evict_in_fill_witness"]],
        "streams": ["l1.store", "l1.sched.read"],
        # the scheduler scenario judges whole requests (tag C13): a cache that changes what a request returns is a C16 failure too
        "also_reports": ["C13"],
        "rule": "l1.sched.read: requests on an instance whose cache is filled by reads with latency while a commit "
                "lands (shared manager); "
                "l1.store: random operation sequences (5..60 ops) through ONE real StorageManager over a fault-injecting database: "
                "set/batch_set (15% rejected by the database), get/batch_get, the user-state queries, begin/commit/rollback, "
                "flush, sleeps that outlive the 3 ms item lifetime; uncached / cached / 300-byte memory limit; every read is "
                "compared with the model AND, by the oracle, with the same read issued through an uncached manager on the "
                "database as it is at that moment (after committing the pending records when a transaction is open); "
                "o.st.flushprobe ('after a flush the next read of the epoch record reflects storage'): the records a cached manager "
                "holds are replaced in the database by ANOTHER writer, the manager is flushed in every state it can be in (idle, "
                "inside a transaction with and without pending records, committing afterwards, cache cleaning disabled as during "
                "an audit, after the items expired; three cache configurations) and the next get / batch_get of the epoch record, "
                "nodes and value states must equal uncached reads",
        "assumptions": ["cache timing is over-approximated in the model by a nondeterministic evict step enabled iff cleaning is enabled",
                        "the model's atomic step is one storage-manager call (single task)"],
    },
    "C11": {
        "thm_module": ["AkdModel.Thm.C11", "AkdModel.Thm.C13", "AkdModel.Thm.C11b"],
        "theorems": ["Akd.C11." + t for t in ["partial_commit_requests", "partial_commit_reads", "reads_congr", "audit_congr",
                                              "partial_commit_invisible", "partial_commit_invisible_all", "full_commit_visible",
                                              "insert_in_txn_keeps_db", "new_keys_invisible"]]
                    + ["Akd.C13.snapshot_read", "Akd.C13.write_preserves"],
        "streams": ["l1.partial"],
        "rule": "for publishes that create nodes, split existing ones (decompression) and update labels — first publish, inserts, "
                "updates, mixed, on deeper trees, both configurations — the real commit batch is captured and, starting from the "
                "pre-publish snapshot, EVERY prefix of its node/value records in batch order and in reverse order, plus all subsets "
                "(small batches) or random subsets in random order, is written record by record with the epoch record withheld; on "
                "each partial database a fresh ReadOnlyDirectory and a fresh Directory are opened and the oracle checks: epoch hash = "
                "the previous one, every label's lookup and complete history verify against the previous root with the previous "
                "results, the audit of all epochs verifies; after all records incl. the epoch record the new epoch is served completely",
        "assumptions": ["record-level atomicity of the storage layer (a record is written completely or not at all)"],
    },
    "C12": {
        "thm_module": ["AkdModel.Thm.C12"],
        "theorems": ["Akd.Conc." + t for t in ["serializable", "noop_no_effect", "progress", "lost_epoch_witness", "validate_consecutive"]],
        "streams": ["l1.sched"],
        "post": post_c12,
        "rule": "two and three publish calls on clones of one real Directory run as tasks on a current-thread runtime over a "
                "database wrapper that grants every storage call its turn, so a schedule (a word over task ids) fixes the "
                "execution; ALL schedules with at most 2 (thorough: 3) preemptions are enumerated by stateless depth-first "
                "search, for disjoint labels, the same label, update+insert and three publishers, cached and uncached; oracle on "
                "the real outcomes: calls that changed the directory got distinct consecutive epochs, every returned (epoch, root) "
                "equals the serial execution of the successful batches in epoch order, the final database equals it, no "
                "transaction is left open; every explored run's storage-call trace is validated by the model (Conc.validate); "
                "'fails without effect': the same enumeration with the n-th single-record read of ONE of the publishes failing "
                "(n = 0..11: before, in the middle of and after its first writes into the transaction) while the others wait "
                "for the lock — the failed call must leave nothing behind for the calls that follow (same serial-execution oracle)",
        "assumptions": ["preemption inside in-memory sections on a multi-thread runtime (DashMap shards, relaxed atomics) is not in the model"],
    },
    "C13": {
        "thm_module": ["AkdModel.Thm.C13", "AkdModel.Thm.C16b", "AkdModel.Thm.C13b", "AkdModel.Thm.C13c", "AkdModel.Thm.C13d"],
        "theorems": ["Akd.C13." + t for t in ["snapshot_read", "resolve_current", "resolve_lag1", "write_preserves", "write_new",
                                              "write_frame", "lag2_witness"]]
                    + ["Akd.CacheFill." + t for t in ["coherent_reachable", "quiescent_cache_exact", "answers_recent",
                                                      "stale_fill_witness", "stale_fill_witness_fixed", "evict_in_fill_witness"]]
                    + ["Akd.Poll." + t for t in ["answers_after_signal", "signalled_is_served", "flush_excludes_requests",
                                                 "answers_not_before_start", "unguarded_witness", "unguarded_witness_blocked"]]
                    + ["Akd.C13." + t for t in ["lagging_instance", "storeOK_init", "storeOK_publish",
                                                "lagging_requests", "reads_le", "audit_le", "viewLe_publish", "ViewLe.trans",
                                                "legacy_lag_witness"]],
        "streams": ["l1.dir.c13", "l1.sched.read", "l1.sched.poll"],
        # recorded runs of the poller scenario are replayed on Poll.lean (PollTrace.validate): every epoch read from storage,
        # every epoch a request was answered from, the number of notifications and the epoch served at the end must agree
        "post": post_c12,
        "rule": "(c) l1.sched.poll: a writer instance publishes one or two batches while requests (three per task, each started at a "
                "moment the schedule chooses) are served by a SECOND, read-only instance with its own cache on which the real "
                "poll_for_azks_changes runs as a daemon task on a paused clock; all schedules up to 2 (one scenario: 3) preemptions, "
                "switches away from the poller not counted; oracle: C13's (published pair, verifying proof) plus the last clause — a "
                "request that started after the poller had signalled epoch k is answered from an epoch >= k, also after the run; "
                "(a) read requests (epoch hash, lookup, complete / most-recent history, audit; one or two at a time) on a second, "
                "read-only instance (uncached, default cache, 1 ms cache — or SHARING the writer's cached storage manager, with database "
                "reads that take their value at one scheduling point and deliver it at a later one, followed by a probe of the same "
                "instance after the run) run as tasks interleaved with a publish on the writer at "
                "storage-call granularity: ALL schedules with at most 2 (thorough: 3) preemptions; oracle: every answer is an error or "
                "an (epoch, root hash) pair that was published, with a proof that verifies against it, never older than what was "
                "published before the request started; (b) histories with a label updated in every epoch; four read-only instances (own cached storage manager with a 2 ms "
                "item lifetime over the shared database) are re-pinned in rotation so that at any time their cached epoch record "
                "lags storage by 0, 1, 2 and 3 effective epochs; after every publish each of them serves epoch hash, lookups, "
                "complete and most-recent histories and audits; every answer is compared with the model (a directory whose epoch "
                "record is pinned while node records advance) and judged by the oracle: error, or an (epoch, root hash) pair the "
                "writer really published for that epoch together with a proof that verifies against it",
        "assumptions": ["change poller: modelled on the epoch record only (Poll.lean); tokio's write-preferring RwLock is modelled as "
                        "'the poller takes the lock when no guarded request is under way' (the trace validator queues requests behind "
                        "a waiting poller, as the real lock does); the poll period is explored on a paused clock",
                        "lock-less flush_cache calls made by an application DURING requests are outside the claim (DESIGN 0.4)",
                        "CacheFill model: one cache entry, content abstracted to a version number; an entry does not expire between the "
                        "generation check and the insertion of one TimedCache::fill call (the residual window is stated: evict_in_fill_witness)"],
    },
    "C14": {
        "thm_module": ["AkdModel.Thm.C01b", "AkdModel.Thm.C01a", "AkdModel.Thm.C14", "AkdModel.Thm.C16"],
        "theorems": ["Akd.C01.batchInsert_perm", "Akd.C01.batchInsert_split", "Akd.C01.batchInsert_split_rootHash",
                     "Akd.C01.batchInsert_refines_sameEpoch", "Akd.C01.batchInsert_refines", "Akd.C01.ofLeaves_perm", "Akd.C01.wf_unique",
                     # the object cache cannot change what a read returns (C16): the formal reason results do not depend on it
                     "Akd.Store.get_eq_truth", "Akd.Store.batchGet_eq_truth", "Akd.Store.inv_run"],
        "streams": ["l1.c14"],
        "matrix": [
            {"name": "seq-nocache", "flags": []},
            {"name": "par-static1", "flags": ["--par", "static1"]},
            {"name": "par-static2-cache", "flags": ["--par", "static2", "--cache", "default"]},
            {"name": "par-static3", "flags": ["--par", "static3"]},
            {"name": "par-static4-cache1ms", "flags": ["--par", "static4", "--cache", "1ms"]},
            {"name": "par-static8-tiny", "flags": ["--par", "static8", "--cache", "tiny"]},
            {"name": "par-static32", "flags": ["--par", "static32", "--cache", "default"]},
            {"name": "par-avail32", "flags": ["--par", "avail32", "--cache", "default"]},
            {"name": "cache-default", "flags": ["--cache", "default"]},
            {"name": "cache-1ms", "flags": ["--cache", "1ms"]},
            {"name": "cache-tiny", "flags": ["--cache", "tiny"]},
            {"name": "restart-50pct", "flags": ["--restart", "500", "--cache", "default"]},
            {"name": "restart-50pct-par", "flags": ["--restart", "500", "--par", "static4"]},
            {"name": "readonly", "flags": ["--readonly", "--cache", "default"]},
            {"name": "readonly-restart", "flags": ["--readonly", "--restart", "300"]},
            {"name": "nofeatures", "bin": "nf", "flags": []},
            {"name": "nofeatures-cache-par", "bin": "nf", "flags": ["--cache", "default", "--par", "static4"]},
            {"name": "nofeatures-restart", "bin": "nf", "flags": ["--restart", "500", "--cache", "1ms"]},
        ],
        "rule": "one ops stream (histories with publishes, every label's lookup, histories for several parameters, all audit "
                "ranges, all verified; then the same leaf set inserted in random orders and random splits into sub-batches within "
                "one epoch) is executed on the real code under EVERY configuration of the matrix — insertion/preload parallelism "
                "{off, static 1,2,3,4,8,32, available-or-32}, cache {none, default, 1 ms lifetime, 300-byte limit}, directory "
                "object dropped and re-created before ~half of the calls, read operations through ReadOnlyDirectory, and a second "
                "build without greedy_lookup_preload/preload_history/parallel_vrf — on a multi-thread runtime, and each run's "
                "observations (epoch hashes, verification outcomes, verified results) are compared with the single model run; "
                "oracle: all insertion orders/splits of a group give one root hash",
        "assumptions": ["tokio's actual scheduling is sampled, not enumerated"],
    },
    "C15": {
        "thm_module": ["AkdModel.Thm.C16"],
        "theorems": ["Akd.Store." + t for t in ["commit_exact", "get_txn_eq_commit", "userState_txn_eq_commit",
                                                "userData_txn_eq_commit", "userVersions_txn_eq_commit", "rollback_discards",
                                                "begin_refused", "versions_merge_witness", "inv_step"]],
        "streams": ["l1.store"],
        "also_reports": ["C20"],   # the tombstone oracle of the same stream (tombstoning inside an open transaction)
        "rule": "the l1.store sequences (well-formed data: per user versions increase with epochs, rewriting a (user, epoch) "
                "keeps its version) with committed and pending records for the same users; every read inside a transaction is "
                "compared with the model and, by the oracle, with the same read on a copy of the database after committing the "
                "pending records; every commit batch is compared with the pending records (epoch record last)",
        "assumptions": [],
    },
    "C10": {
        "thm_module": ["AkdModel.Thm.C16"],
        "theorems": ["Akd.Store." + t for t in ["publish_fail_no_effect", "reads_after_failure", "commit_fail_pollutes_cache",
                                                "root_read_after_commit_witness", "publish_fail_needs_readOnly", "inv_step"]],
        "streams": ["l1.fault", "l1.store"],
        "rule": "fault enumeration on the real Directory::publish: for publishes of every shape (first publish, inserts, "
                "updates, mixed, on deeper trees), uncached and cached managers, sequential and parallel insertion, EVERY "
                "storage-operation index k of the call is made to fail in turn from the same snapshot; after the error "
                "(and after letting detached tasks run) the oracle checks on the same instance and on a fresh instance: "
                "epoch hash unchanged, database equal to the snapshot, no transaction open, every label's lookup and history "
                "and the audit of all epochs verify against the previous root, and a retry ends in the fault-free state; the "
                "recorded trace must have the shape PublishIO.lean assumes (reads only before the commit write, nothing after it)",
        "assumptions": ["the insertion is abstracted in the theorem to an arbitrary program of reads and transaction-log writes"],
    },
    "C18": {
        "thm_module": ["AkdModel.Thm.C18"],
        "theorems": ["Akd.C18." + t for t in ["labelInput_injective", "proof_bytes_roundtrip", "proof_wrong_length_rejected",
                                              "proof_s_plus_ell", "vrf_complete", "vrf_deterministic", "verifyLabel_spec",
                                              "verifyLabel_single_field", "verifyLabel_label_binds"]],
        "streams": ["l1.vrf"],
        "rule": "(a) VRF input bytes: the model's i2osp(label) || freshness || version_be, hashed by the real TC::hash, vs "
                "get_hash_from_label_input, for structured labels (empty, long, prefix-related, imitating the suffix of another "
                "input) x versions across the u64 range x both freshness values x both configurations, plus random ones; (b) the "
                "oracle over the public VRF API: determinism, get_node_label = label from the proof = get_node_labels, honest proof "
                "verifies, every single-field alteration (label, freshness, version +-1, node label bit 0 / 255, public key) is "
                "rejected, every byte of the 80-byte proof flipped / zeroed / incremented and wrong lengths never make a DIFFERENT "
                "node label verify, node label / nonce / commitment differ under a second key; (c) altered VRF proof bytes (flip, "
                "zero, increment, truncation, s + group order, honest proofs for other inputs) through the REAL lookup_verify, "
                "compared with the model of verify_label; (d) o.vrf.batch: the batch derivation publish uses (get_node_labels, "
                "parallel tasks on a multi-thread runtime) on 120 (thorough 400) inputs with short and long labels, three rounds: "
                "every node label returned is the one get_node_label derives for the input it is paired with",
        "assumptions": ["uniqueness / non-malleability of ECVRF outputs, key separation, SHA-512 and Edwards arithmetic are assumed "
                        "(explored by the oracle, not proved)"],
    },
    "C19": {
        "thm_module": ["AkdModel.Thm.C19"],
        "theorems": ["Akd.C19." + t for t in ["label_roundtrip", "element_roundtrip", "sibling_roundtrip", "membership_roundtrip",
                                              "nonmembership_roundtrip", "lookup_roundtrip", "update_roundtrip", "history_roundtrip",
                                              "single_roundtrip", "appendonly_roundtrip", "label_too_long_rejected",
                                              "digest_wrong_size_rejected", "varint64_roundtrip", "varint32_roundtrip",
                                              "wire_roundtrip", "lookup_bytes_roundtrip", "history_bytes_roundtrip",
                                              "appendonly_bytes_roundtrip", "lookup_roundtripBytes", "blobname_roundtrip"]],
        "streams": ["l1.pb"],
        "rule": "encodings of REAL lookup / history / append-only proofs and of their components (membership, non-membership, "
                "sibling, element, label, update, single proof) produced over random histories in both configurations are decoded "
                "(generated parser + TryFrom) and re-encoded on both sides: `pb.dec <type> <bytes>` compares parse error / "
                "conversion error / canonical re-encoding between rust-protobuf + proto/mod.rs and the Lean wire model; corrupted "
                "encodings: truncation at random (thorough: every) offset, bit flips, every top-level field deleted / duplicated / "
                "moved / given a wrong wire type, unknown fields (varint, bytes, groups, unterminated and 150-deep groups), 11-byte "
                "and non-canonical varints, labels of 33 bytes / 257 bits / > u32, digests of 31 / 33 bytes, directions 0..257, wrong "
                "child and sibling counts, packed and mixed epochs, random bytes; oracle-only lines verify decodable corrupted proofs "
                "against the current epoch hash: no panic, and what still verifies gives the honest result; audit blob names",
        "assumptions": ["rust-protobuf's generated code is modelled (match on full tag, limits, recursion levels), not verified"],
    },
    "C20": {
        "thm_module": ["AkdModel.Thm.C20", "AkdModel.Thm.C05", "AkdModel.Thm.C20b", "AkdModel.Thm.C20c"],
        "theorems": ["Akd.C20." + t for t in ["tombstone_keeps_tree", "tombstone_epochHash", "tombstone_audit",
                                               "tombstone_other_lookup", "tombstone_own_lookup", "tombstone_then_publish"]]
                    + ["Akd.C05.membership_sound_leaf"]
                    + ["Akd.Store." + t for t in ["tombstone_exact", "tombstone_keeps_later", "tombstone_frame", "tombstone_active"]]
                    + ["Akd.C20." + t for t in ["tombstone_history_allow", "tombstone_history_default_ok",
                                               "tombstone_history_default_rejects", "tombstone_other_history", "tombstone_twice"]],
        "streams": ["l1.dir.c20", "l1.store"],
        "rule": "l1.store: StorageManager::tombstone_value_states outside and INSIDE an open transaction (every dense case cuts "
                "the user with the most states in the middle while the transaction is open): the manager's view of the user's "
                "states before and after must differ exactly by the states of epoch <= cut becoming tombstones; "
                "l1.dir.c20: histories with tombstone_value_states(label, cut) at random points (cut below the label's latest update), followed by "
                "further publishes; after each: epoch hash vs specification (unchanged), every label's lookup (oracle spec.lookup), "
                "every label's history for 4 parameters in both verification modes (oracle spec.history.tomb: allow => same "
                "versions/epochs with tombstoned values empty; default => rejected iff the range contains a tombstoned entry), audit",
        "assumptions": [],
    },
    "C05": {
        "thm_module": "AkdModel.Thm.C05",
        "theorems": ["Akd.C05." + t for t in [
            "membership_complete", "membership_complete_leaf", "nonmembership_complete", "membership_sound",
            "membership_sound_leaf", "nonmembership_sound", "membership_unbound_witness",
            "membership_sound_legacy_partial", "nonmembership_unsound_witness", "nonmembership_witness_rejected",
            "emptyLabelFresh_whatsappV1", "emptyLabelFresh_experimental", "nonmembership_complete_fails_empty"]]
            + ["Akd.Cfg.whatsappV1_lawful", "Akd.Cfg.experimental_lawful"],
        "streams": ["l1.trie"],
        "rule": "tries built through the real Azks::batch_insert_nodes: all prefix-free subsets of short labels embedded in "
                "256 bits, byte-boundary sets (shared prefixes 0..255), random sets up to 200 leaves, one or several epochs, both "
                "configurations; for every member and for non-members sharing prefixes with members: honest proofs (compared "
                "field by field, digests via term evaluation with the real hash) and the symbolic adversary (every ancestor as "
                "anchor, children swapped/emptied/relabelled, paths truncated at either end, directions flipped, sibling and parent "
                "labels altered, hash replaced by root/sibling/zero, other members' proofs relabelled); oracle on the real "
                "verifiers: accepted => statement true of the inserted leaf set, honest proof => accepted",
        "assumptions": [],
    },
    "C06": {
        "thm_module": ["AkdModel.Thm.C06", "AkdModel.Thm.C01c"],
        "theorems": ["Akd.C06.lookup_sound", "Akd.C06.lookup_unpublished_rejected", "Akd.C06.lookup_version_gt_epoch",
                     "Akd.C01.refines_honest", "Akd.C01.history_refines",
                     "Akd.C05.membership_sound_leaf", "Akd.C05.nonmembership_sound"],
        "streams": ["l1.dir.c06"],
        "rule": "histories with a label updated in every epoch; for every label after every second publish the symbolic adversary "
                "assembles lookup proofs the way a server holding key and tree can: every older version served with all its "
                "sub-proofs regenerated, its freshness proof forged at every ancestor of the stale leaf or swapped with another "
                "label's, altered value / epoch / version field (incl. > current epoch) / nonce, sibling-less root proofs for marker "
                "and existence, sub-proofs of other labels; verified by the real lookup_verify (compared with the model's verdict); "
                "oracle: accepted => result equals the honest verified result (latest version, value, epoch)",
        "assumptions": ["VRF contract: a proof identifies the input it was generated for (harness: byte-equal to the honest proof)"],
    },
    "C07": {
        "thm_module": ["AkdModel.Thm.C07", "AkdModel.Thm.C01c"],
        "theorems": ["Akd.C07.history_sound", "Akd.C07.history_sound_tombstone", "Akd.C07.history_unpublished_rejected",
                     "Akd.C07.late_stale_rejected", "Akd.C01.refines_honest", "Akd.C01.history_refines",
                     "Akd.C08.succ_mem_future"],
        "streams": ["l1.dir.c07"],
        "rule": "histories; for every label, Complete / MostRecent(2) / MostRecent(n), both verification modes: the honest proof "
                "edited by the symbolic adversary — newest/oldest entries dropped with marker proofs regenerated, absence of the "
                "dropped versions forged at every ancestor, gaps, duplicates, reorderings, value / epoch substitutions, tombstoned "
                "entries, missing previous-version proofs, dropped / root-proof marker proofs, and invented histories for "
                "unpublished labels; verified by the real key_history_verify (compared with the model's verdict); oracle: accepted "
                "=> the result is the true version list for the parameter (values empty only in allow mode, epochs true except "
                "known finding C07-F1)",
        "assumptions": ["VRF contract as in C06"],
    },
    "C09": {
        "thm_module": ["AkdModel.Thm.C09"],
        "theorems": ["Akd.C09." + t for t in ["audit_sound", "audit_verify_sound", "rebuildRoot_canonical", "labelsPrefixFree_iff",
                                              "length_mismatch_rejected", "root_substitution_rejected", "audit_unsound_witness",
                                              "audit_witness_rejected", "audit_unsound_witness_wf", "audit_witness_wf_rejected"]]
                    + ["Akd.C01.batchInsert_refines"],
        "streams": ["l1.dir.c09"],
        "rule": "random histories; after every effective publish the honest single-epoch audit proof of the latest transition is "
                "edited by the symbolic adversary (inserted label extending / equal to / a prefix (0,1,2,7,8 bits) of an "
                "unchanged node's label, dropped / duplicated / moved / relabelled unchanged and inserted nodes, wrong epoch, extra "
                "leaves) and verified by the real verify_consecutive_append_only against the real start hash and either the real "
                "end hash or the hash of the tree the auditor's own rebuild produces (the server chooses the end hash); oracle: "
                "accepted => every leaf of the earlier tree still lies under a surviving real node of the rebuilt tree",
        "assumptions": [],
    },
    "C08": {
        "thm_module": "AkdModel.Thm.C08",
        "theorems": ["Akd.C08.history_history_agree", "Akd.C08.markers_no_panic", "Akd.C08.past_lt_start",
                     "Akd.C08.future_bounds", "Akd.C08.succ_mem_future", "Akd.C08.lookup_below_history",
                     "Akd.C08.lookup_succ_history", "Akd.C08.lookup_history_conflict_iff",
                     "Akd.C08.lookup_history_gap_witness", "Akd.C08.lookup_history_gap_witness_33"],
        "streams": ["c08.markers"],
        "post": post_c08,
        "rule": "get_marker_versions real vs model: exhaustive for s<=n<=E<=bound, random u64 triples with "
                "structured corners, panicking inputs; then the bounded-exhaustive cross-proof table computed "
                "from the IMPLEMENTATION's marker sets (every n<m<=E, every s'): history/history must conflict, "
                "lookup/history gaps must lie inside the known family F1 (the gaps of the pinned marker function)",
        "assumptions": ["presence/absence proofs are sound (C05) and VRF labels are distinct per version (C18)"],
    },
}
