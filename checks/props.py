"""Per-property configuration of ./check: theorem obligations, correspondence streams,
property-specific post-processing (oracles that need several observations at once)."""
import json, os, re


def _parse_nats(s):
    s = s.strip()[1:-1]
    return [int(x) for x in s.split(",")] if s else []


def _marker_table(ops_file, obs_file, bound):
    """{(s,n,E): (past, future)} for the exhaustive part of the c08.markers stream"""
    tab = {}
    with open(ops_file) as fo, open(obs_file) as fb:
        for o, b in zip(fo, fb):
            t = o.split()
            if len(t) != 4 or t[0] != "mk":
                continue
            s, n, e = int(t[1]), int(t[2]), int(t[3])
            if e > bound or not (1 <= s <= n <= e):
                continue
            b = b.strip()
            if b == "panic":
                tab[(s, n, e)] = None
            else:
                p, f = b.split(" ")
                tab[(s, n, e)] = (_parse_nats(p), _parse_nats(f))
    return tab


def _gaps(tab, bound):
    """cross-proof agreement evaluated on a marker table.
    returns (hh_failures, hl_gaps, evaluated) — see DESIGN §7/C08 for the demand sets."""
    hh, hl = [], set()
    evaluated = 0
    past = {}
    fut = {}
    for (s, n, e), v in tab.items():
        if v is None:
            continue
        past[s] = v[0]
        fut[(n, e)] = v[1]
    for E in range(1, bound + 1):
        for n in range(1, E + 1):
            f = fut.get((n, E))
            if f is None:
                continue
            fs = set(f)
            for m in range(n + 1, E + 1):
                # lookup m vs complete history n
                evaluated += 1
                pw = 1 << (m.bit_length() - 1)
                if m not in fs and pw not in fs:
                    hl.add((E, n, m))
                # history [s', m] vs history [*, n]
                for s2 in range(1, m + 1):
                    evaluated += 1
                    p2 = past.get(s2)
                    if p2 is None:
                        continue
                    if not any((x in p2) or (s2 <= x <= m) for x in f):
                        if len(hh) < 20:
                            hh.append((E, n, s2, m))
    return hh, hl, evaluated


def post_c08(ctx):
    bound = 40 if ctx["tier"] == "quick" else 72
    res = next(r for r in ctx["results"] if r["ops_file"].endswith(f"c08.markers.{ctx['tier']}.ops"))
    base = res["ops_file"][:-4]
    impl_tab = _marker_table(res["ops_file"], base + ".impl", bound)
    model_tab = _marker_table(res["ops_file"], base + ".model", bound)
    hh_i, hl_i, ev = _gaps(impl_tab, bound)
    _, hl_m, _ = _gaps(model_tab, bound)
    failures = []
    for (E, n, s2, m) in hh_i:
        failures.append({"property": "C08", "tag": f"hh:{E}:{n}:{s2}:{m}",
                         "what": f"two history proofs do not conflict: epoch {E}, latest {n} vs range [{s2},{m}] "
                                 f"(no version shown absent by the first is shown present by the second)",
                         "replay_lines": [f"mk 1 {n} {E}", f"mk {s2} {m} {E}"]})
    for (E, n, m) in sorted(hl_i):
        in_family = (E, n, m) in hl_m
        failures.append({"property": "C08",
                         "tag": ("F1-gap" if in_family else f"hl-new:{E}:{n}:{m}"),
                         "what": f"complete history with latest {n} and lookup of version {m} do not conflict at epoch {E}",
                         "replay_lines": [f"mk 1 {n} {E}", f"mk {m} {m} {E}"]})
    smallest = min(hl_i) if hl_i else None
    return {"oracle_failures": failures, "evaluations": ev,
            "cross_table_bound": bound, "lookup_history_gaps_impl": len(hl_i),
            "lookup_history_gaps_model": len(hl_m), "smallest_gap": smallest,
            "history_history_nonconflicts": len(hh_i),
            "samples": [f"cross-proof table E<={bound}: {len(hl_i)} lookup/history gaps (known family F1), "
                        f"{len(hh_i)} history/history non-conflicts"]}


COMMON_ASSUME = [
    "BLAKE3 idealised as a free term algebra (collision-free; no digest equals a structured preimage fragment)",
    "the correspondence run is differential testing: as strong as its generators (distribution in coverage)",
]

PROPS = {
    "C17": {
        "thm_module": "AkdModel.Thm.C17",
        "theorems": ["Akd.C17." + t for t in [
            "isPrefixOf_iff", "getPrefix_spec", "getPrefix_ge", "bits_getPrefix", "lcp_spec", "lcp_empty",
            "prefixOrdering_spec", "cmp_spec", "bits_ofBits", "ofBits_normalised", "ofBits_bits",
            "partition_sorted_eq_linear", "setLcp_sorted_eq_linear", "setLcp_counterexample",
            "containsPrefix_sorted_eq_linear", "sortByLabel_sorted"]],
        "streams": ["c17"],
        "rule": "exhaustive pairs of short labels (at bit offset 0 and behind shared prefixes crossing byte "
                "boundaries), every length 0..256 with adversarial patterns and garbage beyond the length, "
                "over-long lengths, all small label sets at 4 offsets plus random sets; each op line runs on "
                "the Rust code and on the Lean model and is judged by an independent bit-string oracle; "
                "distinct = distinct op lines",
        "assumptions": ["u32/usize modelled as Nat (no operation overflows for label_len <= 2^32-1)"],
    },
    "C08": {
        "thm_module": "AkdModel.Thm.C08",
        "theorems": ["Akd.C08.history_history_agree", "Akd.C08.markers_no_panic", "Akd.C08.past_lt_start",
                     "Akd.C08.future_bounds", "Akd.C08.succ_mem_future", "Akd.C08.lookup_below_history",
                     "Akd.C08.lookup_succ_history", "Akd.C08.lookup_history_conflict_iff",
                     "Akd.C08.lookup_history_gap_witness", "Akd.C08.lookup_history_gap_witness_33"],
        "streams": ["c08.markers"],
        "post": post_c08,
        "rule": "get_marker_versions real vs model: exhaustive for s<=n<=E<=bound, random u64 triples with "
                "structured corners, panicking inputs; then the bounded-exhaustive cross-proof table computed "
                "from the IMPLEMENTATION's marker sets (every n<m<=E, every s'): history/history must conflict, "
                "lookup/history gaps must lie inside the known family F1 (the gaps of the pinned marker function)",
        "assumptions": ["presence/absence proofs are sound (C05) and VRF labels are distinct per version (C18)"],
    },
}
