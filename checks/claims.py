"""Claim texts for MANIFEST.json (kept apart from the machinery)."""
BASE_NOTE = ("Trusted: Lean 4.33 kernel; axioms propext, Classical.choice, Quot.sound only (audited per theorem on every run); "
             "the hand-written model's faithfulness is CHECKED, not proved, by the correspondence run (differential testing, as "
             "strong as its generators); harness, oracles and `check` themselves. ")
CLAIMS = {
    "C08": {
        "text": "Proved in Lean over the literal model of get_marker_versions: a lookup below the history's latest version is "
                "always contradicted; the full-strength lookup/history clause is FALSE for the code as it is (kernel-checked "
                "witnesses (E,n,m)=(7,4,7) and (33,5,33)) — known finding C08-F1. The marker model is tied to the Rust by an "
                "exhaustive+random correspondence run, and the cross-proof table (history/history for all ranges, lookup/history "
                "for all n<m<=E) is evaluated on the implementation's own marker sets: any history/history non-conflict or any "
                "lookup/history gap outside the pinned family is a violation. The unbounded history/history theorem is in progress "
                "and is added to the obligations when closed.",
        "note": BASE_NOTE + "Assumes presence/absence proofs are sound (C05) and VRF labels distinct per version (C18). u64 modelled as Nat; "
                "`x & !mask` written as shift-right/shift-left (validated over the whole u64 range by the correspondence run).",
    },
}
NOT_YET = {}
