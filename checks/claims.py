"""Claim texts for MANIFEST.json (kept apart from the machinery)."""
BASE_NOTE = ("Trusted: Lean 4.33 kernel; axioms propext, Classical.choice, Quot.sound only (audited per theorem on every run); "
             "the hand-written model's faithfulness is CHECKED, not proved, by the correspondence run (differential testing, as "
             "strong as its generators); harness, oracles and `check` themselves. ")
CLAIMS = {
    "C08": {
        "text": "Proved in Lean over the literal model of get_marker_versions: a lookup below the history's latest version is "
                "always contradicted; the full-strength lookup/history clause is FALSE for the code as it is (kernel-checked "
                "witnesses (E,n,m)=(7,4,7) and (33,5,33)) — known finding C08-F1. The marker model is tied to the Rust by an "
                "exhaustive+random correspondence run, and the cross-proof table (history/history for all ranges, lookup/history "
                "for all n<m<=E) is evaluated on the implementation's own marker sets: any history/history non-conflict or any "
                "lookup/history gap outside the pinned family is a violation. The unbounded history/history theorem is in progress "
                "and is added to the obligations when closed.",
        "note": BASE_NOTE + "Assumes presence/absence proofs are sound (C05) and VRF labels distinct per version (C18). u64 modelled as Nat; "
                "`x & !mask` written as shift-right/shift-left (validated over the whole u64 range by the correspondence run).",
    },
}
CLAIMS["C17"] = {
    "text": "Proved in Lean, for ALL labels of length 0..256 with arbitrary bytes beyond the length (no alignment assumption): "
            "is_prefix_of = prefix of bit strings; get_prefix keeps the first n bits and clears the rest; longest common prefix = "
            "common prefix of the bit strings and is normalised; get_prefix_ordering = next-bit direction; Ord = (length, 256-bit "
            "lexicographic); ofBits/bits round trip. For label sets: the binary-search implementations of partition, set-lcp and "
            "contains_prefix (a literal model of std's binary_search_by / partition_point) equal the linear ones on sorted "
            "equal-length sets, and insertion sort sorts. The byte-level model (shifts, masks, loops) is tied to the Rust by an "
            "exhaustive+structured correspondence run (all pairs of short labels, every length with adversarial patterns, all small "
            "label sets via the cfg(akd_verif) hook), judged additionally by an independent bit-string oracle in the harness.",
    "note": BASE_NOTE + "Per-byte shift facts are finite tables closed by `decide +kernel` over Fin 256 x Fin 8 x Fin 8 and lifted to UInt8. "
            "`sort_unstable` is modelled by insertion sort (any sort agrees up to the order of equal labels). setLcp_sorted_eq_linear "
            "needs the configuration's empty label to have length 0 (true of both; the statement without it is false: "
            "setLcp_counterexample). Lengths > 256 are covered by the correspondence run only.",
}
CLAIMS["C05"] = {
    "text": "Proved in Lean for EVERY proof value (not only generated ones), any well-formed trie with 256-bit leaves, both "
            "configurations: generated membership proofs verify and carry the leaf's true digest; generated non-membership proofs "
            "verify for every non-member; an accepted membership proof speaks about a real element of the tree (a leaf-shaped digest "
            "only for a real leaf with its true value and epoch); an accepted non-membership proof is impossible for a member. The "
            "verifiers of the pinned commit were NOT sound: kernel-checked witnesses for D8 (label unbound without sibling levels) "
            "and D1 (non-deepest anchor), both repaired in /repo (fix: commits) and kept as regression corpus. The verifier/generator "
            "models are tied to the Rust by comparing every generated proof and every verdict on adversarially edited proofs.",
    "note": BASE_NOTE + "Digests are symbolic (Cfg.Lawful proved for both configurations from constructor freeness). Known finding C05-F2: "
            "honest non-membership proof on the EMPTY tree is rejected (theorem nonmembership_complete_fails_empty; needs t != empty).",
}
CLAIMS["C01"] = {
    "text": "Proved in Lean: (a) the canonical compressed trie over a prefix-free leaf set is well defined (a well-formed trie is "
            "determined by its leaves: wf_unique; insertion order is irrelevant: ofLeaves_perm; with a lawful configuration the root "
            "hash determines the trie: rootHash_injective); (b) THE REFINEMENT THEOREM batchInsert_refines: the model of the code's "
            "batch insertion (label-keyed storage with versioned records, sorted/unsorted element sets with binary search, "
            "decompression, bottom-up re-hashing, last_epoch/min_descendant_epoch with the 0 sentinel) applied to ANY represented "
            "well-formed trie and ANY prefix-free batch (labels of any length <= 256, both configurations, directory and auditor "
            "mode) yields storage representing exactly the canonical trie over old + new leaves, with its digests and epoch "
            "metadata; corollaries: published root hash = canonical root hash, and independence of the batch order. The model of "
            "the algorithm is tied to the Rust by the correspondence run (full database dump after every publish), and the "
            "end-to-end statement (root = canonical root over the SPECIFICATION's leaf set, epoch = number of effective "
            "publishes, re-submissions and duplicate batches without effect) by the oracle line spec.root after every publish.",
    "note": BASE_NOTE,
}
CLAIMS["C02"] = {
    "text": "Proved in Lean (lookup_complete): in EVERY directory state reached by publishes (Refines c d sp, established for all "
            "histories by C01's refinement theorem) and for every published label, the model of Directory::lookup succeeds with "
            "(latest epoch, specification root hash) and the model of lookup_verify accepts the returned proof with (epoch of the "
            "label's latest update, version count, latest value); unpublished labels get NotFound (lookup_unpublished). Underneath: "
            "the storage walk of get_membership_proof / get_non_membership_proof returns exactly the canonical trie's proofs "
            "(membershipProof_refines, nonMembershipProof_refines — false for a query that properly extends a leaf label, see the "
            "kernel-checked counterexample; unreachable with 256-bit labels, noProperPrefix_of_256). The correspondence run compares "
            "every real LookupProof field by field with the model's and the real lookup_verify result with the specification. BATCH "
            "LOOKUP: Dir.batchLookup mirrors batch_lookup's structure (all lookup infos first, one root hash, then the proofs); it "
            "succeeds iff every single lookup succeeds and then returns exactly the single lookups' proofs with the same epoch and "
            "root hash (batchLookup_sound, batchLookup_complete, batchLookup_fails), hence verifies per label to the "
            "specification's answer in every state reached by publishes (batch_lookup_complete), and fails when a label was "
            "never published (batch_lookup_unpublished); tied to the Rust by dir.batchlookup / spec.batchlookup lines (all "
            "published labels, random sub-batches with repeats, a batch with an unpublished label, the empty batch).",
    "note": BASE_NOTE,
}
CLAIMS["C03"] = {
    "text": "Proved in Lean (history_complete): in every directory state reached by publishes, for every published label and every "
            "parameter (Complete, MostRecent n >= 1, also n beyond the version count), the model of key_history succeeds and both "
            "verifiers (strict and tombstone-tolerant) accept the proof with exactly the specification's version list — newest "
            "first, all or the newest min(n,total), each with its value and epoch. Uses the marker facts of C08 (no panic, past "
            "markers present, future markers absent). The correspondence run compares every real HistoryProof with the model's "
            "and the real key_history_verify result list with the specification.",
    "note": BASE_NOTE,
}
CLAIMS["C04"] = {
    "text": "Proved in Lean (audit_complete): for the storage of ANY tree reached by batch insertions and any 0 <= s < e <= latest "
            "epoch, the proof generated from the LATEST tree (appendOnlyProof_eq characterises it: per epoch the maximal unchanged "
            "sub-tries and the inserted leaves) is accepted by the auditor against the root hashes the tree had at epochs s..e — "
            "however many epochs follow e; invalid ranges are refused (audit_refused). Hypothesis: some leaf has epoch >= e, true of "
            "every directory state because publish never advances the epoch with an empty batch (audit_complete_dense); without it "
            "the statement is false for the raw Azks API (audit_counterexample, kernel-checked: empty batches advance the epoch and "
            "the generated proof is empty). The correspondence run audits ALL pairs (s,e) of each history with the real "
            "audit_verify as oracle and compares generation + auditor line by line with the model.",
    "note": BASE_NOTE + "audit_complete is stated over the node store and canonical tree; its link to whole directory histories is C01's refinement theorem plus the per-epoch density of publishes.",
}
CLAIMS["C20"] = {
    "text": "Proved in Lean over the directory model (Dir.tombstone): tombstoning leaves the node store and epoch record untouched "
            "(tombstone_keeps_tree), hence the epoch hash and every audit proof (tombstone_epochHash, tombstone_audit); lookups of "
            "other labels, and of the tombstoned label when the cut is below its latest update, return the identical answer "
            "(tombstone_other_lookup, tombstone_own_lookup); a later publish produces the same tree, epoch and root hash as it "
            "would have without the tombstone, with value states equal up to the tombstoned values (tombstone_then_publish). At "
            "storage level (Store.tombstone, the model of StorageManager::tombstone_value_states): the label's states after the call are "
            "exactly the old ones with those of epoch <= cut turned into tombstones, inside an open transaction as outside "
            "(tombstone_exact, tombstone_keeps_later), every other key reads as before (tombstone_frame), the transaction flag is "
            "untouched (tombstone_active); tied to the Rust by the l1.store stream (tombstones outside and inside transactions, "
            "oracle on the manager's view before/after). THE HISTORY CLAUSE (Thm/C20c): in every state reached by publishes, after "
            "tombstone(u, cut) the history request still succeeds with the unchanged epoch hash; the verifier that allows missing "
            "values accepts it with the same versions and epochs, tombstoned values empty and later values intact "
            "(tombstone_history_allow); the strict verifier accepts iff no entry of the requested range is tombstoned "
            "(tombstone_history_default_ok / tombstone_history_default_rejects); other labels' histories are the identical "
            "answer (tombstone_other_history); repeated tombstoning is tombstoning up to the larger cut (tombstone_twice). What a "
            "history request shows for tombstoned entries is decided by the correspondence run with oracles spec.root / spec.lookup "
            "/ spec.history.tomb after every tombstone step and after further publishes.",
    "note": BASE_NOTE,
}
CLAIMS["C16"] = {
    "text": "Proved in Lean over the storage-manager state machine (Store.lean, every operation in the order of effects of "
            "manager/mod.rs): the invariant 'the cache holds only what the database holds' survives EVERY operation — writes the "
            "database rejects, failing commits, eviction of any key set at any time cleaning is enabled (covers all lifetimes, memory "
            "limits and clean frequencies at once), flushes, transactions (inv_step, inv_run); therefore every single and batched "
            "read returns the database's record or the pending transaction value, and after a flush the epoch record is read from "
            "storage. The pinned commit violated it (rejected_write_witness, defect D3, repaired). Model tied to the real "
            "StorageManager by random operation sequences with injected write failures and real sleeps, with an independent oracle.",
    "note": BASE_NOTE + "Store.lean's atomic step is one manager call; the concurrent part is the separate model CacheFill.lean (one "
            "entry, versions as numbers): for EVERY interleaving of readers, the writer and expiry, a read-through fill never leaves "
            "an older version in the cache than the database holds (coherent_reachable, quiescent_cache_exact, answers_recent), "
            "while the pinned code does (stale_fill_witness — defect D11, found on the real code by the storage-call scheduler "
            "with read latency, repaired). DashMap shard internals are not modelled.",
}
CLAIMS["C15"] = {
    "text": "Proved in Lean: inside a transaction, get / the five user-state retrieval flags / all states / bulk versions return what "
            "the same read returns on the committed state (for well-formed data), commit hands the database exactly the pending "
            "records with the epoch record last, rollback discards, a second begin is refused. The pinned commit's bulk-versions "
            "merge mixed epoch and version (versions_merge_witness, defect D7, repaired). Tied to the real manager by the l1.store "
            "sequences with a post-commit-copy oracle.",
    "note": BASE_NOTE + "memory.rs and transaction.rs selection loops are modelled by one `select` function (equal on well-formed data; the "
            "correspondence run compares them on well-formed streams).",
}
CLAIMS["C10"] = {
    "text": "Proved in Lean: for ANY insertion program (arbitrary reads and transaction-log writes) and a failure at ANY database "
            "step, a publish that does not succeed leaves the database as it was, no transaction open and the cache coherent, so every "
            "later read returns what it returned before (publish_fail_no_effect, reads_after_failure); the pinned ordering was wrong "
            "twice (commit_fail_pollutes_cache: D3; root_read_after_commit_witness: D9). Tied to the real Directory::publish by "
            "exhaustive fault enumeration over every storage-operation index with the property's statement as oracle (same and "
            "fresh instance, proofs re-verified, retry), cached/uncached, sequential/parallel insertion.",
    "note": BASE_NOTE + "The theorem abstracts the insertion; that the real call has the assumed control flow is checked on every recorded "
            "trace (reads only before the commit write, nothing after it). Detached tasks of the parallel insertion (D10) are a runtime "
            "behaviour: found by the enumeration, not by the theorem.",
}
CLAIMS["C09"] = {
    "text": "Proved in Lean, full strength, for EVERY proof value: if the (repaired) auditor accepts a single-epoch proof against the root "
            "hashes of two well-formed tries T1, T2 then every leaf of T1 (label, value commitment, insertion epoch) is a leaf of T2 "
            "(audit_sound), lifted to audit_verify over any number of epochs (audit_verify_sound); inconsistent list lengths are "
            "rejected; replacing a root hash makes verification fail. The proof goes through the refinement theorem (the auditor's "
            "rebuild IS the real insertion algorithm: rebuildRoot_canonical) and a frontier lemma over Cfg.Lawful. The pinned auditor "
            "was not sound: kernel-checked witnesses where both tries are well-formed, the legacy auditor accepts and a leaf is gone "
            "(defect D2, repaired in /repo; the repaired check is characterised exactly by labelsPrefixFree_iff). The auditor model is "
            "tied to the Rust by the adversarial correspondence run with an independent oracle.",
    "note": BASE_NOTE,
}
CLAIMS["C06"] = {
    "text": "Proved in Lean, full strength, for EVERY proof value: against the root of a tree that is honest for the label (HonestFor: exactly the fresh leaves of its versions 1..n with commitment and epoch, exactly the stale leaves of the superseded versions stamped with the successor's epoch), any accepted lookup proof reports the latest version, its value and the epoch of that update (lookup_sound); nothing is accepted for an unpublished label; a version above the current epoch is rejected. That the directory's publish produces such a tree for every label after every history is proved too (history_refines + refines_honest, C01c), so the theorem applies to the model of the real directory. The verifier and directory models are tied to the Rust by the adversarial correspondence run (a symbolic server adversary on the real lookup_verify, with an independent oracle).",
    "note": BASE_NOTE + "VRF modelled by its contract (a proof identifies the input it was generated for; distinct inputs give distinct 256-bit labels on the inputs in play) over an oracle table from the real HardCodedAkdVRF.",
}
CLAIMS["C07"] = {
    "text": "Proved in Lean, full strength, for EVERY proof value and both parameters (Complete, MostRecent n): against an honest root the strict verifier accepts only proofs whose result IS the true version list (history_sound); with missing values allowed the versions are the true ones, values are the true ones or empty, and epochs are true except possibly for a version-1 entry carried with the empty value (history_sound_tombstone — known finding C07-F1, confirmed on the real verifier and kernel-checked as a witness); nothing is accepted for an unpublished label; if the tree does not retire version v-1 in the very epoch of v, no proof covering v verifies (late_stale_rejected). Honesty of the directory's tree is proved (C01c). Tied to the Rust by the adversarial correspondence run on the real key_history_verify in both modes with an independent oracle.",
    "note": BASE_NOTE + "VRF modelled by its contract over an oracle table.",
}
CLAIMS["C14"] = {
    "text": "Proved in Lean: the tree produced by the insertion algorithm does not depend on the order of the batch "
            "(batchInsert_perm, through the refinement to the canonical trie and its uniqueness), nor on its division into "
            "sub-batches within one epoch (batchInsert_split, batchInsert_split_rootHash: the refinement theorem holds for a tree "
            "that already contains leaves of the epoch being inserted, batchInsert_refines_sameEpoch), under both configurations; "
            "reads through the storage manager do not depend on what the cache holds (C16: get_eq_truth, batchGet_eq_truth, "
            "inv_run). The "
            "model has no notion of task, cache, preload or object lifetime, so 'identical under every configuration' is, on the "
            "model side, the statement that the implementation under EACH configuration corresponds to the ONE model run: the "
            "check executes the same ops stream under an 18-entry matrix (parallelism x cache x restarts x read-only wrapper x "
            "feature build) and compares every observation with the single model output, plus an order/sub-batch oracle.",
    "note": BASE_NOTE + "Partial: tokio's scheduling of spawned tasks is sampled by real multi-thread runs, not enumerated.",
}
CLAIMS["C13"] = {
    "text": "Proved in Lean (record level, full strength for the repaired rule): for every record reachable by any sequence of "
            "write_to_storage calls — repeated writes within one epoch and the epoch-preserving decompression rewrite included — and "
            "EVERY target epoch t, however far behind, determine_node_to_get returns the version that was current at t or an "
            "error, never a newer one (snapshot_read with write_preserves / write_new / write_frame); so a request that fixes its "
            "target epoch once reads the tree of that epoch or fails. REQUEST LEVEL (Thm/C13c): after a complete further publish "
            "the store shows, as of ANY earlier epoch, what it showed before or 'not found' (viewLe_publish; transitive, so for any "
            "number of publishes); on such a view every proof generator returns exactly its earlier answer or an error (reads_le, "
            "audit_le) — which needed the proof generators' child read to FAIL when a named child cannot be read "
            "(getChildForProof): with the pinned rule it does not hold (legacy_lag_witness), defect D13, found on the real code by "
            "lagging readers with a partly warm cache and repaired; hence an instance that still holds an old epoch record answers "
            "the epoch hash and every lookup, history and audit request exactly as the directory did at that epoch, or with an error "
            "(lagging_requests). END TO END (Thm/C13d, lagging_instance): for ANY publish histories h1 and h2 (rejected and no-op "
            "batches included), the instance that holds the epoch record of the state after h1 and reads the storage of the state "
            "after h1 ++ h2 answers the epoch hash and every lookup, key-history and audit request exactly as the directory did "
            "after h1 — i.e. with the pair it published then and the proof it served then, which verifies (C02/C03/C04) — or with "
            "an error; the storage invariants this needs (every record of an epoch <= current, records stored under their labels, "
            "the database holds nothing but nodes of the tree) are proved for every state reached by publishes (storeOK_init, "
            "storeOK_publish). The pinned rule was wrong at lag >= 2 (lag2_witness, defect "
            "D4, repaired). Tied to the Rust by runs with read-only instances lagging 0..3 epochs, compared with the model and "
            "judged by the published-epoch-hash oracle, AND by enumerating all interleavings (bounded preemptions) of read requests "
            "on a second instance with a publish at storage-call granularity — which found that key_history re-read the epoch record "
            "per update proof (defect D5, repaired), and, with readers sharing the writer's cached storage manager and read "
            "latency, that a stale read-through fill replaced the committed records in the cache (defect D11, repaired; the repaired "
            "protocol is proved coherent for all interleavings in CacheFill.lean). THE CHANGE-POLLER CLAUSE: proved in Lean over the "
            "polling model Poll.lean (poller with detection / cache_lock.write / flush / re-fetch through the cache / notification, "
            "guarded requests, publishes by another instance, every interleaving): a request that starts after epoch k was signalled "
            "is answered from an epoch >= k (answers_after_signal), the cached epoch record is never older than what was signalled "
            "(signalled_is_served), no request overlaps the flush (flush_excludes_requests); it FAILS for a request that does not take "
            "the lock (unguarded_witness) — which is what get_epoch_hash did at the pinned commit: defect D12, found on the real code "
            "by running poll_for_azks_changes as a daemon task under the storage-call scheduler (paused clock), repaired in /repo.",
    "note": BASE_NOTE + "The interleaving exploration is a search over schedules of the real code (it supplies the failing schedule); the "
            "theorem is the record-level snapshot property those requests rely on.",
}
CLAIMS["C18"] = {
    "text": "PARTIAL by nature (computational cryptography). Proved in Lean: the byte string hashed into the VRF input is injective in "
            "(label, freshness, version) for all labels and versions < 2^64 (labelInput_injective; the bound is necessary); ECVRF "
            "completeness in an abstract module-over-scalars model — both verification equations hold for every honestly generated "
            "proof and gamma is the evaluation, independent of the nonce (vrf_complete, vrf_deterministic); the 80-byte proof encoding "
            "round-trips, other lengths are rejected, and the non-canonical s + l encoding decodes to the SAME proof; verify_label's "
            "decision logic over the VRF contract (accepted iff honest proof for exactly this input and the claimed label is its "
            "output; any single-field alteration is rejected; the node label binds the input). NOT theorems, assumed as the VRF "
            "contract elsewhere and only explored here by the oracle on the real code: output uniqueness / non-malleability, key "
            "separation, SHA-512 and curve arithmetic.",
    "note": BASE_NOTE + "The clause 'no alteration of the proof bytes makes a different node label verify' and 'labels and commitments under "
            "different keys differ' rest on the exploration (all 80 bytes x 3 alterations, per input), not on a theorem.",
}
CLAIMS["C11"] = {
    "text": "Proved in Lean over the model of the real insertion algorithm and of write_to_storage / determine_node_to_get: for storage "
            "representing ANY well-formed trie at epoch e and ANY prefix-free batch inserted at e+1 inside a transaction, for EVERY "
            "sub-collection W of the transaction log's node records written to the database (any subset, any order), every node of the "
            "trie still reads, as of epoch e, exactly as before (partial_commit_invisible; modulo the parent field no proof reads); "
            "keys new in the epoch resolve to not-found at e; the database is untouched before the commit; once the whole log is "
            "written the storage represents the new trie (full_commit_visible). REQUEST LEVEL (Thm/C11b): every proof generator reads "
            "the store only through get-node-as-of-epoch and never the parent field (reads_congr, audit_congr), so a directory "
            "instance opened on the partially written storage — old epoch record, ANY part of the commit's node records, any "
            "value states of the unfinished epoch — returns the identical epoch hash and the identical answer to every lookup, "
            "key-history and audit request as the instance before the publish (partial_commit_requests). Tied to the Rust by exhaustive/randomised partial "
            "application of real commit batches with fresh instances and the property's statement as oracle.",
    "note": BASE_NOTE + "The theorem is about node records; value states of the unfinished epoch are invisible because readers filter by "
            "epoch <= the epoch record (checked by the oracle, modelled in Dir.stateLeq / keyHistory). Hypotheses added by the proof: the "
            "database holds records under their own labels (WellKeyed) and statements range over the trie's node keys (stray records "
            "under unused keys are not constrained by the representation predicate).",
}
CLAIMS["C12"] = {
    "text": "Proved in Lean over the transition system of concurrent publishes at storage-operation granularity (Conc.lean), for the "
            "repaired protocol (a mutex shared by the clones held for the whole call), for EVERY schedule, any number of publishers, any "
            "number of node reads, effective and no-op batches: commits reach the database with distinct consecutive epochs, every "
            "publisher that returns epoch e after changing the directory is the one that wrote e, no-op publishes leave no trace, and "
            "there is no deadlock (serializable, noop_no_effect, progress). The pinned protocol loses an epoch under a two-publisher "
            "schedule (lost_epoch_witness, defect D6, repaired in /repo). Tied to the Rust by a deterministic scheduler: ALL schedules "
            "with bounded preemptions of 2-3 publish calls on clones of the real Directory are executed, judged by the serialisability "
            "oracle against a serial re-execution, and every run's storage-call trace is validated by the model.",
    "note": BASE_NOTE + "Partial: preemption inside in-memory sections on a multi-thread runtime (DashMap shards, relaxed atomics) is not in "
            "the model; the model abstracts node contents to epoch stamps.",
}
CLAIMS["C19"] = {
    "text": "Proved in Lean over the wire model (Proto.lean): every proof type converts to its protobuf message and back to an identical "
            "value (ten typed round trips, for every well-formed value: labels <= 256 bits, 32-byte digests); over-long labels and "
            "wrong-size digests are rejected by the conversion; varints round-trip; the generic parser inverts the canonical writer "
            "for every schema-conformant message of nesting depth <= 12 (wire_roundtrip, up to field-order equivalence, which the "
            "conversions cannot observe), hence lookup / history / append-only proofs survive encode -> bytes -> parse -> convert "
            "unchanged; audit blob names round-trip. Decoding is a total function in the model; that every model error is a Rust Err "
            "and not a panic, and that the parser model (incl. its leniencies: a nested message longer than the data is accepted at "
            "depth 1, unterminated inner groups) is the generated code's behaviour, is decided by the correspondence run on real and "
            "corrupted encodings. 'If it still verifies, same result' is checked by the oracle on the real verifiers and is a corollary "
            "of lookup_sound / history_sound / audit_sound.",
    "note": BASE_NOTE + "rust-protobuf itself is modelled, not verified.",
}
NOT_YET = {}
