"""Claim texts for MANIFEST.json (kept apart from the machinery)."""
BASE_NOTE = ("Trusted: Lean 4.33 kernel; axioms propext, Classical.choice, Quot.sound only (audited per theorem on every run); "
             "the hand-written model's faithfulness is CHECKED, not proved, by the correspondence run (differential testing, as "
             "strong as its generators); harness, oracles and `check` themselves. ")
CLAIMS = {
    "C08": {
        "text": "Proved in Lean over the literal model of get_marker_versions: a lookup below the history's latest version is "
                "always contradicted; the full-strength lookup/history clause is FALSE for the code as it is (kernel-checked "
                "witnesses (E,n,m)=(7,4,7) and (33,5,33)) — known finding C08-F1. The marker model is tied to the Rust by an "
                "exhaustive+random correspondence run, and the cross-proof table (history/history for all ranges, lookup/history "
                "for all n<m<=E) is evaluated on the implementation's own marker sets: any history/history non-conflict or any "
                "lookup/history gap outside the pinned family is a violation. The unbounded history/history theorem is in progress "
                "and is added to the obligations when closed.",
        "note": BASE_NOTE + "Assumes presence/absence proofs are sound (C05) and VRF labels distinct per version (C18). u64 modelled as Nat; "
                "`x & !mask` written as shift-right/shift-left (validated over the whole u64 range by the correspondence run).",
    },
}
CLAIMS["C17"] = {
    "text": "Proved in Lean, for ALL labels of length 0..256 with arbitrary bytes beyond the length (no alignment assumption): "
            "is_prefix_of = prefix of bit strings; get_prefix keeps the first n bits and clears the rest; longest common prefix = "
            "common prefix of the bit strings and is normalised; get_prefix_ordering = next-bit direction; Ord = (length, 256-bit "
            "lexicographic); ofBits/bits round trip. For label sets: the binary-search implementations of partition, set-lcp and "
            "contains_prefix (a literal model of std's binary_search_by / partition_point) equal the linear ones on sorted "
            "equal-length sets, and insertion sort sorts. The byte-level model (shifts, masks, loops) is tied to the Rust by an "
            "exhaustive+structured correspondence run (all pairs of short labels, every length with adversarial patterns, all small "
            "label sets via the cfg(akd_verif) hook), judged additionally by an independent bit-string oracle in the harness.",
    "note": BASE_NOTE + "Per-byte shift facts are finite tables closed by `decide +kernel` over Fin 256 x Fin 8 x Fin 8 and lifted to UInt8. "
            "`sort_unstable` is modelled by insertion sort (any sort agrees up to the order of equal labels). setLcp_sorted_eq_linear "
            "needs the configuration's empty label to have length 0 (true of both; the statement without it is false: "
            "setLcp_counterexample). Lengths > 256 are covered by the correspondence run only.",
}
NOT_YET = {}
