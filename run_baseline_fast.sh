#!/bin/bash
# Baseline suite without the two tests that always time out (BASELINE.json: always_fail).
cd /repo && CARGO_NET_OFFLINE=true cargo nextest run --workspace --no-fail-fast --tool-config-file pb:/w/lib/nextest.toml --profile pb --test-threads 8 --offline -E 'not test(test_output_vectors)' 2>&1 | tail -15
