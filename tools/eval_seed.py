#!/usr/bin/env python3
"""Apply a seeded change to /repo, run the given checks, undo the change.
usage: eval_seed.py <patch.diff> <C01> [<C02> ...]    (prints one line per check)"""
import subprocess, sys, os, json, time
patch = os.path.abspath(sys.argv[1])
checks = sys.argv[2:]
def sh(cmd, **kw):
    return subprocess.run(cmd, shell=True, text=True, capture_output=True, **kw)
st = sh("git -C /repo status --porcelain")
if st.stdout.strip():
    print("refusing: /repo is not clean"); sys.exit(2)
r = sh(f"git -C /repo apply --whitespace=nowarn {patch}")
if r.returncode != 0:
    # the patch was made against an earlier commit of /repo: fall back to a three-way merge
    r = sh(f"git -C /repo apply --3way --whitespace=nowarn {patch}")
    if r.returncode != 0 or "with conflicts" in r.stderr:
        sh("git -C /repo reset -q --hard")
        print("patch does not apply:", r.stderr[:500]); sys.exit(2)
    sh("git -C /repo reset -q")   # --3way stages the result; keep it in the working tree only
out = {}
try:
    for c in checks:
        t0 = time.time()
        r = sh(f"cd /verif && ./check {c} --tier quick")
        viol = [l for l in r.stdout.splitlines() if l.startswith("VIOLATION")]
        first = ""
        lines = r.stdout.splitlines()
        for i, l in enumerate(lines):
            if l.startswith("VIOLATION") and i + 1 < len(lines):
                first = lines[i + 1].strip()[:300]; break
        out[c] = {"exit": r.returncode, "violations": len(viol), "first": first,
                  "no_failing_input": any("no-failing-input-found" in v for v in viol), "wall_s": round(time.time() - t0)}
        print(c, json.dumps(out[c]))
finally:
    sh("git -C /repo reset -q && git -C /repo checkout -- . && git -C /repo clean -fdq -e target")
    st = sh("git -C /repo status --porcelain")
    if st.stdout.strip():
        print("WARNING: /repo not clean after undo:", st.stdout[:300])
print("RESULT", json.dumps(out))
