#!/bin/bash
# Runs the thorough tier of every property (used with `vp run --with-repo`: builds everything in the snapshot,
# against the snapshot of /repo, so that work going on in /verif and /repo does not disturb it).
cd "$(dirname "$0")/.."
export VERIF_REPO=${VP_RUN_REPO:-/repo}
./check --setup || exit 1
for c in ${@:-C01 C02 C03 C04 C05 C06 C07 C08 C09 C10 C11 C12 C13 C14 C15 C16 C17 C18 C19 C20}; do
  /usr/bin/time -f "$c %es" ./check $c --tier thorough 2>&1 | tail -n 4 | cut -c1-400
done
