#!/bin/bash
# usage: mkprompt.sh <PID> <SUFFIX> [extra hint]   -> prints the prompt; creates the worktree /tmp/wt_<PID><SUFFIX>
pid=$1; sfx=$2; hint=$3; id=${pid}${sfx}
git -C /repo worktree add --detach /tmp/wt_$id HEAD >/dev/null 2>&1
mkdir -p /tmp/seed_$id
cat <<P
You are helping to evaluate a verification framework by mutation: you will write ONE small, realistic change to the Rust library facebook/akd (an auditable key directory) that BREAKS a stated semantic property while the code still compiles and the existing test suite still passes.

Your scratch git worktree of the repository is /tmp/wt_$id (work ONLY there; never touch /repo or /verif, never read anything under /verif). Output directory: /tmp/seed_$id/.

The property to break:
--------------------------------------------------------------------------
$(cat /tmp/seedkit/$pid.prop.txt)
--------------------------------------------------------------------------
(The anchors may describe mechanisms slightly differently from the current code, because some defects have since been repaired in the repository; read the current code.)

What I need from you:
1. Read the relevant code. Design a change to the LIBRARY code (akd/ or akd_core/ crates, non-test code) that a developer could plausibly make (a refactor gone subtly wrong, an "optimisation", a re-ordered step, an off-by-one, a dropped check, a changed condition) and that makes the property false. It must need something SPECIFIC to manifest — a particular interleaving, a crash/fault at a particular point, a multi-step sequence of operations, an unusual input, or two cooperating sites that each look fine alone — NOT something that ordinary use exposes at once. Prefer subtle over blatant. $hint
2. The change must compile, and ALL existing tests must still pass with it. The suite command (run it in the worktree; use at most 6 test threads because the machine is shared; the two tests named test_output_vectors_* always fail/time out and are excluded):
   cd /tmp/wt_$id && CARGO_NET_OFFLINE=true cargo nextest run --workspace --no-fail-fast --tool-config-file pb:/w/lib/nextest.toml --profile pb --test-threads 6 --offline -E 'not test(test_output_vectors)'
   Expect 188 tests to pass. (storage::cache::tests::test_cache_put_and_expires is wall-clock sensitive and can flake under load: if it alone fails, re-run it alone.) If existing tests catch your change, pick a different change.
3. Write a demonstration: a new test (preferably a new #[tokio::test]/#[test] inside the akd or akd_core crate, e.g. a new file under akd/src/tests/ registered in akd/src/tests/mod.rs, or a test module appended to an existing file) that FAILS with your change and PASSES on the unmodified library. It must demonstrate the property violation itself as worded above, through the public API where possible.
4. Deliver in /tmp/seed_$id/:
   - patch.diff : the library change only (git diff of non-test code), applicable with 'git apply' to a clean checkout of the worktree's HEAD
   - demo.diff  : the demonstration only (new test file(s) + mod registration), applicable with 'git apply' on a clean checkout independently of patch.diff (for a new untracked file use 'git add -N' before 'git diff' so it appears in the diff)
   - demo_cmd.txt : one line, the command that runs the demonstration, in the form: cd /tmp/wt_$id && cargo test --offline -p <crate> --lib <filter>
   - meta.json : {"property": "$pid", "summary": "<what the change does>", "needs": "<what it needs in order to manifest>", "files": ["<changed library files>"], "ran": ["<each command you ran and its result>"]}
5. Verify yourself before finishing: (a) suite passes with patch.diff applied (demo not applied), (b) demo fails with patch, (c) demo passes without patch. Verify that both diffs apply to a clean checkout (git stash / git apply --check). Leave the worktree with both diffs applied.

Everything is offline (no network; use --offline with cargo). Do not use features of the sandbox outside /tmp/wt_$id and /tmp/seed_$id. In your final message, report: the change in 3-4 sentences, what it needs to manifest, and the results of (a), (b), (c).
P
