#!/bin/bash
# Runs the quick tier of every property under several seeds (robustness of the correspondence: a disagreement
# under another seed is a model infidelity or a flaky check). Used with `vp run --with-repo`.
cd "$(dirname "$0")/.."
export VERIF_REPO=${VP_RUN_REPO:-/repo}
./check --setup || exit 1
for seed in ${SEEDS:-2 3 4 5 6 7}; do
  for c in C01 C02 C03 C04 C05 C06 C07 C08 C09 C10 C11 C12 C13 C14 C15 C16 C17 C18 C19 C20; do
    out=$(./check $c --tier quick --seed $seed 2>&1 | grep -v "^KNOWN-FINDING" | tail -n 3 | cut -c1-300)
    echo "seed=$seed $out"
  done
done
