#!/bin/bash
# Confirm a seeded change in its scratch worktree: (1) suite passes with the patch, (2) the demonstration
# fails with the patch, (3) the demonstration passes without it.  usage: confirm_seed.sh <id> [threads]
id=$1; thr=${2:-6}; wt=/tmp/wt_$id; sd=/tmp/seed_$id; log=$sd/confirm.log
export CARGO_NET_OFFLINE=true
cd $wt || exit 2
git reset -q --hard && git clean -fdq -e target
: > $log
git apply --whitespace=nowarn $sd/patch.diff || { echo "patch does not apply" | tee -a $log; exit 2; }
echo "== suite with patch" >> $log
cargo nextest run --workspace --no-fail-fast --tool-config-file pb:/w/lib/nextest.toml --profile pb --test-threads $thr --offline -E 'not test(test_output_vectors)' 2>&1 | grep -E "Summary|FAIL|TIMEOUT|error(\[|:)" | sort -u >> $log
# retry anything that failed or timed out, alone (timing-sensitive tests flake when the machine is busy)
for t in $(grep -E "^\s+(FAIL|TIMEOUT)" $log | awk '{print $NF}' | sort -u); do
  echo "== retry $t" >> $log
  cargo nextest run --workspace --tool-config-file pb:/w/lib/nextest.toml --profile pb --offline -E "test(=$t)" 2>&1 | grep -E "Summary" >> $log
done
demo=$(sed 's/^cd [^&]*&& //' $sd/demo_cmd.txt | head -1)
git apply --whitespace=nowarn $sd/demo.diff || { echo "demo does not apply" | tee -a $log; exit 2; }
echo "== demo with patch: $demo" >> $log
( eval "$demo" ) 2>&1 | grep -E "^test result|panicked|FAILED|failed" | head -8 >> $log
git apply -R --whitespace=nowarn $sd/patch.diff
echo "== demo without patch" >> $log
( eval "$demo" ) 2>&1 | grep -E "^test result|panicked|FAILED|failed" | head -8 >> $log
git reset -q --hard && git clean -fdq -e target
cat $log
