#!/usr/bin/env python3
"""Rewrites the table of seeded changes in DESIGN.md (between the SEEDED-TABLE markers) from seeded/*/meta.json."""
import json, os, re, glob
ROOT = os.path.dirname(os.path.dirname(os.path.abspath(__file__)))
rows = []
for d in sorted(glob.glob(os.path.join(ROOT, "seeded", "*"))):
    m = json.load(open(os.path.join(d, "meta.json")))
    name = os.path.basename(d)
    summ = re.sub(r"\s+", " ", m["summary"]).strip()
    summ = summ[:230] + ("…" if len(summ) > 230 else "")
    first = "caught at once"
    note = m.get("note", "")
    if "MISSED" in note or "missed" in note.lower():
        first = "missed at first, caught after strengthening"
    elif "no-failing-input-found" in note or "only as a model" in note or "only a model" in note:
        first = "correspondence break only at first; concrete failing input after strengthening"
    det = ", ".join(m.get("detected_by", [])) or "—"
    kinds = []
    for c, v in m.get("checks", {}).items():
        if isinstance(v, dict) and v.get("exit") == 1:
            kinds.append(f"{c}: " + ("correspondence/proof break (no failing input)" if v.get("no_failing_input") else "failing input"))
    rows.append(f"| {name} | {m['property']} | {summ} | {det} | {first} | {'; '.join(kinds)} |")
table = ["| seed | property | change | reported by | history | how (quick tier) |", "|---|---|---|---|---|---|"] + rows
p = os.path.join(ROOT, "DESIGN.md")
s = open(p).read()
a, b = "<!-- SEEDED-TABLE-BEGIN -->", "<!-- SEEDED-TABLE-END -->"
if a in s:
    s = s[:s.index(a) + len(a)] + "\n" + "\n".join(table) + "\n" + s[s.index(b):]
    open(p, "w").write(s)
print("\n".join(table))
