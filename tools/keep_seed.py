#!/usr/bin/env python3
"""Keep a confirmed seeded change under /verif/seeded/<name>/ and record which checks report it.
usage: keep_seed.py <seed dir under /tmp, e.g. seed_C17> <name> <check> [<check> ...]
Requires <seed dir>/confirm.log (written by tools/confirm_seed.sh). Runs tools/eval_seed.py."""
import sys, os, json, shutil, subprocess, re
src = "/tmp/" + sys.argv[1]; name = sys.argv[2]; checks = sys.argv[3:]
dst = "/verif/seeded/" + name
os.makedirs(dst, exist_ok=True)
for f in ("patch.diff", "demo.diff", "demo_cmd.txt", "confirm.log"):
    shutil.copy(os.path.join(src, f), os.path.join(dst, f))
meta = json.load(open(os.path.join(src, "meta.json")))
log = open(os.path.join(src, "confirm.log")).read()
m = re.search(r"== suite with patch\n\s*Summary.*?(\d+) tests run: (\d+) passed", log)
retries = re.findall(r"== retry (\S+)\n\s*Summary.*?: (\d+) passed", log)
with_patch = log.split("== demo with patch")[1].split("== demo without patch")[0]
without = log.split("== demo without patch")[1]
meta["confirmed"] = {
    "where": "scratch worktree of /repo under /tmp, removed afterwards",
    "suite_with_patch": f"{m.group(2)}/{m.group(1)} passed" if m else "see confirm.log",
    "retried_alone_after_timing_failure": retries,
    "demo_with_patch_fails": ("FAILED" in with_patch or "failed" in with_patch),
    "demo_without_patch_passes": bool(re.search(r"test result: ok\. [1-9]", without)),
}
# patch.diff is against the commit the sub-agent worked on; when a later fix: commit touched the same lines,
# patch.rebased.diff is the same change re-applied by hand to the current HEAD
rebased = os.path.join(dst, "patch.rebased.diff")
use = rebased if os.path.exists(rebased) else os.path.join(dst, "patch.diff")
meta["evaluated_patch"] = os.path.basename(use)
if len(sys.argv) > 3 and os.environ.get("SEED_NOTE"):
    meta["note"] = os.environ["SEED_NOTE"]
r = subprocess.run(["python3", "/verif/tools/eval_seed.py", use] + checks, text=True, capture_output=True)
res = [l for l in r.stdout.splitlines() if l.startswith("RESULT ")]
meta["base_commit"] = "2fdf8e4"
meta["checks"] = json.loads(res[0][7:]) if res else {"error": r.stdout[-500:]}
meta["detected_by"] = [c for c, v in meta["checks"].items() if isinstance(v, dict) and v.get("exit") == 1]
json.dump(meta, open(os.path.join(dst, "meta.json"), "w"), indent=1)
print(name, "confirmed:", meta["confirmed"], "detected_by:", meta["detected_by"])
for c, v in meta["checks"].items():
    print(" ", c, v if not isinstance(v, dict) else (v.get("exit"), v.get("first", "")[:200]))
