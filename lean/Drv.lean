/-
Model driver: one operation per input line, one answer per line
(DESIGN appendix B).  Unknown or ill-formed lines are answered `bad-op`.
Nothing here imports Mathlib, so this links as a `lean_exe`.
-/
import AkdModel.Label
import AkdModel.Marker
import AkdModel.Wire
import AkdModel.Cfg
import AkdModel.Show
import AkdModel.Adv
import AkdModel.Spec
import AkdModel.Store
import AkdModel.AdvDir
import AkdModel.Proto
import AkdModel.Blob
import AkdModel.Vrf
import AkdModel.Batch
import AkdModel.Conc
import AkdModel.PollTrace
open Akd Akd.Wire

structure DState where
  cfg : Cfg := Cfg.whatsappV1
  dir : Dir := {}
  /-- the `(epoch, root hash)` pairs publish returned, plus epoch 0 -/
  roots : List (Nat × Dig) := []
  /-- every batch handed to publish, accepted or not (the specification decides) -/
  hist : List (List (Bytes × Bytes)) := []
  cuts : Spec.Cuts := []
  store : Store.State := {}
  /-- cache keys whose lifetime ran out during a `st.sleep` INSIDE a transaction: cleaning is disabled then, so
  the entries are still served; they are dropped as soon as cleaning is enabled again (commit / rollback) -/
  stExpired : List Store.Key := []
  /-- the directory as it was after each successful publish (epoch, state): material of other epochs' trees -/
  snaps : List (Nat × Dir) := []
  /-- lagging reader instances: the epoch record each one has pinned in its cache -/
  readers : List (Nat × Azks) := []

def parsePairs : List String → Option (List (Bytes × Bytes))
  | [] => some []
  | [_] => none
  | a :: b :: rest => do
    let x ← parseHex? a
    let y ← parseHex? b
    let r ← parsePairs rest
    pure ((x, y) :: r)

def parseElems : List String → Option (List (NodeLabel × Dig))
  | [] => some []
  | [_] => none
  | a :: b :: rest => do
    let x ← parseLabel? a
    let y ← parseHex? b
    let r ← parseElems rest
    pure ((x, Dig.raw y) :: r)

def parseParams (s : String) : Option HistoryParams :=
  if s == "complete" then some .complete
  else match s.splitOn ":" with
    | ["recent", k] => k.toNat?.map .mostRecent
    | _ => none

def showErr {α} (f : α → String) : Except DErr α → String
  | .ok a => f a
  | .error .vrfMissing => "vrf-missing"
  | .error .panic => "panic"
  | .error _ => "err"

def showTErr {α} (f : α → String) : Except Err α → String
  | .ok a => f a
  | .error _ => "err"

def showV {α} (f : α → String) : Except VErr α → String
  | .ok a => "ok " ++ f a
  | .error .panic => "panic"
  | .error _ => "rej"

def dumpNodes (ns : NodeStore) : String :=
  " ;; ".intercalate (Show.sortStrings (ns.db.map fun kr => Show.nodeRec kr.2))

def dumpStates (d : Dir) : String :=
  " ;; ".intercalate (Show.sortStrings (d.states.map fun s =>
    s!"{hexOfBytes s.username}@{s.epoch} v{s.version} {showLabel s.label} {hexOfBytes s.value}"))

def rootValue (st : DState) : Dig :=
  match st.dir.azks with
  | some a => match st.dir.nodes.getNode NodeLabel.root a.latestEpoch with
    | .ok r => r.hash
    | .error _ => .raw []
  | none => .raw []

def curRoot (st : DState) : Except Err Dig :=
  match st.dir.azks with
  | some a => st.dir.nodes.rootHash st.cfg a
  | none => .error .notFound

namespace StIO
open Akd.Store

def parseKey? (s : String) : Option Key :=
  match s.splitOn ":" with
  | ["azks"] => some .azks
  | ["node", id] => id.toNat?.map .node
  | ["vs", u, e] => do pure (.vs (← u.toNat?) (← e.toNat?))
  | _ => none

def parseRec? (s : String) : Option Rec :=
  match s.splitOn ":" with
  | ["azks", n, e] => do pure ⟨.azks, ← n.toNat?, ← e.toNat?⟩
  | ["node", id, v, p] => do pure ⟨.node (← id.toNat?), ← v.toNat?, ← p.toNat?⟩
  | ["vs", u, e, v, p] => do pure ⟨.vs (← u.toNat?) (← e.toNat?), ← v.toNat?, ← p.toNat?⟩
  | _ => none

def parseFlag? (s : String) : Option Flag :=
  match s.splitOn ":" with
  | ["max"] => some .maxEpoch
  | ["min"] => some .minEpoch
  | ["ver", v] => v.toNat?.map .specificVersion
  | ["ep", e] => e.toNat?.map .specificEpoch
  | ["leq", e] => e.toNat?.map .leqEpoch
  | _ => none

def showRec (r : Rec) : String :=
  match r.key with
  | .azks => s!"azks:{r.version}:{r.payload}"
  | .node id => s!"node:{id}:{r.version}:{r.payload}"
  | .vs u e => s!"vs:{u}:{e}:{r.version}:{r.payload}"

def showMany (xs : List String) : String :=
  "[" ++ ",".intercalate (Show.sortStrings xs.eraseDups) ++ "]"

def showObs : Obs → String
  | .ok => "ok"
  | .err => "err"
  | .bool b => toString b
  | .one (some r) => showRec r
  | .one none => "none"
  | .recs rs => showMany (rs.map showRec)
  | .versions vs => showMany (vs.map fun (u, v, p) => s!"{u}:{v}:{p}")
  | .count n => s!"n{n}"

def parseFail? (s : String) : Option Bool :=
  if s == "0" then some false else if s == "1" then some true else none

/-- every key the model's cache may hold (for `st.sleep` = everything expires) -/
def allCacheKeys (s : State) : List Key := s.cache.map (·.key)

def parseOp? (st : State) : List String → Option Op
  | ["st.set", r, f] => do pure (.set (← parseRec? r) (← parseFail? f))
  | "st.batchset" :: f :: rs => do pure (.batchSet (← rs.mapM parseRec?) (← parseFail? f))
  | ["st.get", k, f] => do pure (.get (← parseKey? k) (← parseFail? f))
  | ["st.getdirect", k, f] => do pure (.getDirect (← parseKey? k) (← parseFail? f))
  | "st.batchget" :: f :: ks => do pure (.batchGet (← ks.mapM parseKey?) (← parseFail? f))
  | ["st.begin"] => some .begin
  | ["st.commit", f] => do pure (.commit (← parseFail? f))
  | ["st.rollback"] => some .rollback
  | ["st.flush"] => some .flush
  | ["st.sleep"] => some (.evict (allCacheKeys st))
  | ["st.userstate", u, fl, f] => do pure (.userState (← u.toNat?) (← parseFlag? fl) (← parseFail? f))
  | ["st.userdata", u, f] => do pure (.userData (← u.toNat?) (← parseFail? f))
  | "st.userversions" :: fl :: f :: us => do pure (.userVersions (← us.mapM (·.toNat?)) (← parseFlag? fl) (← parseFail? f))
  | ["st.tombstone", u, e, f] => do pure (.tombstone (← u.toNat?) (← e.toNat?) (← parseFail? f))
  | _ => none

end StIO

/-- operations of the layers above L0 -/
def stepL1 (st : DState) (toks : List String) : Option (DState × String) :=
  let c := st.cfg
  match toks with
  | ["reset", cfg] => do
    let c ← Cfg.ofName? cfg
    match Dir.init c {} with
    | .ok d =>
      let r := match d.azks with
        | some a => match d.nodes.rootHash c a with | .ok h => [(0, h)] | .error _ => []
        | none => []
      some ({ cfg := c, dir := d, roots := r }, "ok")
    | .error _ => some (st, "err")
  | ["fx.reset", cfg, _, _] => do
    let c ← Cfg.ofName? cfg
    match Dir.init c {} with
    | .ok d => some ({ cfg := c, dir := d, roots := [] }, "ok")
    | .error _ => some (st, "err")
  | "fx.publish" :: rest => do
    let ps ← parsePairs rest
    match st.dir.publish c ps with
    | .ok (d, ep, h) => some ({ st with dir := d }, s!"ok {ep} {Show.dig h}")
    | .error .vrfMissing => some (st, "vrf-missing")
    | .error _ => some (st, "err")
  | "sch.read" :: _ :: rest =>
    -- C13: a request that fixes its epoch once reads the tree of that epoch or fails (snapshot_read)
    if rest.isEmpty then none else some (st, "violations=0")
  | "sch.flush" :: _ :: rest =>
    -- C13/C16: a cache flush concurrent with requests (`Flush.answers_published`)
    if rest.isEmpty then none else some (st, "violations=0")
  | "sch.poll" :: _ :: rest =>
    -- C13, last clause: the theorem `Poll.answers_after_signal` (a request that starts after a signal is
    -- answered from an epoch at least as new)
    if rest.isEmpty then none else some (st, "violations=0")
  | "sch.enum" :: _ :: rest =>
    -- the theorem (`Conc.serializable`): under every schedule the publishes take effect one after another
    if rest.isEmpty then none else some (st, "violations=0")
  | ["sch.validate", _, base, evs] => do
    let base ← base.toNat?
    let parseEv (t : String) : Option (Nat × Conc.Ev) :=
      match t.splitOn ":" with
      | [tid, kind, stamp] => do
        let tid ← tid.toNat?
        let stampN : Option Nat := if stamp.startsWith "e" then (stamp.drop 1).toNat? else none
        if kind == "get_azks" then (stampN.map fun k => (tid, Conc.Ev.getAzks k))
        else if kind == "commit" then (stampN.map fun k => (tid, Conc.Ev.commit k))
        else some (tid, Conc.Ev.read)
      | _ => none
    let tr ← (evs.splitOn ",").mapM parseEv
    match Conc.validate base tr with
    | .ok v => some (st, ",".intercalate (v.outcomes.map fun (t, e) => s!"{t}:{e}"))
    | .error e => some (st, "invalid: " ++ e)
  | ["poll.validate", lat, n, base, evs, answers] => do
    -- a recorded run of the change-poller scenario, replayed on `Poll.lean` (PollTrace.validate)
    let lat := lat == "1"
    let n ← n.toNat?
    let base ← base.toNat?
    let parseEv (t : String) : Option (Option (Nat × Poll.TEv)) :=
      match t.splitOn ":" with
      | [tid, kind, stamp] => do
        let tid ← tid.toNat?
        let stampN : Option Nat := if stamp.startsWith "e" then (stamp.drop 1).toNat? else none
        if tid = 0 then
          if kind == "commit" then (stampN.map fun k => some (tid, Poll.TEv.commit k)) else some none
        else if tid = n + 1 then
          if kind == "get_azks" then (stampN.map fun k => some (tid, Poll.TEv.pollRead k))
          else if kind == "get.done" then some (some (tid, Poll.TEv.pollDone))
          else some none
        else
          if kind == "pause" then some (some (tid, Poll.TEv.start))
          else if kind == "get_azks" then (stampN.map fun k => some (tid, Poll.TEv.missRead k))
          else if kind == "get.done" then some (some (tid, Poll.TEv.missDone))
          else if kind == "done" then some (some (tid, Poll.TEv.done))
          else some none
      | _ => none
    let tr ← (evs.splitOn ",").mapM parseEv
    let tr := tr.filterMap id
    -- the epochs the real requests were answered from, per reader; `x` = the request returned an error
    let real : List (List String) := (answers.splitOn ";").map fun a => (a.splitOn ",").filter (· ≠ "")
    match Poll.validate lat n base tr with
    | .error e => some (st, "invalid: " ++ e)
    | .ok (out, sigs, cache) =>
      let agree (m : List Nat) (r : List String) : Bool :=
        m.length == r.length && (m.zip r).all fun (e, x) => x == "x" || x == toString e
      let bad := (out.zip real).filter fun (m, r) => !agree m r
      if out.length == real.length && bad.isEmpty then
        some (st, s!"ok {sigs} {match cache with | some c => toString c | none => "-"}")
      else some (st, s!"mismatch: model answers {out}, implementation {real}")
  | "pc.enum" :: rest => do
    -- the theorem (`partial_commit_invisible` / `full_commit_visible`): no partial commit is observable
    let _ ← parsePairs rest
    some (st, "violations=0")
  | "fx.enum" :: rest => do
    -- the theorem (`publish_fail_no_effect`): no fault index is observable
    let _ ← parsePairs rest
    some (st, "violations=0")
  | ["ck", k] => do
    let k ← parseHex? k
    some ({ st with dir := { st.dir with commitmentKey := .hBytes k } }, "ok")
  | ["vrf", u, f, v, l] => do
    let u ← parseHex? u
    let v ← v.toNat?
    let l ← parseLabel? l
    let fresh ← if f == "F" then some true else if f == "S" then some false else none
    some ({ st with dir := { st.dir with vrf := (⟨u, fresh, v⟩, l) :: st.dir.vrf } }, "ok")
  | "dir.publish" :: rest => do
    let ps ← parsePairs rest
    let st := { st with hist := st.hist ++ [ps] }
    match st.dir.publish c ps with
    | .ok (d, ep, h) =>
      let roots := if st.roots.any (fun r => r.1 = ep) then st.roots else st.roots ++ [(ep, h)]
      let snaps := if st.snaps.any (fun r => r.1 = ep) then st.snaps else (ep, d) :: st.snaps
      some ({ st with dir := d, roots := roots, snaps := snaps }, s!"ok {ep} {Show.dig h}")
    | .error .vrfMissing => some (st, "vrf-missing")
    | .error _ => some (st, "err")
  | ["dir.epochhash"] =>
    some (st, showErr (fun (eh : Nat × Dig) => s!"{eh.1} {Show.dig eh.2}") (st.dir.epochHash c))
  | ["dir.lookup", u] => do
    let u ← parseHex? u
    some (st, showErr (fun (r : LookupProof × Nat × Dig) => s!"{r.2.1} {Show.dig r.2.2} {Show.lookup r.1}") (st.dir.lookup c u))
  | "dir.batchlookup" :: us => do
    let us ← us.mapM parseHex?
    some (st, showErr (fun (r : List LookupProof × Nat × Dig) => s!"{r.2.1} {Show.dig r.2.2} {" ".intercalate (r.1.map Show.lookup)}".trimAsciiEnd.toString)
      (st.dir.batchLookup c us))
  | "spec.batchlookup" :: us => do
    let us ← us.mapM parseHex?
    let sp := Spec.run st.hist
    let rs := us.map (Spec.lookup sp)
    if rs.any Option.isNone then some (st, "none")
    else some (st, ("ok " ++ " ".intercalate (rs.filterMap fun r => r.map fun v => s!"({v.epoch},{v.version},{hexOfBytes v.value})")).trimAsciiEnd.toString)
  | ["dir.history", u, p] => do
    let u ← parseHex? u
    let p ← parseParams p
    some (st, showErr (fun (r : HistoryProof × Nat × Dig) => s!"{r.2.1} {Show.dig r.2.2} {Show.history r.1}") (st.dir.keyHistory c u p))
  | ["dir.audit", s, e] => do
    let s ← s.toNat?
    let e ← e.toNat?
    some (st, showErr Show.appendOnly (st.dir.audit c s e))
  | ["dir.tombstone", u, e] => do
    let u ← parseHex? u
    let e ← e.toNat?
    match st.dir.tombstone u e with
    | .ok d => some ({ st with dir := d, cuts := (u, e) :: st.cuts }, "ok")
    | .error _ => some (st, "err")
  | ["dir.dump"] =>
    let az := match st.dir.azks with | some a => s!"azks({a.latestEpoch},{a.numNodes})" | none => "azks(-)"
    some (st, s!"{az} ## {dumpNodes st.dir.nodes} ## {dumpStates st.dir}")
  | ["dir.verify.lookup", u] => do
    let u ← parseHex? u
    match st.dir.lookup c u with
    | .ok (p, ep, h) => some (st, showV Show.verifyResult (Verify.lookup c st.dir.vrf h ep u p))
    | .error .vrfMissing => some (st, "vrf-missing")
    | .error _ => some (st, "err")
  | ["dir.verify.history", u, p, allow] => do
    let u ← parseHex? u
    let p ← parseParams p
    let allow ← if allow == "allow" then some true else if allow == "default" then some false else none
    match st.dir.keyHistory c u p with
    | .ok (hp, ep, h) =>
      some (st, showV (fun rs => " ".intercalate (rs.map Show.verifyResult)) (Verify.history c st.dir.vrf h ep u hp p allow))
    | .error .vrfMissing => some (st, "vrf-missing")
    | .error .panic => some (st, "panic")
    | .error _ => some (st, "err")
  | ["dir.verify.audit", s, e] => do
    let s ← s.toNat?
    let e ← e.toNat?
    match st.dir.audit c s e with
    | .ok ap =>
      let hashes := (List.range (e - s + 1)).filterMap fun i => (st.roots.find? (fun r => r.1 = s + i)).map (·.2)
      some (st, showV (fun _ => "") (Auditor.verify c hashes ap))
    | .error _ => some (st, "err")
  | ["spec.root"] =>
    let sp := Spec.run st.hist
    some (st, s!"{sp.epoch} {Show.dig (Spec.rootHash c st.dir.commitmentKey st.dir.vrf sp)}")
  | ["spec.lookup", u] => do
    let u ← parseHex? u
    match Spec.lookup (Spec.run st.hist) u with
    | some v => some (st, s!"ok ({v.epoch},{v.version},{hexOfBytes v.value})")
    | none => some (st, "none")
  | ["spec.history", u, p] => do
    let u ← parseHex? u
    let p ← parseParams p
    match Spec.history (Spec.run st.hist) u p with
    | [] => some (st, "none")
    | vs => some (st, "ok " ++ " ".intercalate (vs.map fun v => s!"({v.epoch},{v.version},{hexOfBytes v.value})"))
  | ["spec.history.tomb", u, p, allow] => do
    let u ← parseHex? u
    let p ← parseParams p
    let allow ← if allow == "allow" then some true else if allow == "default" then some false else none
    let sp := Spec.run st.hist
    if (Spec.history sp u p).isEmpty then some (st, "err")
    else match Spec.historyTomb sp st.cuts u p allow with
      | some vs => some (st, "ok " ++ " ".intercalate (vs.map fun v => s!"({v.epoch},{v.version},{hexOfBytes v.value})"))
      | none => some (st, "rej")
  | ["st.reset", mode] =>
    some ({ st with store := { hasCache := mode != "nocache" }, stExpired := [] }, "ok")
  | ["st.active"] => some (st, toString st.store.active)
  | ["st.dbdump"] => some (st, StIO.showMany (st.store.db.map StIO.showRec))
  | "azks.insert" :: mode :: rest => do
    let m ← if mode == "dir" then some InsertMode.directory else if mode == "aud" then some InsertMode.auditor else none
    let els ← parseElems rest
    let a ← st.dir.azks
    match st.dir.nodes.batchInsert c m a els with
    | .ok (ns, a') => some ({ st with dir := { st.dir with nodes := ns, azks := some a' } }, s!"ok {a'.latestEpoch} {a'.numNodes}")
    | .error _ => some (st, "err")
  | ["pb.dec", ty, h] => do
    let ty ← Proto.tyOfName? ty
    let bs ← parseHex? h
    match Proto.roundtripBytes ty bs with
    | none => some (st, "err-parse")
    | some none => some (st, "err-conv")
    | some (some out) => some (st, "ok " ++ hexOfBytes out)
  | ["vrfin", _, u, f, v] => do
    let u ← parseHex? u
    let fresh ← if f == "F" then some true else if f == "S" then some false else none
    let v ← v.toNat?
    some (st, Show.dig (.hBytes (Vrf.labelInput u fresh v)))
  | ["pb.blobname", n] =>
    match Blob.parse? (if n == "-" then "" else n) with
    | some b => some (st, "ok " ++ Blob.render b)
    | none => some (st, "err")
  | ["lag.new", k] => do
    let k ← k.toNat?
    let a ← st.dir.azks
    let st := { st with readers := (k, a) :: st.readers.filter (fun r => r.1 ≠ k) }
    some (st, showErr (fun (eh : Nat × Dig) => s!"{eh.1} {Show.dig eh.2}") (st.dir.epochHash c))
  | "lag.epochhash" :: k :: [] => do
    let k ← k.toNat?
    let (_, a) ← st.readers.find? (fun r => r.1 = k)
    let d := { st.dir with azks := some a }
    some (st, showErr (fun (eh : Nat × Dig) => s!"{eh.1} {Show.dig eh.2}") (d.epochHash c))
  | ["lag.lookup", k, u] => do
    let k ← k.toNat?
    let u ← parseHex? u
    let (_, a) ← st.readers.find? (fun r => r.1 = k)
    let d := { st.dir with azks := some a }
    match d.lookup c u with
    | .ok (p, ep, h) => some (st, s!"{ep} {Show.dig h} " ++ showV Show.verifyResult (Verify.lookup c d.vrf h ep u p))
    | .error .vrfMissing => some (st, "vrf-missing")
    | .error _ => some (st, "err")
  | ["lag.history", k, u, p] => do
    let k ← k.toNat?
    let u ← parseHex? u
    let p ← parseParams p
    let (_, a) ← st.readers.find? (fun r => r.1 = k)
    let d := { st.dir with azks := some a }
    match d.keyHistory c u p with
    | .ok (hp, ep, h) =>
      some (st, s!"{ep} {Show.dig h} " ++ showV (fun rs => " ".intercalate (rs.map Show.verifyResult)) (Verify.history c d.vrf h ep u hp p false))
    | .error .vrfMissing => some (st, "vrf-missing")
    | .error .panic => some (st, "panic")
    | .error _ => some (st, "err")
  | ["lag.audit", k, s, e] => do
    let k ← k.toNat?
    let s ← s.toNat?
    let e ← e.toNat?
    let (_, a) ← st.readers.find? (fun r => r.1 = k)
    let d := { st.dir with azks := some a }
    match d.audit c s e with
    | .ok ap =>
      let hashes := (List.range (e - s + 1)).filterMap fun i => (st.roots.find? (fun r => r.1 = s + i)).map (·.2)
      some (st, showV (fun _ => "") (Auditor.verify c hashes ap))
    | .error _ => some (st, "err")
  | ["perm.group", _] => some (st, "ok")
  | ["perm.end"] => some (st, "ok")
  | ["azks.setepoch", e] => do
    let e ← e.toNat?
    let a ← st.dir.azks
    some ({ st with dir := { st.dir with azks := some { a with latestEpoch := e } } }, "ok")
  | ["azks.root"] => some (st, showTErr Show.dig (curRoot st))
  | ["azks.mem", l] => do
    let l ← parseLabel? l
    let a ← st.dir.azks
    some (st, showTErr Show.membership (st.dir.nodes.membershipProof c a l))
  | ["azks.nonmem", l] => do
    let l ← parseLabel? l
    let a ← st.dir.azks
    some (st, showTErr Show.nonMembership (st.dir.nodes.nonMembershipProof c a l))
  | "adv.mem" :: x :: edits => do
    let x ← parseLabel? x
    let es ← edits.mapM Adv.parseMemEdit?
    let a ← st.dir.azks
    match st.dir.nodes.membershipProof c a x, curRoot st with
    | .ok p, .ok root =>
      let p := es.foldl (Adv.applyMem (rootValue st)) p
      some (st, if verifyMembership c root p then "acc" else "rej")
    | _, _ => some (st, "err")
  | "adv.lookup" :: u :: edits => do
    let u ← parseHex? u
    let es ← edits.mapM AdvDir.parseLookupEdit?
    match st.dir.lookup c u with
    | .ok (p0, ep, h) =>
      let p := es.foldl (fun (acc : Except DErr LookupProof) e =>
        match acc with
        | .ok p => AdvDir.applyLookup c st.dir u p st.snaps e
        | .error x => .error x) (.ok p0)
      match p with
      | .ok p => some (st, showV Show.verifyResult (Verify.lookup c st.dir.vrf h ep u p))
      | .error .vrfMissing => some (st, "vrf-missing")
      | .error _ => some (st, "err")
    | .error .vrfMissing => some (st, "vrf-missing")
    | .error _ => some (st, "err")
  | "adv.history" :: u :: prm :: mode :: edits => do
    let u ← parseHex? u
    let prm ← parseParams prm
    let allow ← if mode == "allow" then some true else if mode == "default" then some false else none
    let es ← edits.mapM AdvDir.parseHistEdit?
    match st.dir.keyHistory c u prm with
    | .ok (p0, ep, h) =>
      let p := es.foldl (fun (acc : Except DErr HistoryProof) e =>
        match acc with
        | .ok p => AdvDir.applyHist c st.dir u p e
        | .error x => .error x) (.ok p0)
      match p with
      | .ok p => some (st, showV (fun rs => " ".intercalate (rs.map Show.verifyResult)) (Verify.history c st.dir.vrf h ep u p prm allow))
      | .error .vrfMissing => some (st, "vrf-missing")
      | .error _ => some (st, "err")
    | .error .vrfMissing => some (st, "vrf-missing")
    | .error _ => some (st, "err")
  | ["adv.invent", u, epoch, prm, mode] => do
    let u ← parseHex? u
    let epoch ← epoch.toNat?
    let prm ← parseParams prm
    let allow ← if mode == "allow" then some true else if mode == "default" then some false else none
    match st.dir.epochHash c, AdvDir.invented c st.dir u epoch with
    | .ok (ep, h), .ok p =>
      some (st, showV (fun rs => " ".intercalate (rs.map Show.verifyResult)) (Verify.history c st.dir.vrf h ep u p prm allow))
    | _, .error .vrfMissing => some (st, "vrf-missing")
    | _, _ => some (st, "err")
  | "adv.auditn" :: s0 :: k :: i :: edits => do
    -- a MULTI-step audit (s0 .. s0+k) whose step `i` is edited; with `end:rebuilt` the hash after that step is whatever
    -- the auditor's rebuild of the edited step hashes to (the other hashes are the published ones)
    let s0 ← s0.toNat?
    let k ← k.toNat?
    let i ← i.toNat?
    let es ← edits.mapM Adv.parseAuditEdit?
    match st.dir.audit c s0 (s0 + k) with
    | .ok ap =>
      match ap.proofs[i]? with
      | some pr =>
        let byLabel (xs : List AzksElement) : List AzksElement :=
          xs.foldr (fun x acc =>
            let rec insN (x : AzksElement) : List AzksElement → List AzksElement
              | [] => [x]
              | y :: ys => if showLabel x.label ≤ showLabel y.label then x :: y :: ys else y :: insN x ys
            insN x acc) []
        let case0 : Adv.AuditCase := { proof := { inserted := byLabel pr.inserted, unchanged := byLabel pr.unchanged } }
        let cs := es.foldl Adv.applyAudit case0
        let endEpoch := s0 + i + 1
        let hashes : List (Option Dig) := (List.range (k + 1)).map fun j => (st.roots.find? (fun r => r.1 = s0 + j)).map (·.2)
        if hashes.any Option.isNone then none
        else
          let hs := hashes.filterMap id
          let endH : Option Dig :=
            if cs.endRebuilt then
              let ins := cs.proof.inserted.map fun x => (⟨x.label, c.leafHash x.value endEpoch⟩ : AzksElement)
              match Auditor.rebuildRoot c (cs.proof.unchanged ++ ins) (some (endEpoch - 1)) with
              | .ok h => some h
              | .error _ => none
            else hs[i + 1]?
          match endH with
          | none => some (st, "err")
          | some e =>
            let hs' := hs.set (i + 1) e
            let proofs' := ap.proofs.set i cs.proof
            match Auditor.verify c hs' { ap with proofs := proofs' } with
            | .ok () => some (st, "acc")
            | .error _ => some (st, "rej")
      | none => some (st, "err")
    | .error _ => some (st, "err")
  | "adv.audit" :: ep :: edits => do
    let ep ← ep.toNat?
    let es ← edits.mapM Adv.parseAuditEdit?
    match st.dir.audit c ep (ep + 1) with
    | .ok ap =>
      match ap.proofs with
      | [pr] =>
        let byLabel (xs : List AzksElement) : List AzksElement :=
          xs.foldr (fun x acc =>
            let rec ins (x : AzksElement) : List AzksElement → List AzksElement
              | [] => [x]
              | y :: ys => if showLabel x.label ≤ showLabel y.label then x :: y :: ys else y :: ins x ys
            ins x acc) []
        let case0 : Adv.AuditCase := { proof := { inserted := byLabel pr.inserted, unchanged := byLabel pr.unchanged } }
        let cs := es.foldl Adv.applyAudit case0
        let endEpoch := ep + 1 + cs.epochPlus
        match st.roots.find? (fun r => r.1 = ep) with
        | none => none
        | some (_, start) =>
          let endH : Option Dig :=
            if cs.endRebuilt then
              let ins := cs.proof.inserted.map fun x => (⟨x.label, c.leafHash x.value endEpoch⟩ : AzksElement)
              match Auditor.rebuildRoot c (cs.proof.unchanged ++ ins) (some (endEpoch - 1)) with
              | .ok h => some h
              | .error _ => none
            else (st.roots.find? (fun r => r.1 = ep + 1)).map (·.2)
          match endH with
          | none => if cs.endRebuilt then some (st, "err") else none
          | some e =>
            match Auditor.consecutive c cs.proof start e endEpoch with
            | .ok () => some (st, "acc")
            | .error _ => some (st, "rej")
      | _ => some (st, "err")
    | .error _ => some (st, "err")
  | "adv.nonmem" :: x :: edits => do
    let x ← parseLabel? x
    let es ← edits.mapM Adv.parseNonMemEdit?
    let a ← st.dir.azks
    match st.dir.nodes.nonMembershipProof c a x, curRoot st with
    | .ok p, .ok root =>
      let p := es.foldl (Adv.applyNonMem c (rootValue st)) p
      some (st, if verifyNonMembership c root p then "acc" else "rej")
    | _, _ => some (st, "err")
  | toks =>
    match StIO.parseOp? st.store toks with
    | some op =>
      let expired :=
        if toks == ["st.sleep"] && !st.store.canClean then (st.stExpired ++ StIO.allCacheKeys st.store).eraseDups
        else st.stExpired
      let logKeys := st.store.log.map (·.key)
      let (s', obs) := Store.step Store.fixed st.store op
      if s'.canClean && !expired.isEmpty then
        -- the records a successful commit has just put into the cache are fresh
        let fresh := match obs with | .count _ => logKeys | _ => []
        let (s'', _) := Store.step Store.fixed s' (.evict (expired.filter fun k => !fresh.contains k))
        some ({ st with store := s'', stExpired := [] }, StIO.showObs obs)
      else
        some ({ st with store := s', stExpired := expired }, StIO.showObs obs)
    | none => none

def parseLabels (toks : List String) : Option (List NodeLabel) :=
  toks.mapM parseLabel?

def withIdx (ls : List NodeLabel) : List (NodeLabel × Nat) :=
  ls.zipIdx

def showSet (s : ElementSet Nat) : String :=
  ",".intercalate (s.elems.map (fun x => showLabel x.1))

def mkSet (mode : String) (ls : List NodeLabel) : Option (ElementSet Nat) :=
  if mode == "auto" then some (ElementSet.ofList (withIdx ls))
  else if mode == "un" then some (.unsorted (withIdx ls))
  else none

def kindOf : ElementSet Nat → String
  | .binarySearchable _ => "bs"
  | .unsorted _ => "un"

def step (st : DState) (line : String) : DState × String :=
  let toks := (line.trimAscii.toString.splitOn " ").filter (· ≠ "")
  match toks with
  | ["lbl.isprefix", a, b] =>
    match parseLabel? a, parseLabel? b with
    | some a, some b => (st, toString (a.isPrefixOf b))
    | _, _ => (st, "bad-op")
  | ["lbl.lcp", cfg, a, b] =>
    match Cfg.ofName? cfg, parseLabel? a, parseLabel? b with
    | some c, some a, some b => (st, showLabel (NodeLabel.lcp c.emptyLabel a b))
    | _, _, _ => (st, "bad-op")
  | ["lbl.prefix", a, n] =>
    match parseLabel? a, n.toNat? with
    | some a, some n => (st, showLabel (a.getPrefix n))
    | _, _ => (st, "bad-op")
  | ["lbl.ord", a, b] =>
    match parseLabel? a, parseLabel? b with
    | some a, some b => (st, showOrd (a.prefixOrdering b))
    | _, _ => (st, "bad-op")
  | ["lbl.cmp", a, b] =>
    match parseLabel? a, parseLabel? b with
    | some a, some b => (st, showOrdering (NodeLabel.cmp a b))
    | _, _ => (st, "bad-op")
  | "set.partition" :: mode :: p :: rest =>
    match parseLabel? p, parseLabels rest with
    | some p, some ls =>
      match mkSet mode ls with
      | some s =>
        let (l, r) := s.partition p
        (st, s!"{kindOf s} L:{showSet l} R:{showSet r}")
      | none => (st, "bad-op")
    | _, _ => (st, "bad-op")
  | "set.lcp" :: mode :: cfg :: rest =>
    match Cfg.ofName? cfg, parseLabels rest with
    | some c, some ls =>
      match mkSet mode ls with
      | some s => (st, s!"{kindOf s} {showLabel (s.setLcp c.emptyLabel)}")
      | none => (st, "bad-op")
    | _, _ => (st, "bad-op")
  | "set.contains" :: mode :: p :: rest =>
    match parseLabel? p, parseLabels rest with
    | some p, some ls =>
      match mkSet mode ls with
      | some s => (st, s!"{kindOf s} {s.containsPrefix p}")
      | none => (st, "bad-op")
    | _, _ => (st, "bad-op")
  | ["mk", s, e, ep] =>
    match s.toNat?, e.toNat?, ep.toNat? with
    | some s, some e, some ep =>
      match Marker.markers? s e ep with
      | some (p, f) => (st, s!"{showNats p} {showNats f}")
      | none => (st, "panic")
    | _, _, _ => (st, "bad-op")
  | t :: _ =>
    if t.startsWith "o." then (st, "-")
    else match stepL1 st toks with
      | some r => r
      | none => (st, "bad-op")
  | [] => (st, "bad-op")

partial def loop (h : IO.FS.Stream) (out : IO.FS.Stream) (st : DState) : IO Unit := do
  let line ← h.getLine
  if line.isEmpty then return ()
  let (st', o) := step st line
  out.putStrLn o
  loop h out st'

def main : IO Unit := do
  let out ← IO.getStdout
  loop (← IO.getStdin) out {}
  out.flush
