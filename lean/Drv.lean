/-
Model driver: one operation per input line, one answer per line
(DESIGN appendix B).  Unknown or ill-formed lines are answered `bad-op`.
Nothing here imports Mathlib, so this links as a `lean_exe`.
-/
import AkdModel.Label
import AkdModel.Marker
import AkdModel.Wire
import AkdModel.Cfg
open Akd Akd.Wire

structure DState where
  dummy : Unit := ()

def parseLabels (toks : List String) : Option (List NodeLabel) :=
  toks.mapM parseLabel?

def withIdx (ls : List NodeLabel) : List (NodeLabel × Nat) :=
  ls.zipIdx

def showSet (s : ElementSet Nat) : String :=
  ",".intercalate (s.elems.map (fun x => showLabel x.1))

def mkSet (mode : String) (ls : List NodeLabel) : Option (ElementSet Nat) :=
  if mode == "auto" then some (ElementSet.ofList (withIdx ls))
  else if mode == "un" then some (.unsorted (withIdx ls))
  else none

def kindOf : ElementSet Nat → String
  | .binarySearchable _ => "bs"
  | .unsorted _ => "un"

def step (st : DState) (line : String) : DState × String :=
  let toks := (line.trimAscii.toString.splitOn " ").filter (· ≠ "")
  match toks with
  | ["lbl.isprefix", a, b] =>
    match parseLabel? a, parseLabel? b with
    | some a, some b => (st, toString (a.isPrefixOf b))
    | _, _ => (st, "bad-op")
  | ["lbl.lcp", cfg, a, b] =>
    match Cfg.ofName? cfg, parseLabel? a, parseLabel? b with
    | some c, some a, some b => (st, showLabel (NodeLabel.lcp c.emptyLabel a b))
    | _, _, _ => (st, "bad-op")
  | ["lbl.prefix", a, n] =>
    match parseLabel? a, n.toNat? with
    | some a, some n => (st, showLabel (a.getPrefix n))
    | _, _ => (st, "bad-op")
  | ["lbl.ord", a, b] =>
    match parseLabel? a, parseLabel? b with
    | some a, some b => (st, showOrd (a.prefixOrdering b))
    | _, _ => (st, "bad-op")
  | ["lbl.cmp", a, b] =>
    match parseLabel? a, parseLabel? b with
    | some a, some b => (st, showOrdering (NodeLabel.cmp a b))
    | _, _ => (st, "bad-op")
  | "set.partition" :: mode :: p :: rest =>
    match parseLabel? p, parseLabels rest with
    | some p, some ls =>
      match mkSet mode ls with
      | some s =>
        let (l, r) := s.partition p
        (st, s!"{kindOf s} L:{showSet l} R:{showSet r}")
      | none => (st, "bad-op")
    | _, _ => (st, "bad-op")
  | "set.lcp" :: mode :: cfg :: rest =>
    match Cfg.ofName? cfg, parseLabels rest with
    | some c, some ls =>
      match mkSet mode ls with
      | some s => (st, s!"{kindOf s} {showLabel (s.setLcp c.emptyLabel)}")
      | none => (st, "bad-op")
    | _, _ => (st, "bad-op")
  | "set.contains" :: mode :: p :: rest =>
    match parseLabel? p, parseLabels rest with
    | some p, some ls =>
      match mkSet mode ls with
      | some s => (st, s!"{kindOf s} {s.containsPrefix p}")
      | none => (st, "bad-op")
    | _, _ => (st, "bad-op")
  | ["mk", s, e, ep] =>
    match s.toNat?, e.toNat?, ep.toNat? with
    | some s, some e, some ep =>
      match Marker.markers? s e ep with
      | some (p, f) => (st, s!"{showNats p} {showNats f}")
      | none => (st, "panic")
    | _, _, _ => (st, "bad-op")
  | _ => (st, "bad-op")

partial def loop (h : IO.FS.Stream) (out : IO.FS.Stream) (st : DState) : IO Unit := do
  let line ← h.getLine
  if line.isEmpty then return ()
  let (st', o) := step st line
  out.putStrLn o
  loop h out st'

def main : IO Unit := do
  let out ← IO.getStdout
  loop (← IO.getStdin) out {}
  out.flush
