import AkdModel.Label
import AkdModel.Marker
import AkdModel.Wire
