/-
L5 — the storage manager as a state machine: database, object cache, transaction log.
Mirrors the order of effects of `akd/src/storage/manager/mod.rs`, `transaction.rs`,
`memory.rs` (user-state queries) and `cache/high_parallelism.rs`.
Every database call carries a failure flag (fault injection); cache expiry and
memory-pressure cleaning are over-approximated by the nondeterministic `evict` step, which
is enabled exactly when the cache may clean (`can_clean`).
`Params` selects the code as repaired (`fixed`) or as it was at the pinned commit (`legacy`).
-/
namespace Akd.Store

inductive Key where
  | azks
  | node (id : Nat)
  | vs (user epoch : Nat)
deriving DecidableEq, Repr

/-- a record; `version` is meaningful for value states, `payload` identifies the content
(for the azks record it is the epoch) -/
structure Rec where
  key : Key
  version : Nat
  payload : Nat
deriving DecidableEq, Repr

abbrev Map := List Rec   -- one binding per key

def Map.get? (m : Map) (k : Key) : Option Rec := m.find? (fun r => r.key = k)

def Map.set (m : Map) (r : Rec) : Map :=
  match m with
  | [] => [r]
  | x :: xs => if x.key = r.key then r :: xs else x :: Map.set xs r

def Map.setAll (m : Map) (rs : List Rec) : Map := rs.foldl Map.set m

def Map.erase (m : Map) (k : Key) : Map := m.filter (fun r => r.key ≠ k)

structure Params where
  /-- D3: fill the cache before the database write (pinned commit) or after it succeeded (repaired) -/
  cacheFirst : Bool
  /-- D7: `get_user_state_versions` merges on (epoch vs version) and keeps the database's version -/
  versionsMergeBug : Bool

def fixed : Params := ⟨false, false⟩
def legacy : Params := ⟨true, true⟩

structure State where
  db : Map := []
  hasCache : Bool := true
  cache : Map := []              -- the DashMap of non-azks items
  cacheAzks : Option Rec := none -- the never-expiring azks slot
  log : Map := []
  active : Bool := false
  canClean : Bool := true
deriving Repr

inductive Flag where
  | specificVersion (v : Nat) | specificEpoch (e : Nat) | leqEpoch (e : Nat) | maxEpoch | minEpoch
deriving DecidableEq, Repr

inductive Obs where
  | ok
  | err
  | bool (b : Bool)
  | one (r : Option Rec)           -- `none` = NotFound
  | recs (rs : List Rec)
  | versions (vs : List (Nat × Nat × Nat))   -- (user, version, payload)
  | count (n : Nat)
deriving DecidableEq, Repr

namespace State

/-! #### cache primitives (`TimedCache`) -/

def cachePut (s : State) (r : Rec) : State :=
  if !s.hasCache then s
  else if r.key = .azks then { s with cacheAzks := some r }
  else { s with cache := s.cache.set r }

def cachePutAll (s : State) (rs : List Rec) : State := rs.foldl cachePut s

def cacheHit (s : State) (k : Key) : Option Rec :=
  if !s.hasCache then none
  else if k = .azks then s.cacheAzks else s.cache.get? k

/-- `get_from_cache_only` (manager/mod.rs:321-338) -/
def fromCacheOnly (s : State) (k : Key) : Option Rec :=
  match (if s.active then s.log.get? k else none) with
  | some r => some r
  | none => s.cacheHit k

/-! #### record operations -/

/-- `set` (manager/mod.rs:260-276) -/
def set (p : Params) (s : State) (r : Rec) (dbFails : Bool) : State × Obs :=
  if s.active then ({ s with log := s.log.set r }, .ok)
  else if p.cacheFirst then
    let s := s.cachePut r
    if dbFails then (s, .err) else ({ s with db := s.db.set r }, .ok)
  else
    if dbFails then (s, .err) else (({ s with db := s.db.set r }).cachePut r, .ok)

/-- `batch_set` (manager/mod.rs:279-304) -/
def batchSet (p : Params) (s : State) (rs : List Rec) (dbFails : Bool) : State × Obs :=
  if rs.isEmpty then (s, .ok)
  else if s.active then ({ s with log := s.log.setAll rs }, .ok)
  else if p.cacheFirst then
    let s := s.cachePutAll rs
    if dbFails then (s, .err) else ({ s with db := s.db.setAll rs }, .ok)
  else
    if dbFails then (s, .err) else (({ s with db := s.db.setAll rs }).cachePutAll rs, .ok)

/-- `get` (manager/mod.rs:341-357) -/
def get (s : State) (k : Key) (dbFails : Bool) : State × Obs :=
  match s.fromCacheOnly k with
  | some r => (s, .one (some r))
  | none =>
    if dbFails then (s, .err)
    else match s.db.get? k with
      | some r => (s.cachePut r, .one (some r))
      | none => (s, .one none)

/-- `get_direct` (manager/mod.rs:307-317) -/
def getDirect (s : State) (k : Key) (dbFails : Bool) : State × Obs :=
  if dbFails then (s, .err) else (s, .one (s.db.get? k))

/-- `batch_get` (manager/mod.rs:360-412); the answer is a set -/
def batchGet (s : State) (ks : List Key) (dbFails : Bool) : State × Obs :=
  if ks.isEmpty then (s, .recs [])
  else
    let hits := ks.filterMap s.fromCacheOnly
    let missing := (ks.filter (fun k => (s.fromCacheOnly k).isNone)).eraseDups
    if missing.isEmpty then (s, .recs hits)
    else if dbFails then (s, .err)
    else
      let got := missing.filterMap s.db.get?
      (s.cachePutAll got, .recs (hits ++ got))

/-! #### transactions -/

/-- `begin_transaction` (manager/mod.rs:178-188): cleaning is disabled even when refused -/
def begin (s : State) : State × Obs :=
  ({ s with active := true, canClean := if s.hasCache then false else s.canClean }, .bool (!s.active))

/-- the log with the azks record last (`transaction_priority`, transaction.rs:92-111) -/
def commitOrder (log : Map) : List Rec :=
  log.filter (fun r => r.key ≠ .azks) ++ log.filter (fun r => r.key = .azks)

/-- `commit_transaction` (manager/mod.rs:191-227) -/
def commit (p : Params) (s : State) (dbFails : Bool) : State × Obs :=
  if !s.active then (s, .err)
  else
    let records := commitOrder s.log
    let s := { s with log := [], active := false, canClean := if s.hasCache then true else s.canClean }
    if records.isEmpty then (s, .count 0)
    else match records.getLast? with
      | some r =>
        if r.key ≠ .azks then (s, .err)
        else if p.cacheFirst then
          let s := s.cachePutAll records
          if dbFails then (s, .err) else ({ s with db := s.db.setAll records }, .count records.length)
        else
          if dbFails then (s, .err)
          else (({ s with db := s.db.setAll records }).cachePutAll records, .count records.length)
      | none => (s, .count 0)

/-- `rollback_transaction` (manager/mod.rs:230-238) -/
def rollback (s : State) : State × Obs :=
  if !s.active then (s, .err)
  else ({ s with log := [], active := false, canClean := if s.hasCache then true else s.canClean }, .ok)

/-- `flush_cache` (manager/mod.rs:415-419) -/
def flush (s : State) : State × Obs := ({ s with cache := [], cacheAzks := none }, .ok)

/-- expiry / memory-pressure cleaning of any set of keys, possible only while cleaning is enabled;
the azks slot never expires (cache/high_parallelism.rs:57-121, 147-185) -/
def evict (s : State) (ks : List Key) : State × Obs :=
  if s.canClean then ({ s with cache := ks.foldl Map.erase s.cache }, .ok) else (s, .ok)

/-! #### user-state queries -/

def userStates (m : Map) (u : Nat) : List Rec :=
  m.filter (fun r => match r.key with | .vs u' _ => u' = u | _ => false)

def epochOf (r : Rec) : Nat := match r.key with | .vs _ e => e | _ => 0

def maxBy (f : Rec → Nat) : List Rec → Option Rec
  | [] => none
  | x :: xs => match maxBy f xs with
    | some y => if f y > f x then some y else some x
    | none => some x

def minBy (f : Rec → Nat) : List Rec → Option Rec
  | [] => none
  | x :: xs => match minBy f xs with
    | some y => if f y < f x then some y else some x
    | none => some x

/-- the selection both `memory.rs:208-260` and `transaction.rs:253-276` implement (on well-formed
data: one record per epoch, epochs ≥ 1, versions increasing with epochs) -/
def select (rs : List Rec) : Flag → Option Rec
  | .specificVersion v => minBy epochOf (rs.filter (fun r => r.version = v))
  | .specificEpoch e => rs.find? (fun r => epochOf r = e)
  | .leqEpoch e => maxBy epochOf (rs.filter (fun r => epochOf r ≤ e))
  | .maxEpoch => maxBy epochOf rs
  | .minEpoch => minBy epochOf rs

/-- `compare_db_and_transaction_records` (manager/mod.rs:581-616) -/
def preferTxn (dbEpoch : Nat) (t : Rec) : Flag → Bool
  | .specificVersion _ => true
  | .specificEpoch _ => true
  | .leqEpoch _ => epochOf t ≥ dbEpoch
  | .maxEpoch => epochOf t ≥ dbEpoch
  | .minEpoch => epochOf t ≤ dbEpoch

/-- `get_user_state` (manager/mod.rs:450-495) -/
def userState (s : State) (u : Nat) (f : Flag) (dbFails : Bool) : State × Obs :=
  if dbFails then (s, .err)
  else
    let dbv := select (userStates s.db u) f
    let txv := if s.active then select (userStates s.log u) f else none
    match txv, dbv with
    | some t, some d => if preferTxn (epochOf d) t f then (s, .one (some t)) else (s.cachePut d, .one (some d))
    | some t, none => (s, .one (some t))
    | none, some d => (s.cachePut d, .one (some d))
    | none, none => (s, .one none)

/-- `get_user_data` (manager/mod.rs:498-541); the answer is a set, an absent user is `[]` -/
def userData (s : State) (u : Nat) (dbFails : Bool) : State × Obs :=
  if dbFails then (s, .err)
  else if s.active then (s, .recs (Map.setAll (userStates s.db u) (userStates s.log u)))
  else (s, .recs (userStates s.db u))

/-- `get_user_state_versions` (manager/mod.rs:544-579) -/
def userVersions (p : Params) (s : State) (us : List Nat) (f : Flag) (dbFails : Bool) : State × Obs :=
  if dbFails then (s, .err)
  else
    let one (u : Nat) : Option (Nat × Nat × Nat) :=
      let dbv := select (userStates s.db u) f
      let txv := if s.active then select (userStates s.log u) f else none
      match txv, dbv with
      | some t, some d =>
        if p.versionsMergeBug then
          -- compares the transaction record's EPOCH with the database answer's VERSION and keeps the
          -- database's version next to the transaction's value
          if preferTxn d.version t f then some (u, d.version, t.payload) else some (u, d.version, d.payload)
        else
          let take := match f with
            | .specificVersion _ => true | .specificEpoch _ => true
            | .leqEpoch _ => t.version ≥ d.version | .maxEpoch => t.version ≥ d.version
            | .minEpoch => t.version ≤ d.version
          if take then some (u, t.version, t.payload) else some (u, d.version, d.payload)
      | some t, none => if p.versionsMergeBug then some (u, epochOf t, t.payload) else some (u, t.version, t.payload)
      | none, some d => some (u, d.version, d.payload)
      | none, none => none
    (s, .versions (us.eraseDups.filterMap one))

/-- `tombstone_value_states` (manager/mod.rs:421-447); payload 0 is the tombstone -/
def tombstone (p : Params) (s : State) (u : Nat) (epoch : Nat) (dbFails : Bool) : State × Obs :=
  let data := if s.active then Map.setAll (userStates s.db u) (userStates s.log u) else userStates s.db u
  if dbFails then (s, .err)
  else if data.isEmpty && !s.active then (s, .err)
  else
    let upd := (data.filter (fun r => epochOf r ≤ epoch ∧ r.payload ≠ 0)).map (fun r => { r with payload := 0 })
    batchSet p s upd false

end State

/-- the operations of the correspondence stream and of the theorems -/
inductive Op where
  | set (r : Rec) (dbFails : Bool)
  | batchSet (rs : List Rec) (dbFails : Bool)
  | get (k : Key) (dbFails : Bool)
  | getDirect (k : Key) (dbFails : Bool)
  | batchGet (ks : List Key) (dbFails : Bool)
  | begin
  | commit (dbFails : Bool)
  | rollback
  | flush
  | evict (ks : List Key)
  | userState (u : Nat) (f : Flag) (dbFails : Bool)
  | userData (u : Nat) (dbFails : Bool)
  | userVersions (us : List Nat) (f : Flag) (dbFails : Bool)
  | tombstone (u : Nat) (e : Nat) (dbFails : Bool)

def step (p : Params) (s : State) : Op → State × Obs
  | .set r f => s.set p r f
  | .batchSet rs f => s.batchSet p rs f
  | .get k f => s.get k f
  | .getDirect k f => s.getDirect k f
  | .batchGet ks f => s.batchGet ks f
  | .begin => s.begin
  | .commit f => s.commit p f
  | .rollback => s.rollback
  | .flush => s.flush
  | .evict ks => s.evict ks
  | .userState u fl f => s.userState u fl f
  | .userData u f => s.userData u f
  | .userVersions us fl f => s.userVersions p us fl f
  | .tombstone u e f => s.tombstone p u e f

def run (p : Params) (s : State) (ops : List Op) : State := ops.foldl (fun s o => (step p s o).1) s

end Akd.Store
