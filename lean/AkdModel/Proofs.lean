/-
Proof structures (field for field `akd_core/src/types/mod.rs`) and the two
leaf-level verifiers (`akd_core/src/verify/base.rs:38-139`).
Labels in proofs are byte-level `NodeLabel`s: they are adversary-controlled.
-/
import AkdModel.Cfg
namespace Akd

inductive Direction where
  | left | right
deriving DecidableEq

def Direction.other : Direction → Direction
  | .left => .right
  | .right => .left

structure AzksElement where
  label : NodeLabel
  value : Dig
deriving DecidableEq

/-- `SiblingProof` (siblings has exactly one element in the Rust type: `[AzksElement; 1]`). -/
structure SiblingProof where
  label : NodeLabel
  sibling : AzksElement
  direction : Direction
deriving DecidableEq

structure MembershipProof where
  label : NodeLabel
  hashVal : Dig
  siblingProofs : List SiblingProof
deriving DecidableEq

structure NonMembershipProof where
  label : NodeLabel
  longestPrefix : NodeLabel
  child0 : AzksElement
  child1 : AzksElement
  longestPrefixMembershipProof : MembershipProof
deriving DecidableEq

/-- one iteration of the loop of `verify_membership` (base.rs:45-64) -/
def foldStep (c : Cfg) (st : Dig × NodeLabel) (sp : SiblingProof) : Dig × NodeLabel :=
  match sp.direction with
  | .left => (c.parentHash st.1 st.2 sp.sibling.value sp.sibling.label, sp.label)
  | .right => (c.parentHash sp.sibling.value sp.sibling.label st.1 st.2, sp.label)

/-- the value and label reached after folding the sibling proofs leaf-to-root -/
def foldUp (c : Cfg) (p : MembershipProof) : Dig × NodeLabel :=
  p.siblingProofs.reverse.foldl (foldStep c) (p.hashVal, p.label)

/-- `verify_membership` (base.rs:38-74) as repaired (fix D8): after the fold the label reached
must be the root label, so that the claimed label is bound even for a proof without siblings. -/
def verifyMembership (c : Cfg) (rootHash : Dig) (p : MembershipProof) : Bool :=
  c.rootHash (foldUp c p).1 == rootHash && (foldUp c p).2 == NodeLabel.root

/-- the side conditions of `verify_nonmembership` (base.rs:88-139) before the membership check -/
def nonMembershipShape (c : Cfg) (p : NonMembershipProof) : Bool :=
  if p.label = p.child0.label || p.label = p.child1.label then false
  else if !p.longestPrefix.isPrefixOf p.label then false
  else
    let lcp0 := NodeLabel.lcp c.emptyLabel p.child0.label p.child1.label
    let lcpChildren := if lcp0 = c.emptyLabel then NodeLabel.root else lcp0
    if p.longestPrefix ≠ lcpChildren then false
    else
      let lcpHash := c.parentHash p.child0.value p.child0.label p.child1.value p.child1.label
      !(lcpChildren ≠ p.longestPrefixMembershipProof.label
          || lcpHash ≠ p.longestPrefixMembershipProof.hashVal)

/-- fix D1: a real (non-empty) child of the anchor must not itself be a prefix of the label —
otherwise the anchor is not the deepest matching node -/
def childrenNotPrefix (c : Cfg) (p : NonMembershipProof) : Bool :=
  !((p.child0.label ≠ c.emptyLabel && p.child0.label.isPrefixOf p.label)
    || (p.child1.label ≠ c.emptyLabel && p.child1.label.isPrefixOf p.label))

/-- `verify_nonmembership` as repaired (fixes D1 and, through `verifyMembership`, D8). -/
def verifyNonMembership (c : Cfg) (rootHash : Dig) (p : NonMembershipProof) : Bool :=
  nonMembershipShape c p && childrenNotPrefix c p
    && verifyMembership c rootHash p.longestPrefixMembershipProof

/-! The verifiers as they were at the pinned commit, kept for the witness theorems. -/
namespace Legacy

def verifyMembership (c : Cfg) (rootHash : Dig) (p : MembershipProof) : Bool :=
  c.rootHash (foldUp c p).1 == rootHash

def verifyNonMembership (c : Cfg) (rootHash : Dig) (p : NonMembershipProof) : Bool :=
  nonMembershipShape c p && verifyMembership c rootHash p.longestPrefixMembershipProof

end Legacy

end Akd
