/-
Canonical text forms of digests, proofs and node records (observations of the line protocol).
Digest terms are printed as S-expressions; the harness evaluates them with the real hash.
-/
import AkdModel.Wire
import AkdModel.Verify
namespace Akd.Show
open Akd.Wire

def dig : Dig → String
  | .raw bs => s!"(raw {hexOfBytes bs})"
  | .hBytes bs => s!"(hb {hexOfBytes bs})"
  | .hLeaf c ep => s!"(leaf {dig c} {ep})"
  | .hCat a b => s!"(cat {dig a} {dig b})"
  | .hValLbl v l => s!"(vl {dig v} {showLabel l})"
  | .hNode lv ll rv rl => s!"(node {dig lv} {showLabel ll} {dig rv} {showLabel rl})"
  | .hCommit v n => s!"(cm {hexOfBytes v} {dig n})"
  | .hNonceW k l ver v => s!"(nw {dig k} {showLabel l} {ver} {hexOfBytes v})"
  | .hNonceE k l => s!"(nx {dig k} {showLabel l})"

def dir : Direction → String
  | .left => "L" | .right => "R"

def sibling (s : SiblingProof) : String :=
  s!"{showLabel s.label},{showLabel s.sibling.label},{dig s.sibling.value},{dir s.direction}"

def membership (p : MembershipProof) : String :=
  s!"M[{showLabel p.label}|{dig p.hashVal}|{";".intercalate (p.siblingProofs.map sibling)}]"

def nonMembership (p : NonMembershipProof) : String :=
  s!"N[{showLabel p.label}|{showLabel p.longestPrefix}|{showLabel p.child0.label},{dig p.child0.value}|{showLabel p.child1.label},{dig p.child1.value}|{membership p.longestPrefixMembershipProof}]"

def vrf : VrfProof → String
  | some _ => "vrf:ok"
  | none => "vrf:BAD"

def lookup (p : LookupProof) : String :=
  s!"LK[{p.epoch}|{hexOfBytes p.value}|{p.version}|{vrf p.existenceVrf}|{membership p.existence}|{vrf p.markerVrf}|{membership p.marker}|{vrf p.freshnessVrf}|{nonMembership p.freshness}|{dig p.commitmentNonce}]"

def update (p : UpdateProof) : String :=
  let pv := match p.previousVrf with | some v => vrf v | none => "-"
  let pp := match p.previous with | some m => membership m | none => "-"
  s!"UP[{p.epoch}|{hexOfBytes p.value}|{p.version}|{vrf p.existenceVrf}|{membership p.existence}|{pv}|{pp}|{dig p.commitmentNonce}]"

def history (p : HistoryProof) : String :=
  s!"HP[{" ".intercalate (p.updates.map update)}|{",".intercalate (p.pastVrf.map vrf)}|{" ".intercalate (p.past.map membership)}|{",".intercalate (p.futureVrf.map vrf)}|{" ".intercalate (p.future.map nonMembership)}]"

def element (e : AzksElement) : String := s!"{showLabel e.label}={dig e.value}"

/-- sorted, so that the order in which parallel tasks append does not matter -/
def sortStrings (xs : List String) : List String :=
  xs.foldr (fun x acc =>
    let rec ins (x : String) : List String → List String
      | [] => [x]
      | y :: ys => if x ≤ y then x :: y :: ys else y :: ins x ys
    ins x acc) []

def single (p : NodeStore.SingleAppendOnlyProof) : String :=
  s!"I:{",".intercalate (sortStrings (p.inserted.map element))} U:{",".intercalate (sortStrings (p.unchanged.map element))}"

def appendOnly (p : NodeStore.AppendOnlyProof) : String :=
  s!"AP[{" / ".intercalate (p.proofs.map single)}|{showNats p.epochs}]"

def nodeType : NodeType → String
  | .leaf => "leaf" | .root => "root" | .interior => "int"

def optLabel : Option NodeLabel → String
  | some l => showLabel l | none => "-"

def treeNode (n : TreeNode) : String :=
  s!"{showLabel n.label} {nodeType n.nodeType} le={n.lastEpoch} md={n.minDescEpoch} l={optLabel n.left} r={optLabel n.right} h={dig n.hash}"

def nodeRec (r : NodeRec) : String :=
  let prev := match r.previous with | some p => "{" ++ treeNode p ++ "}" | none => "-"
  "{" ++ treeNode r.latest ++ "} prev=" ++ prev

def verifyResult (r : Verify.VerifyResult) : String :=
  s!"({r.epoch},{r.version},{hexOfBytes r.value})"

end Akd.Show
