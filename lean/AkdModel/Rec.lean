/-
L5 — versioned node records.  Mirrors `akd/src/tree_node.rs:62-345`:
`TreeNodeWithPreviousValue`, `determine_node_to_get`, `TreeNode::write_to_storage`.
-/
import AkdModel.Cfg
namespace Akd

inductive NodeType where
  | leaf | root | interior
deriving DecidableEq

/-- `TreeNode` (tree_node.rs:229-254). -/
structure TreeNode where
  label : NodeLabel
  lastEpoch : Nat
  minDescEpoch : Nat
  parent : NodeLabel
  nodeType : NodeType
  left : Option NodeLabel
  right : Option NodeLabel
  hash : Dig
deriving DecidableEq

/-- `TreeNodeWithPreviousValue` (tree_node.rs:81-88). -/
structure NodeRec where
  label : NodeLabel
  latest : TreeNode
  previous : Option TreeNode
deriving DecidableEq

inductive Err where
  | notFound
  | noDirection
  | invalidEpoch
  | other
deriving DecidableEq

/-- `determine_node_to_get` (tree_node.rs:137-159) as repaired (fix D4): the previous version is
only returned when it is itself not newer than the target epoch. -/
def NodeRec.resolve (r : NodeRec) (target : Nat) : Except Err TreeNode :=
  if r.latest.lastEpoch > target then
    match r.previous with
    | some p => if p.lastEpoch > target then .error .notFound else .ok p
    | none => .error .notFound
  else .ok r.latest

/-- the pinned commit: `previous` returned without looking at its epoch (defect D4) -/
def NodeRec.resolveLegacy (r : NodeRec) (target : Nat) : Except Err TreeNode :=
  if r.latest.lastEpoch > target then
    match r.previous with
    | some p => .ok p
    | none => .error .notFound
  else .ok r.latest

/-- a label-keyed record map (one binding per key, `set` replaces) -/
abbrev NodeMap := List (NodeLabel × NodeRec)

def NodeMap.get? (m : NodeMap) (k : NodeLabel) : Option NodeRec :=
  match m with
  | [] => none
  | (k', r) :: rest => if k' = k then some r else NodeMap.get? rest k

def NodeMap.set (m : NodeMap) (r : NodeRec) : NodeMap :=
  match m with
  | [] => [(r.label, r)]
  | (k', r') :: rest => if k' = r.label then (k', r) :: rest else (k', r') :: NodeMap.set rest r

/-- node storage as the tree code sees it: committed records and the pending transaction log
(reads consult the log first: `StorageManager::get`, manager/mod.rs:321-357) -/
structure NodeStore where
  db : NodeMap := []
  log : NodeMap := []
  /-- writes go to the log while a transaction is active, else straight to the database -/
  inTxn : Bool := false

namespace NodeStore

def getRec (s : NodeStore) (k : NodeLabel) : Option NodeRec :=
  match (if s.inTxn then s.log.get? k else none) with
  | some r => some r
  | none => s.db.get? k

def setRec (s : NodeStore) (r : NodeRec) : NodeStore :=
  if s.inTxn then { s with log := s.log.set r } else { s with db := s.db.set r }

/-- `TreeNode::get_from_storage` (tree_node.rs:180-191, 320-331). -/
def getNode (s : NodeStore) (k : NodeLabel) (target : Nat) : Except Err TreeNode :=
  match s.getRec k with
  | some r => r.resolve target
  | none => .error .notFound

/-- `TreeNode::write_to_storage` (tree_node.rs:272-318). -/
def writeNode (s : NodeStore) (n : TreeNode) (isNew : Bool) : Except Err NodeStore :=
  let target := if n.lastEpoch > 0 then n.lastEpoch - 1 else n.lastEpoch
  let previous : Except Err (Option TreeNode) :=
    if isNew then .ok none
    else match s.getNode n.label target with
      | .ok p => .ok (some p)
      | .error .notFound => .ok none
      | .error e => .error e
  match previous with
  | .ok p => .ok (s.setRec ⟨n.label, n, p⟩)
  | .error e => .error e

/-- `commit_transaction`: the log's records reach the database -/
def commit (s : NodeStore) : NodeStore :=
  { db := s.log.foldl (fun d (kr : NodeLabel × NodeRec) => NodeMap.set d kr.2) s.db, log := [], inTxn := false }

def rollback (s : NodeStore) : NodeStore := { s with log := [], inTxn := false }

def begin (s : NodeStore) : NodeStore := { s with inTxn := true }

end NodeStore
end Akd
