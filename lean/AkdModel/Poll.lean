/-
L6c — change polling (`Directory::poll_for_azks_changes`, directory.rs:642-700) against requests served
by the same instance, and publishes made by ANOTHER instance on the same storage.

Only the epoch record is modelled (the cached epoch record never expires; `flush` clears it): what a
request answers is determined by the epoch record it obtains at its start.  `db` is the epoch in
storage, `cache` the cached epoch record of the serving instance.

  poller:   sleeping --(uncached read: latest; latest > last?)--> detected
            --(cache_lock.write(): waits until no guarded request is under way)--> locked
            --(flush_cache)--> flushed
            --(re-fetch through the cache: hit, or miss -> database read -> fill if vacant)--> `last` := value,
              notify (ghost `sig` := max sig latest), release, sleeping
  request:  idle --(guarded: cache_lock.read(), refused while the poller holds the lock)-->
            epoch record through the cache (hit / miss -> database read -> fill if vacant)
            --> holding the epoch (node reads) --> answer, release

A request is `guarded` when it holds the read side of `cache_lock` for its whole duration: publish, lookup,
batch_lookup, key_history, audit — and, since fix D12, get_epoch_hash.  The pinned commit served
get_epoch_hash unguarded.
-/
namespace Akd.Poll

inductive RPc where
  | idle
  | missed (sig : Nat)              -- request begun, epoch record not cached; `sig` = newest epoch signalled at its start
  | read (sig : Nat) (v : Nat)      -- database read done (value `v`), not yet offered to the cache
  | holding (sig : Nat) (e : Nat)   -- serving from epoch `e`
deriving DecidableEq

structure Reader where
  guarded : Bool
  pc : RPc := .idle
deriving DecidableEq

inductive PPc where
  | sleeping
  | detected (latest : Nat)
  | locked (latest : Nat)
  | flushed (latest : Nat)
  | refetchMiss (latest : Nat)
  | refetched (latest : Nat) (v : Nat)
deriving DecidableEq

structure Sys where
  db : Nat
  cache : Option Nat
  wlock : Bool := false
  rs : List Reader
  p : PPc := .sleeping
  last : Nat
  /-- ghost: the newest epoch the poller has signalled -/
  sig : Nat := 0
  /-- ghost: (newest epoch signalled when the request started, epoch it was answered from) -/
  answers : List (Nat × Nat) := []
deriving DecidableEq

inductive Act where
  | publish           -- another instance commits the next epoch
  | poller
  | reader (i : Nat)
deriving DecidableEq

def setR (s : Sys) (i : Nat) (r : Reader) : Sys := { s with rs := s.rs.set i r }

/-- some guarded request is under way (holds the read side of the lock) -/
def readLocked (s : Sys) : Bool := s.rs.any fun r => r.guarded && r.pc != .idle

def step (s : Sys) : Act → Option Sys
  | .publish => some { s with db := s.db + 1 }
  | .poller =>
    match s.p with
    | .sleeping => if s.db > s.last then some { s with p := .detected s.db } else some s
    | .detected l => if readLocked s then none else some { s with wlock := true, p := .locked l }
    | .locked l => some { s with cache := none, p := .flushed l }
    | .flushed l =>
      match s.cache with
      | some v => some { s with last := v, sig := max s.sig l, wlock := false, p := .sleeping }
      | none => some { s with p := .refetchMiss l }
    | .refetchMiss l => some { s with p := .refetched l s.db }
    | .refetched l v =>
      some { s with cache := (match s.cache with | none => some v | some c => some c),
                    last := v, sig := max s.sig l, wlock := false, p := .sleeping }
  | .reader i =>
    match s.rs[i]? with
    | none => none
    | some r =>
      match r.pc with
      | .idle =>
        if r.guarded && s.wlock then none
        else match s.cache with
          | some v => some (setR s i { r with pc := .holding s.sig v })
          | none => some (setR s i { r with pc := .missed s.sig })
      | .missed g => some (setR s i { r with pc := .read g s.db })
      | .read g v =>
        some (setR { s with cache := (match s.cache with | none => some v | some c => some c) } i
                { r with pc := .holding g v })
      | .holding g e => some (setR { s with answers := s.answers ++ [(g, e)] } i { r with pc := .idle })

def run (s : Sys) : List Act → Option Sys
  | [] => some s
  | a :: rest => match step s a with
    | some s' => run s' rest
    | none => none

/-- an instance that has just been constructed at epoch `e` (its constructor read the epoch record through
the cache, and so did the poller when it started): `guards` says for each request slot whether it is guarded -/
def init (e : Nat) (guards : List Bool) : Sys :=
  { db := e, cache := some e, last := e, rs := guards.map fun g => { guarded := g } }

end Akd.Poll
