/-
Bit strings: the meaning of labels.  Every layer above L0 works on `BitStr`
and reaches the byte-level `NodeLabel` only through `ofBits` / `bits`
(the C17 theorems are what justifies that).  No imports beyond Label.
-/
import AkdModel.Label
namespace Akd

abbrev BitStr := List Bool

namespace BitStr

/-- longest common prefix of two bit strings -/
def commonPrefix : BitStr → BitStr → BitStr
  | a :: as, b :: bs => if a = b then a :: commonPrefix as bs else []
  | _, _ => []

/-- lexicographic order on equal-length bit strings (`false < true`) -/
def lex : BitStr → BitStr → Ordering
  | [], [] => .eq
  | [], _ :: _ => .lt
  | _ :: _, [] => .gt
  | a :: as, b :: bs =>
    if a = b then lex as bs else if a = false then .lt else .gt

def isPrefix (a b : BitStr) : Bool := a.length ≤ b.length && b.take a.length == a

end BitStr

/-- pack 8 bits (most significant first; missing bits are zero) into a byte -/
def byteOfBits (bs : List Bool) : UInt8 :=
  UInt8.ofNat ((List.range 8).foldl (fun acc i => acc * 2 + (if bs.getD i false then 1 else 0)) 0)

namespace NodeLabel

/-- the normalised label that stands for a bit string (`len = length`, padding zero) -/
def ofBits (bs : BitStr) : NodeLabel :=
  ⟨Vector.ofFn fun (i : Fin 32) => byteOfBits (bs.drop (8 * i.val)), bs.length⟩

/-- all bits beyond `len` are zero -/
def Normalised (l : NodeLabel) : Prop := l.bits256 = l.bits ++ List.replicate (256 - l.len) false

end NodeLabel
end Akd
