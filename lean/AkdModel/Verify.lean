/-
L4 — client-side verification (`akd_core/src/verify/{base,lookup,history}.rs`) and the
auditor (`akd/src/auditor.rs`).  `Except VErr` results; `panic` is an explicit outcome.
-/
import AkdModel.Dir
namespace Akd

inductive VErr where
  | lookup | history | membership | nonMembership | vrf | audit | panic
deriving DecidableEq

namespace Verify

/-- `verify_label` (base.rs:144-167) over the VRF contract: the proof must be the honest proof
for exactly this input, and the claimed node label must be the oracle's output for it. -/
def verifyLabel (t : VrfTable) (u : Bytes) (fresh : Bool) (ver : Nat) (pf : VrfProof) (nl : NodeLabel) : Bool :=
  match pf with
  | none => false
  | some cl =>
    cl.username = u && cl.fresh = fresh && cl.version = ver &&
      (match t.get? cl with
       | some l => l = nl
       | none => false)

/-- `verify_existence` (base.rs:169-188) -/
def existence (c : Cfg) (t : VrfTable) (root : Dig) (u : Bytes) (fresh : Bool) (ver : Nat)
    (pf : VrfProof) (mp : MembershipProof) : Except VErr Unit :=
  if !verifyLabel t u fresh ver pf mp.label then .error .vrf
  else if !verifyMembership c root mp then .error .membership
  else .ok ()

/-- `verify_existence_with_val` (base.rs:191-220): `hash_leaf_with_value(value, epoch, nonce)` -/
def existenceWithVal (c : Cfg) (t : VrfTable) (root : Dig) (u : Bytes) (value : Bytes) (epoch : Nat)
    (nonce : Dig) (fresh : Bool) (ver : Nat) (pf : VrfProof) (mp : MembershipProof) : Except VErr Unit :=
  if c.leafHash (c.commit value nonce) epoch ≠ mp.hashVal then .error .membership
  else existence c t root u fresh ver pf mp

/-- `verify_existence_with_commitment` (base.rs:223-250) -/
def existenceWithCommitment (c : Cfg) (t : VrfTable) (root : Dig) (u : Bytes) (commitment : Dig)
    (epoch : Nat) (fresh : Bool) (ver : Nat) (pf : VrfProof) (mp : MembershipProof) : Except VErr Unit :=
  if c.leafHash commitment epoch ≠ mp.hashVal then .error .membership
  else existence c t root u fresh ver pf mp

/-- `verify_nonexistence` (base.rs:252-271) -/
def nonexistence (c : Cfg) (t : VrfTable) (root : Dig) (u : Bytes) (fresh : Bool) (ver : Nat)
    (pf : VrfProof) (np : NonMembershipProof) : Except VErr Unit :=
  if !verifyLabel t u fresh ver pf np.label then .error .vrf
  else if !verifyNonMembership c root np then .error .nonMembership
  else .ok ()

structure VerifyResult where
  epoch : Nat
  version : Nat
  value : Bytes
deriving DecidableEq

/-- `lookup_verify` (lookup.rs:18-72).  `get_marker_version_log2(0)` panics, after the
existence proof has been accepted. -/
def lookup (c : Cfg) (t : VrfTable) (root : Dig) (curEpoch : Nat) (u : Bytes) (p : LookupProof) :
    Except VErr VerifyResult :=
  if p.version > curEpoch then .error .lookup
  else
    match existenceWithVal c t root u p.value p.epoch p.commitmentNonce true p.version p.existenceVrf p.existence with
    | .error e => .error e
    | .ok () =>
      if p.version = 0 then .error .panic
      else
        match existence c t root u true (Dir.markerVersion p.version) p.markerVrf p.marker with
        | .error e => .error e
        | .ok () =>
          match nonexistence c t root u false p.version p.freshnessVrf p.freshness with
          | .error e => .error e
          | .ok () => .ok ⟨p.epoch, p.version, p.value⟩

/-- the consecutive-decreasing check (history.rs:84-98) -/
def consecutiveDecreasing : List Nat → Bool
  | a :: b :: rest => (b + 1 == a) && consecutiveDecreasing (b :: rest)
  | _ => true

/-- `verify_with_history_params` (history.rs:68-188) -/
def withHistoryParams (curEpoch : Nat) (p : HistoryProof) (params : HistoryParams) :
    Except VErr (List Nat × List Nat) :=
  let n := p.updates.length
  match p.updates.map (·.version) with
  | [] => .error .history
  | v0 :: vs =>
    if !consecutiveDecreasing (v0 :: vs) then .error .history
    else
      let startV := (v0 :: vs).foldl min v0
      let endV := (v0 :: vs).foldl max v0
      if startV = 0 then .error .history
      else if endV > curEpoch then .error .history
      else
        let okParams : Bool := match params with
          | .complete => startV == 1
          | .mostRecent r => if n > r then false else if n < r then startV == 1 else true
        if !okParams then .error .history
        else
          match Marker.markers? startV endV curEpoch with
          | none => .error .panic
          | some (past, future) =>
            if past.length ≠ p.pastVrf.length then .error .history
            else if p.pastVrf.length ≠ p.past.length then .error .history
            else if future.length ≠ p.futureVrf.length then .error .history
            else if p.futureVrf.length ≠ p.future.length then .error .history
            else .ok (past, future)

/-- `verify_single_update_proof` (history.rs:270-347) -/
def singleUpdate (c : Cfg) (t : VrfTable) (root : Dig) (u : Bytes) (allowMissing : Bool) (p : UpdateProof) :
    Except VErr VerifyResult :=
  let first : Except VErr Unit :=
    if allowMissing && p.value = [] then
      existence c t root u true p.version p.existenceVrf p.existence
    else existenceWithVal c t root u p.value p.epoch p.commitmentNonce true p.version p.existenceVrf p.existence
  match first with
  | .error e => .error e
  | .ok () =>
    let r : VerifyResult := ⟨p.epoch, p.version, p.value⟩
    if p.version ≤ 1 then .ok r
    else
      match p.previous, p.previousVrf with
      | none, _ => .error .history
      | some _, none => .error .history
      | some pp, some pv =>
        match existenceWithCommitment c t root u c.staleValue p.epoch false (p.version - 1) pv pp with
        | .error e => .error e
        | .ok () => .ok r

/-- the loop over update proofs with the epoch-monotonicity check (history.rs:211-233) -/
def verifyUpdates (c : Cfg) (t : VrfTable) (root : Dig) (u : Bytes) (allowMissing : Bool) :
    Option Nat → List UpdateProof → Except VErr (List VerifyResult)
  | _, [] => .ok []
  | prev, p :: rest =>
    if (match prev with | some pe => decide (p.epoch > pe) | none => false) then .error .history
    else
      match singleUpdate c t root u allowMissing p with
      | .error e => .error e
      | .ok r =>
        match verifyUpdates c t root u allowMissing (some p.epoch) rest with
        | .error e => .error e
        | .ok rs => .ok (r :: rs)

def verifyAll {α β} (f : α → β → Except VErr Unit) : List α → List β → Except VErr Unit
  | a :: as, b :: bs =>
    match f a b with
    | .error e => .error e
    | .ok () => verifyAll f as bs
  | _, _ => .ok ()

/-- `key_history_verify` (history.rs:194-267) -/
def history (c : Cfg) (t : VrfTable) (root : Dig) (curEpoch : Nat) (u : Bytes) (p : HistoryProof)
    (params : HistoryParams) (allowMissing : Bool) : Except VErr (List VerifyResult) :=
  match withHistoryParams curEpoch p params with
  | .error e => .error e
  | .ok (past, future) =>
    match verifyUpdates c t root u allowMissing none p.updates with
    | .error e => .error e
    | .ok rs =>
      match verifyAll (fun (v : Nat) (x : VrfProof × MembershipProof) =>
              existence c t root u true v x.1 x.2) past (p.pastVrf.zip p.past) with
      | .error e => .error e
      | .ok () =>
        match verifyAll (fun (v : Nat) (x : VrfProof × NonMembershipProof) =>
                match nonexistence c t root u true v x.1 x.2 with
                | .error _ => .error .history
                | .ok () => .ok ()) future (p.futureVrf.zip p.future) with
        | .error e => .error e
        | .ok () => .ok rs

end Verify

/-! ### auditor (`akd/src/auditor.rs`) -/
namespace Auditor

/-- the rebuild of `verify_append_only_hash` (auditor.rs:89-119): a tree from the nodes, in
auditor mode; returns its root hash -/
def rebuildRoot (c : Cfg) (nodes : List AzksElement) (latestEpoch : Option Nat) : Except VErr Dig :=
  match ({} : NodeStore).azksNew c with
  | .error _ => .error .audit
  | .ok (s, a) =>
    let a := match latestEpoch with
      | some e => { a with latestEpoch := e }
      | none => a
    match s.batchInsert c .auditor a (nodes.map fun n => (n.label, n.value)) with
    | .error _ => .error .audit
    | .ok (s, a) =>
      match s.rootHash c a with
      | .error _ => .error .audit
      | .ok h => .ok h

/-- `verify_append_only_hash` (auditor.rs:89-119) -/
def appendOnlyHash (c : Cfg) (nodes : List AzksElement) (expected : Dig) (latestEpoch : Option Nat) :
    Except VErr Unit :=
  match rebuildRoot c nodes latestEpoch with
  | .error e => .error e
  | .ok h => if h = expected then .ok () else .error .audit

/-- sort key of the prefix-freeness check: the normalised label bytes, then the length -/
def keyLe (a b : NodeLabel) : Bool :=
  match NodeLabel.cmpBytes (a.getPrefix a.len).val.toList (b.getPrefix b.len).val.toList with
  | .lt => true
  | .gt => false
  | .eq => a.len ≤ b.len

def insertKey (x : NodeLabel) : List NodeLabel → List NodeLabel
  | [] => [x]
  | y :: ys => if keyLe x y then x :: y :: ys else y :: insertKey x ys

def adjacentFree : List NodeLabel → Bool
  | a :: b :: rest => !a.isPrefixOf b && adjacentFree (b :: rest)
  | _ => true

/-- fix D2 (auditor.rs): the labels of a node set must be well-formed (at most 256 bits, no bit set
beyond the length) and pairwise prefix-free (no duplicates, none a prefix of another); checked on
the list sorted by (bytes, length), where a prefix and its extensions are adjacent -/
def labelsPrefixFree (ls : List NodeLabel) : Bool :=
  ls.all (fun l => decide (l.len ≤ 256) && decide (l.getPrefix l.len = l)) && adjacentFree (ls.foldr insertKey [])

/-- `verify_consecutive_append_only` (auditor.rs:63-83) as repaired -/
def consecutive (c : Cfg) (p : NodeStore.SingleAppendOnlyProof) (startHash endHash : Dig) (endEpoch : Nat) :
    Except VErr Unit :=
  if !labelsPrefixFree ((p.unchanged ++ p.inserted).map (·.label)) then .error .audit
  else
  match appendOnlyHash c p.unchanged startHash none with
  | .error e => .error e
  | .ok () =>
    let ins := p.inserted.map fun x => (⟨x.label, c.leafHash x.value endEpoch⟩ : AzksElement)
    if endEpoch = 0 then .error .panic   -- `end_epoch - 1` underflows
    else appendOnlyHash c (p.unchanged ++ ins) endHash (some (endEpoch - 1))

/-- the auditor of the pinned commit: no check on the node set (defect D2) -/
def consecutiveLegacy (c : Cfg) (p : NodeStore.SingleAppendOnlyProof) (startHash endHash : Dig) (endEpoch : Nat) :
    Except VErr Unit :=
  match appendOnlyHash c p.unchanged startHash none with
  | .error e => .error e
  | .ok () =>
    let ins := p.inserted.map fun x => (⟨x.label, c.leafHash x.value endEpoch⟩ : AzksElement)
    if endEpoch = 0 then .error .panic
    else appendOnlyHash c (p.unchanged ++ ins) endHash (some (endEpoch - 1))

/-- `audit_verify` (auditor.rs:24-56) -/
def verify (c : Cfg) (hashes : List Dig) (p : NodeStore.AppendOnlyProof) : Except VErr Unit :=
  if p.epochs.length + 1 ≠ hashes.length then .error .audit
  else if p.epochs.length ≠ p.proofs.length then .error .audit
  else
    let rec go : List Dig → List NodeStore.SingleAppendOnlyProof → List Nat → Except VErr Unit
      | h0 :: h1 :: hs, pr :: prs, ep :: eps =>
        match consecutive c pr h0 h1 (ep + 1) with
        | .error e => .error e
        | .ok () => go (h1 :: hs) prs eps
      | _, _, _ => .ok ()
    go hashes p.proofs p.epochs

end Auditor
end Akd
