/-
The specification side of C01–C03, written independently of the tree algorithms:
what a publish history MEANS (per label: the distinct successive values with the epoch of each),
which leaves the tree must therefore contain, and what lookups / histories must verify to.
-/
import AkdModel.CTrie
import AkdModel.Dir
namespace Akd.Spec

/-- one version of a label: `(version, value, epoch of that update)` -/
structure Ver where
  version : Nat
  value : Bytes
  epoch : Nat
deriving DecidableEq

/-- per label, versions oldest first -/
abbrev Table := List (Bytes × List Ver)

def Table.get (t : Table) (u : Bytes) : List Ver :=
  match t with
  | [] => []
  | (u', vs) :: rest => if u' = u then vs else Table.get rest u

def Table.put (t : Table) (u : Bytes) (vs : List Ver) : Table :=
  match t with
  | [] => [(u, vs)]
  | (u', vs') :: rest => if u' = u then (u, vs) :: rest else (u', vs') :: Table.put rest u vs

structure State where
  epoch : Nat := 0
  table : Table := []

/-- a batch takes effect iff it has no repeated label and changes at least one value -/
def applyBatch (s : State) (b : List (Bytes × Bytes)) : State :=
  if (b.map (·.1)).eraseDups.length ≠ b.length then s
  else
    let changes := b.filter fun (u, v) =>
      match (s.table.get u).getLast? with
      | some last => last.value ≠ v
      | none => true
    if changes.isEmpty then s
    else
      let e := s.epoch + 1
      { epoch := e,
        table := changes.foldl (fun t (u, v) =>
          let vs := t.get u
          t.put u (vs ++ [⟨vs.length + 1, v, e⟩])) s.table }

def run (h : List (List (Bytes × Bytes))) : State := h.foldl applyBatch {}

/-- the leaves the tree must contain: one fresh leaf per version, one stale leaf per superseded version -/
def leaves (c : Cfg) (key : Dig) (vrf : VrfTable) (t : Table) : List Leaf :=
  t.flatMap fun (u, vs) =>
    vs.flatMap fun v =>
      let fresh : List Leaf := match vrf.get? ⟨u, true, v.version⟩ with
        | some l => [⟨l.bits, c.commit v.value (c.nonce key l v.version v.value), v.epoch⟩]
        | none => []
      let stale : List Leaf :=
        match vs.find? (fun w => w.version = v.version + 1), vrf.get? ⟨u, false, v.version⟩ with
        | some nxt, some l => [⟨l.bits, c.staleValue, nxt.epoch⟩]
        | _, _ => []
      fresh ++ stale

/-- the root hash the directory must publish -/
def rootHash (c : Cfg) (key : Dig) (vrf : VrfTable) (s : State) : Dig :=
  (CRoot.ofLeaves (leaves c key vrf s.table)).rootHash c

/-- what a lookup must verify to: `(epoch of latest update, version count, latest value)` -/
def lookup (s : State) (u : Bytes) : Option Ver := (s.table.get u).getLast?

/-- what a history request must verify to: versions newest first, all or the newest `n` -/
def history (s : State) (u : Bytes) : HistoryParams → List Ver
  | .complete => (s.table.get u).reverse
  | .mostRecent n => (s.table.get u).reverse.take n

/-- tombstone cut-offs per label: values of epochs `≤ cut` have been replaced by tombstones -/
abbrev Cuts := List (Bytes × Nat)

def Cuts.get (c : Cuts) (u : Bytes) : Option Nat :=
  (c.filter (fun x => x.1 = u)).foldl (fun acc x => match acc with
    | none => some x.2 | some a => some (max a x.2)) none

def tombstoned (cut : Option Nat) (v : Ver) : Bool :=
  match cut with
  | some c => decide (v.epoch ≤ c) && v.value ≠ []
  | none => false

/-- what history verification must yield after tombstoning (C20): with missing values allowed, the
same versions and epochs with tombstoned values empty; without, rejection iff the requested range
contains a tombstoned entry -/
def historyTomb (s : State) (cuts : Cuts) (u : Bytes) (p : HistoryParams) (allow : Bool) : Option (List Ver) :=
  let vs := history s u p
  let cut := cuts.get u
  if allow then some (vs.map fun v => if tombstoned cut v then { v with value := [] } else v)
  else if vs.any (tombstoned cut) then none else some vs

end Akd.Spec
