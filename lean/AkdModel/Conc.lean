/-
L6 — concurrent publishes as a labelled transition system at storage-operation granularity
(`directory.rs:104-265`).  The atomic step is one database call together with the in-memory
bookkeeping up to the next one (single-threaded executor semantics).  Node contents are abstracted
away: what serialisability needs is which epoch each publisher observed and which epoch it wrote.

`Proto.fixed`  — the code as repaired (fix D6): a mutex shared by the clones is held for the whole call.
`Proto.legacy` — the pinned commit: epoch read first, transaction flag taken later and released when
                 the log is drained, i.e. BEFORE the commit write.
-/
namespace Akd.Conc

inductive Proto where
  | fixed | legacy
deriving DecidableEq

inductive Pc where
  | start
  | readEpoch                 -- about to read the epoch record
  | readVersions              -- about to read the users' versions
  | inserting (left : Nat)    -- `left` node reads still to do (inside the transaction)
  | commitWrite               -- about to write the commit batch
  | readRoot                  -- legacy only: root read after the commit
  | done (epoch : Nat)        -- returned `Ok((epoch, _))`
  | refused                   -- returned "transaction already active"
deriving DecidableEq

structure Pub where
  pc : Pc := .start
  seen : Nat := 0             -- the epoch this publisher read
  reads : Nat := 1            -- number of node reads its insertion performs
  changes : Bool := true      -- false: the batch only re-submits current values (no-op)
deriving DecidableEq

structure Sys where
  epoch : Nat                 -- the epoch record in the database
  lock : Option Nat := none   -- fixed: holder of the publish mutex
  flag : Bool := false        -- legacy: the transaction flag
  pubs : List Pub
  /-- ghost: the commits in the order they reached the database: (publisher, epoch written) -/
  hist : List (Nat × Nat) := []
deriving DecidableEq

def setPub (s : Sys) (i : Nat) (p : Pub) : Sys := { s with pubs := s.pubs.set i p }

/-- one step of publisher `i`; `none` = not enabled (finished, or blocked on the mutex) -/
def step (pr : Proto) (s : Sys) (i : Nat) : Option Sys :=
  match s.pubs[i]? with
  | none => none
  | some p =>
    match pr, p.pc with
    -- repaired protocol
    | .fixed, .start =>
      if s.lock.isSome then none
      else some (setPub { s with lock := some i } i { p with pc := .readEpoch })
    | .fixed, .readEpoch => some (setPub s i { p with pc := .readVersions, seen := s.epoch })
    | .fixed, .readVersions =>
      if p.changes then some (setPub s i { p with pc := .inserting p.reads })
      else some (setPub { s with lock := none } i { p with pc := .done p.seen })
    | .fixed, .inserting (k + 1) => some (setPub s i { p with pc := .inserting k })
    | .fixed, .inserting 0 => some (setPub s i { p with pc := .commitWrite })
    | .fixed, .commitWrite =>
      some (setPub { s with epoch := p.seen + 1, hist := s.hist ++ [(i, p.seen + 1)], lock := none } i
              { p with pc := .done (p.seen + 1) })
    -- pinned commit
    | .legacy, .start => some (setPub s i { p with pc := .readEpoch })
    | .legacy, .readEpoch => some (setPub s i { p with pc := .readVersions, seen := s.epoch })
    | .legacy, .readVersions =>
      if !p.changes then some (setPub s i { p with pc := .done p.seen })
      else if s.flag then some (setPub s i { p with pc := .refused })
      else some (setPub { s with flag := true } i { p with pc := .inserting p.reads })
    | .legacy, .inserting (k + 1) =>
      -- after the LAST read the log is drained and the flag released, still before the commit write
      if k = 0 then some (setPub { s with flag := false } i { p with pc := .commitWrite })
      else some (setPub s i { p with pc := .inserting k })
    | .legacy, .inserting 0 => some (setPub { s with flag := false } i { p with pc := .commitWrite })
    | .legacy, .commitWrite =>
      some (setPub { s with epoch := p.seen + 1, hist := s.hist ++ [(i, p.seen + 1)] } i { p with pc := .readRoot })
    | .legacy, .readRoot => some (setPub s i { p with pc := .done (p.seen + 1) })
    | _, _ => none

/-- run a schedule (a word over publisher indices); a step that is not enabled is skipped -/
def run (pr : Proto) (s : Sys) (sched : List Nat) : Sys :=
  sched.foldl (fun s i => (step pr s i).getD s) s

def init (epoch : Nat) (pubs : List Pub) : Sys := { epoch := epoch, pubs := pubs }

/-- every publisher has returned -/
def finished (s : Sys) : Bool :=
  s.pubs.all fun p => match p.pc with | .done _ => true | .refused => true | _ => false

/-! ### validation of real traces (the storage calls the harness recorded) -/

inductive Ev where
  | getAzks (stamp : Nat)     -- the epoch record was read from the database and said `stamp`
  | read                      -- any other read
  | commit (stamp : Nat)      -- the commit batch was written, carrying epoch `stamp`
deriving DecidableEq

structure VState where
  epoch : Nat
  holder : Option Nat := none
  outcomes : List (Nat × Nat) := []     -- (task, epoch it committed)

/-- replays a trace against the repaired protocol: a task's calls may not interleave with another
task's critical section, the epoch record read shows the committed epoch, a commit writes the next one -/
def validateStep (v : VState) (e : Nat × Ev) : Except String VState :=
  let (t, ev) := e
  match v.holder with
  | some h => if h ≠ t then .error s!"overlap: task {t} issues a storage call inside the publish of task {h}" else
    match ev with
    | .getAzks k => if k = v.epoch then .ok v else .error s!"task {t} read epoch {k}, committed is {v.epoch}"
    | .read => .ok v
    | .commit k =>
      if k = v.epoch + 1 then .ok { epoch := k, holder := none, outcomes := v.outcomes ++ [(t, k)] }
      else .error s!"task {t} commits epoch {k} on top of {v.epoch}"
  | none =>
    match ev with
    | .getAzks k => if k = v.epoch then .ok { v with holder := some t } else .error s!"task {t} read epoch {k}, committed is {v.epoch}"
    | .read => .ok { v with holder := some t }
    | .commit k =>
      if k = v.epoch + 1 then .ok { epoch := k, holder := none, outcomes := v.outcomes ++ [(t, k)] }
      else .error s!"task {t} commits epoch {k} on top of {v.epoch}"

def validate (base : Nat) (tr : List (Nat × Ev)) : Except String VState :=
  tr.foldlM validateStep { epoch := base }

end Akd.Conc
