/-
L0 — node labels, byte level.  Mirrors `akd_core/src/types/node_label/mod.rs`
line by line.  No imports: this file is part of the compiled driver.

`u32`/`usize` are `Nat`; none of the operations below can overflow for the
inputs the callers produce (`len ≤ 2^32-1`, indices `< 256` after the guards).
-/
namespace Akd

/-- `NodeLabel { label_val: [u8; 32], label_len: u32 }` (mod.rs:31-44). -/
structure NodeLabel where
  val : Vector UInt8 32
  len : Nat
deriving DecidableEq

instance : Inhabited NodeLabel := ⟨⟨Vector.replicate 32 0, 0⟩⟩

/-- The `Result<Bit, String>` of `get_bit_at`, keeping what the two error
strings contain so that `==` on results is mirrored exactly (mod.rs:141-150, 225-240). -/
inductive BitRes where
  | bit (b : Bool)
  | outOfRange (idx len : Nat)   -- "Index out of range: index = .., label_len = .."
  | tooShort (idx : Nat)         -- "Input is too short: index = .., input.len() = 32"
deriving DecidableEq

/-- `get_bit_from_slice(&label_val, index)` (mod.rs:225-240). -/
def bitOfBytes (v : Vector UInt8 32) (i : Nat) : BitRes :=
  if h : i < 256 then
    let byte := v[i / 8]'(by omega)
    if (byte >>> (7 - (i % 8)).toUInt8) &&& 1 == 0 then .bit false else .bit true
  else .tooShort i

namespace NodeLabel

/-- `get_bit_at` (mod.rs:141-150). -/
def bitAt (l : NodeLabel) (i : Nat) : BitRes :=
  if i ≥ l.len then .outOfRange i l.len else bitOfBytes l.val i

/-- `NodeLabel::root()` (mod.rs:179-181). -/
def root : NodeLabel := ⟨Vector.replicate 32 0, 0⟩

/-- `(0..n).all(p)`; evaluation order differs, the value does not (p is pure). -/
def allBelow (p : Nat → Bool) : Nat → Bool
  | 0 => true
  | n + 1 => allBelow p n && p n

/-- `is_prefix_of` (mod.rs:94-99). -/
def isPrefixOf (a b : NodeLabel) : Bool :=
  if a.len > b.len then false
  else allBelow (fun i => a.bitAt i == b.bitAt i) a.len

/-- `get_prefix` (mod.rs:153-176). Note that `self.label_len` is not consulted. -/
def getPrefix (l : NodeLabel) (n : Nat) : NodeLabel :=
  if n ≥ 256 then l
  else if n = 0 then ⟨Vector.replicate 32 0, 0⟩
  else
    let u := n - 1
    let r := u % 8
    let d := u / 8
    ⟨Vector.ofFn fun (i : Fin 32) =>
        if i.val < d then l.val[i]
        else if i.val = d then (l.val[i] >>> (7 - r).toUInt8) <<< (7 - r).toUInt8
        else 0,
      n⟩

/-- The `while` loop of `get_longest_common_prefix` (mod.rs:115-120); `fuel` = `shorter`. -/
def lcpLoop (a b : NodeLabel) (shorter : Nat) : Nat → Nat → Nat
  | 0, k => k
  | fuel + 1, k =>
    if k < shorter && a.bitAt k == b.bitAt k then lcpLoop a b shorter fuel (k + 1) else k

/-- `get_longest_common_prefix::<TC>` with `TC::empty_label()` passed in (mod.rs:103-123). -/
def lcp (empty : NodeLabel) (a b : NodeLabel) : NodeLabel :=
  if a = empty || b = empty then empty
  else
    let shorter := if a.len < b.len then a.len else b.len
    a.getPrefix (lcpLoop a b shorter shorter 0)

end NodeLabel

/-- `PrefixOrdering` (types/mod.rs). -/
inductive PrefixOrdering where
  | withZero | withOne | invalid
deriving DecidableEq

namespace NodeLabel

/-- `get_prefix_ordering` (mod.rs:203-218). -/
def prefixOrdering (self other : NodeLabel) : PrefixOrdering :=
  if self.len ≥ other.len then .invalid
  else if other.getPrefix self.len ≠ self.getPrefix self.len then .invalid
  else match other.bitAt self.len with
    | .bit false => .withZero
    | .bit true => .withOne
    | _ => .invalid

/-- Lexicographic comparison of the two byte arrays (`[u8;32]::cmp`). -/
def cmpBytes : List UInt8 → List UInt8 → Ordering
  | [], [] => .eq
  | [], _ :: _ => .lt
  | _ :: _, [] => .gt
  | x :: xs, y :: ys =>
    if x < y then .lt else if y < x then .gt else cmpBytes xs ys

/-- `Ord for NodeLabel` (mod.rs:58-68): length first, then bytes. -/
def cmp (a b : NodeLabel) : Ordering :=
  if a.len < b.len then .lt
  else if b.len < a.len then .gt
  else cmpBytes a.val.toList b.val.toList

/-! ### The abstraction used by every layer above L0 -/

/-- All 256 bits of the byte array, most significant bit of byte 0 first. -/
def bits256 (l : NodeLabel) : List Bool :=
  (List.range 256).map fun i =>
    match bitOfBytes l.val i with
    | .bit b => b
    | _ => false

/-- The bit string a label stands for: its first `len` bits. -/
def bits (l : NodeLabel) : List Bool := l.bits256.take l.len

end NodeLabel

/-! ### `AzksElementSet` (akd/src/append_only_zks.rs:72-201)

Elements are `(label, payload)`; the payload is opaque here. -/

/-- `slice::binary_search_by` of the pinned std (1.95): the size-halving loop,
then one final comparison.  Returns `(found, index)`. -/
def binarySearchBy {α} (f : α → Ordering) (xs : Array α) : Bool × Nat :=
  if xs.size = 0 then (false, 0)
  else
    let rec loop (fuel base size : Nat) : Nat :=
      match fuel with
      | 0 => base
      | fuel + 1 =>
        if size > 1 then
          let half := size / 2
          let mid := base + half
          let c := match xs[mid]? with | some x => f x | none => .eq
          let base' := if c == .gt then base else mid
          loop fuel base' (size - half)
        else base
    let base := loop xs.size 0 xs.size
    let c := match xs[base]? with | some x => f x | none => .eq
    if c == .eq then (true, base)
    else (false, base + (if c == .lt then 1 else 0))

/-- `slice::partition_point` = `binary_search_by(|x| if pred(x) {Less} else {Greater})`. -/
def partitionPoint {α} (pred : α → Bool) (xs : Array α) : Nat :=
  (binarySearchBy (fun x => if pred x then .lt else .gt) xs).2

/-- Insertion sort by label order; stands for `sort_unstable` (any sort gives the
same list up to the order of equal labels). -/
def insertByLabel {α} (x : NodeLabel × α) : List (NodeLabel × α) → List (NodeLabel × α)
  | [] => [x]
  | y :: ys => if NodeLabel.cmp x.1 y.1 == .gt then y :: insertByLabel x ys else x :: y :: ys

def sortByLabel {α} (xs : List (NodeLabel × α)) : List (NodeLabel × α) :=
  xs.foldr insertByLabel []

inductive ElementSet (α : Type) where
  | binarySearchable (xs : List (NodeLabel × α))
  | unsorted (xs : List (NodeLabel × α))

namespace ElementSet
variable {α : Type}

def elems : ElementSet α → List (NodeLabel × α)
  | binarySearchable xs => xs
  | unsorted xs => xs

/-- `From<Vec<AzksElement>>` (append_only_zks.rs:92-105). -/
def ofList (xs : List (NodeLabel × α)) : ElementSet α :=
  match xs with
  | [] => .unsorted []
  | x :: _ =>
    if xs.all (fun y => y.1.len == x.1.len) then .binarySearchable (sortByLabel xs)
    else .unsorted xs

/-- drop trailing elements whose ordering is `Invalid` (append_only_zks.rs:127-133). -/
def popInvalid (p : NodeLabel) (xs : List (NodeLabel × α)) : List (NodeLabel × α) :=
  (xs.reverse.dropWhile (fun x => p.prefixOrdering x.1 == .invalid)).reverse

/-- `partition` (append_only_zks.rs:111-158). -/
def partition (s : ElementSet α) (p : NodeLabel) : ElementSet α × ElementSet α :=
  match s with
  | binarySearchable xs =>
    let k := partitionPoint (fun (c : NodeLabel × α) =>
      match p.prefixOrdering c.1 with
      | .withZero | .invalid => true
      | .withOne => false) xs.toArray
    let right := xs.drop k
    let left := popInvalid p (xs.take k)
    (.binarySearchable left, .binarySearchable right)
  | unsorted xs =>
    let l := xs.filter (fun x => p.prefixOrdering x.1 == .withZero)
    let r := xs.filter (fun x => p.prefixOrdering x.1 == .withOne)
    (.unsorted l, .unsorted r)

/-- `get_longest_common_prefix` (append_only_zks.rs:161-182). -/
def setLcp (empty : NodeLabel) (s : ElementSet α) : NodeLabel :=
  match s with
  | binarySearchable xs =>
    match xs.head?, xs.getLast? with
    | some f, some l => NodeLabel.lcp empty f.1 l.1
    | _, _ => empty
  | unsorted xs =>
    match xs with
    | [] => empty
    | x :: rest => rest.foldl (fun acc n => NodeLabel.lcp empty n.1 acc) x.1

/-- `contains_prefix` (append_only_zks.rs:185-200). -/
def containsPrefix (s : ElementSet α) (p : NodeLabel) : Bool :=
  match s with
  | binarySearchable xs =>
    (binarySearchBy (fun (c : NodeLabel × α) =>
      if p.len == 0 || p.isPrefixOf c.1 then .eq
      else NodeLabel.cmpBytes c.1.val.toList p.val.toList) xs.toArray).1
  | unsorted xs => xs.any (fun x => p.isPrefixOf x.1)

end ElementSet

end Akd
