/-
L2 (implementation side) — the tree algorithms over label-keyed storage, mirroring
`akd/src/append_only_zks.rs` and `akd/src/tree_node.rs` step by step:
batch insertion (336-530), (non-)membership proof generation (803-869, 1240-1315),
append-only proof generation (881-1177), root hash (1181-1208).
Async recursion becomes structural recursion on fuel (depth ≤ 257).
-/
import AkdModel.Rec
import AkdModel.Proofs
namespace Akd

inductive InsertMode where
  | directory | auditor
deriving DecidableEq

/-- `Azks` (append_only_zks.rs:281-286). -/
structure Azks where
  latestEpoch : Nat
  numNodes : Nat
deriving DecidableEq

namespace TreeNode

/-- `new_root_node` (tree_node.rs:518-529). -/
def newRoot (c : Cfg) : TreeNode :=
  ⟨NodeLabel.root, 0, 0, NodeLabel.root, .root, none, none, c.emptyRootValue⟩

/-- `new_interior_node` (tree_node.rs:532-541). -/
def newInterior (c : Cfg) (l : NodeLabel) (ep : Nat) : TreeNode :=
  ⟨l, ep, ep, c.emptyLabel, .interior, none, none, .raw zeros32⟩

/-- `new_leaf_node` (tree_node.rs:544-557). -/
def newLeaf (c : Cfg) (l : NodeLabel) (v : Dig) (ep : Nat) : TreeNode :=
  ⟨l, ep, ep, c.emptyLabel, .leaf, none, none, v⟩

/-- `set_child` (tree_node.rs:413-442): returns the updated parent and child. -/
def setChild (self child : TreeNode) : Except Err (TreeNode × TreeNode) :=
  let withDir : Except Err TreeNode :=
    match self.label.prefixOrdering child.label with
    | .invalid => .error .noDirection
    | .withZero => .ok { self with left := some child.label }
    | .withOne => .ok { self with right := some child.label }
  match withDir with
  | .error e => .error e
  | .ok s =>
    let child' := { child with parent := self.label }
    let s := { s with lastEpoch := max s.lastEpoch child.lastEpoch }
    let s := { s with minDescEpoch :=
      if s.minDescEpoch = 0 then child.minDescEpoch else min s.minDescEpoch child.minDescEpoch }
    .ok (s, child')

def childLabel (n : TreeNode) : Direction → Option NodeLabel
  | .left => n.left
  | .right => n.right

end TreeNode

/-- `node_to_label` (tree_node.rs:492-497). -/
def nodeToLabel (c : Cfg) : Option TreeNode → NodeLabel
  | some n => n.label
  | none => c.emptyLabel

/-- `node_to_azks_value` (tree_node.rs:499-515). -/
def nodeToAzksValue (c : Cfg) (withLeafEpoch : Bool) : Option TreeNode → Dig
  | some n => if n.nodeType = .leaf && withLeafEpoch then c.leafHash n.hash n.lastEpoch else n.hash
  | none => c.emptyNodeHash

namespace NodeStore

/-- `get_child_node` (tree_node.rs:447-466). -/
def getChild (s : NodeStore) (n : TreeNode) (d : Direction) (epoch : Nat) : Except Err (Option TreeNode) :=
  match n.childLabel d with
  | none => .ok none
  | some l =>
    match s.getNode l epoch with
    | .ok c => .ok (some c)
    | .error .notFound => .ok none
    | .error _ => .error .notFound

/-- `get_child_node_for_proof` (append_only_zks.rs, fix D13): the child of a node as the PROOF GENERATORS load it — a node
that names a child has that child; when it cannot be read as of `epoch` the call fails instead of reporting an absent
child (`get_child_node` itself keeps turning "not found" into "no child": `update_hash` relies on it) -/
def getChildForProof (s : NodeStore) (n : TreeNode) (d : Direction) (epoch : Nat) : Except Err (Option TreeNode) :=
  match s.getChild n d epoch with
  | .ok none => if (n.childLabel d).isSome then .error .notFound else .ok none
  | r => r

/-- `update_hash` (tree_node.rs:380-410). -/
def updateHash (c : Cfg) (s : NodeStore) (n : TreeNode) (mode : InsertMode) : Except Err TreeNode :=
  if n.nodeType = .leaf then .ok n
  else
    match s.getChild n .left n.lastEpoch, s.getChild n .right n.lastEpoch with
    | .ok l, .ok r =>
      let w := decide (mode = .directory)
      .ok { n with hash := c.parentHash (nodeToAzksValue c w l) (nodeToLabel c l)
                                        (nodeToAzksValue c w r) (nodeToLabel c r) }
    | .error e, _ => .error e
    | _, .error e => .error e

/-- `recursive_batch_insert_nodes` (append_only_zks.rs:387-530), sequential schedule
(left sub-tree first).  Returns the store, the sub-tree's root node (not yet written),
`is_new`, and the number of nodes created. -/
def insertRec (c : Cfg) (mode : InsertMode) (epoch : Nat) :
    Nat → NodeStore → Option NodeLabel → ElementSet Dig → Except Err (NodeStore × TreeNode × Bool × Nat)
  | 0, _, _, _ => .error .other
  | fuel + 1, s, nodeLabel, set =>
    -- Phase 1
    let phase1 : Except Err (NodeStore × TreeNode × Bool × Nat) :=
      match nodeLabel, set.elems with
      | some nl, _ =>
        match s.getNode nl epoch with
        | .error e => .error e
        | .ok existing =>
          let setLcp := set.setLcp c.emptyLabel
          let lcpLabel := NodeLabel.lcp c.emptyLabel nl setLcp
          if lcpLabel.len < nl.len then
            -- case 1a: decompress
            match (TreeNode.newInterior c lcpLabel epoch).setChild existing with
            | .error e => .error e
            | .ok (cur, existing') =>
              match s.writeNode existing' false with
              | .error e => .error e
              | .ok s' => .ok (s', cur, true, 1)
          else .ok (s, existing, false, 0)
      | none, [x] => .ok (s, TreeNode.newLeaf c x.1 x.2 epoch, true, 1)
      | none, _ => .ok (s, TreeNode.newInterior c (set.setLcp c.emptyLabel) epoch, true, 1)
    match phase1 with
    | .error e => .error e
    | .ok (s, cur, isNew, num) =>
      -- Phase 2
      let (leftSet, rightSet) := set.partition cur.label
      let afterLeft : Except Err (NodeStore × TreeNode × Nat) :=
        if leftSet.elems.isEmpty then .ok (s, cur, num)
        else
          match insertRec c mode epoch fuel s (cur.childLabel .left) leftSet with
          | .error e => .error e
          | .ok (s, ln, lnew, lnum) =>
            match cur.setChild ln with
            | .error e => .error e
            | .ok (cur, ln) =>
              match s.writeNode ln lnew with
              | .error e => .error e
              | .ok s => .ok (s, cur, num + lnum)
      match afterLeft with
      | .error e => .error e
      | .ok (s, cur, num) =>
        let afterRight : Except Err (NodeStore × TreeNode × Nat) :=
          if rightSet.elems.isEmpty then .ok (s, cur, num)
          else
            match insertRec c mode epoch fuel s (cur.childLabel .right) rightSet with
            | .error e => .error e
            | .ok (s, rn, rnew, rnum) =>
              match cur.setChild rn with
              | .error e => .error e
              | .ok (cur, rn) =>
                match s.writeNode rn rnew with
                | .error e => .error e
                | .ok s => .ok (s, cur, num + rnum)
        match afterRight with
        | .error e => .error e
        | .ok (s, cur, num) =>
          -- Phase 3
          match updateHash c s cur mode with
          | .error e => .error e
          | .ok cur => .ok (s, cur, isNew, num)

/-- `Azks::new` (append_only_zks.rs:321-333). -/
def azksNew (c : Cfg) (s : NodeStore) : Except Err (NodeStore × Azks) :=
  match s.writeNode (TreeNode.newRoot c) true with
  | .error e => .error e
  | .ok s => .ok (s, ⟨0, 1⟩)

/-- `batch_insert_nodes` (append_only_zks.rs:336-378). -/
def batchInsert (c : Cfg) (mode : InsertMode) (s : NodeStore) (a : Azks) (nodes : List (NodeLabel × Dig)) :
    Except Err (NodeStore × Azks) :=
  let set := ElementSet.ofList nodes
  let a := { a with latestEpoch := a.latestEpoch + 1 }
  if set.elems.isEmpty then .ok (s, a)
  else
    match insertRec c mode a.latestEpoch 300 s (some NodeLabel.root) set with
    | .error e => .error e
    | .ok (s, rootNode, isNew, num) =>
      match s.writeNode rootNode isNew with
      | .error e => .error e
      | .ok s => .ok (s, { a with numNodes := a.numNodes + num })

/-- `get_root_hash` (append_only_zks.rs:1181-1208). -/
def rootHash (c : Cfg) (s : NodeStore) (a : Azks) : Except Err Dig :=
  match s.getNode NodeLabel.root a.latestEpoch with
  | .ok r => .ok (c.rootHash r.hash)
  | .error e => .error e

/-- `get_child_azks_element_in_dir` (append_only_zks.rs:1222-1235). -/
def childElement (c : Cfg) (s : NodeStore) (n : TreeNode) (d : Direction) (epoch : Nat) : Except Err AzksElement :=
  match s.getChildForProof n d epoch with
  | .ok ch => .ok ⟨nodeToLabel c ch, nodeToAzksValue c true ch⟩
  | .error e => .error e

/-- the `while` loop of `get_lcp_node_label_with_membership_proof` (append_only_zks.rs:1255-1295);
returns `(curr, prev, siblings (top first), equal)` -/
def lcpWalk (c : Cfg) (s : NodeStore) (label : NodeLabel) (epoch : Nat) :
    Nat → TreeNode → TreeNode → List SiblingProof → Except Err (TreeNode × TreeNode × List SiblingProof × Bool)
  | 0, _, _, _ => .error .other
  | fuel + 1, cur, prev, sps =>
    let ord := cur.label.prefixOrdering label
    let equal := decide (label = cur.label)
    if equal || ord = .invalid then .ok (cur, prev, sps, equal)
    else
      let dir : Direction := if ord = .withZero then .left else .right
      match s.getChildForProof cur dir epoch with
      | .error e => .error e
      | .ok none => .ok (cur, prev, sps, equal)      -- the root has no child in this direction: `break`
      | .ok (some child) =>
        match childElement c s cur dir.other epoch with
        | .error e => .error e
        | .ok sib =>
          lcpWalk c s label epoch fuel child cur (sps ++ [⟨cur.label, sib, dir⟩])

/-- `get_lcp_node_label_with_membership_proof` (append_only_zks.rs:1240-1315). -/
def lcpProof (c : Cfg) (s : NodeStore) (a : Azks) (label : NodeLabel) : Except Err (NodeLabel × MembershipProof) :=
  match s.getNode NodeLabel.root a.latestEpoch with
  | .error e => .error e
  | .ok root =>
    match lcpWalk c s label a.latestEpoch 300 root root [] with
    | .error e => .error e
    | .ok (cur, prev, sps, equal) =>
      let (cur, sps) := if equal then (cur, sps) else (prev, sps.dropLast)
      let hv := if cur.nodeType = .leaf then c.leafHash cur.hash cur.lastEpoch else cur.hash
      .ok (cur.label, ⟨cur.label, hv, sps⟩)

/-- `get_membership_proof` (append_only_zks.rs:803-812). -/
def membershipProof (c : Cfg) (s : NodeStore) (a : Azks) (label : NodeLabel) : Except Err MembershipProof :=
  match lcpProof c s a label with
  | .ok (_, p) => .ok p
  | .error e => .error e

/-- `get_non_membership_proof` (append_only_zks.rs:818-869). -/
def nonMembershipProof (c : Cfg) (s : NodeStore) (a : Azks) (label : NodeLabel) : Except Err NonMembershipProof :=
  match lcpProof c s a label with
  | .error e => .error e
  | .ok (lcpLabel, mp) =>
    match s.getNode lcpLabel a.latestEpoch with
    | .error e => .error e
    | .ok lcpNode =>
      let emptyEl : AzksElement := ⟨c.emptyLabel, c.emptyNodeHash⟩
      let childEl (d : Direction) : Except Err AzksElement :=
        match s.getChildForProof lcpNode d a.latestEpoch with
        | .error e => .error e
        | .ok none => .ok emptyEl
        | .ok (some ch) =>
          match s.getNode ch.label a.latestEpoch with
          | .error e => .error e
          | .ok u => .ok ⟨u.label, nodeToAzksValue c true (some u)⟩
      match childEl .left, childEl .right with
      | .ok c0, .ok c1 => .ok ⟨label, lcpNode.label, c0, c1, mp⟩
      | .error e, _ => .error e
      | _, .error e => .error e

/-- `get_append_only_proof_helper` (append_only_zks.rs:1062-1177), sequential schedule:
returns `(unchanged, leaves)`. -/
def appendOnlyHelper (c : Cfg) (s : NodeStore) (latest : Nat) (startEp endEp : Nat) :
    Nat → TreeNode → Except Err (List AzksElement × List AzksElement)
  | 0, _ => .error .other
  | fuel + 1, node =>
    if node.lastEpoch ≤ startEp then
      if node.nodeType = .root then .ok ([], [])
      else .ok ([⟨node.label, nodeToAzksValue c true (some node)⟩], [])
    else if node.minDescEpoch > endEp then .ok ([], [])
    else if node.nodeType = .leaf then .ok ([], [⟨node.label, node.hash⟩])
    else
      let side (l : Option NodeLabel) : Except Err (List AzksElement × List AzksElement) :=
        match l with
        | none => .ok ([], [])
        | some cl =>
          match s.getNode cl latest with
          | .error e => .error e
          | .ok ch => appendOnlyHelper c s latest startEp endEp fuel ch
      match side node.left, side node.right with
      | .ok (u1, l1), .ok (u2, l2) => .ok (u1 ++ u2, l1 ++ l2)
      | .error e, _ => .error e
      | _, .error e => .error e

structure SingleAppendOnlyProof where
  inserted : List AzksElement
  unchanged : List AzksElement

structure AppendOnlyProof where
  proofs : List SingleAppendOnlyProof
  epochs : List Nat

/-- `get_append_only_proof` (append_only_zks.rs:881-940). -/
def appendOnlyProof (c : Cfg) (s : NodeStore) (a : Azks) (startEp endEp : Nat) : Except Err AppendOnlyProof :=
  if a.latestEpoch < endEp || endEp ≤ startEp then .error .invalidEpoch
  else
    match s.getNode NodeLabel.root a.latestEpoch with
    | .error e => .error e
    | .ok root =>
      let rec go (k : Nat) (ep : Nat) (acc : AppendOnlyProof) : Except Err AppendOnlyProof :=
        match k with
        | 0 => .ok acc
        | k + 1 =>
          match appendOnlyHelper c s a.latestEpoch ep (ep + 1) 300 root with
          | .error e => .error e
          | .ok (u, l) => go k (ep + 1) ⟨acc.proofs ++ [⟨l, u⟩], acc.epochs ++ [ep]⟩
      go (endEp - startEp) startEp ⟨[], []⟩

end NodeStore
end Akd
