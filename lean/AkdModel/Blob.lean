/-
Audit blob names `EPOCH/PREVIOUS_ROOT_HASH/CURRENT_ROOT_HASH` (`akd/src/local_auditing.rs:52-117`).
-/
import AkdModel.Wire
namespace Akd.Blob
open Akd.Wire

structure Name where
  epoch : Nat
  previous : List UInt8
  current : List UInt8
deriving DecidableEq

def hexLower (bs : List UInt8) : String :=
  String.ofList (bs.foldr (fun b acc => hexChar (b.toNat / 16) :: hexChar (b.toNat % 16) :: acc) [])

/-- `Display` -/
def render (n : Name) : String := s!"{n.epoch}/{hexLower n.previous}/{hexLower n.current}"

/-- `str::parse::<u64>`: optional `+`, at least one decimal digit, below 2^64 -/
def parseU64? (s : String) : Option Nat :=
  let cs := s.toList
  let ds := match cs with | '+' :: rest => rest | _ => cs
  if ds.isEmpty then none
  else if ds.all (fun c => '0' ≤ c && c ≤ '9') then
    let v := ds.foldl (fun acc c => acc * 10 + (c.toNat - '0'.toNat)) 0
    if v < 2 ^ 64 then some v else none
  else none

def hexDigitAny? (c : Char) : Option Nat :=
  if '0' ≤ c && c ≤ '9' then some (c.toNat - '0'.toNat)
  else if 'a' ≤ c && c ≤ 'f' then some (c.toNat - 'a'.toNat + 10)
  else if 'A' ≤ c && c ≤ 'F' then some (c.toNat - 'A'.toNat + 10)
  else none

def hexDecodeGo : List Char → List UInt8 → Option (List UInt8)
  | [], acc => some acc.reverse
  | [_], _ => none
  | a :: b :: rest, acc => do
    let x ← hexDigitAny? a
    let y ← hexDigitAny? b
    hexDecodeGo rest (UInt8.ofNat (x * 16 + y) :: acc)

/-- `hex::decode` (either case) followed by the 32-byte check -/
def digest? (s : String) : Option (List UInt8) :=
  match hexDecodeGo s.toList [] with
  | some bs => if bs.length = 32 then some bs else none
  | none => none

/-- `TryFrom<&str>` -/
def parse? (s : String) : Option Name :=
  match s.splitOn "/" with
  | e :: p :: c :: _ => do
    let epoch ← parseU64? e
    let previous ← digest? p
    let current ← digest? c
    some ⟨epoch, previous, current⟩
  | _ => none

end Akd.Blob
