/-
Validation of REAL traces of the change-poller scenario against the model `Poll.lean`: the harness records
the storage calls of the writer (task 0), the request tasks (1..n, all guarded since fix D12) and the poller
(task n+1), plus a `done` mark at the end of every request; `validate` replays them on the model — inserting the
model steps that have no storage call of their own (lock acquisition, flush, cache hits, fills) exactly where the
real code performs them — and checks every value the real run observed: the epoch each uncached read returned,
the epoch each request was answered from, the number of notifications, the epoch served at the end.

tokio's RwLock is write-preferring: once the poller waits for the lock, new requests queue behind it.  The
model's `step` allows them to start (more behaviours, so the theorems cover the real ones); the validator queues
them, as the real lock does.
-/
import AkdModel.Poll
namespace Akd.Poll

inductive TEv where
  | commit (k : Nat)          -- writer: the commit batch carrying epoch k reached the database
  | pollRead (k : Nat)        -- poller: a database read of the epoch record took value k
  | pollDone                  -- poller: that read was delivered (only with read latency)
  | start                     -- request task: about to issue its next request
  | missRead (k : Nat)        -- request task: database read of the epoch record took value k
  | missDone                  -- request task: delivered
  | done                      -- request task: the request returned
deriving DecidableEq

structure VSt where
  s : Sys
  /-- readers waiting for the lock, in arrival order -/
  pending : List Nat := []
  /-- per reader: the epochs its requests were answered from, in order -/
  out : List (List Nat)
  signals : Nat := 0
  /-- read latency: the poller's read of the epoch record has taken its value, which is not delivered yet (the real
  poller has not compared it with `last`, let alone asked for the lock) -/
  inflight : Bool := false

def stepE (s : Sys) (a : Act) (what : String) : Except String Sys :=
  match step s a with
  | some s' => .ok s'
  | none => .error s!"model step not enabled: {what}"

def pollerWaiting (s : Sys) : Bool := match s.p with | .detected _ => true | _ => false

/-- the poller takes the lock, flushes and looks into the cache, as soon as no request is under way -/
def advancePoller (v : VSt) : Except String VSt :=
  if pollerWaiting v.s && !v.inflight && !readLocked v.s then do
    let s ← stepE v.s .poller "lock"
    let s ← stepE s .poller "flush"
    let s ← stepE s .poller "re-fetch: cache check"
    pure { v with s := s }
  else pure v

def startReader (v : VSt) (i : Nat) : Except String VSt := do
  let s ← stepE v.s (.reader i) s!"request start of reader {i}"
  pure { v with s := s }

def releasePending (v : VSt) : Except String VSt :=
  v.pending.foldlM (fun v i => startReader v i) { v with pending := [] }

/-- the poller's critical section is over: count the notification, let the queued requests in -/
def pollerFinished (v : VSt) : Except String VSt :=
  releasePending { v with signals := v.signals + 1 }

def finishReader (v : VSt) (i : Nat) : Except String VSt :=
  match v.s.rs[i]? with
  | some r =>
    match r.pc with
    | .holding _ e => do
      let s ← stepE v.s (.reader i) s!"answer of reader {i}"
      pure { v with s := s, out := v.out.modify i (· ++ [e]) }
    | .idle =>
      -- the request was still queued behind the poller: cannot have returned
      if v.pending.contains i then .error s!"reader {i} returned while the model has it queued behind the poller" else pure v
    | _ => .error s!"reader {i} returned in the middle of an epoch-record read"
  | none => .error s!"no reader {i}"

/-- `lat`: database reads are delivered at a separate event -/
def vstep (lat : Bool) (nreaders : Nat) (v : VSt) (ev : Nat × TEv) : Except String VSt :=
  let (t, e) := ev
  if t = 0 then
    match e with
    | .commit k => do
      let s ← stepE v.s .publish "publish"
      if s.db = k then pure { v with s := s } else .error s!"commit carries epoch {k}, model storage is at {s.db}"
    | _ => pure v
  else if t = nreaders + 1 then
    -- the poller
    let deliver (v : VSt) : Except String VSt :=
      let v := { v with inflight := false }
      match v.s.p with
      | .detected _ => advancePoller v
      | .refetched _ _ => do
        let s ← stepE v.s .poller "fill, notify, release"
        pollerFinished { v with s := s }
      | _ => pure v
    match e with
    | .pollRead k =>
      if k ≠ v.s.db then .error s!"the poller read epoch {k} from storage, model storage is at {v.s.db}" else
      match v.s.p with
      | .sleeping => do
        let s ← stepE v.s .poller "poll"
        let v := { v with s := s, inflight := lat }
        if lat then pure v else deliver v
      | .detected _ => .error "the poller read storage while the model has it waiting for the lock"
      | .refetchMiss _ => do
        let s ← stepE v.s .poller "re-fetch: database read"
        let v := { v with s := s }
        if lat then pure v else deliver v
      | _ => .error "the poller read storage in a state where the model reads nothing"
    | .pollDone => deliver v
    | _ => pure v
  else
    let i := t - 1
    match e with
    | .start =>
      if v.s.wlock || (pollerWaiting v.s && !v.inflight) then pure { v with pending := v.pending ++ [i] }
      else startReader v i
    | .missRead k =>
      match v.s.rs[i]? with
      | some r =>
        match r.pc with
        | .missed _ =>
          if k ≠ v.s.db then .error s!"reader {i} read epoch {k} from storage, model storage is at {v.s.db}" else do
            let s ← stepE v.s (.reader i) "epoch record: database read"
            let v := { v with s := s }
            if lat then pure v else do
              let s ← stepE v.s (.reader i) "epoch record: fill"
              pure { v with s := s }
        | _ => .error s!"reader {i} read the epoch record from storage, the model has it cached"
      | none => .error s!"no reader {i}"
    | .missDone =>
      match v.s.rs[i]? with
      | some r =>
        match r.pc with
        | .read _ _ => do
          let s ← stepE v.s (.reader i) "epoch record: fill"
          pure { v with s := s }
        | _ => pure v
      | none => .error s!"no reader {i}"
    | .done => do
      let v ← finishReader v i
      advancePoller v
    | _ => pure v

/-- replays the events; returns (per reader answered epochs, notifications, epoch record cached at the end) -/
def validate (lat : Bool) (nreaders : Nat) (base : Nat) (evs : List (Nat × TEv)) :
    Except String (List (List Nat) × Nat × Option Nat) := do
  let v0 : VSt := { s := init base (List.replicate nreaders true), out := List.replicate nreaders [] }
  let v ← evs.foldlM (vstep lat nreaders) v0
  pure (v.out, v.signals, v.s.cache)

end Akd.Poll
