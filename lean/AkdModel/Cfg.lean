/-
L1 — the two hashing configurations as functions into `Dig`.
Mirrors `akd_core/src/configuration/whatsapp_v1.rs` and `experimental.rs`.
-/
import AkdModel.Dig
namespace Akd

structure Cfg where
  name : String
  emptyLabel : NodeLabel
  emptyRootValue : Dig
  emptyNodeHash : Dig
  staleValue : Dig
  parentHash : Dig → NodeLabel → Dig → NodeLabel → Dig
  leafHash : Dig → Nat → Dig
  rootHash : Dig → Dig
  nonce : Dig → NodeLabel → Nat → List UInt8 → Dig
  commit : List UInt8 → Dig → Dig

namespace Cfg

/-- whatsapp_v1.rs:180-185 -/
def wv1Empty : NodeLabel := ⟨Vector.replicate 32 1, 0⟩
/-- experimental.rs:158-166 -/
def expEmpty : NodeLabel := ⟨Vector.ofFn fun (i : Fin 32) => if i.val = 0 then 1 else 0, 0⟩

def whatsappV1 : Cfg where
  name := "wv1"
  emptyLabel := wv1Empty
  emptyRootValue := .hBytes [0]                                  -- :44-46
  emptyNodeHash := .hValLbl (.hBytes [0]) wv1Empty               -- :48-57
  staleValue := .hBytes [0]                                       -- :171-173
  parentHash lv ll rv rl := .hCat (.hValLbl lv ll) (.hValLbl rv rl)  -- :144-158
  leafHash c ep := .hLeaf c ep                                    -- :68-73
  rootHash v := .hValLbl v NodeLabel.root                         -- :162-164
  nonce k l ver value := .hNonceW k l ver value                   -- :77-92
  commit value n := .hCommit value n                              -- :105-115

def experimental : Cfg where
  name := "exp"
  emptyLabel := expEmpty
  emptyRootValue := .raw zeros32                                  -- :47-49
  emptyNodeHash := .raw zeros32                                   -- :51-53
  staleValue := .raw zeros32                                      -- :147-149
  parentHash lv ll rv rl := .hNode lv ll rv rl                    -- :127-136
  leafHash c ep := .hLeaf c ep                                    -- :64-69
  rootHash v := v                                                 -- :140-142
  nonce k l _ _ := .hNonceE k l                                   -- :73-80
  commit value n := .hCommit value n                              -- :92-102

def ofName? (s : String) : Option Cfg :=
  if s == "wv1" then some whatsappV1 else if s == "exp" then some experimental else none

/-- What the soundness proofs need from a configuration; proved for both instances
(`Thm/CfgLawful.lean`), never assumed. -/
structure Lawful (c : Cfg) : Prop where
  parent_inj : ∀ lv ll rv rl lv' ll' rv' rl',
    c.parentHash lv ll rv rl = c.parentHash lv' ll' rv' rl' → lv = lv' ∧ ll = ll' ∧ rv = rv' ∧ rl = rl'
  leaf_inj : ∀ a e b f, c.leafHash a e = c.leafHash b f → a = b ∧ e = f
  root_inj : ∀ a b, c.rootHash a = c.rootHash b → a = b
  commit_inj : ∀ v n v' n', c.commit v n = c.commit v' n' → v = v' ∧ n = n'
  leaf_ne_parent : ∀ a e lv ll rv rl, c.leafHash a e ≠ c.parentHash lv ll rv rl
  leaf_ne_emptyNode : ∀ a e, c.leafHash a e ≠ c.emptyNodeHash
  parent_ne_emptyNode : ∀ lv ll rv rl, c.parentHash lv ll rv rl ≠ c.emptyNodeHash
  parent_ne_emptyRoot : ∀ lv ll rv rl, c.parentHash lv ll rv rl ≠ c.emptyRootValue
  leaf_ne_emptyRoot : ∀ a e, c.leafHash a e ≠ c.emptyRootValue
  leaf_ne_stale : ∀ a e, c.leafHash a e ≠ c.staleValue
  commit_ne_stale : ∀ v n, c.commit v n ≠ c.staleValue

theorem whatsappV1_lawful : Lawful whatsappV1 := by
  refine ⟨?_, ?_, ?_, ?_, ?_, ?_, ?_, ?_, ?_, ?_, ?_⟩ <;> intros <;> simp_all [whatsappV1]

theorem experimental_lawful : Lawful experimental := by
  refine ⟨?_, ?_, ?_, ?_, ?_, ?_, ?_, ?_, ?_, ?_, ?_⟩ <;> intros <;> simp_all [experimental]

end Cfg
end Akd
