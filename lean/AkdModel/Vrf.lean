/-
L7 — what is logic in the VRF layer: the byte string that is hashed to form the VRF input
(`get_hash_from_label_input`, whatsapp_v1.rs:117-139 / experimental.rs:101-123) and the 80-byte proof
encoding (`ecvrf_impl.rs:330-378`).  The curve arithmetic itself is not modelled (DESIGN §4 (iii)).
-/
namespace Akd.Vrf

abbrev Bytes := List UInt8

/-- 8-byte big-endian (`u64::to_be_bytes`) -/
def be8 (n : Nat) : Bytes := (List.range 8).map fun i => UInt8.ofNat ((n >>> (8 * (7 - i))) % 256)

/-- `i2osp_array` (utils.rs:199-201) -/
def i2osp (bs : Bytes) : Bytes := be8 bs.length ++ bs

/-- the preimage of `get_hash_from_label_input`: `i2osp(label) ‖ freshness ‖ version_be` -/
def labelInput (label : Bytes) (fresh : Bool) (ver : Nat) : Bytes :=
  i2osp label ++ [if fresh then 1 else 0] ++ be8 ver

/-- little-endian bytes of a number -/
def le (k : Nat) (n : Nat) : Bytes := (List.range k).map fun i => UInt8.ofNat ((n >>> (8 * i)) % 256)

def ofLe (bs : Bytes) : Nat := bs.foldr (fun b acc => b.toNat + 256 * acc) 0

/-- the order of the prime-order subgroup of Ed25519 -/
def ell : Nat := 2 ^ 252 + 27742317777372353535851937790883648493

structure Proof where
  gamma : Bytes     -- compressed point, 32 bytes (opaque here)
  c : Nat           -- 128-bit challenge
  s : Nat           -- scalar mod ℓ
deriving DecidableEq

/-- `Proof::to_bytes` -/
def encodeProof (p : Proof) : Bytes := p.gamma ++ le 16 p.c ++ le 32 p.s

/-- `TryFrom<&[u8]> for Proof` (point decompression abstracted: any 32 bytes) -/
def decodeProof (bs : Bytes) : Option Proof :=
  if bs.length ≠ 80 then none
  else some ⟨bs.take 32, ofLe ((bs.drop 32).take 16) % ell, ofLe (bs.drop 48) % ell⟩

end Akd.Vrf
