/-
Text helpers of the line protocol (DESIGN appendix B): hex, labels as
`<64 hex>/<len>`, printing.  No imports.
-/
import AkdModel.Label
namespace Akd.Wire

def hexDigit? (c : Char) : Option Nat :=
  if '0' ≤ c && c ≤ '9' then some (c.toNat - '0'.toNat)
  else if 'a' ≤ c && c ≤ 'f' then some (c.toNat - 'a'.toNat + 10)
  else none

def parseHexGo : List Char → List UInt8 → Option (List UInt8)
  | [], acc => some acc.reverse
  | [_], _ => none
  | a :: b :: rest, acc => do
    let x ← hexDigit? a
    let y ← hexDigit? b
    parseHexGo rest (UInt8.ofNat (x * 16 + y) :: acc)

/-- lower-case hex; `-` is the empty byte string. -/
def parseHex? (s : String) : Option (List UInt8) :=
  if s == "-" then some [] else parseHexGo s.toList []

def hexChar (n : Nat) : Char :=
  if n < 10 then Char.ofNat ('0'.toNat + n) else Char.ofNat ('a'.toNat + n - 10)

def hexOfBytes (bs : List UInt8) : String :=
  if bs.isEmpty then "-" else
  String.ofList (bs.foldr (fun b acc => hexChar (b.toNat / 16) :: hexChar (b.toNat % 16) :: acc) [])

def parseLabel? (s : String) : Option NodeLabel :=
  match s.splitOn "/" with
  | [h, l] => do
    let bs ← parseHex? h
    let n ← l.toNat?
    if hlen : bs.length = 32 then
      some ⟨⟨bs.toArray, by simpa using hlen⟩, n⟩
    else none
  | _ => none

def showLabel (l : NodeLabel) : String :=
  hexOfBytes l.val.toList ++ "/" ++ toString l.len

def showOrd : PrefixOrdering → String
  | .withZero => "0" | .withOne => "1" | .invalid => "x"

def showOrdering : Ordering → String
  | .lt => "lt" | .eq => "eq" | .gt => "gt"

def showNats (xs : List Nat) : String :=
  "[" ++ ",".intercalate (xs.map toString) ++ "]"

end Akd.Wire
