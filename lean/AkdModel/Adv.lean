/-
The symbolic adversary of the correspondence runs (DESIGN §7/C05): field edits applied to an
honestly generated proof.  The harness applies the same edits to the real proof structures.
Indices out of range make an edit a no-op.
-/
import AkdModel.Proofs
import AkdModel.Wire
namespace Akd.Adv
open Akd.Wire

inductive MemEdit where
  | label (l : NodeLabel)                  -- claimed label
  | hashRootValue                          -- hash_val := the root node's stored value
  | hashSib (i : Nat)                      -- hash_val := value of sibling i
  | hashZero                               -- hash_val := 32 zero bytes
  | dropTop (k : Nat)                      -- remove the k sibling levels nearest the root
  | dropBottom (k : Nat)
  | flip (i : Nat)
  | sibLabel (i : Nat) (l : NodeLabel)
  | parentLabel (i : Nat) (l : NodeLabel)  -- `SiblingProof.label` at level i
  | swapSib (i j : Nat)

def modifyAt {α} (xs : List α) (i : Nat) (f : α → α) : List α :=
  xs.zipIdx.map fun (x, k) => if k = i then f x else x

def applyMem (rootValue : Dig) (p : MembershipProof) : MemEdit → MembershipProof
  | .label l => { p with label := l }
  | .hashRootValue => { p with hashVal := rootValue }
  | .hashSib i => match p.siblingProofs[i]? with
    | some s => { p with hashVal := s.sibling.value }
    | none => p
  | .hashZero => { p with hashVal := .raw zeros32 }
  | .dropTop k => { p with siblingProofs := p.siblingProofs.drop k }
  | .dropBottom k => { p with siblingProofs := p.siblingProofs.take (p.siblingProofs.length - k) }
  | .flip i => { p with siblingProofs := modifyAt p.siblingProofs i fun s => { s with direction := s.direction.other } }
  | .sibLabel i l => { p with siblingProofs := modifyAt p.siblingProofs i fun s => { s with sibling := { s.sibling with label := l } } }
  | .parentLabel i l => { p with siblingProofs := modifyAt p.siblingProofs i fun s => { s with label := l } }
  | .swapSib i j => match p.siblingProofs[i]?, p.siblingProofs[j]? with
    | some a, some b =>
      { p with siblingProofs := modifyAt (modifyAt p.siblingProofs i fun s => { s with sibling := b.sibling }) j
                                  fun s => { s with sibling := a.sibling } }
    | _, _ => p

def parseMemEdit? (tok : String) : Option MemEdit :=
  match tok.splitOn ":" with
  | ["label", l] => (parseLabel? l).map .label
  | ["hashroot"] => some .hashRootValue
  | ["hashsib", i] => i.toNat?.map .hashSib
  | ["hashzero"] => some .hashZero
  | ["droptop", k] => k.toNat?.map .dropTop
  | ["dropbottom", k] => k.toNat?.map .dropBottom
  | ["flip", i] => i.toNat?.map .flip
  | ["siblabel", i, l] => do pure (.sibLabel (← i.toNat?) (← parseLabel? l))
  | ["parentlabel", i, l] => do pure (.parentLabel (← i.toNat?) (← parseLabel? l))
  | ["swapsib", i, j] => do pure (.swapSib (← i.toNat?) (← j.toNat?))
  | _ => none

inductive NonMemEdit where
  | label (l : NodeLabel)
  | longestPrefix (l : NodeLabel)
  | swapChildren
  | childLabel (i : Nat) (l : NodeLabel)
  | childEmpty (i : Nat)                   -- replace child i by the configuration's empty element
  | mem (e : MemEdit)                      -- edit the embedded membership proof

def applyNonMem (c : Cfg) (rootValue : Dig) (p : NonMembershipProof) : NonMemEdit → NonMembershipProof
  | .label l => { p with label := l }
  | .longestPrefix l => { p with longestPrefix := l }
  | .swapChildren => { p with child0 := p.child1, child1 := p.child0 }
  | .childLabel i l =>
    if i = 0 then { p with child0 := { p.child0 with label := l } }
    else { p with child1 := { p.child1 with label := l } }
  | .childEmpty i =>
    if i = 0 then { p with child0 := ⟨c.emptyLabel, c.emptyNodeHash⟩ }
    else { p with child1 := ⟨c.emptyLabel, c.emptyNodeHash⟩ }
  | .mem e => { p with longestPrefixMembershipProof := applyMem rootValue p.longestPrefixMembershipProof e }

def parseNonMemEdit? (tok : String) : Option NonMemEdit :=
  match tok.splitOn ":" with
  | ["label", l] => (parseLabel? l).map .label
  | ["lp", l] => (parseLabel? l).map .longestPrefix
  | ["swapchildren"] => some .swapChildren
  | ["childlabel", i, l] => do pure (.childLabel (← i.toNat?) (← parseLabel? l))
  | ["childempty", i] => i.toNat?.map .childEmpty
  | "mp" :: rest => (parseMemEdit? (":".intercalate rest)).map .mem
  | _ => none

end Akd.Adv
