/-
The symbolic adversary of the correspondence runs (DESIGN §7/C05): field edits applied to an
honestly generated proof.  The harness applies the same edits to the real proof structures.
Indices out of range make an edit a no-op.
-/
import AkdModel.Proofs
import AkdModel.Wire
import AkdModel.Insert
namespace Akd.Adv
open Akd.Wire

inductive MemEdit where
  | label (l : NodeLabel)                  -- claimed label
  | hashRootValue                          -- hash_val := the root node's stored value
  | hashSib (i : Nat)                      -- hash_val := value of sibling i
  | hashZero                               -- hash_val := 32 zero bytes
  | dropTop (k : Nat)                      -- remove the k sibling levels nearest the root
  | dropBottom (k : Nat)
  | flip (i : Nat)
  | sibLabel (i : Nat) (l : NodeLabel)
  | parentLabel (i : Nat) (l : NodeLabel)  -- `SiblingProof.label` at level i
  | swapSib (i j : Nat)

def modifyAt {α} (xs : List α) (i : Nat) (f : α → α) : List α :=
  xs.zipIdx.map fun (x, k) => if k = i then f x else x

def applyMem (rootValue : Dig) (p : MembershipProof) : MemEdit → MembershipProof
  | .label l => { p with label := l }
  | .hashRootValue => { p with hashVal := rootValue }
  | .hashSib i => match p.siblingProofs[i]? with
    | some s => { p with hashVal := s.sibling.value }
    | none => p
  | .hashZero => { p with hashVal := .raw zeros32 }
  | .dropTop k => { p with siblingProofs := p.siblingProofs.drop k }
  | .dropBottom k => { p with siblingProofs := p.siblingProofs.take (p.siblingProofs.length - k) }
  | .flip i => { p with siblingProofs := modifyAt p.siblingProofs i fun s => { s with direction := s.direction.other } }
  | .sibLabel i l => { p with siblingProofs := modifyAt p.siblingProofs i fun s => { s with sibling := { s.sibling with label := l } } }
  | .parentLabel i l => { p with siblingProofs := modifyAt p.siblingProofs i fun s => { s with label := l } }
  | .swapSib i j => match p.siblingProofs[i]?, p.siblingProofs[j]? with
    | some a, some b =>
      { p with siblingProofs := modifyAt (modifyAt p.siblingProofs i fun s => { s with sibling := b.sibling }) j
                                  fun s => { s with sibling := a.sibling } }
    | _, _ => p

def parseMemEdit? (tok : String) : Option MemEdit :=
  match tok.splitOn ":" with
  | ["label", l] => (parseLabel? l).map .label
  | ["hashroot"] => some .hashRootValue
  | ["hashsib", i] => i.toNat?.map .hashSib
  | ["hashzero"] => some .hashZero
  | ["droptop", k] => k.toNat?.map .dropTop
  | ["dropbottom", k] => k.toNat?.map .dropBottom
  | ["flip", i] => i.toNat?.map .flip
  | ["siblabel", i, l] => do pure (.sibLabel (← i.toNat?) (← parseLabel? l))
  | ["parentlabel", i, l] => do pure (.parentLabel (← i.toNat?) (← parseLabel? l))
  | ["swapsib", i, j] => do pure (.swapSib (← i.toNat?) (← j.toNat?))
  | _ => none

inductive NonMemEdit where
  | label (l : NodeLabel)
  | longestPrefix (l : NodeLabel)
  | swapChildren
  | childLabel (i : Nat) (l : NodeLabel)
  | childEmpty (i : Nat)                   -- replace child i by the configuration's empty element
  | mem (e : MemEdit)                      -- edit the embedded membership proof

def applyNonMem (c : Cfg) (rootValue : Dig) (p : NonMembershipProof) : NonMemEdit → NonMembershipProof
  | .label l => { p with label := l }
  | .longestPrefix l => { p with longestPrefix := l }
  | .swapChildren => { p with child0 := p.child1, child1 := p.child0 }
  | .childLabel i l =>
    if i = 0 then { p with child0 := { p.child0 with label := l } }
    else { p with child1 := { p.child1 with label := l } }
  | .childEmpty i =>
    if i = 0 then { p with child0 := ⟨c.emptyLabel, c.emptyNodeHash⟩ }
    else { p with child1 := ⟨c.emptyLabel, c.emptyNodeHash⟩ }
  | .mem e => { p with longestPrefixMembershipProof := applyMem rootValue p.longestPrefixMembershipProof e }

def parseNonMemEdit? (tok : String) : Option NonMemEdit :=
  match tok.splitOn ":" with
  | ["label", l] => (parseLabel? l).map .label
  | ["lp", l] => (parseLabel? l).map .longestPrefix
  | ["swapchildren"] => some .swapChildren
  | ["childlabel", i, l] => do pure (.childLabel (← i.toNat?) (← parseLabel? l))
  | ["childempty", i] => i.toNat?.map .childEmpty
  | "mp" :: rest => (parseMemEdit? (":".intercalate rest)).map .mem
  | _ => none

/-! ### audit proofs: edits of a single-epoch proof whose lists have been sorted by label text -/

inductive AuditEdit where
  | insAdd (l : NodeLabel) (v : List UInt8)
  | insDrop (j : Nat) | unchDrop (j : Nat) | insDup (j : Nat) | unchDup (j : Nat)
  | unchToIns (j : Nat) | insToUnch (j : Nat)
  | insRelabel (j : Nat) (l : NodeLabel) | unchRelabel (j : Nat) (l : NodeLabel)
  /-- a new inserted leaf whose label extends unchanged node `j` (`1` then zeros up to 256 bits) -/
  | insExt (j : Nat) (v : List UInt8)
  /-- inserted `i` takes the label of unchanged `j` -/
  | insCopyLabel (i j : Nat)
  /-- a new inserted element labelled with the first `n` bits of unchanged `j`'s label -/
  | insAddPrefix (j n : Nat) (v : List UInt8)
  | endRebuilt          -- the server publishes whatever the auditor's rebuild hashes to
  | epochPlus (d : Nat)

def dropAt {α} (xs : List α) (j : Nat) : List α := xs.take j ++ xs.drop (j + 1)

/-- `l` followed by a one bit and zeros, 256 bits long (identity on 256-bit labels) -/
def extend256 (l : NodeLabel) : NodeLabel :=
  if l.len ≥ 256 then l
  else
    let n := (l.getPrefix l.len)
    ⟨Vector.ofFn fun (i : Fin 32) =>
        if i.val = l.len / 8 then n.val[i] ||| ((1 : UInt8) <<< (7 - l.len % 8).toUInt8) else n.val[i], 256⟩

structure AuditCase where
  proof : NodeStore.SingleAppendOnlyProof
  endRebuilt : Bool := false
  epochPlus : Nat := 0

def applyAudit (a : AuditCase) : AuditEdit → AuditCase
  | .insAdd l v => { a with proof := { a.proof with inserted := a.proof.inserted ++ [⟨l, .raw v⟩] } }
  | .insDrop j => { a with proof := { a.proof with inserted := dropAt a.proof.inserted j } }
  | .unchDrop j => { a with proof := { a.proof with unchanged := dropAt a.proof.unchanged j } }
  | .insDup j => match a.proof.inserted[j]? with
    | some x => { a with proof := { a.proof with inserted := a.proof.inserted ++ [x] } }
    | none => a
  | .unchDup j => match a.proof.unchanged[j]? with
    | some x => { a with proof := { a.proof with unchanged := a.proof.unchanged ++ [x] } }
    | none => a
  | .unchToIns j => match a.proof.unchanged[j]? with
    | some x => { a with proof := { inserted := a.proof.inserted ++ [x], unchanged := dropAt a.proof.unchanged j } }
    | none => a
  | .insToUnch j => match a.proof.inserted[j]? with
    | some x => { a with proof := { inserted := dropAt a.proof.inserted j, unchanged := a.proof.unchanged ++ [x] } }
    | none => a
  | .insRelabel j l => { a with proof := { a.proof with inserted := modifyAt a.proof.inserted j fun x => { x with label := l } } }
  | .unchRelabel j l => { a with proof := { a.proof with unchanged := modifyAt a.proof.unchanged j fun x => { x with label := l } } }
  | .insExt j v => match a.proof.unchanged[j]? with
    | some u => { a with proof := { a.proof with inserted := a.proof.inserted ++ [⟨extend256 u.label, .raw v⟩] } }
    | none => a
  | .insCopyLabel i j => match a.proof.unchanged[j]? with
    | some u => { a with proof := { a.proof with inserted := modifyAt a.proof.inserted i fun x => { x with label := u.label } } }
    | none => a
  | .insAddPrefix j n v => match a.proof.unchanged[j]? with
    | some u => { a with proof := { a.proof with inserted := a.proof.inserted ++ [⟨u.label.getPrefix n, .raw v⟩] } }
    | none => a
  | .endRebuilt => { a with endRebuilt := true }
  | .epochPlus d => { a with epochPlus := a.epochPlus + d }

def parseAuditEdit? (tok : String) : Option AuditEdit :=
  match tok.splitOn ":" with
  | ["ins.add", l, v] => do pure (.insAdd (← parseLabel? l) (← parseHex? v))
  | ["ins.drop", j] => j.toNat?.map .insDrop
  | ["unch.drop", j] => j.toNat?.map .unchDrop
  | ["ins.dup", j] => j.toNat?.map .insDup
  | ["unch.dup", j] => j.toNat?.map .unchDup
  | ["unch.toins", j] => j.toNat?.map .unchToIns
  | ["ins.tounch", j] => j.toNat?.map .insToUnch
  | ["ins.relabel", j, l] => do pure (.insRelabel (← j.toNat?) (← parseLabel? l))
  | ["unch.relabel", j, l] => do pure (.unchRelabel (← j.toNat?) (← parseLabel? l))
  | ["ins.ext", j, v] => do pure (.insExt (← j.toNat?) (← parseHex? v))
  | ["ins.copylabel", i, j] => do pure (.insCopyLabel (← i.toNat?) (← j.toNat?))
  | ["ins.addprefix", j, n, v] => do pure (.insAddPrefix (← j.toNat?) (← n.toNat?) (← parseHex? v))
  | ["end", "rebuilt"] => some .endRebuilt
  | ["epoch", d] => d.toNat?.map .epochPlus
  | _ => none

end Akd.Adv
