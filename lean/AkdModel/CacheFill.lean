/-
L6b — read-through cache fills racing writes (`storage/manager/mod.rs` get / batch_get /
get_user_state, `storage/cache/high_parallelism.rs` put / batch_put / fill).

One key (the keys of the cache are independent; the epoch record is the special case whose entry
never expires).  The record's content is abstracted to its version number: the database holds
version `db`; a write stores `db + 1`.  One writer task performing any number of writes (publishes
are serialised by the publish mutex, fix D6; a storage-manager `set` outside a transaction has the
same three effects in the same order) and any number of reader tasks issuing any number of reads.

Atomic steps = what happens between two `.await` points that can yield to another task, refined
further where the multi-threaded runtime allows another thread in between:

  writer:  dbWrite (database holds the new version)  →  bump (write generation + 1)  →  put (cache entry := new)
  reader:  start (cache hit: answer; miss: take the write generation)  →  dbRead (takes the value)
           →  check (generation unchanged?)  →  insert (only into a vacant / expired entry)
  evict:   the entry expires or is cleaned (at any time)

`Proto.legacy` is the pinned code: no generation, the reader's last step overwrites the entry.
-/
namespace Akd.CacheFill

inductive Proto where
  | fixed | legacy
deriving DecidableEq

inductive WPc where
  | idle
  | wrote      -- database written, generation not yet bumped
  | bumped     -- generation bumped, cache entry not yet replaced
deriving DecidableEq

inductive RPc where
  | idle
  | missed (gen : Nat)               -- cache miss; generation taken; database read not yet done
  | read (gen : Nat) (val : Nat)     -- database read done
  | checked (val : Nat)              -- generation check passed; insertion not yet done
deriving DecidableEq

structure Sys where
  db : Nat := 0
  cache : Option Nat := none
  gen : Nat := 0
  w : WPc := .idle
  rs : List RPc
  /-- ghost: every answer served FROM THE CACHE, with the database version at that moment (an answer
  served by a database read is the database's value at the moment of the read by construction) -/
  answers : List (Nat × Nat) := []
deriving DecidableEq

inductive Act where
  | writer            -- next step of the writer (starts a new write when idle)
  | reader (i : Nat)  -- next step of reader i (starts a new read when idle)
  | evict
deriving DecidableEq

def setR (s : Sys) (i : Nat) (r : RPc) : Sys := { s with rs := s.rs.set i r }

def step (pr : Proto) (s : Sys) : Act → Option Sys
  | .evict => some { s with cache := none }
  | .writer =>
    match s.w with
    | .idle => some { s with db := s.db + 1, w := .wrote }
    | .wrote => some { s with gen := s.gen + 1, w := .bumped }
    | .bumped => some { s with cache := some s.db, w := .idle }
  | .reader i =>
    match s.rs[i]? with
    | none => none
    | some .idle =>
      match s.cache with
      | some v => some { s with answers := s.answers ++ [(v, s.db)] }      -- cache hit
      | none => some (setR s i (.missed s.gen))
    | some (.missed g) => some (setR s i (.read g s.db))
    | some (.read g v) =>
      match pr with
      | .legacy => some (setR { s with cache := some v } i .idle)
      | .fixed =>
        if g = s.gen then some (setR s i (.checked v)) else some (setR s i .idle)
    | some (.checked v) =>
      match s.cache with
      | none => some (setR { s with cache := some v } i .idle)
      | some _ => some (setR s i .idle)

def run (pr : Proto) (s : Sys) : List Act → Option Sys
  | [] => some s
  | a :: rest => match step pr s a with
    | some s' => run pr s' rest
    | none => none

def init (readers : Nat) : Sys := { rs := List.replicate readers .idle }

/-- the schedules covered by the theorem: the entry does not expire between a reader's generation
check and its insertion (two adjacent statements of `TimedCache::fill` with no `.await` in between;
the entry lifetime is at least 1 ms) -/
def NoEvictInFill (pr : Proto) (s : Sys) : List Act → Prop
  | [] => True
  | a :: rest =>
    (a = .evict → ∀ r ∈ s.rs, ∀ v, r ≠ .checked v) ∧
    match step pr s a with
    | some s' => NoEvictInFill pr s' rest
    | none => True

/-- what the cache may hold: the database's version — or, while a write is between its database
write and its cache update, the version before it -/
def Coherent (s : Sys) : Prop :=
  ∀ v, s.cache = some v → v = s.db ∨ (s.w ≠ .idle ∧ v + 1 = s.db)

end Akd.CacheFill
