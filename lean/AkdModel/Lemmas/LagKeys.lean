/-
C13d: which keys a batch insertion writes.  The induction of C01b (`Lemmas/InsertMain.lean`, `InsertCases.lean`,
`InsertRoot.lean`) replayed with one more conclusion: every key whose record changes is the label of a node of the
resulting tree (`Chg`).  Everything else is a copy of those files (the originals are untouched).
-/
import AkdModel.Lemmas.PartialView
namespace Akd.LagK
open Akd NodeLabel NodeStore
open Akd.Canon (Incomp)
open Akd.Ins
open Akd.Part (lbls olbls)

/-- every key whose record differs between `s` and `s'` is (the storage key of) a label in `L` -/
def Chg (s s' : NodeStore) (L : BitStr → Prop) : Prop :=
  ∀ k, s'.getRec k ≠ s.getRec k → ∃ q, L q ∧ k = ofBits q

theorem Chg.refl (s : NodeStore) (L : BitStr → Prop) : Chg s s L := fun _ h => absurd rfl h

theorem Chg.mono {s s' : NodeStore} {L L' : BitStr → Prop} (h : Chg s s' L) (hL : ∀ q, L q → L' q) : Chg s s' L' :=
  fun k hk => let ⟨q, hq, e⟩ := h k hk; ⟨q, hL q hq, e⟩

theorem Chg.trans {s s' s'' : NodeStore} {L : BitStr → Prop} (h1 : Chg s s' L) (h2 : Chg s' s'' L) : Chg s s'' L := by
  intro k hk
  by_cases h : s'.getRec k = s.getRec k
  · exact h2 k (fun e => hk (e.trans h))
  · exact h1 k h

theorem chg_setRec (s : NodeStore) (r : NodeRec) {L : BitStr → Prop} (q : BitStr) (hr : r.label = ofBits q)
    (hq : L q) : Chg s (s.setRec r) L := by
  intro k hk
  by_cases h : k = r.label
  · exact ⟨q, hq, h.trans hr⟩
  · exact absurd (getRec_setRec_ne s r k h) hk

/-- the specification of `insertRec` at a given amount of fuel, with the changed keys -/
def SpecK (c : Cfg) (m : InsertMode) (epoch fuel : Nat) : Prop :=
  ∀ (s : NodeStore) (pre : BitStr) (ot : Option CTree) (set : ElementSet Dig) (bs : List (BitStr × Dig)),
    257 ≤ fuel + pre.length → 1 ≤ pre.length →
    SetOK set → set.elems = bs.map enc → bs ≠ [] →
    (∀ b ∈ bs, pre <+: b.1 ∧ b.1.length ≤ 256) →
    (∀ t, ot = some t → Rep c m s t ∧ t.WF ∧ pre <+: t.lbl) →
    (∀ lf ∈ oleaves ot, LeafOK epoch lf) →
    (oleaves ot ++ newLeaves bs epoch).Pairwise Incomp →
    ∃ s' n isNew num t',
      insertRec c m epoch fuel s (olbl ot) set = .ok (s', n, isNew, num) ∧
      NodeIs c m t' n ∧ RepKids c m s' t' ∧ t'.WF ∧ pre <+: t'.lbl ∧
      t'.leaves.Perm (oleaves ot ++ newLeaves bs epoch) ∧ Frame pre s s' ∧
      Chg s s' (fun q => q ∈ lbls t') ∧ ∀ q ∈ olbls ot, q ∈ lbls t'

/-- one side of Phase 2 -/
theorem side_specK (c : Cfg) (m : InsertMode) (epoch fuel : Nat) (hep : 1 ≤ epoch)
    (hspec : SpecK c m epoch fuel)
    {p : BitStr} {ty : NodeType} {s : NodeStore} {cur : TreeNode} {ch : Bool → Option CTree} {done : Prop}
    (hst : St c m epoch p ty s cur ch done) (d : Bool) (num : Nat)
    (hfuel : 257 ≤ fuel + (p.length + 1))
    (sub : ElementSet Dig) (bsd : List (BitStr × Dig)) (hok : SetOK sub) (hel : sub.elems = bsd.map enc)
    (hbs : ∀ b ∈ bsd, (p ++ [d]) <+: b.1 ∧ b.1.length ≤ 256)
    (hpf : (oleaves (ch d) ++ newLeaves bsd epoch).Pairwise Incomp) :
    ∃ s' cur' num' ch', side (insertRec c m epoch fuel) (dir d) s cur num sub = .ok (s', cur', num') ∧
      St c m epoch p ty s' cur' ch' (done ∨ bsd ≠ []) ∧ (∀ b, b ≠ d → ch' b = ch b) ∧
      (oleaves (ch' d)).Perm (oleaves (ch d) ++ newLeaves bsd epoch) ∧
      (ch' d = none → ch d = none ∧ bsd = []) ∧ Frame (p ++ [d]) s s' ∧
      Chg s s' (fun q => q ∈ olbls (ch' d)) ∧ ∀ q ∈ olbls (ch d), q ∈ olbls (ch' d) := by
  by_cases hne : bsd = []
  · subst hne
    refine ⟨s, cur, num, ch, ?_, hst.mono (fun h => h.elim id (fun h => absurd rfl h)), fun _ _ => rfl,
      by simp [newLeaves], fun h => ⟨h, rfl⟩, Frame.refl _ _, Chg.refl _ _, fun _ h => h⟩
    unfold side
    rw [hel]; rfl
  · -- the recursive call
    obtain ⟨s1, n, isNew, lnum, t', hrec, hn, hkids, hwf, hpre, hperm, hfr, hchg, hold⟩ :=
      hspec s (p ++ [d]) (ch d) sub bsd (by simp; omega) (by simp) hok hel hne hbs
        (fun t ht => hst.kids d t ht) (hst.leafok d) hpf
    have hlok : ∀ lf ∈ t'.leaves, LeafOK epoch lf :=
      leafOK_of_perm hep hperm (hst.leafok d) (fun b hb => (hbs b hb).2)
    have hlen : ∀ lf ∈ t'.leaves, lf.lbl.length ≤ 256 := fun lf h => (hlok lf h).2.2
    have hq : t'.lbl.length ≤ 256 := lbl_length_le t' hwf hlen
    -- a new leaf
    obtain ⟨b0, hb0⟩ := List.exists_mem_of_ne_nil bsd hne
    have hnew : (⟨b0.1, b0.2, epoch⟩ : Leaf) ∈ t'.leaves :=
      hperm.mem_iff.2 (List.mem_append_right _ (List.mem_map_of_mem hb0))
    have hmax : maxEp t' = epoch := maxEp_eq t' epoch (fun lf h => (hlok lf h).2.1) _ hnew rfl
    have hminle : minEp t' ≤ epoch := minEp_le t' _ hnew
    -- setChild
    obtain ⟨cur2, hsc, c1, c2, c3, c4, c5, c6⟩ :=
      setChild_spec cur n p t'.lbl d hst.label (nodeIs_label hn) hq hpre
    -- writeNode
    obtain ⟨pv, hw⟩ := writeNode_ok s1 { n with parent := cur.label } isNew
    refine ⟨s1.setRec ⟨n.label, { n with parent := cur.label }, pv⟩, cur2, num + lnum,
      fun b => if b = d then some t' else ch b, ?_, ?_, ?_, ?_, ?_, ?_, ?_, ?_⟩
    · unfold side
      have hemp : sub.elems.isEmpty = false := by
        rw [hel]; cases bsd with
        | nil => exact absurd rfl hne
        | cons _ _ => rfl
      rw [hemp, childLabel_dir hst d, hrec]
      simp only [Bool.false_eq_true, if_false]
      rw [hsc]
      simp only
      rw [hw]
    · have hlast : cur2.lastEpoch = epoch := by
        rw [c5, nodeIs_lastEpoch hn, hmax]
        have := hst.last_le
        omega
      have hmin : cur2.minDescEpoch = oMin (if false = d then some t' else ch false)
          (if true = d then some t' else ch true) := by
        rw [c6, nodeIs_minDesc hn]
        apply min_step epoch hep d ch t' _ hst.min_inv hminle
        · intro b x hx
          obtain ⟨lf, h1, h2⟩ := minEp_mem x
          rw [← h2]
          exact (hst.leafok b lf (by simp [oleaves, hx, h1])).1
        · intro y hy
          apply minEp_mono
          intro lf h
          exact hperm.mem_iff.2 (List.mem_append_left _ (by simp [oleaves, hy, h]))
      refine ⟨c1.trans hst.label, c2.trans hst.type, ?_, ?_, by omega, fun _ => hlast, .inl hmin,
        fun _ => hmin, ?_, ?_⟩
      · rw [c3]
        cases d
        · simp [olbl, nodeIs_label hn]
        · simp [hst.left]
      · rw [c4]
        cases d
        · simp [hst.right]
        · simp [olbl, nodeIs_label hn]
      · intro b t hbt
        by_cases hbd : b = d
        · subst hbd
          simp only [if_true, Option.some.injEq] at hbt
          subst hbt
          exact ⟨rep_write t' hwf hlen { n with parent := cur.label } (nodeIs_parent hn cur.label) hkids pv,
            hwf, hpre⟩
        · simp only [hbd, if_false] at hbt
          obtain ⟨hr, hw', hp'⟩ := hst.kids b t hbt
          have hlent : ∀ lf ∈ t.leaves, lf.lbl.length ≤ 256 := fun lf h =>
            (hst.leafok b lf (by simp [oleaves, hbt, h])).2.2
          refine ⟨?_, hw', hp'⟩
          apply rep_setRec t hw' hlent t'.lbl hq
            (fun h => hbd (snoc_prefix_unique (hp'.trans h) hpre)) _ (nodeIs_label hn)
          exact rep_frame hfr t hw' hlent (fun x hx hx' => hbd (snoc_prefix_unique (hp'.trans hx) hx')) hr
      · intro b lf hlf
        by_cases hbd : b = d
        · subst hbd
          simp only [if_true, oleaves, Option.map_some, Option.getD_some] at hlf
          exact hlok lf hlf
        · simp only [hbd, if_false] at hlf
          exact hst.leafok b lf hlf
    · intro b hbd; simp [hbd]
    · simpa [oleaves] using hperm
    · intro h; simp at h
    · exact hfr.trans (frame_setRec (p ++ [d]) t'.lbl hq hpre _ _ (nodeIs_label hn))
    · have hL : ∀ q, q ∈ lbls t' → q ∈ olbls ((fun b => if b = d then some t' else ch b) d) := by
        intro q h; simpa [olbls] using h
      exact (hchg.mono hL).trans (chg_setRec s1 _ t'.lbl (nodeIs_label hn) (hL _ (Part.lbl_mem_lbls t')))
    · intro q h
      simpa [olbls] using hold q h

/-! ### Phases 2 and 3 together -/


theorem finishK (c : Cfg) (m : InsertMode) (epoch fuel : Nat) (hep : 1 ≤ epoch)
    (hspec : SpecK c m epoch fuel)
    {p : BitStr} {ty : NodeType} {s : NodeStore} {cur : TreeNode} {ch : Bool → Option CTree}
    (hst : St c m epoch p ty s cur ch False) (hty : ty ≠ .leaf)
    (hfuel : 257 ≤ fuel + (p.length + 1)) (isNew : Bool) (num : Nat)
    (set : ElementSet Dig) (bs : List (BitStr × Dig)) (hok : SetOK set) (hel : set.elems = bs.map enc)
    (hne : bs ≠ [])
    (hbs : ∀ b ∈ bs, p <+: b.1 ∧ p.length < b.1.length ∧ b.1.length ≤ 256)
    (hpf : ((oleaves (ch false) ++ oleaves (ch true)) ++ newLeaves bs epoch).Pairwise Incomp) :
    ∃ s' cur' num' ch',
      phase23 c m (insertRec c m epoch fuel) s cur isNew num set = .ok (s', cur', isNew, num') ∧
      St c m epoch p ty s' cur' ch' True ∧
      cur'.hash = c.parentHash (CRoot.childValue c (hm m) (ch' false)) (CRoot.childLabel c (ch' false))
        (CRoot.childValue c (hm m) (ch' true)) (CRoot.childLabel c (ch' true)) ∧
      (oleaves (ch' false) ++ oleaves (ch' true)).Perm
        ((oleaves (ch false) ++ oleaves (ch true)) ++ newLeaves bs epoch) ∧
      (∀ d, ch' d = none → ch d = none ∧ bs.filter (goes p d) = []) ∧ Frame2 p s s' ∧
      Chg s s' (fun q => q ∈ olbls (ch' false) ∨ q ∈ olbls (ch' true)) ∧
      ∀ d, ∀ q ∈ olbls (ch d), q ∈ olbls (ch' d) := by
  obtain ⟨b0, hb0⟩ := List.exists_mem_of_ne_nil bs hne
  have hp256 : p.length ≤ 256 := by have := hbs b0 hb0; omega
  obtain ⟨okL, elL, okR, elR⟩ := partition_spec set bs p hok hel (fun b hb => ⟨(hbs b hb).1, (hbs b hb).2.2⟩) hp256
  have hbsd : ∀ d, ∀ b ∈ bs.filter (goes p d), (p ++ [d]) <+: b.1 ∧ b.1.length ≤ 256 := by
    intro d b hb
    rw [List.mem_filter] at hb
    exact ⟨(goes_iff _ _ _).1 hb.2, (hbs b hb.1).2.2⟩
  -- left
  obtain ⟨s1, cur1, num1, ch1, e1, st1, same1, perm1, none1, fr1, chg1, old1⟩ :=
    side_specK c m epoch fuel hep hspec hst false num hfuel _ _ okL elL (hbsd false)
      (hpf.sublist ((List.sublist_append_left _ _).append (newLeaves_filter_sublist bs _ epoch)))
  have ht1 : ch1 true = ch true := same1 true (by decide)
  -- right
  obtain ⟨s2, cur2, num2, ch2, e2, st2, same2, perm2, none2, fr2, chg2, old2⟩ :=
    side_specK c m epoch fuel hep hspec st1 true num1 hfuel _ _ okR elR (hbsd true)
      (by rw [ht1]; exact hpf.sublist ((List.sublist_append_right _ _).append (newLeaves_filter_sublist bs _ epoch)))
  have hf2 : ch2 false = ch1 false := same2 false (by decide)
  have hdone : (False ∨ bs.filter (goes p false) ≠ []) ∨ bs.filter (goes p true) ≠ [] := by
    obtain ⟨d, hd⟩ := goes_exists (hbs b0 hb0).1 (hbs b0 hb0).2.1
    have hm : b0 ∈ bs.filter (goes p d) := List.mem_filter.2 ⟨hb0, hd⟩
    cases d
    · exact .inl (.inr (List.ne_nil_of_mem hm))
    · exact .inr (List.ne_nil_of_mem hm)
  have st2' := st2.mono (done' := True) (fun _ => hdone)
  have hlast : cur2.lastEpoch = epoch := st2'.last_eq trivial
  have hrep : ∀ d t, ch2 d = some t → Rep c m s2 t ∧ maxEp t ≤ cur2.lastEpoch := by
    intro d t ht
    refine ⟨(st2'.kids d t ht).1, ?_⟩
    rw [hlast]
    exact maxEp_le t epoch (fun lf h => (st2'.leafok d lf (by simp [oleaves, ht, h])).2.1)
  have hup := updateHash_spec c m s2 cur2 (by rw [st2'.type]; exact hty) (ch2 false) (ch2 true)
    st2'.left st2'.right (hrep false) (hrep true)
  refine ⟨s2, { cur2 with
      hash := c.parentHash (CRoot.childValue c (hm m) (ch2 false)) (CRoot.childLabel c (ch2 false))
                (CRoot.childValue c (hm m) (ch2 true)) (CRoot.childLabel c (ch2 true)) },
    num2, ch2, ?_, ?_, rfl, ?_, ?_, ?_, ?_, ?_⟩
  · unfold phase23
    simp only [dir] at e1 e2
    rw [hst.label, e1]
    simp only
    rw [e2]
    simp only
    rw [hup]
  · exact ⟨st2'.label, st2'.type, st2'.left, st2'.right, st2'.last_le, st2'.last_eq, st2'.min_inv,
      st2'.min_eq, st2'.kids, st2'.leafok⟩
  · rw [hf2]
    rw [ht1] at perm2
    have hsplit : (newLeaves (bs.filter (goes p false)) epoch ++ newLeaves (bs.filter (goes p true)) epoch).Perm
        (newLeaves bs epoch) := by
      unfold newLeaves
      rw [← List.map_append]
      apply List.Perm.map
      have : bs.filter (goes p true) = bs.filter (fun x => !goes p false x) :=
        List.filter_congr (fun b hb => goes_true_eq_not (hbs b hb).1 (hbs b hb).2.1)
      rw [this]
      exact List.filter_append_perm _ _
    refine (perm1.append perm2).trans ?_
    refine List.Perm.trans ?_ (List.Perm.append_left _ hsplit)
    simp only [List.append_assoc]
    apply List.Perm.append_left
    rw [← List.append_assoc, ← List.append_assoc]
    exact List.Perm.append_right _ List.perm_append_comm
  · intro d hd
    cases d
    · rw [hf2] at hd
      exact none1 hd
    · have := none2 hd
      rw [ht1] at this
      exact this
  · intro b hb hn0 hn1
    exact (fr2 b hb hn1).trans (fr1 b hb hn0)
  · exact (chg1.mono (fun q h => .inl (hf2 ▸ h))).trans (chg2.mono (fun q h => .inr h))
  · intro d q h
    cases d
    · rw [hf2]; exact old1 q h
    · rw [← ht1] at h; exact old2 q h

/-! ### assembling the result node -/

theorem concludeK {c : Cfg} {m : InsertMode} {epoch : Nat} {pre p : BitStr} {s s' : NodeStore}
    {cur' : TreeNode} {ch' : Bool → Option CTree} {old : List Leaf} {bs : List (BitStr × Dig)}
    (hst : St c m epoch p .interior s' cur' ch' True)
    (hhash : cur'.hash = c.parentHash (CRoot.childValue c (hm m) (ch' false)) (CRoot.childLabel c (ch' false))
        (CRoot.childValue c (hm m) (ch' true)) (CRoot.childLabel c (ch' true)))
    (hperm : (oleaves (ch' false) ++ oleaves (ch' true)).Perm (old ++ newLeaves bs epoch)) (hne : bs ≠ [])
    (hsome : ∀ d, ch' d ≠ none) (hpre : pre <+: p) (hfr : Frame pre s s') :
    ∃ t', NodeIs c m t' cur' ∧ RepKids c m s' t' ∧ t'.WF ∧ pre <+: t'.lbl ∧
      t'.leaves.Perm (old ++ newLeaves bs epoch) ∧ Frame pre s s' ∧ t'.lbl = p ∧
      ∀ q, q ∈ lbls t' ↔ (q = p ∨ q ∈ olbls (ch' false) ∨ q ∈ olbls (ch' true)) := by
  obtain ⟨L, hL⟩ : ∃ L, ch' false = some L := by
    cases h : ch' false with
    | none => exact absurd h (hsome false)
    | some L => exact ⟨L, rfl⟩
  obtain ⟨R, hR⟩ : ∃ R, ch' true = some R := by
    cases h : ch' true with
    | none => exact absurd h (hsome true)
    | some R => exact ⟨R, rfl⟩
  have hperm' : (L.leaves ++ R.leaves).Perm (old ++ newLeaves bs epoch) := by
    simpa [oleaves, hL, hR] using hperm
  obtain ⟨b0, hb0⟩ := List.exists_mem_of_ne_nil bs hne
  have hnew : (⟨b0.1, b0.2, epoch⟩ : Leaf) ∈ L.leaves ++ R.leaves :=
    hperm'.mem_iff.2 (List.mem_append_right _ (List.mem_map_of_mem hb0))
  have hle : ∀ lf ∈ L.leaves ++ R.leaves, lf.ep ≤ epoch := by
    intro lf h
    rcases List.mem_append.1 h with h | h
    · exact (hst.leafok false lf (by simp [oleaves, hL, h])).2.1
    · exact (hst.leafok true lf (by simp [oleaves, hR, h])).2.1
  have hmax : maxEp (.node p L R) = epoch := maxEp_eq (.node p L R) epoch hle _ hnew rfl
  obtain ⟨kl1, kl2, kl3⟩ := hst.kids false L hL
  obtain ⟨kr1, kr2, kr3⟩ := hst.kids true R hR
  refine ⟨.node p L R, ?_, ⟨kl1, kr1⟩, ⟨kl3, kr3, kl2, kr2⟩, hpre, hperm', hfr, rfl,
    fun q => by simp [lbls, olbls, hL, hR]⟩
  refine ⟨hst.label, hst.type, ?_, ?_, ?_, ?_, ?_⟩
  · rw [hst.left, hL]; rfl
  · rw [hst.right, hR]; rfl
  · rw [hhash, hL, hR]; rfl
  · rw [hst.last_eq trivial, hmax]
  · rw [hst.min_eq trivial, hL, hR]; rfl

/-- the conclusion of `SpecK` -/
def ConclK (c : Cfg) (m : InsertMode) (epoch fuel : Nat) (s : NodeStore) (pre : BitStr) (ot : Option CTree)
    (set : ElementSet Dig) (bs : List (BitStr × Dig)) : Prop :=
  ∃ s' n isNew num t',
    insertRec c m epoch fuel s (olbl ot) set = .ok (s', n, isNew, num) ∧
    NodeIs c m t' n ∧ RepKids c m s' t' ∧ t'.WF ∧ pre <+: t'.lbl ∧
    t'.leaves.Perm (oleaves ot ++ newLeaves bs epoch) ∧ Frame pre s s' ∧
    Chg s s' (fun q => q ∈ lbls t') ∧ ∀ q ∈ olbls ot, q ∈ lbls t'

/-- empty position, one element: a new leaf -/
theorem case_leafK (c : Cfg) (m : InsertMode) (epoch fuel : Nat) (s : NodeStore) (pre : BitStr)
    (set : ElementSet Dig) (b : BitStr × Dig) (hok : SetOK set) (hel : set.elems = [b].map enc)
    (hb : pre <+: b.1 ∧ b.1.length ≤ 256) :
    ConclK c m epoch (fuel + 1) s pre none set [b] := by
  obtain ⟨_, elL, _, elR⟩ := partition_spec set [b] b.1 hok hel
    (by intro x hx; simp at hx; subst hx; exact ⟨List.prefix_refl _, hb.2⟩) hb.2
  have hgl : [b].filter (goes b.1 false) = [] := by
    have := goes_self b.1 false b.2; simp_all
  have hgr : [b].filter (goes b.1 true) = [] := by
    have := goes_self b.1 true b.2; simp_all
  rw [hgl] at elL
  rw [hgr] at elR
  refine ⟨s, TreeNode.newLeaf c (ofBits b.1) b.2 epoch, true, 1, .leaf b.1 b.2 epoch, ?_,
    ⟨rfl, rfl, rfl, rfl, rfl, rfl, rfl⟩, trivial, trivial, hb.1, by simp [CTree.leaves, oleaves, newLeaves],
    Frame.refl _ _, Chg.refl _ _, fun q h => by simp [olbls] at h⟩
  rw [insertRec_succ]
  have h1 : phase1 c epoch s (olbl none) set = .ok (s, TreeNode.newLeaf c (ofBits b.1) b.2 epoch, true, 1) := by
    unfold phase1
    rw [hel]; rfl
  rw [h1]
  simp only
  unfold phase23
  have hl : (TreeNode.newLeaf c (ofBits b.1) b.2 epoch).label = ofBits b.1 := rfl
  rw [hl, side_empty _ _ _ _ _ _ elL]
  simp only
  rw [side_empty _ _ _ _ _ _ elR]
  simp only
  unfold updateHash
  rw [if_pos (show (TreeNode.newLeaf c (ofBits b.1) b.2 epoch).nodeType = .leaf from rfl)]

/-- empty position, at least two elements: a new interior node at the common prefix -/
theorem case_interiorK (c : Cfg) (m : InsertMode) (epoch fuel : Nat) (hc : c.emptyLabel.len = 0)
    (hep : 1 ≤ epoch) (hspec : SpecK c m epoch fuel) (s : NodeStore) (pre : BitStr)
    (set : ElementSet Dig) (bs : List (BitStr × Dig))
    (hfuel : 257 ≤ fuel + 1 + pre.length) (hpre1 : 1 ≤ pre.length)
    (hok : SetOK set) (hel : set.elems = bs.map enc) (h2 : 2 ≤ bs.length)
    (hbs : ∀ b ∈ bs, pre <+: b.1 ∧ b.1.length ≤ 256)
    (hpf : (newLeaves bs epoch).Pairwise Incomp) :
    ConclK c m epoch (fuel + 1) s pre none set bs := by
  have hne : bs ≠ [] := by intro h; rw [h] at h2; simp at h2
  have hlcp := setLcp_spec c.emptyLabel hc set bs hok hel hne (fun b hb => by
    have := (hbs b hb).1.length_le
    exact ⟨by omega, (hbs b hb).2⟩)
  have hpl := lcpAll_prefix bs hne
  have hprep : pre <+: lcpAll bs := (prefix_lcpAll_iff bs hne _).2 (fun b hb => (hbs b hb).1)
  -- every element is strictly longer than the common prefix
  have hstrict : ∀ b ∈ bs, lcpAll bs <+: b.1 ∧ (lcpAll bs).length < b.1.length := by
    intro b hb
    refine ⟨hpl b hb, ?_⟩
    apply Classical.byContradiction
    intro hnlt
    have heq : lcpAll bs = b.1 := (hpl b hb).eq_of_length_le (by omega)
    obtain ⟨a', ha', hna⟩ := exists_other _ hpf (by simpa [newLeaves] using h2) ⟨b.1, b.2, epoch⟩
      (List.mem_map_of_mem hb)
    obtain ⟨b', hb', rfl⟩ := mem_newLeaves ha'
    exact hna (heq ▸ hpl b' hb')
  have hboth : ∀ d, bs.filter (goes (lcpAll bs) d) ≠ [] := by
    intro d
    apply side_nonempty hstrict d
    intro hall
    have := ((prefix_lcpAll_iff bs hne _).2 hall).length_le
    simp at this
    omega
  have h1 : phase1 c epoch s (olbl none) set
      = .ok (s, TreeNode.newInterior c (ofBits (lcpAll bs)) epoch, true, 1) := by
    unfold phase1
    rw [hel, hlcp]
    obtain ⟨b1, b2, rest, rfl⟩ : ∃ b1 b2 rest, bs = b1 :: b2 :: rest := by
      cases bs with
      | nil => simp at h2
      | cons b1 r =>
        cases r with
        | nil => simp at h2
        | cons b2 rest => exact ⟨b1, b2, rest, rfl⟩
    rfl
  have hst : St c m epoch (lcpAll bs) .interior s (TreeNode.newInterior c (ofBits (lcpAll bs)) epoch)
      (fun _ => none) False :=
    ⟨rfl, rfl, rfl, rfl, Nat.le_refl _, fun h => h.elim, .inr ⟨rfl, rfl, rfl⟩, fun h => h.elim,
      fun _ _ h => by simp at h, fun _ lf h => by simp [oleaves] at h⟩
  obtain ⟨s', cur', num', ch', hrun, hst', hhash, hperm, hnone, hfr, hchg, _⟩ :=
    finishK c m epoch fuel hep hspec hst (by decide)
      (by have := hprep.length_le; omega) true 1 set bs hok hel hne
      (fun b hb => ⟨(hstrict b hb).1, (hstrict b hb).2, (hbs b hb).2⟩)
      (by simpa [oleaves] using hpf)
  obtain ⟨t', k1, k2, k3, k4, k5, k6, _, k8⟩ := concludeK (s := s) (old := []) hst' hhash
    (by simpa [oleaves] using hperm) hne
    (fun d h => hboth d (hnone d h).2) hprep (hfr.frame hprep)
  refine ⟨s', cur', true, num', t', ?_, k1, k2, k3, k4, by simpa [oleaves] using k5, k6,
    hchg.mono (fun q h => (k8 q).2 (.inr h)), fun q h => by simp [olbls] at h⟩
  rw [insertRec_succ, h1]
  exact hrun

/-- existing sub-tree whose label is not a prefix of all elements: decompress (case 1a) -/
theorem case_decompressK (c : Cfg) (m : InsertMode) (epoch fuel : Nat) (hc : c.emptyLabel.len = 0)
    (hep : 1 ≤ epoch) (hspec : SpecK c m epoch fuel) (s : NodeStore) (pre : BitStr) (t : CTree)
    (set : ElementSet Dig) (bs : List (BitStr × Dig))
    (hfuel : 257 ≤ fuel + 1 + pre.length) (hpre1 : 1 ≤ pre.length)
    (hok : SetOK set) (hel : set.elems = bs.map enc) (hne : bs ≠ [])
    (hbs : ∀ b ∈ bs, pre <+: b.1 ∧ b.1.length ≤ 256)
    (hrep : Rep c m s t) (hwf : t.WF) (hpt : pre <+: t.lbl) (hlok : ∀ lf ∈ t.leaves, LeafOK epoch lf)
    (hpf : (t.leaves ++ newLeaves bs epoch).Pairwise Incomp)
    (hlt : (BitStr.commonPrefix t.lbl (lcpAll bs)).length < t.lbl.length) :
    ConclK c m epoch (fuel + 1) s pre (some t) set bs := by
  obtain ⟨⟨r, hg, hn⟩, hkids⟩ := (rep_iff c m s t).1 hrep
  have hlen : ∀ lf ∈ t.leaves, lf.lbl.length ≤ 256 := fun lf h => (hlok lf h).2.2
  have hq : t.lbl.length ≤ 256 := lbl_length_le t hwf hlen
  have hmaxle : maxEp t ≤ epoch := maxEp_le t epoch (fun lf h => (hlok lf h).2.1)
  have hgn := getNode_latest s _ r epoch hg (by rw [nodeIs_lastEpoch hn]; exact hmaxle)
  obtain ⟨ex, hex⟩ : ∃ ex, r.latest = ex := ⟨_, rfl⟩
  rw [hex] at hn hgn
  have hlcp := setLcp_spec c.emptyLabel hc set bs hok hel hne (fun b hb => by
    have := (hbs b hb).1.length_le
    exact ⟨by omega, (hbs b hb).2⟩)
  have hl256 := lcpAll_length_le bs hne (fun b hb => (hbs b hb).2)
  have hpl := lcpAll_prefix bs hne
  have hprel : pre <+: lcpAll bs := (prefix_lcpAll_iff bs hne _).2 (fun b hb => (hbs b hb).1)
  generalize hpdef : BitStr.commonPrefix t.lbl (lcpAll bs) = p at hlt
  have hp_t : p <+: t.lbl := hpdef ▸ Canon.commonPrefix_prefix_left _ _
  have hp_l : p <+: lcpAll bs := hpdef ▸ Canon.commonPrefix_prefix_right _ _
  have hprep : pre <+: p := hpdef ▸ Canon.prefix_commonPrefix _ _ _ hpt hprel
  -- the direction of the existing sub-tree
  obtain ⟨d0, hd0⟩ : ∃ d0, (p ++ [d0]) <+: t.lbl :=
    ⟨t.lbl[p.length], Canon.snoc_prefix_of_getElem? hp_t (List.getElem?_eq_getElem hlt)⟩
  obtain ⟨lf0, hlf0⟩ := Canon.Tree.exists_mem_leaves t
  have hstrict : ∀ b ∈ bs, p <+: b.1 ∧ p.length < b.1.length := by
    intro b hb
    refine ⟨hp_l.trans (hpl b hb), ?_⟩
    apply Classical.byContradiction
    intro hnlt
    have heq : p = b.1 := (hp_l.trans (hpl b hb)).eq_of_length_le (by omega)
    exact (incomp_old_new hpf lf0 hlf0 b hb).2 (heq ▸ hp_t.trans (Canon.Tree.lbl_prefix hwf lf0 hlf0))
  have hother : bs.filter (goes p (!d0)) ≠ [] := by
    apply side_nonempty hstrict
    rw [Bool.not_not]
    intro hall
    have h1 : (p ++ [d0]) <+: lcpAll bs := (prefix_lcpAll_iff bs hne _).2 hall
    have h2 := Canon.prefix_commonPrefix _ _ _ hd0 h1
    rw [hpdef] at h2
    have := h2.length_le
    simp at this
    omega
  -- setChild, writeNode
  obtain ⟨cur2, hsc, c1, c2, c3, c4, c5, c6⟩ :=
    setChild_spec (TreeNode.newInterior c (ofBits p) epoch) ex p t.lbl d0 rfl (nodeIs_label hn) hq hd0
  obtain ⟨pv, hw⟩ := writeNode_ok s { ex with parent := (TreeNode.newInterior c (ofBits p) epoch).label } false
  obtain ⟨s1, hs1⟩ : ∃ s1, s1 = s.setRec ⟨ex.label,
      { ex with parent := (TreeNode.newInterior c (ofBits p) epoch).label }, pv⟩ := ⟨_, rfl⟩
  have hw' : s.writeNode { ex with parent := (TreeNode.newInterior c (ofBits p) epoch).label } false
      = .ok s1 := hs1 ▸ hw
  have h1 : phase1 c epoch s (olbl (some t)) set = .ok (s1, cur2, true, 1) := by
    unfold phase1
    simp only [olbl, Option.map_some]
    rw [hgn]
    simp only
    rw [hlcp, lcp_ofBits c.emptyLabel hc _ _ hq hl256, hpdef]
    rw [if_pos (show (ofBits p).len < (ofBits t.lbl).len from hlt), hsc]
    simp only
    rw [hw']
  have hfr1 : Frame pre s s1 := hs1 ▸ frame_setRec pre t.lbl hq hpt _ _ (nodeIs_label hn)
  have hrep1 : Rep c m s1 t :=
    hs1 ▸ rep_write t hwf hlen { ex with parent := (TreeNode.newInterior c (ofBits p) epoch).label }
      (nodeIs_parent hn _) hkids pv
  have hminle : minEp t ≤ epoch := by
    obtain ⟨lf, h1, h2⟩ := minEp_mem t
    rw [← h2]; exact (hlok lf h1).2.1
  have hst : St c m epoch p .interior s1 cur2 (fun b => if b = d0 then some t else none) False := by
    refine ⟨c1, c2, ?_, ?_, ?_, fun h => h.elim, .inl ?_, fun h => h.elim, ?_, ?_⟩
    · rw [c3]; cases d0 <;> simp [olbl, nodeIs_label hn, TreeNode.newInterior]
    · rw [c4]; cases d0 <;> simp [olbl, nodeIs_label hn, TreeNode.newInterior]
    · rw [c5, nodeIs_lastEpoch hn]
      show max epoch (maxEp t) ≤ epoch
      omega
    · rw [c6, nodeIs_minDesc hn]
      show (if epoch = 0 then minEp t else min epoch (minEp t)) = _
      rw [if_neg (by omega)]
      cases d0 <;> simp [oMin] <;> omega
    · intro b t' hbt
      by_cases hbd : b = d0
      · simp only [hbd, if_true, Option.some.injEq] at hbt
        subst hbt; subst hbd
        exact ⟨hrep1, hwf, hd0⟩
      · simp [hbd] at hbt
    · intro b lf hlf
      by_cases hbd : b = d0
      · simp only [hbd, if_true, oleaves, Option.map_some, Option.getD_some] at hlf
        exact hlok lf hlf
      · simp [hbd, oleaves] at hlf
  have holv : oleaves ((fun b => if b = d0 then some t else none) false)
      ++ oleaves ((fun b => if b = d0 then some t else none) true) = t.leaves := by
    cases d0 <;> simp [oleaves]
  obtain ⟨s', cur', num', ch', hrun, hst', hhash, hperm, hnone, hfr, hchg, hold⟩ :=
    finishK c m epoch fuel hep hspec hst (by decide)
      (by have := hprep.length_le; omega) true 1 set bs hok hel hne
      (fun b hb => ⟨(hstrict b hb).1, (hstrict b hb).2, (hbs b hb).2⟩)
      (by rw [holv]; exact hpf)
  rw [holv] at hperm
  have hsome : ∀ d, ch' d ≠ none := by
    intro d h
    by_cases hd : d = d0
    · have := (hnone d h).1
      simp [hd] at this
    · have hd' : d = !d0 := by cases d <;> cases d0 <;> simp_all
      exact hother (hd' ▸ (hnone d h).2)
  obtain ⟨t', k1, k2, k3, k4, k5, k6, _, k8⟩ := concludeK (s := s) hst' hhash hperm hne hsome hprep
    (hfr1.trans (hfr.frame hprep))
  have holdt : ∀ q ∈ lbls t, q ∈ lbls t' := by
    intro q h
    have := hold d0 q (by simpa [olbls] using h)
    exact (k8 q).2 (.inr (by cases d0; exact .inl this; exact .inr this))
  have hchg1 : Chg s s1 (fun q => q ∈ lbls t') :=
    hs1 ▸ chg_setRec s _ t.lbl (nodeIs_label hn) (holdt _ (Part.lbl_mem_lbls t))
  refine ⟨s', cur', true, num', t', ?_, k1, k2, k3, k4, k5, k6,
    hchg1.trans (hchg.mono (fun q h => (k8 q).2 (.inr h))), fun q h => holdt q (by simpa [olbls] using h)⟩
  rw [insertRec_succ, h1]
  exact hrun

/-- existing sub-tree whose label is a prefix of all elements: descend (cases 2/3) -/
theorem case_descendK (c : Cfg) (m : InsertMode) (epoch fuel : Nat) (hc : c.emptyLabel.len = 0)
    (hep : 1 ≤ epoch) (hspec : SpecK c m epoch fuel) (s : NodeStore) (pre : BitStr) (t : CTree)
    (set : ElementSet Dig) (bs : List (BitStr × Dig))
    (hfuel : 257 ≤ fuel + 1 + pre.length) (hpre1 : 1 ≤ pre.length)
    (hok : SetOK set) (hel : set.elems = bs.map enc) (hne : bs ≠ [])
    (hbs : ∀ b ∈ bs, pre <+: b.1 ∧ b.1.length ≤ 256)
    (hrep : Rep c m s t) (hwf : t.WF) (hpt : pre <+: t.lbl) (hlok : ∀ lf ∈ t.leaves, LeafOK epoch lf)
    (hpf : (t.leaves ++ newLeaves bs epoch).Pairwise Incomp)
    (hge : ¬ (BitStr.commonPrefix t.lbl (lcpAll bs)).length < t.lbl.length) :
    ConclK c m epoch (fuel + 1) s pre (some t) set bs := by
  obtain ⟨⟨r, hg, hn⟩, hkids⟩ := (rep_iff c m s t).1 hrep
  have hlen : ∀ lf ∈ t.leaves, lf.lbl.length ≤ 256 := fun lf h => (hlok lf h).2.2
  have hq : t.lbl.length ≤ 256 := lbl_length_le t hwf hlen
  have hmaxle : maxEp t ≤ epoch := maxEp_le t epoch (fun lf h => (hlok lf h).2.1)
  have hgn := getNode_latest s _ r epoch hg (by rw [nodeIs_lastEpoch hn]; exact hmaxle)
  have hlcp := setLcp_spec c.emptyLabel hc set bs hok hel hne (fun b hb => by
    have := (hbs b hb).1.length_le
    exact ⟨by omega, (hbs b hb).2⟩)
  have hl256 := lcpAll_length_le bs hne (fun b hb => (hbs b hb).2)
  have hpl := lcpAll_prefix bs hne
  have hcp : BitStr.commonPrefix t.lbl (lcpAll bs) = t.lbl := Canon.commonPrefix_eq_left_of_length_ge hge
  have htl : t.lbl <+: lcpAll bs := hcp ▸ Canon.commonPrefix_prefix_right t.lbl (lcpAll bs)
  have hall : ∀ b ∈ bs, t.lbl <+: b.1 := fun b hb => htl.trans (hpl b hb)
  obtain ⟨b0, hb0⟩ := List.exists_mem_of_ne_nil bs hne
  have h1 : phase1 c epoch s (olbl (some t)) set = .ok (s, r.latest, false, 0) := by
    unfold phase1
    simp only [olbl, Option.map_some]
    rw [hgn]
    simp only
    rw [hlcp, lcp_ofBits c.emptyLabel hc _ _ hq hl256, hcp]
    rw [if_neg (Nat.lt_irrefl _)]
  cases t with
  | leaf q v e =>
    exact absurd (hall b0 hb0) (incomp_old_new hpf ⟨q, v, e⟩ (by simp [CTree.leaves]) b0 hb0).1
  | node q l r' =>
    simp only [CTree.lbl] at hall hpt hq hcp htl
    have hstrict : ∀ b ∈ bs, q <+: b.1 ∧ q.length < b.1.length := by
      intro b hb
      refine ⟨hall b hb, ?_⟩
      apply Classical.byContradiction
      intro hnlt
      have heq : q = b.1 := (hall b hb).eq_of_length_le (by omega)
      obtain ⟨lf0, hlf0⟩ := Canon.Tree.exists_mem_leaves (.node q l r')
      exact (incomp_old_new hpf lf0 hlf0 b hb).2 (heq ▸ Canon.Tree.lbl_prefix hwf lf0 hlf0)
    obtain ⟨n1, n2, n3, n4, n5, n6, n7⟩ := hn
    obtain ⟨pl, pr, wl, wr⟩ := hwf
    have hst : St c m epoch q .interior s r.latest (fun b => if b then some r' else some l) False := by
      refine ⟨n1, n2, by simpa [olbl] using n3, by simpa [olbl] using n4, ?_, fun h => h.elim, .inl ?_,
        fun h => h.elim, ?_, ?_⟩
      · rw [n6]; exact hmaxle
      · rw [n7]; rfl
      · intro b t' hbt
        cases b
        · simp only [Bool.false_eq_true, if_false, Option.some.injEq] at hbt
          subst hbt
          exact ⟨hkids.1, wl, pl⟩
        · simp only [if_true, Option.some.injEq] at hbt
          subst hbt
          exact ⟨hkids.2, wr, pr⟩
      · intro b lf hlf
        apply hlok
        cases b
        · simp only [Bool.false_eq_true, if_false, oleaves, Option.map_some, Option.getD_some] at hlf
          simp [CTree.leaves, hlf]
        · simp only [if_true, oleaves, Option.map_some, Option.getD_some] at hlf
          simp [CTree.leaves, hlf]
    obtain ⟨s', cur', num', ch', hrun, hst', hhash, hperm, hnone, hfr, hchg, hold⟩ :=
      finishK c m epoch fuel hep hspec hst (by decide)
        (by have := hpt.length_le; omega) false 0 set bs hok hel hne
        (fun b hb => ⟨(hstrict b hb).1, (hstrict b hb).2, (hbs b hb).2⟩)
        (by simpa [oleaves, CTree.leaves] using hpf)
    have hsome : ∀ d, ch' d ≠ none := by
      intro d h
      have := (hnone d h).1
      cases d <;> simp at this
    obtain ⟨t', k1, k2, k3, k4, k5, k6, _, k8⟩ := concludeK (s := s) (old := (CTree.node q l r').leaves) hst' hhash
      (by simpa [oleaves, CTree.leaves] using hperm) hne hsome hpt (hfr.frame hpt)
    refine ⟨s', cur', false, num', t', ?_, k1, k2, k3, k4, by simpa [oleaves] using k5, k6,
      hchg.mono (fun q h => (k8 q).2 (.inr h)), ?_⟩
    · rw [insertRec_succ, h1]
      exact hrun
    · intro x hx
      simp only [olbls, Option.map_some, Option.getD_some, lbls, List.mem_cons, List.mem_append] at hx
      rcases hx with rfl | hx | hx
      · exact (k8 _).2 (.inl rfl)
      · exact (k8 x).2 (.inr (.inl (hold false x (by simpa [olbls] using hx))))
      · exact (k8 x).2 (.inr (.inr (hold true x (by simpa [olbls] using hx))))

/-- **the main lemma**, for every amount of fuel -/
theorem spec_allK (c : Cfg) (m : InsertMode) (epoch : Nat) (hc : c.emptyLabel.len = 0) (hep : 1 ≤ epoch) :
    ∀ fuel, SpecK c m epoch fuel
  | 0 => by
    intro s pre ot set bs hfuel _ _ _ hne hbs _ _ _
    obtain ⟨b, hb⟩ := List.exists_mem_of_ne_nil bs hne
    have := (hbs b hb).1.length_le
    have := (hbs b hb).2
    omega
  | fuel + 1 => by
    have ih := spec_allK c m epoch hc hep fuel
    intro s pre ot set bs hfuel hpre1 hok hel hne hbs hot hlok hpf
    cases ot with
    | none =>
      cases bs with
      | nil => exact absurd rfl hne
      | cons b rest =>
        cases rest with
        | nil => exact case_leafK c m epoch fuel s pre set b hok hel (hbs b (by simp))
        | cons b2 rest =>
          exact case_interiorK c m epoch fuel hc hep ih s pre set _ (by omega) hpre1 hok hel
            (by simp) hbs (by simpa [oleaves] using hpf)
    | some t =>
      obtain ⟨hrep, hwf, hpt⟩ := hot t rfl
      have hlok' : ∀ lf ∈ t.leaves, LeafOK epoch lf := by simpa [oleaves] using hlok
      have hpf' : (t.leaves ++ newLeaves bs epoch).Pairwise Incomp := by simpa [oleaves] using hpf
      by_cases hlt : (BitStr.commonPrefix t.lbl (lcpAll bs)).length < t.lbl.length
      · exact case_decompressK c m epoch fuel hc hep ih s pre t set bs (by omega) hpre1 hok hel hne hbs
          hrep hwf hpt hlok' hpf' hlt
      · exact case_descendK c m epoch fuel hc hep ih s pre t set bs (by omega) hpre1 hok hel hne hbs
          hrep hwf hpt hlok' hpf' hlt


/-- the root level, for a tree whose leaves are not newer than the epoch being inserted (they may be OF that
epoch: a second sub-batch within one epoch, C14) -/
theorem batchInsert_root_leK (c : Cfg) (hc : c.emptyLabel.len = 0) (m : InsertMode)
    (s : NodeStore) (a : Azks) (t : CRoot)
    (hrep : RepRoot c m s t) (hwf : t.WF)
    (hep : ∀ lf ∈ t.leaves, 1 ≤ lf.ep ∧ lf.ep ≤ a.latestEpoch + 1)
    (els : List (BitStr × Dig))
    (hpf : (t.leaves ++ newLeaves els (a.latestEpoch + 1)).Pairwise Incomp)
    (hlen : ∀ lf ∈ t.leaves ++ newLeaves els (a.latestEpoch + 1), 1 ≤ lf.lbl.length ∧ lf.lbl.length ≤ 256) :
    ∃ s' n t', s.batchInsert c m a (els.map enc) = .ok (s', ⟨a.latestEpoch + 1, n⟩) ∧
      RepRoot c m s' t' ∧ t'.WF ∧ t'.leaves.Perm (t.leaves ++ newLeaves els (a.latestEpoch + 1)) ∧
      Chg s s' (Part.RootK t') := by
  by_cases hels : els = []
  · subst hels
    exact ⟨s, a.numNodes, t, rfl, hrep, hwf, by simp [newLeaves], Chg.refl _ _⟩
  generalize hepoch : a.latestEpoch + 1 = epoch at hpf hlen
  have hep1 : 1 ≤ epoch := by omega
  have hlenE : ∀ b ∈ els, 1 ≤ b.1.length ∧ b.1.length ≤ 256 := fun b hb =>
    hlen ⟨b.1, b.2, epoch⟩ (List.mem_append_right _ (List.mem_map_of_mem hb))
  obtain ⟨bs, hperm, hok, hel⟩ := ofList_spec els (fun b hb => (hlenE b hb).2)
  have hne : bs ≠ [] := fun h => hels (by rw [h] at hperm; exact hperm.symm.eq_nil)
  have hlenB : ∀ b ∈ bs, 1 ≤ b.1.length ∧ b.1.length ≤ 256 := fun b hb => hlenE b (hperm.mem_iff.1 hb)
  have hpfB : (t.leaves ++ newLeaves bs epoch).Pairwise Incomp :=
    (List.Perm.pairwise_iff (fun h => Incomp.symm h)
      (List.Perm.append_left _ (newLeaves_perm hperm epoch))).2 hpf
  obtain ⟨⟨r, hg, r1, r2, r3, r4, r5, r6, r7⟩, hrl, hrr⟩ := hrep
  have hlokT : ∀ lf ∈ t.leaves, LeafOK epoch lf := fun lf h =>
    ⟨(hep lf h).1, by have := (hep lf h).2; omega, (hlen lf (List.mem_append_left _ h)).2⟩
  have hmaxle : oMax t.l t.r ≤ epoch := oMax_le _ _ _ (fun lf h => (hlokT lf h).2.1)
  have hgn := getNode_latest s _ r epoch hg (by rw [r6]; exact hmaxle)
  have hlcp := setLcp_spec c.emptyLabel hc _ bs hok hel hne hlenB
  have hl256 := lcpAll_length_le bs hne (fun b hb => (hlenB b hb).2)
  have h1 : phase1 c epoch s (some NodeLabel.root) (ElementSet.ofList (els.map enc))
      = .ok (s, r.latest, false, 0) := by
    unfold phase1
    simp only
    rw [hgn]
    simp only
    rw [hlcp, ← ofBits_nil, lcp_ofBits c.emptyLabel hc _ _ (by simp) hl256]
    have : BitStr.commonPrefix [] (lcpAll bs) = [] := by cases lcpAll bs <;> rfl
    rw [this, if_neg (Nat.lt_irrefl _)]
  have hst : St c m epoch [] .root s r.latest (fun b => if b then t.r else t.l) False := by
    refine ⟨r1.trans ofBits_nil.symm, r2, r3, r4, by rw [r6]; exact hmaxle, fun h => h.elim, .inl r7,
      fun h => h.elim, ?_, ?_⟩
    · intro b t' hbt
      cases b
      · simp only [Bool.false_eq_true, if_false] at hbt
        exact ⟨hrl t' hbt, (hwf.1 t' hbt).2, by simpa using (hwf.1 t' hbt).1⟩
      · simp only [if_true] at hbt
        exact ⟨hrr t' hbt, (hwf.2 t' hbt).2, by simpa using (hwf.2 t' hbt).1⟩
    · intro b lf hlf
      apply hlokT
      cases b
      · simp only [Bool.false_eq_true, if_false] at hlf
        exact List.mem_append_left _ hlf
      · simp only [if_true] at hlf
        exact List.mem_append_right _ hlf
  obtain ⟨s', cur', num', ch', hrun, hst', hhash, hperm', hnone, hfr, hchg, _⟩ :=
    finishK c m epoch 299 hep1 (spec_allK c m epoch hc hep1 299) hst (by decide) (by simp) false 0 _ bs hok hel hne
      (fun b hb => ⟨List.nil_prefix, Nat.lt_of_lt_of_le Nat.zero_lt_one (hlenB b hb).1, (hlenB b hb).2⟩)
      hpfB
  obtain ⟨pv, hw⟩ := writeNode_ok s' cur' false
  -- at least one child
  obtain ⟨b0, hb0⟩ := List.exists_mem_of_ne_nil bs hne
  have hsomeone : ¬ (ch' false = none ∧ ch' true = none) := by
    rintro ⟨h0, h1⟩
    obtain ⟨d, hd⟩ := goes_exists (p := []) (x := b0) List.nil_prefix (Nat.lt_of_lt_of_le Nat.zero_lt_one (hlenB b0 hb0).1)
    have hm : b0 ∈ bs.filter (goes [] d) := List.mem_filter.2 ⟨hb0, hd⟩
    cases d
    · rw [(hnone false h0).2] at hm; simp at hm
    · rw [(hnone true h1).2] at hm; simp at hm
  have hpermT : (oleaves (ch' false) ++ oleaves (ch' true)).Perm (t.leaves ++ newLeaves els epoch) :=
    hperm'.trans (List.Perm.append_left _ (newLeaves_perm hperm epoch))
  have hnew : (⟨b0.1, b0.2, epoch⟩ : Leaf) ∈ oleaves (ch' false) ++ oleaves (ch' true) :=
    hperm'.mem_iff.2 (List.mem_append_right _ (List.mem_map_of_mem hb0))
  have hle : ∀ lf ∈ oleaves (ch' false) ++ oleaves (ch' true), lf.ep ≤ epoch := by
    intro lf h
    rcases List.mem_append.1 h with h | h
    · exact (hst'.leafok false lf h).2.1
    · exact (hst'.leafok true lf h).2.1
  refine ⟨s'.setRec ⟨cur'.label, cur', pv⟩, a.numNodes + num', ⟨ch' false, ch' true⟩, ?_, ⟨?_, ?_, ?_⟩, ⟨?_, ?_⟩,
    hpermT, (hchg.mono (fun q h => .inr (List.mem_append.2 h))).trans
      (chg_setRec s' _ [] hst'.label (.inl rfl))⟩
  · unfold batchInsert
    simp only [hepoch]
    have hemp : (ElementSet.ofList (els.map enc)).elems.isEmpty = false := by
      rw [hel]
      cases bs with
      | nil => exact absurd rfl hne
      | cons _ _ => rfl
    rw [hemp]
    simp only [Bool.false_eq_true, if_false]
    rw [show (300 : Nat) = 299 + 1 from rfl, insertRec_succ, h1]
    simp only
    rw [hrun]
    simp only
    rw [hw]
  · refine ⟨⟨cur'.label, cur', pv⟩, ?_, hst'.label.trans ofBits_nil, hst'.type, hst'.left, hst'.right, ?_, ?_,
      hst'.min_eq trivial⟩
    · rw [← ofBits_nil, ← hst'.label]
      exact getRec_setRec_self _ _
    · rw [hhash]
      unfold CRoot.value
      cases h0 : ch' false with
      | none =>
        cases h1 : ch' true with
        | none => exact absurd ⟨h0, h1⟩ hsomeone
        | some y => rfl
      | some x => rfl
    · rw [hst'.last_eq trivial]
      exact (oMax_eq _ _ epoch hle _ hnew rfl).symm
  · intro x hx
    have hx : ch' false = some x := hx
    obtain ⟨k1, k2, k3⟩ := hst'.kids false x hx
    apply rep_setRec x k2 (fun lf h => (hst'.leafok false lf (by simp [oleaves, hx, h])).2.2) [] (by simp)
      _ _ hst'.label k1
    intro h
    have := (k3.trans h).length_le
    simp at this
  · intro x hx
    have hx : ch' true = some x := hx
    obtain ⟨k1, k2, k3⟩ := hst'.kids true x hx
    apply rep_setRec x k2 (fun lf h => (hst'.leafok true lf (by simp [oleaves, hx, h])).2.2) [] (by simp)
      _ _ hst'.label k1
    intro h
    have := (k3.trans h).length_le
    simp at this
  · intro x hx
    obtain ⟨_, k2, k3⟩ := hst'.kids false x hx
    exact ⟨by simpa using k3, k2⟩
  · intro x hx
    obtain ⟨_, k2, k3⟩ := hst'.kids true x hx
    exact ⟨by simpa using k3, k2⟩

theorem batchInsert_rootK (c : Cfg) (hc : c.emptyLabel.len = 0) (m : InsertMode)
    (s : NodeStore) (a : Azks) (t : CRoot)
    (hrep : RepRoot c m s t) (hwf : t.WF)
    (hep : ∀ lf ∈ t.leaves, 1 ≤ lf.ep ∧ lf.ep ≤ a.latestEpoch)
    (els : List (BitStr × Dig))
    (hpf : (t.leaves ++ newLeaves els (a.latestEpoch + 1)).Pairwise Incomp)
    (hlen : ∀ lf ∈ t.leaves ++ newLeaves els (a.latestEpoch + 1), 1 ≤ lf.lbl.length ∧ lf.lbl.length ≤ 256) :
    ∃ s' n t', s.batchInsert c m a (els.map enc) = .ok (s', ⟨a.latestEpoch + 1, n⟩) ∧
      RepRoot c m s' t' ∧ t'.WF ∧ t'.leaves.Perm (t.leaves ++ newLeaves els (a.latestEpoch + 1)) ∧
      Chg s s' (Part.RootK t') :=
  batchInsert_root_leK c hc m s a t hrep hwf
    (fun lf h => ⟨(hep lf h).1, Nat.le_succ_of_le (hep lf h).2⟩) els hpf hlen

/-- **the keys a publish writes**: after the insertion inside a transaction, every key whose record differs from the
one the store held before is the label of a node of the new tree -/
theorem chg_batchInsert (c : Cfg) (hc : c.emptyLabel.len = 0)
    (s : NodeStore) (a : Azks) (t : CRoot)
    (hidle : s.inTxn = false ∧ s.log = [])
    (hrep : C01.ReprRoot c .directory s t) (hwf : t.WF)
    (hep : ∀ lf ∈ t.leaves, 1 ≤ lf.ep ∧ lf.ep ≤ a.latestEpoch)
    (els : List (BitStr × Dig))
    (hpf : C01.PrefixFree (t.leaves ++ C01.newLeaves els (a.latestEpoch + 1)))
    (hlen : ∀ lf ∈ t.leaves ++ C01.newLeaves els (a.latestEpoch + 1), 1 ≤ lf.lbl.length ∧ lf.lbl.length ≤ 256)
    (s' : NodeStore) (a' : Azks)
    (hins : s.begin.batchInsert c .directory a (els.map fun x => (NodeLabel.ofBits x.1, x.2)) = .ok (s', a')) :
    ∀ k, s'.getRec k ≠ s.begin.getRec k →
      ∃ q, Part.RootK ((C01.newLeaves els (a.latestEpoch + 1)).foldl CRoot.insert1 t) q ∧ k = NodeLabel.ofBits q := by
  have hrepb : C01.ReprRoot c .directory s.begin t :=
    Pub.reprRoot_getRec_congr c _ s s.begin (Pub.getRec_begin s hidle.1 hidle.2) t hrep
  obtain ⟨s'', n, t', hrun, _, hwf', hperm, hchg⟩ :=
    batchInsert_rootK c hc .directory s.begin a t ((C01.reprRoot_iff c _ _ t).1 hrepb) hwf hep els hpf hlen
  have hrun' : s.begin.batchInsert c .directory a (els.map fun x => (NodeLabel.ofBits x.1, x.2))
      = .ok (s'', ⟨a.latestEpoch + 1, n⟩) := hrun
  rw [hrun'] at hins
  cases hins
  obtain ⟨fw, fp⟩ := C01.foldl_insert1_spec t hwf els (a.latestEpoch + 1) hpf hlen
  have ht' : t' = (C01.newLeaves els (a.latestEpoch + 1)).foldl CRoot.insert1 t :=
    C01.wf_unique _ _ hwf' fw (hperm.trans fp.symm)
  rw [← ht']
  exact hchg

end Akd.LagK
