/- helper lemmas for `Thm/C02b.lean` (batch lookup = per-label lookup) -/
import AkdModel.Batch
namespace Akd
namespace Dir

/-! ## `List.mapM` in the `Except` monad -/

theorem mapM_ok_iff {ε α β : Type} (f : α → Except ε β) (us : List α) (rs : List β) :
    us.mapM f = .ok rs ↔
      rs.length = us.length ∧ ∀ i (hi : i < us.length) (hj : i < rs.length), f us[i] = .ok rs[i] := by
  induction us generalizing rs with
  | nil =>
    simp only [List.mapM_nil, pure, Except.pure, List.length_nil]
    constructor
    · intro h
      injection h with h
      subst h
      exact ⟨rfl, fun i hi => absurd hi (Nat.not_lt_zero i)⟩
    · rintro ⟨h, -⟩
      rw [List.length_eq_zero_iff.1 h]
  | cons a as ih =>
    simp only [List.mapM_cons, bind, Except.bind, pure, Except.pure]
    cases hfa : f a with
    | error e =>
      simp only []
      constructor
      · intro h; cases h
      · rintro ⟨hl, hall⟩
        cases rs with
        | nil => simp at hl
        | cons r rs' =>
          have := hall 0 (by simp) (by simp)
          simp only [List.getElem_cons_zero] at this
          rw [hfa] at this
          cases this
    | ok b =>
      simp only []
      cases hm : as.mapM f with
      | error e =>
        simp only []
        constructor
        · intro h; cases h
        · rintro ⟨hl, hall⟩
          cases rs with
          | nil => simp at hl
          | cons r rs' =>
            have h2 : as.mapM f = .ok rs' := by
              rw [ih rs']
              refine ⟨by simpa using hl, fun i hi hj => ?_⟩
              have := hall (i + 1) (by simpa using hi) (by simpa using hj)
              simpa only [List.getElem_cons_succ] using this
            rw [hm] at h2
            cases h2
      | ok bs =>
        simp only []
        have ih' := (ih bs).1 hm
        constructor
        · intro h
          injection h with h
          subst h
          refine ⟨by simp [ih'.1], fun i hi hj => ?_⟩
          cases i with
          | zero => simpa only [List.getElem_cons_zero] using hfa
          | succ i =>
            simp only [List.getElem_cons_succ]
            exact ih'.2 i (by simpa using hi) (by simpa using hj)
        · rintro ⟨hl, hall⟩
          cases rs with
          | nil => simp at hl
          | cons r rs' =>
            have h0 := hall 0 (by simp) (by simp)
            simp only [List.getElem_cons_zero] at h0
            rw [hfa] at h0
            injection h0 with h0
            have h2 : as.mapM f = .ok rs' := by
              rw [ih rs']
              refine ⟨by simpa using hl, fun i hi hj => ?_⟩
              have := hall (i + 1) (by simpa using hi) (by simpa using hj)
              simpa only [List.getElem_cons_succ] using this
            rw [hm] at h2
            injection h2 with h2
            rw [h0, h2]

theorem mapM_ok_of_forall {ε α β : Type} (f : α → Except ε β) (us : List α)
    (h : ∀ u ∈ us, ∃ r, f u = .ok r) : ∃ rs, us.mapM f = .ok rs := by
  induction us with
  | nil => exact ⟨[], rfl⟩
  | cons a as ih =>
    obtain ⟨r, hr⟩ := h a (by simp)
    obtain ⟨rs, hrs⟩ := ih (fun u hu => h u (by simp [hu]))
    refine ⟨r :: rs, ?_⟩
    simp only [List.mapM_cons, bind, Except.bind, pure, Except.pure, hr, hrs]

/-! ## the single lookup in terms of the pieces of the batch lookup -/

/-- `lookup` = lookup info, then root hash, then `lookupWithInfo` (same order of effects) -/
theorem lookup_eq (c : Cfg) (d : Dir) (u : Bytes) :
    d.lookup c u =
      match d.azks with
      | none => .error .notFound
      | some azks =>
        match d.lookupInfo azks.latestEpoch u with
        | .error e => .error e
        | .ok i =>
          match liftT (d.nodes.rootHash c azks) with
          | .error e => .error e
          | .ok h =>
            match d.lookupWithInfo c azks u i with
            | .error e => .error e
            | .ok π => .ok (π, azks.latestEpoch, h) := by
  unfold Dir.lookup Dir.lookupInfo
  cases d.azks with
  | none => rfl
  | some azks =>
    simp only [bind, Except.bind, pure, Except.pure, throw, throwThe, MonadExceptOf.throw]
    cases d.stateLeq u azks.latestEpoch with
    | none => rfl
    | some st =>
      simp only []
      cases d.vrfLabel u true st.version with
      | error e => rfl
      | ok le =>
        simp only []
        cases d.vrfLabel u true (markerVersion st.version) with
        | error e => rfl
        | ok lm =>
          simp only []
          cases d.vrfLabel u false st.version with
          | error e => rfl
          | ok ln =>
            simp only []
            cases liftT (d.nodes.rootHash c azks) with
            | error e => rfl
            | ok h =>
              simp only [Dir.lookupWithInfo, bind, Except.bind, pure, Except.pure]
              cases liftT (d.nodes.membershipProof c azks le) with
              | error e => rfl
              | ok pe =>
                simp only []
                cases liftT (d.nodes.membershipProof c azks lm) with
                | error e => rfl
                | ok pm =>
                  simp only []
                  cases liftT (d.nodes.nonMembershipProof c azks ln) with
                  | error e => rfl
                  | ok pn => rfl

/-- characterisation of a successful single lookup -/
theorem lookup_ok_iff (c : Cfg) (d : Dir) (u : Bytes) (π : LookupProof) (e : Nat) (h : Dig) :
    d.lookup c u = .ok (π, e, h) ↔
      ∃ azks i, d.azks = some azks ∧ e = azks.latestEpoch ∧ d.lookupInfo azks.latestEpoch u = .ok i ∧
        liftT (d.nodes.rootHash c azks) = .ok h ∧ d.lookupWithInfo c azks u i = .ok π := by
  rw [lookup_eq]
  cases hz : d.azks with
  | none =>
    simp only []
    constructor
    · intro h; cases h
    · rintro ⟨azks, i, h, -⟩; cases h
  | some azks =>
    simp only []
    cases hi : d.lookupInfo azks.latestEpoch u with
    | error e' =>
      simp only []
      constructor
      · intro h; cases h
      · rintro ⟨azks', i, h, -, h2, -⟩
        injection h with h
        subst h
        rw [hi] at h2
        cases h2
    | ok i =>
      simp only []
      cases hh : liftT (d.nodes.rootHash c azks) with
      | error e' =>
        simp only []
        constructor
        · intro h; cases h
        · rintro ⟨azks', i', h, -, -, h2, -⟩
          injection h with h
          subst h
          rw [hh] at h2
          cases h2
      | ok h' =>
        simp only []
        cases hp : d.lookupWithInfo c azks u i with
        | error e' =>
          simp only []
          constructor
          · intro h; cases h
          · rintro ⟨azks', i', h, -, h1, -, h2⟩
            injection h with h
            subst h
            rw [hi] at h1
            injection h1 with h1
            subst h1
            rw [hp] at h2
            cases h2
        | ok π' =>
          simp only []
          constructor
          · intro h
            injection h with h
            injection h with h1 h2
            injection h2 with h2 h3
            subst h1 h2 h3
            exact ⟨azks, i, rfl, rfl, hi, hh, hp⟩
          · rintro ⟨azks', i', h, he, h1, h2, h3⟩
            injection h with h
            subst h
            rw [hi] at h1
            injection h1 with h1
            subst h1
            rw [hh] at h2
            injection h2 with h2
            rw [hp] at h3
            injection h3 with h3
            rw [he, h2, h3]

/-! ## the batch lookup -/

/-- the function mapped over the labels in `batchLookup` -/
theorem infoPair_ok_iff (d : Dir) (cur : Nat) (u : Bytes) (r : Bytes × LookupInfo) :
    (do let i ← d.lookupInfo cur u; pure (u, i) : Except DErr (Bytes × LookupInfo)) = .ok r ↔
      r.1 = u ∧ d.lookupInfo cur u = .ok r.2 := by
  simp only [bind, Except.bind, pure, Except.pure]
  cases d.lookupInfo cur u with
  | error e =>
    simp only []
    constructor
    · intro h; cases h
    · rintro ⟨-, h⟩; cases h
  | ok i =>
    simp only []
    constructor
    · intro h
      injection h with h
      subst h
      exact ⟨rfl, rfl⟩
    · rintro ⟨h1, h2⟩
      injection h2 with h2
      obtain ⟨a, b⟩ := r
      simp only at h1 h2
      rw [h1, h2]

/-- `batchLookup` as a chain of matches -/
theorem batchLookup_eq (c : Cfg) (d : Dir) (us : List Bytes) :
    d.batchLookup c us =
      match d.azks with
      | none => .error .notFound
      | some azks =>
        match us.mapM (fun u => (do let i ← d.lookupInfo azks.latestEpoch u; pure (u, i) :
            Except DErr (Bytes × LookupInfo))) with
        | .error e => .error e
        | .ok infos =>
          match liftT (d.nodes.rootHash c azks) with
          | .error e => .error e
          | .ok h =>
            match infos.mapM (fun (u, i) => d.lookupWithInfo c azks u i) with
            | .error e => .error e
            | .ok ps => .ok (ps, azks.latestEpoch, h) := by
  unfold Dir.batchLookup
  cases d.azks with
  | none => rfl
  | some azks =>
    simp only [bind, Except.bind, pure, Except.pure]
    generalize (List.mapM _ us : Except DErr (List (Bytes × LookupInfo))) = x
    cases x with
    | error e => rfl
    | ok infos =>
      dsimp only
      generalize liftT _ = y
      cases y with
      | error e => rfl
      | ok h =>
        dsimp only
        generalize (List.mapM _ infos : Except DErr (List LookupProof)) = z
        cases z with
        | error e => rfl
        | ok ps => rfl

/-- characterisation of a successful batch lookup -/
theorem batchLookup_ok_iff (c : Cfg) (d : Dir) (us : List Bytes) (ps : List LookupProof) (e : Nat) (h : Dig) :
    d.batchLookup c us = .ok (ps, e, h) ↔
      ∃ azks infos, d.azks = some azks ∧ e = azks.latestEpoch ∧
        us.mapM (fun u => (do let i ← d.lookupInfo azks.latestEpoch u; pure (u, i) :
          Except DErr (Bytes × LookupInfo))) = .ok infos ∧
        liftT (d.nodes.rootHash c azks) = .ok h ∧
        infos.mapM (fun (u, i) => d.lookupWithInfo c azks u i) = .ok ps := by
  rw [batchLookup_eq]
  cases hz : d.azks with
  | none =>
    constructor
    · intro h; cases h
    · rintro ⟨azks, i, h, -⟩; cases h
  | some azks =>
    dsimp only
    cases hi : us.mapM (fun u => (do let i ← d.lookupInfo azks.latestEpoch u; pure (u, i) :
          Except DErr (Bytes × LookupInfo))) with
    | error e' =>
      dsimp only
      constructor
      · intro h; cases h
      · rintro ⟨azks', i, h, -, h2, -⟩
        injection h with h
        subst h
        rw [hi] at h2
        cases h2
    | ok infos =>
      dsimp only
      cases hh : liftT (d.nodes.rootHash c azks) with
      | error e' =>
        dsimp only
        constructor
        · intro h; cases h
        · rintro ⟨azks', i', h, -, -, h2, -⟩
          injection h with h
          subst h
          rw [hh] at h2
          cases h2
      | ok h' =>
        dsimp only
        cases hp : infos.mapM (fun (u, i) => d.lookupWithInfo c azks u i) with
        | error e' =>
          dsimp only
          constructor
          · intro h; cases h
          · rintro ⟨azks', i', h, -, h1, -, h2⟩
            injection h with h
            subst h
            rw [hi] at h1
            injection h1 with h1
            subst h1
            rw [hp] at h2
            cases h2
        | ok ps' =>
          dsimp only
          constructor
          · intro h
            injection h with h
            injection h with h1 h2
            injection h2 with h2 h3
            subst h1 h2 h3
            exact ⟨azks, infos, rfl, rfl, hi, hh, hp⟩
          · rintro ⟨azks', i', h, he, h1, h2, h3⟩
            injection h with h
            subst h
            rw [hi] at h1
            injection h1 with h1
            subst h1
            rw [hh] at h2
            injection h2 with h2
            rw [hp] at h3
            injection h3 with h3
            rw [he, h2, h3]

end Dir
end Akd
