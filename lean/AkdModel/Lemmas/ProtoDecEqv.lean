/-
C19 helper lemmas: the typed conversions `dec*` respect equality up to representation (`WireEqv`).
-/
import AkdModel.Lemmas.ProtoWire
namespace Akd.Proto

theorem ListRel_cases {α β : Type} {R : α → β → Prop} {a : List α} {b : List β} (h : ListRel R a b) :
    (a = [] ∧ b = []) ∨ ∃ x xs y ys, a = x :: xs ∧ b = y :: ys ∧ R x y ∧ ListRel R xs ys := by
  cases a with
  | nil => cases b with
    | nil => exact Or.inl ⟨rfl, rfl⟩
    | cons y ys => exact h.elim
  | cons x xs => cases b with
    | nil => exact h.elim
    | cons y ys => exact Or.inr ⟨x, xs, y, ys, rfl, rfl, h.1, h.2⟩

theorem ValEqv_cases {E : PMsg → PMsg → Prop} {x y : PVal} (h : ValEqvWith E x y) :
    (∃ b, x = .bytes b ∧ y = .bytes b) ∨ (∃ n, x = .num n ∧ y = .num n) ∨
      ∃ s t, x = .msg s ∧ y = .msg t ∧ E s t := by
  cases x <;> cases y <;> simp only [ValEqvWith] at h
  · subst h; exact Or.inl ⟨_, rfl, rfl⟩
  · subst h; exact Or.inr (Or.inl ⟨_, rfl, rfl⟩)
  · exact Or.inr (Or.inr ⟨_, _, rfl, rfl, h⟩)

variable {E : PMsg → PMsg → Prop}

theorem rel_reqBytes {a b : PMsg} {n : Nat} (h : ListRel (ValEqvWith E) (a.get n) (b.get n)) :
    reqBytes a n = reqBytes b n := by
  unfold reqBytes
  rcases ListRel_cases h with ⟨e1, e2⟩ | ⟨x, xs, y, ys, e1, e2, hxy, hr⟩
  · rw [e1, e2]
  · rw [e1, e2]
    rcases ListRel_cases hr with ⟨f1, f2⟩ | ⟨x2, xs2, y2, ys2, f1, f2, _, _⟩
    · subst f1 f2
      rcases ValEqv_cases hxy with ⟨b, rfl, rfl⟩ | ⟨n, rfl, rfl⟩ | ⟨s, t, rfl, rfl, _⟩ <;> rfl
    · subst f1 f2
      cases x <;> cases y <;> rfl

theorem rel_reqNum {a b : PMsg} {n : Nat} (h : ListRel (ValEqvWith E) (a.get n) (b.get n)) :
    reqNum a n = reqNum b n := by
  unfold reqNum
  rcases ListRel_cases h with ⟨e1, e2⟩ | ⟨x, xs, y, ys, e1, e2, hxy, hr⟩
  · rw [e1, e2]
  · rw [e1, e2]
    rcases ListRel_cases hr with ⟨f1, f2⟩ | ⟨x2, xs2, y2, ys2, f1, f2, _, _⟩
    · subst f1 f2
      rcases ValEqv_cases hxy with ⟨b, rfl, rfl⟩ | ⟨n, rfl, rfl⟩ | ⟨s, t, rfl, rfl, _⟩ <;> rfl
    · subst f1 f2
      cases x <;> cases y <;> rfl

theorem rel_optBytes {a b : PMsg} {n : Nat} (h : ListRel (ValEqvWith E) (a.get n) (b.get n)) :
    optBytes a n = optBytes b n := by
  unfold optBytes
  rcases ListRel_cases h with ⟨e1, e2⟩ | ⟨x, xs, y, ys, e1, e2, hxy, hr⟩
  · rw [e1, e2]
  · rw [e1, e2]
    rcases ListRel_cases hr with ⟨f1, f2⟩ | ⟨x2, xs2, y2, ys2, f1, f2, _, _⟩
    · subst f1 f2
      rcases ValEqv_cases hxy with ⟨b, rfl, rfl⟩ | ⟨n, rfl, rfl⟩ | ⟨s, t, rfl, rfl, _⟩ <;> rfl
    · subst f1 f2
      cases x <;> cases y <;> rfl

theorem rel_reqMsg {a b : PMsg} {n : Nat} (h : ListRel (ValEqvWith E) (a.get n) (b.get n)) :
    (reqMsg a n = none ∧ reqMsg b n = none) ∨ ∃ s t, reqMsg a n = some s ∧ reqMsg b n = some t ∧ E s t := by
  unfold reqMsg
  rcases ListRel_cases h with ⟨e1, e2⟩ | ⟨x, xs, y, ys, e1, e2, hxy, hr⟩
  · rw [e1, e2]; exact Or.inl ⟨rfl, rfl⟩
  · rw [e1, e2]
    rcases ListRel_cases hr with ⟨f1, f2⟩ | ⟨x2, xs2, y2, ys2, f1, f2, _, _⟩
    · subst f1 f2
      rcases ValEqv_cases hxy with ⟨b, rfl, rfl⟩ | ⟨n, rfl, rfl⟩ | ⟨s, t, rfl, rfl, hE⟩
      · exact Or.inl ⟨rfl, rfl⟩
      · exact Or.inl ⟨rfl, rfl⟩
      · exact Or.inr ⟨s, t, rfl, rfl, hE⟩
    · subst f1 f2
      left
      cases x <;> cases y <;> exact ⟨rfl, rfl⟩

theorem rel_bytesOf {a b : List PVal} (h : ListRel (ValEqvWith E) a b) : bytesOf a = bytesOf b := by
  induction a generalizing b with
  | nil => cases b with
    | nil => rfl
    | cons y ys => exact h.elim
  | cons x xs ih => cases b with
    | nil => exact h.elim
    | cons y ys =>
      have := ih h.2
      unfold bytesOf at this ⊢
      rcases ValEqv_cases h.1 with ⟨b, rfl, rfl⟩ | ⟨n, rfl, rfl⟩ | ⟨s, t, rfl, rfl, hE⟩ <;>
        simp [List.mapM_cons, this]

theorem rel_numsOf {a b : List PVal} (h : ListRel (ValEqvWith E) a b) : numsOf a = numsOf b := by
  induction a generalizing b with
  | nil => cases b with
    | nil => rfl
    | cons y ys => exact h.elim
  | cons x xs ih => cases b with
    | nil => exact h.elim
    | cons y ys =>
      have := ih h.2
      unfold numsOf at this ⊢
      rcases ValEqv_cases h.1 with ⟨b, rfl, rfl⟩ | ⟨n, rfl, rfl⟩ | ⟨s, t, rfl, rfl, hE⟩ <;>
        simp [List.mapM_cons, this]

theorem rel_msgsOf {a b : List PVal} (h : ListRel (ValEqvWith E) a b) :
    (msgsOf a = none ∧ msgsOf b = none) ∨ ∃ l l', msgsOf a = some l ∧ msgsOf b = some l' ∧ ListRel E l l' := by
  induction a generalizing b with
  | nil => cases b with
    | nil => exact Or.inr ⟨[], [], rfl, rfl, trivial⟩
    | cons y ys => exact h.elim
  | cons x xs ih => cases b with
    | nil => exact h.elim
    | cons y ys =>
      have := ih h.2
      unfold msgsOf at this ⊢
      rcases ValEqv_cases h.1 with ⟨b, rfl, rfl⟩ | ⟨n, rfl, rfl⟩ | ⟨s, t, rfl, rfl, hE⟩
      · left; simp [List.mapM_cons]
      · left; simp [List.mapM_cons]
      · rcases this with ⟨e1, e2⟩ | ⟨l, l', e1, e2, hr⟩
        · left; simp [List.mapM_cons, e1, e2]
        · right; exact ⟨s :: l, t :: l', by simp [List.mapM_cons, e1], by simp [List.mapM_cons, e2], hE, hr⟩

theorem rel_mapM {γ : Type} (D : PMsg → Option γ) (hD : ∀ s t, E s t → D s = D t) {l l' : List PMsg}
    (h : ListRel E l l') : l.mapM D = l'.mapM D := by
  induction l generalizing l' with
  | nil => cases l' with
    | nil => rfl
    | cons y ys => exact h.elim
  | cons x xs ih => cases l' with
    | nil => exact h.elim
    | cons y ys => simp [List.mapM_cons, hD x y h.1, ih h.2]


/-! ### the conversions only look at `get`, recursively -/

theorem decLabel_congr : ∀ d a b, WireEqv d a b → decLabel a = decLabel b
  | 0, _, _, h => h.elim
  | d + 1, a, b, h => by
    unfold decLabel
    rw [rel_reqNum (h 2), rel_reqBytes (h 1)]

theorem decElement_congr : ∀ d a b, WireEqv d a b → decElement a = decElement b
  | 0, _, _, h => h.elim
  | d + 1, a, b, h => by
    unfold decElement
    rw [rel_reqBytes (h 2)]
    rcases rel_reqMsg (h 1) with ⟨e1, e2⟩ | ⟨s, t, e1, e2, hE⟩
    · simp [e1, e2]
    · simp [e1, e2, decLabel_congr d s t hE]

theorem rel_head? {l l' : List PMsg} (h : ListRel E l l') :
    (l.head? = none ∧ l'.head? = none) ∨ ∃ s t, l.head? = some s ∧ l'.head? = some t ∧ E s t := by
  rcases ListRel_cases h with ⟨e1, e2⟩ | ⟨x, xs, y, ys, e1, e2, hxy, _⟩
  · subst e1 e2; exact Or.inl ⟨rfl, rfl⟩
  · subst e1 e2; exact Or.inr ⟨x, y, rfl, rfl, hxy⟩

theorem decSibling_congr : ∀ d a b, WireEqv d a b → decSibling a = decSibling b
  | 0, _, _, h => h.elim
  | d + 1, a, b, h => by
    unfold decSibling
    rw [rel_reqNum (h 3)]
    rcases rel_reqMsg (h 1) with ⟨e1, e2⟩ | ⟨s, t, e1, e2, hE⟩
    · simp [e1, e2]
    · rcases rel_msgsOf (h 2) with ⟨f1, f2⟩ | ⟨l, l', f1, f2, hr⟩
      · simp [e1, e2, f1, f2]
      · rcases rel_head? hr with ⟨g1, g2⟩ | ⟨x, y, g1, g2, hxy⟩
        · simp [e1, e2, f1, f2, g1, g2]
        · simp [e1, e2, f1, f2, g1, g2, decLabel_congr d s t hE, decElement_congr d x y hxy]

theorem decMembership_congr : ∀ d a b, WireEqv d a b → decMembership a = decMembership b
  | 0, _, _, h => h.elim
  | d + 1, a, b, h => by
    unfold decMembership
    rw [rel_reqBytes (h 2)]
    rcases rel_reqMsg (h 1) with ⟨e1, e2⟩ | ⟨s, t, e1, e2, hE⟩
    · simp [e1, e2]
    · rcases rel_msgsOf (h 3) with ⟨f1, f2⟩ | ⟨l, l', f1, f2, hr⟩
      · simp [e1, e2, f1, f2]
      · simp [e1, e2, f1, f2, decLabel_congr d s t hE, rel_mapM decSibling (decSibling_congr d) hr]

theorem decNonMembership_congr : ∀ d a b, WireEqv d a b → decNonMembership a = decNonMembership b
  | 0, _, _, h => h.elim
  | d + 1, a, b, h => by
    unfold decNonMembership
    rcases rel_reqMsg (h 1) with ⟨e1, e2⟩ | ⟨s, t, e1, e2, hE⟩
    · simp [e1, e2]
    · rcases rel_reqMsg (h 2) with ⟨f1, f2⟩ | ⟨s2, t2, f1, f2, hE2⟩
      · simp [e1, e2, f1, f2]
      · rcases rel_reqMsg (h 4) with ⟨g1, g2⟩ | ⟨s4, t4, g1, g2, hE4⟩
        · simp [e1, e2, f1, f2, g1, g2]
        · rcases rel_msgsOf (h 3) with ⟨k1, k2⟩ | ⟨l, l', k1, k2, hr⟩
          · simp [e1, e2, f1, f2, g1, g2, k1, k2]
          · simp [e1, e2, f1, f2, g1, g2, k1, k2, decLabel_congr d s t hE, decLabel_congr d s2 t2 hE2,
              decMembership_congr d s4 t4 hE4, rel_mapM decElement (decElement_congr d) hr]

theorem decLookup_congr : ∀ d a b, WireEqv d a b → decLookup a = decLookup b
  | 0, _, _, h => h.elim
  | d + 1, a, b, h => by
    unfold decLookup
    rw [rel_reqNum (h 1), rel_reqBytes (h 2), rel_reqNum (h 3), rel_reqBytes (h 4), rel_reqBytes (h 6),
      rel_reqBytes (h 8), rel_reqBytes (h 10)]
    rcases rel_reqMsg (h 5) with ⟨e1, e2⟩ | ⟨s, t, e1, e2, hE⟩
    · simp [e1, e2]
    · rcases rel_reqMsg (h 7) with ⟨f1, f2⟩ | ⟨s2, t2, f1, f2, hE2⟩
      · simp [e1, e2, f1, f2]
      · rcases rel_reqMsg (h 9) with ⟨g1, g2⟩ | ⟨s4, t4, g1, g2, hE4⟩
        · simp [e1, e2, f1, f2, g1, g2]
        · simp [e1, e2, f1, f2, g1, g2, decMembership_congr d s t hE, decMembership_congr d s2 t2 hE2,
            decNonMembership_congr d s4 t4 hE4]


theorem decUpdate_congr : ∀ d a b, WireEqv d a b → decUpdate a = decUpdate b
  | 0, _, _, h => h.elim
  | d + 1, a, b, h => by
    unfold decUpdate
    rw [rel_reqNum (h 1), rel_reqBytes (h 2), rel_reqNum (h 3), rel_reqBytes (h 4), rel_reqBytes (h 8),
      rel_optBytes (h 6)]
    rcases rel_reqMsg (h 5) with ⟨e1, e2⟩ | ⟨s, t, e1, e2, hE⟩
    · simp [e1, e2]
    · simp only [e1, e2, Option.bind_eq_bind, Option.bind_some, decMembership_congr d s t hE]
      rcases ListRel_cases (h 7) with ⟨e1, e2⟩ | ⟨x, xs, y, ys, e1, e2, hxy, hr⟩
      · rw [e1, e2]
      · rw [e1, e2]
        rcases ListRel_cases hr with ⟨f1, f2⟩ | ⟨x2, xs2, y2, ys2, f1, f2, _, _⟩
        · subst f1 f2
          rcases ValEqv_cases hxy with ⟨b, rfl, rfl⟩ | ⟨n, rfl, rfl⟩ | ⟨s, t, rfl, rfl, hE⟩
          · rfl
          · rfl
          · simp only [decMembership_congr d s t hE]
        · subst f1 f2
          cases x <;> cases y <;> rfl

theorem decHistory_congr : ∀ d a b, WireEqv d a b → decHistory a = decHistory b
  | 0, _, _, h => h.elim
  | d + 1, a, b, h => by
    unfold decHistory
    rw [rel_bytesOf (h 2), rel_bytesOf (h 4)]
    rcases rel_msgsOf (h 1) with ⟨e1, e2⟩ | ⟨l1, l1', e1, e2, hr1⟩
    · simp [e1, e2]
    · rcases rel_msgsOf (h 3) with ⟨f1, f2⟩ | ⟨l3, l3', f1, f2, hr3⟩
      · simp [e1, e2, f1, f2]
      · rcases rel_msgsOf (h 5) with ⟨g1, g2⟩ | ⟨l5, l5', g1, g2, hr5⟩
        · simp [e1, e2, f1, f2, g1, g2]
        · simp [e1, e2, f1, f2, g1, g2, rel_mapM decUpdate (decUpdate_congr d) hr1,
            rel_mapM decMembership (decMembership_congr d) hr3,
            rel_mapM decNonMembership (decNonMembership_congr d) hr5]

theorem decSingle_congr : ∀ d a b, WireEqv d a b → decSingle a = decSingle b
  | 0, _, _, h => h.elim
  | d + 1, a, b, h => by
    unfold decSingle
    rcases rel_msgsOf (h 1) with ⟨e1, e2⟩ | ⟨l1, l1', e1, e2, hr1⟩
    · simp [e1, e2]
    · rcases rel_msgsOf (h 2) with ⟨f1, f2⟩ | ⟨l3, l3', f1, f2, hr3⟩
      · simp [e1, e2, f1, f2]
      · simp [e1, e2, f1, f2, rel_mapM decElement (decElement_congr d) hr1,
            rel_mapM decElement (decElement_congr d) hr3]

theorem decAppendOnly_congr : ∀ d a b, WireEqv d a b → decAppendOnly a = decAppendOnly b
  | 0, _, _, h => h.elim
  | d + 1, a, b, h => by
    unfold decAppendOnly
    rw [rel_numsOf (h 2)]
    rcases rel_msgsOf (h 1) with ⟨e1, e2⟩ | ⟨l1, l1', e1, e2, hr1⟩
    · simp [e1, e2]
    · simp [e1, e2, rel_mapM decSingle (decSingle_congr d) hr1]

end Akd.Proto
