/-
Helper lemmas for C08 (arithmetic of marker versions).
-/
import AkdModel.Marker
namespace Akd.Marker
end Akd.Marker
