/-
Helper lemmas for C08 (arithmetic of marker versions).

Closed-form membership characterisations of `past?`, `futureFills`, `futurePowers`,
the skip-list slice and `future?`, and the key combinatorial lemma `exists_future_past`.
-/
import AkdModel.Marker
namespace Akd.Marker

/-! ## `pushDedup` and the fold of `past?` -/

theorem mem_pushDedup {acc : List Nat} {v x : Nat} : x ∈ pushDedup acc v ↔ x ∈ acc ∨ x = v := by
  unfold pushDedup
  cases h : acc.getLast? with
  | none => simp
  | some l =>
    simp only
    split
    · simp
    · rename_i hv
      have hv : v = l := by simpa using hv
      subst hv
      have : v ∈ acc := List.mem_of_getLast? h
      constructor
      · intro hx; exact Or.inl hx
      · rintro (hx | hx)
        · exact hx
        · subst hx; exact this

theorem mem_foldl_pushDedup (c1 c2 : Nat → Prop) [DecidablePred c1] [DecidablePred c2] (g : Nat → Nat)
    (l : List Nat) (init : List Nat) (x : Nat) :
    x ∈ l.foldl (fun acc i => if c1 i then (if c2 i then pushDedup acc (g i) else acc) else acc) init ↔
      x ∈ init ∨ ∃ i ∈ l, c1 i ∧ c2 i ∧ x = g i := by
  induction l generalizing init with
  | nil => simp
  | cons a l ih =>
    rw [List.foldl_cons, ih]
    by_cases h1 : c1 a <;> by_cases h2 : c2 a <;> simp [h1, h2, mem_pushDedup, or_assoc] 

theorem and_two_pow_eq_zero_iff (x i : Nat) : x &&& 2 ^ i = 0 ↔ x / 2 ^ i % 2 = 0 := by
  have h1 : x.testBit i = decide (x / 2 ^ i % 2 = 1) := Nat.testBit_eq_decide_div_mod_eq
  constructor
  · intro h
    have : (x &&& 2 ^ i).testBit i = false := by rw [h]; simp
    rw [Nat.testBit_and, Nat.testBit_two_pow_self, Bool.and_true, h1] at this
    simp at this; omega
  · intro h
    apply Nat.eq_of_testBit_eq
    intro j
    rw [Nat.testBit_and, Nat.testBit_two_pow]
    by_cases hj : i = j
    · subst hj; simp [h1, h]
    · simp [hj]

theorem or_one_of_even (a : Nat) (h : a % 2 = 0) : a ||| 1 = a + 1 := by
  have h1 : (a ||| 1) / 2 = a / 2 := by rw [Nat.or_div_two]; simp
  have h2 : (a ||| 1) % 2 = 1 := by rw [Nat.or_mod_two_eq_one]; simp
  omega

/-- index of the largest skip-list element `≤ x` -/
def maxIdx (x : Nat) : Nat := (skiplist.takeWhile (· ≤ x)).length - 1
/-- the largest skip-list element `≤ x` (for `1 ≤ x`) -/
def skFloor (x : Nat) : Nat := skiplist.getD (maxIdx x) 0

theorem findMaxIndex?_eq {x : Nat} (h : 1 ≤ x) : findMaxIndex? x = some (maxIdx x) := by
  simp [findMaxIndex?, maxIdx]; omega

theorem log2?_eq {x : Nat} (h : 1 ≤ x) : log2? x = some (Nat.log2 x) := by
  simp [log2?]; omega

theorem mem_past {s x : Nat} (hs : 1 ≤ s) :
    x ∈ (past? s).getD [] ↔
      (x = skFloor s ∧ x ≠ s) ∨ (x = 2 ^ Nat.log2 s ∧ x ≠ s) ∨
      ∃ i, i < bitLength s ∧ s / 2 ^ i % 2 = 1 ∧ x = s / 2 ^ (i+1) * 2 ^ (i+1) ∧ x ≠ 0 := by
  simp only [past?, findMaxIndex?_eq hs, log2?_eq hs, Option.bind_eq_bind, Option.bind_some, Option.pure_def, Option.getD_some]
  rw [mem_foldl_pushDedup]
  simp only [Nat.one_shiftLeft]
  simp only [Nat.shiftRight_eq_div_pow, Nat.shiftLeft_eq, ne_eq, and_two_pow_eq_zero_iff,
    List.mem_reverse, List.mem_range, skFloor]
  have e : ∀ i, (¬ s / 2 ^ i % 2 = 0) ↔ s / 2 ^ i % 2 = 1 := by intro i; omega
  simp only [e]
  generalize skiplist.getD (maxIdx s) 0 = k
  generalize 2 ^ s.log2 = p
  have e2 : ∀ i, (¬ s / 2 ^ (i+1) * 2 ^ (i+1) = 0 ∧ x = s / 2 ^ (i+1) * 2 ^ (i+1)) ↔
      (x = s / 2 ^ (i+1) * 2 ^ (i+1) ∧ ¬ x = 0) := by
    intro i; constructor
    · rintro ⟨a, b⟩; exact ⟨b, b ▸ a⟩
    · rintro ⟨a, b⟩; exact ⟨a ▸ b, a⟩
  simp only [e2]
  generalize (∃ i, i < bitLength s ∧ s / 2 ^ i % 2 = 1 ∧ x = s / 2 ^ (i + 1) * 2 ^ (i + 1) ∧ ¬x = 0) = Q
  by_cases h1 : p = s <;> by_cases h2 : k = s <;> simp [h1, h2, mem_pushDedup] <;> grind

/-! ## the skip list -/


theorem maxIdx_cases (x : Nat) (h : 1 ≤ x) :
    (x < 2 ∧ maxIdx x = 0) ∨ (2 ≤ x ∧ x < 4 ∧ maxIdx x = 1) ∨ (4 ≤ x ∧ x < 16 ∧ maxIdx x = 2) ∨
    (16 ≤ x ∧ x < 256 ∧ maxIdx x = 3) ∨ (256 ≤ x ∧ x < 65536 ∧ maxIdx x = 4) ∨
    (65536 ≤ x ∧ x < 4294967296 ∧ maxIdx x = 5) ∨ (4294967296 ≤ x ∧ maxIdx x = 6) := by
  unfold maxIdx skiplist
  simp only [List.takeWhile]
  repeat' split
  all_goals simp_all
  all_goals omega

theorem skFloor_spec (t : Nat) (h : 1 ≤ t) :
    skFloor t ∈ skiplist ∧ skFloor t ≤ t ∧ ∀ k ∈ skiplist, k ≤ t → k ≤ skFloor t := by
  unfold skFloor
  rcases maxIdx_cases t h with h | h | h | h | h | h | h <;>
    simp [h, skiplist] <;> omega

theorem maxIdx_mono {n E : Nat} (hn : 1 ≤ n) (h : n ≤ E) : maxIdx n ≤ maxIdx E := by
  rcases maxIdx_cases n hn with h1 | h1 | h1 | h1 | h1 | h1 | h1 <;>
  rcases maxIdx_cases E (by omega) with h2 | h2 | h2 | h2 | h2 | h2 | h2 <;> omega

/-- the skip-list slice appended by `future?` -/
def slice (n E : Nat) : List Nat := (skiplist.drop (maxIdx n + 1)).take (maxIdx E - maxIdx n)

/-- the slice is exactly the skip-list elements in `(n, E]` (also when `E < n`: both sides empty) -/
theorem mem_slice {n E x : Nat} (hn : 1 ≤ n) (hE : 1 ≤ E) :
    x ∈ slice n E ↔ x ∈ skiplist ∧ n < x ∧ x ≤ E := by
  unfold slice
  rcases maxIdx_cases n hn with h1 | h1 | h1 | h1 | h1 | h1 | h1 <;>
  rcases maxIdx_cases E hE with h2 | h2 | h2 | h2 | h2 | h2 | h2 <;>
  (simp [h1, h2, skiplist]; omega)

/-! ## `futureFills` -/

/-- the loop body of `futureFills` -/
def fillStep (n E : Nat) (st : Nat × List Nat) (i : Nat) : Nat × List Nat :=
  if n &&& 2 ^ i = 0 then
    (((st.1 ||| 2 ^ i) / 2 ^ i) * 2 ^ i,
      if ((st.1 ||| 2 ^ i) / 2 ^ i) * 2 ^ i ≤ E then st.2 ++ [((st.1 ||| 2 ^ i) / 2 ^ i) * 2 ^ i] else st.2)
  else st

theorem futureFills_eq (n E : Nat) :
    futureFills n E = ((List.range (bitLength n)).foldl (fillStep n E) (n, [])).2 := by
  unfold futureFills fillStep
  simp only [Nat.one_shiftLeft]
  simp only [Nat.shiftRight_eq_div_pow, Nat.shiftLeft_eq]

theorem fillStep_inv (n E k : Nat) :
    ((List.range k).foldl (fillStep n E) (n, [])).1 / 2 ^ k = n / 2 ^ k ∧
    ∀ x, x ∈ ((List.range k).foldl (fillStep n E) (n, [])).2 ↔
      ∃ i, i < k ∧ n / 2 ^ i % 2 = 0 ∧ x = (n / 2 ^ i + 1) * 2 ^ i ∧ x ≤ E := by
  induction k with
  | zero => simp
  | succ k ih =>
    rw [List.range_succ, List.foldl_append]
    generalize (List.range k).foldl (fillStep n E) (n, []) = st at ih ⊢
    obtain ⟨ih1, ih2⟩ := ih
    simp only [List.foldl_cons, List.foldl_nil]
    have hdiv : ∀ a : Nat, a / 2 ^ (k+1) = a / 2 ^ k / 2 := by
      intro a; rw [Nat.pow_succ, Nat.div_div_eq_div_mul]
    unfold fillStep
    by_cases hb : n / 2 ^ k % 2 = 0
    · have hb' : n &&& 2 ^ k = 0 := (and_two_pow_eq_zero_iff n k).2 hb
      simp only [hb', if_true]
      have hv : (st.1 ||| 2 ^ k) / 2 ^ k = n / 2 ^ k + 1 := by
        rw [Nat.or_div_two_pow, ih1, Nat.div_self (Nat.two_pow_pos k), or_one_of_even _ hb]
      rw [hv]
      constructor
      · rw [hdiv, Nat.mul_div_cancel _ (Nat.two_pow_pos k), hdiv]; omega
      · intro x
        have hmem : x ∈ (if (n / 2 ^ k + 1) * 2 ^ k ≤ E then st.2 ++ [(n / 2 ^ k + 1) * 2 ^ k] else st.2) ↔
            x ∈ st.2 ∨ (x = (n / 2 ^ k + 1) * 2 ^ k ∧ x ≤ E) := by
          split
          · rename_i hle
            simp only [List.mem_append, List.mem_singleton]
            constructor
            · rintro (h | h)
              · exact Or.inl h
              · exact Or.inr ⟨h, h ▸ hle⟩
            · rintro (h | h)
              · exact Or.inl h
              · exact Or.inr h.1
          · rename_i hle
            constructor
            · intro h; exact Or.inl h
            · rintro (h | ⟨h, h'⟩)
              · exact h
              · exact absurd (h ▸ h') hle
        rw [hmem, ih2]
        constructor
        · rintro (⟨i, hi, h⟩ | h)
          · exact ⟨i, by omega, h⟩
          · exact ⟨k, by omega, hb, h⟩
        · rintro ⟨i, hi, h⟩
          by_cases hik : i = k
          · subst hik; exact Or.inr h.2
          · exact Or.inl ⟨i, by omega, h⟩
    · have hb' : ¬ n &&& 2 ^ k = 0 := fun h => hb ((and_two_pow_eq_zero_iff n k).1 h)
      simp only [hb', if_false]
      constructor
      · rw [hdiv, hdiv, ih1]
      · intro x
        rw [ih2]
        constructor
        · rintro ⟨i, hi, h⟩; exact ⟨i, by omega, h⟩
        · rintro ⟨i, hi, h⟩
          have : i ≠ k := by rintro rfl; exact hb h.1
          exact ⟨i, by omega, h⟩

/-! ## `futurePowers` -/

/-- the loop body of `futurePowers` -/
def powStep (oh : Option Nat) (next : Nat) (st : Bool × List Nat) (k : Nat) : Bool × List Nat :=
  if st.1 then st else
    match oh with
    | some h => if 2 ^ (next + k) ≥ h then (true, st.2) else (false, st.2 ++ [2 ^ (next + k)])
    | none => (false, st.2 ++ [2 ^ (next + k)])

theorem futurePowers_eq (slice : List Nat) (next final : Nat) :
    futurePowers slice next final =
      ((List.range (final + 1 - next)).foldl (powStep slice.head? next) (false, [])).2 := by
  unfold futurePowers powStep
  simp only [Nat.one_shiftLeft]
  rfl

theorem powStep_inv (oh : Option Nat) (next c : Nat) :
    ((((List.range c).foldl (powStep oh next) (false, [])).1 = true →
        ∃ h, oh = some h ∧ ∃ k, k < c ∧ h ≤ 2 ^ (next + k))) ∧
    ∀ x, x ∈ ((List.range c).foldl (powStep oh next) (false, [])).2 ↔
      ∃ k, k < c ∧ x = 2 ^ (next + k) ∧ ∀ h, oh = some h → 2 ^ (next + k) < h := by
  induction c with
  | zero => simp
  | succ c ih =>
    rw [List.range_succ, List.foldl_append]
    generalize (List.range c).foldl (powStep oh next) (false, []) = st at ih ⊢
    obtain ⟨ih1, ih2⟩ := ih
    simp only [List.foldl_cons, List.foldl_nil]
    have ext : ∀ x, (∃ k, k < c + 1 ∧ x = 2 ^ (next + k) ∧ ∀ h, oh = some h → 2 ^ (next + k) < h) ↔
        (∃ k, k < c ∧ x = 2 ^ (next + k) ∧ ∀ h, oh = some h → 2 ^ (next + k) < h) ∨
        (x = 2 ^ (next + c) ∧ ∀ h, oh = some h → 2 ^ (next + c) < h) := by
      intro x
      constructor
      · rintro ⟨k, hk, h⟩
        by_cases hkc : k = c
        · subst hkc; exact Or.inr h
        · exact Or.inl ⟨k, by omega, h⟩
      · rintro (⟨k, hk, h⟩ | h)
        · exact ⟨k, by omega, h⟩
        · exact ⟨c, by omega, h⟩
    unfold powStep
    cases hb : st.1 with
    | true =>
      simp only [if_true]
      obtain ⟨h, hh, k, hk, hle⟩ := ih1 hb
      refine ⟨fun _ => ⟨h, hh, k, by omega, hle⟩, ?_⟩
      intro x
      rw [ext, ih2]
      constructor
      · exact Or.inl
      · rintro (h1 | ⟨_, h2⟩)
        · exact h1
        · have := h2 h hh
          have : 2 ^ (next + k) ≤ 2 ^ (next + c) := Nat.pow_le_pow_right (by omega) (by omega)
          omega
    | false =>
      simp only [Bool.false_eq_true, if_false]
      match oh with
      | none =>
        simp only [Bool.false_eq_true, false_implies, true_and]
        intro x
        rw [ext, List.mem_append, ih2]
        simp
      | some h =>
        simp only
        split
        · rename_i hge
          refine ⟨fun _ => ⟨h, rfl, c, by omega, hge⟩, ?_⟩
          intro x
          rw [ext, ih2]
          constructor
          · exact Or.inl
          · rintro (h1 | ⟨_, h2⟩)
            · exact h1
            · have := h2 h rfl; omega
        · rename_i hlt
          simp only [Bool.false_eq_true, false_implies, true_and]
          intro x
          rw [ext, List.mem_append, ih2]
          have hlt' : 2 ^ (next + c) < h := by omega
          simp [hlt']

/-! ## arithmetic -/

theorem div_pow_succ (a k : Nat) : a / 2 ^ (k + 1) = a / 2 ^ k / 2 := by
  rw [Nat.pow_succ, Nat.div_div_eq_div_mul]

/-- highest differing bit of `n < t` -/
theorem exists_split_bit (n t : Nat) (h : n < t) :
    ∃ i, n / 2 ^ i % 2 = 0 ∧ t / 2 ^ i = n / 2 ^ i + 1 := by
  have aux : ∀ k, n / 2 ^ k = t / 2 ^ k → ∃ i, n / 2 ^ i % 2 = 0 ∧ t / 2 ^ i = n / 2 ^ i + 1 := by
    intro k
    induction k with
    | zero => intro h0; simp at h0; omega
    | succ k ih =>
      intro hk
      by_cases hk' : n / 2 ^ k = t / 2 ^ k
      · exact ih hk'
      · refine ⟨k, ?_⟩
        rw [div_pow_succ, div_pow_succ] at hk
        have : n / 2 ^ k ≤ t / 2 ^ k := Nat.div_le_div_right (by omega)
        omega
  apply aux t
  rw [Nat.div_eq_of_lt (Nat.lt_trans h Nat.lt_two_pow_self), Nat.div_eq_of_lt Nat.lt_two_pow_self]

theorem lt_succ_div_mul (n i : Nat) : n < (n / 2 ^ i + 1) * 2 ^ i := by
  have := Nat.lt_mul_div_succ n (Nat.two_pow_pos i)
  rwa [Nat.mul_comm] at this

/-- rounding `t` down at any bit is either `t` or a one-bit clear of `t` -/
theorem round_down_is_clear (t k : Nat) (h : t / 2 ^ k * 2 ^ k ≠ t) :
    ∃ j, j < k ∧ t / 2 ^ j % 2 = 1 ∧ t / 2 ^ (j + 1) * 2 ^ (j + 1) = t / 2 ^ k * 2 ^ k := by
  induction k with
  | zero => simp at h
  | succ k ih =>
    by_cases hb : t / 2 ^ k % 2 = 1
    · exact ⟨k, by omega, hb, rfl⟩
    · have e : t / 2 ^ (k + 1) * 2 ^ (k + 1) = t / 2 ^ k * 2 ^ k := by
        rw [div_pow_succ, Nat.pow_succ, Nat.mul_comm (2 ^ k) 2, ← Nat.mul_assoc]
        congr 1
        omega
      rw [e] at h ⊢
      obtain ⟨j, hj, h1, h2⟩ := ih h
      exact ⟨j, by omega, h1, h2⟩

theorem pow_le_of_div_pos {t j : Nat} (h : 0 < t / 2 ^ j) : 2 ^ j ≤ t := by
  have := Nat.div_mul_le_self t (2 ^ j)
  have : 1 * 2 ^ j ≤ t / 2 ^ j * 2 ^ j := Nat.mul_le_mul_right _ h
  omega

/-! ## closed forms -/

theorem bitLength_eq {n : Nat} (hn : 1 ≤ n) : bitLength n = Nat.log2 n + 1 := by
  simp [bitLength]; omega

theorem mem_futureFills {n E x : Nat} :
    x ∈ futureFills n E ↔
      ∃ i, i < bitLength n ∧ n / 2 ^ i % 2 = 0 ∧ x = (n / 2 ^ i + 1) * 2 ^ i ∧ x ≤ E := by
  rw [futureFills_eq]; exact (fillStep_inv n E (bitLength n)).2 x

theorem mem_futurePowers {slice : List Nat} {next final x : Nat} :
    x ∈ futurePowers slice next final ↔
      ∃ j, next ≤ j ∧ j ≤ final ∧ x = 2 ^ j ∧ ∀ h, slice.head? = some h → 2 ^ j < h := by
  rw [futurePowers_eq, (powStep_inv slice.head? next (final + 1 - next)).2 x]
  constructor
  · rintro ⟨k, hk, h⟩; exact ⟨next + k, by omega, by omega, h⟩
  · rintro ⟨j, h1, h2, h⟩
    refine ⟨j - next, by omega, ?_⟩
    rwa [show next + (j - next) = j by omega]

theorem future?_eq' {n E : Nat} (hn : 1 ≤ n) (hE : 1 ≤ E) :
    future? n E = if maxIdx n > maxIdx E then none else some (futureFills n E ++
      futurePowers (slice n E) (Nat.log2 n + 1) (Nat.log2 E) ++ slice n E) := by
  simp only [future?, findMaxIndex?_eq hn, findMaxIndex?_eq hE, log2?_eq hn, log2?_eq hE,
    Option.bind_eq_bind, Option.bind_some, Option.pure_def, slice]
  split <;> rfl

theorem future?_eq {n E : Nat} (hn : 1 ≤ n) (h : n ≤ E) :
    future? n E = some (futureFills n E ++
      futurePowers (slice n E) (Nat.log2 n + 1) (Nat.log2 E) ++ slice n E) := by
  have hE : 1 ≤ E := by omega
  have hm : ¬ maxIdx n > maxIdx E := by have := maxIdx_mono hn h; omega
  rw [future?_eq' hn hE, if_neg hm]

theorem past?_isSome {s : Nat} (hs : 1 ≤ s) : (past? s).isSome = true := by
  simp only [past?, findMaxIndex?_eq hs, log2?_eq hs, Option.bind_eq_bind, Option.bind_some,
    Option.pure_def, Option.isSome_some]

/-- `future?` panics on `endV = 0` (also on `epoch = 0`, or when `endV`'s skip-list index is above
`epoch`'s, see `future?_eq'`). -/
theorem future?_eq_none_of_zero (E : Nat) : future? 0 E = none := by
  simp [future?, findMaxIndex?]

theorem mem_future {n E x : Nat} (hn : 1 ≤ n) (h : n ≤ E) :
    x ∈ (future? n E).getD [] ↔
      x ∈ futureFills n E ∨ x ∈ futurePowers (slice n E) (Nat.log2 n + 1) (Nat.log2 E) ∨
        x ∈ slice n E := by
  rw [future?_eq hn h]; simp

/-! ## bounds -/

theorem past?_zero : past? 0 = none := by simp [past?, findMaxIndex?]

theorem clear_lt {s i : Nat} (h : s / 2 ^ i % 2 = 1) : s / 2 ^ (i + 1) * 2 ^ (i + 1) < s := by
  have e : s / 2 ^ (i + 1) * 2 ^ (i + 1) = (s / 2 ^ i / 2 * 2) * 2 ^ i := by
    rw [div_pow_succ, Nat.pow_succ, Nat.mul_comm (2 ^ i) 2, ← Nat.mul_assoc]
  have h2 : s / 2 ^ i / 2 * 2 + 1 = s / 2 ^ i := by
    generalize s / 2 ^ i = q at h; omega
  have h3 : (s / 2 ^ i / 2 * 2 + 1) * 2 ^ i ≤ s := by rw [h2]; exact Nat.div_mul_le_self _ _
  rw [Nat.add_mul] at h3
  have := Nat.two_pow_pos i
  omega

theorem past_bounds {s x : Nat} (h : x ∈ (past? s).getD []) : 1 ≤ x ∧ x < s := by
  by_cases hs : 1 ≤ s
  · rw [mem_past hs] at h
    rcases h with ⟨rfl, hne⟩ | ⟨rfl, hne⟩ | ⟨i, _, hb, rfl, hne⟩
    · obtain ⟨s1, s2, _⟩ := skFloor_spec s hs
      have : 1 ≤ skFloor s := by
        revert s1; generalize skFloor s = k; simp [skiplist]; omega
      omega
    · have := Nat.log2_self_le (show s ≠ 0 by omega)
      have := Nat.two_pow_pos s.log2
      omega
    · exact ⟨by omega, clear_lt hb⟩
  · have : s = 0 := by omega
    subst this
    simp [past?_zero] at h

theorem future_bounds {n E x : Nat} (h : x ∈ (future? n E).getD []) : n < x ∧ x ≤ E := by
  by_cases hn : 1 ≤ n
  · by_cases hE : 1 ≤ E
    · rw [future?_eq' hn hE] at h
      split at h
      · simp at h
      · simp only [Option.getD_some, List.mem_append] at h
        rcases h with (h | h) | h
        · rw [mem_futureFills] at h
          obtain ⟨i, _, _, rfl, hle⟩ := h
          exact ⟨lt_succ_div_mul n i, hle⟩
        · rw [mem_futurePowers] at h
          obtain ⟨j, h1, h2, rfl, _⟩ := h
          constructor
          · exact (Nat.log2_lt (show n ≠ 0 by omega)).1 (by omega)
          · exact (Nat.le_log2 (show E ≠ 0 by omega)).1 h2
        · rw [mem_slice hn hE] at h
          exact h.2
    · have : E = 0 := by omega
      subst this
      simp [future?, findMaxIndex?] at h
  · have : n = 0 := by omega
    subst this
    simp [future?, findMaxIndex?] at h

/-! ## the key lemma -/

/-- For `1 ≤ n < t ≤ E` some future marker of `n` (up to `E`) is `t` itself or a past marker
of `t`. -/
theorem exists_future_past {n t E : Nat} (hn : 1 ≤ n) (hnt : n < t) (htE : t ≤ E) :
    ∃ x, x ∈ (future? n E).getD [] ∧ (x = t ∨ x ∈ (past? t).getD []) := by
  have ht : 1 ≤ t := by omega
  have hnE : n ≤ E := by omega
  by_cases hk : ∃ k, k ∈ skiplist ∧ n < k ∧ k ≤ t
  · -- a skip-list element separates `n` and `t`
    obtain ⟨k, hk1, hk2, hk3⟩ := hk
    obtain ⟨s1, s2, s3⟩ := skFloor_spec t ht
    have := s3 k hk1 hk3
    refine ⟨skFloor t, ?_, ?_⟩
    · rw [mem_future hn hnE, mem_slice hn (by omega)]
      exact Or.inr (Or.inr ⟨s1, by omega, by omega⟩)
    · by_cases he : skFloor t = t
      · exact Or.inl he
      · exact Or.inr ((mem_past ht).2 (Or.inl ⟨rfl, he⟩))
  · -- no skip-list element in `(n, t]`: round at the highest differing bit
    obtain ⟨i, hi0, hi1⟩ := exists_split_bit n t hnt
    refine ⟨(n / 2 ^ i + 1) * 2 ^ i, ?_, ?_⟩
    · have hle : (n / 2 ^ i + 1) * 2 ^ i ≤ t := by rw [← hi1]; exact Nat.div_mul_le_self _ _
      rw [mem_future hn hnE]
      by_cases hz : n / 2 ^ i = 0
      · refine Or.inr (Or.inl ?_)
        rw [hz] at hle ⊢
        simp only [Nat.zero_add, Nat.one_mul] at hle ⊢
        rw [mem_futurePowers]
        have hlt : n < 2 ^ i := by
          have := lt_succ_div_mul n i; rw [hz] at this; simpa using this
        refine ⟨i, ?_, ?_, rfl, ?_⟩
        · have := (Nat.log2_lt (show n ≠ 0 by omega)).2 hlt; omega
        · exact (Nat.le_log2 (show E ≠ 0 by omega)).2 (by omega)
        · intro h hh
          have hmem : h ∈ slice n E := List.mem_of_head? hh
          rw [mem_slice hn (by omega)] at hmem
          have : ¬ h ≤ t := fun hc => hk ⟨h, hmem.1, hmem.2.1, hc⟩
          omega
      · refine Or.inl ?_
        rw [mem_futureFills]
        refine ⟨i, ?_, hi0, rfl, by omega⟩
        rw [bitLength_eq hn]
        have := (Nat.le_log2 (show n ≠ 0 by omega)).2 (pow_le_of_div_pos (Nat.pos_of_ne_zero hz))
        omega
    · rw [← hi1]
      by_cases he : t / 2 ^ i * 2 ^ i = t
      · exact Or.inl he
      · refine Or.inr ((mem_past ht).2 (Or.inr (Or.inr ?_)))
        obtain ⟨j, hj, h1, h2⟩ := round_down_is_clear t i he
        refine ⟨j, ?_, h1, h2.symm, ?_⟩
        · rw [bitLength_eq ht]
          have := (Nat.le_log2 (show t ≠ 0 by omega)).2 (pow_le_of_div_pos (show 0 < t / 2 ^ j by
            generalize t / 2 ^ j = q at h1; omega))
          omega
        · have := lt_succ_div_mul n i
          rw [hi1]; omega

end Akd.Marker
