/-
Key history, part 3 (verification): the honest history proof over a tree that is honest for the
label (`C06.HonestFor`) is accepted by `Verify.history`, in both modes, with the expected result.
-/
import AkdModel.Lemmas.GenHistoryGen
namespace Akd.Gen
open Akd

theorem verifyAll_ok {α β γ} (f : α → β × γ → Except VErr Unit) (g1 : α → β) (g2 : α → γ) :
    ∀ l : List α, (∀ x ∈ l, f x (g1 x, g2 x) = .ok ()) →
      Verify.verifyAll f l ((l.map g1).zip (l.map g2)) = .ok ()
  | [], _ => rfl
  | a :: l, h => by
    simp only [List.map_cons, List.zip_cons_cons, Verify.verifyAll, h a List.mem_cons_self]
    exact verifyAll_ok f g1 g2 l (fun x hx => h x (List.mem_cons_of_mem _ hx))

theorem verifyUpdates_honest (c : Cfg) (vrf : VrfTable) (root : Dig) (u : Bytes) (allow : Bool)
    (f : Spec.Ver → UpdateProof) (hf : ∀ v, (f v).epoch = v.epoch) :
    ∀ (l : List Spec.Ver) (prev : Option Nat),
      (∀ v ∈ l, Verify.singleUpdate c vrf root u allow (f v) = .ok (C07.resultOf v)) →
      l.Pairwise (fun a b => a.epoch > b.epoch) → (∀ pe, prev = some pe → ∀ v ∈ l, v.epoch ≤ pe) →
      Verify.verifyUpdates c vrf root u allow prev (l.map f) = .ok (l.map C07.resultOf)
  | [], _, _, _, _ => rfl
  | a :: l, prev, h, hp, hprev => by
    have ih := verifyUpdates_honest c vrf root u allow f hf l (some (f a).epoch)
      (fun v hv => h v (List.mem_cons_of_mem _ hv)) hp.of_cons
      (fun pe hpe v hv => by
        cases hpe
        rw [hf]
        exact Nat.le_of_lt (List.rel_of_pairwise_cons hp hv))
    cases prev with
    | none =>
      simp only [List.map_cons, Verify.verifyUpdates, h a List.mem_cons_self, ih, Bool.false_eq_true, if_false]
    | some pe =>
      have : ¬ (f a).epoch > pe := by
        have := hprev pe rfl a List.mem_cons_self
        rw [hf]; omega
      simp only [List.map_cons, Verify.verifyUpdates, h a List.mem_cons_self, ih, this, decide_false,
        Bool.false_eq_true, if_false]

theorem withHistoryParams_honest (E L : Nat) (π : HistoryProof) (p : HistoryParams) (past future : List Nat)
    (hD : DescFrom L (π.updates.map (·.version))) (hLE : L ≤ E)
    (hparams : π.updates.length = match p with
      | .complete => L
      | .mostRecent r => min r L)
    (hm : Marker.markers? (L + 1 - π.updates.length) L E = some (past, future))
    (h1 : past.length = π.pastVrf.length) (h2 : π.pastVrf.length = π.past.length)
    (h3 : future.length = π.futureVrf.length) (h4 : π.futureVrf.length = π.future.length) :
    Verify.withHistoryParams E π p = .ok (past, future) := by
  unfold Verify.withHistoryParams
  have hcons := hD.consecutive
  have hk1 := hD.pos
  have hkL := hD.le
  cases hvs : π.updates.map (·.version) with
  | nil => rw [hvs] at hk1; simp at hk1
  | cons v0 rest =>
    rw [hvs] at hD hcons
    obtain ⟨hmin, hmax⟩ := hD.min_max
    have hlen : (v0 :: rest).length = π.updates.length := by rw [← hvs, List.length_map]
    rw [hlen] at hmin
    rw [List.length_map] at hk1 hkL
    have hs0 : L + 1 - π.updates.length ≠ 0 := by omega
    cases p with
    | complete =>
      simp only at hparams
      have hst : (L + 1 - π.updates.length == 1) = true := by rw [hparams]; simp
      simp only [hcons, hmin, hmax, hs0, Nat.not_lt.2 hLE, hst, hm, h1, h2, h3, h4, Bool.not_true, Bool.false_eq_true,
        if_false, ne_eq, not_true_eq_false]
    | mostRecent r =>
      simp only at hparams
      have hgt : ¬ π.updates.length > r := by omega
      by_cases hlt : π.updates.length < r
      · have hst : (L + 1 - π.updates.length == 1) = true := by
          have : π.updates.length = L := by omega
          rw [this]; simp
        simp only [hcons, hmin, hmax, hs0, Nat.not_lt.2 hLE, hgt, hlt, hst, hm, h1, h2, h3, h4, Bool.not_true,
          Bool.false_eq_true, if_false, if_true, ne_eq, not_true_eq_false]
      · simp only [hcons, hmin, hmax, hs0, Nat.not_lt.2 hLE, hgt, hlt, hm, h1, h2, h3, h4, Bool.not_true,
          Bool.false_eq_true, if_false, ne_eq, not_true_eq_false]

section
variable {c : Cfg} {key : Dig} {vrf : VrfTable} {t : CRoot} {u : Bytes} {vs : List Spec.Ver}

/-- existence of the fresh leaf of a version, through the generated proof -/
theorem fresh_existence (hv : C06.VrfOK vrf) (hwf : t.WF) (hon : C06.HonestFor c key vrf t u vs)
    (v : Spec.Ver) (hmem : v ∈ vs) :
    (t.genMembership c (lab vrf u true v.version).bits).hashVal
        = c.leafHash (c.commit v.value (c.nonce key (lab vrf u true v.version) v.version v.value)) v.epoch ∧
    Verify.existence c vrf (t.rootHash c) u true v.version (some ⟨u, true, v.version⟩)
      (t.genMembership c (lab vrf u true v.version).bits) = .ok () := by
  obtain ⟨l, hl, hleaf⟩ := hon.fresh_present v hmem
  have he := C05.membership_complete_leaf c t hwf _ hleaf
  simp only at he
  rw [Pub.ofBits_bits_256 l (hv.len _ _ hl)] at he
  have hve := C05.membership_complete c t l.bits
  rw [lab_eq hl]
  refine ⟨he.2, ?_⟩
  simp [Verify.existence, Verify.verifyLabel, he.1, hl, hve]

/-- existence of the stale leaf of the version before `v`, stamped with `v`'s epoch -/
theorem stale_existence (hv : C06.VrfOK vrf) (hwf : t.WF) (hon : C06.HonestFor c key vrf t u vs)
    (v : Spec.Ver) (hmem : v ∈ vs) (hgt : v.version > 1)
    (hsome : (vrf.get? ⟨u, false, v.version - 1⟩).isSome) :
    Verify.existenceWithCommitment c vrf (t.rootHash c) u c.staleValue v.epoch false (v.version - 1)
      (some ⟨u, false, v.version - 1⟩) (t.genMembership c (lab vrf u false (v.version - 1)).bits) = .ok () := by
  obtain ⟨l, hl⟩ := Option.isSome_iff_exists.1 hsome
  obtain ⟨lf, hlf, hlbl⟩ := (hon.stale_iff (v.version - 1) l (by omega) hl).2 ⟨v, hmem, by omega⟩
  obtain ⟨hval, w, hw, hwv, hwe⟩ := hon.stale_stamp (v.version - 1) l lf (by omega) hl hlf hlbl
  have : w = v := hon.versions.unique hw hmem (by omega)
  subst this
  have he := C05.membership_complete_leaf c t hwf _ hlf
  rw [hlbl, Pub.ofBits_bits_256 l (hv.len _ _ hl), hval, hwe] at he
  have hve := C05.membership_complete c t l.bits
  rw [lab_eq hl]
  simp [Verify.existenceWithCommitment, Verify.existence, Verify.verifyLabel, he.1, he.2, hl, hve]

theorem honestUpdate_verifies (hv : C06.VrfOK vrf) (hwf : t.WF) (hon : C06.HonestFor c key vrf t u vs)
    (v : Spec.Ver) (hmem : v ∈ vs)
    (hsome : v.version > 1 → (vrf.get? ⟨u, false, v.version - 1⟩).isSome) (allow : Bool) :
    Verify.singleUpdate c vrf (t.rootHash c) u allow (honestUpdate c key vrf t u v) = .ok (C07.resultOf v) := by
  obtain ⟨h1, h2⟩ := fresh_existence hv hwf hon v hmem
  have h3 : Verify.existenceWithVal c vrf (t.rootHash c) u v.value v.epoch
      (c.nonce key (lab vrf u true v.version) v.version v.value) true v.version (some ⟨u, true, v.version⟩)
      (t.genMembership c (lab vrf u true v.version).bits) = .ok () := by
    simp only [Verify.existenceWithVal, h1, ne_eq, not_true_eq_false, if_false, h2]
  unfold Verify.singleUpdate honestUpdate
  by_cases hgt : v.version > 1
  · have h4 := stale_existence hv hwf hon v hmem hgt (hsome hgt)
    have hle : ¬ v.version ≤ 1 := by omega
    simp only [h2, h3, ite_self, hgt, hle, if_true, h4, C07.resultOf]
  · have hle : v.version ≤ 1 := by omega
    simp only [h2, h3, ite_self, hle, if_true, C07.resultOf]


/-- a past marker version is one of the label's versions: its fresh leaf is shown present -/
theorem past_existence (hv : C06.VrfOK vrf) (hwf : t.WF) (hon : C06.HonestFor c key vrf t u vs)
    (x : Nat) (h1 : 1 ≤ x) (h2 : x ≤ vs.length) :
    Verify.existence c vrf (t.rootHash c) u true x (some ⟨u, true, x⟩)
      (t.genMembership c (lab vrf u true x).bits) = .ok () := by
  have hi : x - 1 < vs.length := by omega
  have hver : (vs[x - 1]).version = x := by rw [hon.versions.1 _ hi]; omega
  have := (fresh_existence hv hwf hon (vs[x - 1]) (List.getElem_mem hi)).2
  rwa [hver] at this

/-- a future marker version is beyond the label's versions: its fresh label is shown absent -/
theorem future_nonexistence (hc : c.Lawful) (hfresh : C05.EmptyLabelFresh c) (hv : C06.VrfOK vrf) (hwf : t.WF)
    (h256 : C05.Leaves256 t) (hon : C06.HonestFor c key vrf t u vs) (hne : vs ≠ [])
    (x : Nat) (hx : vs.length < x) (hsome : (vrf.get? ⟨u, true, x⟩).isSome) :
    Verify.nonexistence c vrf (t.rootHash c) u true x (some ⟨u, true, x⟩)
      (t.genNonMembership c (lab vrf u true x).bits) = .ok () := by
  obtain ⟨l, hl⟩ := Option.isSome_iff_exists.1 hsome
  have hnot : ∀ lf ∈ t.leaves, lf.lbl ≠ l.bits := by
    intro lf hlf hlb
    obtain ⟨w, hw, hwv, -⟩ := hon.fresh_only x l lf hl hlf hlb
    have := (Pub.versOK_version_le hon.versions hw).2
    omega
  have htne : t ≠ CRoot.empty := by
    intro h
    cases hvs : vs with
    | nil => exact hne hvs
    | cons v _ =>
      obtain ⟨l', -, hleaf⟩ := hon.fresh_present v (by rw [hvs]; exact List.mem_cons_self)
      rw [h] at hleaf
      simp [CRoot.empty, CRoot.leaves] at hleaf
  have hn := C05.nonmembership_complete c hc hfresh t hwf h256 htne l.bits
    (Pub.bits_length_256 l (hv.len _ _ hl)) hnot
  have hnl : (t.genNonMembership c l.bits).label = l := by
    rw [genNonMembership_label, Pub.ofBits_bits_256 l (hv.len _ _ hl)]
  rw [lab_eq hl]
  simp [Verify.nonexistence, Verify.verifyLabel, hnl, hl, hn]

/-- **the honest history proof is accepted**, strictly and with missing values allowed, and verifies
to the expected entries -/
theorem honestHistory_verifies (hc : c.Lawful) (hfresh : C05.EmptyLabelFresh c) (hv : C06.VrfOK vrf) (hwf : t.WF)
    (h256 : C05.Leaves256 t) (hon : C06.HonestFor c key vrf t u vs) (hne : vs ≠ [])
    (E : Nat) (hE : vs.length ≤ E)
    (htot : ∀ f x, 1 ≤ x → x ≤ E → (vrf.get? ⟨u, f, x⟩).isSome)
    (p : HistoryParams) (hp : ∀ n, p = .mostRecent n → 1 ≤ n) (allow : Bool)
    (past future : List Nat)
    (hm : Marker.markers? (vs.length + 1 - (C07.expected vs p).length) vs.length E = some (past, future)) :
    Verify.history c vrf (t.rootHash c) E u (honestHistory c key vrf t u (C07.expected vs p) past future) p allow
      = .ok ((C07.expected vs p).map C07.resultOf) := by
  have hV : Pub.VersOK vs := hon.versions
  have hD := expected_descFrom vs hV hne p hp
  obtain ⟨hpb, hfb⟩ := markers_bounds hm
  have hkL : (C07.expected vs p).length ≤ vs.length := by have := hD.le; rwa [List.length_map] at this
  have hk1 : 1 ≤ (C07.expected vs p).length := by have := hD.pos; rwa [List.length_map] at this
  -- parameters and markers
  have hw : Verify.withHistoryParams E (honestHistory c key vrf t u (C07.expected vs p) past future) p
      = .ok (past, future) := by
    apply withHistoryParams_honest E vs.length _ p past future
    · simp only [honestHistory, List.map_map]
      exact hD
    · exact hE
    · simp only [honestHistory, List.length_map]
      exact C07.expected_length vs p
    · simp only [honestHistory, List.length_map]
      exact hm
    all_goals simp only [honestHistory, List.length_map]
  -- the update proofs
  have hu : Verify.verifyUpdates c vrf (t.rootHash c) u allow none
      ((C07.expected vs p).map (honestUpdate c key vrf t u)) = .ok ((C07.expected vs p).map C07.resultOf) := by
    apply verifyUpdates_honest c vrf (t.rootHash c) u allow _ (fun _ => rfl) _ none
    · intro v hvm
      have hvm' := expected_mem vs p hvm
      have hb := Pub.versOK_version_le hV hvm'
      exact honestUpdate_verifies hv hwf hon v hvm' (fun hgt => htot false _ (by omega) (by omega)) allow
    · exact expected_sorted vs hV p
    · intro pe hpe; cases hpe
  -- past and future markers
  have hpast : Verify.verifyAll (fun (x : Nat) (y : VrfProof × MembershipProof) =>
        Verify.existence c vrf (t.rootHash c) u true x y.1 y.2) past
      ((past.map (fun x => (some ⟨u, true, x⟩ : VrfProof))).zip
        (past.map (fun x => t.genMembership c (lab vrf u true x).bits))) = .ok () := by
    apply verifyAll_ok
    intro x hx
    exact past_existence hv hwf hon x (hpb x hx).1 (by have := (hpb x hx).2; omega)
  unfold Verify.history
  rw [hw]
  simp only [honestHistory] at hu hpast ⊢
  simp only [hu, hpast]
  rw [verifyAll_ok _ _ _ future]
  intro x hx
  simp only [future_nonexistence hc hfresh hv hwf h256 hon hne x (hfb x hx).1
    (htot true x (by have := (hfb x hx).1; omega) (hfb x hx).2)]

end

end Akd.Gen
