/-
C11: the main induction of C01b (`Lemmas/InsertMain.lean`) replayed with the transaction invariant
`TI` threaded through: the specification `SpecP` of `insertRec` (that of `Ins.Spec`, plus: `TI` is
preserved, and a node reported as new has a label that did not exist before), one side of Phase 2,
Phases 2 and 3.
-/
import AkdModel.Lemmas.PartialInv
namespace Akd.Part
open Akd NodeLabel NodeStore
open Akd.Canon (Incomp)
open Akd.Ins

/-- the specification of `insertRec` at a given amount of fuel, with the transaction invariant -/
def SpecP (D : NodeMap) (K : BitStr → Prop) (c : Cfg) (m : InsertMode) (epoch fuel : Nat) : Prop :=
  ∀ (s : NodeStore) (pre : BitStr) (ot : Option CTree) (set : ElementSet Dig) (bs : List (BitStr × Dig)),
    257 ≤ fuel + pre.length → 1 ≤ pre.length →
    SetOK set → set.elems = bs.map enc → bs ≠ [] →
    (∀ b ∈ bs, pre <+: b.1 ∧ b.1.length ≤ 256) →
    (∀ t, ot = some t → Rep c m s t ∧ t.WF ∧ pre <+: t.lbl) →
    (∀ lf ∈ oleaves ot, LeafOK epoch lf) →
    (oleaves ot ++ newLeaves bs epoch).Pairwise Incomp →
    TI D epoch K s → GK K pre ot →
    ∃ s' n isNew num t',
      insertRec c m epoch fuel s (olbl ot) set = .ok (s', n, isNew, num) ∧
      NodeIs c m t' n ∧ RepKids c m s' t' ∧ t'.WF ∧ pre <+: t'.lbl ∧
      t'.leaves.Perm (oleaves ot ++ newLeaves bs epoch) ∧ Frame pre s s' ∧
      TI D epoch K s' ∧ (isNew = true → ¬ K t'.lbl)

/-- a write of a node that is new (label not pre-existing) or of the new epoch -/
theorem ti_child_write {D : NodeMap} {K : BitStr → Prop} {epoch : Nat}
    (hK : ∀ q, K q → q.length ≤ 256) (hD : DbAt D epoch K) (hep : 1 ≤ epoch)
    {s s' : NodeStore} (hs : TI D epoch K s) {n : TreeNode} {isNew : Bool} {q : BitStr}
    (hl : n.label = ofBits q) (hq : q.length ≤ 256) (hn : n.lastEpoch = epoch)
    (hnew : isNew = true → ¬ K q) (hw : s.writeNode n isNew = .ok s') : TI D epoch K s' := by
  cases isNew
  · exact ti_write_epoch hD hep hs hn hw
  · obtain ⟨p, hp⟩ := writeNode_ok s n true
    rw [hp] at hw
    cases hw
    apply ti_write_fresh hs
    intro q' hq' h
    have : q = q' := ofBits_inj hq (hK q' hq') (hl.symm.trans h)
    exact hnew rfl (this ▸ hq')

/-- one side of Phase 2 -/
theorem side_specP {D : NodeMap} {K : BitStr → Prop} (hK : ∀ q, K q → q.length ≤ 256)
    (c : Cfg) (m : InsertMode) (epoch fuel : Nat) (hep : 1 ≤ epoch) (hD : DbAt D epoch K)
    (hspec : SpecP D K c m epoch fuel)
    {p : BitStr} {ty : NodeType} {s : NodeStore} {cur : TreeNode} {ch : Bool → Option CTree} {done : Prop}
    (hst : St c m epoch p ty s cur ch done) (d : Bool) (num : Nat)
    (hfuel : 257 ≤ fuel + (p.length + 1))
    (sub : ElementSet Dig) (bsd : List (BitStr × Dig)) (hok : SetOK sub) (hel : sub.elems = bsd.map enc)
    (hbs : ∀ b ∈ bsd, (p ++ [d]) <+: b.1 ∧ b.1.length ≤ 256)
    (hpf : (oleaves (ch d) ++ newLeaves bsd epoch).Pairwise Incomp)
    (hti : TI D epoch K s) (hgk : GK K (p ++ [d]) (ch d)) :
    ∃ s' cur' num' ch', side (insertRec c m epoch fuel) (dir d) s cur num sub = .ok (s', cur', num') ∧
      St c m epoch p ty s' cur' ch' (done ∨ bsd ≠ []) ∧ (∀ b, b ≠ d → ch' b = ch b) ∧
      (oleaves (ch' d)).Perm (oleaves (ch d) ++ newLeaves bsd epoch) ∧
      (ch' d = none → ch d = none ∧ bsd = []) ∧ Frame (p ++ [d]) s s' ∧ TI D epoch K s' := by
  by_cases hne : bsd = []
  · subst hne
    refine ⟨s, cur, num, ch, ?_, hst.mono (fun h => h.elim id (fun h => absurd rfl h)), fun _ _ => rfl,
      by simp [newLeaves], fun h => ⟨h, rfl⟩, Frame.refl _ _, hti⟩
    unfold side
    rw [hel]; rfl
  · -- the recursive call
    obtain ⟨s1, n, isNew, lnum, t', hrec, hn, hkids, hwf, hpre, hperm, hfr, hti1, hnewK⟩ :=
      hspec s (p ++ [d]) (ch d) sub bsd (by simp; omega) (by simp) hok hel hne hbs
        (fun t ht => hst.kids d t ht) (hst.leafok d) hpf hti hgk
    have hlok : ∀ lf ∈ t'.leaves, LeafOK epoch lf :=
      leafOK_of_perm hep hperm (hst.leafok d) (fun b hb => (hbs b hb).2)
    have hlen : ∀ lf ∈ t'.leaves, lf.lbl.length ≤ 256 := fun lf h => (hlok lf h).2.2
    have hq : t'.lbl.length ≤ 256 := lbl_length_le t' hwf hlen
    -- a new leaf
    obtain ⟨b0, hb0⟩ := List.exists_mem_of_ne_nil bsd hne
    have hnew : (⟨b0.1, b0.2, epoch⟩ : Leaf) ∈ t'.leaves :=
      hperm.mem_iff.2 (List.mem_append_right _ (List.mem_map_of_mem hb0))
    have hmax : maxEp t' = epoch := maxEp_eq t' epoch (fun lf h => (hlok lf h).2.1) _ hnew rfl
    have hminle : minEp t' ≤ epoch := minEp_le t' _ hnew
    -- setChild
    obtain ⟨cur2, hsc, c1, c2, c3, c4, c5, c6⟩ :=
      setChild_spec cur n p t'.lbl d hst.label (nodeIs_label hn) hq hpre
    -- writeNode
    obtain ⟨pv, hw⟩ := writeNode_ok s1 { n with parent := cur.label } isNew
    have hti2 : TI D epoch K (s1.setRec ⟨n.label, { n with parent := cur.label }, pv⟩) :=
      ti_child_write hK hD hep hti1 (n := { n with parent := cur.label }) (nodeIs_label hn) hq
        ((nodeIs_lastEpoch hn).trans hmax) hnewK hw
    refine ⟨s1.setRec ⟨n.label, { n with parent := cur.label }, pv⟩, cur2, num + lnum,
      fun b => if b = d then some t' else ch b, ?_, ?_, ?_, ?_, ?_, ?_, hti2⟩
    · unfold side
      have hemp : sub.elems.isEmpty = false := by
        rw [hel]; cases bsd with
        | nil => exact absurd rfl hne
        | cons _ _ => rfl
      rw [hemp, childLabel_dir hst d, hrec]
      simp only [Bool.false_eq_true, if_false]
      rw [hsc]
      simp only
      rw [hw]
    · have hlast : cur2.lastEpoch = epoch := by
        rw [c5, nodeIs_lastEpoch hn, hmax]
        have := hst.last_le
        omega
      have hmin : cur2.minDescEpoch = oMin (if false = d then some t' else ch false)
          (if true = d then some t' else ch true) := by
        rw [c6, nodeIs_minDesc hn]
        apply min_step epoch hep d ch t' _ hst.min_inv hminle
        · intro b x hx
          obtain ⟨lf, h1, h2⟩ := minEp_mem x
          rw [← h2]
          exact (hst.leafok b lf (by simp [oleaves, hx, h1])).1
        · intro y hy
          apply minEp_mono
          intro lf h
          exact hperm.mem_iff.2 (List.mem_append_left _ (by simp [oleaves, hy, h]))
      refine ⟨c1.trans hst.label, c2.trans hst.type, ?_, ?_, by omega, fun _ => hlast, .inl hmin,
        fun _ => hmin, ?_, ?_⟩
      · rw [c3]
        cases d
        · simp [olbl, nodeIs_label hn]
        · simp [hst.left]
      · rw [c4]
        cases d
        · simp [hst.right]
        · simp [olbl, nodeIs_label hn]
      · intro b t hbt
        by_cases hbd : b = d
        · subst hbd
          simp only [if_true, Option.some.injEq] at hbt
          subst hbt
          exact ⟨rep_write t' hwf hlen { n with parent := cur.label } (nodeIs_parent hn cur.label) hkids pv,
            hwf, hpre⟩
        · simp only [hbd, if_false] at hbt
          obtain ⟨hr, hw', hp'⟩ := hst.kids b t hbt
          have hlent : ∀ lf ∈ t.leaves, lf.lbl.length ≤ 256 := fun lf h =>
            (hst.leafok b lf (by simp [oleaves, hbt, h])).2.2
          refine ⟨?_, hw', hp'⟩
          apply rep_setRec t hw' hlent t'.lbl hq
            (fun h => hbd (snoc_prefix_unique (hp'.trans h) hpre)) _ (nodeIs_label hn)
          exact rep_frame hfr t hw' hlent (fun x hx hx' => hbd (snoc_prefix_unique (hp'.trans hx) hx')) hr
      · intro b lf hlf
        by_cases hbd : b = d
        · subst hbd
          simp only [if_true, oleaves, Option.map_some, Option.getD_some] at hlf
          exact hlok lf hlf
        · simp only [hbd, if_false] at hlf
          exact hst.leafok b lf hlf
    · intro b hbd; simp [hbd]
    · simpa [oleaves] using hperm
    · intro h; simp at h
    · exact hfr.trans (frame_setRec (p ++ [d]) t'.lbl hq hpre _ _ (nodeIs_label hn))

/-- Phases 2 and 3 -/
theorem finishP {D : NodeMap} {K : BitStr → Prop} (hK : ∀ q, K q → q.length ≤ 256)
    (c : Cfg) (m : InsertMode) (epoch fuel : Nat) (hep : 1 ≤ epoch) (hD : DbAt D epoch K)
    (hspec : SpecP D K c m epoch fuel)
    {p : BitStr} {ty : NodeType} {s : NodeStore} {cur : TreeNode} {ch : Bool → Option CTree}
    (hst : St c m epoch p ty s cur ch False) (hty : ty ≠ .leaf)
    (hfuel : 257 ≤ fuel + (p.length + 1)) (isNew : Bool) (num : Nat)
    (set : ElementSet Dig) (bs : List (BitStr × Dig)) (hok : SetOK set) (hel : set.elems = bs.map enc)
    (hne : bs ≠ [])
    (hbs : ∀ b ∈ bs, p <+: b.1 ∧ p.length < b.1.length ∧ b.1.length ≤ 256)
    (hpf : ((oleaves (ch false) ++ oleaves (ch true)) ++ newLeaves bs epoch).Pairwise Incomp)
    (hti : TI D epoch K s) (hgk : ∀ d, GK K (p ++ [d]) (ch d)) :
    ∃ s' cur' num' ch',
      phase23 c m (insertRec c m epoch fuel) s cur isNew num set = .ok (s', cur', isNew, num') ∧
      St c m epoch p ty s' cur' ch' True ∧
      cur'.hash = c.parentHash (CRoot.childValue c (hm m) (ch' false)) (CRoot.childLabel c (ch' false))
        (CRoot.childValue c (hm m) (ch' true)) (CRoot.childLabel c (ch' true)) ∧
      (oleaves (ch' false) ++ oleaves (ch' true)).Perm
        ((oleaves (ch false) ++ oleaves (ch true)) ++ newLeaves bs epoch) ∧
      (∀ d, ch' d = none → ch d = none ∧ bs.filter (goes p d) = []) ∧ Frame2 p s s' ∧ TI D epoch K s' := by
  obtain ⟨b0, hb0⟩ := List.exists_mem_of_ne_nil bs hne
  have hp256 : p.length ≤ 256 := by have := hbs b0 hb0; omega
  obtain ⟨okL, elL, okR, elR⟩ := partition_spec set bs p hok hel (fun b hb => ⟨(hbs b hb).1, (hbs b hb).2.2⟩) hp256
  have hbsd : ∀ d, ∀ b ∈ bs.filter (goes p d), (p ++ [d]) <+: b.1 ∧ b.1.length ≤ 256 := by
    intro d b hb
    rw [List.mem_filter] at hb
    exact ⟨(goes_iff _ _ _).1 hb.2, (hbs b hb.1).2.2⟩
  -- left
  obtain ⟨s1, cur1, num1, ch1, e1, st1, same1, perm1, none1, fr1, ti1⟩ :=
    side_specP hK c m epoch fuel hep hD hspec hst false num hfuel _ _ okL elL (hbsd false)
      (hpf.sublist ((List.sublist_append_left _ _).append (newLeaves_filter_sublist bs _ epoch)))
      hti (hgk false)
  have ht1 : ch1 true = ch true := same1 true (by decide)
  -- right
  obtain ⟨s2, cur2, num2, ch2, e2, st2, same2, perm2, none2, fr2, ti2⟩ :=
    side_specP hK c m epoch fuel hep hD hspec st1 true num1 hfuel _ _ okR elR (hbsd true)
      (by rw [ht1]; exact hpf.sublist ((List.sublist_append_right _ _).append (newLeaves_filter_sublist bs _ epoch)))
      ti1 (by rw [ht1]; exact hgk true)
  have hf2 : ch2 false = ch1 false := same2 false (by decide)
  have hdone : (False ∨ bs.filter (goes p false) ≠ []) ∨ bs.filter (goes p true) ≠ [] := by
    obtain ⟨d, hd⟩ := goes_exists (hbs b0 hb0).1 (hbs b0 hb0).2.1
    have hm : b0 ∈ bs.filter (goes p d) := List.mem_filter.2 ⟨hb0, hd⟩
    cases d
    · exact .inl (.inr (List.ne_nil_of_mem hm))
    · exact .inr (List.ne_nil_of_mem hm)
  have st2' := st2.mono (done' := True) (fun _ => hdone)
  have hlast : cur2.lastEpoch = epoch := st2'.last_eq trivial
  have hrep : ∀ d t, ch2 d = some t → Rep c m s2 t ∧ maxEp t ≤ cur2.lastEpoch := by
    intro d t ht
    refine ⟨(st2'.kids d t ht).1, ?_⟩
    rw [hlast]
    exact maxEp_le t epoch (fun lf h => (st2'.leafok d lf (by simp [oleaves, ht, h])).2.1)
  have hup := updateHash_spec c m s2 cur2 (by rw [st2'.type]; exact hty) (ch2 false) (ch2 true)
    st2'.left st2'.right (hrep false) (hrep true)
  refine ⟨s2, { cur2 with
      hash := c.parentHash (CRoot.childValue c (hm m) (ch2 false)) (CRoot.childLabel c (ch2 false))
                (CRoot.childValue c (hm m) (ch2 true)) (CRoot.childLabel c (ch2 true)) },
    num2, ch2, ?_, ?_, rfl, ?_, ?_, ?_, ti2⟩
  · unfold phase23
    simp only [dir] at e1 e2
    rw [hst.label, e1]
    simp only
    rw [e2]
    simp only
    rw [hup]
  · exact ⟨st2'.label, st2'.type, st2'.left, st2'.right, st2'.last_le, st2'.last_eq, st2'.min_inv,
      st2'.min_eq, st2'.kids, st2'.leafok⟩
  · rw [hf2]
    rw [ht1] at perm2
    have hsplit : (newLeaves (bs.filter (goes p false)) epoch ++ newLeaves (bs.filter (goes p true)) epoch).Perm
        (newLeaves bs epoch) := by
      unfold newLeaves
      rw [← List.map_append]
      apply List.Perm.map
      have : bs.filter (goes p true) = bs.filter (fun x => !goes p false x) :=
        List.filter_congr (fun b hb => goes_true_eq_not (hbs b hb).1 (hbs b hb).2.1)
      rw [this]
      exact List.filter_append_perm _ _
    refine (perm1.append perm2).trans ?_
    refine List.Perm.trans ?_ (List.Perm.append_left _ hsplit)
    simp only [List.append_assoc]
    apply List.Perm.append_left
    rw [← List.append_assoc, ← List.append_assoc]
    exact List.Perm.append_right _ List.perm_append_comm
  · intro d hd
    cases d
    · rw [hf2] at hd
      exact none1 hd
    · have := none2 hd
      rw [ht1] at this
      exact this
  · intro b hb hn0 hn1
    exact (fr2 b hb hn1).trans (fr1 b hb hn0)

end Akd.Part
