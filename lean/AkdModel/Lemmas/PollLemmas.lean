/-
Invariant of the polling model (`AkdModel/Poll.lean`) for instances all of whose requests are guarded.
-/
import AkdModel.Poll
namespace Akd.Poll

/-- what holds of a request slot: it is guarded, and it is idle or serves from an epoch that is at least the
newest epoch signalled at its start and at least the epoch the instance started from (a guarded request never
finds the epoch record vacant) -/
def RInv (e : Nat) (r : Reader) : Prop :=
  r.guarded = true ∧ (r.pc = .idle ∨ ∃ g x, r.pc = .holding g x ∧ g ≤ x ∧ e ≤ x)

/-- what holds at each program point of the poller -/
def PInv (e : Nat) (s : Sys) : Prop :=
  match s.p with
  | .sleeping => s.wlock = false
  | .detected l => s.wlock = false ∧ l ≤ s.db
  | .locked l => s.wlock = true ∧ l ≤ s.db
  | .flushed l => s.wlock = true ∧ l ≤ s.db ∧ s.cache = none
  | .refetchMiss l => s.wlock = true ∧ l ≤ s.db ∧ s.cache = none
  | .refetched l v => s.wlock = true ∧ l ≤ v ∧ v ≤ s.db ∧ e ≤ v ∧ s.sig ≤ v ∧ s.cache = none

/-- the inductive invariant; the first five fields are what the property theorems use -/
structure Inv (e : Nat) (s : Sys) : Prop where
  sig_le_db : s.sig ≤ s.db
  cache_fresh : s.wlock = false → ∀ v, s.cache = some v → s.sig ≤ v ∧ v ≤ s.db
  excl : s.wlock = true → ∀ r ∈ s.rs, r.pc = .idle
  ans : ∀ a ∈ s.answers, a.1 ≤ a.2
  ans_ge_start : ∀ a ∈ s.answers, e ≤ a.2
  readers : ∀ r ∈ s.rs, RInv e r
  order : s.sig ≤ s.last ∧ s.last ≤ s.db ∧ e ≤ s.last
  cache_some : s.wlock = false → ∃ v, s.cache = some v ∧ s.last ≤ v ∧ v ≤ s.db
  pinv : PInv e s

theorem inv_init (e : Nat) (guards : List Bool) (hg : ∀ g ∈ guards, g = true) : Inv e (init e guards) := by
  refine ⟨?_, ?_, ?_, ?_, ?_, ?_, ?_, ?_, ?_⟩
  · simp [init]
  · intro _ v hv
    simp only [init, Option.some.injEq] at hv
    simp only [init]; omega
  · intro h; simp [init] at h
  · intro a ha; simp [init] at ha
  · intro a ha; simp [init] at ha
  · intro r hr
    simp only [init, List.mem_map] at hr
    obtain ⟨g, hgm, rfl⟩ := hr
    exact ⟨hg g hgm, Or.inl rfl⟩
  · simp [init]
  · intro _; exact ⟨e, by simp [init]⟩
  · simp [PInv, init]

theorem inv_publish {e : Nat} {s : Sys} (h : Inv e s) : Inv e { s with db := s.db + 1 } := by
  obtain ⟨h1, h2, h3, h4, h5, h6, h7, h8, h9⟩ := h
  refine ⟨?_, ?_, h3, h4, h5, h6, ?_, ?_, ?_⟩
  · show s.sig ≤ s.db + 1; omega
  · intro hw v hv
    have := h2 hw v hv
    show s.sig ≤ v ∧ v ≤ s.db + 1; omega
  · show s.sig ≤ s.last ∧ s.last ≤ s.db + 1 ∧ e ≤ s.last; omega
  · intro hw
    obtain ⟨v, hv, h⟩ := h8 hw
    exact ⟨v, hv, by show s.last ≤ v ∧ v ≤ s.db + 1; omega⟩
  · unfold PInv at h9 ⊢
    show match s.p with
      | .sleeping => s.wlock = false
      | .detected l => s.wlock = false ∧ l ≤ s.db + 1
      | .locked l => s.wlock = true ∧ l ≤ s.db + 1
      | .flushed l => s.wlock = true ∧ l ≤ s.db + 1 ∧ s.cache = none
      | .refetchMiss l => s.wlock = true ∧ l ≤ s.db + 1 ∧ s.cache = none
      | .refetched l v => s.wlock = true ∧ l ≤ v ∧ v ≤ s.db + 1 ∧ e ≤ v ∧ s.sig ≤ v ∧ s.cache = none
    split <;> simp_all <;> omega

/-- no guarded request under way: every slot is idle -/
theorem idle_of_not_readLocked {e : Nat} {s : Sys} (h : Inv e s) (hl : readLocked s = false) :
    ∀ r ∈ s.rs, r.pc = .idle := by
  intro r hr
  have hg := (h.readers r hr).1
  unfold readLocked at hl
  rw [List.any_eq_false] at hl
  have := hl r hr
  simp only [hg, Bool.true_and, bne_iff_ne, ne_eq, Decidable.not_not] at this
  exact this

theorem inv_poller {e : Nat} {s s' : Sys} (h : Inv e s) (hs : step s .poller = some s') : Inv e s' := by
  obtain ⟨h1, h2, h3, h4, h5, h6, h7, h8, h9⟩ := h
  have hidle := idle_of_not_readLocked (e := e) (s := s) ⟨h1, h2, h3, h4, h5, h6, h7, h8, h9⟩
  unfold PInv at h9
  unfold step at hs
  simp only at hs
  split at hs
  · -- sleeping
    rename_i hp
    rw [hp] at h9
    simp only at h9
    split at hs
    · cases hs
      refine ⟨h1, h2, h3, h4, h5, h6, h7, h8, ?_⟩
      simp [PInv, h9]
    · cases hs
      refine ⟨h1, h2, h3, h4, h5, h6, h7, h8, ?_⟩
      simp [PInv, hp, h9]
  · -- detected
    rename_i l hp
    rw [hp] at h9
    simp only at h9
    split at hs
    · cases hs
    · rename_i hrl
      cases hs
      have hid := hidle (by simpa using hrl)
      refine ⟨h1, ?_, fun _ => hid, h4, h5, h6, h7, ?_, ?_⟩
      · intro hw; simp at hw
      · intro hw; simp at hw
      · simp [PInv, h9.2]
  · -- locked
    rename_i l hp
    rw [hp] at h9
    simp only at h9
    cases hs
    refine ⟨h1, ?_, h3, h4, h5, h6, h7, ?_, ?_⟩
    · intro hw; simp [h9.1] at hw
    · intro hw; simp [h9.1] at hw
    · simp [PInv, h9.1, h9.2]
  · -- flushed
    rename_i l hp
    rw [hp] at h9
    simp only at h9
    split at hs
    · rename_i v hc
      rw [h9.2.2] at hc
      cases hc
    · cases hs
      refine ⟨h1, h2, h3, h4, h5, h6, h7, h8, ?_⟩
      simp [PInv, h9.1, h9.2.1, h9.2.2]
  · -- refetchMiss
    rename_i l hp
    rw [hp] at h9
    simp only at h9
    cases hs
    refine ⟨h1, h2, h3, h4, h5, h6, h7, h8, ?_⟩
    simp only [PInv]
    refine ⟨h9.1, h9.2.1, Nat.le_refl _, ?_, ?_, h9.2.2⟩ <;> omega
  · -- refetched
    rename_i l v hp
    rw [hp] at h9
    simp only at h9
    obtain ⟨hw, hlv, hvd, hev, hsv, hc⟩ := h9
    cases hs
    refine ⟨?_, ?_, ?_, h4, h5, h6, ?_, ?_, ?_⟩
    · show max s.sig l ≤ s.db; omega
    · intro _ v' hv'
      simp only [hc, Option.some.injEq] at hv'
      subst hv'
      show max s.sig l ≤ v ∧ v ≤ s.db; omega
    · intro hw'; simp at hw'
    · show max s.sig l ≤ v ∧ v ≤ s.db ∧ e ≤ v; omega
    · intro _
      refine ⟨v, by simp [hc], ?_⟩
      show v ≤ v ∧ v ≤ s.db; omega
    · simp [PInv]

theorem setR_readers {e : Nat} {s : Sys} {i : Nat} {r : Reader}
    (h : ∀ r ∈ s.rs, RInv e r) (hr : RInv e r) : ∀ r' ∈ (setR s i r).rs, RInv e r' := by
  intro r' hr'
  simp only [setR] at hr'
  rcases List.mem_or_eq_of_mem_set hr' with hm | rfl
  · exact h r' hm
  · exact hr

theorem inv_reader {e : Nat} {s s' : Sys} {i : Nat} (h : Inv e s) (hs : step s (.reader i) = some s') :
    Inv e s' := by
  obtain ⟨h1, h2, h3, h4, h5, h6, h7, h8, h9⟩ := h
  unfold step at hs
  simp only at hs
  split at hs
  · cases hs
  · rename_i r hri
    have hmem : r ∈ s.rs := List.mem_of_getElem? hri
    obtain ⟨hg, hpc⟩ := h6 r hmem
    rcases hpc with hpc | ⟨g, x, hpc, hgx, hex⟩
    · -- idle: starts only outside the poller's critical section, and finds the epoch record cached
      rw [hpc] at hs
      simp only [hg, Bool.true_and] at hs
      split at hs
      · cases hs
      · rename_i hw
        have hw : s.wlock = false := by simpa using hw
        obtain ⟨v, hv, hlv, hvd⟩ := h8 hw
        rw [hv] at hs
        simp only at hs
        cases hs
        have hsv := (h2 hw v hv).1
        refine ⟨h1, h2, ?_, h4, h5, ?_, h7, h8, ?_⟩
        · intro hw'; simp only [setR] at hw'; rw [hw] at hw'; cases hw'
        · exact setR_readers h6 ⟨rfl, Or.inr ⟨s.sig, v, rfl, hsv, by omega⟩⟩
        · simpa [PInv, setR] using h9
    · -- holding: answers
      rw [hpc] at hs
      simp only at hs
      cases hs
      have hw : s.wlock = false := by
        cases hwl : s.wlock
        · rfl
        · have := h3 hwl r hmem
          rw [hpc] at this; cases this
      refine ⟨h1, h2, ?_, ?_, ?_, ?_, h7, h8, ?_⟩
      · intro hw'; simp only [setR] at hw'; rw [hw] at hw'; cases hw'
      · intro a ha
        simp only [setR, List.mem_append, List.mem_singleton] at ha
        rcases ha with ha | rfl
        · exact h4 a ha
        · exact hgx
      · intro a ha
        simp only [setR, List.mem_append, List.mem_singleton] at ha
        rcases ha with ha | rfl
        · exact h5 a ha
        · exact hex
      · exact setR_readers (s := { s with answers := s.answers ++ [(g, x)] }) h6 ⟨hg, Or.inl rfl⟩
      · simpa [PInv, setR] using h9

theorem inv_step {e : Nat} {s s' : Sys} (a : Act) (h : Inv e s) (hs : step s a = some s') : Inv e s' := by
  cases a with
  | publish =>
    simp only [step, Option.some.injEq] at hs
    subst hs
    exact inv_publish h
  | poller => exact inv_poller h hs
  | reader i => exact inv_reader h hs

theorem inv_run {e : Nat} (sched : List Act) : ∀ (s s' : Sys), Inv e s → run s sched = some s' → Inv e s' := by
  induction sched with
  | nil =>
    intro s s' h hr
    simp only [run, Option.some.injEq] at hr
    subst hr; exact h
  | cons a rest ih =>
    intro s s' h hr
    simp only [run] at hr
    split at hr
    · rename_i s1 hs1
      exact ih s1 s' (inv_step a h hs1) hr
    · cases hr

theorem inv_reachable (e : Nat) (guards : List Bool) (hg : ∀ g ∈ guards, g = true)
    (sched : List Act) (s : Sys) (hrun : run (init e guards) sched = some s) : Inv e s :=
  inv_run sched _ _ (inv_init e guards hg) hrun

end Akd.Poll
