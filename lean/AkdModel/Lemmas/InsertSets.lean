/-
The element-set operations (`ofList`, `partition`, `setLcp`) on batches of `ofBits` labels,
for both representations (C01b).
-/
import AkdModel.Lemmas.InsertBits
namespace Akd.Ins
open Akd NodeLabel

/-- a batch element on bit strings, and its byte-level encoding -/
abbrev enc (x : BitStr × Dig) : NodeLabel × Dig := (ofBits x.1, x.2)

/-- the representation invariant of `AzksElementSet` -/
def SetOK (set : ElementSet Dig) : Prop :=
  match set with
  | .binarySearchable xs => ∃ L, C17.SortedSameLen xs L
  | .unsorted _ => True

/-- the element continues with bit `d` after `p` -/
def goes (p : BitStr) (d : Bool) (x : BitStr × Dig) : Bool := (p ++ [d]).isPrefixOf x.1

theorem goes_iff (p : BitStr) (d : Bool) (x : BitStr × Dig) : goes p d x = true ↔ (p ++ [d]) <+: x.1 := by
  unfold goes
  exact List.isPrefixOf_iff_prefix

theorem sortedSameLen_sublist {xs ys : List (NodeLabel × Dig)} {L : Nat} (h : C17.SortedSameLen xs L)
    (hs : ys.Sublist xs) : C17.SortedSameLen ys L :=
  ⟨fun x hx => h.sameLen x (hs.subset hx), h.le256, h.sorted.sublist hs⟩

theorem popInvalid_sublist (p : NodeLabel) (xs : List (NodeLabel × Dig)) :
    (ElementSet.popInvalid p xs).Sublist xs := by
  unfold ElementSet.popInvalid
  have h1 := List.dropWhile_sublist (l := xs.reverse) (fun x => p.prefixOrdering x.1 == .invalid)
  have h2 := List.reverse_sublist.2 h1
  rwa [List.reverse_reverse] at h2

theorem partition_unsorted (xs : List (NodeLabel × Dig)) (p : NodeLabel) :
    (ElementSet.unsorted xs).partition p =
      (.unsorted (xs.filter (fun x => p.prefixOrdering x.1 == .withZero)),
       .unsorted (xs.filter (fun x => p.prefixOrdering x.1 == .withOne))) := rfl

theorem filter_enc (bs : List (BitStr × Dig)) (p : BitStr) (d : Bool) (o : PrefixOrdering)
    (hb : ∀ b ∈ bs, b.1.length ≤ 256)
    (ho : ∀ b : BitStr, b.length ≤ 256 → ((ofBits p).prefixOrdering (ofBits b) = o ↔ (p ++ [d]) <+: b)) :
    (bs.map enc).filter (fun x => (ofBits p).prefixOrdering x.1 == o) = (bs.filter (goes p d)).map enc := by
  rw [List.filter_map]
  congr 1
  apply List.filter_congr
  intro b hbm
  simp only [Function.comp]
  have h1 := ho b.1 (hb b hbm)
  have h2 := goes_iff p d b
  cases hg : goes p d b
  · have : ¬ (ofBits p).prefixOrdering (ofBits b.1) = o := fun h => by
      have := h2.2 (h1.1 h); rw [hg] at this; exact Bool.noConfusion this
    simpa using this
  · have := h1.2 (h2.1 hg)
    simpa using this

theorem partition_spec (set : ElementSet Dig) (bs : List (BitStr × Dig)) (p : BitStr)
    (hok : SetOK set) (hel : set.elems = bs.map enc)
    (hb : ∀ b ∈ bs, p <+: b.1 ∧ b.1.length ≤ 256) (hp : p.length ≤ 256) :
    SetOK (set.partition (ofBits p)).1 ∧
    (set.partition (ofBits p)).1.elems = (bs.filter (goes p false)).map enc ∧
    SetOK (set.partition (ofBits p)).2 ∧
    (set.partition (ofBits p)).2.elems = (bs.filter (goes p true)).map enc := by
  have hlin : ((ElementSet.unsorted (bs.map enc)).partition (ofBits p)).1.elems
        = (bs.filter (goes p false)).map enc ∧
      ((ElementSet.unsorted (bs.map enc)).partition (ofBits p)).2.elems
        = (bs.filter (goes p true)).map enc := by
    rw [partition_unsorted]
    exact ⟨filter_enc bs p false .withZero (fun b h => (hb b h).2)
        (fun b hbl => (prefixOrdering_ofBits p b hp hbl).1),
      filter_enc bs p true .withOne (fun b h => (hb b h).2)
        (fun b hbl => (prefixOrdering_ofBits p b hp hbl).2)⟩
  cases set with
  | unsorted xs =>
    simp only [ElementSet.elems] at hel
    subst hel
    exact ⟨trivial, hlin.1, trivial, hlin.2⟩
  | binarySearchable xs =>
    simp only [ElementSet.elems] at hel
    subst hel
    obtain ⟨L, hL⟩ := hok
    have hpre : ∀ x ∈ bs.map enc, (ofBits p).isPrefixOf x.1 = true := by
      intro x hx
      obtain ⟨b, hbm, rfl⟩ := List.mem_map.1 hx
      exact (isPrefixOf_ofBits p b.1 hp (hb b hbm).2).2 (hb b hbm).1
    have heq := C17.partition_sorted_eq_linear (bs.map enc) L (ofBits p) hL hpre (by simpa [ofBits_len])
    rw [heq.1, heq.2]
    refine ⟨?_, hlin.1, ?_, hlin.2⟩
    · exact ⟨L, sortedSameLen_sublist hL ((popInvalid_sublist _ _).trans (List.take_sublist _ _))⟩
    · exact ⟨L, sortedSameLen_sublist hL (List.drop_sublist _ _)⟩

/-! ### `setLcp` -/

theorem foldl_lcp_ofBits (e : NodeLabel) (he : e.len = 0) (rest : List (BitStr × Dig))
    (hb : ∀ b ∈ rest, b.1.length ≤ 256) (a : BitStr) (ha : a.length ≤ 256) :
    (rest.map enc).foldl (fun acc n => NodeLabel.lcp e n.1 acc) (ofBits a)
      = ofBits (rest.foldl (fun acc n => BitStr.commonPrefix n.1 acc) a) := by
  induction rest generalizing a with
  | nil => rfl
  | cons n rest ih =>
    simp only [List.map_cons, List.foldl_cons]
    rw [lcp_ofBits e he n.1 a (hb n (by simp)) ha]
    exact ih (fun b h => hb b (by simp [h])) _
      (Nat.le_trans (Canon.commonPrefix_prefix_right n.1 a).length_le ha)

theorem setLcp_unsorted (e : NodeLabel) (he : e.len = 0) (bs : List (BitStr × Dig)) (hne : bs ≠ [])
    (hb : ∀ b ∈ bs, b.1.length ≤ 256) :
    (ElementSet.unsorted (bs.map enc)).setLcp e = ofBits (lcpAll bs) := by
  cases bs with
  | nil => exact absurd rfl hne
  | cons x rest =>
    simp only [List.map_cons, ElementSet.setLcp, lcpAll]
    exact foldl_lcp_ofBits e he rest (fun b h => hb b (by simp [h])) x.1 (hb x (by simp))

theorem setLcp_spec (e : NodeLabel) (he : e.len = 0) (set : ElementSet Dig) (bs : List (BitStr × Dig))
    (hok : SetOK set) (hel : set.elems = bs.map enc) (hne : bs ≠ [])
    (hb : ∀ b ∈ bs, 1 ≤ b.1.length ∧ b.1.length ≤ 256) :
    set.setLcp e = ofBits (lcpAll bs) := by
  have hb' : ∀ b ∈ bs, b.1.length ≤ 256 := fun b h => (hb b h).2
  cases set with
  | unsorted xs =>
    simp only [ElementSet.elems] at hel
    subst hel
    exact setLcp_unsorted e he bs hne hb'
  | binarySearchable xs =>
    simp only [ElementSet.elems] at hel
    subst hel
    obtain ⟨L, hL⟩ := hok
    have hne' : bs.map enc ≠ [] := by simpa using hne
    have hxe : ∀ x ∈ bs.map enc, x.1 ≠ e := by
      intro x hx
      obtain ⟨b, hbm, rfl⟩ := List.mem_map.1 hx
      intro h
      have := congrArg NodeLabel.len h
      rw [ofBits_len, he] at this
      have := (hb b hbm).1
      omega
    have hLpos : 0 < L := by
      obtain ⟨b, hbm⟩ := List.exists_mem_of_ne_nil bs hne
      have := hL.sameLen (enc b) (List.mem_map_of_mem hbm)
      simp only [ofBits_len] at this
      have := (hb b hbm).1
      omega
    have hbits := C17.setLcp_sorted_eq_linear e (bs.map enc) L hL hxe hne' hLpos (.inl he)
    rw [setLcp_unsorted e he bs hne hb', C17.bits_ofBits _ (lcpAll_length_le bs hne hb')] at hbits
    -- the sorted answer is itself an `ofBits` label
    obtain ⟨f, hf⟩ : ∃ f, (bs.map enc).head? = some f := by
      cases h : (bs.map enc).head? with
      | none => simp at h; exact absurd h hne
      | some f => exact ⟨f, rfl⟩
    obtain ⟨l, hl⟩ : ∃ l, (bs.map enc).getLast? = some l := by
      cases h : (bs.map enc).getLast? with
      | none => simp at h; exact absurd h hne
      | some l => exact ⟨l, rfl⟩
    obtain ⟨bf, hbf, rfl⟩ := List.mem_map.1 (List.mem_of_head? hf)
    obtain ⟨bl, hbl, rfl⟩ := List.mem_map.1 (List.mem_of_getLast? hl)
    have hs : (ElementSet.binarySearchable (bs.map enc)).setLcp e
        = ofBits (BitStr.commonPrefix bf.1 bl.1) := by
      simp only [ElementSet.setLcp, hf, hl]
      exact lcp_ofBits e he bf.1 bl.1 (hb' bf hbf) (hb' bl hbl)
    rw [hs] at hbits ⊢
    rw [C17.bits_ofBits _ (Nat.le_trans (Canon.commonPrefix_prefix_left _ _).length_le (hb' bf hbf))] at hbits
    rw [hbits]

/-! ### `ofList` -/

theorem perm_map_inv {α β} (f : α → β) {l₁ l₂ : List β} (h : l₁.Perm l₂) :
    ∀ bs : List α, l₂ = bs.map f → ∃ bs' : List α, l₁ = bs'.map f ∧ bs'.Perm bs := by
  induction h with
  | nil => intro bs h; exact ⟨[], rfl, by cases bs <;> simp_all⟩
  | cons x _ ih =>
    intro bs h
    cases bs with
    | nil => simp at h
    | cons b bs =>
      simp only [List.map_cons, List.cons.injEq] at h
      obtain ⟨bs', h1, h2⟩ := ih bs h.2
      exact ⟨b :: bs', by simp [h.1, h1], h2.cons b⟩
  | swap x y l =>
    intro bs h
    cases bs with
    | nil => simp at h
    | cons b bs =>
      cases bs with
      | nil => simp at h
      | cons b' bs =>
        simp only [List.map_cons, List.cons.injEq] at h
        exact ⟨b' :: b :: bs, by simp [h.1, h.2.1, h.2.2], List.Perm.swap _ _ _⟩
  | trans _ _ ih1 ih2 =>
    intro bs h
    obtain ⟨bs2, h2, p2⟩ := ih2 bs h
    obtain ⟨bs1, h1, p1⟩ := ih1 bs2 h2
    exact ⟨bs1, h1, p1.trans p2⟩

theorem ofList_spec (els : List (BitStr × Dig)) (hb : ∀ b ∈ els, b.1.length ≤ 256) :
    ∃ bs : List (BitStr × Dig), bs.Perm els ∧ SetOK (ElementSet.ofList (els.map enc)) ∧
      (ElementSet.ofList (els.map enc)).elems = bs.map enc := by
  cases els with
  | nil => exact ⟨[], List.Perm.refl _, trivial, rfl⟩
  | cons x rest =>
    simp only [List.map_cons, ElementSet.ofList]
    split
    · next hall =>
      obtain ⟨hs, hp⟩ := C17.sortByLabel_sorted (enc x :: rest.map enc)
      obtain ⟨bs', h1, h2⟩ := perm_map_inv enc hp (x :: rest) (by simp)
      refine ⟨bs', h2, ⟨(ofBits x.1).len, ?_, ?_, hs⟩, h1⟩
      · intro y hy
        have hy' := hp.mem_iff.1 hy
        rw [List.all_eq_true] at hall
        simpa using hall y hy'
      · simpa [ofBits_len] using hb x (by simp)
    · exact ⟨x :: rest, List.Perm.refl _, trivial, by simp [ElementSet.elems]⟩

end Akd.Ins
