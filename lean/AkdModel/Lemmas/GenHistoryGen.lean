/-
Key history, part 2 (generation): in a state that represents the specification state,
`Dir.keyHistory` returns the honest history proof over the canonical tree.
-/
import AkdModel.Lemmas.GenHistoryData
namespace Akd.Gen
open Akd

theorem mapM_ok {ε α β} (f : α → Except ε β) (g : α → β) : ∀ (l : List α), (∀ x ∈ l, f x = .ok (g x)) →
    l.mapM f = .ok (l.map g)
  | [], _ => rfl
  | a :: l, h => by
    rw [List.mapM_cons, h a List.mem_cons_self, mapM_ok f g l (fun x hx => h x (List.mem_cons_of_mem _ hx))]
    rfl

theorem keyHistory_eval (c : Cfg) (d : Dir) (u : Bytes) (p : HistoryParams) (azks : Azks)
    (data : List ValueState) (first : ValueState) (past future : List Nat)
    (ups : List UpdateProof) (pastP : List MembershipProof) (futP : List NonMembershipProof) (h : Dig)
    (hazks : d.azks = some azks)
    (hne : (d.states.filter (fun s => s.username = u)).isEmpty = false)
    (hdata : (match p with
      | .complete => ((d.states.filter (fun s => s.username = u)).filter (fun s => s.epoch ≤ azks.latestEpoch)).foldr Dir.insertDesc []
      | .mostRecent n => (((d.states.filter (fun s => s.username = u)).filter (fun s => s.epoch ≤ azks.latestEpoch)).foldr Dir.insertDesc []).take n) = data)
    (hfirst : data.head? = some first)
    (hs : data.foldl (fun a s => min a s.version) first.version ≠ 0)
    (he : data.foldl (fun a s => max a s.version) first.version ≠ 0)
    (hm : Marker.markers? (data.foldl (fun a s => min a s.version) first.version)
      (data.foldl (fun a s => max a s.version) first.version) azks.latestEpoch = some (past, future))
    (hups : data.mapM (Dir.updateProof c d azks u) = .ok ups)
    (hpast : past.mapM (fun v => do
        let l ← d.vrfLabel u true v
        Dir.liftT (d.nodes.membershipProof c azks l)) = .ok pastP)
    (hfut : future.mapM (fun v => do
        let l ← d.vrfLabel u true v
        Dir.liftT (d.nodes.nonMembershipProof c azks l)) = .ok futP)
    (hroot : d.nodes.rootHash c azks = .ok h) :
    d.keyHistory c u p = .ok (⟨ups, past.map (fun v => some ⟨u, true, v⟩), pastP,
           future.map (fun v => some ⟨u, true, v⟩), futP⟩, azks.latestEpoch, h) := by
  cases p <;>
  · simp only at hdata
    subst hdata
    unfold Dir.keyHistory
    simp only [bind, Except.bind, Dir.liftT] at hpast hfut
    simp only [hazks, hne, bind, Except.bind, pure, Except.pure, hfirst, hs, he, hm, hups, hpast, hfut,
      hroot, Dir.liftT, Bool.false_eq_true, if_false, Bool.or_self, decide_false]


/-- the oracle's label for an input (total form) -/
def lab (vrf : VrfTable) (u : Bytes) (f : Bool) (v : Nat) : NodeLabel := (vrf.get? ⟨u, f, v⟩).getD default

theorem lab_eq {vrf : VrfTable} {u : Bytes} {f : Bool} {v : Nat} {l : NodeLabel} (h : vrf.get? ⟨u, f, v⟩ = some l) :
    lab vrf u f v = l := by simp [lab, h]

/-- the honest update proof of a version, on the canonical tree -/
def honestUpdate (c : Cfg) (key : Dig) (vrf : VrfTable) (t : CRoot) (u : Bytes) (v : Spec.Ver) : UpdateProof :=
  ⟨v.epoch, v.value, v.version, some ⟨u, true, v.version⟩, t.genMembership c (lab vrf u true v.version).bits,
    if v.version > 1 then some (some ⟨u, false, v.version - 1⟩) else none,
    if v.version > 1 then some (t.genMembership c (lab vrf u false (v.version - 1)).bits) else none,
    c.nonce key (lab vrf u true v.version) v.version v.value⟩

theorem updateProof_gen (c : Cfg) (d : Dir) (azks : Azks) (t : CRoot) (u : Bytes) (st : ValueState)
    (htot : ∀ f v, 1 ≤ v → v ≤ st.version → (d.vrf.get? ⟨u, f, v⟩).isSome)
    (hgen : ∀ f v l, d.vrf.get? ⟨u, f, v⟩ = some l → d.nodes.membershipProof c azks l = .ok (t.genMembership c l.bits))
    (h1 : 1 ≤ st.version) :
    d.updateProof c azks u st = .ok (honestUpdate c d.commitmentKey d.vrf t u (verOf st)) := by
  obtain ⟨le, hle⟩ := Option.isSome_iff_exists.1 (htot true st.version h1 (Nat.le_refl _))
  unfold Dir.updateProof honestUpdate
  by_cases hgt : st.version > 1
  · obtain ⟨lp, hlp⟩ := Option.isSome_iff_exists.1 (htot false (st.version - 1) (by omega) (by omega))
    simp only [bind, Except.bind, pure, Except.pure, Dir.vrfLabel, hle, hlp, hgen _ _ _ hle, hgen _ _ _ hlp,
      Dir.liftT, verOf, hgt, if_true, lab_eq hle, lab_eq hlp]
  · simp only [bind, Except.bind, pure, Except.pure, Dir.vrfLabel, hle, hgen _ _ _ hle,
      Dir.liftT, verOf, hgt, if_false, lab_eq hle]

/-- the honest history proof, on the canonical tree -/
def honestHistory (c : Cfg) (key : Dig) (vrf : VrfTable) (t : CRoot) (u : Bytes) (ex : List Spec.Ver)
    (past future : List Nat) : HistoryProof :=
  ⟨ex.map (honestUpdate c key vrf t u), past.map (fun v => some ⟨u, true, v⟩),
    past.map (fun v => t.genMembership c (lab vrf u true v).bits),
    future.map (fun v => some ⟨u, true, v⟩),
    future.map (fun v => t.genNonMembership c (lab vrf u true v).bits)⟩

theorem markers_some {s e E : Nat} {past future : List Nat} (h : Marker.markers? s e E = some (past, future)) :
    Marker.past? s = some past ∧ Marker.future? e E = some future := by
  unfold Marker.markers? at h
  cases hp : Marker.past? s with
  | none => simp [hp] at h
  | some p =>
    cases hf : Marker.future? e E with
    | none => simp [hp, hf] at h
    | some f =>
      simp [hp, hf] at h
      rw [h.1, h.2]
      exact ⟨rfl, rfl⟩

theorem markers_bounds {s e E : Nat} {past future : List Nat} (h : Marker.markers? s e E = some (past, future)) :
    (∀ x ∈ past, 1 ≤ x ∧ x < s) ∧ (∀ x ∈ future, e < x ∧ x ≤ E) := by
  obtain ⟨h1, h2⟩ := markers_some h
  refine ⟨fun x hx => Marker.past_bounds (s := s) (by rw [h1]; exact hx),
    fun x hx => Marker.future_bounds (n := e) (E := E) (by rw [h2]; exact hx)⟩

/-- **generation**: the history request of a published label succeeds with the honest proof for the
expected entries and the marker versions of their range `[L + 1 - k, L]` -/
theorem keyHistory_gen (c : Cfg) (d : Dir) (sp : Spec.State) (users : List Bytes) (N : Nat)
    (hv : C06.VrfOK d.vrf) (ht : C01.VrfTotal d.vrf users N) (hN : sp.epoch + 1 ≤ N)
    (href : C01.Refines c d sp) (u : Bytes) (hmem : u ∈ users) (hpub : sp.table.get u ≠ [])
    (p : HistoryParams) (hp : ∀ n, p = .mostRecent n → 1 ≤ n) :
    ∃ past future,
      Marker.markers? ((sp.table.get u).length + 1 - (C07.expected (sp.table.get u) p).length)
        (sp.table.get u).length sp.epoch = some (past, future) ∧
      d.keyHistory c u p = .ok (honestHistory c d.commitmentKey d.vrf
          (CRoot.ofLeaves (Spec.leaves c d.commitmentKey d.vrf sp.table)) u
          (C07.expected (sp.table.get u) p) past future,
        sp.epoch, Spec.rootHash c d.commitmentKey d.vrf sp) := by
  obtain ⟨n, hazks⟩ := href.azks
  have hV : Pub.VersOK (sp.table.get u) := (href.versions u).1
  have hEp := (href.versions u).2
  have hlen := Pub.versOK_length_le hV _ hEp
  have hD := expected_descFrom (sp.table.get u) hV hpub p hp
  have hsorted := sorted_states_eq d sp.table sp.epoch href.states u hV (fun v hvm => (hEp v hvm).2)
  -- the data list
  obtain ⟨data, hdata, hmap⟩ : ∃ data, (match p with
      | .complete => ((d.states.filter (fun s : ValueState => s.username = u)).filter
          (fun s : ValueState => s.epoch ≤ sp.epoch)).foldr Dir.insertDesc []
      | .mostRecent n => (((d.states.filter (fun s : ValueState => s.username = u)).filter
          (fun s : ValueState => s.epoch ≤ sp.epoch)).foldr Dir.insertDesc []).take n) = data ∧
      data.map verOf = C07.expected (sp.table.get u) p := by
    refine ⟨_, rfl, ?_⟩
    cases p with
    | complete => exact hsorted
    | mostRecent r => simp only [C07.expected, List.map_take, hsorted]
  have hvers : (C07.expected (sp.table.get u) p).map (·.version) = data.map (·.version) := by
    rw [← hmap, List.map_map]; rfl
  have hk : (C07.expected (sp.table.get u) p).length = data.length := by rw [← hmap, List.length_map]
  rw [hvers] at hD
  cases hdt : data with
  | nil => have := hD.pos; rw [hdt] at this; simp at this
  | cons first rest =>
  subst hdt
  simp only [List.map_cons] at hD
  obtain ⟨hmin, hmax⟩ := hD.min_max
  simp only [List.foldl_cons, Nat.min_self, Nat.max_self, List.foldl_map, List.length_cons, List.length_map] at hmin hmax
  have hmin' : (first :: rest).foldl (fun a s => min a s.version) first.version
      = (sp.table.get u).length + 1 - (rest.length + 1) := by
    simp only [List.foldl_cons, Nat.min_self]; exact hmin
  have hmax' : (first :: rest).foldl (fun a s => max a s.version) first.version = (sp.table.get u).length := by
    simp only [List.foldl_cons, Nat.max_self]; exact hmax
  have hkL := hD.le
  have hk1 := hD.pos
  simp only [List.length_cons, List.length_map] at hkL hk1
  have hk' : (C07.expected (sp.table.get u) p).length = rest.length + 1 := by rw [hk]; rfl
  obtain ⟨⟨past, future⟩, hm⟩ := Option.isSome_iff_exists.1
    (C08.markers_no_panic ((sp.table.get u).length + 1 - (rest.length + 1)) (sp.table.get u).length sp.epoch
      (by omega) (by omega) hlen)
  obtain ⟨hpb, hfb⟩ := markers_bounds hm
  have hmemvs : ∀ x ∈ first :: rest, verOf x ∈ sp.table.get u := fun x hx =>
    expected_mem _ p (by rw [← hmap]; exact List.mem_map_of_mem hx)
  have htot : ∀ f v, 1 ≤ v → v ≤ sp.epoch → (d.vrf.get? ⟨u, f, v⟩).isSome := fun f v h1 h2 =>
    ht u hmem f v h1 (by omega)
  have hgen := fun l hl => refines_gen c d sp hv href n l hl
  refine ⟨past, future, by rw [hk']; exact hm, ?_⟩
  have hne : (d.states.filter (fun s => s.username = u)).isEmpty = false := by
    cases hvs : sp.table.get u with
    | nil => exact absurd hvs hpub
    | cons v _ =>
      obtain ⟨s, hs, hsu, -⟩ := href.states.2.1 u v (by rw [hvs]; exact List.mem_cons_self)
      have : s ∈ d.states.filter (fun s => s.username = u) := by
        rw [List.mem_filter]; exact ⟨hs, by simpa using hsu⟩
      cases hf : d.states.filter (fun s => s.username = u) with
      | nil => rw [hf] at this; cases this
      | cons _ _ => rfl
  have hres := keyHistory_eval c d u p ⟨sp.epoch, n⟩ (first :: rest) first past future
    ((first :: rest).map (fun s => honestUpdate c d.commitmentKey d.vrf
      (CRoot.ofLeaves (Spec.leaves c d.commitmentKey d.vrf sp.table)) u (verOf s)))
    (past.map (fun v => (CRoot.ofLeaves (Spec.leaves c d.commitmentKey d.vrf sp.table)).genMembership c (lab d.vrf u true v).bits))
    (future.map (fun v => (CRoot.ofLeaves (Spec.leaves c d.commitmentKey d.vrf sp.table)).genNonMembership c (lab d.vrf u true v).bits))
    (Spec.rootHash c d.commitmentKey d.vrf sp)
    hazks hne hdata rfl (by rw [hmin']; omega) (by rw [hmax']; omega) (by rw [hmin', hmax']; exact hm)
    ?_ ?_ ?_ (C01.rootHash_of_reprRoot c .directory d.nodes _ sp.epoch n href.tree
      (refines_tree_facts c d sp hv href).2.2)
  · rw [hres]
    simp only [honestHistory, ← hmap, List.map_map]
    rfl
  · apply mapM_ok
    intro x hx
    have hx' := Pub.versOK_version_le hV (hmemvs x hx)
    simp only [verOf] at hx'
    exact updateProof_gen c d _ _ u x (fun f v h1 h2 => htot f v h1 (by omega))
      (fun f v l hl => (hgen l (hv.len _ _ hl)).2.1) hx'.1
  · apply mapM_ok (g := fun v => (CRoot.ofLeaves (Spec.leaves c d.commitmentKey d.vrf sp.table)).genMembership c
      (lab d.vrf u true v).bits)
    intro x hx
    obtain ⟨l, hl⟩ := Option.isSome_iff_exists.1 (htot true x (hpb x hx).1 (by have := (hpb x hx).2; omega))
    simp only [bind, Except.bind, Dir.vrfLabel, hl, (hgen l (hv.len _ _ hl)).2.1, Dir.liftT, lab_eq hl]
  · apply mapM_ok (g := fun v => (CRoot.ofLeaves (Spec.leaves c d.commitmentKey d.vrf sp.table)).genNonMembership c
      (lab d.vrf u true v).bits)
    intro x hx
    obtain ⟨l, hl⟩ := Option.isSome_iff_exists.1 (htot true x (by have := (hfb x hx).1; omega) (hfb x hx).2)
    simp only [bind, Except.bind, Dir.vrfLabel, hl, (hgen l (hv.len _ _ hl)).2.2, Dir.liftT, lab_eq hl]

end Akd.Gen
