/-
Label operations on labels of the form `ofBits b` (C01b): everything the insertion algorithm does
with labels, stated on bit strings.
-/
import AkdModel.Thm.C17
import AkdModel.Lemmas.CanonLemmas
namespace Akd.Ins
open Akd NodeLabel

theorem ofBits_len (b : BitStr) : (ofBits b).len = b.length := rfl

theorem ofBits_inj {a b : BitStr} (ha : a.length ≤ 256) (hb : b.length ≤ 256)
    (h : ofBits a = ofBits b) : a = b := by
  rw [← C17.bits_ofBits a ha, ← C17.bits_ofBits b hb, h]

theorem ofBits_nil : ofBits [] = NodeLabel.root := by
  decide

theorem normalised_of_len_ge (l : NodeLabel) (h : 256 ≤ l.len) : l.Normalised := by
  unfold Normalised bits
  have : l.bits256.length = 256 := bits256_length l
  rw [List.take_of_length_le (by omega)]
  have : 256 - l.len = 0 := by omega
  simp [this]

/-- the longest common prefix of two `ofBits` labels, provided the empty label has length 0 -/
theorem lcp_ofBits (e : NodeLabel) (he : e.len = 0) (x y : BitStr) (hx : x.length ≤ 256)
    (hy : y.length ≤ 256) : lcp e (ofBits x) (ofBits y) = ofBits (BitStr.commonPrefix x y) := by
  by_cases hxe : ofBits x = e
  · have : x = [] := by
      have := congrArg NodeLabel.len hxe
      rw [ofBits_len, he] at this
      exact List.eq_nil_of_length_eq_zero this
    subst this
    rw [C17.lcp_empty e _ _ (.inl hxe)]
    rw [← hxe]
    cases y <;> rfl
  by_cases hye : ofBits y = e
  · have : y = [] := by
      have := congrArg NodeLabel.len hye
      rw [ofBits_len, he] at this
      exact List.eq_nil_of_length_eq_zero this
    subst this
    rw [C17.lcp_empty e _ _ (.inr hye)]
    rw [← hye]
    cases x <;> rfl
  obtain ⟨h1, h2, h3⟩ := C17.lcp_spec e (ofBits x) (ofBits y) hxe hye (by simpa [ofBits_len])
    (by simpa [ofBits_len])
  rw [C17.bits_ofBits x hx, C17.bits_ofBits y hy] at h1 h2
  have hle : (BitStr.commonPrefix x y).length ≤ 256 :=
    Nat.le_trans (Canon.commonPrefix_prefix_left x y).length_le hx
  have hn : (lcp e (ofBits x) (ofBits y)).Normalised := by
    by_cases hlt : (lcp e (ofBits x) (ofBits y)).len < 256
    · exact h3 hlt
    · exact normalised_of_len_ge _ (by omega)
  rw [← C17.ofBits_bits _ (by omega) hn, h1]

theorem prefixOrdering_ofBits (p b : BitStr) (hp : p.length ≤ 256) (hb : b.length ≤ 256) :
    ((ofBits p).prefixOrdering (ofBits b) = .withZero ↔ (p ++ [false]) <+: b) ∧
    ((ofBits p).prefixOrdering (ofBits b) = .withOne ↔ (p ++ [true]) <+: b) := by
  have := C17.prefixOrdering_spec (ofBits p) (ofBits b) (by simpa [ofBits_len]) (by simpa [ofBits_len])
  rwa [C17.bits_ofBits p hp, C17.bits_ofBits b hb] at this

theorem isPrefixOf_ofBits (p b : BitStr) (hp : p.length ≤ 256) (hb : b.length ≤ 256) :
    (ofBits p).isPrefixOf (ofBits b) = true ↔ p <+: b := by
  have := C17.isPrefixOf_iff (ofBits p) (ofBits b) (by simpa [ofBits_len]) (by simpa [ofBits_len])
  rwa [C17.bits_ofBits p hp, C17.bits_ofBits b hb] at this

/-! ### the common prefix of a non-empty batch -/

/-- the fold of `get_longest_common_prefix` over the unsorted representation, on bit strings -/
def lcpAll {α} : List (BitStr × α) → BitStr
  | [] => []
  | x :: rest => rest.foldl (fun acc n => BitStr.commonPrefix n.1 acc) x.1

theorem prefix_lcpAll_iff {α} (bs : List (BitStr × α)) (hne : bs ≠ []) (z : BitStr) :
    z <+: lcpAll bs ↔ ∀ b ∈ bs, z <+: b.1 := by
  cases bs with
  | nil => exact absurd rfl hne
  | cons x rest =>
    simp only [lcpAll]
    rw [prefix_foldl_commonPrefix_iff (fun n : BitStr × α => n.1)]
    simp

theorem lcpAll_prefix {α} (bs : List (BitStr × α)) (hne : bs ≠ []) : ∀ b ∈ bs, lcpAll bs <+: b.1 :=
  (prefix_lcpAll_iff bs hne _).1 (List.prefix_refl _)

theorem lcpAll_length_le {α} (bs : List (BitStr × α)) (hne : bs ≠ []) (h : ∀ b ∈ bs, b.1.length ≤ 256) :
    (lcpAll bs).length ≤ 256 := by
  obtain ⟨b, hb⟩ := List.exists_mem_of_ne_nil bs hne
  exact Nat.le_trans (lcpAll_prefix bs hne b hb).length_le (h b hb)

end Akd.Ins
