/-
C11: the set of pre-existing labels of a represented root, and the core of the theorem: after the
insertion inside a transaction every log record under a pre-existing key still shows, as of the
previous epoch, the version the database holds.
-/
import AkdModel.Lemmas.PartialRoot
import AkdModel.Lemmas.PublishStore
namespace Akd.Part
open Akd NodeLabel NodeStore
open Akd.Canon (Incomp)
open Akd.Ins
open Akd.C13 (eraseParent)

/-- the labels of the nodes of a root: `[]` and the labels of its sub-trees -/
def RootK (t : CRoot) (q : BitStr) : Prop := q = [] ∨ q ∈ olbls t.l ++ olbls t.r

theorem rootK_length {t : CRoot} (hwf : t.WF) (hlen : ∀ lf ∈ t.leaves, lf.lbl.length ≤ 256) :
    ∀ q, RootK t q → q.length ≤ 256 := by
  intro q hq
  rcases hq with rfl | hq
  · simp
  · rcases List.mem_append.1 hq with h | h
    · cases hl : t.l with
      | none => simp [olbls, hl] at h
      | some a =>
        simp only [olbls, hl, Option.map_some, Option.getD_some] at h
        exact lbls_length_le (hwf.1 a hl).2
          (fun lf hlf => hlen lf (by simp [CRoot.leaves, hl, hlf])) q h
    · cases hr : t.r with
      | none => simp [olbls, hr] at h
      | some b =>
        simp only [olbls, hr, Option.map_some, Option.getD_some] at h
        exact lbls_length_le (hwf.2 b hr).2
          (fun lf hlf => hlen lf (by simp [CRoot.leaves, hr, hlf])) q h

theorem rootK_gk {t : CRoot} (hwf : t.WF) (d : Bool) : GK (RootK t) [d] (if d then t.r else t.l) := by
  intro q hq hpq
  have hside : ∀ (o : Option CTree) (b : Bool), (∀ a, o = some a → [b] <+: a.lbl ∧ a.WF) →
      q ∈ olbls o → b = d := by
    intro o b ho hm
    cases o with
    | none => simp [olbls] at hm
    | some a =>
      simp only [olbls, Option.map_some, Option.getD_some] at hm
      have h1 : ([] ++ [b]) <+: q := (ho a rfl).1.trans (lbls_prefix (ho a rfl).2 q hm)
      exact snoc_prefix_unique (p := []) h1 hpq
  rcases hq with rfl | hq
  · have := hpq.length_le
    simp at this
  · rcases List.mem_append.1 hq with h | h
    · have := hside t.l false hwf.1 h
      subst this
      exact h
    · have := hside t.r true hwf.2 h
      subst this
      exact h

/-- reading after a sequence of writes: the old binding, or the last written record with that label -/
theorem foldl_set_get : ∀ (W : List NodeRec) (db : NodeMap) (k : NodeLabel),
    NodeMap.get? (W.foldl NodeMap.set db) k = NodeMap.get? db k ∨
      ∃ r ∈ W, r.label = k ∧ NodeMap.get? (W.foldl NodeMap.set db) k = some r
  | [], _, _ => .inl rfl
  | r :: W, db, k => by
    rw [List.foldl_cons]
    rcases foldl_set_get W (NodeMap.set db r) k with h | ⟨r', hr', hl, h⟩
    · rw [Ins.map_get_set] at h
      by_cases hk : k = r.label
      · rw [if_pos hk] at h
        exact .inr ⟨r, List.mem_cons_self, hk.symm, h⟩
      · rw [if_neg hk] at h
        exact .inl h
    · exact .inr ⟨r', List.mem_cons_of_mem _ hr', hl, h⟩

theorem get?_mem : ∀ (m : NodeMap) (k : NodeLabel) (r : NodeRec), NodeMap.get? m k = some r → (k, r) ∈ m
  | [], _, _, h => by simp [NodeMap.get?] at h
  | (k', r') :: rest, k, r, h => by
    simp only [NodeMap.get?] at h
    split at h
    · rename_i hk
      cases h
      rw [hk]
      exact List.mem_cons_self
    · exact List.mem_cons_of_mem _ (get?_mem rest k r h)

/-- the core of C11 -/
theorem partial_core (c : Cfg) (hc : c.emptyLabel.len = 0)
    (s : NodeStore) (a : Azks) (t : CRoot)
    (hidle : s.inTxn = false ∧ s.log = [])
    (hrep : C01.ReprRoot c .directory s t) (hwf : t.WF)
    (hat : ∀ k r, s.db.get? k = some r → r.latest.lastEpoch ≤ a.latestEpoch)
    (hep : ∀ lf ∈ t.leaves, 1 ≤ lf.ep ∧ lf.ep ≤ a.latestEpoch)
    (els : List (BitStr × Dig))
    (hpf : C01.PrefixFree (t.leaves ++ C01.newLeaves els (a.latestEpoch + 1)))
    (hlen : ∀ lf ∈ t.leaves ++ C01.newLeaves els (a.latestEpoch + 1), 1 ≤ lf.lbl.length ∧ lf.lbl.length ≤ 256)
    (s' : NodeStore) (a' : Azks)
    (hins : s.begin.batchInsert c .directory a (els.map fun x => (NodeLabel.ofBits x.1, x.2)) = .ok (s', a')) :
    Pub.LogOK s' ∧
    ∀ q r' r, RootK t q → s'.log.get? (ofBits q) = some r' → s.db.get? (ofBits q) = some r →
      ∃ n, r'.resolve a.latestEpoch = .ok n ∧ eraseParent n = eraseParent r.latest := by
  have hrepb : C01.ReprRoot c .directory s.begin t :=
    Pub.reprRoot_getRec_congr c _ s s.begin (Pub.getRec_begin s hidle.1 hidle.2) t hrep
  have hK := rootK_length hwf (fun lf h => (hlen lf (List.mem_append_left _ h)).2)
  have hD : DbAt s.db (a.latestEpoch + 1) (RootK t) := fun q r _ hr => Nat.lt_succ_of_le (hat _ r hr)
  have hti : TI s.db (a.latestEpoch + 1) (RootK t) s.begin :=
    ⟨rfl, rfl, fun q r' r _ hl _ => by simp [NodeStore.begin, hidle.2, NodeMap.get?] at hl⟩
  obtain ⟨s'', n, t', hrun, _, _, _, hti'⟩ :=
    batchInsert_rootP hK c hc .directory s.begin a t ((C01.reprRoot_iff c _ _ t).1 hrepb) hwf hep els hpf hlen
      hD hti (rootK_gk hwf)
  have hrun' : s.begin.batchInsert c .directory a (els.map fun x => (NodeLabel.ofBits x.1, x.2))
      = .ok (s'', ⟨a.latestEpoch + 1, n⟩) := hrun
  rw [hrun'] at hins
  cases hins
  refine ⟨Pub.logOK_batchInsert hrun' (Pub.logOK_begin s hidle.2), ?_⟩
  intro q r' r hq hl hd
  have := hti'.2.2 q r' r hq hl hd
  simpa using this

end Akd.Part
