/-
Helper lemmas for C04 (storage part): `appendOnlyHelper` over a store that represents a trie
returns the element lists `ER` / `IR` of `AuditGenRoot`; the loop of `appendOnlyProof`.
-/
import AkdModel.Lemmas.AuditGenRoot
namespace Akd.AGen
open Akd
open Akd.Ins (maxEp minEp oleaves NodeIs Rep RepRoot oMax oMin olbl)

/-! ### one step of the walk -/

/-- the `side` closure of `appendOnlyHelper` -/
def hside (c : Cfg) (s : NodeStore) (latest lo hi fuel : Nat) (l : Option NodeLabel) :
    Except Err (List AzksElement × List AzksElement) :=
  match l with
  | none => .ok ([], [])
  | some cl =>
    match s.getNode cl latest with
    | .error e => .error e
    | .ok ch => NodeStore.appendOnlyHelper c s latest lo hi fuel ch

def hcomb (a b : Except Err (List AzksElement × List AzksElement)) :
    Except Err (List AzksElement × List AzksElement) :=
  match a, b with
  | .ok (u1, l1), .ok (u2, l2) => .ok (u1 ++ u2, l1 ++ l2)
  | .error e, _ => .error e
  | _, .error e => .error e

theorem helper_succ (c : Cfg) (s : NodeStore) (latest lo hi fuel : Nat) (node : TreeNode) :
    NodeStore.appendOnlyHelper c s latest lo hi (fuel + 1) node =
      if node.lastEpoch ≤ lo then
        if node.nodeType = .root then .ok ([], [])
        else .ok ([⟨node.label, nodeToAzksValue c true (some node)⟩], [])
      else if node.minDescEpoch > hi then .ok ([], [])
      else if node.nodeType = .leaf then .ok ([], [⟨node.label, node.hash⟩])
      else hcomb (hside c s latest lo hi fuel node.left) (hside c s latest lo hi fuel node.right) := by
  rfl

theorem azksValue_dir {c : Cfg} {T : CTree} {n : TreeNode} (h : NodeIs c .directory T n) :
    nodeToAzksValue c true (some n) = T.azks c .withLeafEpoch := by
  have := Ins.azksValue_nodeIs h
  simpa [Ins.hm] using this

/-! ### the walk below the root -/

theorem helper_tree (c : Cfg) (s : NodeStore) (latest lo hi : Nat) (hlh : lo ≤ hi) :
    ∀ (T : CTree) (fuel : Nat), T.WF → (∀ lf ∈ T.leaves, lf.lbl.length ≤ 256) →
      maxEp T ≤ latest → Rep c .directory s T → 257 ≤ fuel + T.lbl.length →
      ∀ n, NodeIs c .directory T n →
      NodeStore.appendOnlyHelper c s latest lo hi fuel n = .ok (E c lo lo T, I lo hi T)
  | .leaf q v e, fuel, _, hlen, _, _, hfuel, n, hn => by
    have hq : q.length ≤ 256 := hlen ⟨q, v, e⟩ (by simp [CTree.leaves])
    simp only [CTree.lbl] at hfuel
    obtain ⟨f, rfl⟩ : ∃ f, fuel = f + 1 := ⟨fuel - 1, by omega⟩
    have hv := azksValue_dir hn
    obtain ⟨h1, h2, _, _, h5, h6, h7⟩ := hn
    rw [helper_succ, h6, h7, h2, h1, h5, hv]
    simp only [E, I, CTree.azks]
    by_cases a1 : e ≤ lo
    · rw [if_pos a1, if_neg (by decide), if_pos a1, if_neg (show ¬ (lo < e ∧ e ≤ hi) by omega)]
    · rw [if_neg a1, if_neg a1]
      by_cases a2 : e > hi
      · rw [if_pos a2, if_neg (show ¬ (lo < e ∧ e ≤ hi) by omega)]
      · rw [if_neg a2, if_pos trivial, if_pos (show lo < e ∧ e ≤ hi by omega)]
  | .node q l r, fuel, hwf, hlen, hmax, hrep, hfuel, n, hn => by
    have hq : q.length ≤ 256 := Ins.lbl_length_le (.node q l r) hwf hlen
    simp only [CTree.lbl] at hfuel
    obtain ⟨f, rfl⟩ : ∃ f, fuel = f + 1 := ⟨fuel - 1, by omega⟩
    have hv := azksValue_dir hn
    obtain ⟨h1, h2, h3, h4, _, h6, h7⟩ := hn
    rw [helper_succ, h6, h7, h2, h1, hv]
    by_cases a1 : maxEp (.node q l r) ≤ lo
    · rw [if_pos a1, if_neg (by decide), I_nil_max lo hi _ a1]
      simp only [E, if_pos a1]
      rfl
    · rw [if_neg a1]
      by_cases a2 : minEp (.node q l r) > hi
      · rw [if_pos a2, E_nil c lo lo (Nat.le_refl _) _ (by omega), I_nil_min lo hi _ a2]
      · rw [if_neg a2, if_neg (by decide)]
        -- both sides
        have hsideL : hside c s latest lo hi f n.left = .ok (E c lo lo l, I lo hi l) := by
          obtain ⟨⟨rl, hg, hnl⟩, _⟩ := (Ins.rep_iff c .directory s l).1 hrep.2.1
          have hml : maxEp l ≤ latest := by simp only [maxEp] at hmax; omega
          rw [h3]
          simp only [hside]
          rw [Ins.getNode_latest s _ rl latest hg (by rw [Ins.nodeIs_lastEpoch hnl]; exact hml)]
          simp only
          have hp := hwf.1.length_le
          simp only [List.length_append, List.length_singleton] at hp
          exact helper_tree c s latest lo hi hlh l f hwf.2.2.1
            (fun lf h => hlen lf (List.mem_append_left _ h)) hml hrep.2.1 (by omega) rl.latest hnl
        have hsideR : hside c s latest lo hi f n.right = .ok (E c lo lo r, I lo hi r) := by
          obtain ⟨⟨rr, hg, hnr⟩, _⟩ := (Ins.rep_iff c .directory s r).1 hrep.2.2
          have hmr : maxEp r ≤ latest := by simp only [maxEp] at hmax; omega
          rw [h4]
          simp only [hside]
          rw [Ins.getNode_latest s _ rr latest hg (by rw [Ins.nodeIs_lastEpoch hnr]; exact hmr)]
          simp only
          have hp := hwf.2.1.length_le
          simp only [List.length_append, List.length_singleton] at hp
          exact helper_tree c s latest lo hi hlh r f hwf.2.2.2
            (fun lf h => hlen lf (List.mem_append_right _ h)) hmr hrep.2.2 (by omega) rr.latest hnr
        rw [hsideL, hsideR]
        simp only [hcomb, E, I, if_neg a1]

/-! ### the walk from the root -/

theorem hside_opt (c : Cfg) (s : NodeStore) (latest lo hi : Nat) (hlh : lo ≤ hi) (o : Option CTree) (b : Bool)
    (hwf : ∀ a, o = some a → [b] <+: a.lbl ∧ a.WF) (hlen : ∀ lf ∈ oleaves o, lf.lbl.length ≤ 256)
    (hmax : ∀ lf ∈ oleaves o, lf.ep ≤ latest) (hrep : ∀ a, o = some a → Rep c .directory s a) :
    hside c s latest lo hi 299 (olbl o) = .ok (oE c lo lo o, oI lo hi o) := by
  cases o with
  | none => rfl
  | some a =>
    obtain ⟨⟨ra, hg, hna⟩, _⟩ := (Ins.rep_iff c .directory s a).1 (hrep a rfl)
    have hma : maxEp a ≤ latest := Ins.maxEp_le a latest hmax
    simp only [olbl, Option.map_some, hside]
    rw [Ins.getNode_latest s _ ra latest hg (by rw [Ins.nodeIs_lastEpoch hna]; exact hma)]
    simp only [oE, oI]
    exact helper_tree c s latest lo hi hlh a 299 (hwf a rfl).2 hlen hma (hrep a rfl) (by omega) ra.latest hna

theorem oE_nil (c : Cfg) (lo : Nat) (o : Option CTree) (h : ∀ a, o = some a → lo < minEp a) : oE c lo lo o = [] := by
  cases o with
  | none => rfl
  | some a => exact E_nil c lo lo (Nat.le_refl _) a (h a rfl)

theorem oI_nil (lo hi : Nat) (o : Option CTree) (h : ∀ a, o = some a → hi < minEp a) : oI lo hi o = [] := by
  cases o with
  | none => rfl
  | some a => exact I_nil_min lo hi a (h a rfl)

theorem oMin_lt (hi : Nat) (a b : Option CTree) (h : hi < oMin a b) :
    (∀ x, a = some x → hi < minEp x) ∧ (∀ x, b = some x → hi < minEp x) := by
  cases a <;> cases b <;> simp_all [oMin] <;> omega

theorem le_oMax (t : CRoot) (lf : Leaf) (h : lf ∈ t.leaves) : lf.ep ≤ oMax t.l t.r := by
  rw [leaves_eq] at h
  unfold oMax
  rcases List.mem_append.mp h with h | h
  · cases hl : t.l with
    | none => rw [hl] at h; cases h
    | some a =>
      rw [hl] at h
      have := Ins.le_maxEp a lf h
      simp only [Option.map_some, Option.getD_some]
      omega
  · cases hr : t.r with
    | none => rw [hr] at h; cases h
    | some a =>
      rw [hr] at h
      have := Ins.le_maxEp a lf h
      simp only [Option.map_some, Option.getD_some]
      omega

theorem getNode_root (c : Cfg) (s : NodeStore) (latest : Nat) (t : CRoot)
    (hmax : ∀ lf ∈ t.leaves, lf.ep ≤ latest) (hrep : RepRoot c .directory s t) :
    ∃ r, s.getRec NodeLabel.root = some r ∧ s.getNode NodeLabel.root latest = .ok r.latest := by
  obtain ⟨⟨r, hg, _, _, _, _, _, hlast, _⟩, _, _⟩ := hrep
  exact ⟨r, hg, Ins.getNode_latest s _ r latest hg (by rw [hlast]; exact Ins.oMax_le _ _ _ hmax)⟩

theorem helper_root (c : Cfg) (s : NodeStore) (latest lo hi : Nat) (hlh : lo ≤ hi) (t : CRoot) (hwf : t.WF)
    (hlen : ∀ lf ∈ t.leaves, lf.lbl.length ≤ 256) (hmax : ∀ lf ∈ t.leaves, lf.ep ≤ latest)
    (hrep : RepRoot c .directory s t) (hne : t.leaves = [] ∨ lo < oMax t.l t.r)
    (root : TreeNode) (hroot : s.getNode NodeLabel.root latest = .ok root) :
    NodeStore.appendOnlyHelper c s latest lo hi 300 root = .ok (ER c lo lo t, IR lo hi t) := by
  obtain ⟨⟨r, hg, _, hty, hleft, hright, _, hlast, hmin⟩, hrl, hrr⟩ := hrep
  rw [Ins.getNode_latest s _ r latest hg (by rw [hlast]; exact Ins.oMax_le _ _ _ hmax)] at hroot
  obtain rfl : r.latest = root := Except.ok.inj hroot
  rw [helper_succ, hlast, hmin, hty, hleft, hright]
  rw [leaves_eq] at hlen hmax
  by_cases a1 : oMax t.l t.r ≤ lo
  · -- only possible for the empty tree
    rw [if_pos a1, if_pos rfl]
    have he : t.leaves = [] := by
      rcases hne with h | h
      · exact h
      · omega
    rw [leaves_eq] at he
    have hl : t.l = none := by
      cases hl : t.l with
      | none => rfl
      | some a =>
        rw [hl] at he
        exact absurd (List.append_eq_nil_iff.mp he).1 (CTree.leaves_ne_nil a)
    have hr : t.r = none := by
      cases hr : t.r with
      | none => rfl
      | some a =>
        rw [hr] at he
        exact absurd (List.append_eq_nil_iff.mp he).2 (CTree.leaves_ne_nil a)
    simp only [ER, IR, hl, hr, oE, oI, List.append_nil]
  · rw [if_neg a1]
    by_cases a2 : oMin t.l t.r > hi
    · rw [if_pos a2]
      obtain ⟨m1, m2⟩ := oMin_lt hi t.l t.r a2
      simp only [ER, IR]
      rw [oE_nil c lo t.l (fun x hx => by have := m1 x hx; omega),
        oE_nil c lo t.r (fun x hx => by have := m2 x hx; omega), oI_nil lo hi t.l m1, oI_nil lo hi t.r m2]
      rfl
    · rw [if_neg a2, if_neg (by decide)]
      rw [hside_opt c s latest lo hi hlh t.l false hwf.1 (fun lf h => hlen lf (List.mem_append_left _ h))
          (fun lf h => hmax lf (List.mem_append_left _ h)) hrl,
        hside_opt c s latest lo hi hlh t.r true hwf.2 (fun lf h => hlen lf (List.mem_append_right _ h))
          (fun lf h => hmax lf (List.mem_append_right _ h)) hrr]
      rfl

/-! ### the loop of `appendOnlyProof` -/

def proofsFrom (c : Cfg) (t : CRoot) : Nat → Nat → List NodeStore.SingleAppendOnlyProof
  | _, 0 => []
  | ep, k + 1 => ⟨IR ep (ep + 1) t, ER c ep ep t⟩ :: proofsFrom c t (ep + 1) k

def epochsFrom : Nat → Nat → List Nat
  | _, 0 => []
  | ep, k + 1 => ep :: epochsFrom (ep + 1) k

theorem go_spec (c : Cfg) (s : NodeStore) (a : Azks) (root : TreeNode) (t : CRoot) :
    ∀ (k ep : Nat) (acc : NodeStore.AppendOnlyProof),
      (∀ e, ep ≤ e → e < ep + k →
        NodeStore.appendOnlyHelper c s a.latestEpoch e (e + 1) 300 root = .ok (ER c e e t, IR e (e + 1) t)) →
      NodeStore.appendOnlyProof.go c s a root k ep acc
        = .ok ⟨acc.proofs ++ proofsFrom c t ep k, acc.epochs ++ epochsFrom ep k⟩
  | 0, ep, acc, _ => by
    simp [NodeStore.appendOnlyProof.go, proofsFrom, epochsFrom]
  | k + 1, ep, acc, h => by
    simp only [NodeStore.appendOnlyProof.go]
    rw [h ep (Nat.le_refl _) (by omega)]
    simp only
    rw [go_spec c s a root t k (ep + 1) _ (fun e h1 h2 => h e (by omega) (by omega))]
    simp [proofsFrom, epochsFrom]

theorem proofsFrom_length (c : Cfg) (t : CRoot) : ∀ (k ep : Nat), (proofsFrom c t ep k).length = k
  | 0, _ => rfl
  | k + 1, ep => by simp [proofsFrom, proofsFrom_length c t k]

theorem epochsFrom_length : ∀ (k ep : Nat), (epochsFrom ep k).length = k
  | 0, _ => rfl
  | k + 1, ep => by simp [epochsFrom, epochsFrom_length k]

end Akd.AGen
