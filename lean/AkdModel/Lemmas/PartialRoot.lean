/-
C11: the root level (`Lemmas/InsertRoot.lean` replayed with the transaction invariant), and the
set of pre-existing labels of a represented root.
-/
import AkdModel.Lemmas.PartialCases
namespace Akd.Part
open Akd NodeLabel NodeStore
open Akd.Canon (Incomp)
open Akd.Ins

theorem batchInsert_rootP {D : NodeMap} {K : BitStr → Prop} (hK : ∀ q, K q → q.length ≤ 256)
    (c : Cfg) (hc : c.emptyLabel.len = 0) (m : InsertMode)
    (s : NodeStore) (a : Azks) (t : CRoot)
    (hrep : RepRoot c m s t) (hwf : t.WF)
    (hep : ∀ lf ∈ t.leaves, 1 ≤ lf.ep ∧ lf.ep ≤ a.latestEpoch)
    (els : List (BitStr × Dig))
    (hpf : (t.leaves ++ newLeaves els (a.latestEpoch + 1)).Pairwise Incomp)
    (hlen : ∀ lf ∈ t.leaves ++ newLeaves els (a.latestEpoch + 1), 1 ≤ lf.lbl.length ∧ lf.lbl.length ≤ 256)
    (hD : DbAt D (a.latestEpoch + 1) K) (hti : TI D (a.latestEpoch + 1) K s)
    (hgk : ∀ d : Bool, GK K [d] (if d then t.r else t.l)) :
    ∃ s' n t', s.batchInsert c m a (els.map enc) = .ok (s', ⟨a.latestEpoch + 1, n⟩) ∧
      RepRoot c m s' t' ∧ t'.WF ∧ t'.leaves.Perm (t.leaves ++ newLeaves els (a.latestEpoch + 1)) ∧
      TI D (a.latestEpoch + 1) K s' := by
  by_cases hels : els = []
  · subst hels
    exact ⟨s, a.numNodes, t, rfl, hrep, hwf, by simp [newLeaves], hti⟩
  generalize hepoch : a.latestEpoch + 1 = epoch at hpf hlen hD hti
  have hep1 : 1 ≤ epoch := by omega
  have hlenE : ∀ b ∈ els, 1 ≤ b.1.length ∧ b.1.length ≤ 256 := fun b hb =>
    hlen ⟨b.1, b.2, epoch⟩ (List.mem_append_right _ (List.mem_map_of_mem hb))
  obtain ⟨bs, hperm, hok, hel⟩ := ofList_spec els (fun b hb => (hlenE b hb).2)
  have hne : bs ≠ [] := fun h => hels (by rw [h] at hperm; exact hperm.symm.eq_nil)
  have hlenB : ∀ b ∈ bs, 1 ≤ b.1.length ∧ b.1.length ≤ 256 := fun b hb => hlenE b (hperm.mem_iff.1 hb)
  have hpfB : (t.leaves ++ newLeaves bs epoch).Pairwise Incomp :=
    (List.Perm.pairwise_iff (fun h => Incomp.symm h)
      (List.Perm.append_left _ (newLeaves_perm hperm epoch))).2 hpf
  obtain ⟨⟨r, hg, r1, r2, r3, r4, r5, r6, r7⟩, hrl, hrr⟩ := hrep
  have hlokT : ∀ lf ∈ t.leaves, LeafOK epoch lf := fun lf h =>
    ⟨(hep lf h).1, by have := (hep lf h).2; omega, (hlen lf (List.mem_append_left _ h)).2⟩
  have hmaxle : oMax t.l t.r ≤ epoch := oMax_le _ _ _ (fun lf h => (hlokT lf h).2.1)
  have hgn := getNode_latest s _ r epoch hg (by rw [r6]; exact hmaxle)
  have hlcp := setLcp_spec c.emptyLabel hc _ bs hok hel hne hlenB
  have hl256 := lcpAll_length_le bs hne (fun b hb => (hlenB b hb).2)
  have h1 : phase1 c epoch s (some NodeLabel.root) (ElementSet.ofList (els.map enc))
      = .ok (s, r.latest, false, 0) := by
    unfold phase1
    simp only
    rw [hgn]
    simp only
    rw [hlcp, ← ofBits_nil, lcp_ofBits c.emptyLabel hc _ _ (by simp) hl256]
    have : BitStr.commonPrefix [] (lcpAll bs) = [] := by cases lcpAll bs <;> rfl
    rw [this, if_neg (Nat.lt_irrefl _)]
  have hst : St c m epoch [] .root s r.latest (fun b => if b then t.r else t.l) False := by
    refine ⟨r1.trans ofBits_nil.symm, r2, r3, r4, by rw [r6]; exact hmaxle, fun h => h.elim, .inl r7,
      fun h => h.elim, ?_, ?_⟩
    · intro b t' hbt
      cases b
      · simp only [Bool.false_eq_true, if_false] at hbt
        exact ⟨hrl t' hbt, (hwf.1 t' hbt).2, by simpa using (hwf.1 t' hbt).1⟩
      · simp only [if_true] at hbt
        exact ⟨hrr t' hbt, (hwf.2 t' hbt).2, by simpa using (hwf.2 t' hbt).1⟩
    · intro b lf hlf
      apply hlokT
      cases b
      · simp only [Bool.false_eq_true, if_false] at hlf
        exact List.mem_append_left _ hlf
      · simp only [if_true] at hlf
        exact List.mem_append_right _ hlf
  obtain ⟨s', cur', num', ch', hrun, hst', hhash, hperm', hnone, hfr, hti'⟩ :=
    finishP hK c m epoch 299 hep1 hD (spec_allP hK c m epoch hc hep1 hD 299) hst (by decide) (by simp) false 0 _
      bs hok hel hne
      (fun b hb => ⟨List.nil_prefix, Nat.lt_of_lt_of_le Nat.zero_lt_one (hlenB b hb).1, (hlenB b hb).2⟩)
      hpfB hti hgk
  obtain ⟨pv, hw⟩ := writeNode_ok s' cur' false
  have hti2 : TI D epoch K (s'.setRec ⟨cur'.label, cur', pv⟩) :=
    ti_write_epoch hD hep1 hti' (hst'.last_eq trivial) hw
  -- at least one child
  obtain ⟨b0, hb0⟩ := List.exists_mem_of_ne_nil bs hne
  have hsomeone : ¬ (ch' false = none ∧ ch' true = none) := by
    rintro ⟨h0, h1⟩
    obtain ⟨d, hd⟩ := goes_exists (p := []) (x := b0) List.nil_prefix (Nat.lt_of_lt_of_le Nat.zero_lt_one (hlenB b0 hb0).1)
    have hm : b0 ∈ bs.filter (goes [] d) := List.mem_filter.2 ⟨hb0, hd⟩
    cases d
    · rw [(hnone false h0).2] at hm; simp at hm
    · rw [(hnone true h1).2] at hm; simp at hm
  have hpermT : (oleaves (ch' false) ++ oleaves (ch' true)).Perm (t.leaves ++ newLeaves els epoch) :=
    hperm'.trans (List.Perm.append_left _ (newLeaves_perm hperm epoch))
  have hnew : (⟨b0.1, b0.2, epoch⟩ : Leaf) ∈ oleaves (ch' false) ++ oleaves (ch' true) :=
    hperm'.mem_iff.2 (List.mem_append_right _ (List.mem_map_of_mem hb0))
  have hle : ∀ lf ∈ oleaves (ch' false) ++ oleaves (ch' true), lf.ep ≤ epoch := by
    intro lf h
    rcases List.mem_append.1 h with h | h
    · exact (hst'.leafok false lf h).2.1
    · exact (hst'.leafok true lf h).2.1
  refine ⟨s'.setRec ⟨cur'.label, cur', pv⟩, a.numNodes + num', ⟨ch' false, ch' true⟩, ?_, ⟨?_, ?_, ?_⟩, ⟨?_, ?_⟩,
    hpermT, hti2⟩
  · unfold batchInsert
    simp only [hepoch]
    have hemp : (ElementSet.ofList (els.map enc)).elems.isEmpty = false := by
      rw [hel]
      cases bs with
      | nil => exact absurd rfl hne
      | cons _ _ => rfl
    rw [hemp]
    simp only [Bool.false_eq_true, if_false]
    rw [show (300 : Nat) = 299 + 1 from rfl, insertRec_succ, h1]
    simp only
    rw [hrun]
    simp only
    rw [hw]
  · refine ⟨⟨cur'.label, cur', pv⟩, ?_, hst'.label.trans ofBits_nil, hst'.type, hst'.left, hst'.right, ?_, ?_,
      hst'.min_eq trivial⟩
    · rw [← ofBits_nil, ← hst'.label]
      exact getRec_setRec_self _ _
    · rw [hhash]
      unfold CRoot.value
      cases h0 : ch' false with
      | none =>
        cases h1 : ch' true with
        | none => exact absurd ⟨h0, h1⟩ hsomeone
        | some y => rfl
      | some x => rfl
    · rw [hst'.last_eq trivial]
      exact (oMax_eq _ _ epoch hle _ hnew rfl).symm
  · intro x hx
    have hx : ch' false = some x := hx
    obtain ⟨k1, k2, k3⟩ := hst'.kids false x hx
    apply rep_setRec x k2 (fun lf h => (hst'.leafok false lf (by simp [oleaves, hx, h])).2.2) [] (by simp)
      _ _ hst'.label k1
    intro h
    have := (k3.trans h).length_le
    simp at this
  · intro x hx
    have hx : ch' true = some x := hx
    obtain ⟨k1, k2, k3⟩ := hst'.kids true x hx
    apply rep_setRec x k2 (fun lf h => (hst'.leafok true lf (by simp [oleaves, hx, h])).2.2) [] (by simp)
      _ _ hst'.label k1
    intro h
    have := (k3.trans h).length_le
    simp at this
  · intro x hx
    obtain ⟨_, k2, k3⟩ := hst'.kids false x hx
    exact ⟨by simpa using k3, k2⟩
  · intro x hx
    obtain ⟨_, k2, k3⟩ := hst'.kids true x hx
    exact ⟨by simpa using k3, k2⟩

end Akd.Part
