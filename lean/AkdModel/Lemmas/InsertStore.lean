/-
Storage frame lemmas for the refinement proof (C01b): reads after writes.
-/
import AkdModel.Insert
namespace Akd.Ins
open Akd

theorem map_get_set (m : NodeMap) (r : NodeRec) (k : NodeLabel) :
    NodeMap.get? (NodeMap.set m r) k = if k = r.label then some r else NodeMap.get? m k := by
  induction m with
  | nil =>
    simp only [NodeMap.set, NodeMap.get?]
    by_cases h : k = r.label
    · simp [h]
    · have h' : ¬ r.label = k := fun e => h e.symm
      simp [h, h']
  | cons kr rest ih =>
    obtain ⟨k', r'⟩ := kr
    simp only [NodeMap.set]
    by_cases h1 : k' = r.label
    · simp only [h1, if_true, NodeMap.get?]
      by_cases h : k = r.label
      · simp [h]
      · have h' : ¬ r.label = k := fun e => h e.symm
        simp [h, h']
    · simp only [h1, if_false, NodeMap.get?]
      by_cases h2 : k' = k
      · have h : ¬ k = r.label := fun e => h1 (h2.trans e)
        simp [h2, h]
      · simp [h2, ih]

/-- a record written under its own label (`r.label` is the key) is what is read back -/
theorem getRec_setRec (s : NodeStore) (r : NodeRec) (k : NodeLabel) :
    (s.setRec r).getRec k = if k = r.label then some r else s.getRec k := by
  unfold NodeStore.setRec NodeStore.getRec
  cases hs : s.inTxn
  · simp only [Bool.false_eq_true, if_false, map_get_set]
  · simp only [if_true, map_get_set]
    by_cases h : k = r.label
    · simp [h]
    · simp [h]

theorem getRec_setRec_self (s : NodeStore) (r : NodeRec) : (s.setRec r).getRec r.label = some r := by
  rw [getRec_setRec]; simp

theorem getRec_setRec_ne (s : NodeStore) (r : NodeRec) (k : NodeLabel) (h : k ≠ r.label) :
    (s.setRec r).getRec k = s.getRec k := by
  rw [getRec_setRec]; simp [h]

theorem getNode_cases (s : NodeStore) (k : NodeLabel) (ep : Nat) :
    (∃ n, s.getNode k ep = .ok n) ∨ s.getNode k ep = .error .notFound := by
  unfold NodeStore.getNode
  cases s.getRec k with
  | none => exact .inr rfl
  | some r =>
    simp only [NodeRec.resolve]
    split
    · cases r.previous with
      | none => exact .inr rfl
      | some p =>
        by_cases hp : p.lastEpoch > ep
        · exact .inr (by simp [hp])
        · exact .inl ⟨p, by simp [hp]⟩
    · exact .inl ⟨_, rfl⟩

/-- `writeNode` never fails; it replaces the record under `n.label` by one whose latest version is `n` -/
theorem writeNode_ok (s : NodeStore) (n : TreeNode) (isNew : Bool) :
    ∃ p, s.writeNode n isNew = .ok (s.setRec ⟨n.label, n, p⟩) := by
  unfold NodeStore.writeNode
  cases isNew
  · simp only [Bool.false_eq_true, if_false]
    generalize (if n.lastEpoch > 0 then n.lastEpoch - 1 else n.lastEpoch) = tgt
    rcases getNode_cases s n.label tgt with ⟨p, hp⟩ | hp
    · rw [hp]; exact ⟨some p, rfl⟩
    · rw [hp]; exact ⟨none, rfl⟩
  · exact ⟨none, rfl⟩

theorem getNode_latest (s : NodeStore) (k : NodeLabel) (r : NodeRec) (ep : Nat)
    (h : s.getRec k = some r) (hep : r.latest.lastEpoch ≤ ep) : s.getNode k ep = .ok r.latest := by
  unfold NodeStore.getNode NodeRec.resolve
  rw [h]
  simp only
  rw [if_neg (by omega)]

end Akd.Ins
