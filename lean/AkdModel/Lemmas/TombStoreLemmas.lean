/-
Helper lemmas for C20b (storage level): `State.tombstone` rewrites exactly the selected states of the
label's view and nothing else.
-/
import AkdModel.Lemmas.StoreLemmas
import AkdModel.Lemmas.StoreSelect
namespace Akd.Store

namespace Map

theorem mem_iff_get? {m : Map} (h : m.KU) {r : Rec} : r ∈ m ↔ m.get? r.key = some r :=
  ⟨fun hr => get?_of_mem h hr, fun hg => get?_some_mem hg⟩

/-- overwriting `D` by (`L` overwritten by `U`) has the same bindings as overwriting (`D` overwritten
by `L`) by `U` -/
theorem get?_setAll_assoc (D : Map) {L U : Map} (hL : Map.KU L) (hU : Map.KU U) (k : Key) :
    (D.setAll (L.setAll U)).get? k = ((D.setAll L).setAll U).get? k := by
  rw [get?_setAll D (KU_setAll hL U), get?_setAll L hU, get?_setAll _ hU, get?_setAll D hL]
  cases Map.get? U k <;> rfl

theorem mem_setAll_assoc {D L U : Map} (hD : D.KU) (hL : Map.KU L) (hU : Map.KU U) (r : Rec) :
    r ∈ D.setAll (L.setAll U) ↔ r ∈ (D.setAll L).setAll U := by
  rw [mem_iff_get? (KU_setAll hD _), mem_iff_get? (KU_setAll (KU_setAll hD L) U),
    get?_setAll_assoc D hL hU]

/-- membership in `setAll`, with the side condition as a statement about the batch's keys -/
theorem mem_setAll_iff' {m rs : Map} (hm : m.KU) (hrs : Map.KU rs) {x : Rec} :
    x ∈ m.setAll rs ↔ x ∈ rs ∨ (x ∈ m ∧ ∀ y ∈ rs, y.key ≠ x.key) := by
  rw [mem_setAll_iff hm hrs, get?_eq_none]

end Map

namespace State

/-- the label's states as the manager sees them (the body of `view` of `Thm/C20b.lean`) -/
def tview (s : State) (u : Nat) : List Rec :=
  if s.active then Map.setAll (userStates s.db u) (userStates s.log u) else userStates s.db u

/-- the batch `tombstone` writes -/
def tombUpd (cut : Nat) (data : List Rec) : List Rec :=
  (data.filter (fun r => epochOf r ≤ cut ∧ r.payload ≠ 0)).map (fun r => { r with payload := 0 })

theorem tombstone_eq (p : Params) (s : State) (u cut : Nat) :
    s.tombstone p u cut false =
      if (s.tview u).isEmpty && !s.active then (s, .err)
      else s.batchSet p (tombUpd cut (s.tview u)) false := rfl

theorem tombstone_fail (p : Params) (s : State) (u cut : Nat) :
    s.tombstone p u cut true = (s, .err) := rfl

/-! ### `batchSet`, field by field -/

theorem batchSet_active_eq (p : Params) (s : State) (rs : List Rec) (f : Bool) :
    (s.batchSet p rs f).1.active = s.active := by
  unfold batchSet
  split
  · rfl
  · split
    · rfl
    · split
      · split
        · simp only [cachePutAll_active]
        · simp only [cachePutAll_active]
      · split
        · rfl
        · simp only [cachePutAll_active]

theorem batchSet_txn (p : Params) (s : State) (rs : List Rec) (f : Bool) (ha : s.active = true) :
    (s.batchSet p rs f).1.db = s.db ∧ (s.batchSet p rs f).1.log = s.log.setAll rs := by
  unfold batchSet
  rw [if_pos ha]
  split
  · rename_i he
    have : rs = [] := by simpa using he
    subst this
    exact ⟨rfl, rfl⟩
  · exact ⟨rfl, rfl⟩

theorem batchSet_idle_db (s : State) (rs : List Rec) (ha : s.active = false) :
    (s.batchSet fixed rs false).1.db = s.db.setAll rs := by
  unfold batchSet
  split
  · rename_i he
    have : rs = [] := by simpa using he
    subst this
    rfl
  · simp only [ha, fixed, Bool.false_eq_true, if_false, cachePutAll_db]

/-! ### the batch -/

theorem mem_tombUpd {cut : Nat} {data : List Rec} {r : Rec} :
    r ∈ tombUpd cut data ↔
      ∃ r0 ∈ data, (epochOf r0 ≤ cut ∧ r0.payload ≠ 0) ∧ r = { r0 with payload := 0 } := by
  unfold tombUpd
  rw [List.mem_map]
  constructor
  · rintro ⟨r0, h0, rfl⟩
    have := List.mem_filter.1 h0
    exact ⟨r0, this.1, by simpa using this.2, rfl⟩
  · rintro ⟨r0, h0, hs, rfl⟩
    exact ⟨r0, List.mem_filter.2 ⟨h0, by simpa using hs⟩, rfl⟩

theorem tombUpd_nil (cut : Nat) : tombUpd cut [] = [] := rfl

theorem KU_tombUpd {data : Map} (h : data.KU) (cut : Nat) : Map.KU (tombUpd cut data) := by
  unfold tombUpd
  exact List.Pairwise.map _ (fun a b hab => hab) (Map.KU_filter h _)

theorem userKeyed_tombUpd {u : Nat} {data : Map} (h : UserKeyed u data) (cut : Nat) :
    UserKeyed u (tombUpd cut data) := by
  intro r hr
  obtain ⟨r0, h0, _, rfl⟩ := mem_tombUpd.1 hr
  exact h r0 h0

/-- a map that holds only the label's states passes the label's filter unchanged -/
theorem userStates_of_userKeyed {u : Nat} {m : Map} (h : UserKeyed u m) : userStates m u = m := by
  unfold userStates
  rw [List.filter_eq_self]
  intro a ha
  rw [h a ha]
  simp

theorem UserKeyed.key_ne {u : Nat} {m : Map} (h : UserKeyed u m) {k : Key}
    (hk : ∀ e, k ≠ .vs u e) : ∀ r ∈ m, r.key ≠ k := by
  intro r hr e
  exact hk (epochOf r) (e ▸ h r hr)

theorem UserKeyed.get?_none {u : Nat} {m : Map} (h : UserKeyed u m) {k : Key}
    (hk : ∀ e, k ≠ .vs u e) : Map.get? m k = none :=
  Map.get?_eq_none.2 (h.key_ne hk)

/-! ### the view -/

theorem KU_tview {s : State} (hd : s.db.KU) (_hl : s.log.KU) (u : Nat) : Map.KU (s.tview u) := by
  unfold tview
  split
  · exact Map.KU_setAll (Map.KU_filter hd _) _
  · exact Map.KU_filter hd _

theorem userKeyed_tview (s : State) (u : Nat) : UserKeyed u (s.tview u) := by
  unfold tview
  split
  · exact (userKeyed_userStates _ _).setAll (userKeyed_userStates _ _)
  · exact userKeyed_userStates _ _

/-- overwriting a map with unique keys by its own tombstone batch rewrites the selected records in
place (as a set) -/
theorem mem_setAll_tombUpd {V : Map} (hV : V.KU) (cut : Nat) (r : Rec) :
    r ∈ V.setAll (tombUpd cut V) ↔
      ∃ r0 ∈ V, r = if epochOf r0 ≤ cut ∧ r0.payload ≠ 0 then { r0 with payload := 0 } else r0 := by
  rw [Map.mem_setAll_iff' hV (KU_tombUpd hV cut)]
  constructor
  · rintro (hr | ⟨hr, hn⟩)
    · obtain ⟨r0, h0, hs, rfl⟩ := mem_tombUpd.1 hr
      exact ⟨r0, h0, by rw [if_pos hs]⟩
    · refine ⟨r, hr, ?_⟩
      by_cases hs : epochOf r ≤ cut ∧ r.payload ≠ 0
      · exact absurd rfl (hn { r with payload := 0 } (mem_tombUpd.2 ⟨r, hr, hs, rfl⟩))
      · rw [if_neg hs]
  · rintro ⟨r0, h0, rfl⟩
    by_cases hs : epochOf r0 ≤ cut ∧ r0.payload ≠ 0
    · rw [if_pos hs]
      exact Or.inl (mem_tombUpd.2 ⟨r0, h0, hs, rfl⟩)
    · rw [if_neg hs]
      refine Or.inr ⟨h0, ?_⟩
      intro y hy hk
      obtain ⟨y0, hy0, hys, rfl⟩ := mem_tombUpd.1 hy
      have : y0 = r0 := Map.KU_unique hV hy0 h0 hk
      exact hs (this ▸ hys)

/-- the view after `tombstone` is the old view overwritten by the batch (as a set) -/
theorem mem_tview_tombstone (s : State) (hd : s.db.KU) (hl : s.log.KU) (u cut : Nat) (r : Rec) :
    r ∈ (s.tombstone fixed u cut false).1.tview u ↔
      r ∈ Map.setAll (s.tview u) (tombUpd cut (s.tview u)) := by
  rw [tombstone_eq]
  split
  · rename_i he
    have : s.tview u = [] := by
      simp only [Bool.and_eq_true, List.isEmpty_iff] at he
      exact he.1
    rw [this, tombUpd_nil, Map.setAll_nil]
  · have hU := KU_tombUpd (KU_tview hd hl u) cut
    have hUk := userKeyed_tombUpd (userKeyed_tview s u) cut
    generalize hupd : tombUpd cut (s.tview u) = upd at hU hUk
    cases ha : s.active with
    | true =>
      obtain ⟨e1, e2⟩ := batchSet_txn fixed s upd false ha
      have e3 := batchSet_active_eq fixed s upd false
      have hv : s.tview u = Map.setAll (userStates s.db u) (userStates s.log u) := by
        unfold tview; rw [if_pos ha]
      rw [hv]
      unfold tview
      rw [e3, if_pos ha, e1, e2, userStates_setAll, userStates_of_userKeyed hUk]
      exact Map.mem_setAll_assoc (Map.KU_filter hd _) (Map.KU_filter hl _) hU r
    | false =>
      have e1 := batchSet_idle_db s upd ha
      have e3 := batchSet_active_eq fixed s upd false
      have hv : s.tview u = userStates s.db u := by
        unfold tview; rw [ha]; rfl
      rw [hv]
      unfold tview
      rw [e3, ha, e1, userStates_setAll, userStates_of_userKeyed hUk]
      simp only [Bool.false_eq_true, if_false]

/-! ### the frame -/

theorem tombstone_active_eq (p : Params) (s : State) (u cut : Nat) (f : Bool) :
    (s.tombstone p u cut f).1.active = s.active := by
  cases f
  · rw [tombstone_eq]
    split
    · rfl
    · exact batchSet_active_eq _ _ _ _
  · rfl

/-- lookups of keys that are not states of the label, in the log and in the database -/
theorem tombstone_get?_other (s : State) (hd : s.db.KU) (hl : s.log.KU) (u cut : Nat) (k : Key)
    (hk : ∀ e, k ≠ .vs u e) :
    (s.active = true → (s.tombstone fixed u cut false).1.log.get? k = s.log.get? k) ∧
    (s.tombstone fixed u cut false).1.db.get? k = s.db.get? k := by
  rw [tombstone_eq]
  split
  · exact ⟨fun _ => rfl, rfl⟩
  · have hU := KU_tombUpd (KU_tview hd hl u) cut
    have hn := (userKeyed_tombUpd (userKeyed_tview s u) cut).get?_none hk
    generalize tombUpd cut (s.tview u) = upd at hU hn
    cases ha : s.active with
    | true =>
      obtain ⟨e1, e2⟩ := batchSet_txn fixed s upd false ha
      rw [e1, e2, Map.get?_setAll _ hU, hn]
      exact ⟨fun _ => rfl, rfl⟩
    | false =>
      refine ⟨fun h => (by cases h), ?_⟩
      rw [batchSet_idle_db s upd ha, Map.get?_setAll _ hU, hn]

end State
end Akd.Store
