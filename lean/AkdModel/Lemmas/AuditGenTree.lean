/-
Helper lemmas for C04 (pure part, on canonical tries):

* `restrict hi T`   — the canonical sub-trie of `T` over the leaves with epoch `≤ hi`;
* `collapse c lo hi T` — the same trie with every maximal sub-trie all of whose leaves have epoch
  `≤ lo` replaced by ONE opaque leaf carrying its digest, and the other leaves (`lo < ep ≤ hi`)
  replaced by opaque leaves carrying their epoch-ed digest: the trie the auditor rebuilds;
* `E c lo hi T` / `I lo hi T` — the element lists (`E c lo lo` = the `unchanged` list and `I` the
  `inserted` list of `appendOnlyHelper`).

"Frontier rebuild": `collapse` hashed without leaf epochs and `restrict` hashed with leaf epochs
have the same digests (`collapse_sim`).
-/
import AkdModel.Thm.C01b
import AkdModel.Lemmas.AuditLemmas
namespace Akd.AGen
open Akd
open Akd.Ins (maxEp minEp oleaves)

/-! ### definitions -/

/-- a node at `q` over two optional sub-tries; a single child is not wrapped (path compression) -/
def join (q : BitStr) : Option CTree → Option CTree → Option CTree
  | some a, some b => some (.node q a b)
  | some a, none => some a
  | none, some b => some b
  | none, none => none

def restrict (hi : Nat) : CTree → Option CTree
  | .leaf q v e => if e ≤ hi then some (.leaf q v e) else none
  | .node q l r => join q (restrict hi l) (restrict hi r)

def collapse (c : Cfg) (lo hi : Nat) : CTree → Option CTree
  | .leaf q v e => if e ≤ hi then some (.leaf q (c.leafHash v e) 0) else none
  | .node q l r =>
    if maxEp (.node q l r) ≤ lo then some (.leaf q ((CTree.node q l r).azks c .withLeafEpoch) 0)
    else join q (collapse c lo hi l) (collapse c lo hi r)

/-- the elements of `collapse c lo hi T`, left to right -/
def E (c : Cfg) (lo hi : Nat) : CTree → List AzksElement
  | .leaf q v e => if e ≤ hi then [⟨NodeLabel.ofBits q, c.leafHash v e⟩] else []
  | .node q l r =>
    if maxEp (.node q l r) ≤ lo then [(CTree.node q l r).element c] else E c lo hi l ++ E c lo hi r

/-- the leaves with `lo < ep ≤ hi`, with their un-epoched values -/
def I (lo hi : Nat) : CTree → List AzksElement
  | .leaf q v e => if lo < e ∧ e ≤ hi then [⟨NodeLabel.ofBits q, v⟩] else []
  | .node _ l r => I lo hi l ++ I lo hi r

/-- what the auditor does to an inserted element -/
def rehash (c : Cfg) (ep : Nat) (x : AzksElement) : AzksElement := ⟨x.label, c.leafHash x.value ep⟩

/-! ### epochs -/

theorem minEp_le_maxEp : ∀ T : CTree, minEp T ≤ maxEp T
  | .leaf _ _ _ => Nat.le_refl _
  | .node _ l r => by
    have := minEp_le_maxEp l
    have := minEp_le_maxEp r
    simp only [minEp, maxEp]
    omega

theorem E_nil (c : Cfg) (lo hi : Nat) (hlh : lo ≤ hi) : ∀ T : CTree, hi < minEp T → E c lo hi T = []
  | .leaf q v e, h => by
    simp only [minEp] at h
    simp only [E]
    rw [if_neg (by omega)]
  | .node q l r, h => by
    have hm := minEp_le_maxEp (.node q l r)
    simp only [E]
    rw [if_neg (by omega)]
    simp only [minEp] at h
    rw [E_nil c lo hi hlh l (by omega), E_nil c lo hi hlh r (by omega)]
    rfl

theorem I_nil_min (lo hi : Nat) : ∀ T : CTree, hi < minEp T → I lo hi T = []
  | .leaf q v e, h => by
    simp only [minEp] at h
    simp only [I]
    rw [if_neg (by omega)]
  | .node q l r, h => by
    simp only [minEp] at h
    simp only [I]
    rw [I_nil_min lo hi l (by omega), I_nil_min lo hi r (by omega)]
    rfl

theorem I_nil_max (lo hi : Nat) : ∀ T : CTree, maxEp T ≤ lo → I lo hi T = []
  | .leaf q v e, h => by
    simp only [maxEp] at h
    simp only [I]
    rw [if_neg (by omega)]
  | .node q l r, h => by
    simp only [maxEp] at h
    simp only [I]
    rw [I_nil_max lo hi l (by omega), I_nil_max lo hi r (by omega)]
    rfl

/-! ### `join` -/

theorem join_leaves (q : BitStr) (a b : Option CTree) : oleaves (join q a b) = oleaves a ++ oleaves b := by
  cases a <;> cases b <;> simp [join, oleaves, CTree.leaves]

theorem join_wf {q : BitStr} {oa ob : Option CTree} {x : CTree}
    (ha : ∀ a, oa = some a → (q ++ [false]) <+: a.lbl ∧ a.WF)
    (hb : ∀ b, ob = some b → (q ++ [true]) <+: b.lbl ∧ b.WF)
    (h : join q oa ob = some x) : q <+: x.lbl ∧ x.WF := by
  cases oa with
  | none =>
    cases ob with
    | none => simp [join] at h
    | some b =>
      simp only [join, Option.some.injEq] at h
      subst h
      exact ⟨(BitStr.prefix_of_snoc (hb b rfl).1), (hb b rfl).2⟩
  | some a =>
    cases ob with
    | none =>
      simp only [join, Option.some.injEq] at h
      subst h
      exact ⟨(BitStr.prefix_of_snoc (ha a rfl).1), (ha a rfl).2⟩
    | some b =>
      simp only [join, Option.some.injEq] at h
      subst h
      exact ⟨List.prefix_refl _, (ha a rfl).1, (hb b rfl).1, (ha a rfl).2, (hb b rfl).2⟩

/-! ### `restrict` -/

theorem restrict_wf (hi : Nat) : ∀ (T : CTree), T.WF → ∀ x, restrict hi T = some x → T.lbl <+: x.lbl ∧ x.WF
  | .leaf q v e, _, x, h => by
    simp only [restrict] at h
    split at h
    · cases h; exact ⟨List.prefix_refl _, trivial⟩
    · cases h
  | .node q l r, hwf, x, h => by
    simp only [restrict] at h
    refine join_wf ?_ ?_ h
    · intro a ha
      obtain ⟨h1, h2⟩ := restrict_wf hi l hwf.2.2.1 a ha
      exact ⟨hwf.1.trans h1, h2⟩
    · intro b hb
      obtain ⟨h1, h2⟩ := restrict_wf hi r hwf.2.2.2 b hb
      exact ⟨hwf.2.1.trans h1, h2⟩

theorem restrict_leaves (hi : Nat) : ∀ (T : CTree),
    oleaves (restrict hi T) = T.leaves.filter (fun lf => decide (lf.ep ≤ hi))
  | .leaf q v e => by
    simp only [restrict, CTree.leaves]
    by_cases h : e ≤ hi <;> simp [h, oleaves, CTree.leaves]
  | .node q l r => by
    simp only [restrict, CTree.leaves, join_leaves, List.filter_append, restrict_leaves hi l,
      restrict_leaves hi r]

theorem restrict_all (hi : Nat) : ∀ (T : CTree), maxEp T ≤ hi → restrict hi T = some T
  | .leaf q v e, h => by
    simp only [maxEp] at h
    simp only [restrict, if_pos h]
  | .node q l r, h => by
    simp only [maxEp] at h
    simp only [restrict]
    rw [restrict_all hi l (by omega), restrict_all hi r (by omega)]
    rfl

/-! ### `collapse` -/

theorem collapse_wf (c : Cfg) (lo hi : Nat) : ∀ (T : CTree), T.WF →
    ∀ x, collapse c lo hi T = some x → T.lbl <+: x.lbl ∧ x.WF
  | .leaf q v e, _, x, h => by
    simp only [collapse] at h
    split at h
    · cases h; exact ⟨List.prefix_refl _, trivial⟩
    · cases h
  | .node q l r, hwf, x, h => by
    simp only [collapse] at h
    split at h
    · cases h; exact ⟨List.prefix_refl _, trivial⟩
    · refine join_wf ?_ ?_ h
      · intro a ha
        obtain ⟨h1, h2⟩ := collapse_wf c lo hi l hwf.2.2.1 a ha
        exact ⟨hwf.1.trans h1, h2⟩
      · intro b hb
        obtain ⟨h1, h2⟩ := collapse_wf c lo hi r hwf.2.2.2 b hb
        exact ⟨hwf.2.1.trans h1, h2⟩

theorem collapse_leaves (c : Cfg) (lo hi : Nat) : ∀ (T : CTree), T.WF →
    (∀ lf ∈ T.leaves, lf.lbl.length ≤ 256) →
    (E c lo hi T).map Aud.toLeaf = oleaves (collapse c lo hi T)
  | .leaf q v e, _, hlen => by
    have hq : q.length ≤ 256 := hlen ⟨q, v, e⟩ (by simp [CTree.leaves])
    simp only [E, collapse]
    by_cases h : e ≤ hi
    · simp [h, oleaves, CTree.leaves, Aud.toLeaf, C17.bits_ofBits q hq]
    · simp [h, oleaves]
  | .node q l r, hwf, hlen => by
    have hq : q.length ≤ 256 := Ins.lbl_length_le (.node q l r) hwf hlen
    simp only [E, collapse]
    by_cases h : maxEp (.node q l r) ≤ lo
    · simp [h, oleaves, CTree.leaves, Aud.toLeaf, CTree.element, CTree.lbl, C17.bits_ofBits q hq]
    · simp only [h, if_false, List.map_append, join_leaves]
      rw [collapse_leaves c lo hi l hwf.2.2.1 (fun lf hl => hlen lf (List.mem_append_left _ hl)),
        collapse_leaves c lo hi r hwf.2.2.2 (fun lf hl => hlen lf (List.mem_append_right _ hl))]

/-- every element label is `ofBits` of its own bit string -/
theorem E_label (c : Cfg) (lo hi : Nat) : ∀ (T : CTree), T.WF → (∀ lf ∈ T.leaves, lf.lbl.length ≤ 256) →
    ∀ n ∈ E c lo hi T, n.label = NodeLabel.ofBits n.label.bits
  | .leaf q v e, _, hlen, n, hn => by
    have hq : q.length ≤ 256 := hlen ⟨q, v, e⟩ (by simp [CTree.leaves])
    simp only [E] at hn
    split at hn
    · simp only [List.mem_singleton] at hn
      subst hn
      simp only [C17.bits_ofBits q hq]
    · cases hn
  | .node q l r, hwf, hlen, n, hn => by
    have hq : q.length ≤ 256 := Ins.lbl_length_le (.node q l r) hwf hlen
    simp only [E] at hn
    split at hn
    · simp only [List.mem_singleton] at hn
      subst hn
      simp only [CTree.element, CTree.lbl, C17.bits_ofBits q hq]
    · rcases List.mem_append.mp hn with h | h
      · exact E_label c lo hi l hwf.2.2.1 (fun lf hl => hlen lf (List.mem_append_left _ hl)) n h
      · exact E_label c lo hi r hwf.2.2.2 (fun lf hl => hlen lf (List.mem_append_right _ hl)) n h

/-! ### same digests -/

/-- `o` hashed without leaf epochs looks like `o'` hashed with leaf epochs -/
def Sim (c : Cfg) (o o' : Option CTree) : Prop :=
  o.map (CTree.azks c .noLeafEpoch) = o'.map (CTree.azks c .withLeafEpoch) ∧ o.map CTree.lbl = o'.map CTree.lbl

theorem join_sim (c : Cfg) (q : BitStr) {a a' b b' : Option CTree} (ha : Sim c a a') (hb : Sim c b b') :
    Sim c (join q a b) (join q a' b') := by
  obtain ⟨ha1, ha2⟩ := ha
  obtain ⟨hb1, hb2⟩ := hb
  cases a <;> cases a' <;> cases b <;> cases b' <;>
    simp_all [Sim, join, CTree.azks, CTree.lbl]

theorem collapse_sim (c : Cfg) (lo hi : Nat) (hlh : lo ≤ hi) : ∀ T : CTree,
    Sim c (collapse c lo hi T) (restrict hi T)
  | .leaf q v e => by
    simp only [collapse, restrict]
    by_cases h : e ≤ hi <;> simp [h, Sim, CTree.azks, CTree.lbl]
  | .node q l r => by
    simp only [collapse]
    by_cases h : maxEp (.node q l r) ≤ lo
    · rw [if_pos h, restrict_all hi _ (by omega)]
      simp [Sim, CTree.azks, CTree.lbl]
    · rw [if_neg h]
      simp only [restrict]
      exact join_sim c q (collapse_sim c lo hi hlh l) (collapse_sim c lo hi hlh r)

/-! ### the second node list is a permutation of `E c lo (lo+1)` -/

theorem E_perm (c : Cfg) (lo : Nat) : ∀ T : CTree,
    (E c lo lo T ++ (I lo (lo + 1) T).map (rehash c (lo + 1))).Perm (E c lo (lo + 1) T)
  | .leaf q v e => by
    simp only [E, I]
    by_cases h1 : e ≤ lo
    · rw [if_pos h1, if_pos (show e ≤ lo + 1 by omega), if_neg (show ¬ (lo < e ∧ e ≤ lo + 1) by omega)]
      simp
    · by_cases h2 : e ≤ lo + 1
      · have : e = lo + 1 := by omega
        subst this
        rw [if_neg h1, if_pos h2, if_pos (show lo < lo + 1 ∧ lo + 1 ≤ lo + 1 by omega)]
        simp [rehash]
      · rw [if_neg h1, if_neg h2, if_neg (show ¬ (lo < e ∧ e ≤ lo + 1) by omega)]
        simp
  | .node q l r => by
    simp only [E]
    by_cases h : maxEp (.node q l r) ≤ lo
    · rw [if_pos h, if_pos h, I_nil_max lo (lo + 1) _ h]
      simp
    · rw [if_neg h, if_neg h]
      simp only [I, List.map_append]
      have p1 := E_perm c lo l
      have p2 := E_perm c lo r
      refine List.Perm.trans ?_ (p1.append p2)
      simp only [List.append_assoc]
      refine List.Perm.append_left _ ?_
      rw [← List.append_assoc, ← List.append_assoc]
      exact List.Perm.append_right _ List.perm_append_comm

end Akd.AGen
