/-
Specification side of the publish theorem (C01c): the version table of `Spec.lean`, what one
more version of a label adds to the leaf set, and the invariants of the table.
-/
import AkdModel.Spec
import AkdModel.Thm.C01b
namespace Akd.Pub
open Akd Spec

/-- same body as `C06.VersionsOK` -/
def VersOK (vs : List Ver) : Prop :=
  (∀ i (h : i < vs.length), (vs[i]).version = i + 1) ∧ vs.Pairwise (fun a b => a.epoch < b.epoch)

/-! ### `get` / `put` -/

theorem get_put (t : Table) (u u' : Bytes) (vs : List Ver) :
    (t.put u vs).get u' = if u = u' then vs else t.get u' := by
  induction t with
  | nil => simp [Table.put, Table.get]
  | cons x rest ih =>
    obtain ⟨k, w⟩ := x
    simp only [Table.put]
    by_cases hk : k = u
    · simp only [if_pos hk, Table.get]
      by_cases h : u = u'
      · simp [h]
      · rw [if_neg h, if_neg h, if_neg (fun e => h (hk ▸ e))]
    · simp only [if_neg hk, Table.get, ih]
      by_cases h : k = u'
      · rw [if_pos h, if_pos h, if_neg (fun e => hk (h.trans e.symm))]
      · rw [if_neg h, if_neg h]

theorem mem_put (t : Table) (u : Bytes) (vs : List Ver) : ∀ x ∈ t.put u vs, x = (u, vs) ∨ x ∈ t := by
  induction t with
  | nil => intro x h; simp [Table.put] at h; exact .inl h
  | cons y rest ih =>
    obtain ⟨k, w⟩ := y
    intro x h
    simp only [Table.put] at h
    split at h
    · rcases List.mem_cons.1 h with h | h
      · exact .inl h
      · exact .inr (List.mem_cons_of_mem _ h)
    · rcases List.mem_cons.1 h with h | h
      · exact .inr (h ▸ List.mem_cons_self)
      · rcases ih x h with h | h
        · exact .inl h
        · exact .inr (List.mem_cons_of_mem _ h)

theorem keys_put (t : Table) (u : Bytes) (vs : List Ver) (h : t.Pairwise (fun a b => a.1 ≠ b.1)) :
    (t.put u vs).Pairwise (fun a b => a.1 ≠ b.1) := by
  induction t with
  | nil => simp [Table.put]
  | cons y rest ih =>
    obtain ⟨k, w⟩ := y
    rw [List.pairwise_cons] at h
    simp only [Table.put]
    split
    · rename_i hk
      rw [List.pairwise_cons]
      exact ⟨fun a ha => hk ▸ h.1 a ha, h.2⟩
    · rename_i hk
      rw [List.pairwise_cons]
      refine ⟨fun a ha => ?_, ih h.2⟩
      rcases mem_put rest u vs a ha with e | e
      · rw [e]; exact hk
      · exact h.1 a e

theorem get_of_mem (t : Table) (h : t.Pairwise (fun a b => a.1 ≠ b.1)) : ∀ x ∈ t, t.get x.1 = x.2 := by
  induction t with
  | nil => intro x hx; cases hx
  | cons y rest ih =>
    obtain ⟨k, w⟩ := y
    rw [List.pairwise_cons] at h
    intro x hx
    simp only [Table.get]
    rcases List.mem_cons.1 hx with e | e
    · rw [e]; simp
    · rw [if_neg (h.1 x e), ih h.2 x e]

theorem mem_of_get (t : Table) (u : Bytes) (h : t.get u ≠ []) : (u, t.get u) ∈ t := by
  induction t with
  | nil => exact absurd rfl h
  | cons y rest ih =>
    obtain ⟨k, w⟩ := y
    simp only [Table.get] at h ⊢
    by_cases hk : k = u
    · rw [if_pos hk]; rw [hk]; exact List.mem_cons_self
    · rw [if_neg hk] at h ⊢
      exact List.mem_cons_of_mem _ (ih h)

/-! ### the leaves of one entry -/

/-- the leaves of one version within its entry -/
def verLeaves (c : Cfg) (key : Dig) (vrf : VrfTable) (u : Bytes) (vs : List Ver) (v : Ver) : List Leaf :=
  (match vrf.get? ⟨u, true, v.version⟩ with
    | some l => [(⟨l.bits, c.commit v.value (c.nonce key l v.version v.value), v.epoch⟩ : Leaf)]
    | none => []) ++
  (match vs.find? (fun w => w.version = v.version + 1), vrf.get? ⟨u, false, v.version⟩ with
    | some nxt, some l => [(⟨l.bits, c.staleValue, nxt.epoch⟩ : Leaf)]
    | _, _ => [])

def entryLeaves (c : Cfg) (key : Dig) (vrf : VrfTable) (x : Bytes × List Ver) : List Leaf :=
  x.2.flatMap (verLeaves c key vrf x.1 x.2)

theorem leaves_eq (c : Cfg) (key : Dig) (vrf : VrfTable) (t : Table) :
    Spec.leaves c key vrf t = t.flatMap (entryLeaves c key vrf) := rfl

/-- the fresh leaf of the new version `n`, at epoch `e` -/
def freshNew (c : Cfg) (key : Dig) (vrf : VrfTable) (u : Bytes) (n : Nat) (v : Bytes) (e : Nat) : List Leaf :=
  match vrf.get? ⟨u, true, n⟩ with
  | some l => [⟨l.bits, c.commit v (c.nonce key l n v), e⟩]
  | none => []

/-- the stale leaf of the superseded version `n` (none if `n = 0`), at epoch `e` -/
def staleNew (c : Cfg) (vrf : VrfTable) (u : Bytes) (n : Nat) (e : Nat) : List Leaf :=
  if n = 0 then [] else
  match vrf.get? ⟨u, false, n⟩ with
  | some l => [⟨l.bits, c.staleValue, e⟩]
  | none => []

/-- what a new version of `u` (after `n` existing ones) adds to the leaf set -/
def delta (c : Cfg) (key : Dig) (vrf : VrfTable) (u : Bytes) (n : Nat) (v : Bytes) (e : Nat) : List Leaf :=
  staleNew c vrf u n e ++ freshNew c key vrf u (n + 1) v e

theorem versOK_version_le {vs : List Ver} (h : VersOK vs) {v : Ver} (hv : v ∈ vs) :
    1 ≤ v.version ∧ v.version ≤ vs.length := by
  obtain ⟨i, hi, rfl⟩ := List.getElem_of_mem hv
  rw [h.1 i hi]; omega

theorem versOK_concat {init : List Ver} {last : Ver} (h : VersOK (init ++ [last])) :
    VersOK init ∧ last.version = init.length + 1 ∧ ∀ v ∈ init, v.epoch < last.epoch := by
  obtain ⟨h1, h2⟩ := h
  rw [List.pairwise_append] at h2
  refine ⟨⟨fun i hi => ?_, h2.1⟩, ?_, fun v hv => h2.2.2 v hv last (by simp)⟩
  · have := h1 i (by simp; omega)
    rwa [List.getElem_append_left hi] at this
  · have := h1 init.length (by simp)
    simpa using this

theorem flatMap_congr' {α β} (l : List α) (f g : α → List β) (h : ∀ x ∈ l, f x = g x) :
    l.flatMap f = l.flatMap g := by
  induction l with
  | nil => rfl
  | cons a l ih =>
    simp only [List.flatMap_cons]
    rw [h a List.mem_cons_self, ih (fun x hx => h x (List.mem_cons_of_mem _ hx))]

/-- appending version `n+1` adds its fresh leaf and the stale leaf of version `n` -/
theorem entryLeaves_snoc (c : Cfg) (key : Dig) (vrf : VrfTable) (u : Bytes) (vs : List Ver) (hv : VersOK vs)
    (v : Bytes) (e : Nat) :
    entryLeaves c key vrf (u, vs ++ [⟨vs.length + 1, v, e⟩]) =
      entryLeaves c key vrf (u, vs) ++ delta c key vrf u vs.length v e := by
  have hnew : verLeaves c key vrf u (vs ++ [⟨vs.length + 1, v, e⟩]) ⟨vs.length + 1, v, e⟩ =
      freshNew c key vrf u (vs.length + 1) v e := by
    have hf : (vs ++ [(⟨vs.length + 1, v, e⟩ : Ver)]).find? (fun w => w.version = vs.length + 1 + 1) = none := by
      rw [List.find?_eq_none]
      intro x hx
      rcases List.mem_append.1 hx with hx | hx
      · have := (versOK_version_le hv hx).2
        simp; omega
      · simp at hx; subst hx; simp
    simp only [verLeaves, freshNew, hf]
    cases vrf.get? ⟨u, true, vs.length + 1⟩ <;> simp
  simp only [entryLeaves, List.flatMap_append, List.flatMap_cons, List.flatMap_nil, List.append_nil, hnew, delta]
  rcases List.eq_nil_or_concat vs with rfl | ⟨init, last, rfl⟩
  · simp [staleNew]
  · rw [List.concat_eq_append] at hv ⊢
    obtain ⟨hi, hl, _⟩ := versOK_concat hv
    have hlen : (init ++ [last]).length = last.version := by simp [hl]
    -- the earlier versions see the same successor
    have hinit : ∀ x ∈ init, verLeaves c key vrf u (init ++ [last] ++ [⟨(init ++ [last]).length + 1, v, e⟩]) x =
        verLeaves c key vrf u (init ++ [last]) x := by
      intro x hx
      have hxv := (versOK_version_le hi hx).2
      simp only [verLeaves]
      rw [List.find?_append (xs := init ++ [last])]
      have : [(⟨(init ++ [last]).length + 1, v, e⟩ : Ver)].find? (fun w => w.version = x.version + 1) = none := by
        simp; omega
      rw [this, Option.or_none]
    -- the last one acquires its stale leaf
    have hlast : verLeaves c key vrf u (init ++ [last] ++ [⟨(init ++ [last]).length + 1, v, e⟩]) last =
        verLeaves c key vrf u (init ++ [last]) last ++ staleNew c vrf u (init ++ [last]).length e := by
      have h1 : (init ++ [last]).find? (fun w => w.version = last.version + 1) = none := by
        rw [List.find?_eq_none]
        intro x hx
        have := (versOK_version_le hv hx).2
        simp; omega
      simp only [verLeaves]
      rw [List.find?_append (xs := init ++ [last]), h1]
      have h2 : [(⟨(init ++ [last]).length + 1, v, e⟩ : Ver)].find? (fun w => w.version = last.version + 1)
          = some ⟨(init ++ [last]).length + 1, v, e⟩ := by
        simp [hlen]
      rw [h2, Option.none_or]
      have hne : last.version ≠ 0 := by omega
      simp only [staleNew, hlen, if_neg hne]
      cases vrf.get? ⟨u, false, last.version⟩ <;> simp
    rw [List.flatMap_append (xs := init), List.flatMap_append (xs := init)]
    simp only [List.flatMap_cons, List.flatMap_nil, List.append_nil]
    rw [flatMap_congr' init _ _ hinit, hlast]
    simp only [List.append_assoc]

/-! ### one more version of one label, at table level -/

theorem leaves_put (c : Cfg) (key : Dig) (vrf : VrfTable) (t : Table) (u : Bytes) (vs' : List Ver) (D : List Leaf)
    (h : entryLeaves c key vrf (u, vs') = entryLeaves c key vrf (u, t.get u) ++ D) :
    (Spec.leaves c key vrf (t.put u vs')).Perm (Spec.leaves c key vrf t ++ D) := by
  simp only [leaves_eq]
  induction t with
  | nil =>
    simp only [Table.put, Table.get, List.flatMap_cons, List.flatMap_nil, List.append_nil, List.nil_append] at h ⊢
    rw [h]; simp [entryLeaves]
  | cons y rest ih =>
    obtain ⟨k, w⟩ := y
    simp only [Table.put, Table.get] at h ⊢
    by_cases hk : k = u
    · rw [if_pos hk] at h ⊢
      simp only [List.flatMap_cons]
      rw [h, hk, List.append_assoc, List.append_assoc]
      exact List.Perm.append_left _ List.perm_append_comm
    · rw [if_neg hk] at h ⊢
      simp only [List.flatMap_cons]
      rw [List.append_assoc]
      exact List.Perm.append_left _ (ih h)

/-- the table update of `Spec.applyBatch` for one changed label -/
def step (e : Nat) (t : Table) (x : Bytes × Bytes) : Table :=
  t.put x.1 (t.get x.1 ++ [⟨(t.get x.1).length + 1, x.2, e⟩])

theorem versOK_snoc {vs : List Ver} (h : VersOK vs) (v : Bytes) (e : Nat) (he : ∀ w ∈ vs, w.epoch < e) :
    VersOK (vs ++ [⟨vs.length + 1, v, e⟩]) := by
  refine ⟨fun i hi => ?_, ?_⟩
  · by_cases hlt : i < vs.length
    · rw [List.getElem_append_left hlt]; exact h.1 i hlt
    · have : i = vs.length := by simp at hi; omega
      subst this
      simp
  · rw [List.pairwise_append]
    exact ⟨h.2, by simp, fun a ha b hb => by simp at hb; subst hb; exact he a ha⟩

theorem fold_spec (c : Cfg) (key : Dig) (vrf : VrfTable) (e : Nat) (T0 : Table) (hok : ∀ u, VersOK (T0.get u)) :
    ∀ (ch : List (Bytes × Bytes)) (T : Table), (ch.map (·.1)).Nodup → (∀ x ∈ ch, T.get x.1 = T0.get x.1) →
      (Spec.leaves c key vrf (ch.foldl (step e) T)).Perm
        (Spec.leaves c key vrf T ++ ch.flatMap (fun x => delta c key vrf x.1 (T0.get x.1).length x.2 e)) ∧
      (∀ x ∈ ch, (ch.foldl (step e) T).get x.1 = T0.get x.1 ++ [⟨(T0.get x.1).length + 1, x.2, e⟩]) ∧
      (∀ u, u ∉ ch.map (·.1) → (ch.foldl (step e) T).get u = T.get u) ∧
      (T.Pairwise (fun a b => a.1 ≠ b.1) → (ch.foldl (step e) T).Pairwise (fun a b => a.1 ≠ b.1)) ∧
      (∀ y ∈ ch.foldl (step e) T, y.1 ∈ ch.map (·.1) ∨ y ∈ T)
  | [], T, _, _ => by simp
  | x :: ch, T, hnd, hget => by
    rw [List.map_cons, List.nodup_cons] at hnd
    have hx : T.get x.1 = T0.get x.1 := hget x List.mem_cons_self
    have hget1 : ∀ u, (step e T x).get u = if x.1 = u then T0.get x.1 ++ [⟨(T0.get x.1).length + 1, x.2, e⟩] else T.get u := by
      intro u; simp only [step, get_put, hx]
    have hne : ∀ y ∈ ch, x.1 ≠ y.1 := fun y hy h => hnd.1 (h ▸ List.mem_map_of_mem hy)
    obtain ⟨i1, i2, i3, i4, i5⟩ := fold_spec c key vrf e T0 hok ch (step e T x) hnd.2 (fun y hy => by
      rw [hget1, if_neg (hne y hy)]; exact hget y (List.mem_cons_of_mem _ hy))
    simp only [List.foldl_cons]
    refine ⟨?_, ?_, ?_, ?_, ?_⟩
    · refine i1.trans ?_
      simp only [List.flatMap_cons]
      rw [← List.append_assoc]
      refine List.Perm.append_right _ ?_
      apply leaves_put
      rw [hx]
      exact entryLeaves_snoc c key vrf x.1 (T0.get x.1) (hok x.1) x.2 e
    · intro y hy
      rcases List.mem_cons.1 hy with rfl | hy
      · rw [i3 _ hnd.1, hget1, if_pos rfl]
      · exact i2 y hy
    · intro u hu
      simp only [List.map_cons, List.mem_cons, not_or] at hu
      rw [i3 u hu.2, hget1, if_neg (fun h => hu.1 h.symm)]
    · intro hk
      exact i4 (keys_put _ _ _ hk)
    · intro y hy
      rcases i5 y hy with h | h
      · exact .inl (List.mem_cons_of_mem _ h)
      · rcases mem_put _ _ _ y h with h | h
        · left; rw [h]; exact List.mem_cons_self
        · exact .inr h

/-! ### labels of the leaf set -/

theorem mem_verLeaves {c : Cfg} {key : Dig} {vrf : VrfTable} {u : Bytes} {vs : List Ver} {v : Ver} {lf : Leaf}
    (h : lf ∈ verLeaves c key vrf u vs v) :
    (∃ l, vrf.get? ⟨u, true, v.version⟩ = some l ∧
      lf = ⟨l.bits, c.commit v.value (c.nonce key l v.version v.value), v.epoch⟩) ∨
    (∃ l nxt, vrf.get? ⟨u, false, v.version⟩ = some l ∧ vs.find? (fun w => w.version = v.version + 1) = some nxt ∧
      lf = ⟨l.bits, c.staleValue, nxt.epoch⟩) := by
  simp only [verLeaves, List.mem_append] at h
  rcases h with h | h
  · left
    cases h1 : vrf.get? ⟨u, true, v.version⟩ with
    | none => simp [h1] at h
    | some l => simp [h1] at h; exact ⟨l, rfl, h⟩
  · right
    cases h1 : vs.find? (fun w => w.version = v.version + 1) with
    | none => simp [h1] at h
    | some nxt =>
      cases h2 : vrf.get? ⟨u, false, v.version⟩ with
      | none => simp [h1, h2] at h
      | some l => simp [h1, h2] at h; exact ⟨l, nxt, rfl, rfl, h⟩

/-- every leaf of an entry sits at the label of a VRF claim of that entry's user and version -/
theorem claim_of_mem {c : Cfg} {key : Dig} {vrf : VrfTable} {u : Bytes} {vs : List Ver} {v : Ver} {lf : Leaf}
    (h : lf ∈ verLeaves c key vrf u vs v) : ∃ f l, vrf.get? ⟨u, f, v.version⟩ = some l ∧ lf.lbl = l.bits := by
  rcases mem_verLeaves h with ⟨l, h1, rfl⟩ | ⟨l, _, h1, _, rfl⟩
  · exact ⟨true, l, h1, rfl⟩
  · exact ⟨false, l, h1, rfl⟩

theorem bits256_length (l : NodeLabel) : l.bits256.length = 256 := by simp [NodeLabel.bits256]

theorem bits_length_256 (l : NodeLabel) (h : l.len = 256) : l.bits.length = 256 := by
  simp [NodeLabel.bits, bits256_length, h]

theorem normalised_256 (l : NodeLabel) (h : l.len = 256) : l.Normalised := by
  unfold NodeLabel.Normalised NodeLabel.bits
  rw [h, List.take_of_length_le (by rw [bits256_length]; exact Nat.le_refl _)]
  simp

theorem ofBits_bits_256 (l : NodeLabel) (h : l.len = 256) : NodeLabel.ofBits l.bits = l :=
  C17.ofBits_bits l (by omega) (normalised_256 l h)

theorem bits_inj_256 {l l' : NodeLabel} (h : l.len = 256) (h' : l'.len = 256) (e : l.bits = l'.bits) : l = l' := by
  rw [← ofBits_bits_256 l h, ← ofBits_bits_256 l' h', e]

section Vrf
variable {vrf : VrfTable}
  (hinj : ∀ k k' l, vrf.get? k = some l → vrf.get? k' = some l → k = k')
  (hlen : ∀ k l, vrf.get? k = some l → l.len = 256)
include hinj hlen

theorem incomp_of_claims {k k' : VrfClaim} {l l' : NodeLabel} {a b : Leaf}
    (h1 : vrf.get? k = some l) (h2 : vrf.get? k' = some l') (hne : k ≠ k')
    (ha : a.lbl = l.bits) (hb : b.lbl = l'.bits) : Canon.Incomp a b := by
  have hl := hlen k l h1
  have hl' := hlen k' l' h2
  have hbits : l.bits ≠ l'.bits := fun e => hne (hinj k k' l h1 (bits_inj_256 hl hl' e ▸ h2))
  unfold Canon.Incomp
  rw [ha, hb]
  constructor
  · intro hp
    exact hbits (hp.eq_of_length (by rw [bits_length_256 l hl, bits_length_256 l' hl']))
  · intro hp
    exact hbits (hp.eq_of_length (by rw [bits_length_256 l hl, bits_length_256 l' hl'])).symm

omit hinj hlen in
theorem versOK_pairwise_version {vs : List Ver} (h : VersOK vs) : vs.Pairwise (fun a b => a.version ≠ b.version) := by
  rw [List.pairwise_iff_getElem]
  intro i j hi hj hij
  rw [h.1 i hi, h.1 j hj]; omega

theorem pairwise_verLeaves (c : Cfg) (key : Dig) (u : Bytes) (vs : List Ver) (v : Ver) :
    (verLeaves c key vrf u vs v).Pairwise Canon.Incomp := by
  unfold verLeaves
  cases h1 : vrf.get? ⟨u, true, v.version⟩ with
  | none =>
    cases vs.find? (fun w => w.version = v.version + 1) <;> cases vrf.get? ⟨u, false, v.version⟩ <;> simp
  | some l =>
    cases vs.find? (fun w => w.version = v.version + 1) with
    | none => simp
    | some nxt =>
      cases h2 : vrf.get? ⟨u, false, v.version⟩ with
      | none => simp
      | some l' =>
        simp only [List.singleton_append, List.pairwise_cons, List.mem_singleton, forall_eq, List.not_mem_nil,
          false_imp_iff, implies_true, List.Pairwise.nil, and_true]
        exact incomp_of_claims hinj hlen h1 h2 (by simp) rfl rfl

theorem pairwise_entryLeaves (c : Cfg) (key : Dig) (u : Bytes) (vs : List Ver) (hv : VersOK vs) :
    (entryLeaves c key vrf (u, vs)).Pairwise Canon.Incomp := by
  unfold entryLeaves
  rw [List.pairwise_flatMap]
  refine ⟨fun v _ => pairwise_verLeaves hinj hlen c key u vs v, ?_⟩
  refine (versOK_pairwise_version hv).imp ?_
  intro v w hvw a ha b hb
  obtain ⟨f, l, h1, e1⟩ := claim_of_mem ha
  obtain ⟨f', l', h2, e2⟩ := claim_of_mem hb
  exact incomp_of_claims hinj hlen h1 h2 (by simp [hvw]) e1 e2

/-- the leaf set of a table with unique keys and properly numbered versions is prefix-free -/
theorem prefixFree_leaves (c : Cfg) (key : Dig) (t : Table) (hk : t.Pairwise (fun a b => a.1 ≠ b.1))
    (hv : ∀ u, VersOK (t.get u)) : C01.PrefixFree (Spec.leaves c key vrf t) := by
  unfold C01.PrefixFree
  show (Spec.leaves c key vrf t).Pairwise Canon.Incomp
  rw [leaves_eq, List.pairwise_flatMap]
  refine ⟨fun x hx => ?_, ?_⟩
  · have := hv x.1
    rw [get_of_mem t hk x hx] at this
    exact pairwise_entryLeaves hinj hlen c key x.1 x.2 this
  · refine hk.imp ?_
    intro x y hxy a ha b hb
    simp only [entryLeaves, List.mem_flatMap] at ha hb
    obtain ⟨v, _, ha⟩ := ha
    obtain ⟨w, _, hb⟩ := hb
    obtain ⟨f, l, h1, e1⟩ := claim_of_mem ha
    obtain ⟨f', l', h2, e2⟩ := claim_of_mem hb
    exact incomp_of_claims hinj hlen h1 h2 (by simp [hxy]) e1 e2

omit hinj in
theorem leaves_len (c : Cfg) (key : Dig) (t : Table) :
    ∀ lf ∈ Spec.leaves c key vrf t, lf.lbl.length = 256 := by
  intro lf h
  simp only [leaves_eq, entryLeaves, List.mem_flatMap] at h
  obtain ⟨x, _, v, _, h⟩ := h
  obtain ⟨f, l, h1, e1⟩ := claim_of_mem h
  rw [e1, bits_length_256 l (hlen _ _ h1)]

end Vrf

/-- epochs of the leaves: those of the versions -/
theorem leaves_ep (c : Cfg) (key : Dig) (vrf : VrfTable) (t : Table) (hk : t.Pairwise (fun a b => a.1 ≠ b.1))
    (lo hi : Nat) (he : ∀ u, ∀ v ∈ t.get u, lo ≤ v.epoch ∧ v.epoch ≤ hi) :
    ∀ lf ∈ Spec.leaves c key vrf t, lo ≤ lf.ep ∧ lf.ep ≤ hi := by
  intro lf h
  simp only [leaves_eq, entryLeaves, List.mem_flatMap] at h
  obtain ⟨x, hx, v, hv, h⟩ := h
  have hg := get_of_mem t hk x hx
  rcases mem_verLeaves h with ⟨l, _, rfl⟩ | ⟨l, nxt, _, hf, rfl⟩
  · exact he x.1 v (hg ▸ hv)
  · exact he x.1 nxt (hg ▸ List.mem_of_find?_eq_some hf)

end Akd.Pub
