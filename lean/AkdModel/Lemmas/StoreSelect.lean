/-
Helper lemmas for C15: the selection over "database overwritten by the pending records" is the
merge of the two selections that `get_user_state` / `get_user_state_versions` compute.
-/
import AkdModel.Lemmas.StoreLemmas
namespace Akd.Store

/-! ### filters commute with `set` when the predicate cannot tell a record from its replacement -/

theorem Map.filter_set (m : Map) (r : Rec) (p : Rec → Bool)
    (hp : ∀ x ∈ m, x.key = r.key → p x = p r) :
    (m.set r).filter p = if p r then Map.set (m.filter p) r else m.filter p := by
  induction m with
  | nil => by_cases h : p r = true <;> simp [Map.set_nil, h]
  | cons x xs ih =>
    have ih := ih (fun y hy => hp y (List.mem_cons_of_mem _ hy))
    rw [Map.set_cons]
    by_cases hx : x.key = r.key
    · have hpx := hp x List.mem_cons_self hx
      rw [if_pos hx]
      by_cases h : p r = true
      · rw [if_pos h, List.filter_cons, if_pos h, List.filter_cons, if_pos (hpx.trans h),
          Map.set_cons, if_pos hx]
      · rw [if_neg h, List.filter_cons, if_neg h, List.filter_cons, if_neg (by rw [hpx]; exact h)]
    · rw [if_neg hx, List.filter_cons, ih]
      by_cases hq : p x = true
      · rw [if_pos hq, List.filter_cons, if_pos hq]
        by_cases h : p r = true
        · rw [if_pos h, if_pos h, Map.set_cons, if_neg hx]
        · rw [if_neg h, if_neg h]
      · rw [if_neg hq, List.filter_cons, if_neg hq]

theorem Map.filter_setAll (m : Map) (rs : List Rec) (p : Rec → Bool)
    (hp : ∀ x ∈ m ++ rs, ∀ r ∈ rs, x.key = r.key → p x = p r) :
    (m.setAll rs).filter p = Map.setAll (m.filter p) (rs.filter p) := by
  induction rs generalizing m with
  | nil => rfl
  | cons r rs ih =>
    rw [Map.setAll_cons, ih]
    · rw [Map.filter_set m r p (fun x hx hk =>
        hp x (List.mem_append_left _ hx) r List.mem_cons_self hk)]
      by_cases h : p r = true
      · rw [if_pos h, List.filter_cons, if_pos h, Map.setAll_cons]
      · rw [if_neg h, List.filter_cons, if_neg h]
    · intro x hx r' hr' hk
      rcases List.mem_append.1 hx with hx | hx
      · rcases Map.mem_set hx with rfl | hx
        · exact hp _ (List.mem_append_right _ List.mem_cons_self) r' (List.mem_cons_of_mem _ hr') hk
        · exact hp x (List.mem_append_left _ hx) r' (List.mem_cons_of_mem _ hr') hk
      · exact hp x (List.mem_append_right _ (List.mem_cons_of_mem _ hx)) r'
          (List.mem_cons_of_mem _ hr') hk

theorem List.find?_congr' {α} {p q : α → Bool} {l : List α} (h : ∀ x ∈ l, p x = q x) :
    l.find? p = l.find? q := by
  induction l with
  | nil => rfl
  | cons x xs ih =>
    rw [List.find?_cons, List.find?_cons, h x List.mem_cons_self,
      ih (fun y hy => h y (List.mem_cons_of_mem _ hy))]

namespace State

/-! ### `maxBy`, `minBy` -/

theorem maxBy_eq_none {f : Rec → Nat} {l : List Rec} : maxBy f l = none ↔ l = [] := by
  cases l with
  | nil => simp [maxBy]
  | cons x xs =>
    simp only [maxBy]
    cases maxBy f xs with
    | none => simp
    | some y => by_cases h : f y > f x <;> simp [h]

theorem maxBy_ge {f : Rec → Nat} {l : List Rec} {x : Rec} (h : maxBy f l = some x) :
    ∀ y ∈ l, f y ≤ f x := by
  induction l generalizing x with
  | nil => cases h
  | cons z zs ih =>
    simp only [maxBy] at h
    cases hm : maxBy f zs with
    | none =>
      rw [hm] at h
      have hx : z = x := Option.some.inj h
      subst hx
      rw [maxBy_eq_none.1 hm]
      intro y hy
      rcases List.mem_cons.1 hy with rfl | hy
      · exact Nat.le_refl _
      · cases hy
    | some w =>
      rw [hm] at h
      have ihw := ih hm
      by_cases hc : f w > f z
      · simp only [hc, if_true] at h
        have hx : w = x := Option.some.inj h
        subst hx
        intro y hy
        rcases List.mem_cons.1 hy with rfl | hy
        · exact Nat.le_of_lt hc
        · exact ihw y hy
      · simp only [hc, if_false] at h
        have hx : z = x := Option.some.inj h
        subst hx
        intro y hy
        rcases List.mem_cons.1 hy with rfl | hy
        · exact Nat.le_refl _
        · exact Nat.le_trans (ihw y hy) (Nat.le_of_not_gt hc)

theorem maxBy_eq_of {f : Rec → Nat} {l : List Rec} {x : Rec}
    (inj : ∀ a ∈ l, ∀ b ∈ l, f a = f b → a = b) (hx : x ∈ l) (hge : ∀ y ∈ l, f y ≤ f x) :
    maxBy f l = some x := by
  cases hm : maxBy f l with
  | none => rw [maxBy_eq_none.1 hm] at hx; cases hx
  | some w =>
    have hw := maxBy_mem hm
    have := inj w hw x hx (Nat.le_antisymm (hge w hw) (maxBy_ge hm x hx))
    rw [this]

theorem minBy_eq_none {f : Rec → Nat} {l : List Rec} : minBy f l = none ↔ l = [] := by
  cases l with
  | nil => simp [minBy]
  | cons x xs =>
    simp only [minBy]
    cases minBy f xs with
    | none => simp
    | some y => by_cases h : f y < f x <;> simp [h]

theorem minBy_le {f : Rec → Nat} {l : List Rec} {x : Rec} (h : minBy f l = some x) :
    ∀ y ∈ l, f x ≤ f y := by
  induction l generalizing x with
  | nil => cases h
  | cons z zs ih =>
    simp only [minBy] at h
    cases hm : minBy f zs with
    | none =>
      rw [hm] at h
      have hx : z = x := Option.some.inj h
      subst hx
      rw [minBy_eq_none.1 hm]
      intro y hy
      rcases List.mem_cons.1 hy with rfl | hy
      · exact Nat.le_refl _
      · cases hy
    | some w =>
      rw [hm] at h
      have ihw := ih hm
      by_cases hc : f w < f z
      · simp only [hc, if_true] at h
        have hx : w = x := Option.some.inj h
        subst hx
        intro y hy
        rcases List.mem_cons.1 hy with rfl | hy
        · exact Nat.le_of_lt hc
        · exact ihw y hy
      · simp only [hc, if_false] at h
        have hx : z = x := Option.some.inj h
        subst hx
        intro y hy
        rcases List.mem_cons.1 hy with rfl | hy
        · exact Nat.le_refl _
        · exact Nat.le_trans (Nat.le_of_not_gt hc) (ihw y hy)

theorem minBy_eq_of {f : Rec → Nat} {l : List Rec} {x : Rec}
    (inj : ∀ a ∈ l, ∀ b ∈ l, f a = f b → a = b) (hx : x ∈ l) (hle : ∀ y ∈ l, f x ≤ f y) :
    minBy f l = some x := by
  cases hm : minBy f l with
  | none => rw [minBy_eq_none.1 hm] at hx; cases hx
  | some w =>
    have hw := minBy_mem hm
    have := inj w hw x hx (Nat.le_antisymm (minBy_le hm x hx) (hle w hw))
    rw [this]

/-! ### maps holding one user's value states -/

/-- every record is a value state of user `u` -/
def UserKeyed (u : Nat) (m : Map) : Prop := ∀ r ∈ m, r.key = .vs u (epochOf r)

theorem epochOf_congr {a b : Rec} (h : a.key = b.key) : epochOf a = epochOf b := by
  unfold epochOf; rw [h]

theorem UserKeyed.key_eq {u : Nat} {m : Map} (h : UserKeyed u m) {a b : Rec} (ha : a ∈ m) (hb : b ∈ m)
    (he : epochOf a = epochOf b) : a.key = b.key := by
  rw [h a ha, h b hb, he]

theorem userKeyed_userStates (m : Map) (u : Nat) : UserKeyed u (userStates m u) := by
  intro r hr
  have := (List.mem_filter.1 hr).2
  unfold epochOf
  cases hk : r.key with
  | azks => rw [hk] at this; cases this
  | node id => rw [hk] at this; cases this
  | vs u' e =>
    rw [hk] at this
    have : u' = u := by simpa using this
    rw [this]

theorem UserKeyed.filter {u : Nat} {m : Map} (h : UserKeyed u m) (p : Rec → Bool) :
    UserKeyed u (m.filter p) := fun r hr => h r (List.mem_filter.1 hr).1

theorem UserKeyed.setAll {u : Nat} {m rs : Map} (hm : UserKeyed u m) (hr : UserKeyed u rs) :
    UserKeyed u (m.setAll rs) := by
  intro r h
  rcases Map.mem_setAll h with h | h
  · exact hr r h
  · exact hm r h

theorem UserKeyed.inj {u : Nat} {m : Map} (h : UserKeyed u m) (hk : m.KU) :
    ∀ a ∈ m, ∀ b ∈ m, epochOf a = epochOf b → a = b :=
  fun _ ha _ hb he => Map.KU_unique hk ha hb (h.key_eq ha hb he)

theorem UserKeyed.find?_epoch {u : Nat} {m : Map} (h : UserKeyed u m) (e : Nat) :
    m.find? (fun r => epochOf r = e) = m.get? (.vs u e) := by
  unfold Map.get?
  apply List.find?_congr'
  intro x hx
  rw [h x hx]
  by_cases he : epochOf x = e
  · simp [he]
  · have : ¬ (Key.vs u (epochOf x) = Key.vs u e) := by
      intro hh; injection hh with _ h2; exact he h2
    simp [he, this]

/-- the same filter on both sides for a key-determined predicate -/
theorem userStates_setAll (m rs : Map) (u : Nat) :
    userStates (m.setAll rs) u = Map.setAll (userStates m u) (userStates rs u) := by
  unfold userStates
  apply Map.filter_setAll
  intro x _ r _ hk
  rw [hk]

/-! ### the merge -/

def mergeMax (t d : Option Rec) : Option Rec :=
  match t, d with
  | some t, some d => if epochOf t ≥ epochOf d then some t else some d
  | some t, none => some t
  | none, some d => some d
  | none, none => none

def mergeMin (t d : Option Rec) : Option Rec :=
  match t, d with
  | some t, some d => if epochOf t ≤ epochOf d then some t else some d
  | some t, none => some t
  | none, some d => some d
  | none, none => none

theorem maxBy_setAll {u : Nat} {D L : Map} (hD : D.KU) (hL : Map.KU L) (uD : UserKeyed u D)
    (uL : UserKeyed u L) :
    maxBy epochOf (D.setAll L) = mergeMax (maxBy epochOf L) (maxBy epochOf D) := by
  have inj := (uD.setAll uL).inj (Map.KU_setAll hD L)
  have hmem := @Map.mem_setAll_iff D L hD hL
  cases ht : maxBy epochOf L with
  | none =>
    rw [maxBy_eq_none.1 ht, Map.setAll_nil]
    cases hd : maxBy epochOf D <;> rfl
  | some t =>
    have htm := maxBy_mem ht
    have htg := maxBy_ge ht
    cases hd : maxBy epochOf D with
    | none =>
      rw [maxBy_eq_none.1 hd] at hmem inj ⊢
      simp only [mergeMax]
      apply maxBy_eq_of inj (hmem.2 (Or.inl htm))
      intro y hy
      rcases hmem.1 hy with hy | ⟨hy, _⟩
      · exact htg y hy
      · cases hy
    | some d =>
      have hdm := maxBy_mem hd
      have hdg := maxBy_ge hd
      simp only [mergeMax]
      by_cases hc : epochOf t ≥ epochOf d
      · rw [if_pos hc]
        apply maxBy_eq_of inj (hmem.2 (Or.inl htm))
        intro y hy
        rcases hmem.1 hy with hy | ⟨hy, _⟩
        · exact htg y hy
        · exact Nat.le_trans (hdg y hy) hc
      · rw [if_neg hc]
        have hlt : epochOf t < epochOf d := Nat.lt_of_not_ge hc
        apply maxBy_eq_of inj
        · refine hmem.2 (Or.inr ⟨hdm, ?_⟩)
          cases hg : Map.get? L d.key with
          | none => rfl
          | some y =>
            have h1 := htg y (Map.get?_some_mem hg)
            rw [epochOf_congr (Map.get?_some_key hg)] at h1
            exact absurd h1 (Nat.not_le_of_gt hlt)
        · intro y hy
          rcases hmem.1 hy with hy | ⟨hy, _⟩
          · exact Nat.le_trans (htg y hy) (Nat.le_of_lt hlt)
          · exact hdg y hy

theorem minBy_setAll {u : Nat} {D L : Map} (hD : D.KU) (hL : Map.KU L) (uD : UserKeyed u D)
    (uL : UserKeyed u L) :
    minBy epochOf (D.setAll L) = mergeMin (minBy epochOf L) (minBy epochOf D) := by
  have inj := (uD.setAll uL).inj (Map.KU_setAll hD L)
  have hmem := @Map.mem_setAll_iff D L hD hL
  cases ht : minBy epochOf L with
  | none =>
    rw [minBy_eq_none.1 ht, Map.setAll_nil]
    cases hd : minBy epochOf D <;> rfl
  | some t =>
    have htm := minBy_mem ht
    have htg := minBy_le ht
    cases hd : minBy epochOf D with
    | none =>
      rw [minBy_eq_none.1 hd] at hmem inj ⊢
      simp only [mergeMin]
      apply minBy_eq_of inj (hmem.2 (Or.inl htm))
      intro y hy
      rcases hmem.1 hy with hy | ⟨hy, _⟩
      · exact htg y hy
      · cases hy
    | some d =>
      have hdm := minBy_mem hd
      have hdg := minBy_le hd
      simp only [mergeMin]
      by_cases hc : epochOf t ≤ epochOf d
      · rw [if_pos hc]
        apply minBy_eq_of inj (hmem.2 (Or.inl htm))
        intro y hy
        rcases hmem.1 hy with hy | ⟨hy, _⟩
        · exact htg y hy
        · exact Nat.le_trans hc (hdg y hy)
      · rw [if_neg hc]
        have hlt : epochOf d < epochOf t := Nat.lt_of_not_ge hc
        apply minBy_eq_of inj
        · refine hmem.2 (Or.inr ⟨hdm, ?_⟩)
          cases hg : Map.get? L d.key with
          | none => rfl
          | some y =>
            have h1 := htg y (Map.get?_some_mem hg)
            rw [epochOf_congr (Map.get?_some_key hg)] at h1
            exact absurd h1 (Nat.not_le_of_gt hlt)
        · intro y hy
          rcases hmem.1 hy with hy | ⟨hy, _⟩
          · exact Nat.le_trans (Nat.le_of_lt hlt) (htg y hy)
          · exact hdg y hy

/-- the answer `get_user_state` assembles from the transaction's and the database's answers -/
def pick (f : Flag) (t d : Option Rec) : Option Rec :=
  match t, d with
  | some t, some d => if preferTxn (epochOf d) t f then some t else some d
  | some t, none => some t
  | none, some d => some d
  | none, none => none

/-- versions follow epochs (what `DataWF` gives for one user) -/
def VerMono (m : Map) : Prop :=
  ∀ a ∈ m, ∀ b ∈ m, (epochOf a < epochOf b → a.version < b.version) ∧
    (epochOf a = epochOf b → a.version = b.version)

/-- selecting from "database overwritten by the pending records" is the merge of the selections -/
theorem select_setAll {u : Nat} {D L : Map} (hD : D.KU) (hL : Map.KU L) (uD : UserKeyed u D)
    (uL : UserKeyed u L) (hv : VerMono (D ++ L)) (f : Flag) :
    select (D.setAll L) f = pick f (select L f) (select D f) := by
  cases f with
  | specificVersion v =>
    simp only [select]
    rw [Map.filter_setAll, minBy_setAll (Map.KU_filter hD _) (Map.KU_filter hL _) (uD.filter _)
      (uL.filter _)]
    · cases ht : minBy epochOf (L.filter fun r => decide (r.version = v)) with
      | none => cases minBy epochOf (D.filter fun r => decide (r.version = v)) <;> rfl
      | some t =>
        cases hd : minBy epochOf (D.filter fun r => decide (r.version = v)) with
        | none => rfl
        | some d =>
          simp only [mergeMin, pick, preferTxn, if_true]
          have htm := List.mem_filter.1 (minBy_mem ht)
          have hdm := List.mem_filter.1 (minBy_mem hd)
          have hle : epochOf t ≤ epochOf d := by
            apply Nat.le_of_not_gt
            intro hlt
            have := (hv d (List.mem_append_left _ hdm.1) t (List.mem_append_right _ htm.1)).1 hlt
            have h1 : t.version = v := by simpa using htm.2
            have h2 : d.version = v := by simpa using hdm.2
            rw [h1, h2] at this
            exact Nat.lt_irrefl _ this
          rw [if_pos hle]
    · intro x hx r hr hk
      have hr' : r ∈ D ++ L := List.mem_append_right _ hr
      have := (hv x hx r hr').2 (epochOf_congr hk)
      rw [this]
  | specificEpoch e =>
    simp only [select]
    rw [(uD.setAll uL).find?_epoch, uD.find?_epoch, uL.find?_epoch, Map.get?_setAll _ hL]
    cases Map.get? L (Key.vs u e) with
    | none => cases D.get? (Key.vs u e) <;> rfl
    | some t => cases D.get? (Key.vs u e) <;> rfl
  | leqEpoch e =>
    simp only [select]
    rw [Map.filter_setAll, maxBy_setAll (Map.KU_filter hD _) (Map.KU_filter hL _) (uD.filter _)
      (uL.filter _)]
    · cases maxBy epochOf (L.filter fun r => decide (epochOf r ≤ e)) with
      | none => cases maxBy epochOf (D.filter fun r => decide (epochOf r ≤ e)) <;> rfl
      | some t =>
        cases maxBy epochOf (D.filter fun r => decide (epochOf r ≤ e)) with
        | none => rfl
        | some d =>
          simp only [mergeMax, pick, preferTxn]
          by_cases hc : epochOf t ≥ epochOf d <;> simp [hc]
    · intro x _ r _ hk
      rw [epochOf_congr hk]
  | maxEpoch =>
    simp only [select]
    rw [maxBy_setAll hD hL uD uL]
    cases maxBy epochOf L with
    | none => cases maxBy epochOf D <;> rfl
    | some t =>
      cases maxBy epochOf D with
      | none => rfl
      | some d =>
        simp only [mergeMax, pick, preferTxn]
        by_cases hc : epochOf t ≥ epochOf d <;> simp [hc]
  | minEpoch =>
    simp only [select]
    rw [minBy_setAll hD hL uD uL]
    cases minBy epochOf L with
    | none => cases minBy epochOf D <;> rfl
    | some t =>
      cases minBy epochOf D with
      | none => rfl
      | some d =>
        simp only [mergeMin, pick, preferTxn]
        by_cases hc : epochOf t ≤ epochOf d <;> simp [hc]

/-! ### what the user-state queries answer -/


theorem userState_obs_active (s : State) (u : Nat) (f : Flag) (ha : s.active = true) :
    (s.userState u f false).2
      = .one (pick f (select (userStates s.log u) f) (select (userStates s.db u) f)) := by
  unfold userState
  simp only [Bool.false_eq_true, if_false, ha, if_true]
  cases select (userStates s.log u) f with
  | none => cases select (userStates s.db u) f <;> rfl
  | some t =>
    cases select (userStates s.db u) f with
    | none => rfl
    | some d =>
      simp only [pick]
      cases preferTxn (epochOf d) t f <;> rfl

theorem userState_obs_idle (s : State) (u : Nat) (f : Flag) (ha : s.active = false) :
    (s.userState u f false).2 = .one (select (userStates s.db u) f) := by
  unfold userState
  simp only [Bool.false_eq_true, if_false, ha]
  cases select (userStates s.db u) f <;> rfl

def toV (u : Nat) (r : Rec) : Nat × Nat × Nat := (u, r.version, r.payload)

/-- the repaired bulk-versions merge: compares versions -/
def pickV (f : Flag) (t d : Option Rec) : Option Rec :=
  match t, d with
  | some t, some d =>
    if (match f with
        | .specificVersion _ => true | .specificEpoch _ => true
        | .leqEpoch _ => decide (t.version ≥ d.version) | .maxEpoch => decide (t.version ≥ d.version)
        | .minEpoch => decide (t.version ≤ d.version)) then some t else some d
  | some t, none => some t
  | none, some d => some d
  | none, none => none

theorem userVersions_obs_active (s : State) (us : List Nat) (f : Flag) (ha : s.active = true) :
    (s.userVersions fixed us f false).2
      = .versions (us.eraseDups.filterMap (fun u =>
          (pickV f (select (userStates s.log u) f) (select (userStates s.db u) f)).map (toV u))) := by
  unfold userVersions
  simp only [Bool.false_eq_true, if_false, ha, if_true, fixed]
  congr 2
  funext u
  cases select (userStates s.log u) f with
  | none => cases select (userStates s.db u) f <;> rfl
  | some t =>
    cases select (userStates s.db u) f with
    | none => rfl
    | some d =>
      simp only [pickV]
      cases f <;> simp only [] <;> split <;> rfl

theorem userVersions_obs_idle (s : State) (us : List Nat) (f : Flag) (ha : s.active = false) :
    (s.userVersions fixed us f false).2
      = .versions (us.eraseDups.filterMap (fun u => (select (userStates s.db u) f).map (toV u))) := by
  unfold userVersions
  simp only [Bool.false_eq_true, if_false, ha, fixed]
  congr 2
  funext u
  cases select (userStates s.db u) f <;> rfl

theorem VerMono.ge_iff {m : Map} (hv : VerMono m) {t d : Rec} (ht : t ∈ m) (hd : d ∈ m) :
    t.version ≥ d.version ↔ epochOf t ≥ epochOf d := by
  constructor
  · intro h
    apply Nat.le_of_not_gt
    intro hlt
    exact absurd ((hv t ht d hd).1 hlt) (Nat.not_lt_of_ge h)
  · intro h
    rcases Nat.lt_or_eq_of_le h with h | h
    · exact Nat.le_of_lt ((hv d hd t ht).1 h)
    · exact Nat.le_of_eq ((hv d hd t ht).2 h)

theorem pickV_eq_pick {D L : Map} (hv : VerMono (D ++ L)) (f : Flag) :
    pickV f (select L f) (select D f) = pick f (select L f) (select D f) := by
  cases ht : select L f with
  | none => cases select D f <;> rfl
  | some t =>
    cases hd : select D f with
    | none => rfl
    | some d =>
      have htm : t ∈ D ++ L := List.mem_append_right _ (select_mem ht)
      have hdm : d ∈ D ++ L := List.mem_append_left _ (select_mem hd)
      have h1 := hv.ge_iff htm hdm
      have h2 := hv.ge_iff hdm htm
      simp only [pickV, pick, preferTxn]
      cases f <;> simp only [] <;> simp only [ge_iff_le] at * <;> simp [h1, h2]

end State
end Akd.Store
