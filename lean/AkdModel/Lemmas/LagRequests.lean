/- helper lemmas for `Thm/C13c.lean` (requests of a lagging instance) -/
import AkdModel.Thm.C11b
import AkdModel.Lemmas.LagInsert
namespace Akd.Lag
open Akd NodeStore Part

/-- the later store `s'` shows, as of epoch `e`, what `s` shows, or nothing (`C13.ViewLe`) -/
def VLe (s s' : NodeStore) (e : Nat) : Prop :=
  ∀ k, rd s' e k = rd s e k ∨ rd s' e k = .error .notFound

/-- "the same answer, or an error" -/
def LeR {ε α : Type} (r' r : Except ε α) : Prop := r' = r ∨ ∃ x, r' = .error x

theorem LeR.rfl' {ε α : Type} (r : Except ε α) : LeR r r := .inl rfl

theorem LeR.err {ε α : Type} (x : ε) (r : Except ε α) : LeR (.error x) r := .inr ⟨x, rfl⟩

/-- a read of the store fails with "not found" only -/
theorem getNode_err {s : NodeStore} {k : NodeLabel} {e : Nat} {x : Err} (h : s.getNode k e = .error x) :
    x = .notFound := by
  unfold NodeStore.getNode at h
  split at h
  · exact resolve_err h
  · cases h; rfl

theorem vle_cases {s s' : NodeStore} {e : Nat} (h : VLe s s' e) (k : NodeLabel) :
    s'.getNode k e = .error .notFound ∨
    (∃ n p, s'.getNode k e = .ok (setP n p) ∧ s.getNode k e = .ok n) := by
  have hk := h k
  unfold rd at hk
  cases h1 : s'.getNode k e with
  | error x => rw [getNode_err h1]; exact .inl rfl
  | ok n' =>
    cases h2 : s.getNode k e with
    | error y =>
      rw [h1, h2] at hk
      rcases hk with hk | hk <;> cases hk
    | ok n =>
      rw [h1, h2] at hk
      rcases hk with hk | hk
      · simp only [Except.ok.injEq] at hk
        exact .inr ⟨n, n'.parent, by rw [← eq_setP hk], rfl⟩
      · cases hk

theorem getChildForProof_le {s s' : NodeStore} {e : Nat} (h : VLe s s' e) (n : TreeNode) (p : NodeLabel)
    (d : Direction) :
    (∃ x, s'.getChildForProof (setP n p) d e = .error x) ∨
    (s'.getChildForProof (setP n p) d e = .ok none ∧ s.getChildForProof n d e = .ok none) ∨
    (∃ ch q, s'.getChildForProof (setP n p) d e = .ok (some (setP ch q)) ∧
      s.getChildForProof n d e = .ok (some ch)) := by
  unfold getChildForProof getChild
  rw [setP_childLabel]
  cases n.childLabel d with
  | none => exact .inr (.inl ⟨rfl, rfl⟩)
  | some l =>
    rcases vle_cases h l with h1 | ⟨m, q, h1, h2⟩
    · simp only [h1]
      exact .inl ⟨.notFound, rfl⟩
    · simp only [h1, h2]
      exact .inr (.inr ⟨m, q, rfl, rfl⟩)

theorem childElement_le {s s' : NodeStore} {e : Nat} (h : VLe s s' e) (c : Cfg) (n : TreeNode)
    (p : NodeLabel) (d : Direction) :
    LeR (childElement c s' (setP n p) d e) (childElement c s n d e) := by
  unfold childElement
  rcases getChildForProof_le h n p d with ⟨x, h1⟩ | ⟨h1, h2⟩ | ⟨ch, q, h1, h2⟩
  · rw [h1]; exact LeR.err _ _
  · rw [h1, h2]; exact LeR.rfl' _
  · rw [h1, h2]; exact LeR.rfl' _

/-! ### the walk -/

theorem lcpWalk_le {s s' : NodeStore} {e : Nat} (h : VLe s s' e) (c : Cfg) (label : NodeLabel) :
    ∀ (fuel : Nat) (cur prev : TreeNode) (sps : List SiblingProof) (p p2 : NodeLabel),
      (∃ x, lcpWalk c s' label e fuel (setP cur p) (setP prev p2) sps = .error x) ∨
      (∃ cur1 prev1 sps1 eq q q2,
        lcpWalk c s' label e fuel (setP cur p) (setP prev p2) sps = .ok (setP cur1 q, setP prev1 q2, sps1, eq) ∧
        lcpWalk c s label e fuel cur prev sps = .ok (cur1, prev1, sps1, eq)) := by
  intro fuel
  induction fuel with
  | zero => intro cur prev sps p p2; exact .inl ⟨.other, rfl⟩
  | succ f ih =>
    intro cur prev sps p p2
    rw [lcpWalk_succ_setP, lcpWalk_succ]
    generalize (if cur.label.prefixOrdering label = .withZero then Direction.left else .right) = dir
    by_cases hc : (decide (label = cur.label) || decide (cur.label.prefixOrdering label = .invalid)) = true
    · rw [if_pos hc, if_pos hc]
      exact .inr ⟨cur, prev, sps, _, p, p2, rfl, rfl⟩
    · rw [if_neg hc, if_neg hc]
      rcases getChildForProof_le h cur p dir with ⟨x, h1⟩ | ⟨h1, h2⟩ | ⟨ch, q, h1, h2⟩
      · rw [h1]
        exact .inl ⟨x, rfl⟩
      · rw [h1, h2]
        exact .inr ⟨cur, prev, sps, _, p, p2, rfl, rfl⟩
      · rw [h1, h2]
        simp only
        rcases childElement_le h c cur p dir.other with h3 | ⟨x, h3⟩
        · rw [h3]
          cases childElement c s cur dir.other e with
          | error x => exact .inl ⟨x, rfl⟩
          | ok sib => exact ih ch cur _ q p
        · rw [h3]
          exact .inl ⟨x, rfl⟩

theorem lcpProof_le {s s' : NodeStore} (c : Cfg) (a : Azks) (h : VLe s s' a.latestEpoch) (label : NodeLabel) :
    LeR (s'.lcpProof c a label) (s.lcpProof c a label) := by
  rw [Gen.lcpProof_eq, Gen.lcpProof_eq]
  rcases vle_cases h NodeLabel.root with h1 | ⟨root, p, h1, h2⟩
  · rw [h1]; exact LeR.err _ _
  · rw [h1, h2]
    simp only
    rcases lcpWalk_le h c label 300 root root [] p p with
      ⟨x, h3⟩ | ⟨cur1, prev1, sps1, eq, q, q2, h3, h4⟩
    · rw [h3]; exact LeR.err _ _
    · rw [h3, h4]
      left
      cases eq <;> simp only [Gen.finish, if_true, Bool.false_eq_true, if_false, setP_label, hashOf_setP]

theorem membershipProof_le {s s' : NodeStore} (c : Cfg) (a : Azks) (h : VLe s s' a.latestEpoch)
    (label : NodeLabel) : LeR (s'.membershipProof c a label) (s.membershipProof c a label) := by
  unfold membershipProof
  rcases lcpProof_le c a h label with h1 | ⟨x, h1⟩
  · rw [h1]; exact LeR.rfl' _
  · rw [h1]; exact LeR.err _ _

theorem rootHash_le {s s' : NodeStore} (c : Cfg) (a : Azks) (h : VLe s s' a.latestEpoch) :
    LeR (s'.rootHash c a) (s.rootHash c a) := by
  unfold rootHash
  rcases vle_cases h NodeLabel.root with h1 | ⟨root, p, h1, h2⟩
  · rw [h1]; exact LeR.err _ _
  · rw [h1, h2]; exact LeR.rfl' _

/-! ### the non-membership proof -/

theorem nmChild_le {s s' : NodeStore} {e : Nat} (h : VLe s s' e) (c : Cfg) (n : TreeNode)
    (p : NodeLabel) (d : Direction) :
    LeR (nmChild c s' e (setP n p) d) (nmChild c s e n d) := by
  unfold nmChild
  rcases getChildForProof_le h n p d with ⟨x, h1⟩ | ⟨h1, h2⟩ | ⟨ch, q, h1, h2⟩
  · rw [h1]; exact LeR.err _ _
  · rw [h1, h2]; exact LeR.rfl' _
  · rw [h1, h2]
    simp only [setP_label]
    rcases vle_cases h ch.label with h3 | ⟨u, r, h3, h4⟩
    · rw [h3]; exact LeR.err _ _
    · rw [h3, h4]; exact LeR.rfl' _

theorem nonMembershipProof_le {s s' : NodeStore} (c : Cfg) (a : Azks) (h : VLe s s' a.latestEpoch)
    (label : NodeLabel) : LeR (s'.nonMembershipProof c a label) (s.nonMembershipProof c a label) := by
  rw [nonMembershipProof_eq, nonMembershipProof_eq]
  have h0 := lcpProof_le c a h label
  by_cases hx : ∃ x, s'.lcpProof c a label = .error x
  · obtain ⟨x, h0⟩ := hx
    rw [h0]; exact LeR.err _ _
  replace h0 : s'.lcpProof c a label = s.lcpProof c a label := h0.resolve_right hx
  rw [h0]
  cases s.lcpProof c a label with
  | error x => exact LeR.rfl' _
  | ok r =>
    obtain ⟨lcpLabel, mp⟩ := r
    simp only
    rcases vle_cases h lcpLabel with h1 | ⟨n, p, h1, h2⟩
    · rw [h1]; exact LeR.err _ _
    · rw [h1, h2]
      simp only [setP_label]
      rcases nmChild_le h c n p .left with hl | ⟨x, hl⟩
      · rcases nmChild_le h c n p .right with hr | ⟨y, hr⟩
        · rw [hl, hr]; exact LeR.rfl' _
        · rw [hl, hr]
          cases nmChild c s a.latestEpoch n .left <;> exact LeR.err _ _
      · rw [hl]; exact LeR.err _ _

/-! ### the append-only proof -/

theorem hcomb_le {a' a b' b : Except Err (List AzksElement × List AzksElement)} (ha : LeR a' a) (hb : LeR b' b) :
    LeR (AGen.hcomb a' b') (AGen.hcomb a b) := by
  rcases ha with rfl | ⟨x, rfl⟩
  · rcases hb with rfl | ⟨y, rfl⟩
    · exact LeR.rfl' _
    · cases a' <;> exact LeR.err _ _
  · exact LeR.err _ _

theorem hside_le {s s' : NodeStore} {latest : Nat} (h : VLe s s' latest) (c : Cfg) (lo hi fuel : Nat)
    (ih : ∀ (n : TreeNode) (p : NodeLabel),
      LeR (appendOnlyHelper c s' latest lo hi fuel (setP n p)) (appendOnlyHelper c s latest lo hi fuel n))
    (l : Option NodeLabel) :
    LeR (AGen.hside c s' latest lo hi fuel l) (AGen.hside c s latest lo hi fuel l) := by
  unfold AGen.hside
  cases l with
  | none => exact LeR.rfl' _
  | some cl =>
    rcases vle_cases h cl with h1 | ⟨n, p, h1, h2⟩
    · simp only [h1]; exact LeR.err _ _
    · simp only [h1, h2]; exact ih n p

theorem helper_succ_setP (c : Cfg) (s : NodeStore) (latest lo hi fuel : Nat) (node : TreeNode) (p : NodeLabel) :
    NodeStore.appendOnlyHelper c s latest lo hi (fuel + 1) (setP node p) =
      if node.lastEpoch ≤ lo then
        if node.nodeType = .root then .ok ([], [])
        else .ok ([⟨node.label, nodeToAzksValue c true (some node)⟩], [])
      else if node.minDescEpoch > hi then .ok ([], [])
      else if node.nodeType = .leaf then .ok ([], [⟨node.label, node.hash⟩])
      else AGen.hcomb (AGen.hside c s latest lo hi fuel node.left) (AGen.hside c s latest lo hi fuel node.right) := by
  rfl

theorem appendOnlyHelper_le {s s' : NodeStore} {latest : Nat} (h : VLe s s' latest) (c : Cfg)
    (lo hi : Nat) : ∀ (fuel : Nat) (n : TreeNode) (p : NodeLabel),
      LeR (appendOnlyHelper c s' latest lo hi fuel (setP n p)) (appendOnlyHelper c s latest lo hi fuel n) := by
  intro fuel
  induction fuel with
  | zero => intro n p; exact LeR.rfl' _
  | succ f ih =>
    intro n p
    rw [helper_succ_setP, AGen.helper_succ]
    by_cases h1 : n.lastEpoch ≤ lo
    · rw [if_pos h1, if_pos h1]; exact LeR.rfl' _
    · rw [if_neg h1, if_neg h1]
      by_cases h2 : n.minDescEpoch > hi
      · rw [if_pos h2, if_pos h2]; exact LeR.rfl' _
      · rw [if_neg h2, if_neg h2]
        by_cases h3 : n.nodeType = .leaf
        · rw [if_pos h3, if_pos h3]; exact LeR.rfl' _
        · rw [if_neg h3, if_neg h3]
          exact hcomb_le (hside_le h c lo hi f ih _) (hside_le h c lo hi f ih _)

theorem appendOnlyProof_go_le {s s' : NodeStore} (c : Cfg) (a : Azks) (h : VLe s s' a.latestEpoch)
    (root : TreeNode) (p : NodeLabel) : ∀ (k ep : Nat) (acc : AppendOnlyProof),
      LeR (appendOnlyProof.go c s' a (setP root p) k ep acc) (appendOnlyProof.go c s a root k ep acc) := by
  intro k
  induction k with
  | zero => intro ep acc; exact LeR.rfl' _
  | succ k ih =>
    intro ep acc
    unfold appendOnlyProof.go
    rcases appendOnlyHelper_le h c ep (ep + 1) 300 root p with h1 | ⟨x, h1⟩
    · rw [h1]
      cases appendOnlyHelper c s a.latestEpoch ep (ep + 1) 300 root with
      | error x => exact LeR.rfl' _
      | ok r => exact ih _ _
    · rw [h1]; exact LeR.err _ _

theorem appendOnlyProof_le {s s' : NodeStore} (c : Cfg) (a : Azks) (h : VLe s s' a.latestEpoch)
    (s0 e0 : Nat) : LeR (s'.appendOnlyProof c a s0 e0) (s.appendOnlyProof c a s0 e0) := by
  unfold appendOnlyProof
  split
  · exact LeR.rfl' _
  · rcases vle_cases h NodeLabel.root with h1 | ⟨root, p, h1, h2⟩
    · rw [h1]; exact LeR.err _ _
    · rw [h1, h2]
      exact appendOnlyProof_go_le c a h root p _ _ _

/-! ### request level -/

theorem LeR.bind {ε α β : Type} {x' x : Except ε α} {f' f : α → Except ε β} (hx : LeR x' x)
    (hf : ∀ v, LeR (f' v) (f v)) : LeR (x' >>= f') (x >>= f) := by
  rcases hx with rfl | ⟨e, rfl⟩
  · cases x' with
    | error e => exact LeR.rfl' _
    | ok v => exact hf v
  · exact LeR.err _ _

theorem LeR.liftT {α : Type} {x' x : Except Err α} (hx : LeR x' x) : LeR (Dir.liftT x') (Dir.liftT x) := by
  rcases hx with rfl | ⟨e, rfl⟩
  · exact LeR.rfl' _
  · exact LeR.err _ _

theorem LeR.mapM {ε α β : Type} {f' f : α → Except ε β} (hf : ∀ v, LeR (f' v) (f v)) (l : List α) :
    LeR (l.mapM f') (l.mapM f) := by
  induction l with
  | nil => exact LeR.rfl' _
  | cons x xs ih =>
    rw [List.mapM_cons, List.mapM_cons]
    exact LeR.bind (hf x) (fun v => LeR.bind ih (fun _ => LeR.rfl' _))

theorem LeR.ite {ε α : Type} {p : Prop} [Decidable p] {a' a b' b : Except ε α} (ha : LeR a' a) (hb : LeR b' b) :
    LeR (if p then a' else b') (if p then a else b) := by
  by_cases h : p
  · rw [if_pos h, if_pos h]; exact ha
  · rw [if_neg h, if_neg h]; exact hb

/-- one step of "the same request on two node stores": leaves by hypothesis, the rest by monotonicity -/
macro "lag_mono" hr:ident hm:ident hn:ident : tactic =>
  `(tactic| repeat' (first
      | with_reducible exact LeR.rfl' _ | exact LeR.rfl' (Dir.vrfLabel _ _ _ _) | exact $hr | exact $hm _ | exact $hn _
      | apply LeR.liftT | apply LeR.ite | apply LeR.bind | apply LeR.mapM | intro _ | split))

theorem epochHash_le (c : Cfg) (nodes ns : NodeStore) (a : Azks) (st : List ValueState) (vrf : VrfTable) (ck : Dig)
    (hr : LeR (ns.rootHash c a) (nodes.rootHash c a)) :
    LeR (Dir.epochHash c ⟨ns, some a, st, vrf, ck⟩) (Dir.epochHash c ⟨nodes, some a, st, vrf, ck⟩) := by
  unfold Dir.epochHash
  simp only
  exact LeR.bind (LeR.liftT hr) (fun _ => LeR.rfl' _)

theorem lookup_le (c : Cfg) (nodes ns : NodeStore) (a : Azks) (st : List ValueState) (vrf : VrfTable) (ck : Dig)
    (u : Bytes) (hr : LeR (ns.rootHash c a) (nodes.rootHash c a))
    (hm : ∀ l, LeR (ns.membershipProof c a l) (nodes.membershipProof c a l))
    (hn : ∀ l, LeR (ns.nonMembershipProof c a l) (nodes.nonMembershipProof c a l)) :
    LeR (Dir.lookup c ⟨ns, some a, st, vrf, ck⟩ u) (Dir.lookup c ⟨nodes, some a, st, vrf, ck⟩ u) := by
  unfold Dir.lookup
  have e1 : Dir.stateLeq ⟨ns, some a, st, vrf, ck⟩ = Dir.stateLeq ⟨nodes, some a, st, vrf, ck⟩ := rfl
  have e2 : Dir.vrfLabel ⟨ns, some a, st, vrf, ck⟩ = Dir.vrfLabel ⟨nodes, some a, st, vrf, ck⟩ := rfl
  simp only [e1, e2]
  lag_mono hr hm hn

theorem keyHistory_le (c : Cfg) (nodes ns : NodeStore) (a : Azks) (st : List ValueState) (vrf : VrfTable) (ck : Dig)
    (u : Bytes) (p : HistoryParams) (hr : LeR (ns.rootHash c a) (nodes.rootHash c a))
    (hm : ∀ l, LeR (ns.membershipProof c a l) (nodes.membershipProof c a l))
    (hn : ∀ l, LeR (ns.nonMembershipProof c a l) (nodes.nonMembershipProof c a l)) :
    LeR (Dir.keyHistory c ⟨ns, some a, st, vrf, ck⟩ u p) (Dir.keyHistory c ⟨nodes, some a, st, vrf, ck⟩ u p) := by
  unfold Dir.keyHistory
  have e2 : Dir.vrfLabel ⟨ns, some a, st, vrf, ck⟩ = Dir.vrfLabel ⟨nodes, some a, st, vrf, ck⟩ := rfl
  simp only [e2]
  lag_mono hr hm hn

theorem audit_le (c : Cfg) (nodes ns : NodeStore) (a : Azks) (st : List ValueState) (vrf : VrfTable) (ck : Dig)
    (s0 e0 : Nat) (ha : LeR (ns.appendOnlyProof c a s0 e0) (nodes.appendOnlyProof c a s0 e0)) :
    LeR (Dir.audit c ⟨ns, some a, st, vrf, ck⟩ s0 e0) (Dir.audit c ⟨nodes, some a, st, vrf, ck⟩ s0 e0) := by
  unfold Dir.audit
  simp only
  refine LeR.ite (LeR.err _ _) (LeR.ite (LeR.err _ _) (LeR.liftT ha))

/-- the `Dir`-level statement for a lagging instance: same epoch record, VRF table and commitment key; node store
`VLe`; value states of later epochs added -/
theorem requests_le (c : Cfg) (nodes ns : NodeStore) (a : Azks) (states extra : List ValueState) (vrf : VrfTable)
    (ck : Dig) (hle : VLe nodes ns a.latestEpoch) (hextra : ∀ x ∈ extra, a.latestEpoch < x.epoch) :
    LeR (Dir.epochHash c ⟨ns, some a, states ++ extra, vrf, ck⟩) (Dir.epochHash c ⟨nodes, some a, states, vrf, ck⟩) ∧
    (∀ u, LeR (Dir.lookup c ⟨ns, some a, states ++ extra, vrf, ck⟩ u)
      (Dir.lookup c ⟨nodes, some a, states, vrf, ck⟩ u)) ∧
    (∀ u p, LeR (Dir.keyHistory c ⟨ns, some a, states ++ extra, vrf, ck⟩ u p)
      (Dir.keyHistory c ⟨nodes, some a, states, vrf, ck⟩ u p)) ∧
    (∀ s0 e0, LeR (Dir.audit c ⟨ns, some a, states ++ extra, vrf, ck⟩ s0 e0)
      (Dir.audit c ⟨nodes, some a, states, vrf, ck⟩ s0 e0)) := by
  have hr := rootHash_le c a hle
  have hm := membershipProof_le c a hle
  have hn := nonMembershipProof_le c a hle
  refine ⟨?_, fun u => ?_, fun u p => ?_, fun s0 e0 => ?_⟩
  · rw [Part.epochHash_congr c ns ns a (states ++ extra) (states ++ extra) vrf ck rfl]
    exact epochHash_le c nodes ns a _ vrf ck hr
  · rw [Part.lookup_congr c ns ns a states (states ++ extra) vrf ck rfl (fun _ => rfl) (fun _ => rfl) u
      (Part.stateLeq_append ns ns (some a) states extra vrf ck u a.latestEpoch hextra)]
    exact lookup_le c nodes ns a states vrf ck u hr hm hn
  · by_cases he : states.filter (fun s => s.username = u) = []
    · rw [Part.keyHistory_nodata c _ a rfl u p (by
          simp only
          rw [Part.filter_append_later states extra u a.latestEpoch hextra, he]; rfl),
        Part.keyHistory_nodata c _ a rfl u p (by simp only; rw [he]; rfl)]
      exact LeR.rfl' _
    · rw [Part.keyHistory_congr c ns ns a states (states ++ extra) vrf ck rfl (fun _ => rfl) (fun _ => rfl) u p
        (Part.isEmpty_filter_append states extra u he)
        (Part.filter_append_later states extra u a.latestEpoch hextra)]
      exact keyHistory_le c nodes ns a states vrf ck u p hr hm hn
  · rw [Part.audit_congr c ns ns a (states ++ extra) (states ++ extra) vrf ck (fun _ _ => rfl) s0 e0]
    exact audit_le c nodes ns a _ vrf ck s0 e0 (appendOnlyProof_le c a hle s0 e0)

/-! ### one publish later -/

/-- the core of `viewLe_publish` (`Part.partial_core` with `TI2`): after the insertion inside a transaction every log
record under a pre-existing key shows, as of every earlier epoch, what the database record shows, or nothing -/
theorem lag_core (c : Cfg) (hc : c.emptyLabel.len = 0)
    (s : NodeStore) (a : Azks) (t : CRoot)
    (hidle : s.inTxn = false ∧ s.log = [])
    (hrep : C01.ReprRoot c .directory s t) (hwf : t.WF)
    (hat : ∀ k r, s.db.get? k = some r → r.latest.lastEpoch ≤ a.latestEpoch)
    (hep : ∀ lf ∈ t.leaves, 1 ≤ lf.ep ∧ lf.ep ≤ a.latestEpoch)
    (els : List (BitStr × Dig))
    (hpf : C01.PrefixFree (t.leaves ++ C01.newLeaves els (a.latestEpoch + 1)))
    (hlen : ∀ lf ∈ t.leaves ++ C01.newLeaves els (a.latestEpoch + 1), 1 ≤ lf.lbl.length ∧ lf.lbl.length ≤ 256)
    (s' : NodeStore) (a' : Azks)
    (hins : s.begin.batchInsert c .directory a (els.map fun x => (NodeLabel.ofBits x.1, x.2)) = .ok (s', a')) :
    ∀ q r' r, RootK t q → s'.log.get? (NodeLabel.ofBits q) = some r' → s.db.get? (NodeLabel.ofBits q) = some r →
      ∀ e, e ≤ a.latestEpoch → Sim (r'.resolve e) (r.resolve e) := by
  have hrepb : C01.ReprRoot c .directory s.begin t :=
    Pub.reprRoot_getRec_congr c _ s s.begin (Pub.getRec_begin s hidle.1 hidle.2) t hrep
  have hK := rootK_length hwf (fun lf h => (hlen lf (List.mem_append_left _ h)).2)
  have hD : DbAt s.db (a.latestEpoch + 1) (RootK t) := fun q r _ hr => Nat.lt_succ_of_le (hat _ r hr)
  have hti : TI2 s.db (a.latestEpoch + 1) (RootK t) s.begin :=
    ⟨⟨rfl, rfl, fun q r' r _ hl _ => by simp [NodeStore.begin, hidle.2, NodeMap.get?] at hl⟩,
      fun q r' r _ hl _ => by simp [NodeStore.begin, hidle.2, NodeMap.get?] at hl⟩
  obtain ⟨s'', n, t', hrun, _, _, _, hti'⟩ :=
    batchInsert_rootP hK c hc .directory s.begin a t ((C01.reprRoot_iff c _ _ t).1 hrepb) hwf hep els hpf hlen
      hD hti (rootK_gk hwf)
  have hrun' : s.begin.batchInsert c .directory a (els.map fun x => (NodeLabel.ofBits x.1, x.2))
      = .ok (s'', ⟨a.latestEpoch + 1, n⟩) := hrun
  rw [hrun'] at hins
  cases hins
  intro q r' r hq hl hd e he
  exact hti'.2 q r' r hq hl hd e (by omega)

theorem getNode_idle (s : NodeStore) (h : s.inTxn = false) (k : NodeLabel) (e : Nat) :
    s.getNode k e = match s.db.get? k with
      | some r => r.resolve e
      | none => .error .notFound := by
  unfold NodeStore.getNode NodeStore.getRec
  rw [h]
  rfl

/-- `viewLe_publish` in terms of `VLe` -/
theorem vle_publish (c : Cfg) (hc : c.emptyLabel.len = 0)
    (s : NodeStore) (a : Azks) (t : CRoot)
    (hidle : s.inTxn = false ∧ s.log = [])
    (hrep : C01.ReprRoot c .directory s t) (hwf : t.WF)
    (hat : C11.AtEpoch s.db a.latestEpoch) (hkeyed : C11.WellKeyed s.db)
    (hdom : ∀ k, (s.db.get? k).isSome → k ∈ C11.nodeKeys t)
    (hep : ∀ lf ∈ t.leaves, 1 ≤ lf.ep ∧ lf.ep ≤ a.latestEpoch)
    (els : List (BitStr × Dig))
    (hpf : C01.PrefixFree (t.leaves ++ C01.newLeaves els (a.latestEpoch + 1)))
    (hlen : ∀ lf ∈ t.leaves ++ C01.newLeaves els (a.latestEpoch + 1), 1 ≤ lf.lbl.length ∧ lf.lbl.length ≤ 256)
    (s' : NodeStore) (a' : Azks)
    (hins : s.begin.batchInsert c .directory a (els.map fun x => (NodeLabel.ofBits x.1, x.2)) = .ok (s', a'))
    (e : Nat) (he : e ≤ a.latestEpoch) :
    VLe s s'.commit e := by
  have hlog : Pub.LogOK s' := Pub.logOK_batchInsert hins (Pub.logOK_begin s hidle.2)
  have hdb := Part.keeps_db s.db hins ⟨rfl, rfl⟩
  have hcore := lag_core c hc s a t hidle hrep hwf hat hep els hpf hlen s' a' hins
  have h0 : Part.NewInv s.db (a.latestEpoch + 1) s.begin :=
    ⟨rfl, rfl, fun k r hk => by simp [NodeStore.begin, hidle.2, NodeMap.get?] at hk,
      fun k r hk => by simp [NodeStore.begin, hidle.2, NodeMap.get?] at hk⟩
  have hnew := Part.newInv_batchInsert s.db hkeyed hins h0
  intro k
  unfold rd
  rw [getNode_idle s'.commit rfl, getNode_idle s hidle.1]
  have hget : s'.commit.db.get? k = match s'.log.get? k with
      | some r => some r
      | none => s.db.get? k := by
    simp only [NodeStore.commit]
    rw [Pub.get_foldl_set _ _ k hlog.2.1 hlog.2.2, hdb.1]
    cases s'.log.get? k <;> rfl
  rw [hget]
  cases hl : s'.log.get? k with
  | none => exact .inl rfl
  | some r' =>
    simp only
    cases hd : s.db.get? k with
    | none =>
      obtain ⟨h1, h2⟩ := hnew.fresh k r' hl hd
      simp only
      rw [C13.resolve_of_lt_none r' e (by omega) h2]
      exact .inr rfl
    | some r =>
      simp only
      obtain ⟨q, hq, rfl⟩ := C11.nodeKeys_rootK (hdom k (by rw [hd]; rfl))
      rcases hcore q r' r hq hl hd e he with h | ⟨n, m, h1, h2, h3⟩
      · rw [h]; exact .inr rfl
      · rw [h1, h2]
        left
        simp only [h3]

/-! ### the concrete lagging view of `legacy_lag_witness` -/

/-- the label `1` -/
def exCl : NodeLabel := ⟨Vector.ofFn fun (i : Fin 32) => if i.val = 0 then 128 else 0, 1⟩
/-- a root (epoch 1) that names a right child -/
def exRoot : TreeNode := ⟨NodeLabel.root, 1, 1, NodeLabel.root, .root, none, some exCl, .raw []⟩
/-- the child as written at epoch `e` -/
def exCh (e : Nat) : TreeNode := ⟨exCl, e, 1, NodeLabel.root, .leaf, none, none, .raw []⟩
/-- the store at epoch 1 -/
def exS : NodeStore := { db := [(NodeLabel.root, ⟨NodeLabel.root, exRoot, none⟩), (exCl, ⟨exCl, exCh 1, none⟩)] }
/-- later: the child was rewritten at epochs 2 and 3 (the root record as a partially warm reader still holds it) -/
def exS' : NodeStore :=
  { db := [(NodeLabel.root, ⟨NodeLabel.root, exRoot, none⟩), (exCl, ⟨exCl, exCh 3, some (exCh 2)⟩)] }

theorem exCl_ne : NodeLabel.root ≠ exCl := by
  intro h
  have := congrArg NodeLabel.len h
  exact absurd this (by decide)

theorem ex_vle : VLe exS exS' 1 := by
  intro k
  unfold rd NodeStore.getNode NodeStore.getRec
  simp only [exS, exS', NodeMap.get?, Bool.false_eq_true, if_false]
  by_cases h1 : NodeLabel.root = k
  · simp only [h1, if_true]; exact .inl trivial
  · simp only [h1, if_false]
    by_cases h2 : exCl = k
    · simp only [h2, if_true]; exact .inr rfl
    · simp only [h2, if_false]; exact .inl trivial

theorem ex_root : exS.getNode NodeLabel.root 1 = .ok exRoot := by
  unfold NodeStore.getNode NodeStore.getRec
  simp [exS, NodeMap.get?]
  rfl

theorem ex_child : exS.getNode exCl 1 = .ok (exCh 1) := by
  unfold NodeStore.getNode NodeStore.getRec
  simp [exS, NodeMap.get?, exCl_ne]
  rfl

theorem ex_child' : exS'.getNode exCl 1 = .error .notFound := by
  unfold NodeStore.getNode NodeStore.getRec
  simp [exS', NodeMap.get?, exCl_ne]
  rfl

theorem ex_getChild : exS'.getChild exRoot .right 1 = .ok none := by
  unfold NodeStore.getChild
  simp only [exRoot, TreeNode.childLabel, ex_child']

theorem ex_getChildForProof : exS'.getChildForProof exRoot .right 1 = .error .notFound := by
  unfold NodeStore.getChildForProof
  rw [ex_getChild]
  rfl

end Akd.Lag
