/-
Helper lemmas for C17, part 1: byte/bit facts about `NodeLabel`.
-/
import AkdModel.Label
import AkdModel.Bits
namespace Akd

def byteBit (b : UInt8) (j : Nat) : Bool := b.toNat.testBit (7 - j)

theorem byteBit_tab1 : ∀ b : Fin 256, ∀ j : Fin 8,
    (((UInt8.ofNat b.val >>> (7 - j.val).toUInt8) &&& 1 == 0) = !byteBit (UInt8.ofNat b.val) j.val) := by
  decide +kernel

theorem byteBit_tab2 : ∀ b : Fin 256, ∀ r : Fin 8, ∀ j : Fin 8,
    byteBit ((UInt8.ofNat b.val >>> (7 - r.val).toUInt8) <<< (7 - r.val).toUInt8) j.val
      = (if j.val ≤ r.val then byteBit (UInt8.ofNat b.val) j.val else false) := by
  decide +kernel

theorem shift_and_one (b : UInt8) (j : Nat) (hj : j < 8) :
    ((b >>> (7 - j).toUInt8) &&& 1 == 0) = !byteBit b j := by
  have := byteBit_tab1 ⟨b.toNat, UInt8.toNat_lt b⟩ ⟨j, hj⟩
  simpa using this

theorem byteBit_mask (b : UInt8) (r j : Nat) (hr : r < 8) (hj : j < 8) :
    byteBit ((b >>> (7 - r).toUInt8) <<< (7 - r).toUInt8) j
      = (if j ≤ r then byteBit b j else false) := by
  have := byteBit_tab2 ⟨b.toNat, UInt8.toNat_lt b⟩ ⟨r, hr⟩ ⟨j, hj⟩
  simpa using this

/-- bit `i` of the array -/
def bitB (v : Vector UInt8 32) (i : Nat) : Bool :=
  if h : i < 256 then byteBit (v[i / 8]'(by omega)) (i % 8) else false

theorem bitOfBytes_eq (v : Vector UInt8 32) (i : Nat) (h : i < 256) :
    bitOfBytes v i = .bit (bitB v i) := by
  unfold bitOfBytes bitB
  simp only [h, ↓reduceDIte]
  rw [shift_and_one _ _ (Nat.mod_lt _ (by omega))]
  cases byteBit v[i / 8] (i % 8) <;> simp

namespace NodeLabel

theorem bits256_length (l : NodeLabel) : l.bits256.length = 256 := by
  simp [bits256]

theorem bits256_getElem (l : NodeLabel) (i : Nat) (h : i < l.bits256.length) :
    l.bits256[i] = bitB l.val i := by
  have h' : i < 256 := by simpa [bits256] using h
  simp [bits256, bitOfBytes_eq _ _ h']

theorem bits_length (l : NodeLabel) : l.bits.length = min l.len 256 := by
  simp [bits, bits256_length]

end NodeLabel
theorem byteOfBits_eq (l : List Bool) :
    byteOfBits l = byteOfBits [l.getD 0 false, l.getD 1 false, l.getD 2 false, l.getD 3 false,
      l.getD 4 false, l.getD 5 false, l.getD 6 false, l.getD 7 false] := by
  rfl

theorem byteBit_byteOfBits_tab : ∀ b0 b1 b2 b3 b4 b5 b6 b7 : Bool, ∀ j : Fin 8,
    byteBit (byteOfBits [b0,b1,b2,b3,b4,b5,b6,b7]) j.val = [b0,b1,b2,b3,b4,b5,b6,b7].getD j.val false := by
  decide +kernel

theorem byteBit_byteOfBits (l : List Bool) (j : Nat) (hj : j < 8) :
    byteBit (byteOfBits l) j = l.getD j false := by
  rw [byteOfBits_eq, byteBit_byteOfBits_tab _ _ _ _ _ _ _ _ ⟨j, hj⟩]
  have : j = 0 ∨ j = 1 ∨ j = 2 ∨ j = 3 ∨ j = 4 ∨ j = 5 ∨ j = 6 ∨ j = 7 := by omega
  rcases this with h | h | h | h | h | h | h | h <;> subst h <;> rfl

theorem byte_recon_tab : ∀ b : Fin 256,
    UInt8.ofNat b.val = byteOfBits ((List.range 8).map (byteBit (UInt8.ofNat b.val))) := by
  decide +kernel

theorem byte_recon (x : UInt8) : x = byteOfBits ((List.range 8).map (byteBit x)) := by
  have := byte_recon_tab ⟨x.toNat, UInt8.toNat_lt x⟩
  simpa using this

theorem byte_ext (x y : UInt8) (h : ∀ j, j < 8 → byteBit x j = byteBit y j) : x = y := by
  rw [byte_recon x, byte_recon y]
  congr 1
  apply List.map_congr_left
  intro j hj
  exact h j (by simpa using hj)

namespace NodeLabel

theorem byteBit_zero (j : Nat) : byteBit 0 j = false := by simp [byteBit]

theorem bitB_replicate_zero (i : Nat) : bitB (Vector.replicate 32 0) i = false := by
  unfold bitB; split <;> simp [byteBit_zero]

theorem getPrefix_len (a : NodeLabel) (n : Nat) (hn : n < 256) : (a.getPrefix n).len = n := by
  unfold getPrefix
  have : ¬ n ≥ 256 := by omega
  simp only [this, ↓reduceIte]
  split
  · simp_all
  · rfl

theorem bitB_getPrefix (a : NodeLabel) (n i : Nat) (hn : n < 256) :
    bitB (a.getPrefix n).val i = (if i < n then bitB a.val i else false) := by
  unfold getPrefix
  have : ¬ n ≥ 256 := by omega
  simp only [this, ↓reduceIte]
  split
  · subst n; simp [bitB_replicate_zero]
  · rename_i hn0
    by_cases hi : i < 256
    · simp only [bitB, hi, ↓reduceDIte, Vector.getElem_ofFn]
      by_cases h1 : i / 8 < (n - 1) / 8
      · have : i < n := by omega
        simp [h1, this]
      · by_cases h2 : i / 8 = (n - 1) / 8
        · simp only [h2, Nat.lt_irrefl, ↓reduceIte, Fin.getElem_fin]
          rw [byteBit_mask _ _ _ (Nat.mod_lt _ (by omega)) (Nat.mod_lt _ (by omega))]
          have : i % 8 ≤ (n - 1) % 8 ↔ i < n := by omega
          simp [this]
        · have : ¬ i < n := by omega
          simp [h1, h2, this, byteBit_zero]
    · simp [bitB, hi]

theorem bits256_getPrefix (a : NodeLabel) (n : Nat) (hn : n < 256) :
    (a.getPrefix n).bits256 = a.bits256.take n ++ List.replicate (256 - n) false := by
  apply List.ext_getElem
  · simp [bits256_length]; omega
  · intro i h1 h2
    rw [bits256_getElem, bitB_getPrefix _ _ _ hn]
    by_cases hi : i < n
    · rw [List.getElem_append_left (by simp [bits256_length]; omega)]; simp [hi, bits256_getElem]
    · rw [List.getElem_append_right (by simp [bits256_length]; omega)]; simp [hi]

theorem val_eq_of_bitB (v w : Vector UInt8 32) (h : ∀ i, i < 256 → bitB v i = bitB w i) : v = w := by
  apply Vector.ext
  intro k hk
  apply byte_ext
  intro j hj
  have := h (8 * k + j) (by omega)
  have e1 : (8 * k + j) / 8 = k := by omega
  have e2 : (8 * k + j) % 8 = j := by omega
  have hlt : 8 * k + j < 256 := by omega
  simp only [bitB, hlt, ↓reduceDIte, e1, e2] at this
  exact this

theorem val_eq_of_bits256 (a b : NodeLabel) (h : a.bits256 = b.bits256) : a.val = b.val := by
  apply val_eq_of_bitB
  intro i hi
  have h1 : i < a.bits256.length := by simp [bits256_length, hi]
  have h2 : i < b.bits256.length := by simp [bits256_length, hi]
  rw [← bits256_getElem a i h1, ← bits256_getElem b i h2]
  simp [h]

theorem bitB_ofBits (bs : BitStr) (i : Nat) (hi : i < 256) :
    bitB (ofBits bs).val i = bs.getD i false := by
  simp only [bitB, hi, ↓reduceDIte, ofBits, Vector.getElem_ofFn]
  rw [byteBit_byteOfBits _ _ (Nat.mod_lt _ (by omega))]
  simp only [List.getD_eq_getElem?_getD, List.getElem?_drop]
  congr 2
  omega

theorem bits256_ofBits (bs : BitStr) (h : bs.length ≤ 256) :
    (ofBits bs).bits256 = bs ++ List.replicate (256 - bs.length) false := by
  apply List.ext_getElem
  · simp [bits256_length]; omega
  · intro i h1 h2
    have hi : i < 256 := by simpa [bits256_length] using h1
    rw [bits256_getElem, bitB_ofBits _ _ hi]
    by_cases hb : i < bs.length
    · rw [List.getElem_append_left hb]; simp [hb]
    · rw [List.getElem_append_right (by omega)]; simp [hb]

theorem allBelow_iff (p : Nat → Bool) (n : Nat) : allBelow p n = true ↔ ∀ i, i < n → p i = true := by
  induction n with
  | zero => simp [allBelow]
  | succ n ih =>
    simp only [allBelow, Bool.and_eq_true, ih]
    constructor
    · rintro ⟨h1, h2⟩ i hi
      by_cases h : i = n
      · subst h; exact h2
      · exact h1 i (by omega)
    · intro h
      exact ⟨fun i hi => h i (by omega), h n (by omega)⟩

theorem bitAt_eq (l : NodeLabel) (i : Nat) (h1 : i < l.len) (h2 : i < 256) :
    l.bitAt i = .bit (bitB l.val i) := by
  have : ¬ i ≥ l.len := by omega
  simp [bitAt, this, bitOfBytes_eq _ _ h2]

theorem bits_getElem (l : NodeLabel) (i : Nat) (h : i < l.bits.length) :
    l.bits[i] = bitB l.val i := by
  simp [bits, bits256_getElem]

theorem prefix_bits_iff (t : List Bool) (b : NodeLabel) (hb : b.len ≤ 256) :
    t <+: b.bits ↔ t.length ≤ b.len ∧ ∀ i (h : i < t.length), t[i] = bitB b.val i := by
  have hlen : b.bits.length = b.len := by rw [bits_length]; omega
  constructor
  · intro h
    have hl := h.length_le
    refine ⟨by omega, fun i hi => ?_⟩
    rw [List.prefix_iff_eq_take] at h
    have : t[i] = (List.take t.length b.bits)[i]'(by simp; omega) := by
      congr 1
    rw [this, List.getElem_take, bits_getElem]
  · rintro ⟨h1, h2⟩
    rw [List.prefix_iff_eq_take]
    apply List.ext_getElem
    · simp; omega
    · intro i hi1 hi2
      rw [List.getElem_take, bits_getElem, h2 i hi1]

theorem bits_prefix_iff (a b : NodeLabel) (ha : a.len ≤ 256) (hb : b.len ≤ 256) :
    a.bits <+: b.bits ↔ a.len ≤ b.len ∧ ∀ i, i < a.len → bitB a.val i = bitB b.val i := by
  have hlen : a.bits.length = a.len := by rw [bits_length]; omega
  rw [prefix_bits_iff _ _ hb]
  constructor
  · rintro ⟨h1, h2⟩
    refine ⟨by omega, fun i hi => ?_⟩
    rw [← h2 i (by omega), bits_getElem]
  · rintro ⟨h1, h2⟩
    refine ⟨by omega, fun i hi => ?_⟩
    rw [bits_getElem, h2 i (by omega)]

theorem isPrefixOf_iff' (a b : NodeLabel) (hb : b.len ≤ 256) :
    a.isPrefixOf b = true ↔ a.len ≤ b.len ∧ ∀ i, i < a.len → bitB a.val i = bitB b.val i := by
  unfold isPrefixOf
  by_cases h : a.len > b.len
  · simp only [h, ↓reduceIte]
    constructor
    · intro h; cases h
    · rintro ⟨h1, _⟩; omega
  · simp only [h, ↓reduceIte, allBelow_iff]
    have hle : a.len ≤ b.len := by omega
    constructor
    · intro hh
      refine ⟨hle, fun i hi => ?_⟩
      have := hh i hi
      rw [bitAt_eq a i hi (by omega), bitAt_eq b i (by omega) (by omega)] at this
      simpa using this
    · rintro ⟨_, hh⟩ i hi
      rw [bitAt_eq a i hi (by omega), bitAt_eq b i (by omega) (by omega), hh i hi]
      simp

end NodeLabel
end Akd
