/-
Helper lemmas for C12 (the publish transition system).
-/
import AkdModel.Conc
namespace Akd.Conc
end Akd.Conc
