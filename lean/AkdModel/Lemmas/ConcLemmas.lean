/-
Helper lemmas for C12 (the publish transition system).

`Inv base s` is the inductive invariant of the repaired protocol (`Proto.fixed`): it holds in the
initial state of fresh publishers (`inv_init`), is preserved by every enabled step (`inv_step`) and
hence by every schedule (`inv_run`, `inv_reach`).  `VInv` is the invariant of the trace validator.
-/
import AkdModel.Conc
namespace Akd.Conc


/-- phases in which the publish mutex is held -/
def Crit : Pc → Prop
  | .readEpoch | .readVersions | .inserting _ | .commitWrite => True
  | _ => False

/-- phases after the epoch read, still inside the mutex -/
def Past : Pc → Prop
  | .readVersions | .inserting _ | .commitWrite => True
  | _ => False

/-- phases reached only by effective batches -/
def Writing : Pc → Prop
  | .inserting _ | .commitWrite => True
  | _ => False

@[simp] theorem crit_start : Crit .start = False := rfl
@[simp] theorem crit_readEpoch : Crit .readEpoch = True := rfl
@[simp] theorem crit_readVersions : Crit .readVersions = True := rfl
@[simp] theorem crit_inserting (k) : Crit (.inserting k) = True := rfl
@[simp] theorem crit_commitWrite : Crit .commitWrite = True := rfl
@[simp] theorem crit_readRoot : Crit .readRoot = False := rfl
@[simp] theorem crit_done (e) : Crit (.done e) = False := rfl
@[simp] theorem crit_refused : Crit .refused = False := rfl
@[simp] theorem past_start : Past .start = False := rfl
@[simp] theorem past_readEpoch : Past .readEpoch = False := rfl
@[simp] theorem past_readVersions : Past .readVersions = True := rfl
@[simp] theorem past_inserting (k) : Past (.inserting k) = True := rfl
@[simp] theorem past_commitWrite : Past .commitWrite = True := rfl
@[simp] theorem past_readRoot : Past .readRoot = False := rfl
@[simp] theorem past_done (e) : Past (.done e) = False := rfl
@[simp] theorem past_refused : Past .refused = False := rfl
@[simp] theorem writing_start : Writing .start = False := rfl
@[simp] theorem writing_readEpoch : Writing .readEpoch = False := rfl
@[simp] theorem writing_readVersions : Writing .readVersions = False := rfl
@[simp] theorem writing_inserting (k) : Writing (.inserting k) = True := rfl
@[simp] theorem writing_commitWrite : Writing .commitWrite = True := rfl
@[simp] theorem writing_readRoot : Writing .readRoot = False := rfl
@[simp] theorem writing_done (e) : Writing (.done e) = False := rfl
@[simp] theorem writing_refused : Writing .refused = False := rfl

/-- the invariant of the repaired protocol -/
structure Inv (base : Nat) (s : Sys) : Prop where
  hCons : ∀ k (h : k < s.hist.length), (s.hist[k]).2 = base + k + 1
  hEpoch : s.epoch = base + s.hist.length
  hCritLock : ∀ (i : Nat) (p : Pub), s.pubs[i]? = some p → Crit p.pc → s.lock = some i
  hLockCrit : ∀ h : Nat, s.lock = some h → ∃ p : Pub, s.pubs[h]? = some p ∧ Crit p.pc
  hSeen : ∀ (i : Nat) (p : Pub), s.pubs[i]? = some p → Past p.pc → p.seen = s.epoch
  hWriting : ∀ (i : Nat) (p : Pub), s.pubs[i]? = some p → Writing p.pc → p.changes = true
  hHistDone : ∀ (i e : Nat), (i, e) ∈ s.hist → ∃ p : Pub, s.pubs[i]? = some p ∧ p.pc = .done e ∧ p.changes = true
  hDoneHist : ∀ (i : Nat) (p : Pub) (e : Nat), s.pubs[i]? = some p → p.pc = .done e → p.changes = true → (i, e) ∈ s.hist
  hNoop : ∀ (i : Nat) (p : Pub) (e : Nat), s.pubs[i]? = some p → p.pc = .done e → p.changes = false → base ≤ e ∧ e ≤ s.epoch
  hNoBad : ∀ (i : Nat) (p : Pub), s.pubs[i]? = some p → p.pc ≠ .refused ∧ p.pc ≠ .readRoot

theorem getElem?_setPub {s : Sys} {i : Nat} {p : Pub} (p' : Pub) (h : s.pubs[i]? = some p) (j : Nat) (q : Pub) :
    (setPub s i p').pubs[j]? = some q ↔ (j = i ∧ q = p') ∨ (j ≠ i ∧ s.pubs[j]? = some q) := by
  have hi : i < s.pubs.length := by
    rcases List.getElem?_eq_some_iff.1 h with ⟨hi, _⟩; exact hi
  simp only [setPub, List.getElem?_set]
  by_cases hji : i = j
  · subst hji; simp [hi, eq_comm]
  · have : j ≠ i := fun h => hji h.symm
    simp [hji, this]

theorem inv_init (base : Nat) (pubs : List Pub) (hf : ∀ p ∈ pubs, p.pc = .start) : Inv base (init base pubs) := by
  have hs : ∀ (i : Nat) (p : Pub), pubs[i]? = some p → p.pc = .start := fun i p h => hf p (List.mem_of_getElem? h)
  constructor <;> simp [init]
  · intro i p h; simp [hs i p h]
  · intro i p h; simp [hs i p h]
  · intro i p h; simp [hs i p h]
  · intro i p e h; simp [hs i p h]
  · intro i p e h; simp [hs i p h]
  · intro i p h; simp [hs i p h]


@[simp] theorem setPub_hist (s : Sys) (i : Nat) (p : Pub) : (setPub s i p).hist = s.hist := rfl
@[simp] theorem setPub_epoch (s : Sys) (i : Nat) (p : Pub) : (setPub s i p).epoch = s.epoch := rfl
@[simp] theorem setPub_lock (s : Sys) (i : Nat) (p : Pub) : (setPub s i p).lock = s.lock := rfl

theorem crit_not_done {pc : Pc} (h : Crit pc) (e : Nat) : pc ≠ .done e := by
  intro h'; subst h'; simp at h

theorem crit_noBad {pc : Pc} (h : Crit pc) : pc ≠ .refused ∧ pc ≠ .readRoot := by
  constructor <;> (intro h'; subst h'; simp at h)

/-- a step inside the critical section that touches only the publisher's own record -/
theorem inv_local {base : Nat} {s : Sys} {i : Nat} {p : Pub} (p' : Pub) (hI : Inv base s)
    (hp : s.pubs[i]? = some p) (hc : Crit p.pc) (hc' : Crit p'.pc)
    (hs' : Past p'.pc → p'.seen = s.epoch) (hw' : Writing p'.pc → p'.changes = true) :
    Inv base (setPub s i p') := by
  have hlock := hI.hCritLock i p hp hc
  refine ⟨hI.hCons, hI.hEpoch, ?_, ?_, ?_, ?_, ?_, ?_, ?_, ?_⟩
  · intro j q hq hcq
    rcases (getElem?_setPub p' hp j q).1 hq with ⟨rfl, rfl⟩ | ⟨_, hq'⟩
    · exact hlock
    · exact hI.hCritLock j q hq' hcq
  · intro h hh
    have : h = i := by simp [hlock] at hh; exact hh.symm
    subst this
    exact ⟨p', (getElem?_setPub p' hp h p').2 (Or.inl ⟨rfl, rfl⟩), hc'⟩
  · intro j q hq hcq
    rcases (getElem?_setPub p' hp j q).1 hq with ⟨rfl, rfl⟩ | ⟨_, hq'⟩
    · exact hs' hcq
    · exact hI.hSeen j q hq' hcq
  · intro j q hq hcq
    rcases (getElem?_setPub p' hp j q).1 hq with ⟨rfl, rfl⟩ | ⟨_, hq'⟩
    · exact hw' hcq
    · exact hI.hWriting j q hq' hcq
  · intro j e hje
    obtain ⟨q, hq, hqd, hqc⟩ := hI.hHistDone j e hje
    have hne : j ≠ i := by
      rintro rfl
      rw [hp] at hq; cases hq
      exact crit_not_done hc e hqd
    exact ⟨q, (getElem?_setPub p' hp j q).2 (Or.inr ⟨hne, hq⟩), hqd, hqc⟩
  · intro j q e hq hqd hqc
    rcases (getElem?_setPub p' hp j q).1 hq with ⟨rfl, rfl⟩ | ⟨_, hq'⟩
    · exact absurd hqd (crit_not_done hc' e)
    · exact hI.hDoneHist j q e hq' hqd hqc
  · intro j q e hq hqd hqc
    rcases (getElem?_setPub p' hp j q).1 hq with ⟨rfl, rfl⟩ | ⟨_, hq'⟩
    · exact absurd hqd (crit_not_done hc' e)
    · exact hI.hNoop j q e hq' hqd hqc
  · intro j q hq
    rcases (getElem?_setPub p' hp j q).1 hq with ⟨rfl, rfl⟩ | ⟨_, hq'⟩
    · exact crit_noBad hc'
    · exact hI.hNoBad j q hq'


theorem past_crit {pc : Pc} (h : Past pc) : Crit pc := by
  cases pc <;> simp_all

theorem writing_past {pc : Pc} (h : Writing pc) : Past pc := by
  cases pc <;> simp_all

/-- taking the mutex -/
theorem inv_acquire {base : Nat} {s : Sys} {i : Nat} {p : Pub} (p' : Pub) (hI : Inv base s)
    (hp : s.pubs[i]? = some p) (hc : p.pc = .start) (hl : s.lock = none) (hc' : p'.pc = .readEpoch) :
    Inv base (setPub { s with lock := some i } i p') := by
  have hp0 : ({ s with lock := some i } : Sys).pubs[i]? = some p := hp
  refine ⟨hI.hCons, hI.hEpoch, ?_, ?_, ?_, ?_, ?_, ?_, ?_, ?_⟩
  · intro j q hq hcq
    rcases (getElem?_setPub p' hp0 j q).1 hq with ⟨rfl, rfl⟩ | ⟨_, hq'⟩
    · rfl
    · have := hI.hCritLock j q hq' hcq
      rw [hl] at this; cases this
  · intro h hh
    have : h = i := by simp at hh; exact hh.symm
    subst this
    exact ⟨p', (getElem?_setPub p' hp0 h p').2 (Or.inl ⟨rfl, rfl⟩), by simp [hc']⟩
  · intro j q hq hcq
    rcases (getElem?_setPub p' hp0 j q).1 hq with ⟨rfl, rfl⟩ | ⟨_, hq'⟩
    · simp [hc'] at hcq
    · exact hI.hSeen j q hq' hcq
  · intro j q hq hcq
    rcases (getElem?_setPub p' hp0 j q).1 hq with ⟨rfl, rfl⟩ | ⟨_, hq'⟩
    · simp [hc'] at hcq
    · exact hI.hWriting j q hq' hcq
  · intro j e hje
    obtain ⟨q, hq, hqd, hqc⟩ := hI.hHistDone j e hje
    have hne : j ≠ i := by
      rintro rfl
      rw [hp] at hq; cases hq
      rw [hc] at hqd; cases hqd
    exact ⟨q, (getElem?_setPub p' hp0 j q).2 (Or.inr ⟨hne, hq⟩), hqd, hqc⟩
  · intro j q e hq hqd hqc
    rcases (getElem?_setPub p' hp0 j q).1 hq with ⟨rfl, rfl⟩ | ⟨_, hq'⟩
    · rw [hc'] at hqd; cases hqd
    · exact hI.hDoneHist j q e hq' hqd hqc
  · intro j q e hq hqd hqc
    rcases (getElem?_setPub p' hp0 j q).1 hq with ⟨rfl, rfl⟩ | ⟨_, hq'⟩
    · rw [hc'] at hqd; cases hqd
    · exact hI.hNoop j q e hq' hqd hqc
  · intro j q hq
    rcases (getElem?_setPub p' hp0 j q).1 hq with ⟨rfl, rfl⟩ | ⟨_, hq'⟩
    · simp [hc']
    · exact hI.hNoBad j q hq'

/-- a no-op batch returns and releases the mutex -/
theorem inv_release {base : Nat} {s : Sys} {i : Nat} {p : Pub} (p' : Pub) (hI : Inv base s)
    (hp : s.pubs[i]? = some p) (hc : p.pc = .readVersions) (hc' : p'.pc = .done p.seen)
    (hch : p'.changes = false) :
    Inv base (setPub { s with lock := none } i p') := by
  have hp0 : ({ s with lock := none } : Sys).pubs[i]? = some p := hp
  have hlock := hI.hCritLock i p hp (by simp [hc])
  have hseen := hI.hSeen i p hp (by simp [hc])
  have hother : ∀ (j : Nat) (q : Pub), j ≠ i → s.pubs[j]? = some q → ¬ Crit q.pc := by
    intro j q hne hq hcq
    have := hI.hCritLock j q hq hcq
    rw [hlock] at this; cases this; exact hne rfl
  refine ⟨hI.hCons, hI.hEpoch, ?_, ?_, ?_, ?_, ?_, ?_, ?_, ?_⟩
  · intro j q hq hcq
    rcases (getElem?_setPub p' hp0 j q).1 hq with ⟨rfl, rfl⟩ | ⟨hne, hq'⟩
    · simp [hc'] at hcq
    · exact absurd hcq (hother j q hne hq')
  · intro h hh
    simp at hh
  · intro j q hq hcq
    rcases (getElem?_setPub p' hp0 j q).1 hq with ⟨rfl, rfl⟩ | ⟨_, hq'⟩
    · simp [hc'] at hcq
    · exact hI.hSeen j q hq' hcq
  · intro j q hq hcq
    rcases (getElem?_setPub p' hp0 j q).1 hq with ⟨rfl, rfl⟩ | ⟨_, hq'⟩
    · simp [hc'] at hcq
    · exact hI.hWriting j q hq' hcq
  · intro j e hje
    obtain ⟨q, hq, hqd, hqc⟩ := hI.hHistDone j e hje
    have hne : j ≠ i := by
      rintro rfl
      rw [hp] at hq; cases hq
      rw [hc] at hqd; cases hqd
    exact ⟨q, (getElem?_setPub p' hp0 j q).2 (Or.inr ⟨hne, hq⟩), hqd, hqc⟩
  · intro j q e hq hqd hqc
    rcases (getElem?_setPub p' hp0 j q).1 hq with ⟨rfl, rfl⟩ | ⟨_, hq'⟩
    · rw [hch] at hqc; cases hqc
    · exact hI.hDoneHist j q e hq' hqd hqc
  · intro j q e hq hqd hqc
    rcases (getElem?_setPub p' hp0 j q).1 hq with ⟨rfl, rfl⟩ | ⟨_, hq'⟩
    · rw [hc'] at hqd; cases hqd
      have := hI.hEpoch
      show base ≤ p.seen ∧ p.seen ≤ s.epoch
      omega
    · exact hI.hNoop j q e hq' hqd hqc
  · intro j q hq
    rcases (getElem?_setPub p' hp0 j q).1 hq with ⟨rfl, rfl⟩ | ⟨_, hq'⟩
    · simp [hc']
    · exact hI.hNoBad j q hq'

/-- the commit write -/
theorem inv_commit {base : Nat} {s : Sys} {i : Nat} {p : Pub} (p' : Pub) (hI : Inv base s)
    (hp : s.pubs[i]? = some p) (hc : p.pc = .commitWrite) (hc' : p'.pc = .done (p.seen + 1))
    (hch : p'.changes = p.changes) :
    Inv base (setPub { s with epoch := p.seen + 1, hist := s.hist ++ [(i, p.seen + 1)], lock := none } i p') := by
  have hp0 : ({ s with epoch := p.seen + 1, hist := s.hist ++ [(i, p.seen + 1)], lock := none } : Sys).pubs[i]?
      = some p := hp
  have hlock := hI.hCritLock i p hp (by simp [hc])
  have hseen := hI.hSeen i p hp (by simp [hc])
  have hchg := hI.hWriting i p hp (by simp [hc])
  have hep := hI.hEpoch
  have hother : ∀ (j : Nat) (q : Pub), j ≠ i → s.pubs[j]? = some q → ¬ Crit q.pc := by
    intro j q hne hq hcq
    have := hI.hCritLock j q hq hcq
    rw [hlock] at this; cases this; exact hne rfl
  refine ⟨?_, ?_, ?_, ?_, ?_, ?_, ?_, ?_, ?_, ?_⟩
  · intro k hk
    simp only [setPub_hist, List.length_append, List.length_cons, List.length_nil] at hk ⊢
    by_cases hk' : k < s.hist.length
    · rw [List.getElem_append_left hk']; exact hI.hCons k hk'
    · have : k = s.hist.length := by omega
      subst this
      simp
      omega
  · simp; omega
  · intro j q hq hcq
    rcases (getElem?_setPub p' hp0 j q).1 hq with ⟨rfl, rfl⟩ | ⟨hne, hq'⟩
    · simp [hc'] at hcq
    · exact absurd hcq (hother j q hne hq')
  · intro h hh
    simp at hh
  · intro j q hq hcq
    rcases (getElem?_setPub p' hp0 j q).1 hq with ⟨rfl, rfl⟩ | ⟨hne, hq'⟩
    · simp [hc'] at hcq
    · exact absurd (past_crit hcq) (hother j q hne hq')
  · intro j q hq hcq
    rcases (getElem?_setPub p' hp0 j q).1 hq with ⟨rfl, rfl⟩ | ⟨_, hq'⟩
    · simp [hc'] at hcq
    · exact hI.hWriting j q hq' hcq
  · intro j e hje
    simp only [setPub_hist, List.mem_append, List.mem_singleton, Prod.mk.injEq] at hje
    rcases hje with hje | ⟨rfl, rfl⟩
    · obtain ⟨q, hq, hqd, hqc⟩ := hI.hHistDone j e hje
      have hne : j ≠ i := by
        rintro rfl
        rw [hp] at hq; cases hq
        rw [hc] at hqd; cases hqd
      exact ⟨q, (getElem?_setPub p' hp0 j q).2 (Or.inr ⟨hne, hq⟩), hqd, hqc⟩
    · exact ⟨p', (getElem?_setPub p' hp0 j p').2 (Or.inl ⟨rfl, rfl⟩), hc', by rw [hch, hchg]⟩
  · intro j q e hq hqd hqc
    simp only [setPub_hist, List.mem_append, List.mem_singleton, Prod.mk.injEq]
    rcases (getElem?_setPub p' hp0 j q).1 hq with ⟨rfl, rfl⟩ | ⟨_, hq'⟩
    · rw [hc'] at hqd; cases hqd
      exact Or.inr ⟨rfl, rfl⟩
    · exact Or.inl (hI.hDoneHist j q e hq' hqd hqc)
  · intro j q e hq hqd hqc
    rcases (getElem?_setPub p' hp0 j q).1 hq with ⟨rfl, rfl⟩ | ⟨_, hq'⟩
    · rw [hch, hchg] at hqc; cases hqc
    · have := hI.hNoop j q e hq' hqd hqc
      show base ≤ e ∧ e ≤ p.seen + 1
      omega
  · intro j q hq
    rcases (getElem?_setPub p' hp0 j q).1 hq with ⟨rfl, rfl⟩ | ⟨_, hq'⟩
    · simp [hc']
    · exact hI.hNoBad j q hq'


/-- every step of the repaired protocol preserves the invariant -/
theorem inv_step {base : Nat} {s s' : Sys} {i : Nat} (hI : Inv base s) (h : step .fixed s i = some s') :
    Inv base s' := by
  unfold step at h
  cases hp : s.pubs[i]? with
  | none => simp [hp] at h
  | some p =>
    simp only [hp] at h
    cases hpc : p.pc with
    | start =>
      simp only [hpc] at h
      split at h
      · cases h
      · rename_i hl
        cases h
        exact inv_acquire _ hI hp hpc (by simpa using hl) rfl
    | readEpoch =>
      simp only [hpc] at h
      cases h
      exact inv_local _ hI hp (by simp [hpc]) (by simp) (fun _ => rfl) (by simp)
    | readVersions =>
      simp only [hpc] at h
      split at h
      · rename_i hch
        cases h
        exact inv_local _ hI hp (by simp [hpc]) (by simp) (fun _ => hI.hSeen i p hp (by simp [hpc]))
          (fun _ => hch)
      · rename_i hch
        cases h
        exact inv_release _ hI hp hpc rfl (by simpa using hch)
    | inserting k =>
      simp only [hpc] at h
      have hs := hI.hSeen i p hp (by simp [hpc])
      have hw := hI.hWriting i p hp (by simp [hpc])
      cases k with
      | zero =>
        cases h
        exact inv_local _ hI hp (by simp [hpc]) (by simp) (fun _ => hs) (fun _ => hw)
      | succ k =>
        cases h
        exact inv_local _ hI hp (by simp [hpc]) (by simp) (fun _ => hs) (fun _ => hw)
    | commitWrite =>
      simp only [hpc] at h
      cases h
      exact inv_commit _ hI hp hpc rfl rfl
    | readRoot => simp [hpc] at h
    | done e => simp [hpc] at h
    | refused => simp [hpc] at h

theorem inv_run {base : Nat} (sched : List Nat) {s : Sys} (hI : Inv base s) : Inv base (run .fixed s sched) := by
  induction sched generalizing s with
  | nil => exact hI
  | cons i rest ih =>
    simp only [run, List.foldl_cons]
    cases h : step .fixed s i with
    | none => exact ih hI
    | some s' => exact ih (inv_step hI h)

theorem inv_reach (base : Nat) (pubs : List Pub) (hf : ∀ p ∈ pubs, p.pc = .start) (sched : List Nat) :
    Inv base (run .fixed (init base pubs) sched) :=
  inv_run sched (inv_init base pubs hf)


/-! ### the trace validator -/


/-- invariant of the trace validator -/
def VInv (base : Nat) (v : VState) : Prop :=
  (∀ k (hk : k < v.outcomes.length), (v.outcomes[k]).2 = base + k + 1) ∧ v.epoch = base + v.outcomes.length

theorem vinv_commit {base : Nat} {v : VState} (t k : Nat) (hv : VInv base v) (hk : k = v.epoch + 1) :
    VInv base { epoch := k, holder := none, outcomes := v.outcomes ++ [(t, k)] } := by
  obtain ⟨h1, h2⟩ := hv
  constructor
  · intro j hj
    simp only [List.length_append, List.length_cons, List.length_nil] at hj
    by_cases hj' : j < v.outcomes.length
    · simp only [List.getElem_append_left hj']; exact h1 j hj'
    · have : j = v.outcomes.length := by omega
      subst this
      simp
      omega
  · simp; omega

theorem vinv_step {base : Nat} {v v' : VState} (e : Nat × Ev) (hv : VInv base v)
    (h : validateStep v e = .ok v') : VInv base v' := by
  obtain ⟨t, ev⟩ := e
  unfold validateStep at h
  simp only at h
  cases hh : v.holder with
  | none =>
    simp only [hh] at h
    cases ev with
    | getAzks k =>
      simp only at h
      split at h
      · cases h; exact hv
      · cases h
    | read => cases h; exact hv
    | commit k =>
      simp only at h
      split at h
      · rename_i hk; cases h; exact vinv_commit t k hv hk
      · cases h
  | some ho =>
    simp only [hh] at h
    split at h
    · cases h
    · cases ev with
      | getAzks k =>
        simp only at h
        split at h
        · cases h; exact hv
        · cases h
      | read => cases h; exact hv
      | commit k =>
        simp only at h
        split at h
        · rename_i hk; cases h; exact vinv_commit t k hv hk
        · cases h

theorem vinv_foldlM {base : Nat} (tr : List (Nat × Ev)) {v0 v : VState} (hv : VInv base v0)
    (h : tr.foldlM validateStep v0 = .ok v) : VInv base v := by
  induction tr generalizing v0 with
  | nil => simp [List.foldlM, pure, Except.pure] at h; cases h; exact hv
  | cons e rest ih =>
    simp only [List.foldlM_cons, bind, Except.bind] at h
    cases hs : validateStep v0 e with
    | error m => simp [hs] at h
    | ok v1 =>
      simp only [hs] at h
      exact ih (vinv_step e hv hs) h

end Akd.Conc
