/-
Proof generation over storage, part 2: `lcpProof`, `membershipProof`, `nonMembershipProof` compute the
canonical proofs (`CRoot.lcpProof`, `genMembership`, `genNonMembership`).
-/
import AkdModel.Lemmas.GenWalk
namespace Akd.Gen
open Akd NodeLabel NodeStore Ins

/-! ### `lcpProof`, `membershipProof` -/

def hashOf (c : Cfg) (n : TreeNode) : Dig :=
  if n.nodeType = .leaf then c.leafHash n.hash n.lastEpoch else n.hash

theorem lcpProof_eq (c : Cfg) (s : NodeStore) (a : Azks) (label : NodeLabel) :
    s.lcpProof c a label =
      match s.getNode NodeLabel.root a.latestEpoch with
      | .error e => .error e
      | .ok root =>
        match lcpWalk c s label a.latestEpoch 300 root root [] with
        | .error e => .error e
        | .ok r => .ok ((finish r).1.label, ⟨(finish r).1.label, hashOf c (finish r).1, (finish r).2⟩) := by
  unfold NodeStore.lcpProof
  cases s.getNode NodeLabel.root a.latestEpoch with
  | error e => rfl
  | ok root =>
    simp only
    cases lcpWalk c s label a.latestEpoch 300 root root [] with
    | error e => rfl
    | ok r =>
      obtain ⟨cur, prev, sps, equal⟩ := r
      cases equal <;> rfl

theorem hashOf_nodeIs {c : Cfg} {t : CTree} {n : TreeNode} (h : NodeIs c .directory t n) :
    hashOf c n = t.azks c .withLeafEpoch := by
  have := azksValue_nodeIs h
  simp only [decide_true, nodeToAzksValue, Bool.and_true, decide_eq_true_eq] at this
  exact this

theorem hashOf_rootIs {c : Cfg} {t : CRoot} {n : TreeNode} (h : RootIs c t n) :
    hashOf c n = t.value c .withLeafEpoch := by
  simp [hashOf, h.ty, h.hash]

theorem lcpProof_refines (c : Cfg) (s : NodeStore) (a : Azks) (t : CRoot) (x : BitStr) (hx : x.length ≤ 256)
    (hrep : RepRoot c .directory s t) (hwf : t.WF)
    (hl : ∀ lf ∈ t.leaves, lf.lbl.length ≤ 256) (hep : ∀ lf ∈ t.leaves, lf.ep ≤ a.latestEpoch)
    (hnp : ∀ lf ∈ t.leaves, lf.lbl <+: x → lf.lbl = x) :
    s.lcpProof c a (ofBits x) = .ok ((t.lcpProof c x).label, t.lcpProof c x) := by
  obtain ⟨n, hg, hn⟩ := root_of_repRoot c s t a.latestEpoch hrep hep
  obtain ⟨r, nd, h1, h2, h3⟩ := walk_root c s a.latestEpoch t x hx hrep hwf hl hep hnp n hn
  rw [lcpProof_eq, hg]
  simp only [h1, h2]
  unfold CRoot.lcpProof
  generalize t.path c x = p at h3
  obtain ⟨p1, p2⟩ := p
  cases p1 with
  | none =>
    simp only at h3
    subst h3
    simp only [hn.label, hashOf_rootIs hn]
  | some d =>
    simp only at h3
    simp only [nodeIs_label h3, hashOf_nodeIs h3]


theorem membershipProof_core (c : Cfg) (s : NodeStore) (a : Azks) (t : CRoot) (x : BitStr) (hx : x.length ≤ 256)
    (hrep : RepRoot c .directory s t) (hwf : t.WF)
    (hl : ∀ lf ∈ t.leaves, lf.lbl.length ≤ 256) (hep : ∀ lf ∈ t.leaves, lf.ep ≤ a.latestEpoch)
    (hnp : ∀ lf ∈ t.leaves, lf.lbl <+: x → lf.lbl = x) :
    s.membershipProof c a (ofBits x) = .ok (t.genMembership c x) := by
  unfold NodeStore.membershipProof
  rw [lcpProof_refines c s a t x hx hrep hwf hl hep hnp]
  rfl

/-! ### `nonMembershipProof` -/

theorem rep_sub {c : Cfg} {m : InsertMode} {s : NodeStore} {d a : CTree} (h : CTree.Sub d a)
    (hr : Rep c m s a) : Rep c m s d := by
  induction h with
  | refl => exact hr
  | left q r _ ih => exact ih hr.2.1
  | right q l _ ih => exact ih hr.2.2

theorem maxEp_sub {d a : CTree} (h : CTree.Sub d a) : maxEp d ≤ maxEp a := by
  induction h with
  | refl => exact Nat.le_refl _
  | left q r _ ih => simp only [maxEp]; omega
  | right q l _ ih => simp only [maxEp]; omega

/-- the child lookup of `get_non_membership_proof` -/
def childEl (c : Cfg) (s : NodeStore) (ep : Nat) (n : TreeNode) (d : Direction) : Except Err AzksElement :=
  match s.getChildForProof n d ep with
  | .error e => .error e
  | .ok none => .ok ⟨c.emptyLabel, c.emptyNodeHash⟩
  | .ok (some ch) =>
    match s.getNode ch.label ep with
    | .error e => .error e
    | .ok u => .ok ⟨u.label, nodeToAzksValue c true (some u)⟩

theorem nonMembershipProof_eq (c : Cfg) (s : NodeStore) (a : Azks) (label : NodeLabel) :
    s.nonMembershipProof c a label =
      match s.lcpProof c a label with
      | .error e => .error e
      | .ok (lcpLabel, mp) =>
        match s.getNode lcpLabel a.latestEpoch with
        | .error e => .error e
        | .ok n =>
          match childEl c s a.latestEpoch n .left, childEl c s a.latestEpoch n .right with
          | .ok c0, .ok c1 => .ok ⟨label, n.label, c0, c1, mp⟩
          | .error e, _ => .error e
          | _, .error e => .error e := rfl

theorem childEl_rep (c : Cfg) (s : NodeStore) (o : Option CTree) (ep : Nat)
    (hrep : ∀ t, o = some t → Rep c .directory s t ∧ maxEp t ≤ ep) (n : TreeNode) (d : Direction)
    (h : n.childLabel d = olbl o) :
    childEl c s ep n d = .ok (CRoot.element c o) := by
  unfold childEl
  cases o with
  | none =>
    rw [getChildForProof_of_label_none (by rw [h]; rfl)]
    rfl
  | some t =>
    obtain ⟨hr, hm⟩ := hrep t rfl
    obtain ⟨nt, h1, h2⟩ := getChild_some c .directory s t ep hr hm n d h
    obtain ⟨u, h3, h4⟩ := getNode_rep c .directory s t ep hr hm
    rw [getChildForProof_of_getChild_some h1]
    simp only [nodeIs_label h2, h3]
    have := azksValue_nodeIs h4
    simp only [decide_true] at this
    rw [this, nodeIs_label h4]
    rfl

theorem genNonMembership_leaf (c : Cfg) (t : CRoot) (x : BitStr) {q : BitStr} {v : Dig} {e : Nat}
    (h : (t.path c x).1 = some (.leaf q v e)) :
    t.genNonMembership c x =
      ⟨NodeLabel.ofBits x, NodeLabel.ofBits q, CRoot.element c none, CRoot.element c none,
        ⟨NodeLabel.ofBits q, (CTree.leaf q v e).azks c .withLeafEpoch, (t.path c x).2⟩⟩ := by
  unfold CRoot.genNonMembership CRoot.lcpProof
  generalize t.path c x = p at h
  obtain ⟨p1, p2⟩ := p
  simp only at h
  subst h
  rfl

theorem nonMembershipProof_core (c : Cfg) (s : NodeStore) (a : Azks) (t : CRoot) (x : BitStr) (hx : x.length ≤ 256)
    (hrep : RepRoot c .directory s t) (hwf : t.WF)
    (hl : ∀ lf ∈ t.leaves, lf.lbl.length ≤ 256) (hep : ∀ lf ∈ t.leaves, lf.ep ≤ a.latestEpoch)
    (hnp : ∀ lf ∈ t.leaves, lf.lbl <+: x → lf.lbl = x) :
    s.nonMembershipProof c a (ofBits x) = .ok (t.genNonMembership c x) := by
  rw [nonMembershipProof_eq, lcpProof_refines c s a t x hx hrep hwf hl hep hnp]
  simp only
  rcases CRoot.path_fst c t hwf x with ⟨hnone, -⟩ | ⟨ch, hch, hpx, hsome⟩
  · -- the walk stays at the root
    obtain ⟨n, hg, hn⟩ := root_of_repRoot c s t a.latestEpoch hrep hep
    have hlab : (t.lcpProof c x).label = NodeLabel.root := by
      unfold CRoot.lcpProof
      generalize t.path c x = p at hnone
      obtain ⟨p1, p2⟩ := p
      simp only at hnone
      subst hnone
      rfl
    have hside : ∀ b t', (t.side b).1 = some t' → Rep c .directory s t' ∧ maxEp t' ≤ a.latestEpoch :=
      fun b t' h => side_rep c s t a.latestEpoch hrep hep b t' h
    rw [hlab, hg]
    simp only
    rw [childEl_rep c s t.l a.latestEpoch (fun t' h => hside false t' h) n .left hn.left,
      childEl_rep c s t.r a.latestEpoch (fun t' h => hside true t' h) n .right hn.right]
    simp only [hn.label]
    rw [CRoot.genNonMembership_none c t x hnone]
    unfold CRoot.lcpProof
    generalize t.path c x = p at hnone
    obtain ⟨p1, p2⟩ := p
    simp only at hnone
    subst hnone
    rfl
  · -- the walk ends inside a child
    obtain ⟨b, hb⟩ := CRoot.child_iff_side.1 hch
    obtain ⟨hrc, hmc⟩ := side_rep c s t a.latestEpoch hrep hep b ch hb
    have hsub := CTree.path_sub c x ch
    have hrd := rep_sub hsub hrc
    have hmd : maxEp (ch.path c x).1 ≤ a.latestEpoch := Nat.le_trans (maxEp_sub hsub) hmc
    generalize (ch.path c x).1 = d at hsome hsub hrd hmd
    have hlab : (t.lcpProof c x).label = ofBits d.lbl := by
      unfold CRoot.lcpProof
      generalize t.path c x = p at hsome
      obtain ⟨p1, p2⟩ := p
      simp only at hsome
      subst hsome
      rfl
    obtain ⟨n, hg, hn⟩ := getNode_rep c .directory s d a.latestEpoch hrd hmd
    rw [hlab, hg]
    simp only
    cases d with
    | leaf q v e =>
      rw [childEl_rep c s none a.latestEpoch (fun t' h => nomatch h) n .left hn.2.2.1,
        childEl_rep c s none a.latestEpoch (fun t' h => nomatch h) n .right hn.2.2.2.1]
      simp only [hn.1]
      rw [genNonMembership_leaf c t x hsome]
      unfold CRoot.lcpProof
      generalize t.path c x = p at hsome
      obtain ⟨p1, p2⟩ := p
      simp only at hsome
      subst hsome
      rfl
    | node q l r =>
      obtain ⟨_, hrl, hrr⟩ := hrd
      have hml : maxEp l ≤ a.latestEpoch := by simp only [maxEp] at hmd; omega
      have hmr : maxEp r ≤ a.latestEpoch := by simp only [maxEp] at hmd; omega
      rw [childEl_rep c s (some l) a.latestEpoch (fun t' h => by cases h; exact ⟨hrl, hml⟩) n .left hn.2.2.1,
        childEl_rep c s (some r) a.latestEpoch (fun t' h => by cases h; exact ⟨hrr, hmr⟩) n .right hn.2.2.2.1]
      simp only [hn.1]
      rw [CRoot.genNonMembership_node c t x hsome]
      unfold CRoot.lcpProof
      generalize t.path c x = p at hsome
      obtain ⟨p1, p2⟩ := p
      simp only at hsome
      subst hsome
      rfl

end Akd.Gen
