/-
C19 helper lemmas: one iteration of `parseMsg.loop` on one written value (`step_value`), for each kind;
lemma-level well-formedness `WireOK` and equality up to representation `WireEqv`.
-/
import AkdModel.Lemmas.ProtoStream
namespace Akd.Proto

/-- the value reader of `parseMsg.loop` for a known field -/
def readVal (fuel level : Nat) (kind : Kind) (rest : In) : Option (PVal × In) :=
  match kind with
  | .bytes =>
    match rest.varint32 with
    | some (len, r2) => (r2.take len).map fun (b, r3) => (PVal.bytes b, r3)
    | none => none
  | .uint32 => (rest.varint32).map fun (v, r) => (PVal.num v, r)
  | .uint64 => (rest.varint64).map fun (v, r) => (PVal.num v, r)
  | .msg sub =>
    if level ≥ 100 then none
    else
    match rest.varint64 with
    | some (len, r2) =>
      if len > r2.lim then none
      else
        match parseMsg fuel (level + 1) sub ⟨r2.bytes, len⟩ with
        | some (m, inner) => some (PVal.msg m, popLimit r2 len inner)
        | none => none
    | none => none

theorem loop_known (fuel level : Nat) (ty : MsgTy) (k : Nat) (i : In) (acc : PMsg)
    (t : Nat) (rest : In) (f : FieldSpec) (v : PVal) (rest' : In)
    (heof : i.eof = false) (hvar : i.varint32 = some (t, rest))
    (htag : unpackTag? t = some (f.num, wireOf f.kind)) (hfind : findSpec ty f.num = some f)
    (hval : readVal fuel level f.kind rest = some (v, rest')) :
    parseMsg.loop fuel level ty (k + 1) i acc =
      parseMsg.loop fuel level ty k rest' (acc.put f.num (if f.repeated then acc.get f.num ++ [v] else [v])) := by
  rw [parseMsg.loop.eq_2]
  simp only [heof, hvar, htag, hfind, if_true]
  simp only [Bool.false_eq_true, if_false]
  change (match readVal fuel level f.kind rest with
    | none => none
    | some (v, rest') => parseMsg.loop fuel level ty k rest' (acc.put f.num (if f.repeated = true then acc.get f.num ++ [v] else [v]))) = _
  rw [hval]


/-! ### the writer, one value at a time -/

def tagOf (f : FieldSpec) : Nat := f.num * 8 + (match wireOf f.kind with | .varint => 0 | _ => 2)

def encVal (d : Nat) (f : FieldSpec) (v : PVal) : Bytes :=
  match v, f.kind with
  | .bytes b, .bytes => writeVarint (tagOf f) ++ lenDelim b
  | .num n, .uint32 => writeVarint (tagOf f) ++ writeVarint n
  | .num n, .uint64 => writeVarint (tagOf f) ++ writeVarint n
  | .msg sub, .msg sty => writeVarint (tagOf f) ++ lenDelim (writeMsgF d sty sub)
  | _, _ => []

theorem writeMsgF_succ (d : Nat) (ty : MsgTy) (m : PMsg) :
    writeMsgF (d + 1) ty m = (schema ty).flatMap fun f => (m.get f.num).flatMap fun v => encVal d f v := by
  rfl

deriving instance DecidableEq for FieldSpec

theorem schema_facts (ty : MsgTy) : ∀ f ∈ schema ty,
    findSpec ty f.num = some f ∧ tagOf f < 128 ∧ unpackTag? (tagOf f) = some (f.num, wireOf f.kind) := by
  cases ty <;> decide

theorem schema_nodup (ty : MsgTy) : ((schema ty).map (·.num)).Nodup := by
  cases ty <;> decide

theorem findSpec_mem (ty : MsgTy) (n : Nat) (f : FieldSpec) (h : findSpec ty n = some f) :
    f ∈ schema ty ∧ f.num = n := by
  unfold findSpec at h
  have h1 := List.mem_of_find?_eq_some h
  have h2 := List.find?_some h
  exact ⟨h1, by simpa using h2⟩


/-! ### well-formed messages and equality up to representation (lemma-level copies of `C19.MsgOK`, `C19.MsgEqv`) -/

def ValOKWith (P : MsgTy → PMsg → Prop) (W : MsgTy → PMsg → Bytes) (v : PVal) (k : Kind) : Prop :=
  match v, k with
  | .bytes b, .bytes => b.length < 2 ^ 31
  | .num n, .uint32 => n < 2 ^ 32
  | .num n, .uint64 => n < 2 ^ 64
  | .msg sub, .msg sty => P sty sub ∧ (W sty sub).length < 2 ^ 31
  | _, _ => False

def WireOK : Nat → MsgTy → PMsg → Prop
  | 0, _, _ => False
  | d + 1, ty, m =>
    ∀ n vs, (n, vs) ∈ m → ∃ f, findSpec ty n = some f ∧ (f.repeated = false → vs.length ≤ 1) ∧
      ∀ v ∈ vs, ValOKWith (WireOK d) (writeMsgF d) v f.kind

def ValEqvWith (E : PMsg → PMsg → Prop) : PVal → PVal → Prop
  | .bytes p, .bytes q => p = q
  | .num p, .num q => p = q
  | .msg s, .msg t => E s t
  | _, _ => False

/-- pointwise relation of two lists of the same length -/
def ListRel {α β : Type} (R : α → β → Prop) : List α → List β → Prop
  | [], [] => True
  | x :: xs, y :: ys => R x y ∧ ListRel R xs ys
  | _, _ => False

def WireEqv : Nat → PMsg → PMsg → Prop
  | 0, _, _ => False
  | d + 1, a, b => ∀ n, ListRel (ValEqvWith (WireEqv d)) (a.get n) (b.get n)

/-- what the depth-`d` round trip provides for nested messages read at `level + 1` -/
def NestedRT (d fuel level : Nat) : Prop :=
  ∀ sty sub, WireOK d sty sub → ∃ m', WireEqv d m' sub ∧ ∀ tail,
    parseMsg fuel (level + 1) sty ⟨writeMsgF d sty sub ++ tail, (writeMsgF d sty sub).length⟩ = some (m', ⟨tail, 0⟩)

/-- `enc` is consumed by `c ≤ enc.length` iterations of the loop, turning `acc` into `acc'` -/
def Steps (fuel level : Nat) (ty : MsgTy) (enc : Bytes) (acc acc' : PMsg) : Prop :=
  ∃ c, c ≤ enc.length ∧ ∀ k tail lim, enc.length ≤ lim →
    parseMsg.loop fuel level ty (k + c) ⟨enc ++ tail, lim⟩ acc = parseMsg.loop fuel level ty k ⟨tail, lim - enc.length⟩ acc'

theorem Steps.nil (fuel level ty acc) : Steps fuel level ty [] acc acc :=
  ⟨0, Nat.le_refl _, fun k tail lim _ => by simp⟩

theorem Steps.append {fuel level ty e1 e2 a b c} (h1 : Steps fuel level ty e1 a b) (h2 : Steps fuel level ty e2 b c) :
    Steps fuel level ty (e1 ++ e2) a c := by
  obtain ⟨c1, hc1, h1⟩ := h1
  obtain ⟨c2, hc2, h2⟩ := h2
  refine ⟨c2 + c1, by simp; omega, fun k tail lim hl => ?_⟩
  have hl' : e1.length + e2.length ≤ lim := by simpa using hl
  rw [← Nat.add_assoc, List.append_assoc, h1 (k + c2) (e2 ++ tail) lim (by omega), h2 k tail _ (by omega)]
  simp [Nat.sub_sub]

theorem eof_false (b : UInt8) (bs : Bytes) (lim : Nat) (h : 1 ≤ lim) : (⟨b :: bs, lim⟩ : In).eof = false := by
  simp [In.eof]; omega

theorem step_tagged (fuel level : Nat) (ty : MsgTy) (f : FieldSpec) (hf : f ∈ schema ty) (payload : Bytes)
    (v' : PVal) (acc : PMsg)
    (hread : ∀ tail lim', payload.length ≤ lim' →
      readVal fuel level f.kind ⟨payload ++ tail, lim'⟩ = some (v', ⟨tail, lim' - payload.length⟩)) :
    Steps fuel level ty (writeVarint (tagOf f) ++ payload) acc
      (acc.put f.num (if f.repeated then acc.get f.num ++ [v'] else [v'])) := by
  obtain ⟨hfind, htlt, htag⟩ := schema_facts ty f hf
  have htw := writeVarint_small _ htlt
  have htl : (writeVarint (tagOf f)).length = 1 := by rw [htw]; rfl
  refine ⟨1, by simp [htl], fun k tail lim hl => ?_⟩
  have hl' : 1 + payload.length ≤ lim := by simpa [htl] using hl
  have hvar := In_varint32_write (tagOf f) (by omega) (payload ++ tail) lim (by omega)
  rw [← List.append_assoc] at hvar
  have heof : (⟨writeVarint (tagOf f) ++ payload ++ tail, lim⟩ : In).eof = false := by
    rw [htw]; exact eof_false _ _ _ (by omega)
  rw [loop_known fuel level ty k _ acc (tagOf f) _ f v' _ heof hvar htag hfind
    (hread tail _ (by omega))]
  simp [htl, Nat.sub_sub]

theorem readVal_bytes (fuel level : Nat) (b tail : Bytes) (lim : Nat) (hb : b.length < 2 ^ 31)
    (hl : (lenDelim b).length ≤ lim) :
    readVal fuel level .bytes ⟨lenDelim b ++ tail, lim⟩ = some (.bytes b, ⟨tail, lim - (lenDelim b).length⟩) := by
  have hl' : (writeVarint b.length).length + b.length ≤ lim := by simpa [lenDelim] using hl
  unfold readVal lenDelim
  simp only
  rw [List.append_assoc, In_varint32_write b.length (by omega) _ lim (by omega)]
  simp only
  rw [In_take_append b tail _ (by omega)]
  simp [Nat.sub_sub]

theorem readVal_uint32 (fuel level : Nat) (n : Nat) (tail : Bytes) (lim : Nat) (hn : n < 2 ^ 32)
    (hl : (writeVarint n).length ≤ lim) :
    readVal fuel level .uint32 ⟨writeVarint n ++ tail, lim⟩ = some (.num n, ⟨tail, lim - (writeVarint n).length⟩) := by
  unfold readVal
  simp only
  rw [In_varint32_write n hn _ lim hl]
  rfl

theorem readVal_uint64 (fuel level : Nat) (n : Nat) (tail : Bytes) (lim : Nat) (hn : n < 2 ^ 64)
    (hl : (writeVarint n).length ≤ lim) :
    readVal fuel level .uint64 ⟨writeVarint n ++ tail, lim⟩ = some (.num n, ⟨tail, lim - (writeVarint n).length⟩) := by
  unfold readVal
  simp only
  rw [In_varint64_write n hn _ lim hl]
  rfl

theorem readVal_msg (fuel level : Nat) (sty : MsgTy) (body tail : Bytes) (lim : Nat) (m' : PMsg)
    (hlev : level < 100) (hb : body.length < 2 ^ 31) (hl : (lenDelim body).length ≤ lim)
    (hparse : parseMsg fuel (level + 1) sty ⟨body ++ tail, body.length⟩ = some (m', ⟨tail, 0⟩)) :
    readVal fuel level (.msg sty) ⟨lenDelim body ++ tail, lim⟩ = some (.msg m', ⟨tail, lim - (lenDelim body).length⟩) := by
  have hl' : (writeVarint body.length).length + body.length ≤ lim := by simpa [lenDelim] using hl
  unfold readVal lenDelim
  have h1 : ¬ level ≥ 100 := by omega
  simp only [h1, if_false]
  rw [List.append_assoc, In_varint64_write body.length (by omega) _ lim (by omega)]
  have h2 : ¬ body.length > lim - (writeVarint body.length).length := by omega
  simp only [h2, if_false, hparse, popLimit]
  simp [Nat.sub_sub]

theorem step_value (d fuel level : Nat) (ty : MsgTy) (f : FieldSpec) (hf : f ∈ schema ty) (v : PVal)
    (hv : ValOKWith (WireOK d) (writeMsgF d) v f.kind) (hlev : level < 100) (hP : NestedRT d fuel level)
    (acc : PMsg) :
    ∃ v', ValEqvWith (WireEqv d) v' v ∧
      Steps fuel level ty (encVal d f v) acc (acc.put f.num (if f.repeated then acc.get f.num ++ [v'] else [v'])) := by
  obtain ⟨num, kind, rep⟩ := f
  cases v with
  | bytes b =>
    cases kind <;> simp only [ValOKWith] at hv
    refine ⟨.bytes b, rfl, ?_⟩
    exact step_tagged fuel level ty _ hf (lenDelim b) _ acc
      (fun tail lim' hl => readVal_bytes fuel level b tail lim' hv hl)
  | num n =>
    cases kind <;> simp only [ValOKWith] at hv
    · refine ⟨.num n, rfl, ?_⟩
      exact step_tagged fuel level ty _ hf (writeVarint n) _ acc
        (fun tail lim' hl => readVal_uint32 fuel level n tail lim' hv hl)
    · refine ⟨.num n, rfl, ?_⟩
      exact step_tagged fuel level ty _ hf (writeVarint n) _ acc
        (fun tail lim' hl => readVal_uint64 fuel level n tail lim' hv hl)
  | msg sub =>
    cases kind <;> simp only [ValOKWith] at hv
    rename_i sty
    obtain ⟨m', he, hp⟩ := hP sty sub hv.1
    refine ⟨.msg m', he, ?_⟩
    exact step_tagged fuel level ty _ hf (lenDelim (writeMsgF d sty sub)) _ acc
      (fun tail lim' hl => readVal_msg fuel level sty _ tail lim' m' hlev hv.2 hl (hp tail))

end Akd.Proto
