/-
Proof generation over storage, part 1: the walk of `get_lcp_node_label_with_membership_proof`
(`NodeStore.lcpWalk`) on a represented tree follows the canonical `CTree.path` / `CRoot.path`.
-/
import AkdModel.Thm.C01b
import AkdModel.Lemmas.TrieLemmas
namespace Akd.Gen
open Akd NodeLabel NodeStore Ins

/-- the post-processing of `get_lcp_node_label_with_membership_proof` after the loop -/
def finish (r : TreeNode × TreeNode × List SiblingProof × Bool) : TreeNode × List SiblingProof :=
  if r.2.2.2 then (r.1, r.2.2.1) else (r.2.1, r.2.2.1.dropLast)

def dirOf (b : Bool) : Direction := if b then .right else .left

/-! ### the child read of the proof generators (`getChildForProof`, fix D13) against `getChild` -/

theorem getChildForProof_of_getChild_some {s : NodeStore} {n : TreeNode} {d : Direction} {e : Nat} {ch : TreeNode}
    (h : s.getChild n d e = .ok (some ch)) : s.getChildForProof n d e = .ok (some ch) := by
  unfold NodeStore.getChildForProof
  rw [h]

theorem getChildForProof_of_label_none {s : NodeStore} {n : TreeNode} {d : Direction} {e : Nat}
    (h : n.childLabel d = none) : s.getChildForProof n d e = .ok none := by
  unfold NodeStore.getChildForProof NodeStore.getChild
  rw [h]
  rfl

theorem getChildForProof_error {s : NodeStore} {n : TreeNode} {d : Direction} {e : Nat} {x : Err}
    (h : s.getChild n d e = .error x) : s.getChildForProof n d e = .error x := by
  unfold NodeStore.getChildForProof
  rw [h]

theorem lcpWalk_equal (c : Cfg) (s : NodeStore) (label : NodeLabel) (ep f : Nat) (cur prev : TreeNode)
    (sps : List SiblingProof) (h : label = cur.label) :
    lcpWalk c s label ep (f + 1) cur prev sps = .ok (cur, prev, sps, true) := by
  simp only [lcpWalk, h, decide_true, Bool.true_or, if_true]

theorem lcpWalk_invalid (c : Cfg) (s : NodeStore) (label : NodeLabel) (ep f : Nat) (cur prev : TreeNode)
    (sps : List SiblingProof) (hne : label ≠ cur.label) (h : cur.label.prefixOrdering label = .invalid) :
    lcpWalk c s label ep (f + 1) cur prev sps = .ok (cur, prev, sps, false) := by
  simp only [lcpWalk, h, hne, decide_false, Bool.false_or, decide_true, if_true]

theorem lcpWalk_none (c : Cfg) (s : NodeStore) (label : NodeLabel) (ep f : Nat) (cur prev : TreeNode)
    (sps : List SiblingProof) (b : Bool) (hne : label ≠ cur.label)
    (h : cur.label.prefixOrdering label = (if b then .withOne else .withZero))
    (hg : s.getChildForProof cur (dirOf b) ep = .ok none) :
    lcpWalk c s label ep (f + 1) cur prev sps = .ok (cur, prev, sps, false) := by
  cases b <;> simp [lcpWalk, h, hne, dirOf] at hg ⊢ <;> simp [hg]

theorem lcpWalk_step (c : Cfg) (s : NodeStore) (label : NodeLabel) (ep f : Nat) (cur prev : TreeNode)
    (sps : List SiblingProof) (b : Bool) (child : TreeNode) (sib : AzksElement) (hne : label ≠ cur.label)
    (h : cur.label.prefixOrdering label = (if b then .withOne else .withZero))
    (hg : s.getChild cur (dirOf b) ep = .ok (some child))
    (hs : childElement c s cur (dirOf b).other ep = .ok sib) :
    lcpWalk c s label ep (f + 1) cur prev sps =
      lcpWalk c s label ep f child cur (sps ++ [⟨cur.label, sib, dirOf b⟩]) := by
  replace hg := getChildForProof_of_getChild_some hg
  cases b <;> simp [lcpWalk, h, hne, dirOf] at hg hs ⊢ <;> simp [hg, hs]

theorem ordering_of_bit (q x : BitStr) (b : Bool) (hx : x.length ≤ 256) (h : (q ++ [b]) <+: x) :
    (ofBits q).prefixOrdering (ofBits x) = (if b then .withOne else .withZero) := by
  have hq : q.length ≤ 256 := by
    have := h.length_le; simp at this; omega
  have ho := prefixOrdering_ofBits q x hq hx
  cases b
  · exact ho.1.2 h
  · exact ho.2.2 h

theorem ordering_invalid (q x : BitStr) (hq : q.length ≤ 256) (hx : x.length ≤ 256) (h : ¬ q <+: x) :
    (ofBits q).prefixOrdering (ofBits x) = .invalid := by
  have ho := prefixOrdering_ofBits q x hq hx
  cases hc : (ofBits q).prefixOrdering (ofBits x) with
  | withZero => exact absurd (Canon.prefix_of_snoc_prefix (ho.1.1 hc)) h
  | withOne => exact absurd (Canon.prefix_of_snoc_prefix (ho.2.1 hc)) h
  | invalid => rfl

theorem getChild_some (c : Cfg) (m : InsertMode) (s : NodeStore) (t : CTree) (ep : Nat)
    (hr : Rep c m s t) (hle : maxEp t ≤ ep) (n : TreeNode) (d : Direction)
    (h : n.childLabel d = some (ofBits t.lbl)) :
    ∃ nt, s.getChild n d ep = .ok (some nt) ∧ NodeIs c m t nt := by
  obtain ⟨⟨r, hg, hn⟩, _⟩ := (rep_iff c m s t).1 hr
  refine ⟨r.latest, ?_, hn⟩
  unfold NodeStore.getChild
  rw [h]
  simp only
  rw [getNode_latest s _ r ep hg (by rw [nodeIs_lastEpoch hn]; exact hle)]

theorem getNode_rep (c : Cfg) (m : InsertMode) (s : NodeStore) (t : CTree) (ep : Nat)
    (hr : Rep c m s t) (hle : maxEp t ≤ ep) :
    ∃ nt, s.getNode (ofBits t.lbl) ep = .ok nt ∧ NodeIs c m t nt := by
  obtain ⟨⟨r, hg, hn⟩, _⟩ := (rep_iff c m s t).1 hr
  exact ⟨r.latest, getNode_latest s _ r ep hg (by rw [nodeIs_lastEpoch hn]; exact hle), hn⟩

theorem childElement_rep (c : Cfg) (s : NodeStore) (o : Option CTree) (ep : Nat)
    (hrep : ∀ t, o = some t → Rep c .directory s t ∧ maxEp t ≤ ep) (n : TreeNode) (d : Direction)
    (h : n.childLabel d = olbl o) :
    childElement c s n d ep = .ok (CRoot.element c o) := by
  obtain ⟨on, h1, h2, h3⟩ := getChild_rep c .directory s o ep hrep n d h
  have h1' : s.getChildForProof n d ep = .ok on := by
    cases o with
    | none =>
      rw [getChildForProof_of_label_none h]
      unfold NodeStore.getChild at h1
      rw [h] at h1
      exact h1
    | some t =>
      obtain ⟨nt, hg, _⟩ := getChild_some c .directory s t ep (hrep t rfl).1 (hrep t rfl).2 n d h
      rw [hg] at h1
      rw [getChildForProof_of_getChild_some hg]
      exact h1
  unfold NodeStore.childElement
  rw [h1']
  simp only [decide_true] at h2
  simp only [h2, h3, CRoot.element]
  rfl


theorem nodeIs_label_ne {c m t n} (h : NodeIs c m t n) (x : BitStr) (hx : x.length ≤ 256) (ht : t.lbl.length ≤ 256)
    (hne : x ≠ t.lbl) : ofBits x ≠ n.label := by
  rw [nodeIs_label h]
  exact fun e => hne (Ins.ofBits_inj hx ht e)

/-- one descent step at a represented node -/
theorem walk_descend (c : Cfg) (s : NodeStore) (ep : Nat) (x : BitStr) (hx : x.length ≤ 256)
    (f : Nat) (n prev : TreeNode) (sps : List SiblingProof) (q : BitStr) (b : Bool)
    (hl : n.label = ofBits q) (hq : (q ++ [b]) <+: x)
    (ch : CTree) (o : Option CTree)
    (hch : n.childLabel (dirOf b) = some (ofBits ch.lbl)) (ho : n.childLabel (dirOf b).other = olbl o)
    (hrc : Rep c .directory s ch) (hmc : maxEp ch ≤ ep)
    (hro : ∀ t, o = some t → Rep c .directory s t ∧ maxEp t ≤ ep) :
    ∃ nch, NodeIs c .directory ch nch ∧
      lcpWalk c s (ofBits x) ep (f + 1) n prev sps =
        lcpWalk c s (ofBits x) ep f nch n (sps ++ [⟨ofBits q, CRoot.element c o, dirOf b⟩]) := by
  obtain ⟨nch, hg, hn⟩ := getChild_some c .directory s ch ep hrc hmc n (dirOf b) hch
  refine ⟨nch, hn, ?_⟩
  have hql : q.length ≤ 256 := by
    have := hq.length_le; simp at this; omega
  have hne : ofBits x ≠ n.label := by
    rw [hl]
    intro e
    have := Ins.ofBits_inj hx hql e
    subst this
    have := hq.length_le
    simp at this
    omega
  rw [lcpWalk_step c s (ofBits x) ep f n prev sps b nch (CRoot.element c o) hne
    (by rw [hl]; exact ordering_of_bit q x b hx hq) hg
    (childElement_rep c s o ep hro n _ ho), hl]

theorem walk_tree (c : Cfg) (s : NodeStore) (ep : Nat) (x : BitStr) (hx : x.length ≤ 256) :
    ∀ (a : CTree) (fuel : Nat) (n prev : TreeNode) (sps : List SiblingProof),
      Rep c .directory s a → a.WF → (∀ lf ∈ a.leaves, lf.lbl.length ≤ 256) → maxEp a ≤ ep →
      NodeIs c .directory a n → a.lbl <+: x → (∀ lf ∈ a.leaves, lf.lbl <+: x → lf.lbl = x) →
      x.length - a.lbl.length + 2 ≤ fuel →
      ∃ r nd, lcpWalk c s (ofBits x) ep fuel n prev sps = .ok r ∧
        finish r = (nd, sps ++ (a.path c x).2) ∧ NodeIs c .directory (a.path c x).1 nd := by
  intro a
  induction a with
  | leaf q v e =>
    intro fuel n prev sps _ _ _ _ hn hp hnp hf
    have hqx : q = x := hnp ⟨q, v, e⟩ (by simp [CTree.leaves]) hp
    obtain ⟨f, rfl⟩ : ∃ f, fuel = f + 1 := ⟨fuel - 1, by omega⟩
    refine ⟨_, n, lcpWalk_equal c s _ ep f n prev sps (by rw [hn.1, hqx]), ?_, hn⟩
    simp [finish, CTree.path]
  | node q l r ihl ihr =>
    intro fuel n prev sps hrep hwf hlen hmax hn hp hnp hf
    obtain ⟨f, rfl⟩ : ∃ f, fuel = f + 1 := ⟨fuel - 1, by omega⟩
    have hlbl : n.label = ofBits q := hn.1
    obtain ⟨_, hrl, hrr⟩ := hrep
    obtain ⟨pl, pr, wl, wr⟩ := hwf
    have hlenl : ∀ lf ∈ l.leaves, lf.lbl.length ≤ 256 := fun lf h => hlen lf (by simp [CTree.leaves, h])
    have hlenr : ∀ lf ∈ r.leaves, lf.lbl.length ≤ 256 := fun lf h => hlen lf (by simp [CTree.leaves, h])
    have hml : maxEp l ≤ ep := by simp only [maxEp] at hmax; omega
    have hmr : maxEp r ≤ ep := by simp only [maxEp] at hmax; omega
    have hll := lbl_length_le l wl hlenl
    have hlr := lbl_length_le r wr hlenr
    have hnpl : ∀ lf ∈ l.leaves, lf.lbl <+: x → lf.lbl = x := fun lf h => hnp lf (by simp [CTree.leaves, h])
    have hnpr : ∀ lf ∈ r.leaves, lf.lbl <+: x → lf.lbl = x := fun lf h => hnp lf (by simp [CTree.leaves, h])
    simp only [CTree.lbl] at hp hf
    by_cases hqx : x = q
    · refine ⟨_, n, lcpWalk_equal c s _ ep f n prev sps (by rw [hlbl, hqx]), ?_, ?_⟩
      · have : x[q.length]? = none := by rw [hqx]; simp
        simp [finish, CTree.path, this]
      · have : x[q.length]? = none := by rw [hqx]; simp
        simpa [CTree.path, this] using hn
    · have hlt : q.length < x.length := by
        rcases Nat.lt_or_ge q.length x.length with h | h
        · exact h
        · exact absurd (hp.eq_of_length_le h).symm hqx
      obtain ⟨b, hb⟩ : ∃ b, x[q.length]? = some b := ⟨x[q.length], by simp [hlt]⟩
      have hqb := Canon.snoc_prefix_of_getElem? hp hb
      cases b with
      | false =>
        obtain ⟨nl, hnl, hstep⟩ := walk_descend c s ep x hx f n prev sps q false hlbl hqb l (some r)
          (by simpa [dirOf, TreeNode.childLabel] using hn.2.2.1)
          (by simpa [dirOf, TreeNode.childLabel, Direction.other, olbl] using hn.2.2.2.1)
          hrl hml (fun t ht => by cases ht; exact ⟨hrr, hmr⟩)
        rw [hstep]
        by_cases hpl : l.lbl <+: x
        · have hlenl' : q.length + 1 ≤ l.lbl.length := by have := pl.length_le; simpa using this
          obtain ⟨res, nd, h1, h2, h3⟩ := ihl f nl n
            (sps ++ [⟨ofBits q, CRoot.element c (some r), dirOf false⟩]) hrl wl hlenl hml hnl hpl hnpl (by omega)
          refine ⟨res, nd, h1, ?_, ?_⟩
          · rw [h2]
            simp [CTree.path, hb, (BitStr.isPrefix_iff _ _).2 hpl, dirOf, CRoot.element, CTree.element,
              CRoot.childLabel, CRoot.childValue]
          · simpa [CTree.path, hb, (BitStr.isPrefix_iff _ _).2 hpl] using h3
        · obtain ⟨f', rfl⟩ : ∃ f', f = f' + 1 := ⟨f - 1, by omega⟩
          have hne : ofBits x ≠ nl.label := nodeIs_label_ne hnl x hx hll (fun e => hpl (e ▸ List.prefix_refl _))
          refine ⟨_, n, lcpWalk_invalid c s _ ep f' nl n _ hne
            (by rw [nodeIs_label hnl]; exact ordering_invalid _ _ hll hx hpl), ?_, ?_⟩
          · have : BitStr.isPrefix l.lbl x = false := by
              rw [Bool.eq_false_iff, Ne, BitStr.isPrefix_iff]; exact hpl
            simp [finish, CTree.path, hb, this]
          · have : BitStr.isPrefix l.lbl x = false := by
              rw [Bool.eq_false_iff, Ne, BitStr.isPrefix_iff]; exact hpl
            simpa [CTree.path, hb, this] using hn
      | true =>
        obtain ⟨nr, hnr, hstep⟩ := walk_descend c s ep x hx f n prev sps q true hlbl hqb r (some l)
          (by simpa [dirOf, TreeNode.childLabel] using hn.2.2.2.1)
          (by simpa [dirOf, TreeNode.childLabel, Direction.other, olbl] using hn.2.2.1)
          hrr hmr (fun t ht => by cases ht; exact ⟨hrl, hml⟩)
        rw [hstep]
        by_cases hpr : r.lbl <+: x
        · have hlenr' : q.length + 1 ≤ r.lbl.length := by have := pr.length_le; simpa using this
          obtain ⟨res, nd, h1, h2, h3⟩ := ihr f nr n
            (sps ++ [⟨ofBits q, CRoot.element c (some l), dirOf true⟩]) hrr wr hlenr hmr hnr hpr hnpr (by omega)
          refine ⟨res, nd, h1, ?_, ?_⟩
          · rw [h2]
            simp [CTree.path, hb, (BitStr.isPrefix_iff _ _).2 hpr, dirOf, CRoot.element, CTree.element,
              CRoot.childLabel, CRoot.childValue]
          · simpa [CTree.path, hb, (BitStr.isPrefix_iff _ _).2 hpr] using h3
        · obtain ⟨f', rfl⟩ : ∃ f', f = f' + 1 := ⟨f - 1, by omega⟩
          have hne : ofBits x ≠ nr.label := nodeIs_label_ne hnr x hx hlr (fun e => hpr (e ▸ List.prefix_refl _))
          refine ⟨_, n, lcpWalk_invalid c s _ ep f' nr n _ hne
            (by rw [nodeIs_label hnr]; exact ordering_invalid _ _ hlr hx hpr), ?_, ?_⟩
          · have : BitStr.isPrefix r.lbl x = false := by
              rw [Bool.eq_false_iff, Ne, BitStr.isPrefix_iff]; exact hpr
            simp [finish, CTree.path, hb, this]
          · have : BitStr.isPrefix r.lbl x = false := by
              rw [Bool.eq_false_iff, Ne, BitStr.isPrefix_iff]; exact hpr
            simpa [CTree.path, hb, this] using hn


/-! ### the root level -/

structure RootIs (c : Cfg) (t : CRoot) (n : TreeNode) : Prop where
  label : n.label = NodeLabel.root
  ty : n.nodeType = .root
  left : n.left = olbl t.l
  right : n.right = olbl t.r
  hash : n.hash = t.value c .withLeafEpoch

theorem root_of_repRoot (c : Cfg) (s : NodeStore) (t : CRoot) (ep : Nat)
    (hrep : RepRoot c .directory s t) (hep : ∀ lf ∈ t.leaves, lf.ep ≤ ep) :
    ∃ n, s.getNode NodeLabel.root ep = .ok n ∧ RootIs c t n := by
  obtain ⟨⟨r, hg, h1, h2, h3, h4, h5, h6, _⟩, _, _⟩ := hrep
  exact ⟨r.latest, getNode_latest s _ r ep hg (by rw [h6]; exact oMax_le _ _ _ hep), ⟨h1, h2, h3, h4, h5⟩⟩

theorem side_rep (c : Cfg) (s : NodeStore) (t : CRoot) (ep : Nat)
    (hrep : RepRoot c .directory s t) (hep : ∀ lf ∈ t.leaves, lf.ep ≤ ep) (b : Bool) (a : CTree)
    (h : (t.side b).1 = some a) : Rep c .directory s a ∧ maxEp a ≤ ep := by
  have hch : t.Child a := CRoot.child_iff_side.2 ⟨b, h⟩
  refine ⟨?_, maxEp_le a ep (fun lf hlf => hep lf (CRoot.mem_leaves.2 ⟨a, hch, hlf⟩))⟩
  rcases hch with h | h
  · exact hrep.2.1 a h
  · exact hrep.2.2 a h

theorem rootIs_childLabel {c : Cfg} {t : CRoot} {n : TreeNode} (h : RootIs c t n) (b : Bool) :
    n.childLabel (dirOf b) = olbl (t.side b).1 ∧ n.childLabel (dirOf b).other = olbl (t.side b).2.1 ∧
      (t.side b).2.2 = dirOf b := by
  cases b
  · exact ⟨h.left, h.right, rfl⟩
  · exact ⟨h.right, h.left, rfl⟩

theorem walk_root (c : Cfg) (s : NodeStore) (ep : Nat) (t : CRoot) (x : BitStr) (hx : x.length ≤ 256)
    (hrep : RepRoot c .directory s t) (hwf : t.WF)
    (hl : ∀ lf ∈ t.leaves, lf.lbl.length ≤ 256) (hep : ∀ lf ∈ t.leaves, lf.ep ≤ ep)
    (hnp : ∀ lf ∈ t.leaves, lf.lbl <+: x → lf.lbl = x)
    (n : TreeNode) (hn : RootIs c t n) :
    ∃ r nd, lcpWalk c s (ofBits x) ep 300 n n [] = .ok r ∧ finish r = (nd, (t.path c x).2) ∧
      (match (t.path c x).1 with
       | none => nd = n
       | some d => NodeIs c .directory d nd) := by
  cases x with
  | nil =>
    exact ⟨_, n, lcpWalk_equal c s _ ep 299 n n [] (by rw [hn.label, Ins.ofBits_nil]), rfl, rfl⟩
  | cons b x =>
    have hlbl : n.label = ofBits [] := by rw [hn.label, Ins.ofBits_nil]
    have hqb : ([] ++ [b]) <+: b :: x := by simp
    obtain ⟨hc1, hc2, hc3⟩ := rootIs_childLabel hn b
    have hne : ofBits (b :: x) ≠ n.label := by
      rw [hlbl]
      intro e
      have := Ins.ofBits_inj hx (by simp) e
      cases this
    cases hs : (t.side b).1 with
    | none =>
      refine ⟨_, n, lcpWalk_none c s _ ep 299 n n [] b hne
        (by rw [hlbl]; exact ordering_of_bit [] _ b hx hqb) ?_, ?_, ?_⟩
      · exact getChildForProof_of_label_none (by rw [hc1, hs]; rfl)
      · rw [CRoot.path_cons_none c t b x hs]; rfl
      · rw [CRoot.path_cons_none c t b x hs]
    | some a =>
      obtain ⟨hra, hma⟩ := side_rep c s t ep hrep hep b a hs
      obtain ⟨hpa, hwa⟩ := hwf.side hs
      have hch : t.Child a := CRoot.child_iff_side.2 ⟨b, hs⟩
      have hla : ∀ lf ∈ a.leaves, lf.lbl.length ≤ 256 := fun lf h => hl lf (CRoot.mem_leaves.2 ⟨a, hch, h⟩)
      have hnpa : ∀ lf ∈ a.leaves, lf.lbl <+: b :: x → lf.lbl = b :: x :=
        fun lf h => hnp lf (CRoot.mem_leaves.2 ⟨a, hch, h⟩)
      obtain ⟨na, hna, hstep⟩ := walk_descend c s ep (b :: x) hx 299 n n [] [] b hlbl hqb a (t.side b).2.1
        (by rw [hc1, hs]; rfl) hc2 hra hma (fun t' ht' => by
          rw [CRoot.side_other] at ht'
          exact side_rep c s t ep hrep hep _ t' ht')
      rw [hstep]
      by_cases hp : a.lbl <+: b :: x
      · obtain ⟨res, nd, h1, h2, h3⟩ := walk_tree c s ep (b :: x) hx a 299 na n _ hra hwa hla hma hna hp hnpa
          (by simp at hx ⊢; omega)
        refine ⟨res, nd, h1, ?_, ?_⟩
        · rw [h2, CRoot.path_cons_some c t b x a hs, if_pos ((BitStr.isPrefix_iff _ _).2 hp), hc3,
            Ins.ofBits_nil]
          rfl
        · rw [CRoot.path_cons_some c t b x a hs, if_pos ((BitStr.isPrefix_iff _ _).2 hp)]
          exact h3
      · have hll := lbl_length_le a hwa hla
        have hne' : ofBits (b :: x) ≠ na.label :=
          nodeIs_label_ne hna _ hx hll (fun e => hp (e ▸ List.prefix_refl _))
        have hnp' : ¬ BitStr.isPrefix a.lbl (b :: x) = true := fun h => hp ((BitStr.isPrefix_iff _ _).1 h)
        refine ⟨_, n, lcpWalk_invalid c s _ ep 298 na n _ hne'
          (by rw [nodeIs_label hna]; exact ordering_invalid _ _ hll hx hp), ?_, ?_⟩
        · rw [CRoot.path_cons_some c t b x a hs, if_neg hnp']; rfl
        · rw [CRoot.path_cons_some c t b x a hs, if_neg hnp']

end Akd.Gen
