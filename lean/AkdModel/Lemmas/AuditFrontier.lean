/-
Helper lemmas for C09: the "frontier" of a trie.

A trie `F` whose leaves are opaque elements (hashed without leaf epoch) and a well-formed trie `T`
(hashed with leaf epochs) that have the same root value: every opaque element of `F` is a node of
`T` (same label, same digest), and every leaf of `T` lies below one of these nodes.
-/
import AkdModel.Verify
import AkdModel.Thm.C01b
import AkdModel.Thm.C05
namespace Akd.Aud
open Akd

/-- `s` is a node of `T` (a sub-tree of one of the root's children) -/
def Node (T : CRoot) (s : CTree) : Prop := ∃ a, T.Child a ∧ CTree.Sub s a

theorem Node.wf {T : CRoot} {s : CTree} (h : Node T s) (hT : T.WF) : s.WF := by
  obtain ⟨a, ha, hs⟩ := h
  exact CTree.WF.sub hs (hT.child ha)

theorem Node.leaves_subset {T : CRoot} {s : CTree} (h : Node T s) {lf : Leaf} (hl : lf ∈ s.leaves) :
    lf ∈ T.leaves := by
  obtain ⟨a, ha, hs⟩ := h
  exact CRoot.mem_leaves.mpr ⟨a, ha, hs.leaves_subset hl⟩

theorem sub_trans {s a b : CTree} (h1 : CTree.Sub s a) (h2 : CTree.Sub a b) : CTree.Sub s b := by
  induction h2 with
  | refl => exact h1
  | left q r _ ih => exact CTree.Sub.left q r ih
  | right q l _ ih => exact CTree.Sub.right q l ih

/-- the frontier lemma on sub-trees -/
theorem frontier_tree (c : Cfg) (hc : c.Lawful) : ∀ (F T : CTree), F.WF → T.WF →
    (∀ lf ∈ F.leaves, lf.lbl.length ≤ 256) → (∀ lf ∈ T.leaves, lf.lbl.length ≤ 256) →
    F.lbl = T.lbl → F.azks c .noLeafEpoch = T.azks c .withLeafEpoch →
    (∀ x ∈ F.leaves, ∃ s, CTree.Sub s T ∧ s.lbl = x.lbl ∧ s.azks c .withLeafEpoch = x.value) ∧
    (∀ lf ∈ T.leaves, ∃ x ∈ F.leaves, ∃ s, CTree.Sub s T ∧ s.lbl = x.lbl ∧
        s.azks c .withLeafEpoch = x.value ∧ lf ∈ s.leaves)
  | .leaf q v e, T, _, _, _, _, hq, h => by
    simp only [CTree.azks] at h
    simp only [CTree.lbl] at hq
    constructor
    · intro x hx
      simp only [CTree.leaves, List.mem_singleton] at hx
      subst hx
      exact ⟨T, .refl, hq.symm, h.symm⟩
    · intro lf hlf
      exact ⟨⟨q, v, e⟩, by simp [CTree.leaves], T, .refl, hq.symm, h.symm, hlf⟩
  | .node q l r, .leaf q' v' e', _, _, _, _, _, h => by
    simp only [CTree.azks] at h
    exact absurd h.symm (hc.leaf_ne_parent _ _ _ _ _ _)
  | .node q l r, .node q' l' r', w₁, w₂, b₁, b₂, _, h => by
    simp only [CTree.azks] at h
    obtain ⟨hlv, hll, hrv, hrl⟩ := hc.parent_inj _ _ _ _ _ _ _ _ h
    have bl : ∀ lf ∈ l.leaves, lf.lbl.length ≤ 256 := fun lf h => b₁ lf (by simp [CTree.leaves, h])
    have br : ∀ lf ∈ r.leaves, lf.lbl.length ≤ 256 := fun lf h => b₁ lf (by simp [CTree.leaves, h])
    have bl' : ∀ lf ∈ l'.leaves, lf.lbl.length ≤ 256 := fun lf h => b₂ lf (by simp [CTree.leaves, h])
    have br' : ∀ lf ∈ r'.leaves, lf.lbl.length ≤ 256 := fun lf h => b₂ lf (by simp [CTree.leaves, h])
    obtain ⟨A1, B1⟩ := frontier_tree c hc l l' w₁.2.2.1 w₂.2.2.1 bl bl'
      (Canon.ofBits_inj (Canon.Tree.lbl_length_le w₁.2.2.1 bl) (Canon.Tree.lbl_length_le w₂.2.2.1 bl') hll) hlv
    obtain ⟨A2, B2⟩ := frontier_tree c hc r r' w₁.2.2.2 w₂.2.2.2 br br'
      (Canon.ofBits_inj (Canon.Tree.lbl_length_le w₁.2.2.2 br) (Canon.Tree.lbl_length_le w₂.2.2.2 br') hrl) hrv
    constructor
    · intro x hx
      simp only [CTree.leaves, List.mem_append] at hx
      rcases hx with hx | hx
      · obtain ⟨s, hs, h1, h2⟩ := A1 x hx
        exact ⟨s, .left q' r' hs, h1, h2⟩
      · obtain ⟨s, hs, h1, h2⟩ := A2 x hx
        exact ⟨s, .right q' l' hs, h1, h2⟩
    · intro lf hlf
      simp only [CTree.leaves, List.mem_append] at hlf
      rcases hlf with hlf | hlf
      · obtain ⟨x, hx, s, hs, h1, h2, h3⟩ := B1 lf hlf
        exact ⟨x, by simp [CTree.leaves, hx], s, .left q' r' hs, h1, h2, h3⟩
      · obtain ⟨x, hx, s, hs, h1, h2, h3⟩ := B2 lf hlf
        exact ⟨x, by simp [CTree.leaves, hx], s, .right q' l' hs, h1, h2, h3⟩

theorem azks_ne_emptyNode (c : Cfg) (hc : c.Lawful) (t : CTree) : t.azks c .withLeafEpoch ≠ c.emptyNodeHash := by
  cases t with
  | leaf q v e => exact hc.leaf_ne_emptyNode _ _
  | node q l r => exact hc.parent_ne_emptyNode _ _ _ _

/-- a child slot of the two roots -/
theorem frontier_slot (c : Cfg) (hc : c.Lawful) (hfresh : C05.EmptyLabelFresh c) (o₁ o₂ : Option CTree)
    (w₁ : ∀ a, o₁ = some a → a.WF) (b₁ : ∀ a, o₁ = some a → ∀ lf ∈ a.leaves, lf.lbl.length ≤ 256)
    (hv : CRoot.childValue c .noLeafEpoch o₁ = CRoot.childValue c .withLeafEpoch o₂)
    (hl : CRoot.childLabel c o₁ = CRoot.childLabel c o₂) :
    (o₁ = none ∧ o₂ = none) ∨
      ∃ f t, o₁ = some f ∧ o₂ = some t ∧ NodeLabel.ofBits f.lbl = NodeLabel.ofBits t.lbl ∧
        f.azks c .noLeafEpoch = t.azks c .withLeafEpoch := by
  cases o₁ with
  | none =>
    cases o₂ with
    | none => exact Or.inl ⟨rfl, rfl⟩
    | some t => exact absurd hv.symm (azks_ne_emptyNode c hc t)
  | some f =>
    cases o₂ with
    | none =>
      exfalso
      simp only [CRoot.childLabel] at hl
      exact hfresh f.lbl (Canon.Tree.lbl_length_le (w₁ f rfl) (b₁ f rfl)) hl
    | some t => exact Or.inr ⟨f, t, rfl, rfl, hl, hv⟩

/-- the frontier lemma -/
theorem frontier_root (c : Cfg) (hc : c.Lawful) (hfresh : C05.EmptyLabelFresh c) (F T : CRoot)
    (hF : F.WF) (hT : T.WF)
    (bF : ∀ lf ∈ F.leaves, lf.lbl.length ≤ 256) (bT : ∀ lf ∈ T.leaves, lf.lbl.length ≤ 256)
    (h : F.value c .noLeafEpoch = T.value c .withLeafEpoch) :
    (∀ x ∈ F.leaves, ∃ s, Node T s ∧ s.lbl = x.lbl ∧ s.azks c .withLeafEpoch = x.value) ∧
    (∀ lf ∈ T.leaves, ∃ x ∈ F.leaves, ∃ s, Node T s ∧ s.lbl = x.lbl ∧
        s.azks c .withLeafEpoch = x.value ∧ lf ∈ s.leaves) := by
  rcases CRoot.not_empty_cases F with heF | heF
  · -- `F` is empty, so `T` is
    rw [CRoot.value_empty c _ F heF] at h
    rcases CRoot.not_empty_cases T with heT | heT
    · constructor
      · intro x hx
        obtain ⟨a, ha, _⟩ := CRoot.mem_leaves.mp hx
        rcases ha with ha | ha
        · rw [heF.1] at ha; cases ha
        · rw [heF.2] at ha; cases ha
      · intro x hx
        obtain ⟨a, ha, _⟩ := CRoot.mem_leaves.mp hx
        rcases ha with ha | ha
        · rw [heT.1] at ha; cases ha
        · rw [heT.2] at ha; cases ha
    · rw [CRoot.value_eq_parent c _ T heT] at h
      exact absurd h.symm (hc.parent_ne_emptyRoot _ _ _ _)
  · rw [CRoot.value_eq_parent c _ F heF] at h
    rcases CRoot.not_empty_cases T with heT | heT
    · rw [CRoot.value_empty c _ T heT] at h
      exact absurd h (hc.parent_ne_emptyRoot _ _ _ _)
    · rw [CRoot.value_eq_parent c _ T heT] at h
      obtain ⟨hlv, hll, hrv, hrl⟩ := hc.parent_inj _ _ _ _ _ _ _ _ h
      have bch : ∀ a, F.Child a → ∀ lf ∈ a.leaves, lf.lbl.length ≤ 256 :=
        fun a ha lf hlf => bF lf (CRoot.mem_leaves.mpr ⟨a, ha, hlf⟩)
      have bchT : ∀ a, T.Child a → ∀ lf ∈ a.leaves, lf.lbl.length ≤ 256 :=
        fun a ha lf hlf => bT lf (CRoot.mem_leaves.mpr ⟨a, ha, hlf⟩)
      have SL := frontier_slot c hc hfresh F.l T.l (fun a h => hF.child (Or.inl h))
        (fun a h => bch a (Or.inl h)) hlv hll
      have SR := frontier_slot c hc hfresh F.r T.r (fun a h => hF.child (Or.inr h))
        (fun a h => bch a (Or.inr h)) hrv hrl
      -- what a matched pair of children gives
      have pair : ∀ f t, F.Child f → T.Child t → NodeLabel.ofBits f.lbl = NodeLabel.ofBits t.lbl →
          f.azks c .noLeafEpoch = t.azks c .withLeafEpoch →
          (∀ x ∈ f.leaves, ∃ s, Node T s ∧ s.lbl = x.lbl ∧ s.azks c .withLeafEpoch = x.value) ∧
          (∀ lf ∈ t.leaves, ∃ x ∈ F.leaves, ∃ s, Node T s ∧ s.lbl = x.lbl ∧
            s.azks c .withLeafEpoch = x.value ∧ lf ∈ s.leaves) := by
        intro f t hf ht hlab hval
        have wf := hF.child hf
        have wt := hT.child ht
        obtain ⟨A, B⟩ := frontier_tree c hc f t wf wt (bch f hf) (bchT t ht)
          (Canon.ofBits_inj (Canon.Tree.lbl_length_le wf (bch f hf))
            (Canon.Tree.lbl_length_le wt (bchT t ht)) hlab) hval
        constructor
        · intro x hx
          obtain ⟨s, hs, h1, h2⟩ := A x hx
          exact ⟨s, ⟨t, ht, hs⟩, h1, h2⟩
        · intro lf hlf
          obtain ⟨x, hx, s, hs, h1, h2, h3⟩ := B lf hlf
          exact ⟨x, CRoot.mem_leaves.mpr ⟨f, hf, hx⟩, s, ⟨t, ht, hs⟩, h1, h2, h3⟩
      constructor
      · intro x hx
        obtain ⟨a, ha, hxa⟩ := CRoot.mem_leaves.mp hx
        rcases ha with ha | ha
        · rcases SL with ⟨h1, _⟩ | ⟨f, t, h1, h2, h3, h4⟩
          · rw [h1] at ha; cases ha
          · have e : f = a := Option.some.inj (h1.symm.trans ha)
            exact (pair f t (Or.inl h1) (Or.inl h2) h3 h4).1 x (e ▸ hxa)
        · rcases SR with ⟨h1, _⟩ | ⟨f, t, h1, h2, h3, h4⟩
          · rw [h1] at ha; cases ha
          · have e : f = a := Option.some.inj (h1.symm.trans ha)
            exact (pair f t (Or.inr h1) (Or.inr h2) h3 h4).1 x (e ▸ hxa)
      · intro lf hlf
        obtain ⟨a, ha, hxa⟩ := CRoot.mem_leaves.mp hlf
        rcases ha with ha | ha
        · rcases SL with ⟨_, h2⟩ | ⟨f, t, h1, h2, h3, h4⟩
          · rw [h2] at ha; cases ha
          · have e : t = a := Option.some.inj (h2.symm.trans ha)
            exact (pair f t (Or.inl h1) (Or.inl h2) h3 h4).2 lf (e ▸ hxa)
        · rcases SR with ⟨_, h2⟩ | ⟨f, t, h1, h2, h3, h4⟩
          · rw [h2] at ha; cases ha
          · have e : t = a := Option.some.inj (h2.symm.trans ha)
            exact (pair f t (Or.inr h1) (Or.inr h2) h3 h4).2 lf (e ▸ hxa)

/-- the core of audit soundness: `F₁` (resp. `F₂`) is a trie of opaque elements with the root
value of `T₁` (resp. `T₂`), and every element of `F₁` is an element of `F₂` -/
theorem audit_core (c : Cfg) (hc : c.Lawful) (hfresh : C05.EmptyLabelFresh c) (F₁ F₂ T₁ T₂ : CRoot)
    (hF₁ : F₁.WF) (hF₂ : F₂.WF) (hT₁ : T₁.WF) (hT₂ : T₂.WF)
    (bF₁ : ∀ lf ∈ F₁.leaves, lf.lbl.length ≤ 256) (bF₂ : ∀ lf ∈ F₂.leaves, lf.lbl.length ≤ 256)
    (bT₁ : ∀ lf ∈ T₁.leaves, lf.lbl.length ≤ 256) (bT₂ : ∀ lf ∈ T₂.leaves, lf.lbl.length ≤ 256)
    (h₁ : F₁.value c .noLeafEpoch = T₁.value c .withLeafEpoch)
    (h₂ : F₂.value c .noLeafEpoch = T₂.value c .withLeafEpoch)
    (hsub : ∀ x ∈ F₁.leaves, ∃ y ∈ F₂.leaves, y.lbl = x.lbl ∧ y.value = x.value) :
    ∀ lf ∈ T₁.leaves, lf ∈ T₂.leaves := by
  intro lf hlf
  obtain ⟨x, hx, s₁, hn₁, hl₁, hv₁, hin⟩ := (frontier_root c hc hfresh F₁ T₁ hF₁ hT₁ bF₁ bT₁ h₁).2 lf hlf
  obtain ⟨y, hy, hyl, hyv⟩ := hsub x hx
  obtain ⟨s₂, hn₂, hl₂, hv₂⟩ := (frontier_root c hc hfresh F₂ T₂ hF₂ hT₂ bF₂ bT₂ h₂).1 y hy
  have e : s₁ = s₂ := Canon.Tree.azks_inj c hc s₁ s₂ (hn₁.wf hT₁) (hn₂.wf hT₂)
    (fun lf h => bT₁ lf (hn₁.leaves_subset h)) (fun lf h => bT₂ lf (hn₂.leaves_subset h))
    (by rw [hl₁, hl₂, hyl]) (by rw [hv₁, hv₂, hyv])
  exact hn₂.leaves_subset (e ▸ hin)

end Akd.Aud
