/-
C19 helper lemmas: length bounds of the written encoding (varints ≤ 10 bytes; messages with singular fields only).
-/
import AkdModel.Lemmas.ProtoParse
namespace Akd.Proto

theorem writeVarint_go_length_le (fw : Nat) : ∀ n, (writeVarint.go n fw).length ≤ fw := by
  induction fw with
  | zero => intro n; simp [writeVarint.go]
  | succ fw ih =>
    intro n
    rw [writeVarint_go_succ]
    split
    · simp
    · have := ih (n >>> 7)
      simp only [List.length_cons]; omega

theorem writeVarint_length_le (n : Nat) : (writeVarint n).length ≤ 10 :=
  writeVarint_go_length_le 10 n

theorem encVal_length_le (d : Nat) (f : FieldSpec) (v : PVal)
    (hv : ValOKWith (WireOK d) (writeMsgF d) v f.kind) : (encVal d f v).length ≤ 2 ^ 31 + 20 := by
  have ht := writeVarint_length_le (tagOf f)
  obtain ⟨num, kind, rep⟩ := f
  cases v with
  | bytes b =>
    cases kind <;> simp only [ValOKWith] at hv
    have := writeVarint_length_le b.length
    simp only [encVal, lenDelim, List.length_append]
    omega
  | num n =>
    have := writeVarint_length_le n
    cases kind <;> simp only [ValOKWith] at hv <;> simp only [encVal, List.length_append] <;> omega
  | msg sub =>
    cases kind <;> simp only [ValOKWith] at hv
    rename_i sty
    have := writeVarint_length_le (writeMsgF d sty sub).length
    simp only [encVal, lenDelim, List.length_append]
    omega

/-- a message type with singular fields only has a bounded encoding -/
theorem writeMsgF_length_singular (d : Nat) (ty : MsgTy) (m : PMsg) (h : WireOK (d + 1) ty m)
    (hs : ∀ f ∈ schema ty, f.repeated = false) :
    (writeMsgF (d + 1) ty m).length ≤ (schema ty).length * (2 ^ 31 + 20) := by
  rw [writeMsgF_succ]
  have key : ∀ fs : List FieldSpec, (∀ f ∈ fs, f ∈ schema ty) →
      (fs.flatMap fun f => (m.get f.num).flatMap fun v => encVal d f v).length ≤ fs.length * (2 ^ 31 + 20) := by
    intro fs
    induction fs with
    | nil => intro _; simp
    | cons f fs ih =>
      intro hfs
      have hf := hfs f List.mem_cons_self
      obtain ⟨hok, hsing⟩ := WireOK_field d ty m h f hf
      have h1 := hsing (hs f hf)
      have h2 := ih (fun g hg => hfs g (List.mem_cons_of_mem _ hg))
      have h3 : ((m.get f.num).flatMap fun v => encVal d f v).length ≤ 2 ^ 31 + 20 := by
        rcases hg : m.get f.num with _ | ⟨v, _ | ⟨w, vs⟩⟩
        · simp
        · have := encVal_length_le d f v (hok v (by simp [hg]))
          simpa using this
        · rw [hg] at h1; simp at h1
      rw [List.flatMap_cons, List.length_append, List.length_cons, Nat.add_mul]
      omega
  exact key (schema ty) (fun _ h => h)

end Akd.Proto
