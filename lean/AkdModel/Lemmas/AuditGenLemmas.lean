/-
Helper lemmas: append-only proof generation over storage and its verification (C04).

* `AuditGenTree`  — pure part on canonical tries: `restrict`, `collapse`, the element lists, and the
  "frontier rebuild" lemma (`collapse_sim`);
* `AuditGenRoot`  — root level: the auditor's two rebuilds return the root hashes published at the
  two epochs (`rebuild_unchanged`, `rebuild_inserted`), the label check passes (`labels_ok`);
* `AuditGenStore` — `appendOnlyHelper` over a store representing the trie returns these element lists
  (`helper_root`), the loop of `appendOnlyProof` (`go_spec`);
* this file       — `Auditor.consecutive` for one epoch, `Auditor.verify.go` over the range.
-/
import AkdModel.Thm.C09
import AkdModel.Lemmas.AuditGenStore
namespace Akd.AGen
open Akd

/-- the root hash published at epoch `i` (`C04.treeAt`) -/
def hashAt (c : Cfg) (t : CRoot) (i : Nat) : Dig :=
  (CRoot.ofLeaves (t.leaves.filter (fun lf => decide (lf.ep ≤ i)))).rootHash c

/-- one epoch: the generated single-epoch proof is accepted -/
theorem consecutive_ok (c : Cfg) (hce : c.emptyLabel.len = 0) (t : CRoot) (hwf : t.WF)
    (hl : ∀ lf ∈ t.leaves, 1 ≤ lf.lbl.length ∧ lf.lbl.length ≤ 256) (e : Nat) :
    Auditor.consecutive c ⟨IR e (e + 1) t, ER c e e t⟩ (hashAt c t e) (hashAt c t (e + 1)) (e + 1) = .ok () := by
  rw [Aud.consecutive_ok]
  refine ⟨labels_ok c t hwf hl e, rebuild_unchanged c hce t hwf hl e none, Nat.succ_ne_zero e, ?_⟩
  exact rebuild_inserted c hce t hwf hl e (some (e + 1 - 1))

/-! ### the range -/

def restHashes (c : Cfg) (t : CRoot) : Nat → Nat → List Dig
  | _, 0 => []
  | ep, k + 1 => hashAt c t ep :: restHashes c t (ep + 1) k

theorem range_hashes (c : Cfg) (t : CRoot) : ∀ (k ep : Nat),
    (List.range (k + 1)).map (fun i => hashAt c t (ep + i)) = hashAt c t ep :: restHashes c t (ep + 1) k
  | 0, ep => by simp [restHashes]
  | k + 1, ep => by
    rw [List.range_succ_eq_map, List.map_cons, List.map_map, restHashes, ← range_hashes c t k (ep + 1)]
    simp only [Nat.add_zero, List.cons.injEq, true_and]
    apply List.map_congr_left
    intro i _
    simp only [Function.comp_apply]
    congr 1
    omega

theorem vgo_spec (c : Cfg) (hce : c.emptyLabel.len = 0) (t : CRoot) (hwf : t.WF)
    (hl : ∀ lf ∈ t.leaves, 1 ≤ lf.lbl.length ∧ lf.lbl.length ≤ 256) : ∀ (k ep : Nat),
    Auditor.verify.go c (hashAt c t ep :: restHashes c t (ep + 1) k) (proofsFrom c t ep k) (epochsFrom ep k)
      = .ok ()
  | 0, ep => rfl
  | k + 1, ep => by
    simp only [restHashes, proofsFrom, epochsFrom, Auditor.verify.go]
    rw [consecutive_ok c hce t hwf hl ep]
    exact vgo_spec c hce t hwf hl k (ep + 1)

end Akd.AGen
