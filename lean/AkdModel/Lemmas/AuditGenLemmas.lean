/-
Helper lemmas: append-only proof generation over storage and its verification (C04).
-/
import AkdModel.Thm.C02
import AkdModel.Thm.C09
namespace Akd
end Akd
