/-
Helper lemmas for C11 (partial commits).  The proof is split over
* `PartialStore` — tree-independent facts about `batchInsert` inside a transaction: the database is
  not touched, epochs of the written versions, new keys (one generic induction through the code);
* `PartialInv`   — the transaction invariant "the as-of-`e` view of every pre-existing key is
  preserved" and the three kinds of writes that preserve it;
* `PartialMain`, `PartialCases`, `PartialRoot` — the induction of C01b (`Lemmas/Insert*.lean`)
  replayed with the invariant threaded through.
-/
import AkdModel.Insert
import AkdModel.Thm.C01b
import AkdModel.Thm.C13
import AkdModel.Lemmas.PartialStore
import AkdModel.Lemmas.PartialView
namespace Akd
end Akd
