/-
Helper lemmas for C11 (partial commits).
-/
import AkdModel.Insert
import AkdModel.Thm.C01b
import AkdModel.Thm.C13
namespace Akd
end Akd
