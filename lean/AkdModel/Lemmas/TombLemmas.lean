/-
Helper lemmas for C20.
-/
import AkdModel.Dir
namespace Akd.Tomb
open Akd

/-- the per-record rewrite of `Dir.tombstone` -/
def tf (u : Bytes) (e : Nat) (s : ValueState) : ValueState :=
  if s.username = u ∧ s.epoch ≤ e ∧ s.value ≠ [] then { s with value := [] } else s

/-- the position-wise relation of `SameUpToValues` -/
def VRel (u : Bytes) (cut : Nat) (s s' : ValueState) : Prop :=
  s'.username = s.username ∧ s'.epoch = s.epoch ∧ s'.version = s.version ∧ s'.label = s.label ∧
  (s'.value = s.value ∨ (s.username = u ∧ s.epoch ≤ cut ∧ s'.value = []))

theorem tombstone_ok {d d' : Dir} {u : Bytes} {e : Nat} (h : d.tombstone u e = .ok d') :
    d' = { d with states := d.states.map (tf u e) } := by
  unfold Dir.tombstone at h
  split at h
  · cases h
  · cases h; rfl

theorem tf_username (u e s) : (tf u e s).username = s.username := by
  unfold tf; split <;> rfl

theorem tf_epoch (u e s) : (tf u e s).epoch = s.epoch := by
  unfold tf; split <;> rfl

theorem tf_rel (u e s) : VRel u e s (tf u e s) := by
  unfold tf VRel
  split
  · next h => exact ⟨rfl, rfl, rfl, rfl, Or.inr ⟨h.1, h.2.1, rfl⟩⟩
  · exact ⟨rfl, rfl, rfl, rfl, Or.inl rfl⟩

theorem tf_other {u e s} (h : s.username ≠ u) : tf u e s = s := by
  unfold tf; rw [if_neg (fun h' => h h'.1)]

theorem tf_late {u e s} (h : e < s.epoch) : tf u e s = s := by
  unfold tf; rw [if_neg (fun h' => by have := h'.2.1; omega)]

theorem vrel_refl (u cut s) : VRel u cut s s := ⟨rfl, rfl, rfl, rfl, Or.inl rfl⟩

/-! ### `stateLeq` -/

/-- the step of the fold in `stateLeq` -/
def step (acc : Option ValueState) (s : ValueState) : Option ValueState :=
  match acc with
  | none => some s
  | some a => if s.epoch > a.epoch then some s else some a

theorem stateLeq_eq (d : Dir) (u : Bytes) (e : Nat) :
    d.stateLeq u e = (d.states.filter (fun s => s.username = u ∧ s.epoch ≤ e)).foldl step none := rfl

theorem foldl_step_map (f : ValueState → ValueState) (he : ∀ s, (f s).epoch = s.epoch)
    (l : List ValueState) : ∀ acc : Option ValueState,
    (l.map f).foldl step (acc.map f) = (l.foldl step acc).map f := by
  induction l with
  | nil => intro acc; rfl
  | cons s l ih =>
    intro acc
    simp only [List.map_cons, List.foldl_cons]
    have : step (acc.map f) (f s) = (step acc s).map f := by
      cases acc with
      | none => rfl
      | some a =>
        simp only [step, Option.map_some, he]
        split <;> rfl
    rw [this, ih]

theorem foldl_step_mem (l : List ValueState) : ∀ (acc : Option ValueState) (st : ValueState),
    l.foldl step acc = some st → acc = some st ∨ st ∈ l := by
  induction l with
  | nil => intro acc st h; exact Or.inl h
  | cons s l ih =>
    intro acc st h
    simp only [List.foldl_cons] at h
    rcases ih _ _ h with h1 | h1
    · cases acc with
      | none =>
        simp only [step, Option.some.injEq] at h1
        exact Or.inr (h1 ▸ List.mem_cons_self)
      | some a =>
        simp only [step] at h1
        split at h1
        · simp only [Option.some.injEq] at h1
          exact Or.inr (h1 ▸ List.mem_cons_self)
        · exact Or.inl h1
    · exact Or.inr (List.mem_cons_of_mem _ h1)

theorem stateLeq_mem {d : Dir} {u : Bytes} {e : Nat} {st : ValueState} (h : d.stateLeq u e = some st) :
    st ∈ d.states ∧ st.username = u ∧ st.epoch ≤ e := by
  rw [stateLeq_eq] at h
  rcases foldl_step_mem _ _ _ h with h1 | h1
  · cases h1
  · have := List.mem_filter.1 h1
    exact ⟨this.1, by simpa using this.2⟩

theorem stateLeq_map (d : Dir) (f : ValueState → ValueState)
    (hu : ∀ s, (f s).username = s.username) (he : ∀ s, (f s).epoch = s.epoch) (u : Bytes) (e : Nat) :
    Dir.stateLeq { d with states := d.states.map f } u e = (d.stateLeq u e).map f := by
  rw [stateLeq_eq, stateLeq_eq]
  simp only
  rw [List.filter_map]
  have : ((fun s : ValueState => decide (s.username = u ∧ s.epoch ≤ e)) ∘ f) =
      (fun s : ValueState => decide (s.username = u ∧ s.epoch ≤ e)) := by
    funext s; simp only [Function.comp, hu, he]
  rw [this]
  exact foldl_step_map f he _ none

/-- tombstoning leaves `stateLeq` of other labels alone -/
theorem stateLeq_tomb_other (d : Dir) (u u' : Bytes) (cut e : Nat) (hne : u' ≠ u) :
    Dir.stateLeq { d with states := d.states.map (tf u cut) } u' e = d.stateLeq u' e := by
  rw [stateLeq_map d _ (tf_username u cut) (tf_epoch u cut)]
  cases h : d.stateLeq u' e with
  | none => rfl
  | some st =>
    have := (stateLeq_mem h).2.1
    simp only [Option.map_some]
    rw [tf_other (by rw [this]; exact hne)]

/-- tombstoning below the picked state leaves `stateLeq` alone -/
theorem stateLeq_tomb_own (d : Dir) (u : Bytes) (cut e : Nat) (st : ValueState)
    (h : d.stateLeq u e = some st) (hc : cut < st.epoch) :
    Dir.stateLeq { d with states := d.states.map (tf u cut) } u e = d.stateLeq u e := by
  rw [stateLeq_map d _ (tf_username u cut) (tf_epoch u cut), h]
  simp only [Option.map_some]
  rw [tf_late hc]

/-! ### `deriveUpdates` -/

theorem vrfLabel_congr {d d' : Dir} (hv : d'.vrf = d.vrf) (u : Bytes) (f : Bool) (n : Nat) :
    d'.vrfLabel u f n = d.vrfLabel u f n := by
  unfold Dir.vrfLabel; rw [hv]

theorem deriveUpdates_congr (c : Cfg) {d d' : Dir} (cur : Nat)
    (hs : ∀ u', d'.stateLeq u' cur = d.stateLeq u' cur) (hv : d'.vrf = d.vrf)
    (hk : d'.commitmentKey = d.commitmentKey) (b : List (Bytes × Bytes)) :
    Dir.deriveUpdates c d' cur b = Dir.deriveUpdates c d cur b := by
  induction b with
  | nil => rfl
  | cons x rest ih =>
    obtain ⟨u, v⟩ := x
    unfold Dir.deriveUpdates
    rw [ih, hs u, hk]
    simp only [vrfLabel_congr hv]

/-! ### `setState` on position-wise related lists -/

/-- lists related position-wise by `VRel` -/
inductive LRel (u : Bytes) (cut : Nat) : List ValueState → List ValueState → Prop
  | nil : LRel u cut [] []
  | cons {a b l l'} : VRel u cut a b → LRel u cut l l' → LRel u cut (a :: l) (b :: l')

theorem setState_rel (u : Bytes) (cut : Nat) (v : ValueState) :
    ∀ {l l' : List ValueState}, LRel u cut l l' →
      LRel u cut (Dir.setState l v) (Dir.setState l' v)
  | _, _, .nil => .cons (vrel_refl u cut v) .nil
  | _, _, .cons (a := s) (b := s') h t => by
    unfold Dir.setState
    rw [h.1, h.2.1]
    split
    · exact .cons (vrel_refl u cut v) t
    · exact .cons h (setState_rel u cut v t)

theorem foldl_setState_rel (u : Bytes) (cut : Nat) (sts : List ValueState) :
    ∀ {l l' : List ValueState}, LRel u cut l l' →
      LRel u cut (sts.foldl Dir.setState l) (sts.foldl Dir.setState l') := by
  induction sts with
  | nil => intro l l' h; exact h
  | cons v sts ih => intro l l' h; exact ih (setState_rel u cut v h)

theorem map_tf_rel (u : Bytes) (cut : Nat) (l : List ValueState) :
    LRel u cut l (l.map (tf u cut)) := by
  induction l with
  | nil => exact .nil
  | cons s l ih => exact .cons (tf_rel u cut s) ih

theorem rel_index {u : Bytes} {cut : Nat} {l l' : List ValueState} (h : LRel u cut l l') :
    l'.length = l.length ∧ ∀ i (hi : i < l.length) (hi' : i < l'.length), VRel u cut l[i] l'[i] := by
  induction h with
  | nil => exact ⟨rfl, fun i hi => absurd hi (Nat.not_lt_zero i)⟩
  | cons hh _ ih =>
    refine ⟨by simp only [List.length_cons, ih.1], fun i hi hi' => ?_⟩
    cases i with
    | zero => exact hh
    | succ i => exact ih.2 i (Nat.lt_of_succ_lt_succ hi) (Nat.lt_of_succ_lt_succ hi')

/-! ### `publish` on two directories that differ in value states only -/

theorem publish_congr (c : Cfg) {d d' : Dir} (b : List (Bytes × Bytes))
    (hn : d'.nodes = d.nodes) (ha : d'.azks = d.azks)
    (hder : ∀ a, d.azks = some a →
      Dir.deriveUpdates c d' a.latestEpoch b = Dir.deriveUpdates c d a.latestEpoch b) :
    (∀ e, d.publish c b = .error e → d'.publish c b = .error e) ∧
    (∀ d₁ ep root, d.publish c b = .ok (d₁, ep, root) →
      ∃ d₁', d'.publish c b = .ok (d₁', ep, root) ∧ d₁'.nodes = d₁.nodes ∧ d₁'.azks = d₁.azks ∧
        ((d₁ = d ∧ d₁' = d') ∨
         ∃ sts : List ValueState, d₁.states = sts.foldl Dir.setState d.states ∧
                d₁'.states = sts.foldl Dir.setState d'.states)) := by
  unfold Dir.publish
  simp only [bind, Except.bind, pure, Except.pure, throw, throwThe, MonadExceptOf.throw]
  rw [hn, ha]
  by_cases hdup : (b.map (·.1)).eraseDups.length ≠ b.length
  · simp only [if_pos hdup]
    exact ⟨fun e h => h, fun _ _ _ h => nomatch h⟩
  · simp only [if_neg hdup]
    cases hz : d.azks with
    | none => exact ⟨fun e h => h, fun _ _ _ h => nomatch h⟩
    | some a =>
      simp only [hder a hz]
      cases hd : Dir.deriveUpdates c d a.latestEpoch b with
      | error e => exact ⟨fun e h => h, fun _ _ _ h => nomatch h⟩
      | ok r =>
        obtain ⟨els, sts⟩ := r
        simp only
        by_cases hem : els.isEmpty = true
        · simp only [hem, if_true]
          cases hr : Dir.liftT (d.nodes.rootHash c a) with
          | error e => exact ⟨fun e h => h, fun _ _ _ h => nomatch h⟩
          | ok hh =>
            refine ⟨fun _ h => (nomatch h), fun d₁ ep root h => ?_⟩
            simp only [Except.ok.injEq, Prod.mk.injEq] at h
            obtain ⟨rfl, rfl, rfl⟩ := h
            exact ⟨d', rfl, hn, ha, Or.inl ⟨rfl, rfl⟩⟩
        · simp only [hem, Bool.false_eq_true, if_false]
          by_cases htx : d.nodes.inTxn = true
          · simp only [htx, if_true]
            exact ⟨fun e h => h, fun _ _ _ h => nomatch h⟩
          · simp only [htx, Bool.false_eq_true, if_false]
            cases hbi : Dir.liftT (d.nodes.begin.batchInsert c .directory a els) with
            | error e => exact ⟨fun e h => h, fun _ _ _ h => nomatch h⟩
            | ok r =>
              obtain ⟨ns, a'⟩ := r
              simp only
              cases hr : Dir.liftT (ns.commit.rootHash c a') with
              | error e => exact ⟨fun e h => h, fun _ _ _ h => nomatch h⟩
              | ok hh =>
                simp only
                by_cases hep : a'.latestEpoch ≠ a.latestEpoch + 1
                · simp only [if_pos hep]
                  exact ⟨fun e h => h, fun _ _ _ h => nomatch h⟩
                · simp only [if_neg hep]
                  refine ⟨fun _ h => (nomatch h), fun d₁ ep root h => ?_⟩
                  simp only [Except.ok.injEq, Prod.mk.injEq] at h
                  obtain ⟨rfl, rfl, rfl⟩ := h
                  exact ⟨_, rfl, rfl, rfl, Or.inr ⟨sts, rfl, rfl⟩⟩
end Akd.Tomb
