/-
Inductive invariant of the cache-fill transition system (`AkdModel/CacheFill.lean`), repaired
protocol (`Proto.fixed`), over schedules satisfying `NoEvictInFill`.
-/
import AkdModel.CacheFill
namespace Akd.CacheFill

/-- what a reader's local state may hold, relative to the shared state -/
def RInv (db gen : Nat) (w : WPc) (cache : Option Nat) : RPc → Prop
  | .idle => True
  | .missed g => g ≤ gen
  | .read g v => g ≤ gen ∧ (g = gen → v = db ∨ (w = .wrote ∧ v + 1 = db))
  | .checked v => v = db ∨ (w ≠ .idle ∧ v + 1 = db) ∨ ∃ c, cache = some c

structure Inv (s : Sys) : Prop where
  coh : Coherent s
  rd : ∀ r ∈ s.rs, RInv s.db s.gen s.w s.cache r
  ans : ∀ a ∈ s.answers, a.1 = a.2 ∨ a.1 + 1 = a.2

theorem inv_init (n : Nat) : Inv (init n) := by
  refine ⟨?_, ?_, ?_⟩
  · intro v h; simp [init] at h
  · intro r hr
    have : r = .idle := by simpa [init] using (List.eq_of_mem_replicate hr)
    subst this; trivial
  · intro a h; simp [init] at h

/-- the reader invariant of one reader is preserved by every writer step -/
theorem rinv_writer {s : Sys} (r : RPc) (h : RInv s.db s.gen s.w s.cache r) :
    match s.w with
    | .idle => RInv (s.db + 1) s.gen .wrote s.cache r
    | .wrote => RInv s.db (s.gen + 1) .bumped s.cache r
    | .bumped => RInv s.db s.gen .idle (some s.db) r := by
  cases hw : s.w <;> cases r <;> simp only [RInv, hw] at h ⊢ <;> grind

theorem inv_step {s s' : Sys} {a : Act} (h : Inv s) (hstep : step .fixed s a = some s')
    (hev : a = .evict → ∀ r ∈ s.rs, ∀ v, r ≠ .checked v) : Inv s' := by
  obtain ⟨hc, hr, ha⟩ := h
  cases a with
  | evict =>
    simp only [step, Option.some.injEq] at hstep
    subst hstep
    refine ⟨?_, ?_, ha⟩
    · intro v h; simp at h
    · intro r hm
      have h1 := hr r hm
      have h2 := hev rfl r hm
      cases r with
      | idle => trivial
      | missed g => exact h1
      | read g v => exact h1
      | checked v => exact absurd rfl (h2 v)
  | writer =>
    simp only [step] at hstep
    cases hw : s.w with
    | idle =>
      simp only [hw, Option.some.injEq] at hstep
      subst hstep
      refine ⟨?_, ?_, ha⟩
      · intro v h
        have := hc v h
        simp only [hw] at this
        grind
      · intro r hm
        have := rinv_writer r (hr r hm)
        simpa only [hw] using this
    | wrote =>
      simp only [hw, Option.some.injEq] at hstep
      subst hstep
      refine ⟨?_, ?_, ha⟩
      · intro v h
        have := hc v h
        simp only [hw] at this
        grind
      · intro r hm
        have := rinv_writer r (hr r hm)
        simpa only [hw] using this
    | bumped =>
      simp only [hw, Option.some.injEq] at hstep
      subst hstep
      refine ⟨?_, ?_, ha⟩
      · intro v h
        simp only [Option.some.injEq] at h
        exact Or.inl h.symm
      · intro r hm
        have := rinv_writer r (hr r hm)
        simpa only [hw] using this
  | reader i =>
    simp only [step] at hstep
    cases hi : s.rs[i]? with
    | none => simp [hi] at hstep
    | some ri =>
      have hri := hr ri (List.mem_of_getElem? hi)
      cases ri with
      | idle =>
        simp only [hi] at hstep
        split at hstep
        next v hca =>
          simp only [Option.some.injEq] at hstep
          subst hstep
          refine ⟨hc, hr, ?_⟩
          intro a hm
          simp only [List.mem_append, List.mem_singleton] at hm
          rcases hm with hm | hm
          · exact ha a hm
          · subst hm
            have := hc v hca
            grind
        next hca =>
          simp only [Option.some.injEq] at hstep
          subst hstep
          refine ⟨hc, ?_, ha⟩
          intro r hm
          rcases List.mem_or_eq_of_mem_set hm with hm | hm
          · exact hr r hm
          · subst hm; simp [RInv, setR]
      | missed g =>
        simp only [hi, Option.some.injEq] at hstep
        subst hstep
        refine ⟨hc, ?_, ha⟩
        intro r hm
        rcases List.mem_or_eq_of_mem_set hm with hm | hm
        · exact hr r hm
        · subst hm
          simp only [RInv, setR] at hri ⊢
          grind
      | read g v =>
        simp only [hi] at hstep
        by_cases hg : g = s.gen
        · simp only [hg, if_true, Option.some.injEq] at hstep
          subst hstep
          refine ⟨hc, ?_, ha⟩
          intro r hm
          rcases List.mem_or_eq_of_mem_set hm with hm | hm
          · exact hr r hm
          · subst hm
            simp only [RInv, setR] at hri ⊢
            grind
        · simp only [hg, if_false, Option.some.injEq] at hstep
          subst hstep
          refine ⟨hc, ?_, ha⟩
          intro r hm
          rcases List.mem_or_eq_of_mem_set hm with hm | hm
          · exact hr r hm
          · subst hm; trivial
      | checked v =>
        simp only [hi] at hstep
        split at hstep
        next hca =>
          simp only [Option.some.injEq] at hstep
          subst hstep
          simp only [RInv, hca] at hri
          refine ⟨?_, ?_, ha⟩
          · intro c hcc
            simp only [setR, Option.some.injEq] at hcc
            subst hcc
            simp only [setR]
            grind
          · intro r hm
            rcases List.mem_or_eq_of_mem_set hm with hm | hm
            · have h1 := hr r hm
              simp only [setR]
              cases r with
              | idle => trivial
              | missed g => exact h1
              | read g v => exact h1
              | checked v' =>
                simp only [RInv] at h1 ⊢
                grind
            · subst hm; trivial
        next c hca =>
          simp only [Option.some.injEq] at hstep
          subst hstep
          refine ⟨hc, ?_, ha⟩
          intro r hm
          rcases List.mem_or_eq_of_mem_set hm with hm | hm
          · exact hr r hm
          · subst hm; trivial

theorem inv_run (sched : List Act) : ∀ (s s' : Sys), Inv s → run .fixed s sched = some s' →
    NoEvictInFill .fixed s sched → Inv s' := by
  induction sched with
  | nil =>
    intro s s' h hrun _
    simp only [run, Option.some.injEq] at hrun
    subst hrun; exact h
  | cons a rest ih =>
    intro s s' h hrun hne
    simp only [run] at hrun
    simp only [NoEvictInFill] at hne
    cases hs : step .fixed s a with
    | none => simp [hs] at hrun
    | some s1 =>
      simp only [hs] at hrun hne
      exact ih s1 s' (inv_step h hs hne.1) hrun hne.2

theorem inv_reachable (n : Nat) (sched : List Act) (s : Sys)
    (hrun : run .fixed (init n) sched = some s) (hne : NoEvictInFill .fixed (init n) sched) :
    Inv s :=
  inv_run sched (init n) s (inv_init n) hrun hne

end Akd.CacheFill
