/-
Helper lemmas: proof generation over storage refines canonical proof generation (C02, C03).
* `GenWalk`   — the walk `lcpWalk` on a represented tree follows `CTree.path` / `CRoot.path`;
* `GenProof`  — `lcpProof`, `membershipProof`, `nonMembershipProof` compute the canonical proofs;
* `GenLookup` — the directory level: `Dir.lookup` in a state that represents the specification.
-/
import AkdModel.Thm.C01c
import AkdModel.Thm.C05
import AkdModel.Lemmas.GenProof
import AkdModel.Lemmas.GenLookup
namespace Akd
end Akd
