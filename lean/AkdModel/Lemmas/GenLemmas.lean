/-
Helper lemmas: proof generation over storage refines canonical proof generation (C02, C03).
-/
import AkdModel.Thm.C01c
import AkdModel.Thm.C05
namespace Akd
end Akd
