/-
C19 helper lemmas: the limited input stream on written data (`In.varint32`, `In.varint64`, `In.take`).
-/
import AkdModel.Lemmas.ProtoVarint
namespace Akd.Proto

theorem visible_append (w rest : Bytes) (lim : Nat) (h : w.length ≤ lim) :
    (⟨w ++ rest, lim⟩ : In).visible = w ++ rest.take (lim - w.length) := by
  simp only [In.visible]
  rw [List.take_append, List.take_of_length_le h]

theorem In_varint32_write (n : Nat) (hn : n < 2 ^ 32) (rest : Bytes) (lim : Nat)
    (h : (writeVarint n).length ≤ lim) :
    (⟨writeVarint n ++ rest, lim⟩ : In).varint32 = some (n, ⟨rest, lim - (writeVarint n).length⟩) := by
  unfold In.varint32
  rw [visible_append _ _ _ h, readVarint32_write n hn]
  simp

theorem In_varint64_write (n : Nat) (hn : n < 2 ^ 64) (rest : Bytes) (lim : Nat)
    (h : (writeVarint n).length ≤ lim) :
    (⟨writeVarint n ++ rest, lim⟩ : In).varint64 = some (n, ⟨rest, lim - (writeVarint n).length⟩) := by
  unfold In.varint64
  rw [visible_append _ _ _ h, readVarint64_write n hn]
  simp

theorem In_take_append (b rest : Bytes) (lim : Nat) (h : b.length ≤ lim) :
    (⟨b ++ rest, lim⟩ : In).take b.length = some (b, ⟨rest, lim - b.length⟩) := by
  unfold In.take
  have h1 : ¬ (b.length > lim) := by omega
  simp [h1]

end Akd.Proto
