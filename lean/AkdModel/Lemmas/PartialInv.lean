/-
C11: the transaction invariant.  `D` is the database (not touched inside the transaction), `epoch`
the epoch being written, `K` the labels (bit strings) of the nodes that existed before.  `TI` says
that every log record under a pre-existing key still shows, as of `epoch - 1`, the version the
database holds (modulo `parent`).  Three kinds of writes preserve it:
* a write under a key that is not pre-existing (`ti_write_fresh`);
* `writeNode n false` with `n.lastEpoch = epoch`: `previous` becomes the as-of-`epoch - 1` view
  (`ti_write_epoch`);
* `writeNode n false` where `n` is the stored latest version up to `parent` — the decompression
  rewrite (`ti_write_same`).
Also: the labels of a tree, and the bookkeeping "the pre-existing labels below this position are the
labels of the sub-tree found there" (`GK`).
-/
import AkdModel.Thm.C13
import AkdModel.Lemmas.InsertLemmas
import AkdModel.Lemmas.PartialStore
namespace Akd.Part
open Akd NodeLabel NodeStore
open Akd.C13 (eraseParent)
open Akd.Ins (olbl oleaves)

theorem eraseParent_parent (n : TreeNode) (p : NodeLabel) : eraseParent { n with parent := p } = eraseParent n := rfl

theorem eraseParent_lastEpoch {a b : TreeNode} (h : eraseParent a = eraseParent b) : a.lastEpoch = b.lastEpoch :=
  show (eraseParent a).lastEpoch = (eraseParent b).lastEpoch from congrArg TreeNode.lastEpoch h

/-- the as-of-`epoch - 1` view of pre-existing keys is preserved by the log -/
def TI (D : NodeMap) (epoch : Nat) (K : BitStr → Prop) (s : NodeStore) : Prop :=
  s.db = D ∧ s.inTxn = true ∧
  ∀ q r' r, K q → s.log.get? (ofBits q) = some r' → D.get? (ofBits q) = some r →
    ∃ n, r'.resolve (epoch - 1) = .ok n ∧ eraseParent n = eraseParent r.latest

/-- the database is at the previous epoch (on the pre-existing keys) -/
def DbAt (D : NodeMap) (epoch : Nat) (K : BitStr → Prop) : Prop :=
  ∀ q r, K q → D.get? (ofBits q) = some r → r.latest.lastEpoch < epoch

section
variable {D : NodeMap} {epoch : Nat} {K : BitStr → Prop}

/-- what the store (log first, then database) shows under a pre-existing key -/
theorem ti_view (hD : DbAt D epoch K) {s : NodeStore} (hs : TI D epoch K s) {q : BitStr} (hq : K q)
    {r0 r : NodeRec} (h0 : s.getRec (ofBits q) = some r0) (hr : D.get? (ofBits q) = some r) :
    ∃ n, r0.resolve (epoch - 1) = .ok n ∧ eraseParent n = eraseParent r.latest := by
  rcases getRec_txn hs.2.1 h0 with hl | ⟨_, hd⟩
  · exact hs.2.2 q r0 r hq hl hr
  · rw [hs.1, hr] at hd
    simp only [Option.some.injEq] at hd
    subst hd
    exact ⟨_, resolve_ok_latest _ _ (by have := hD q _ hq hr; omega), rfl⟩

theorem getRec_of_db {s : NodeStore} (hs : TI D epoch K s) {k : NodeLabel} {r : NodeRec}
    (hr : D.get? k = some r) : ∃ r0, s.getRec k = some r0 := by
  unfold NodeStore.getRec
  rw [if_pos hs.2.1]
  cases s.log.get? k with
  | some r' => exact ⟨r', rfl⟩
  | none => exact ⟨r, by rw [hs.1]; exact hr⟩

/-- a write under a key that did not exist before -/
theorem ti_write_fresh {s : NodeStore} (hs : TI D epoch K s) (r : NodeRec)
    (hfresh : ∀ q, K q → r.label ≠ ofBits q) : TI D epoch K (s.setRec r) := by
  refine ⟨(db_setRec s r hs.2.1).1.trans hs.1, (db_setRec s r hs.2.1).2, ?_⟩
  intro q r' r1 hq hl hd
  rw [log_setRec s r hs.2.1, if_neg (fun h => hfresh q hq h.symm)] at hl
  exact hs.2.2 q r' r1 hq hl hd

theorem writeNode_false_eq {s : NodeStore} {n p : TreeNode}
    (hg : s.getNode n.label (if n.lastEpoch > 0 then n.lastEpoch - 1 else n.lastEpoch) = .ok p) :
    s.writeNode n false = .ok (s.setRec ⟨n.label, n, some p⟩) := by
  unfold NodeStore.writeNode
  simp only [Bool.false_eq_true, if_false]
  rw [hg]

/-- a (re)write of an existing node at the new epoch: `previous` is the as-of-`epoch - 1` view -/
theorem ti_write_epoch (hD : DbAt D epoch K) (hep : 1 ≤ epoch) {s s' : NodeStore} (hs : TI D epoch K s)
    {n : TreeNode} (hn : n.lastEpoch = epoch) (hw : s.writeNode n false = .ok s') : TI D epoch K s' := by
  obtain ⟨p, hp⟩ := Ins.writeNode_ok s n false
  have hs' : s' = s.setRec ⟨n.label, n, p⟩ := by rw [hp] at hw; cases hw; rfl
  refine ⟨hs' ▸ (db_setRec s _ hs.2.1).1.trans hs.1, hs' ▸ (db_setRec s _ hs.2.1).2, ?_⟩
  intro q r' r hq hl hd
  by_cases hk : ofBits q = n.label
  · -- the key being written
    obtain ⟨r0, h0⟩ := getRec_of_db hs hd
    obtain ⟨n0, hres, her⟩ := ti_view hD hs hq h0 hd
    have hg : s.getNode n.label (if n.lastEpoch > 0 then n.lastEpoch - 1 else n.lastEpoch) = .ok n0 := by
      rw [if_pos (by omega), hn, ← hk]
      unfold NodeStore.getNode
      rw [h0]
      exact hres
    rw [writeNode_false_eq hg] at hw
    cases hw
    rw [log_setRec s _ hs.2.1, if_pos hk] at hl
    cases hl
    refine ⟨n0, ?_, her⟩
    have := resolve_le hres
    unfold NodeRec.resolve
    simp only
    rw [if_pos (by omega), if_neg (by omega)]
  · subst hs'
    rw [log_setRec s _ hs.2.1, if_neg hk] at hl
    exact hs.2.2 q r' r hq hl hd

/-- the decompression rewrite: the stored latest version, with another `parent` -/
theorem ti_write_same (hD : DbAt D epoch K) (hep : 1 ≤ epoch) {s s' : NodeStore} (hs : TI D epoch K s)
    {n : TreeNode} {r0 : NodeRec} (h0 : s.getRec n.label = some r0)
    (her : eraseParent n = eraseParent r0.latest) (hle : n.lastEpoch ≤ epoch)
    (hw : s.writeNode n false = .ok s') : TI D epoch K s' := by
  by_cases hn : n.lastEpoch = epoch
  · exact ti_write_epoch hD hep hs hn hw
  obtain ⟨p, hp⟩ := Ins.writeNode_ok s n false
  rw [hp] at hw
  cases hw
  refine ⟨(db_setRec s _ hs.2.1).1.trans hs.1, (db_setRec s _ hs.2.1).2, ?_⟩
  intro q r' r hq hl hd
  by_cases hk : ofBits q = n.label
  · rw [log_setRec s _ hs.2.1, if_pos hk] at hl
    cases hl
    refine ⟨n, resolve_ok_latest _ _ (by simp only; omega), ?_⟩
    rw [← hk] at h0
    obtain ⟨n0, hres, her0⟩ := ti_view hD hs hq h0 hd
    rw [resolve_ok_latest _ _ (by rw [← eraseParent_lastEpoch her]; omega)] at hres
    cases hres
    exact her.trans her0
  · rw [log_setRec s _ hs.2.1, if_neg hk] at hl
    exact hs.2.2 q r' r hq hl hd

end

/-! ### the labels of a tree -/

def lbls : CTree → List BitStr
  | .leaf q _ _ => [q]
  | .node q l r => q :: (lbls l ++ lbls r)

def olbls (o : Option CTree) : List BitStr := (o.map lbls).getD []

theorem lbl_mem_lbls (t : CTree) : t.lbl ∈ lbls t := by
  cases t <;> simp [lbls, CTree.lbl]

theorem lbls_prefix : ∀ {t : CTree}, t.WF → ∀ q ∈ lbls t, t.lbl <+: q
  | .leaf _ _ _, _, q, h => by
    simp only [lbls, List.mem_singleton] at h
    subst h
    exact List.prefix_refl _
  | .node p l r, hwf, q, h => by
    obtain ⟨pl, pr, wl, wr⟩ := hwf
    simp only [lbls, List.mem_cons, List.mem_append] at h
    rcases h with rfl | h | h
    · exact List.prefix_refl _
    · exact (Canon.prefix_of_snoc_prefix pl).trans (lbls_prefix wl q h)
    · exact (Canon.prefix_of_snoc_prefix pr).trans (lbls_prefix wr q h)

theorem lbls_length_le : ∀ {t : CTree}, t.WF → (∀ lf ∈ t.leaves, lf.lbl.length ≤ 256) →
    ∀ q ∈ lbls t, q.length ≤ 256
  | .leaf p v e, _, hlen, q, h => by
    simp only [lbls, List.mem_singleton] at h
    subst h
    exact hlen ⟨q, v, e⟩ (by simp [CTree.leaves])
  | .node p l r, hwf, hlen, q, h => by
    have hp := Ins.lbl_length_le _ hwf hlen
    obtain ⟨pl, pr, wl, wr⟩ := hwf
    simp only [lbls, List.mem_cons, List.mem_append] at h
    rcases h with rfl | h | h
    · exact hp
    · exact lbls_length_le wl (fun lf h => hlen lf (by simp [CTree.leaves, h])) q h
    · exact lbls_length_le wr (fun lf h => hlen lf (by simp [CTree.leaves, h])) q h

/-- the pre-existing labels below the position `pre` are the labels of the sub-tree found there -/
def GK (K : BitStr → Prop) (pre : BitStr) (ot : Option CTree) : Prop :=
  ∀ q, K q → pre <+: q → q ∈ olbls ot

theorem gk_none_fresh {K : BitStr → Prop} {pre q : BitStr} (h : GK K pre none) (hp : pre <+: q) : ¬ K q := by
  intro hq
  have := h q hq hp
  simp [olbls] at this

/-- descending into the children of an existing node -/
theorem gk_children {K : BitStr → Prop} {pre p : BitStr} {l r : CTree} (h : GK K pre (some (.node p l r)))
    (hwf : (CTree.node p l r).WF) (hpre : pre <+: p) (d : Bool) :
    GK K (p ++ [d]) (some (if d then r else l)) := by
  obtain ⟨pl, pr, wl, wr⟩ := hwf
  intro q hq hpq
  have hm := h q hq (hpre.trans (Canon.prefix_of_snoc_prefix hpq))
  simp only [olbls, Option.map_some, Option.getD_some, lbls, List.mem_cons, List.mem_append] at hm ⊢
  rcases hm with rfl | hm | hm
  · have := hpq.length_le
    simp at this
    omega
  · have hd : d = false := Ins.snoc_prefix_unique hpq (pl.trans (lbls_prefix wl q hm))
    subst hd
    exact hm
  · have hd : d = true := Ins.snoc_prefix_unique hpq (pr.trans (lbls_prefix wr q hm))
    subst hd
    exact hm

/-- a new node `p` strictly above an existing sub-tree `t` -/
theorem gk_above {K : BitStr → Prop} {pre p : BitStr} {t : CTree} (h : GK K pre (some t)) (hwf : t.WF)
    (hpre : pre <+: p) {d0 : Bool} (hd0 : (p ++ [d0]) <+: t.lbl) :
    ¬ K p ∧ ∀ d, GK K (p ++ [d]) (if d = d0 then some t else none) := by
  refine ⟨fun hq => ?_, fun d q hq hpq => ?_⟩
  · have hm := h p hq hpre
    have := (hd0.trans (lbls_prefix hwf p (by simpa [olbls] using hm))).length_le
    simp at this
    omega
  · have hm := h q hq (hpre.trans (Canon.prefix_of_snoc_prefix hpq))
    have hm' : q ∈ lbls t := by simpa [olbls] using hm
    have hd : d = d0 := Ins.snoc_prefix_unique hpq (hd0.trans (lbls_prefix hwf q hm'))
    rw [if_pos hd]
    exact hm

end Akd.Part
