/-
C19 helper lemmas: all values of a field, all fields of a message, and the wire round trip at every depth
(`parse_write`): `parseMsg` on `writeMsgF d ty m` inside any enclosing stream.
-/
import AkdModel.Lemmas.ProtoWire
namespace Akd.Proto

theorem get_put (acc : PMsg) (a b : Nat) (vs : List PVal) :
    (acc.put a vs).get b = if a = b then vs else acc.get b := by
  induction acc with
  | nil => simp [PMsg.put, PMsg.get]
  | cons e acc ih =>
    obtain ⟨n, old⟩ := e
    by_cases h : n = a
    · subst h
      by_cases h2 : n = b <;> simp [PMsg.put, PMsg.get, h2]
    · by_cases h2 : n = b
      · subst h2
        have : ¬ a = n := fun h' => h h'.symm
        simp [PMsg.put, PMsg.get, h, this]
      · simp [PMsg.put, PMsg.get, h, h2, ih]

theorem ListRel_nil_right {α β : Type} (R : α → β → Prop) (l : List α) (h : ListRel R l []) : l = [] := by
  cases l with
  | nil => rfl
  | cons a l => simp [ListRel] at h

theorem step_values (d fuel level : Nat) (ty : MsgTy) (f : FieldSpec) (hf : f ∈ schema ty)
    (hlev : level < 100) (hP : NestedRT d fuel level) (vs : List PVal) :
    ∀ (acc : PMsg), (∀ v ∈ vs, ValOKWith (WireOK d) (writeMsgF d) v f.kind) → (f.repeated = false → vs.length ≤ 1) →
    ∃ vs', ListRel (ValEqvWith (WireEqv d)) vs' vs ∧ ∃ acc',
      Steps fuel level ty (vs.flatMap (encVal d f)) acc acc' ∧
      (∀ n, n ≠ f.num → acc'.get n = acc.get n) ∧
      acc'.get f.num = (if f.repeated then acc.get f.num ++ vs' else if vs' = [] then acc.get f.num else vs') := by
  induction vs with
  | nil =>
    intro acc _ _
    exact ⟨[], trivial, acc, Steps.nil _ _ _ _, fun _ _ => rfl, by simp⟩
  | cons v vs ih =>
    intro acc hok hsing
    obtain ⟨v', hv', hstep⟩ := step_value d fuel level ty f hf v (hok v List.mem_cons_self) hlev hP acc
    obtain ⟨vs', hvs', acc', hsteps, hother, hget⟩ := ih _ (fun w hw => hok w (List.mem_cons_of_mem _ hw))
      (fun hr => by have := hsing hr; simp at this; simp [this])
    refine ⟨v' :: vs', ⟨hv', hvs'⟩, acc', ?_, ?_, ?_⟩
    · rw [List.flatMap_cons]
      exact hstep.append hsteps
    · intro n hn
      rw [hother n hn, get_put]
      have : ¬ f.num = n := fun h => hn h.symm
      simp [this]
    · rw [hget, get_put]
      by_cases hr : f.repeated = true
      · simp [hr]
      · have hr' : f.repeated = false := by simpa using hr
        have hnil : vs = [] := by have := hsing hr'; simpa using this
        subst hnil
        have := ListRel_nil_right _ _ hvs'
        subst this
        simp [hr']


theorem get_mem (m : PMsg) (n : Nat) (h : m.get n ≠ []) : (n, m.get n) ∈ m := by
  induction m with
  | nil => simp [PMsg.get] at h
  | cons e m ih =>
    obtain ⟨k, vs⟩ := e
    by_cases hk : k = n
    · subst hk; simp [PMsg.get]
    · simp only [PMsg.get, hk, if_false] at h ⊢
      exact List.mem_cons_of_mem _ (ih h)

theorem WireOK_field (d : Nat) (ty : MsgTy) (m : PMsg) (h : WireOK (d + 1) ty m) (f : FieldSpec)
    (hf : f ∈ schema ty) :
    (∀ v ∈ m.get f.num, ValOKWith (WireOK d) (writeMsgF d) v f.kind) ∧
      (f.repeated = false → (m.get f.num).length ≤ 1) := by
  by_cases hg : m.get f.num = []
  · simp [hg]
  · obtain ⟨f', hf', h1, h2⟩ := h _ _ (get_mem m f.num hg)
    rw [(schema_facts ty f hf).1] at hf'
    cases hf'
    exact ⟨h2, h1⟩

theorem WireOK_get_nil (d : Nat) (ty : MsgTy) (m : PMsg) (h : WireOK (d + 1) ty m) (n : Nat)
    (hn : n ∉ (schema ty).map (·.num)) : m.get n = [] := by
  apply Classical.byContradiction
  intro hg
  obtain ⟨f', hf', _⟩ := h _ _ (get_mem m n hg)
  obtain ⟨h1, h2⟩ := findSpec_mem ty n f' hf'
  exact hn (List.mem_map.mpr ⟨f', h1, h2⟩)

theorem step_fields (d fuel level : Nat) (ty : MsgTy) (m : PMsg) (hm : WireOK (d + 1) ty m)
    (hlev : level < 100) (hP : NestedRT d fuel level) (fs : List FieldSpec) :
    ∀ (acc : PMsg), (fs.map (·.num)).Nodup → (∀ f ∈ fs, f ∈ schema ty) → (∀ f ∈ fs, acc.get f.num = []) →
    ∃ acc', Steps fuel level ty (fs.flatMap fun f => (m.get f.num).flatMap (encVal d f)) acc acc' ∧
      (∀ n, n ∉ fs.map (·.num) → acc'.get n = acc.get n) ∧
      ∀ f ∈ fs, ListRel (ValEqvWith (WireEqv d)) (acc'.get f.num) (m.get f.num) := by
  induction fs with
  | nil =>
    intro acc _ _ _
    exact ⟨acc, Steps.nil _ _ _ _, fun _ _ => rfl, fun _ h => by simp at h⟩
  | cons f fs ih =>
    intro acc hnd hsch hemp
    have hf := hsch f List.mem_cons_self
    obtain ⟨hok, hsing⟩ := WireOK_field d ty m hm f hf
    obtain ⟨vs', hvs', acc1, hst1, hoth1, hget1⟩ :=
      step_values d fuel level ty f hf hlev hP (m.get f.num) acc hok hsing
    rw [List.map_cons, List.nodup_cons] at hnd
    have hacc1 : acc1.get f.num = vs' := by
      rw [hget1, hemp f List.mem_cons_self]
      by_cases hr : f.repeated = true <;> simp [hr]
    obtain ⟨acc', hst2, hoth2, hrel2⟩ := ih acc1 hnd.2 (fun g hg => hsch g (List.mem_cons_of_mem _ hg))
      (fun g hg => by
        have hne : g.num ≠ f.num := fun h => hnd.1 (h ▸ List.mem_map.mpr ⟨g, hg, rfl⟩)
        rw [hoth1 _ hne]
        exact hemp g (List.mem_cons_of_mem _ hg))
    refine ⟨acc', ?_, ?_, ?_⟩
    · rw [List.flatMap_cons]
      exact hst1.append hst2
    · intro n hn
      rw [List.map_cons, List.mem_cons, not_or] at hn
      rw [hoth2 n hn.2, hoth1 n hn.1]
    · intro g hg
      rcases List.mem_cons.mp hg with rfl | hg
      · rw [hoth2 _ hnd.1, hacc1]
        exact hvs'
      · exact hrel2 g hg


theorem loop_eof (fuel level : Nat) (ty : MsgTy) (k : Nat) (i : In) (acc : PMsg) (hk : 1 ≤ k)
    (h : i.eof = true) : parseMsg.loop fuel level ty k i acc = some (acc, i) := by
  obtain ⟨k, rfl⟩ : ∃ j, k = j + 1 := ⟨k - 1, by omega⟩
  rw [parseMsg.loop.eq_2, if_pos h]

/-- the wire round trip at every depth, inside any enclosing stream -/
theorem parse_write (d : Nat) : ∀ (ty : MsgTy) (m : PMsg) (fuel level : Nat), WireOK d ty m → d ≤ fuel →
    level + d ≤ 100 → ∃ m', WireEqv d m' m ∧ ∀ tail lim, (writeMsgF d ty m).length ≤ lim →
      (tail = [] ∨ lim = (writeMsgF d ty m).length) →
      parseMsg fuel level ty ⟨writeMsgF d ty m ++ tail, lim⟩ = some (m', ⟨tail, lim - (writeMsgF d ty m).length⟩) := by
  induction d with
  | zero => intro ty m fuel level h; exact h.elim
  | succ d ih =>
    intro ty m fuel level hm hfuel hlev
    obtain ⟨fuel, rfl⟩ : ∃ j, fuel = j + 1 := ⟨fuel - 1, by omega⟩
    have hP : NestedRT d fuel level := by
      intro sty sub hsub
      obtain ⟨m', he, hp⟩ := ih sty sub fuel (level + 1) hsub (by omega) (by omega)
      refine ⟨m', he, fun tail => ?_⟩
      have := hp tail _ (Nat.le_refl _) (Or.inr rfl)
      simpa using this
    obtain ⟨acc', ⟨c, hc, hsteps⟩, hoth, hrel⟩ := step_fields d fuel level ty m hm (by omega) hP (schema ty) []
      (schema_nodup ty) (fun _ h => h) (fun _ _ => rfl)
    rw [← writeMsgF_succ] at hsteps hc
    refine ⟨acc', ?_, fun tail lim hl heof => ?_⟩
    · intro n
      by_cases hn : n ∈ (schema ty).map (·.num)
      · obtain ⟨f, hf, rfl⟩ := List.mem_map.mp hn
        exact hrel f hf
      · rw [hoth n hn, WireOK_get_nil d ty m hm n hn]
        exact trivial
    · rw [parseMsg.eq_2]
      simp only
      have hk : (writeMsgF (d + 1) ty m ++ tail).length + 1 =
          ((writeMsgF (d + 1) ty m ++ tail).length + 1 - c) + c := by
        simp only [List.length_append]; omega
      rw [hk, hsteps _ tail lim hl]
      apply loop_eof
      · simp only [List.length_append]; omega
      · rcases heof with h | h
        · simp [In.eof, h]
        · simp [In.eof, h]

end Akd.Proto
