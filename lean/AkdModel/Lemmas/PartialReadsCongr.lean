/-
Helper lemmas for `Thm/C11b.lean`, part 1: the proof generators of `Insert.lean` read the store only through
`getNode · epoch` and never look at the `parent` field of a node.  Two stores whose reads agree modulo `parent`
(`View`) give the same root hash, (non-)membership proofs and append-only proofs.
-/
import AkdModel.Thm.C13
import AkdModel.Insert
import AkdModel.Lemmas.AuditGenStore
import AkdModel.Lemmas.GenProof
namespace Akd.Part
open Akd NodeStore

/-- the node with another `parent` -/
def setP (n : TreeNode) (p : NodeLabel) : TreeNode := { n with parent := p }

@[simp] theorem setP_label (n : TreeNode) (p : NodeLabel) : (setP n p).label = n.label := rfl
@[simp] theorem setP_lastEpoch (n : TreeNode) (p : NodeLabel) : (setP n p).lastEpoch = n.lastEpoch := rfl
@[simp] theorem setP_minDescEpoch (n : TreeNode) (p : NodeLabel) : (setP n p).minDescEpoch = n.minDescEpoch := rfl
@[simp] theorem setP_nodeType (n : TreeNode) (p : NodeLabel) : (setP n p).nodeType = n.nodeType := rfl
@[simp] theorem setP_left (n : TreeNode) (p : NodeLabel) : (setP n p).left = n.left := rfl
@[simp] theorem setP_right (n : TreeNode) (p : NodeLabel) : (setP n p).right = n.right := rfl
@[simp] theorem setP_hash (n : TreeNode) (p : NodeLabel) : (setP n p).hash = n.hash := rfl
@[simp] theorem setP_childLabel (n : TreeNode) (p : NodeLabel) (d : Direction) :
    (setP n p).childLabel d = n.childLabel d := by cases d <;> rfl

/-- what a read of key `k` as of epoch `e` yields, modulo the `parent` field (`C11.readAt`) -/
def rd (s : NodeStore) (e : Nat) (k : NodeLabel) : Except Err TreeNode :=
  match s.getNode k e with
  | .ok n => .ok (C13.eraseParent n)
  | .error x => .error x

/-- the reads of `s'` as of `e` agree with those of `s` modulo `parent` -/
def View (s s' : NodeStore) (e : Nat) : Prop := ∀ k, rd s' e k = rd s e k

theorem eq_setP {n n' : TreeNode} (h : C13.eraseParent n' = C13.eraseParent n) : n' = setP n n'.parent := by
  cases n; cases n'
  simp only [C13.eraseParent, TreeNode.mk.injEq] at h
  simp only [setP, TreeNode.mk.injEq]
  simp only [h, and_self]

theorem view_cases {s s' : NodeStore} {e : Nat} (h : View s s' e) (k : NodeLabel) :
    (∃ x, s'.getNode k e = .error x ∧ s.getNode k e = .error x) ∨
    (∃ n p, s'.getNode k e = .ok (setP n p) ∧ s.getNode k e = .ok n) := by
  have hk := h k
  unfold rd at hk
  cases h1 : s'.getNode k e with
  | error x =>
    cases h2 : s.getNode k e with
    | error y =>
      rw [h1, h2] at hk
      simp only [Except.error.injEq] at hk
      exact .inl ⟨x, rfl, by rw [hk]⟩
    | ok n => rw [h1, h2] at hk; cases hk
  | ok n' =>
    cases h2 : s.getNode k e with
    | error y => rw [h1, h2] at hk; cases hk
    | ok n =>
      rw [h1, h2] at hk
      simp only [Except.ok.injEq] at hk
      exact .inr ⟨n, n'.parent, by rw [← eq_setP hk], rfl⟩

theorem getChild_cases {s s' : NodeStore} {e : Nat} (h : View s s' e) (n : TreeNode) (p : NodeLabel)
    (d : Direction) :
    (∃ x, s'.getChild (setP n p) d e = .error x ∧ s.getChild n d e = .error x) ∨
    (s'.getChild (setP n p) d e = .ok none ∧ s.getChild n d e = .ok none) ∨
    (∃ ch q, s'.getChild (setP n p) d e = .ok (some (setP ch q)) ∧ s.getChild n d e = .ok (some ch)) := by
  unfold getChild
  rw [setP_childLabel]
  cases n.childLabel d with
  | none => exact .inr (.inl ⟨rfl, rfl⟩)
  | some l =>
    rcases view_cases h l with ⟨x, h1, h2⟩ | ⟨m, q, h1, h2⟩
    · simp only [h1, h2]
      cases x
      · exact .inr (.inl ⟨rfl, rfl⟩)
      all_goals exact .inl ⟨_, rfl, rfl⟩
    · simp only [h1, h2]
      exact .inr (.inr ⟨m, q, rfl, rfl⟩)

theorem getChildForProof_cases {s s' : NodeStore} {e : Nat} (h : View s s' e) (n : TreeNode) (p : NodeLabel)
    (d : Direction) :
    (∃ x, s'.getChildForProof (setP n p) d e = .error x ∧ s.getChildForProof n d e = .error x) ∨
    (s'.getChildForProof (setP n p) d e = .ok none ∧ s.getChildForProof n d e = .ok none) ∨
    (∃ ch q, s'.getChildForProof (setP n p) d e = .ok (some (setP ch q)) ∧
      s.getChildForProof n d e = .ok (some ch)) := by
  unfold getChildForProof
  rw [setP_childLabel]
  rcases getChild_cases h n p d with ⟨x, h1, h2⟩ | ⟨h1, h2⟩ | ⟨ch, q, h1, h2⟩
  · rw [h1, h2]; exact .inl ⟨x, rfl, rfl⟩
  · rw [h1, h2]
    cases (n.childLabel d).isSome
    · exact .inr (.inl ⟨rfl, rfl⟩)
    · exact .inl ⟨.notFound, rfl, rfl⟩
  · rw [h1, h2]; exact .inr (.inr ⟨ch, q, rfl, rfl⟩)

theorem childElement_congr {s s' : NodeStore} {e : Nat} (h : View s s' e) (c : Cfg) (n : TreeNode)
    (p : NodeLabel) (d : Direction) :
    childElement c s' (setP n p) d e = childElement c s n d e := by
  unfold childElement
  rcases getChildForProof_cases h n p d with ⟨x, h1, h2⟩ | ⟨h1, h2⟩ | ⟨ch, q, h1, h2⟩
  · rw [h1, h2]
  · rw [h1, h2]
  · rw [h1, h2]; rfl

/-! ### the walk -/

theorem lcpWalk_succ (c : Cfg) (s : NodeStore) (label : NodeLabel) (ep f : Nat) (cur prev : TreeNode)
    (sps : List SiblingProof) :
    lcpWalk c s label ep (f + 1) cur prev sps =
      if (decide (label = cur.label) || decide (cur.label.prefixOrdering label = .invalid)) = true then
        .ok (cur, prev, sps, decide (label = cur.label))
      else
        match s.getChildForProof cur (if cur.label.prefixOrdering label = .withZero then .left else .right) ep with
        | .error e => .error e
        | .ok none => .ok (cur, prev, sps, decide (label = cur.label))
        | .ok (some child) =>
          match childElement c s cur
              (if cur.label.prefixOrdering label = .withZero then Direction.left else .right).other ep with
          | .error e => .error e
          | .ok sib =>
            lcpWalk c s label ep f child cur
              (sps ++ [⟨cur.label, sib, if cur.label.prefixOrdering label = .withZero then .left else .right⟩]) := by
  rfl

theorem lcpWalk_succ_setP (c : Cfg) (s : NodeStore) (label : NodeLabel) (ep f : Nat) (cur prev : TreeNode)
    (p : NodeLabel) (sps : List SiblingProof) :
    lcpWalk c s label ep (f + 1) (setP cur p) prev sps =
      if (decide (label = cur.label) || decide (cur.label.prefixOrdering label = .invalid)) = true then
        .ok (setP cur p, prev, sps, decide (label = cur.label))
      else
        match s.getChildForProof (setP cur p)
            (if cur.label.prefixOrdering label = .withZero then .left else .right) ep with
        | .error e => .error e
        | .ok none => .ok (setP cur p, prev, sps, decide (label = cur.label))
        | .ok (some child) =>
          match childElement c s (setP cur p)
              (if cur.label.prefixOrdering label = .withZero then Direction.left else .right).other ep with
          | .error e => .error e
          | .ok sib =>
            lcpWalk c s label ep f child (setP cur p)
              (sps ++ [⟨cur.label, sib, if cur.label.prefixOrdering label = .withZero then .left else .right⟩]) :=
  lcpWalk_succ c s label ep f (setP cur p) prev sps

theorem lcpWalk_cases {s s' : NodeStore} {e : Nat} (h : View s s' e) (c : Cfg) (label : NodeLabel) :
    ∀ (fuel : Nat) (cur prev : TreeNode) (sps : List SiblingProof) (p p2 : NodeLabel),
      (∃ x, lcpWalk c s' label e fuel (setP cur p) (setP prev p2) sps = .error x ∧
        lcpWalk c s label e fuel cur prev sps = .error x) ∨
      (∃ cur1 prev1 sps1 eq q q2,
        lcpWalk c s' label e fuel (setP cur p) (setP prev p2) sps = .ok (setP cur1 q, setP prev1 q2, sps1, eq) ∧
        lcpWalk c s label e fuel cur prev sps = .ok (cur1, prev1, sps1, eq)) := by
  intro fuel
  induction fuel with
  | zero => intro cur prev sps p p2; exact .inl ⟨.other, rfl, rfl⟩
  | succ f ih =>
    intro cur prev sps p p2
    rw [lcpWalk_succ_setP, lcpWalk_succ]
    generalize (if cur.label.prefixOrdering label = .withZero then Direction.left else .right) = dir
    by_cases hc : (decide (label = cur.label) || decide (cur.label.prefixOrdering label = .invalid)) = true
    · rw [if_pos hc, if_pos hc]
      exact .inr ⟨cur, prev, sps, _, p, p2, rfl, rfl⟩
    · rw [if_neg hc, if_neg hc, childElement_congr h]
      rcases getChildForProof_cases h cur p dir with ⟨x, h1, h2⟩ | ⟨h1, h2⟩ | ⟨ch, q, h1, h2⟩
      · rw [h1, h2]
        exact .inl ⟨x, rfl, rfl⟩
      · rw [h1, h2]
        exact .inr ⟨cur, prev, sps, _, p, p2, rfl, rfl⟩
      · rw [h1, h2]
        simp only
        cases childElement c s cur dir.other e with
        | error x => exact .inl ⟨x, rfl, rfl⟩
        | ok sib => exact ih ch cur _ q p

theorem hashOf_setP (c : Cfg) (n : TreeNode) (p : NodeLabel) : Gen.hashOf c (setP n p) = Gen.hashOf c n := rfl

theorem lcpProof_congr {s s' : NodeStore} (c : Cfg) (a : Azks) (h : View s s' a.latestEpoch) (label : NodeLabel) :
    s'.lcpProof c a label = s.lcpProof c a label := by
  rw [Gen.lcpProof_eq, Gen.lcpProof_eq]
  rcases view_cases h NodeLabel.root with ⟨x, h1, h2⟩ | ⟨root, p, h1, h2⟩
  · rw [h1, h2]
  · rw [h1, h2]
    simp only
    rcases lcpWalk_cases h c label 300 root root [] p p with
      ⟨x, h3, h4⟩ | ⟨cur1, prev1, sps1, eq, q, q2, h3, h4⟩
    · rw [h3, h4]
    · rw [h3, h4]
      cases eq <;> simp only [Gen.finish, if_true, Bool.false_eq_true, if_false, setP_label, hashOf_setP]

theorem membershipProof_congr {s s' : NodeStore} (c : Cfg) (a : Azks) (h : View s s' a.latestEpoch)
    (label : NodeLabel) : s'.membershipProof c a label = s.membershipProof c a label := by
  unfold membershipProof
  rw [lcpProof_congr c a h]

theorem rootHash_congr {s s' : NodeStore} (c : Cfg) (a : Azks) (h : View s s' a.latestEpoch) :
    s'.rootHash c a = s.rootHash c a := by
  unfold rootHash
  rcases view_cases h NodeLabel.root with ⟨x, h1, h2⟩ | ⟨root, p, h1, h2⟩
  · rw [h1, h2]
  · rw [h1, h2]; rfl

/-! ### the non-membership proof -/

/-- the `childEl` closure of `nonMembershipProof` -/
def nmChild (c : Cfg) (s : NodeStore) (e : Nat) (n : TreeNode) (d : Direction) : Except Err AzksElement :=
  match s.getChildForProof n d e with
  | .error e => .error e
  | .ok none => .ok ⟨c.emptyLabel, c.emptyNodeHash⟩
  | .ok (some ch) =>
    match s.getNode ch.label e with
    | .error e => .error e
    | .ok u => .ok ⟨u.label, nodeToAzksValue c true (some u)⟩

theorem nonMembershipProof_eq (c : Cfg) (s : NodeStore) (a : Azks) (label : NodeLabel) :
    s.nonMembershipProof c a label =
      match s.lcpProof c a label with
      | .error e => .error e
      | .ok (lcpLabel, mp) =>
        match s.getNode lcpLabel a.latestEpoch with
        | .error e => .error e
        | .ok lcpNode =>
          match nmChild c s a.latestEpoch lcpNode .left, nmChild c s a.latestEpoch lcpNode .right with
          | .ok c0, .ok c1 => .ok ⟨label, lcpNode.label, c0, c1, mp⟩
          | .error e, _ => .error e
          | _, .error e => .error e := by
  rfl

theorem nmChild_congr {s s' : NodeStore} {e : Nat} (h : View s s' e) (c : Cfg) (n : TreeNode)
    (p : NodeLabel) (d : Direction) :
    nmChild c s' e (setP n p) d = nmChild c s e n d := by
  unfold nmChild
  rcases getChildForProof_cases h n p d with ⟨x, h1, h2⟩ | ⟨h1, h2⟩ | ⟨ch, q, h1, h2⟩
  · rw [h1, h2]
  · rw [h1, h2]
  · rw [h1, h2]
    simp only [setP_label]
    rcases view_cases h ch.label with ⟨x, h3, h4⟩ | ⟨u, r, h3, h4⟩
    · rw [h3, h4]
    · rw [h3, h4]; rfl

theorem nonMembershipProof_congr {s s' : NodeStore} (c : Cfg) (a : Azks) (h : View s s' a.latestEpoch)
    (label : NodeLabel) : s'.nonMembershipProof c a label = s.nonMembershipProof c a label := by
  rw [nonMembershipProof_eq, nonMembershipProof_eq, lcpProof_congr c a h]
  cases s.lcpProof c a label with
  | error x => rfl
  | ok r =>
    obtain ⟨lcpLabel, mp⟩ := r
    simp only
    rcases view_cases h lcpLabel with ⟨x, h1, h2⟩ | ⟨n, p, h1, h2⟩
    · rw [h1, h2]
    · rw [h1, h2]
      simp only [nmChild_congr h, setP_label]

/-! ### the append-only proof -/

theorem hside_congr {s s' : NodeStore} {latest : Nat} (h : View s s' latest) (c : Cfg) (lo hi fuel : Nat)
    (ih : ∀ (n : TreeNode) (p : NodeLabel),
      appendOnlyHelper c s' latest lo hi fuel (setP n p) = appendOnlyHelper c s latest lo hi fuel n)
    (l : Option NodeLabel) :
    AGen.hside c s' latest lo hi fuel l = AGen.hside c s latest lo hi fuel l := by
  unfold AGen.hside
  cases l with
  | none => rfl
  | some cl =>
    rcases view_cases h cl with ⟨x, h1, h2⟩ | ⟨n, p, h1, h2⟩
    · simp only [h1, h2]
    · simp only [h1, h2, ih]

theorem appendOnlyHelper_congr {s s' : NodeStore} {latest : Nat} (h : View s s' latest) (c : Cfg)
    (lo hi : Nat) : ∀ (fuel : Nat) (n : TreeNode) (p : NodeLabel),
      appendOnlyHelper c s' latest lo hi fuel (setP n p) = appendOnlyHelper c s latest lo hi fuel n := by
  intro fuel
  induction fuel with
  | zero => intro n p; rfl
  | succ f ih =>
    intro n p
    rw [AGen.helper_succ, AGen.helper_succ]
    simp only [setP_lastEpoch, setP_nodeType, setP_label, setP_minDescEpoch, setP_hash, setP_left, setP_right,
      hside_congr h c lo hi f ih]
    rfl

theorem appendOnlyProof_go_congr {s s' : NodeStore} (c : Cfg) (a : Azks) (h : View s s' a.latestEpoch)
    (root : TreeNode) (p : NodeLabel) : ∀ (k ep : Nat) (acc : AppendOnlyProof),
      appendOnlyProof.go c s' a (setP root p) k ep acc = appendOnlyProof.go c s a root k ep acc := by
  intro k
  induction k with
  | zero => intro ep acc; rfl
  | succ k ih =>
    intro ep acc
    unfold appendOnlyProof.go
    rw [appendOnlyHelper_congr h]
    cases appendOnlyHelper c s a.latestEpoch ep (ep + 1) 300 root with
    | error x => rfl
    | ok r => exact ih _ _

theorem appendOnlyProof_congr {s s' : NodeStore} (c : Cfg) (a : Azks) (h : View s s' a.latestEpoch)
    (s0 e0 : Nat) : s'.appendOnlyProof c a s0 e0 = s.appendOnlyProof c a s0 e0 := by
  unfold appendOnlyProof
  split
  · rfl
  · rcases view_cases h NodeLabel.root with ⟨x, h1, h2⟩ | ⟨root, p, h1, h2⟩
    · rw [h1, h2]
    · rw [h1, h2]
      exact appendOnlyProof_go_congr c a h root p _ _ _

end Akd.Part
