/-
Helper lemmas about the canonical trie (`CTrie.lean`) and the leaf-level verifiers.
Pure bit-string / digest level: nothing here depends on the byte-level label facts (C17).
-/
import AkdModel.CTrie
namespace Akd

/-! ### folding sibling proofs -/

theorem foldUp_nil (c : Cfg) (l : NodeLabel) (v : Dig) : foldUp c ⟨l, v, []⟩ = (v, l) := rfl

theorem foldUp_cons (c : Cfg) (l : NodeLabel) (v : Dig) (s : SiblingProof) (rest : List SiblingProof) :
    foldUp c ⟨l, v, s :: rest⟩ = foldStep c (foldUp c ⟨l, v, rest⟩) s := by
  simp [foldUp, List.foldl_append]

/-! ### bit-string prefixes -/

theorem BitStr.isPrefix_iff (a b : BitStr) : BitStr.isPrefix a b = true ↔ a <+: b := by
  simp only [BitStr.isPrefix, Bool.and_eq_true, decide_eq_true_eq, beq_iff_eq]
  constructor
  · rintro ⟨_, h⟩
    exact h ▸ List.take_prefix _ _
  · intro h
    exact ⟨h.length_le, List.prefix_iff_eq_take.mp h |>.symm⟩

theorem BitStr.prefix_snoc_getElem? {q x : BitStr} {b : Bool} (h : (q ++ [b]) <+: x) :
    x[q.length]? = some b := by
  obtain ⟨t, rfl⟩ := h
  simp

theorem BitStr.prefix_of_snoc {q x : BitStr} {b : Bool} (h : (q ++ [b]) <+: x) : q <+: x :=
  (List.prefix_append q [b]).trans h

theorem BitStr.commonPrefix_fork (q a b : BitStr) (ha : (q ++ [false]) <+: a) (hb : (q ++ [true]) <+: b) :
    BitStr.commonPrefix a b = q := by
  obtain ⟨s, rfl⟩ := ha
  obtain ⟨t, rfl⟩ := hb
  induction q with
  | nil => simp [BitStr.commonPrefix]
  | cons x q ih => simpa [BitStr.commonPrefix] using ih

namespace CTree

/-! ### subtrees -/

/-- `Sub s a`: `s` is a subtree of `a` -/
inductive Sub (s : CTree) : CTree → Prop
  | refl : Sub s s
  | left (q : BitStr) {l : CTree} (r : CTree) : Sub s l → Sub s (node q l r)
  | right (q : BitStr) (l : CTree) {r : CTree} : Sub s r → Sub s (node q l r)

theorem leaves_ne_nil (a : CTree) : a.leaves ≠ [] := by
  induction a with
  | leaf q v e => simp [leaves]
  | node q l r ihl _ => simp [leaves, ihl]

theorem WF.sub {s a : CTree} (h : Sub s a) (hwf : a.WF) : s.WF := by
  induction h with
  | refl => exact hwf
  | left q r _ ih => exact ih hwf.2.2.1
  | right q l _ ih => exact ih hwf.2.2.2

theorem WF.sub_prefix {s a : CTree} (h : Sub s a) (hwf : a.WF) : a.lbl <+: s.lbl := by
  induction h with
  | refl => exact List.prefix_refl _
  | left q r _ ih => exact (BitStr.prefix_of_snoc hwf.1).trans (ih hwf.2.2.1)
  | right q l _ ih => exact (BitStr.prefix_of_snoc hwf.2.1).trans (ih hwf.2.2.2)

theorem WF.leaf_prefix {a : CTree} (hwf : a.WF) {lf : Leaf} (h : lf ∈ a.leaves) : a.lbl <+: lf.lbl := by
  induction a with
  | leaf q v e =>
    simp [leaves] at h
    subst h
    exact List.prefix_refl _
  | node q l r ihl ihr =>
    simp only [leaves, List.mem_append] at h
    rcases h with h | h
    · exact (BitStr.prefix_of_snoc hwf.1).trans (ihl hwf.2.2.1 h)
    · exact (BitStr.prefix_of_snoc hwf.2.1).trans (ihr hwf.2.2.2 h)

theorem Sub.leaves_subset {s a : CTree} (h : Sub s a) {lf : Leaf} (hl : lf ∈ s.leaves) : lf ∈ a.leaves := by
  induction h with
  | refl => exact hl
  | left q r _ ih => exact List.mem_append_left _ ih
  | right q l _ ih => exact List.mem_append_right _ ih

/-- two bit strings extending `q` with different bits have no common extension -/
theorem fork_absurd {q x : BitStr} (h0 : (q ++ [false]) <+: x) (h1 : (q ++ [true]) <+: x) : False := by
  have a := BitStr.prefix_snoc_getElem? h0
  have b := BitStr.prefix_snoc_getElem? h1
  simp [a] at b

/-- in a well-formed tree a leaf whose label extends a subtree's label lies in that subtree -/
theorem WF.sub_leaves {s a : CTree} (h : Sub s a) (hwf : a.WF) {lf : Leaf} (hl : lf ∈ a.leaves)
    (hp : s.lbl <+: lf.lbl) : lf ∈ s.leaves := by
  induction h with
  | refl => exact hl
  | @left q l r hs ih =>
    simp only [leaves, List.mem_append] at hl
    rcases hl with hl | hl
    · exact ih hwf.2.2.1 hl
    · exfalso
      have h1 : (q ++ [true]) <+: lf.lbl := hwf.2.1.trans (WF.leaf_prefix hwf.2.2.2 hl)
      have h0 : (q ++ [false]) <+: lf.lbl := (hwf.1.trans (WF.sub_prefix hs hwf.2.2.1)).trans hp
      exact fork_absurd h0 h1
  | @right q l r hs ih =>
    simp only [leaves, List.mem_append] at hl
    rcases hl with hl | hl
    · exfalso
      have h0 : (q ++ [false]) <+: lf.lbl := hwf.1.trans (WF.leaf_prefix hwf.2.2.1 hl)
      have h1 : (q ++ [true]) <+: lf.lbl := (hwf.2.1.trans (WF.sub_prefix hs hwf.2.2.2)).trans hp
      exact fork_absurd h0 h1
    · exact ih hwf.2.2.2 hl

/-- with 256-bit leaves every label in a well-formed tree has at most 256 bits -/
theorem WF.lbl_length_le {a : CTree} (hwf : a.WF) (h256 : ∀ lf ∈ a.leaves, lf.lbl.length = 256) :
    a.lbl.length ≤ 256 := by
  obtain ⟨lf, hlf⟩ := List.exists_mem_of_ne_nil _ (leaves_ne_nil a)
  have := (WF.leaf_prefix hwf hlf).length_le
  rw [h256 lf hlf] at this
  exact this

/-- … and interior labels are strictly shorter -/
theorem WF.node_length_lt {q : BitStr} {l r : CTree} (hwf : (node q l r).WF)
    (h256 : ∀ lf ∈ (node q l r).leaves, lf.lbl.length = 256) : q.length < 256 := by
  have hl : l.lbl.length ≤ 256 :=
    WF.lbl_length_le hwf.2.2.1 (fun lf h => h256 lf (List.mem_append_left _ h))
  have := hwf.1.length_le
  simp at this
  omega

end CTree

end Akd
