/-
Helper lemmas about the canonical trie (`CTrie.lean`) and the leaf-level verifiers.
Pure bit-string / digest level: nothing here depends on the byte-level label facts (C17).
-/
import AkdModel.CTrie
namespace Akd

/-! ### folding sibling proofs -/

theorem foldUp_nil (c : Cfg) (l : NodeLabel) (v : Dig) : foldUp c ⟨l, v, []⟩ = (v, l) := rfl

theorem foldUp_cons (c : Cfg) (l : NodeLabel) (v : Dig) (s : SiblingProof) (rest : List SiblingProof) :
    foldUp c ⟨l, v, s :: rest⟩ = foldStep c (foldUp c ⟨l, v, rest⟩) s := by
  simp [foldUp, List.foldl_append]

/-! ### bit-string prefixes -/

theorem BitStr.isPrefix_iff (a b : BitStr) : BitStr.isPrefix a b = true ↔ a <+: b := by
  simp only [BitStr.isPrefix, Bool.and_eq_true, decide_eq_true_eq, beq_iff_eq]
  constructor
  · rintro ⟨_, h⟩
    exact h ▸ List.take_prefix _ _
  · intro h
    exact ⟨h.length_le, List.prefix_iff_eq_take.mp h |>.symm⟩

theorem BitStr.prefix_snoc_getElem? {q x : BitStr} {b : Bool} (h : (q ++ [b]) <+: x) :
    x[q.length]? = some b := by
  obtain ⟨t, rfl⟩ := h
  simp

theorem BitStr.prefix_of_snoc {q x : BitStr} {b : Bool} (h : (q ++ [b]) <+: x) : q <+: x :=
  (List.prefix_append q [b]).trans h

theorem BitStr.commonPrefix_fork (q a b : BitStr) (ha : (q ++ [false]) <+: a) (hb : (q ++ [true]) <+: b) :
    BitStr.commonPrefix a b = q := by
  obtain ⟨s, rfl⟩ := ha
  obtain ⟨t, rfl⟩ := hb
  induction q with
  | nil => simp [BitStr.commonPrefix]
  | cons x q ih => simpa [BitStr.commonPrefix] using ih

namespace CTree

/-! ### subtrees -/

/-- `Sub s a`: `s` is a subtree of `a` -/
inductive Sub (s : CTree) : CTree → Prop
  | refl : Sub s s
  | left (q : BitStr) {l : CTree} (r : CTree) : Sub s l → Sub s (node q l r)
  | right (q : BitStr) (l : CTree) {r : CTree} : Sub s r → Sub s (node q l r)

theorem leaves_ne_nil (a : CTree) : a.leaves ≠ [] := by
  induction a with
  | leaf q v e => simp [leaves]
  | node q l r ihl _ => simp [leaves, ihl]

theorem WF.sub {s a : CTree} (h : Sub s a) (hwf : a.WF) : s.WF := by
  induction h with
  | refl => exact hwf
  | left q r _ ih => exact ih hwf.2.2.1
  | right q l _ ih => exact ih hwf.2.2.2

theorem WF.sub_prefix {s a : CTree} (h : Sub s a) (hwf : a.WF) : a.lbl <+: s.lbl := by
  induction h with
  | refl => exact List.prefix_refl _
  | left q r _ ih => exact (BitStr.prefix_of_snoc hwf.1).trans (ih hwf.2.2.1)
  | right q l _ ih => exact (BitStr.prefix_of_snoc hwf.2.1).trans (ih hwf.2.2.2)

theorem WF.leaf_prefix {a : CTree} (hwf : a.WF) {lf : Leaf} (h : lf ∈ a.leaves) : a.lbl <+: lf.lbl := by
  induction a with
  | leaf q v e =>
    simp [leaves] at h
    subst h
    exact List.prefix_refl _
  | node q l r ihl ihr =>
    simp only [leaves, List.mem_append] at h
    rcases h with h | h
    · exact (BitStr.prefix_of_snoc hwf.1).trans (ihl hwf.2.2.1 h)
    · exact (BitStr.prefix_of_snoc hwf.2.1).trans (ihr hwf.2.2.2 h)

theorem Sub.leaves_subset {s a : CTree} (h : Sub s a) {lf : Leaf} (hl : lf ∈ s.leaves) : lf ∈ a.leaves := by
  induction h with
  | refl => exact hl
  | left q r _ ih => exact List.mem_append_left _ ih
  | right q l _ ih => exact List.mem_append_right _ ih

/-- two bit strings extending `q` with different bits have no common extension -/
theorem fork_absurd {q x : BitStr} (h0 : (q ++ [false]) <+: x) (h1 : (q ++ [true]) <+: x) : False := by
  have a := BitStr.prefix_snoc_getElem? h0
  have b := BitStr.prefix_snoc_getElem? h1
  simp [a] at b

/-- in a well-formed tree a leaf whose label extends a subtree's label lies in that subtree -/
theorem WF.sub_leaves {s a : CTree} (h : Sub s a) (hwf : a.WF) {lf : Leaf} (hl : lf ∈ a.leaves)
    (hp : s.lbl <+: lf.lbl) : lf ∈ s.leaves := by
  induction h with
  | refl => exact hl
  | @left q l r hs ih =>
    simp only [leaves, List.mem_append] at hl
    rcases hl with hl | hl
    · exact ih hwf.2.2.1 hl
    · exfalso
      have h1 : (q ++ [true]) <+: lf.lbl := hwf.2.1.trans (WF.leaf_prefix hwf.2.2.2 hl)
      have h0 : (q ++ [false]) <+: lf.lbl := (hwf.1.trans (WF.sub_prefix hs hwf.2.2.1)).trans hp
      exact fork_absurd h0 h1
  | @right q l r hs ih =>
    simp only [leaves, List.mem_append] at hl
    rcases hl with hl | hl
    · exfalso
      have h0 : (q ++ [false]) <+: lf.lbl := hwf.1.trans (WF.leaf_prefix hwf.2.2.1 hl)
      have h1 : (q ++ [true]) <+: lf.lbl := (hwf.2.1.trans (WF.sub_prefix hs hwf.2.2.2)).trans hp
      exact fork_absurd h0 h1
    · exact ih hwf.2.2.2 hl

/-- with 256-bit leaves every label in a well-formed tree has at most 256 bits -/
theorem WF.lbl_length_le {a : CTree} (hwf : a.WF) (h256 : ∀ lf ∈ a.leaves, lf.lbl.length = 256) :
    a.lbl.length ≤ 256 := by
  obtain ⟨lf, hlf⟩ := List.exists_mem_of_ne_nil _ (leaves_ne_nil a)
  have := (WF.leaf_prefix hwf hlf).length_le
  rw [h256 lf hlf] at this
  exact this

/-- … and interior labels are strictly shorter -/
theorem WF.node_length_lt {q : BitStr} {l r : CTree} (hwf : (node q l r).WF)
    (h256 : ∀ lf ∈ (node q l r).leaves, lf.lbl.length = 256) : q.length < 256 := by
  have hl : l.lbl.length ≤ 256 :=
    WF.lbl_length_le hwf.2.2.1 (fun lf h => h256 lf (List.mem_append_left _ h))
  have := hwf.1.length_le
  simp at this
  omega

/-! ### the honest walk -/

theorem foldUp_path (c : Cfg) (x : BitStr) (a : CTree) :
    foldUp c ⟨NodeLabel.ofBits (a.path c x).1.lbl, (a.path c x).1.azks c .withLeafEpoch, (a.path c x).2⟩
      = (a.azks c .withLeafEpoch, NodeLabel.ofBits a.lbl) := by
  induction a with
  | leaf q v e => rfl
  | node q l r ihl ihr =>
    unfold path
    split
    · rfl
    · split
      · simp only [foldUp_cons, ihl]
        rfl
      · rfl
    · split
      · simp only [foldUp_cons, ihr]
        rfl
      · rfl

theorem path_sub (c : Cfg) (x : BitStr) (a : CTree) : Sub (a.path c x).1 a := by
  induction a with
  | leaf q v e => exact Sub.refl
  | node q l r ihl ihr =>
    unfold path
    split
    · exact Sub.refl
    · split
      · exact Sub.left _ _ ihl
      · exact Sub.refl
    · split
      · exact Sub.right _ _ ihr
      · exact Sub.refl

theorem path_prefix (c : Cfg) (x : BitStr) (a : CTree) (h : a.lbl <+: x) : (a.path c x).1.lbl <+: x := by
  induction a with
  | leaf q v e => exact h
  | node q l r ihl ihr =>
    unfold path
    split
    · exact h
    · split
      · rename_i hp; exact ihl ((BitStr.isPrefix_iff _ _).mp hp)
      · exact h
    · split
      · rename_i hp; exact ihr ((BitStr.isPrefix_iff _ _).mp hp)
      · exact h

/-- where the walk stops at an interior node, neither child's label is a prefix of the query -/
theorem path_stop (c : Cfg) (x : BitStr) (a : CTree) (hwf : a.WF) {q : BitStr} {l r : CTree}
    (h : (a.path c x).1 = node q l r) : ¬ l.lbl <+: x ∧ ¬ r.lbl <+: x := by
  induction a with
  | leaf q' v e => simp [path] at h
  | node q' l' r' ihl ihr =>
    have stop : ∀ (hx : x[q'.length]? ≠ some false ∨ ¬ l'.lbl <+: x)
        (hx' : x[q'.length]? ≠ some true ∨ ¬ r'.lbl <+: x), node q' l' r' = node q l r →
        ¬ l.lbl <+: x ∧ ¬ r.lbl <+: x := by
      intro hx hx' e
      injection e with e1 e2 e3
      subst e1 e2 e3
      constructor
      · intro hp
        have := BitStr.prefix_snoc_getElem? (hwf.1.trans hp)
        rcases hx with hx | hx
        · exact hx this
        · exact hx hp
      · intro hp
        have := BitStr.prefix_snoc_getElem? (hwf.2.1.trans hp)
        rcases hx' with hx' | hx'
        · exact hx' this
        · exact hx' hp
    unfold path at h
    split at h
    · rename_i hn
      exact stop (by simp [hn]) (by simp [hn]) h
    · rename_i hn
      split at h
      · exact ihl hwf.2.2.1 h
      · rename_i hp
        exact stop (Or.inr (by rwa [← BitStr.isPrefix_iff])) (by simp [hn]) h
    · rename_i hn
      split at h
      · exact ihr hwf.2.2.2 h
      · rename_i hp
        exact stop (by simp [hn]) (Or.inr (by rwa [← BitStr.isPrefix_iff])) h

/-- the walk towards a leaf of a well-formed tree ends at that leaf -/
theorem path_leaf (c : Cfg) (a : CTree) (hwf : a.WF) (lf : Leaf) (h : lf ∈ a.leaves) :
    (a.path c lf.lbl).1 = leaf lf.lbl lf.value lf.ep := by
  induction a with
  | leaf q v e =>
    simp [leaves] at h
    subst h
    rfl
  | node q l r ihl ihr =>
    simp only [leaves, List.mem_append] at h
    unfold path
    rcases h with h | h
    · have hp := WF.leaf_prefix hwf.2.2.1 h
      have hb := BitStr.prefix_snoc_getElem? (hwf.1.trans hp)
      simp only [hb, (BitStr.isPrefix_iff _ _).mpr hp, if_true]
      exact ihl hwf.2.2.1 h
    · have hp := WF.leaf_prefix hwf.2.2.2 h
      have hb := BitStr.prefix_snoc_getElem? (hwf.2.1.trans hp)
      simp only [hb, (BitStr.isPrefix_iff _ _).mpr hp, if_true]
      exact ihr hwf.2.2.2 h

end CTree

/-! ### the honest walk from the root; completeness of the fold -/
namespace CRoot

theorem value_some_left (c : Cfg) (m : HashMode) (a : CTree) (r : Option CTree) :
    value c m ⟨some a, r⟩ = c.parentHash (a.azks c m) (NodeLabel.ofBits a.lbl) (childValue c m r) (childLabel c r) := by
  cases r <;> rfl

theorem value_some_right (c : Cfg) (m : HashMode) (l : Option CTree) (b : CTree) :
    value c m ⟨l, some b⟩ = c.parentHash (childValue c m l) (childLabel c l) (b.azks c m) (NodeLabel.ofBits b.lbl) := by
  cases l <;> rfl

/-- the child slot on the side of bit `b`, the other slot, and the direction recorded -/
def side (t : CRoot) (b : Bool) : Option CTree × Option CTree × Direction :=
  if b then (t.r, t.l, Direction.right) else (t.l, t.r, Direction.left)

theorem path_nil (c : Cfg) (t : CRoot) : t.path c [] = (none, []) := rfl

theorem path_cons_none (c : Cfg) (t : CRoot) (b : Bool) (x : BitStr) (h : (t.side b).1 = none) :
    t.path c (b :: x) = (none, []) := by
  simp only [side] at h
  simp only [path, h]

theorem path_cons_some (c : Cfg) (t : CRoot) (b : Bool) (x : BitStr) (a : CTree) (h : (t.side b).1 = some a) :
    t.path c (b :: x) =
      if BitStr.isPrefix a.lbl (b :: x) then
        (some (a.path c (b :: x)).1,
          ⟨NodeLabel.root, element c (t.side b).2.1, (t.side b).2.2⟩ :: (a.path c (b :: x)).2)
      else (none, []) := by
  simp only [side] at h
  simp only [path, h, side]

theorem foldStep_side (c : Cfg) (t : CRoot) (b : Bool) (a : CTree) (h : (t.side b).1 = some a) :
    foldStep c (a.azks c .withLeafEpoch, NodeLabel.ofBits a.lbl)
        ⟨NodeLabel.root, element c (t.side b).2.1, (t.side b).2.2⟩
      = (t.value c .withLeafEpoch, NodeLabel.root) := by
  obtain ⟨tl, tr⟩ := t
  cases b
  · simp only [side, Bool.false_eq_true, if_false] at h ⊢
    subst h
    rw [value_some_left]; rfl
  · simp only [side, if_true] at h ⊢
    subst h
    rw [value_some_right]; rfl

theorem foldUp_lcpProof (c : Cfg) (t : CRoot) (x : BitStr) :
    foldUp c (t.lcpProof c x) = (t.value c .withLeafEpoch, NodeLabel.root) := by
  cases x with
  | nil => rfl
  | cons b x =>
    cases hs : (t.side b).1 with
    | none => simp only [lcpProof, path_cons_none c t b x hs]; rfl
    | some a =>
      by_cases hp : BitStr.isPrefix a.lbl (b :: x) = true
      · simp only [lcpProof, path_cons_some c t b x a hs, hp, if_true, foldUp_cons,
          CTree.foldUp_path, foldStep_side c t b a hs]
      · simp only [lcpProof, path_cons_some c t b x a hs, hp]; rfl

end CRoot
/-! ### soundness of the fold -/

theorem foldStep_fst_left (c : Cfg) (st : Dig × NodeLabel) (sp : SiblingProof) (h : sp.direction = .left) :
    (foldStep c st sp).1 = c.parentHash st.1 st.2 sp.sibling.value sp.sibling.label := by
  simp [foldStep, h]

theorem foldStep_fst_right (c : Cfg) (st : Dig × NodeLabel) (sp : SiblingProof) (h : sp.direction = .right) :
    (foldStep c st sp).1 = c.parentHash sp.sibling.value sp.sibling.label st.1 st.2 := by
  simp [foldStep, h]

/-- the digest after at least one fold step is a parent hash one of whose sides is the previous state -/
theorem foldStep_fst_cases (c : Cfg) (st : Dig × NodeLabel) (sp : SiblingProof) :
    (∃ v l, (foldStep c st sp).1 = c.parentHash st.1 st.2 v l) ∨
    (∃ v l, (foldStep c st sp).1 = c.parentHash v l st.1 st.2) := by
  cases h : sp.direction
  · exact Or.inl ⟨_, _, foldStep_fst_left c st sp h⟩
  · exact Or.inr ⟨_, _, foldStep_fst_right c st sp h⟩

namespace CTree

/-- soundness below a subtree: if folding sibling proofs from `(v, lbl)` reaches the digest of `a`,
then `(lbl, v)` is the element of a subtree of `a` -/
theorem sound_sub (c : Cfg) (hc : c.Lawful) (lbl : NodeLabel) (v : Dig) (sps : List SiblingProof) :
    ∀ a : CTree, foldUp c ⟨lbl, v, sps⟩ = (a.azks c .withLeafEpoch, NodeLabel.ofBits a.lbl) →
      ∃ s, Sub s a ∧ lbl = NodeLabel.ofBits s.lbl ∧ v = s.azks c .withLeafEpoch := by
  induction sps with
  | nil =>
    intro a h
    rw [foldUp_nil] at h
    injection h with h1 h2
    exact ⟨a, Sub.refl, h2, h1⟩
  | cons sp rest ih =>
    intro a h
    rw [foldUp_cons] at h
    have h1 := congrArg Prod.fst h
    simp only at h1
    cases a with
    | leaf q w e =>
      exfalso
      rcases foldStep_fst_cases c (foldUp c ⟨lbl, v, rest⟩) sp with ⟨v', l', e'⟩ | ⟨v', l', e'⟩ <;>
      · rw [e'] at h1
        exact hc.leaf_ne_parent _ _ _ _ _ _ h1.symm
    | node q l r =>
      simp only [azks] at h1
      rcases foldStep_fst_cases c (foldUp c ⟨lbl, v, rest⟩) sp with ⟨v', l', e'⟩ | ⟨v', l', e'⟩
      · rw [e'] at h1
        obtain ⟨a1, a2, -, -⟩ := hc.parent_inj _ _ _ _ _ _ _ _ h1
        obtain ⟨s, hs, hl, hv⟩ := ih l (Prod.ext a1 a2)
        exact ⟨s, Sub.left _ _ hs, hl, hv⟩
      · rw [e'] at h1
        obtain ⟨-, -, a1, a2⟩ := hc.parent_inj _ _ _ _ _ _ _ _ h1
        obtain ⟨s, hs, hl, hv⟩ := ih r (Prod.ext a1 a2)
        exact ⟨s, Sub.right _ _ hs, hl, hv⟩

end CTree

namespace CRoot

/-- `a` is a child of the root -/
def Child (t : CRoot) (a : CTree) : Prop := t.l = some a ∨ t.r = some a

theorem value_eq_parent (c : Cfg) (m : HashMode) (t : CRoot) (h : t.l ≠ none ∨ t.r ≠ none) :
    t.value c m = c.parentHash (childValue c m t.l) (childLabel c t.l) (childValue c m t.r) (childLabel c t.r) := by
  obtain ⟨tl, tr⟩ := t
  cases tl <;> cases tr <;> simp_all [value]

theorem value_empty (c : Cfg) (m : HashMode) (t : CRoot) (h : t.l = none ∧ t.r = none) :
    t.value c m = c.emptyRootValue := by
  obtain ⟨tl, tr⟩ := t
  obtain ⟨rfl, rfl⟩ := h
  rfl

/-- soundness below a child slot of the root -/
theorem sound_slot (c : Cfg) (hc : c.Lawful) (o : Option CTree) (lbl : NodeLabel) (v : Dig)
    (sps : List SiblingProof)
    (h : foldUp c ⟨lbl, v, sps⟩ = (childValue c .withLeafEpoch o, childLabel c o)) :
    (o = none ∧ lbl = c.emptyLabel ∧ v = c.emptyNodeHash) ∨
    (∃ a s, o = some a ∧ CTree.Sub s a ∧ lbl = NodeLabel.ofBits s.lbl ∧ v = s.azks c .withLeafEpoch) := by
  cases o with
  | some a =>
    obtain ⟨s, hs, hl, hv⟩ := CTree.sound_sub c hc lbl v sps a h
    exact Or.inr ⟨a, s, rfl, hs, hl, hv⟩
  | none =>
    left
    cases sps with
    | nil =>
      rw [foldUp_nil] at h
      injection h with h1 h2
      exact ⟨rfl, h2, h1⟩
    | cons sp rest =>
      exfalso
      rw [foldUp_cons] at h
      have h1 := congrArg Prod.fst h
      simp only [childValue] at h1
      rcases foldStep_fst_cases c (foldUp c ⟨lbl, v, rest⟩) sp with ⟨v', l', e'⟩ | ⟨v', l', e'⟩ <;>
      · rw [e'] at h1
        exact hc.parent_ne_emptyNode _ _ _ _ h1

/-- what a proof whose fold reaches the root value can be about -/
theorem sound_cases (c : Cfg) (hc : c.Lawful) (t : CRoot) (π : MembershipProof)
    (h : (foldUp c π).1 = t.value c .withLeafEpoch) :
    (π.siblingProofs = [] ∧ π.hashVal = t.value c .withLeafEpoch) ∨
    (∃ o, (o = t.l ∨ o = t.r) ∧
      ((o = none ∧ π.label = c.emptyLabel ∧ π.hashVal = c.emptyNodeHash) ∨
       (∃ a s, o = some a ∧ CTree.Sub s a ∧ π.label = NodeLabel.ofBits s.lbl ∧
          π.hashVal = s.azks c .withLeafEpoch))) := by
  obtain ⟨lbl, v, sps⟩ := π
  cases sps with
  | nil => exact Or.inl ⟨rfl, h⟩
  | cons sp rest =>
    right
    rw [foldUp_cons] at h
    by_cases he : t.l = none ∧ t.r = none
    · exfalso
      rw [value_empty c _ t he] at h
      rcases foldStep_fst_cases c (foldUp c ⟨lbl, v, rest⟩) sp with ⟨v', l', e'⟩ | ⟨v', l', e'⟩ <;>
      · rw [e'] at h
        exact hc.parent_ne_emptyRoot _ _ _ _ h
    · have he' : t.l ≠ none ∨ t.r ≠ none := by
        by_cases h1 : t.l = none
        · exact Or.inr (fun h2 => he ⟨h1, h2⟩)
        · exact Or.inl h1
      rw [value_eq_parent c _ t he'] at h
      rcases foldStep_fst_cases c (foldUp c ⟨lbl, v, rest⟩) sp with ⟨v', l', e'⟩ | ⟨v', l', e'⟩
      · rw [e'] at h
        obtain ⟨a1, a2, -, -⟩ := hc.parent_inj _ _ _ _ _ _ _ _ h
        exact ⟨t.l, Or.inl rfl, sound_slot c hc t.l lbl v rest (Prod.ext a1 a2)⟩
      · rw [e'] at h
        obtain ⟨-, -, a1, a2⟩ := hc.parent_inj _ _ _ _ _ _ _ _ h
        exact ⟨t.r, Or.inr rfl, sound_slot c hc t.r lbl v rest (Prod.ext a1 a2)⟩

end CRoot
/-! ### the walk from a well-formed root -/
namespace CRoot

theorem child_iff_side {t : CRoot} {a : CTree} : t.Child a ↔ ∃ b, (t.side b).1 = some a := by
  constructor
  · rintro (h | h)
    · exact ⟨false, by simpa [side] using h⟩
    · exact ⟨true, by simpa [side] using h⟩
  · rintro ⟨b, h⟩
    cases b
    · exact Or.inl (by simpa [side] using h)
    · exact Or.inr (by simpa [side] using h)

theorem side_other (t : CRoot) (b : Bool) : (t.side b).2.1 = (t.side (!b)).1 := by
  cases b <;> rfl

theorem WF.side {t : CRoot} (hwf : t.WF) {b : Bool} {a : CTree} (h : (t.side b).1 = some a) :
    [b] <+: a.lbl ∧ a.WF := by
  cases b
  · exact hwf.1 a (by simpa [CRoot.side] using h)
  · exact hwf.2 a (by simpa [CRoot.side] using h)

theorem WF.child {t : CRoot} (hwf : t.WF) {a : CTree} (h : t.Child a) : a.WF := by
  obtain ⟨b, hb⟩ := child_iff_side.mp h
  exact (hwf.side hb).2

theorem mem_leaves {t : CRoot} {lf : Leaf} : lf ∈ t.leaves ↔ ∃ a, t.Child a ∧ lf ∈ a.leaves := by
  obtain ⟨tl, tr⟩ := t
  cases tl <;> cases tr <;> simp [leaves, Child]

/-- a child of a well-formed root whose label is a prefix of `b :: x` sits on side `b` -/
theorem WF.side_of_prefix {t : CRoot} (hwf : t.WF) {a : CTree} (h : t.Child a) {b : Bool} {x : BitStr}
    (hp : a.lbl <+: b :: x) : (t.side b).1 = some a := by
  obtain ⟨b', hb'⟩ := child_iff_side.mp h
  have h1 := ((hwf.side hb').1.trans hp)
  have : b' = b := by simpa using h1
  exact this ▸ hb'

/-- the walk from a well-formed root: either it stays at the root and no child's label is a prefix
of the query, or it enters the child whose label is a prefix of the query -/
theorem path_fst (c : Cfg) (t : CRoot) (hwf : t.WF) (x : BitStr) :
    ((t.path c x).1 = none ∧ ∀ a, t.Child a → ¬ a.lbl <+: x) ∨
    (∃ a, t.Child a ∧ a.lbl <+: x ∧ (t.path c x).1 = some (a.path c x).1) := by
  cases x with
  | nil =>
    left
    refine ⟨rfl, fun a ha hp => ?_⟩
    obtain ⟨b, hb⟩ := child_iff_side.mp ha
    have := ((hwf.side hb).1.trans hp).length_le
    simp at this
  | cons b x =>
    cases hs : (t.side b).1 with
    | none =>
      left
      refine ⟨by rw [path_cons_none c t b x hs], fun a ha hp => ?_⟩
      rw [hwf.side_of_prefix ha hp] at hs
      cases hs
    | some a =>
      by_cases hp : BitStr.isPrefix a.lbl (b :: x) = true
      · right
        refine ⟨a, child_iff_side.mpr ⟨b, hs⟩, (BitStr.isPrefix_iff _ _).mp hp, ?_⟩
        rw [path_cons_some c t b x a hs, if_pos hp]
      · left
        refine ⟨by rw [path_cons_some c t b x a hs, if_neg hp], fun a' ha' hp' => ?_⟩
        rw [hwf.side_of_prefix ha' hp'] at hs
        cases hs
        exact hp ((BitStr.isPrefix_iff _ _).mpr hp')

/-- for a member the proof generated is about that leaf -/
theorem lcpProof_leaf (c : Cfg) (t : CRoot) (hwf : t.WF) (lf : Leaf) (h : lf ∈ t.leaves) :
    (t.lcpProof c lf.lbl).label = NodeLabel.ofBits lf.lbl ∧
    (t.lcpProof c lf.lbl).hashVal = c.leafHash lf.value lf.ep := by
  obtain ⟨a, ha, hl⟩ := mem_leaves.mp h
  have hp := CTree.WF.leaf_prefix (hwf.child ha) hl
  rcases path_fst c t hwf lf.lbl with ⟨-, hn⟩ | ⟨a', ha', hp', he⟩
  · exact absurd hp (hn a ha)
  · have : a' = a := by
      cases hx : lf.lbl with
      | nil =>
        obtain ⟨b, hb⟩ := child_iff_side.mp ha
        have := ((hwf.side hb).1.trans hp).length_le
        simp [hx] at this
      | cons b x =>
        rw [hx] at hp hp'
        have h1 := hwf.side_of_prefix ha hp
        have h2 := hwf.side_of_prefix ha' hp'
        rw [h1] at h2
        exact (Option.some.inj h2).symm
    subst this
    rw [CTree.path_leaf c a' (hwf.child ha) lf hl] at he
    unfold lcpProof
    generalize t.path c lf.lbl = p at he
    obtain ⟨p1, p2⟩ := p
    simp only at he
    subst he
    exact ⟨rfl, rfl⟩

end CRoot
namespace CRoot

/-- at most one child of a well-formed root has a label that is a prefix of a given string -/
theorem WF.child_unique {t : CRoot} (hwf : t.WF) {a a' : CTree} (h : t.Child a) (h' : t.Child a')
    {x : BitStr} (hp : a.lbl <+: x) (hp' : a'.lbl <+: x) : a = a' := by
  cases x with
  | nil =>
    obtain ⟨b, hb⟩ := child_iff_side.mp h
    have := ((hwf.side hb).1.trans hp).length_le
    simp at this
  | cons b x =>
    have h1 := hwf.side_of_prefix h hp
    have h2 := hwf.side_of_prefix h' hp'
    rw [h1] at h2
    exact Option.some.inj h2

end CRoot

/-! ### the non-membership verifier and generator, unfolded -/

/-- the label `verify_nonmembership` recomputes for the anchor from the two children -/
def lcpChildren (c : Cfg) (p : NonMembershipProof) : NodeLabel :=
  if NodeLabel.lcp c.emptyLabel p.child0.label p.child1.label = c.emptyLabel then NodeLabel.root
  else NodeLabel.lcp c.emptyLabel p.child0.label p.child1.label

theorem nonMembershipShape_iff (c : Cfg) (p : NonMembershipProof) :
    nonMembershipShape c p = true ↔
      p.label ≠ p.child0.label ∧ p.label ≠ p.child1.label ∧
      p.longestPrefix.isPrefixOf p.label = true ∧
      p.longestPrefix = lcpChildren c p ∧
      lcpChildren c p = p.longestPrefixMembershipProof.label ∧
      c.parentHash p.child0.value p.child0.label p.child1.value p.child1.label
        = p.longestPrefixMembershipProof.hashVal := by
  unfold nonMembershipShape lcpChildren
  by_cases h1 : p.label = p.child0.label
  · simp [h1]
  by_cases h2 : p.label = p.child1.label
  · simp [h2]
  by_cases h3 : p.longestPrefix.isPrefixOf p.label = true
  · simp [h1, h2, h3]
  · simp [h1, h2, h3]

theorem childrenNotPrefix_iff (c : Cfg) (p : NonMembershipProof) :
    childrenNotPrefix c p = true ↔
      (p.child0.label ≠ c.emptyLabel → p.child0.label.isPrefixOf p.label ≠ true) ∧
      (p.child1.label ≠ c.emptyLabel → p.child1.label.isPrefixOf p.label ≠ true) := by
  simp [childrenNotPrefix, Decidable.or_iff_not_imp_left]

namespace CRoot

theorem genNonMembership_mp (c : Cfg) (t : CRoot) (x : BitStr) :
    (t.genNonMembership c x).longestPrefixMembershipProof = t.lcpProof c x := by
  unfold genNonMembership
  split
  rfl

theorem genNonMembership_none (c : Cfg) (t : CRoot) (x : BitStr) (h : (t.path c x).1 = none) :
    t.genNonMembership c x =
      ⟨NodeLabel.ofBits x, NodeLabel.root, element c t.l, element c t.r,
        ⟨NodeLabel.root, t.value c .withLeafEpoch, (t.path c x).2⟩⟩ := by
  unfold genNonMembership lcpProof
  generalize t.path c x = p at h
  obtain ⟨p1, p2⟩ := p
  simp only at h
  subst h
  rfl

theorem genNonMembership_node (c : Cfg) (t : CRoot) (x : BitStr) {q : BitStr} {l r : CTree}
    (h : (t.path c x).1 = some (.node q l r)) :
    t.genNonMembership c x =
      ⟨NodeLabel.ofBits x, NodeLabel.ofBits q, l.element c, r.element c,
        ⟨NodeLabel.ofBits q, (CTree.node q l r).azks c .withLeafEpoch, (t.path c x).2⟩⟩ := by
  unfold genNonMembership lcpProof
  generalize t.path c x = p at h
  obtain ⟨p1, p2⟩ := p
  simp only at h
  subst h
  rfl

end CRoot
/-! ### the membership verifier, unfolded -/
namespace CRoot

theorem verifyMembership_lcpProof (c : Cfg) (t : CRoot) (x : BitStr) :
    verifyMembership c (t.rootHash c) (t.lcpProof c x) = true := by
  simp [verifyMembership, foldUp_lcpProof, rootHash]


theorem verifyMembership_iff (c : Cfg) (hc : c.Lawful) (t : CRoot) (π : MembershipProof) :
    verifyMembership c (t.rootHash c) π = true ↔
      (foldUp c π).1 = t.value c .withLeafEpoch ∧ (foldUp c π).2 = NodeLabel.root := by
  simp only [verifyMembership, CRoot.rootHash, Bool.and_eq_true, beq_iff_eq]
  constructor
  · rintro ⟨h1, h2⟩; exact ⟨hc.root_inj _ _ h1, h2⟩
  · rintro ⟨h1, h2⟩; exact ⟨by rw [h1], h2⟩

/-- an accepted proof is about the root, an empty child slot of the root, or a subtree -/
theorem verifyMembership_cases (c : Cfg) (hc : c.Lawful) (t : CRoot) (π : MembershipProof)
    (h : verifyMembership c (t.rootHash c) π = true) :
    (π.label = NodeLabel.root ∧ π.hashVal = t.value c .withLeafEpoch) ∨
      (∃ o, (o = t.l ∨ o = t.r) ∧
        ((o = none ∧ π.label = c.emptyLabel ∧ π.hashVal = c.emptyNodeHash) ∨
         (∃ a s, o = some a ∧ CTree.Sub s a ∧ π.label = NodeLabel.ofBits s.lbl ∧
            π.hashVal = s.azks c .withLeafEpoch))) := by
  obtain ⟨h1, h2⟩ := (verifyMembership_iff c hc t π).mp h
  rcases CRoot.sound_cases c hc t π h1 with ⟨hn, hv⟩ | h'
  · left
    obtain ⟨lbl, v, sps⟩ := π
    simp only at hn hv
    subst hn
    rw [foldUp_nil] at h2
    exact ⟨h2, hv⟩
  · exact Or.inr h'

theorem not_empty_cases (t : CRoot) : (t.l = none ∧ t.r = none) ∨ (t.l ≠ none ∨ t.r ≠ none) := by
  by_cases h1 : t.l = none
  · by_cases h2 : t.r = none
    · exact Or.inl ⟨h1, h2⟩
    · exact Or.inr (Or.inr h2)
  · exact Or.inr (Or.inl h1)

end CRoot

/-! ### well-formedness is decidable (used for the concrete witnesses) -/

instance CTree.decWF : (a : CTree) → Decidable a.WF
  | .leaf _ _ _ => isTrue trivial
  | .node q l r =>
    have := CTree.decWF l
    have := CTree.decWF r
    inferInstanceAs (Decidable ((q ++ [false]) <+: l.lbl ∧ (q ++ [true]) <+: r.lbl ∧ l.WF ∧ r.WF))

namespace CRoot

/-- well-formedness of one child slot of the root -/
def slotWF (b : Bool) : Option CTree → Prop
  | none => True
  | some a => [b] <+: a.lbl ∧ a.WF

instance (b : Bool) (o : Option CTree) : Decidable (slotWF b o) := by
  cases o <;> unfold slotWF <;> infer_instance

theorem WF_iff (t : CRoot) : t.WF ↔ slotWF false t.l ∧ slotWF true t.r := by
  obtain ⟨tl, tr⟩ := t
  cases tl <;> cases tr <;> simp [WF, slotWF]

instance (t : CRoot) : Decidable t.WF := decidable_of_iff _ (WF_iff t).symm

end CRoot

end Akd
