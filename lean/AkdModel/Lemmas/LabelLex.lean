/-
Helper lemmas for C17, part 2: bit strings (`commonPrefix`, `lex`) and the label operations
that are specified through them (`cmp`, `lcp`, `prefixOrdering`).
-/
import AkdModel.Lemmas.LabelBytes
namespace Akd
namespace BitStr

/-! ### commonPrefix -/

theorem commonPrefix_prefix_left (a b : BitStr) : commonPrefix a b <+: a := by
  induction a generalizing b with
  | nil => simp [commonPrefix]
  | cons x xs ih =>
    cases b with
    | nil => simp [commonPrefix]
    | cons y ys =>
      simp only [commonPrefix]
      split
      · exact List.prefix_cons_inj x |>.mpr (ih ys)
      · exact List.nil_prefix

theorem commonPrefix_comm (a b : BitStr) : commonPrefix a b = commonPrefix b a := by
  induction a generalizing b with
  | nil => cases b <;> simp [commonPrefix]
  | cons x xs ih =>
    cases b with
    | nil => simp [commonPrefix]
    | cons y ys =>
      simp only [commonPrefix]
      by_cases h : x = y
      · subst h; simp [ih ys]
      · have : ¬ y = x := fun h' => h h'.symm
        simp [h, this]

theorem commonPrefix_prefix_right (a b : BitStr) : commonPrefix a b <+: b := by
  rw [commonPrefix_comm]; exact commonPrefix_prefix_left b a

theorem prefix_commonPrefix (z a b : BitStr) (h1 : z <+: a) (h2 : z <+: b) :
    z <+: commonPrefix a b := by
  induction z generalizing a b with
  | nil => exact List.nil_prefix
  | cons c z ih =>
    cases a with
    | nil => simp at h1
    | cons x xs =>
      cases b with
      | nil => simp at h2
      | cons y ys =>
        rw [List.cons_prefix_cons] at h1 h2
        obtain ⟨rfl, h1⟩ := h1
        obtain ⟨rfl, h2⟩ := h2
        simp only [commonPrefix, ↓reduceIte]
        exact List.cons_prefix_cons.mpr ⟨rfl, ih _ _ h1 h2⟩

theorem prefix_commonPrefix_iff (z a b : BitStr) :
    z <+: commonPrefix a b ↔ z <+: a ∧ z <+: b :=
  ⟨fun h => ⟨h.trans (commonPrefix_prefix_left a b), h.trans (commonPrefix_prefix_right a b)⟩,
   fun ⟨h1, h2⟩ => prefix_commonPrefix z a b h1 h2⟩

theorem prefix_antisymm {p q : List Bool} (h1 : p <+: q) (h2 : q <+: p) : p = q :=
  h1.eq_of_length_le h2.length_le

theorem eq_of_prefix_iff {p q : List Bool} (h : ∀ z : List Bool, z <+: p ↔ z <+: q) : p = q :=
  prefix_antisymm ((h p).mp (List.prefix_refl p)) ((h q).mpr (List.prefix_refl q))

theorem commonPrefix_self (a : BitStr) : commonPrefix a a = a := by
  apply eq_of_prefix_iff; intro z; simp [prefix_commonPrefix_iff]

theorem commonPrefix_eq_take (as bs : List Bool) (r : Nat) (hr1 : r ≤ as.length) (hr2 : r ≤ bs.length)
    (heq : ∀ i (h : i < r), as[i] = bs[i])
    (hend : r = as.length ∨ r = bs.length ∨ ∃ (h1 : r < as.length) (h2 : r < bs.length), as[r] ≠ bs[r]) :
    commonPrefix as bs = as.take r := by
  induction as generalizing bs r with
  | nil => simp at hr1; subst hr1; simp [commonPrefix]
  | cons a as ih =>
    cases bs with
    | nil => simp at hr2; subst hr2; simp [commonPrefix]
    | cons b bs =>
      cases r with
      | zero =>
        rcases hend with h | h | ⟨h1, h2, h⟩
        · simp at h
        · simp at h
        · simp at h; simp [commonPrefix, h]
      | succ r =>
        have hab : a = b := heq 0 (by omega)
        subst hab
        simp only [commonPrefix, ↓reduceIte, List.take_succ_cons, List.cons.injEq, true_and]
        apply ih bs r (by simpa using hr1) (by simpa using hr2)
        · intro i hi
          simpa using heq (i + 1) (by omega)
        · rcases hend with h | h | ⟨h1, h2, h⟩
          · left; simpa using h
          · right; left; simpa using h
          · right; right
            exact ⟨by simpa using h1, by simpa using h2, by simpa using h⟩


/-! ### lex -/

/-- big-endian value of a bit string -/
def toNat : BitStr → Nat
  | [] => 0
  | b :: bs => (if b then 2 ^ bs.length else 0) + toNat bs

theorem toNat_lt (bs : BitStr) : toNat bs < 2 ^ bs.length := by
  induction bs with
  | nil => simp [toNat]
  | cons b bs ih =>
    simp only [toNat, List.length_cons, Nat.pow_succ]
    split <;> omega

theorem lex_eq_compare (as bs : BitStr) (h : as.length = bs.length) :
    lex as bs = compare (toNat as) (toNat bs) := by
  induction as generalizing bs with
  | nil => cases bs with
    | nil => simp [lex, toNat]
    | cons b bs => simp at h
  | cons a as ih =>
    cases bs with
    | nil => simp at h
    | cons b bs =>
      have hl : as.length = bs.length := by simpa using h
      have h1 := toNat_lt as
      have h2 := toNat_lt bs
      rw [hl] at h1
      simp only [lex, toNat, hl]
      cases a <;> cases b <;> simp only [↓reduceIte, Bool.false_eq_true, Nat.zero_add, ih bs hl, reduceCtorEq]
      · symm; rw [Nat.compare_eq_lt]; omega
      · symm; rw [Nat.compare_eq_gt]; omega
      · rcases Nat.lt_trichotomy (toNat as) (toNat bs) with h | h | h
        · rw [Nat.compare_eq_lt.mpr h, Nat.compare_eq_lt.mpr (by omega)]
        · rw [h]; simp
        · rw [Nat.compare_eq_gt.mpr h, Nat.compare_eq_gt.mpr (by omega)]

theorem lex_eq_iff (as bs : BitStr) (h : as.length = bs.length) : lex as bs = .eq ↔ as = bs := by
  induction as generalizing bs with
  | nil => cases bs with
    | nil => simp [lex]
    | cons b bs => simp at h
  | cons a as ih =>
    cases bs with
    | nil => simp at h
    | cons b bs =>
      have hl : as.length = bs.length := by simpa using h
      simp only [lex]
      by_cases hab : a = b
      · subst hab; simp [ih bs hl]
      · simp only [hab, ↓reduceIte, List.cons.injEq, false_and, iff_false]
        split <;> simp

theorem lex_append (a1 b1 a2 b2 : BitStr) (h : a1.length = b1.length) :
    lex (a1 ++ a2) (b1 ++ b2) = (lex a1 b1).then (lex a2 b2) := by
  induction a1 generalizing b1 with
  | nil => cases b1 with
    | nil => simp [lex]
    | cons b bs => simp at h
  | cons a as ih =>
    cases b1 with
    | nil => simp at h
    | cons b bs =>
      have hl : as.length = bs.length := by simpa using h
      simp only [List.cons_append, lex]
      by_cases hab : a = b
      · simp [hab, ih bs hl]
      · simp only [hab, ↓reduceIte]
        split <;> rfl

theorem lex_take_ne_gt (a b : BitStr) (m : Nat) (h : a.length = b.length) (hle : lex a b ≠ .gt) :
    lex (a.take m) (b.take m) ≠ .gt := by
  intro hgt
  have := lex_append (a.take m) (b.take m) (a.drop m) (b.drop m) (by simp [h])
  rw [List.take_append_drop, List.take_append_drop, hgt] at this
  exact hle this

end BitStr

/-! ### bytes as 8-bit strings, `cmpBytes` -/

def bits8 (x : UInt8) : List Bool := (List.range 8).map (byteBit x)

theorem bits8_length (x : UInt8) : (bits8 x).length = 8 := by simp [bits8]

theorem toNat_bits8_tab : ∀ b : Fin 256, BitStr.toNat (bits8 (UInt8.ofNat b.val)) = b.val := by
  decide +kernel

theorem toNat_bits8 (x : UInt8) : BitStr.toNat (bits8 x) = x.toNat := by
  have := toNat_bits8_tab ⟨x.toNat, UInt8.toNat_lt x⟩
  simpa using this

theorem lex_bits8 (x y : UInt8) :
    BitStr.lex (bits8 x) (bits8 y) = if x < y then .lt else if y < x then .gt else .eq := by
  rw [BitStr.lex_eq_compare _ _ (by simp [bits8_length]), toNat_bits8, toNat_bits8]
  simp only [UInt8.lt_iff_toNat_lt]
  rcases Nat.lt_trichotomy x.toNat y.toNat with h | h | h
  · simp [h, Nat.compare_eq_lt.mpr h]
  · simp [h]
  · have : ¬ x.toNat < y.toNat := by omega
    simp [h, this, Nat.compare_eq_gt.mpr h]

theorem cmpBytes_eq_lex (xs ys : List UInt8) (h : xs.length = ys.length) :
    NodeLabel.cmpBytes xs ys = BitStr.lex (xs.flatMap bits8) (ys.flatMap bits8) := by
  induction xs generalizing ys with
  | nil => cases ys with
    | nil => simp [NodeLabel.cmpBytes, BitStr.lex]
    | cons y ys => simp at h
  | cons x xs ih =>
    cases ys with
    | nil => simp at h
    | cons y ys =>
      have hl : xs.length = ys.length := by simpa using h
      simp only [NodeLabel.cmpBytes, List.flatMap_cons]
      rw [BitStr.lex_append _ _ _ _ (by simp [bits8_length]), lex_bits8, ih ys hl]
      split
      · rfl
      · split <;> rfl

theorem getElem?_flatMap_bits8 (bs : List UInt8) (i : Nat) :
    (bs.flatMap bits8)[i]? = (bs[i / 8]?).map (fun x => byteBit x (i % 8)) := by
  induction bs generalizing i with
  | nil => simp
  | cons b bs ih =>
    rw [List.flatMap_cons]
    by_cases hi : i < 8
    · rw [List.getElem?_append_left (by simp [bits8_length, hi])]
      have : i / 8 = 0 := by omega
      have h2 : i % 8 = i := by omega
      simp [this, h2, bits8, hi]
    · rw [List.getElem?_append_right (by simp [bits8_length]; omega), bits8_length, ih]
      have : i / 8 = (i - 8) / 8 + 1 := by omega
      have h2 : (i - 8) % 8 = i % 8 := by omega
      simp [this, h2]

namespace NodeLabel

theorem bits256_eq_flatMap (l : NodeLabel) : l.bits256 = l.val.toList.flatMap bits8 := by
  apply List.ext_getElem?
  intro i
  rw [getElem?_flatMap_bits8]
  by_cases hi : i < 256
  · rw [List.getElem?_eq_getElem (by simp [bits256_length, hi]), bits256_getElem]
    have : i / 8 < 32 := by omega
    simp [bitB, hi, this]
  · rw [List.getElem?_eq_none (by simp [bits256_length]; omega)]
    have : ¬ i / 8 < 32 := by omega
    simp [this]

theorem cmpBytes_val (a b : NodeLabel) :
    cmpBytes a.val.toList b.val.toList = BitStr.lex a.bits256 b.bits256 := by
  rw [bits256_eq_flatMap, bits256_eq_flatMap, cmpBytes_eq_lex _ _ (by simp)]


theorem cmp_eq (a b : NodeLabel) :
    NodeLabel.cmp a b = (compare a.len b.len).then (BitStr.lex a.bits256 b.bits256) := by
  unfold NodeLabel.cmp
  rw [cmpBytes_val]
  rcases Nat.lt_trichotomy a.len b.len with h | h | h
  · simp [h, Nat.compare_eq_lt.mpr h]
  · simp [h]
  · have : ¬ a.len < b.len := by omega
    simp [h, this, Nat.compare_eq_gt.mpr h]

end NodeLabel

namespace NodeLabel

/-! ### lcp, prefixOrdering -/

theorem lcpLoop_spec (a b : NodeLabel) (s fuel k : Nat) (hk : k ≤ s) (hf : s ≤ k + fuel) :
    k ≤ lcpLoop a b s fuel k ∧ lcpLoop a b s fuel k ≤ s ∧
    (∀ i, k ≤ i → i < lcpLoop a b s fuel k → a.bitAt i = b.bitAt i) ∧
    (lcpLoop a b s fuel k = s ∨ a.bitAt (lcpLoop a b s fuel k) ≠ b.bitAt (lcpLoop a b s fuel k)) := by
  induction fuel generalizing k with
  | zero =>
    have : k = s := by omega
    subst this
    simp only [lcpLoop]
    exact ⟨Nat.le_refl _, Nat.le_refl _, fun i h1 h2 => by omega, by simp⟩
  | succ fuel ih =>
    simp only [lcpLoop]
    by_cases hc : (k < s && a.bitAt k == b.bitAt k) = true
    · simp only [hc, ↓reduceIte]
      simp only [Bool.and_eq_true, decide_eq_true_eq, beq_iff_eq] at hc
      obtain ⟨h1, h2, h3, h4⟩ := ih (k + 1) (by omega) (by omega)
      refine ⟨by omega, h2, fun i hi1 hi2 => ?_, h4⟩
      by_cases hik : i = k
      · subst hik; exact hc.2
      · exact h3 i (by omega) hi2
    · have hc' : (k < s && a.bitAt k == b.bitAt k) = false := by simpa using hc
      simp only [hc', Bool.false_eq_true, ↓reduceIte]
      simp only [Bool.and_eq_true, decide_eq_true_eq, beq_iff_eq, not_and] at hc
      refine ⟨Nat.le_refl _, hk, fun i h1 h2 => by omega, ?_⟩
      by_cases hks : k < s
      · exact Or.inr (hc hks)
      · left; omega

theorem getPrefix_normalised (a : NodeLabel) (n : Nat) (hn : n < 256) : (a.getPrefix n).Normalised := by
  unfold Normalised
  simp only [bits, getPrefix_len a n hn, bits256_getPrefix a n hn]
  rw [List.take_append_of_le_length (by simp [bits256_length]; omega)]
  simp [List.take_take]

theorem lcp_spec' (e a b : NodeLabel) (hae : a ≠ e) (hbe : b ≠ e)
    (ha : a.len ≤ 256) (hb : b.len ≤ 256) :
    ∃ r, r ≤ a.len ∧ r ≤ b.len ∧ lcp e a b = a.getPrefix r ∧
      BitStr.commonPrefix a.bits b.bits = a.bits.take r := by
  have hla : a.bits.length = a.len := by rw [bits_length]; omega
  have hlb : b.bits.length = b.len := by rw [bits_length]; omega
  let s := if a.len < b.len then a.len else b.len
  have hs1 : s ≤ a.len := by simp only [s]; split <;> omega
  have hs2 : s ≤ b.len := by simp only [s]; split <;> omega
  have hs3 : s = a.len ∨ s = b.len := by simp only [s]; split <;> omega
  obtain ⟨_, h2, h3, h4⟩ := lcpLoop_spec a b s s 0 (Nat.zero_le _) (by omega)
  refine ⟨lcpLoop a b s s 0, by omega, by omega, ?_, ?_⟩
  · simp [lcp, hae, hbe, s]
  · generalize lcpLoop a b s s 0 = r at h2 h3 h4
    apply BitStr.commonPrefix_eq_take _ _ r (by omega) (by omega)
    · intro i hi
      have := h3 i (Nat.zero_le _) hi
      rw [bitAt_eq a i (by omega) (by omega), bitAt_eq b i (by omega) (by omega)] at this
      rw [bits_getElem, bits_getElem]
      simpa using this
    · rcases h4 with h | h
      · rcases hs3 with h' | h'
        · left; omega
        · right; left; omega
      · by_cases hr : r = s
        · rcases hs3 with h' | h'
          · left; omega
          · right; left; omega
        · right; right
          refine ⟨by omega, by omega, ?_⟩
          rw [bitAt_eq a r (by omega) (by omega), bitAt_eq b r (by omega) (by omega)] at h
          rw [bits_getElem, bits_getElem]
          simpa using h

theorem getPrefix_of_ge (a : NodeLabel) (n : Nat) (hn : 256 ≤ n) : a.getPrefix n = a := by
  simp [getPrefix, hn]

theorem bits_getPrefix_le (a : NodeLabel) (n : Nat) (hn : n ≤ a.len) (ha : a.len ≤ 256) :
    (a.getPrefix n).bits = a.bits.take n := by
  by_cases h : n < 256
  · simp only [bits, getPrefix_len a n h, bits256_getPrefix a n h]
    rw [List.take_append_of_le_length (by simp [bits256_length]; omega)]
    simp [List.take_take, Nat.min_eq_left hn]
  · have : n = 256 := by omega
    subst this
    have : a.len = 256 := by omega
    rw [getPrefix_of_ge a 256 (Nat.le_refl _)]
    simp [bits, this, List.take_take]

theorem lcp_bits (e a b : NodeLabel) (hae : a ≠ e) (hbe : b ≠ e)
    (ha : a.len ≤ 256) (hb : b.len ≤ 256) :
    (lcp e a b).bits = BitStr.commonPrefix a.bits b.bits := by
  obtain ⟨r, hr1, _, hr3, hr4⟩ := lcp_spec' e a b hae hbe ha hb
  rw [hr3, hr4]
  exact bits_getPrefix_le a r hr1 ha

theorem lcp_len_le (e a b : NodeLabel) (hae : a ≠ e) (hbe : b ≠ e)
    (ha : a.len ≤ 256) (hb : b.len ≤ 256) : (lcp e a b).len ≤ a.len := by
  obtain ⟨r, hr1, _, hr3, _⟩ := lcp_spec' e a b hae hbe ha hb
  rw [hr3]
  by_cases h : r < 256
  · rw [getPrefix_len a r h]; exact hr1
  · rw [getPrefix_of_ge a r (by omega)]; exact Nat.le_refl _

theorem getPrefix_eq_iff (a b : NodeLabel) (n : Nat) (hn : n < 256) :
    a.getPrefix n = b.getPrefix n ↔ ∀ i, i < n → bitB a.val i = bitB b.val i := by
  constructor
  · intro h i hi
    have := congrArg (fun l => bitB l.val i) h
    simpa [bitB_getPrefix _ _ _ hn, hi] using this
  · intro h
    have h1 : (a.getPrefix n).len = (b.getPrefix n).len := by
      rw [getPrefix_len _ _ hn, getPrefix_len _ _ hn]
    have h2 : (a.getPrefix n).val = (b.getPrefix n).val := by
      apply val_eq_of_bitB
      intro i _
      rw [bitB_getPrefix _ _ _ hn, bitB_getPrefix _ _ _ hn]
      split
      · exact h i ‹_›
      · rfl
    generalize a.getPrefix n = x at *
    generalize b.getPrefix n = y at *
    cases x; cases y; simp_all

theorem prefixOrdering_iff (a b : NodeLabel) (hb : b.len ≤ 256) (x : Bool) :
    a.prefixOrdering b = (if x then .withOne else .withZero) ↔
      a.len < b.len ∧ (∀ i, i < a.len → bitB a.val i = bitB b.val i) ∧ bitB b.val a.len = x := by
  unfold prefixOrdering
  by_cases h1 : a.len ≥ b.len
  · simp only [h1, ↓reduceIte]
    constructor
    · intro h; cases x <;> simp at h
    · rintro ⟨h, _⟩; omega
  · simp only [h1, ↓reduceIte]
    have hlt : a.len < b.len := by omega
    have h256 : a.len < 256 := by omega
    rw [bitAt_eq b a.len hlt h256]
    by_cases h2 : b.getPrefix a.len = a.getPrefix a.len
    · have h2' := (getPrefix_eq_iff b a a.len h256).mp h2
      simp only [h2, ne_eq, not_true_eq_false, ↓reduceIte]
      constructor
      · intro h
        refine ⟨hlt, fun i hi => (h2' i hi).symm, ?_⟩
        cases hbit : bitB b.val a.len <;> cases x <;> simp_all
      · rintro ⟨_, _, h⟩
        rw [h]; cases x <;> rfl
    · simp only [ne_eq, h2, not_false_eq_true, ↓reduceIte]
      constructor
      · intro h; cases x <;> simp at h
      · rintro ⟨_, h, _⟩
        exact absurd ((getPrefix_eq_iff b a a.len h256).mpr (fun i hi => (h i hi).symm)) h2

theorem snoc_prefix_bits_iff (a b : NodeLabel) (ha : a.len ≤ 256) (hb : b.len ≤ 256) (x : Bool) :
    (a.bits ++ [x]) <+: b.bits ↔
      a.len < b.len ∧ (∀ i, i < a.len → bitB a.val i = bitB b.val i) ∧ bitB b.val a.len = x := by
  have hlen : a.bits.length = a.len := by rw [bits_length]; omega
  rw [prefix_bits_iff _ _ hb]
  simp only [List.length_append, hlen, List.length_singleton]
  constructor
  · rintro ⟨h1, h2⟩
    refine ⟨by omega, fun i hi => ?_, ?_⟩
    · have := h2 i (by omega)
      rw [List.getElem_append_left (by omega), bits_getElem] at this
      exact this
    · have := h2 a.len (by omega)
      rw [List.getElem_append_right (by omega)] at this
      simp [hlen] at this
      exact this.symm
  · rintro ⟨h1, h2, h3⟩
    refine ⟨by omega, fun i hi => ?_⟩
    by_cases hi' : i < a.len
    · rw [List.getElem_append_left (by omega), bits_getElem]; exact h2 i hi'
    · have : i = a.len := by omega
      subst this
      rw [List.getElem_append_right (by omega)]
      simp [hlen, h3]

end NodeLabel
end Akd
