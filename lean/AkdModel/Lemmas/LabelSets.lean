/-
Helper lemmas for C17, part 4: the three `AzksElementSet` operations, sorted (binary search)
representation vs. linear representation.
-/
import AkdModel.Lemmas.LabelSearch
namespace Akd

/-! ### contains_prefix -/

namespace NodeLabel

theorem cmp_same_len (a b : NodeLabel) (h : a.len = b.len) :
    cmp a b = BitStr.lex a.bits256 b.bits256 := by
  rw [cmp_eq, h]; simp

/-- `z` is a prefix of the bit string of `n` iff it is the first `|z|` of the 256 bits -/
theorem prefix_bits_iff_take (z : List Bool) (n : NodeLabel) (hn : n.len ≤ 256) :
    z <+: n.bits ↔ z.length ≤ n.len ∧ n.bits256.take z.length = z := by
  have hlen : n.bits.length = n.len := by rw [bits_length]; omega
  rw [List.prefix_iff_eq_take]
  constructor
  · intro h
    have hl : z.length ≤ n.len := by
      have := congrArg List.length h
      simp [hlen] at this; omega
    refine ⟨hl, ?_⟩
    rw [bits, List.take_take, Nat.min_eq_left hl] at h
    exact h.symm
  · rintro ⟨hl, h⟩
    rw [bits, List.take_take, Nat.min_eq_left hl]
    exact h.symm

theorem rk_compare_mono (a b c : Nat) (h : a ≤ b) : rk (compare a c) ≤ rk (compare b c) := by
  rcases Nat.lt_trichotomy a c with h1 | h1 | h1 <;> rcases Nat.lt_trichotomy b c with h2 | h2 | h2
  all_goals first
    | omega
    | (try rw [Nat.compare_eq_lt.mpr h1]); (try rw [Nat.compare_eq_gt.mpr h1]);
      (try rw [Nat.compare_eq_eq.mpr h1]); (try rw [Nat.compare_eq_lt.mpr h2]);
      (try rw [Nat.compare_eq_gt.mpr h2]); (try rw [Nat.compare_eq_eq.mpr h2]); simp [rk]

/-- the comparator of `contains_prefix` only looks at the first `p.len` bits -/
theorem containsCmp_eq (p c : NodeLabel) (hpc : p.len ≤ c.len) (hc : c.len ≤ 256) :
    (if p.len == 0 || p.isPrefixOf c then Ordering.eq
      else cmpBytes c.val.toList p.val.toList) = BitStr.lex (c.bits256.take p.len) p.bits := by
  have hp : p.len ≤ 256 := by omega
  have hpl : p.bits.length = p.len := by rw [bits_length]; omega
  have hpre : p.isPrefixOf c = true ↔ c.bits256.take p.len = p.bits := by
    rw [(isPrefixOf_iff' p c hc).trans (bits_prefix_iff p c hp hc).symm, prefix_bits_iff_take _ _ hc, hpl]
    simp [hpc]
  have hlen : (c.bits256.take p.len).length = p.bits.length := by
    simp [bits256_length, hpl]; omega
  by_cases h : p.isPrefixOf c = true
  · simp only [h, Bool.or_true, ↓reduceIte]
    rw [hpre.mp h]; exact ((BitStr.lex_eq_iff _ _ rfl).mpr rfl).symm
  · by_cases h0 : p.len = 0
    · have : p.bits = [] := by simp [bits, h0]
      simp [h0, this, BitStr.lex]
    · have h0' : (p.len == 0) = false := by simpa using h0
      have hne : BitStr.lex (c.bits256.take p.len) p.bits ≠ .eq :=
        fun he => h (hpre.mpr ((BitStr.lex_eq_iff _ _ hlen).mp he))
      simp only [h0', h, Bool.or_self, Bool.false_eq_true, ↓reduceIte]
      rw [cmpBytes_val]
      have := BitStr.lex_append (c.bits256.take p.len) p.bits (c.bits256.drop p.len)
        (p.bits256.drop p.len) hlen
      rw [List.take_append_drop, bits, List.take_append_drop] at this
      rw [this, bits]
      cases hh : BitStr.lex (c.bits256.take p.len) (p.bits256.take p.len)
      · rfl
      · exact absurd hh hne
      · rfl

theorem containsCmp_eq_iff (p c : NodeLabel) (hpc : p.len ≤ c.len) (hc : c.len ≤ 256) :
    BitStr.lex (c.bits256.take p.len) p.bits = .eq ↔ p.isPrefixOf c = true := by
  have hp : p.len ≤ 256 := by omega
  have hpl : p.bits.length = p.len := by rw [bits_length]; omega
  rw [(isPrefixOf_iff' p c hc).trans (bits_prefix_iff p c hp hc).symm, prefix_bits_iff_take _ _ hc, hpl,
    BitStr.lex_eq_iff _ _ (by simp [bits256_length, hpl]; omega)]
  simp [hpc]

theorem containsCmp_mono (p x y : NodeLabel) (hxy : x.len = y.len) (hp : p.len ≤ 256)
    (h : cmp x y ≠ .gt) :
    rk (BitStr.lex (x.bits256.take p.len) p.bits) ≤ rk (BitStr.lex (y.bits256.take p.len) p.bits) := by
  have hpl : p.bits.length = p.len := by rw [bits_length]; omega
  rw [cmp_same_len x y hxy] at h
  have h' := BitStr.lex_take_ne_gt _ _ p.len (by simp [bits256_length]) h
  have hl1 : (x.bits256.take p.len).length = p.bits.length := by simp [bits256_length, hpl]; omega
  have hl2 : (y.bits256.take p.len).length = p.bits.length := by simp [bits256_length, hpl]; omega
  rw [BitStr.lex_eq_compare _ _ (hl1.trans hl2.symm), ne_eq, Nat.compare_eq_gt] at h'
  rw [BitStr.lex_eq_compare _ _ hl1, BitStr.lex_eq_compare _ _ hl2]
  exact rk_compare_mono _ _ _ (by omega)

end NodeLabel

theorem containsPrefix_eq {α} (xs : List (NodeLabel × α)) (L : Nat) (p : NodeLabel)
    (hlen : ∀ x ∈ xs, x.1.len = L) (hL : L ≤ 256)
    (hsorted : xs.Pairwise (fun x y => NodeLabel.cmp x.1 y.1 ≠ .gt)) (hp : p.len ≤ L) :
    (ElementSet.binarySearchable xs).containsPrefix p
        = (ElementSet.unsorted xs).containsPrefix p := by
  unfold ElementSet.containsPrefix
  simp only
  rw [binarySearchBy_found]
  · rw [Bool.eq_iff_iff, List.any_eq_true, List.any_eq_true]
    apply exists_congr
    intro x
    apply and_congr_right
    intro hx
    have hxl := hlen x hx
    rw [NodeLabel.containsCmp_eq p x.1 (by omega) (by omega), beq_iff_eq,
      NodeLabel.containsCmp_eq_iff p x.1 (by omega) (by omega)]
  · refine hsorted.imp_of_mem ?_
    intro x y hx hy hxy
    have hxl := hlen x hx
    have hyl := hlen y hy
    rw [NodeLabel.containsCmp_eq p x.1 (by omega) (by omega),
      NodeLabel.containsCmp_eq p y.1 (by omega) (by omega)]
    exact NodeLabel.containsCmp_mono p x.1 y.1 (by omega) (by omega) hxy


/-! ### partition -/

namespace NodeLabel

/-- the predicate handed to `partition_point` -/
def partPred (p : NodeLabel) (c : NodeLabel) : Bool :=
  match p.prefixOrdering c with
  | .withZero | .invalid => true
  | .withOne => false

theorem not_partPred (p c : NodeLabel) : (!partPred p c) = (p.prefixOrdering c == .withOne) := by
  unfold partPred; cases p.prefixOrdering c <;> rfl

/-- for a proper prefix the ordering is decided by the next bit -/
theorem prefixOrdering_of_prefix (p c : NodeLabel) (hc : c.len ≤ 256) (hlt : p.len < c.len)
    (hp : p.isPrefixOf c = true) :
    p.prefixOrdering c = if bitB c.val p.len then .withOne else .withZero := by
  rw [prefixOrdering_iff p c hc]
  exact ⟨hlt, ((isPrefixOf_iff' p c hc).mp hp).2, rfl⟩

theorem prefixOrdering_invalid (p c : NodeLabel) (h : c.len ≤ p.len) :
    p.prefixOrdering c = .invalid := by
  have : p.len ≥ c.len := h
  simp [prefixOrdering, this]

/-- among labels with a common prefix `p`, a `1` after `p` is never sorted before a `0` -/
theorem next_bit_mono (p x y : NodeLabel) (hy : y.len ≤ 256) (hxy : x.len = y.len) (hlt : p.len < x.len)
    (hpx : p.isPrefixOf x = true) (hpy : p.isPrefixOf y = true) (h : cmp x y ≠ .gt)
    (hby : bitB y.val p.len = false) : bitB x.val p.len = false := by
  rw [cmp_same_len x y hxy] at h
  cases hbx : bitB x.val p.len
  · rfl
  · exfalso
    apply h
    have hx := ((isPrefixOf_iff' p x (by omega)).mp hpx).2
    have hy' := ((isPrefixOf_iff' p y hy).mp hpy).2
    have hm : p.len < 256 := by omega
    have htake : x.bits256.take p.len = y.bits256.take p.len := by
      apply List.ext_getElem
      · simp [bits256_length]
      · intro i h1 h2
        have hi : i < p.len := by simp at h1; omega
        rw [List.getElem_take, List.getElem_take, bits256_getElem, bits256_getElem,
          ← hx i hi, ← hy' i hi]
    have := BitStr.lex_append (x.bits256.take p.len) (y.bits256.take p.len) (x.bits256.drop p.len)
      (y.bits256.drop p.len) (by simp [bits256_length])
    rw [List.take_append_drop, List.take_append_drop] at this
    rw [this, htake, (BitStr.lex_eq_iff _ _ rfl).mpr rfl]
    rw [List.drop_eq_getElem_cons (by simp [bits256_length, hm]),
      List.drop_eq_getElem_cons (by simp [bits256_length, hm] : p.len < y.bits256.length),
      bits256_getElem, bits256_getElem, hbx, hby]
    simp [BitStr.lex]

end NodeLabel

theorem dropWhile_eq_self_of {α} (r : α → Bool) (l : List α) (h : ∀ x ∈ l, r x = false) :
    l.dropWhile r = l := by
  cases l with
  | nil => rfl
  | cons a l => simp [List.dropWhile, h a (by simp)]

theorem dropWhile_eq_nil_of {α} (r : α → Bool) (l : List α) (h : ∀ x ∈ l, r x = true) :
    l.dropWhile r = [] := by
  induction l with
  | nil => rfl
  | cons a l ih =>
    simp only [List.dropWhile, h a (by simp)]
    exact ih (fun x hx => h x (by simp [hx]))

theorem partition_eq {α} (xs : List (NodeLabel × α)) (L : Nat) (p : NodeLabel)
    (hlen : ∀ x ∈ xs, x.1.len = L) (hL : L ≤ 256)
    (hsorted : xs.Pairwise (fun x y => NodeLabel.cmp x.1 y.1 ≠ .gt))
    (hp : ∀ x ∈ xs, p.isPrefixOf x.1 = true) :
    ((ElementSet.binarySearchable xs).partition p).1.elems
        = ((ElementSet.unsorted xs).partition p).1.elems ∧
    ((ElementSet.binarySearchable xs).partition p).2.elems
        = ((ElementSet.unsorted xs).partition p).2.elems := by
  have hmono : xs.Pairwise (fun x y => NodeLabel.partPred p y.1 = true → NodeLabel.partPred p x.1 = true) := by
    refine hsorted.imp_of_mem ?_
    intro x y hx hy hxy hqy
    have hxl := hlen x hx
    have hyl := hlen y hy
    by_cases hlt : p.len < L
    · have ox := NodeLabel.prefixOrdering_of_prefix p x.1 (by omega) (by omega) (hp x hx)
      have oy := NodeLabel.prefixOrdering_of_prefix p y.1 (by omega) (by omega) (hp y hy)
      have hby : bitB y.1.val p.len = false := by
        cases hb : bitB y.1.val p.len
        · rfl
        · simp [NodeLabel.partPred, oy, hb] at hqy
      have hbx := NodeLabel.next_bit_mono p x.1 y.1 (by omega) (by omega) (by omega) (hp x hx) (hp y hy) hxy hby
      simp [NodeLabel.partPred, ox, hbx]
    · simp [NodeLabel.partPred, NodeLabel.prefixOrdering_invalid p x.1 (by omega)]
  obtain ⟨htake, hdrop⟩ := partitionPoint_spec (fun c : NodeLabel × α => NodeLabel.partPred p c.1) xs hmono
  show ElementSet.popInvalid p (xs.take (partitionPoint
        (fun c : NodeLabel × α => NodeLabel.partPred p c.1) xs.toArray))
      = xs.filter (fun x => p.prefixOrdering x.1 == .withZero) ∧
    xs.drop (partitionPoint (fun c : NodeLabel × α => NodeLabel.partPred p c.1) xs.toArray)
      = xs.filter (fun x => p.prefixOrdering x.1 == .withOne)
  rw [htake, hdrop]
  refine ⟨?_, ?_⟩
  · by_cases hlt : p.len < L
    · have hord : ∀ x ∈ xs, p.prefixOrdering x.1 ≠ .invalid := by
        intro x hx
        rw [NodeLabel.prefixOrdering_of_prefix p x.1 (by have := hlen x hx; omega)
          (by have := hlen x hx; omega) (hp x hx)]
        split <;> simp
      have hpop : ElementSet.popInvalid p (xs.filter (fun c => NodeLabel.partPred p c.1))
          = xs.filter (fun c => NodeLabel.partPred p c.1) := by
        unfold ElementSet.popInvalid
        rw [dropWhile_eq_self_of, List.reverse_reverse]
        intro x hx
        have hx' : x ∈ xs := (List.mem_filter.mp (List.mem_reverse.mp hx)).1
        simpa using hord x hx'
      rw [hpop]
      apply List.filter_congr
      intro x hx
      have := hord x hx
      unfold NodeLabel.partPred
      cases ho : p.prefixOrdering x.1 <;> simp_all
    · have hord : ∀ x ∈ xs, p.prefixOrdering x.1 = .invalid := fun x hx =>
        NodeLabel.prefixOrdering_invalid p x.1 (by have := hlen x hx; omega)
      have hpop : ElementSet.popInvalid p (xs.filter (fun c => NodeLabel.partPred p c.1)) = [] := by
        unfold ElementSet.popInvalid
        rw [dropWhile_eq_nil_of, List.reverse_nil]
        intro x hx
        have hx' : x ∈ xs := (List.mem_filter.mp (List.mem_reverse.mp hx)).1
        simp [hord x hx']
      rw [hpop]
      symm
      apply List.filter_eq_nil_iff.mpr
      intro x hx
      simp [hord x hx]
  · apply List.filter_congr
    intro x _
    exact NodeLabel.not_partPred p x.1


/-! ### get_longest_common_prefix -/

namespace NodeLabel

/-- a bit string that is a prefix of two labels is a prefix of every label sorted between them -/
theorem prefix_sandwich (z : List Bool) (x n l : NodeLabel) (hL : x.len ≤ 256)
    (hxn : x.len = n.len) (hnl : n.len = l.len)
    (h1 : cmp x n ≠ .gt) (h2 : cmp n l ≠ .gt) (hzx : z <+: x.bits) (hzl : z <+: l.bits) :
    z <+: n.bits := by
  rw [prefix_bits_iff_take _ _ (by omega)] at hzx hzl ⊢
  refine ⟨by omega, ?_⟩
  rw [cmp_same_len _ _ hxn] at h1
  rw [cmp_same_len _ _ hnl] at h2
  have h1' := BitStr.lex_take_ne_gt _ _ z.length (by simp [bits256_length]) h1
  have h2' := BitStr.lex_take_ne_gt _ _ z.length (by simp [bits256_length]) h2
  rw [hzx.2] at h1'
  rw [hzl.2] at h2'
  have hlen : (n.bits256.take z.length).length = z.length := by
    simp [bits256_length]; omega
  rw [BitStr.lex_eq_compare _ _ hlen.symm, ne_eq, Nat.compare_eq_gt] at h1'
  rw [BitStr.lex_eq_compare _ _ hlen, ne_eq, Nat.compare_eq_gt] at h2'
  apply (BitStr.lex_eq_iff _ _ hlen).mp
  rw [BitStr.lex_eq_compare _ _ hlen, Nat.compare_eq_eq]
  omega

end NodeLabel

theorem prefix_foldl_commonPrefix_iff {β} (g : β → BitStr) (rest : List β) (b0 z : BitStr) :
    z <+: rest.foldl (fun b n => BitStr.commonPrefix (g n) b) b0 ↔
      z <+: b0 ∧ ∀ n ∈ rest, z <+: g n := by
  induction rest generalizing b0 with
  | nil => simp
  | cons n rest ih =>
    rw [List.foldl_cons, ih, BitStr.prefix_commonPrefix_iff]
    simp only [List.mem_cons, forall_eq_or_imp]
    constructor
    · rintro ⟨⟨h1, h2⟩, h3⟩; exact ⟨h2, h1, h3⟩
    · rintro ⟨h2, h1, h3⟩; exact ⟨⟨h1, h2⟩, h3⟩

theorem pairwise_getLast {β} (R : β → β → Prop) (xs : List β) (l : β) (h : xs.Pairwise R)
    (hl : xs.getLast? = some l) : ∀ n ∈ xs, n = l ∨ R n l := by
  intro n hn
  obtain ⟨i, hi, rfl⟩ := List.mem_iff_getElem.mp hn
  rw [List.getLast?_eq_getElem?] at hl
  have hlast : xs.length - 1 < xs.length := by omega
  rw [List.getElem?_eq_getElem hlast] at hl
  have hl' : xs[xs.length - 1] = l := by simpa using hl
  by_cases hi' : i = xs.length - 1
  · left; subst hl'; congr
  · right; subst hl'
    exact List.pairwise_iff_getElem.mp h i (xs.length - 1) hi hlast (by omega)

/-- the linear fold of `lcp`, on bit strings -/
theorem foldl_lcp_bits {α} (e : NodeLabel) (L : Nat) (hL : L ≤ 256) (he0 : e.len = 0 ∨ L < e.len)
    (rest : List (NodeLabel × α)) (hrest : ∀ x ∈ rest, x.1.len = L ∧ x.1 ≠ e)
    (acc : NodeLabel) (hacc : acc.len ≤ L) :
    (rest.foldl (fun acc n => NodeLabel.lcp e n.1 acc) acc).bits
      = rest.foldl (fun b n => BitStr.commonPrefix n.1.bits b) acc.bits := by
  induction rest generalizing acc with
  | nil => rfl
  | cons n rest ih =>
    rw [List.foldl_cons, List.foldl_cons]
    obtain ⟨hnl, hne⟩ := hrest n (by simp)
    have hrest' : ∀ x ∈ rest, x.1.len = L ∧ x.1 ≠ e := fun x hx => hrest x (by simp [hx])
    by_cases hae : acc = e
    · subst hae
      have he : acc.len = 0 := by
        rcases he0 with h | h
        · exact h
        · omega
      have h1 : NodeLabel.lcp acc n.1 acc = acc := by simp [NodeLabel.lcp]
      have h2 : acc.bits = [] := by simp [NodeLabel.bits, he]
      have h3 : BitStr.commonPrefix n.1.bits acc.bits = acc.bits := by
        rw [h2]; cases n.1.bits <;> rfl
      rw [h1, h3]
      exact ih hrest' acc hacc
    · have hlen : (NodeLabel.lcp e n.1 acc).len ≤ L := by
        have := NodeLabel.lcp_len_le e n.1 acc hne hae (by omega) (by omega); omega
      have hbits := NodeLabel.lcp_bits e n.1 acc hne hae (by omega) (by omega)
      rw [← hbits]
      exact ih hrest' _ hlen

theorem setLcp_eq {α} (e : NodeLabel) (xs : List (NodeLabel × α)) (L : Nat)
    (hlen : ∀ x ∈ xs, x.1.len = L) (hL : L ≤ 256)
    (hsorted : xs.Pairwise (fun x y => NodeLabel.cmp x.1 y.1 ≠ .gt))
    (he : ∀ x ∈ xs, x.1 ≠ e) (hne : xs ≠ []) (he0 : e.len = 0 ∨ L < e.len) :
    ((ElementSet.binarySearchable xs).setLcp e).bits
        = ((ElementSet.unsorted xs).setLcp e).bits := by
  cases xs with
  | nil => exact absurd rfl hne
  | cons x rest =>
    obtain ⟨l, hl⟩ : ∃ l, (x :: rest).getLast? = some l := by
      cases h : (x :: rest).getLast? with
      | none => simp at h
      | some l => exact ⟨l, rfl⟩
    have hlmem : l ∈ x :: rest := List.mem_of_getLast? hl
    have hxl := hlen x (by simp)
    have hll := hlen l hlmem
    simp only [ElementSet.setLcp, List.head?_cons, hl]
    rw [foldl_lcp_bits e L hL he0 rest (fun y hy => ⟨hlen y (by simp [hy]), he y (by simp [hy])⟩) x.1
      (by omega)]
    have hbits := NodeLabel.lcp_bits e x.1 l.1 (he x (by simp)) (he l hlmem) (by omega) (by omega)
    rw [hbits]
    apply BitStr.eq_of_prefix_iff
    intro z
    rw [BitStr.prefix_commonPrefix_iff, prefix_foldl_commonPrefix_iff (fun n : NodeLabel × α => n.1.bits)]
    constructor
    · rintro ⟨hzx, hzl⟩
      refine ⟨hzx, fun n hn => ?_⟩
      have hnmem : n ∈ x :: rest := by simp [hn]
      have hnl := hlen n hnmem
      have h1 : NodeLabel.cmp x.1 n.1 ≠ .gt := (List.pairwise_cons.mp hsorted).1 n hn
      rcases pairwise_getLast _ _ l hsorted hl n hnmem with h2 | h2
      · rw [h2]; exact hzl
      · exact NodeLabel.prefix_sandwich z x.1 n.1 l.1 (by omega) (by omega) (by omega) h1 h2 hzx hzl
    · rintro ⟨hzx, hall⟩
      refine ⟨hzx, ?_⟩
      rcases List.mem_cons.mp hlmem with h | h
      · rw [h]; exact hzx
      · exact hall l h

end Akd
