/-
Which leaves sit at which VRF labels in the specification's leaf set (C01c, `refines_honest`):
the tree over `Spec.leaves` is honest for every label in the sense of C06/C07.
-/
import AkdModel.Lemmas.PublishTable
namespace Akd.Pub
open Akd Spec

theorem mem_leaves_iff {c : Cfg} {key : Dig} {vrf : VrfTable} {t : Table} {lf : Leaf} :
    lf ∈ Spec.leaves c key vrf t ↔ ∃ x ∈ t, ∃ v ∈ x.2, lf ∈ verLeaves c key vrf x.1 x.2 v := by
  simp only [leaves_eq, entryLeaves, List.mem_flatMap]

section Honest
variable {vrf : VrfTable}
  (hinj : ∀ k k' l, vrf.get? k = some l → vrf.get? k' = some l → k = k')
  (hlen : ∀ k l, vrf.get? k = some l → l.len = 256)
  (c : Cfg) (key : Dig) (t : Table) (hk : t.Pairwise (fun a b => a.1 ≠ b.1)) (hV : ∀ u, VersOK (t.get u))

omit hinj hlen hk hV in
theorem fresh_present (u : Bytes) (v : Ver) (hv : v ∈ t.get u) (l : NodeLabel)
    (hl : vrf.get? ⟨u, true, v.version⟩ = some l) :
    (⟨l.bits, c.commit v.value (c.nonce key l v.version v.value), v.epoch⟩ : Leaf) ∈ Spec.leaves c key vrf t := by
  rw [mem_leaves_iff]
  refine ⟨(u, t.get u), mem_of_get t u (fun h => by rw [h] at hv; cases hv), v, hv, ?_⟩
  simp [verLeaves, hl]

include hinj hlen hk

/-- the claim a leaf sits at determines the entry and the version it comes from -/
theorem claim_unique {lf : Leaf} (h : lf ∈ Spec.leaves c key vrf t) (u : Bytes) (f : Bool) (ver : Nat) (l : NodeLabel)
    (hl : vrf.get? ⟨u, f, ver⟩ = some l) (hlbl : lf.lbl = l.bits) :
    ∃ v ∈ t.get u, v.version = ver ∧ lf ∈ verLeaves c key vrf u (t.get u) v ∧
      ((f = true ∧ lf = ⟨l.bits, c.commit v.value (c.nonce key l v.version v.value), v.epoch⟩) ∨
       (f = false ∧ ∃ nxt, (t.get u).find? (fun w => w.version = v.version + 1) = some nxt ∧
          lf = ⟨l.bits, c.staleValue, nxt.epoch⟩)) := by
  obtain ⟨x, hx, v, hv, hm⟩ := mem_leaves_iff.1 h
  have hg := get_of_mem t hk x hx
  rcases mem_verLeaves hm with ⟨l', h1, e⟩ | ⟨l', nxt, h1, hf, e⟩
  · have hbits : l'.bits = l.bits := by rw [← hlbl, e]
    have hll := bits_inj_256 (hlen _ _ h1) (hlen _ _ hl) hbits
    have hc := hinj _ _ _ h1 (hll ▸ hl)
    injection hc with hc1 hc2 hc3
    subst hc1 hc2 hc3 hll
    rw [hg]
    exact ⟨v, hv, rfl, hm, .inl ⟨rfl, e⟩⟩
  · have hbits : l'.bits = l.bits := by rw [← hlbl, e]
    have hll := bits_inj_256 (hlen _ _ h1) (hlen _ _ hl) hbits
    have hc := hinj _ _ _ h1 (hll ▸ hl)
    injection hc with hc1 hc2 hc3
    subst hc1 hc2 hc3 hll
    rw [hg]
    exact ⟨v, hv, rfl, hm, .inr ⟨rfl, nxt, hf, e⟩⟩

theorem fresh_only (u : Bytes) (ver : Nat) (l : NodeLabel) (lf : Leaf) (hl : vrf.get? ⟨u, true, ver⟩ = some l)
    (h : lf ∈ Spec.leaves c key vrf t) (hlbl : lf.lbl = l.bits) :
    ∃ v ∈ t.get u, v.version = ver ∧ lf.value = c.commit v.value (c.nonce key l ver v.value) ∧ lf.ep = v.epoch := by
  obtain ⟨v, hv, hver, _, ⟨_, e⟩ | ⟨hf, _⟩⟩ := claim_unique hinj hlen c key t hk h u true ver l hl hlbl
  · subst hver
    exact ⟨v, hv, rfl, by rw [e], by rw [e]⟩
  · cases hf

theorem stale_stamp (u : Bytes) (ver : Nat) (l : NodeLabel) (lf : Leaf) (hl : vrf.get? ⟨u, false, ver⟩ = some l)
    (h : lf ∈ Spec.leaves c key vrf t) (hlbl : lf.lbl = l.bits) :
    lf.value = c.staleValue ∧ ∃ w ∈ t.get u, w.version = ver + 1 ∧ lf.ep = w.epoch := by
  obtain ⟨v, hv, hver, _, ⟨hf, _⟩ | ⟨_, nxt, hf, e⟩⟩ := claim_unique hinj hlen c key t hk h u false ver l hl hlbl
  · cases hf
  · subst hver
    refine ⟨by rw [e], nxt, List.mem_of_find?_eq_some hf, ?_, by rw [e]⟩
    have := List.find?_some hf
    simpa using this

include hV

theorem stale_iff (u : Bytes) (ver : Nat) (hver : 1 ≤ ver) (l : NodeLabel) (hl : vrf.get? ⟨u, false, ver⟩ = some l) :
    (∃ lf ∈ Spec.leaves c key vrf t, lf.lbl = l.bits) ↔ ∃ w ∈ t.get u, w.version = ver + 1 := by
  constructor
  · rintro ⟨lf, h, hlbl⟩
    obtain ⟨_, w, hw, hwv, _⟩ := stale_stamp hinj hlen c key t hk u ver l lf hl h hlbl
    exact ⟨w, hw, hwv⟩
  · rintro ⟨w, hw, hwv⟩
    -- the version `ver` itself is in the list, one position before `w`
    obtain ⟨i, hi, rfl⟩ := List.getElem_of_mem hw
    rw [(hV u).1 i hi] at hwv
    have hi' : ver - 1 < (t.get u).length := by omega
    have hvv : ((t.get u)[ver - 1]).version = ver := by rw [(hV u).1 _ hi']; omega
    obtain ⟨nxt, hnxt⟩ : ∃ nxt, (t.get u).find? (fun w => w.version = ver + 1) = some nxt := by
      apply Option.isSome_iff_exists.1
      rw [List.find?_isSome]
      exact ⟨(t.get u)[i], List.getElem_mem hi, by simp [(hV u).1 i hi, hwv]⟩
    refine ⟨⟨l.bits, c.staleValue, nxt.epoch⟩, ?_, rfl⟩
    rw [mem_leaves_iff]
    refine ⟨(u, t.get u), mem_of_get t u (fun h => by rw [h] at hi; cases hi), (t.get u)[ver - 1],
      List.getElem_mem hi', ?_⟩
    simp [verLeaves, hvv, hnxt, hl]

end Honest

end Akd.Pub
