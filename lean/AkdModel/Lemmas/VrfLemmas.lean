/-
Helper lemmas for C18: little and big endian byte encodings and the 80-byte proof layout.
-/
import AkdModel.Vrf
namespace Akd.Vrf

theorem le_succ (k n : Nat) : le (k + 1) n = UInt8.ofNat (n % 256) :: le k (n / 256) := by
  simp only [le, List.range_succ_eq_map, List.map_cons, List.map_map]
  congr 1
  apply List.map_congr_left
  intro i _
  simp only [Function.comp, Nat.shiftRight_eq_div_pow]
  rw [Nat.mul_succ, Nat.pow_add, Nat.div_div_eq_div_mul, Nat.mul_comm]

theorem ofLe_cons (b : UInt8) (bs : Bytes) : ofLe (b :: bs) = b.toNat + 256 * ofLe bs := rfl

theorem ofLe_le (k n : Nat) : ofLe (le k n) = n % 256 ^ k := by
  induction k generalizing n with
  | zero => simp [le, ofLe, Nat.mod_one]
  | succ k ih =>
    rw [le_succ, ofLe_cons, ih, Nat.pow_succ, Nat.mul_comm (256 ^ k) 256, Nat.mod_mul]
    simp

theorem le_length (k n : Nat) : (le k n).length = k := by simp [le]

theorem be8_eq (n : Nat) : be8 n = (le 8 n).reverse := by
  simp [be8, le, List.range, List.range.loop]

theorem be8_length (n : Nat) : (be8 n).length = 8 := by simp [be8]

theorem be8_inj {n m : Nat} (hn : n < 2 ^ 64) (hm : m < 2 ^ 64) (h : be8 n = be8 m) : n = m := by
  rw [be8_eq, be8_eq, List.reverse_inj] at h
  have := congrArg ofLe h
  rw [ofLe_le, ofLe_le] at this
  rw [Nat.mod_eq_of_lt (by simpa using hn), Nat.mod_eq_of_lt (by simpa using hm)] at this
  exact this

theorem labelInput_inj {l l' : Bytes} {f f' : Bool} {v v' : Nat}
    (hl : l.length < 2 ^ 64) (hl' : l'.length < 2 ^ 64) (hv : v < 2 ^ 64) (hv' : v' < 2 ^ 64)
    (h : labelInput l f v = labelInput l' f' v') : l = l' ∧ f = f' ∧ v = v' := by
  simp only [labelInput, i2osp, List.append_assoc] at h
  obtain ⟨h1, h2⟩ := List.append_inj h (by rw [be8_length, be8_length])
  have hlen := be8_inj hl hl' h1
  obtain ⟨h3, h4⟩ := List.append_inj h2 hlen
  simp only [List.cons_append, List.nil_append, List.cons.injEq] at h4
  refine ⟨h3, ?_, be8_inj hv hv' h4.2⟩
  have h5 := h4.1
  cases f <;> cases f' <;> first | rfl | (exact absurd h5 (by decide))

theorem ell_lt : ell < 2 ^ 253 := by decide
theorem two_ell_lt : ell + ell < 256 ^ 32 := by decide
theorem c_lt_ell {c : Nat} (h : c < 2 ^ 128) : c < ell :=
  Nat.lt_trans h (by decide)

/-- decoding `gamma ‖ le 16 c ‖ le 32 s'` -/
theorem decodeProof_parts (g : Bytes) (c s' : Nat) (hg : g.length = 32) :
    decodeProof (g ++ le 16 c ++ le 32 s') = some ⟨g, (c % 256 ^ 16) % ell, (s' % 256 ^ 32) % ell⟩ := by
  have hlen : (g ++ le 16 c ++ le 32 s').length = 80 := by
    simp [List.length_append, le_length, hg]
  have h1 : (g ++ le 16 c ++ le 32 s').take 32 = g := by
    rw [List.append_assoc, List.take_append_of_le_length (by omega), ← hg, List.take_length]
  have h2 : (g ++ le 16 c ++ le 32 s').drop 32 = le 16 c ++ le 32 s' := by
    rw [List.append_assoc, ← hg, List.drop_left]
  have h3 : (le 16 c ++ le 32 s').take 16 = le 16 c := by
    rw [List.take_append_of_le_length (by rw [le_length]; omega)]
    conv => lhs; arg 1; rw [← le_length 16 c]
    exact List.take_length
  have h4 : (g ++ le 16 c ++ le 32 s').drop 48 = le 32 s' := by
    have : (g ++ le 16 c).length = 48 := by simp [le_length, hg]
    rw [← this, List.drop_left]
  unfold decodeProof
  rw [if_neg (by rw [hlen]; simp), h1, h4, h2, h3, ofLe_le, ofLe_le]

end Akd.Vrf
