/-
Helper lemmas for C18.
-/
import AkdModel.Vrf
namespace Akd.Vrf
end Akd.Vrf
