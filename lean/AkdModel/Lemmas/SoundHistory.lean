/-
Helper lemmas for C07: what an accepted run of the history verifier has checked
(shape of the version list, every single update proof, the marker proofs).
-/
import AkdModel.Lemmas.SoundLemmas
namespace Akd.Snd
open Akd Verify

/-! ### the consecutive-decreasing check and the two folds -/

theorem consDec_get (rest : List Nat) : ∀ (a : Nat), consecutiveDecreasing (a :: rest) = true →
    ∀ i (h : i < (a :: rest).length), (a :: rest)[i] + i = a := by
  induction rest with
  | nil =>
    intro a _ i h
    have : i = 0 := by simpa using h
    subst this; rfl
  | cons b r ih =>
    intro a hc i h
    simp only [consecutiveDecreasing, Bool.and_eq_true, beq_iff_eq] at hc
    cases i with
    | zero => rfl
    | succ j =>
      have := ih b hc.2 j (by simpa using h)
      simp only [List.getElem_cons_succ]
      omega

theorem foldl_max_eq (l : List Nat) : ∀ (a : Nat), (∀ x ∈ l, x ≤ a) → l.foldl max a = a := by
  induction l with
  | nil => intro a _; rfl
  | cons x l ih =>
    intro a h
    have hx : x ≤ a := h x (by simp)
    simp only [List.foldl_cons, Nat.max_eq_left hx]
    exact ih a (fun y hy => h y (by simp [hy]))

theorem foldl_min_spec (l : List Nat) : ∀ (a : Nat),
    l.foldl min a ≤ a ∧ (∀ x ∈ l, l.foldl min a ≤ x) ∧ (l.foldl min a = a ∨ l.foldl min a ∈ l) := by
  induction l with
  | nil => intro a; simp
  | cons x l ih =>
    intro a
    obtain ⟨h1, h2, h3⟩ := ih (min a x)
    simp only [List.foldl_cons]
    refine ⟨by omega, ?_, ?_⟩
    · intro y hy
      rcases List.mem_cons.mp hy with rfl | hy
      · omega
      · exact h2 y hy
    · rcases h3 with h3 | h3
      · rcases Nat.le_total a x with hax | hax
        · left; rw [h3, Nat.min_eq_left hax]
        · right; rw [h3, Nat.min_eq_right hax]; simp
      · right; exact List.mem_cons_of_mem _ h3

theorem consDec_foldl_max (a : Nat) (rest : List Nat) (hc : consecutiveDecreasing (a :: rest) = true) :
    (a :: rest).foldl max a = a := by
  apply foldl_max_eq
  intro x hx
  obtain ⟨i, hi, rfl⟩ := List.getElem_of_mem hx
  have := consDec_get rest a hc i hi
  omega

theorem consDec_foldl_min (a : Nat) (rest : List Nat) (hc : consecutiveDecreasing (a :: rest) = true) :
    (a :: rest).foldl min a + rest.length = a := by
  obtain ⟨_, h2, h3⟩ := foldl_min_spec (a :: rest) a
  have hlast := consDec_get rest a hc rest.length (by simp)
  have hle := h2 _ (List.getElem_mem (l := a :: rest) (n := rest.length) (by simp))
  have hmem : (a :: rest).foldl min a ∈ a :: rest := by
    rcases h3 with h3 | h3
    · rw [h3]; simp
    · exact h3
  obtain ⟨j, hj, hj'⟩ := List.getElem_of_mem hmem
  have := consDec_get rest a hc j hj
  have hjl : j ≤ rest.length := by simpa [Nat.lt_succ_iff] using hj
  omega

/-! ### the parameter check -/

def ParamsOK (p : HistoryParams) (k startV : Nat) : Prop :=
  match p with
  | .complete => startV = 1
  | .mostRecent r => k ≤ r ∧ (k < r → startV = 1)

theorem markers_tail {π : HistoryProof} {past future : List Nat} {m : Option (List Nat × List Nat)}
    (h : (match m with
      | none => (Except.error VErr.panic : Except VErr (List Nat × List Nat))
      | some (past, future) =>
        if past.length ≠ π.pastVrf.length then .error .history
        else if π.pastVrf.length ≠ π.past.length then .error .history
        else if future.length ≠ π.futureVrf.length then .error .history
        else if π.futureVrf.length ≠ π.future.length then .error .history
        else .ok (past, future)) = .ok (past, future)) :
    m = some (past, future) ∧
      (past.length = π.pastVrf.length ∧ π.pastVrf.length = π.past.length) ∧
      (future.length = π.futureVrf.length ∧ π.futureVrf.length = π.future.length) := by
  cases m with
  | none => cases h
  | some pf =>
    obtain ⟨pa, fu⟩ := pf
    simp only at h
    split at h
    · cases h
    split at h
    · cases h
    split at h
    · cases h
    split at h
    · cases h
    rename_i l1 l2 l3 l4
    injection h with h
    injection h with h1 h2
    subst h1 h2
    exact ⟨rfl, ⟨Classical.not_not.mp l1, Classical.not_not.mp l2⟩, ⟨Classical.not_not.mp l3, Classical.not_not.mp l4⟩⟩

/-- the checks of `withHistoryParams`, as a proposition -/
theorem withHistoryParams_ok' {E : Nat} {π : HistoryProof} {p : HistoryParams} {past future : List Nat}
    (h : withHistoryParams E π p = .ok (past, future)) :
    ∃ v0 vs, π.updates.map (·.version) = v0 :: vs ∧ consecutiveDecreasing (v0 :: vs) = true ∧
      (v0 :: vs).foldl min v0 ≠ 0 ∧ (v0 :: vs).foldl max v0 ≤ E ∧
      ParamsOK p π.updates.length ((v0 :: vs).foldl min v0) ∧
      Marker.markers? ((v0 :: vs).foldl min v0) ((v0 :: vs).foldl max v0) E = some (past, future) ∧
      (past.length = π.pastVrf.length ∧ π.pastVrf.length = π.past.length) ∧
      (future.length = π.futureVrf.length ∧ π.futureVrf.length = π.future.length) := by
  unfold withHistoryParams at h
  cases hV : π.updates.map (·.version) with
  | nil => simp [hV] at h
  | cons v0 vs =>
    refine ⟨v0, vs, rfl, ?_⟩
    simp only [hV] at h
    have hcd : consecutiveDecreasing (v0 :: vs) = true := by
      cases hcd : consecutiveDecreasing (v0 :: vs) with
      | false => simp [hcd] at h
      | true => rfl
    simp only [hcd, Bool.not_true, Bool.false_eq_true, if_false] at h
    by_cases hs : (v0 :: vs).foldl min v0 = 0
    · rw [if_pos hs] at h; cases h
    rw [if_neg hs] at h
    by_cases he : (v0 :: vs).foldl max v0 > E
    · rw [if_pos he] at h; cases h
    rw [if_neg he] at h
    refine ⟨hcd, hs, Nat.le_of_not_gt he, ?_⟩
    revert h
    generalize (v0 :: vs).foldl min v0 = s
    generalize (v0 :: vs).foldl max v0 = e
    intro h
    cases p with
    | complete =>
      simp only at h
      by_cases hp : (!(s == 1)) = true
      · rw [if_pos hp] at h; cases h
      rw [if_neg hp] at h
      exact ⟨by simpa [ParamsOK] using hp, markers_tail h⟩
    | mostRecent r =>
      simp only at h
      by_cases h1 : π.updates.length > r
      · simp only [h1, if_true] at h
        cases h
      simp only [h1, if_false] at h
      by_cases h2 : π.updates.length < r
      · simp only [h2, if_true] at h
        by_cases hp : (!(s == 1)) = true
        · rw [if_pos hp] at h; cases h
        rw [if_neg hp] at h
        exact ⟨⟨Nat.le_of_not_gt h1, fun _ => by simpa using hp⟩, markers_tail h⟩
      · simp only [h2, if_false, Bool.not_true, Bool.false_eq_true] at h
        exact ⟨⟨Nat.le_of_not_gt h1, fun h' => absurd h' h2⟩, markers_tail h⟩

/-- what an accepted parameter check has established: `k` update proofs for the consecutive
versions `v0, v0-1, …, v0+1-k ≥ 1` with `v0 ≤ E`, as many as the parameter asks for, and marker
proof lists of the lengths of the marker lists for that range -/
structure Shape (E : Nat) (π : HistoryProof) (p : HistoryParams) (past future : List Nat) (v0 : Nat) : Prop where
  pos : 0 < π.updates.length
  ver : ∀ i (h : i < π.updates.length), (π.updates[i]).version + i = v0
  start : π.updates.length ≤ v0
  le : v0 ≤ E
  params : ParamsOK p π.updates.length (v0 + 1 - π.updates.length)
  markers : Marker.markers? (v0 + 1 - π.updates.length) v0 E = some (past, future)
  pastLen : past.length = π.pastVrf.length ∧ π.pastVrf.length = π.past.length
  futureLen : future.length = π.futureVrf.length ∧ π.futureVrf.length = π.future.length

theorem withHistoryParams_ok {E : Nat} {π : HistoryProof} {p : HistoryParams} {past future : List Nat}
    (h : withHistoryParams E π p = .ok (past, future)) : ∃ v0, Shape E π p past future v0 := by
  obtain ⟨v0, vs, hV, hcd, hs, he, hp, hm, hl1, hl2⟩ := withHistoryParams_ok' h
  have hlen : π.updates.length = vs.length + 1 := by
    have := congrArg List.length hV
    simpa using this
  rw [consDec_foldl_max v0 vs hcd] at he hm
  have hmin := consDec_foldl_min v0 vs hcd
  have hst : (v0 :: vs).foldl min v0 = v0 + 1 - π.updates.length := by omega
  rw [hst] at hs hp hm
  refine ⟨v0, ⟨by omega, ?_, by omega, he, hp, hm, hl1, hl2⟩⟩
  intro i hi
  have h1 := consDec_get vs v0 hcd i (by simpa [hlen] using hi)
  have h2 : (v0 :: vs)[i]'(by simpa [hlen] using hi) = (π.updates[i]).version := by
    simp only [← hV, List.getElem_map]
  rw [← h2]; exact h1

/-! ### the update proofs -/

/-- what an accepted single update proof has checked -/
theorem singleUpdate_ok {c : Cfg} {vrf : VrfTable} {root : Dig} {u : Bytes} {allow : Bool}
    {p : UpdateProof} {r : VerifyResult} (h : singleUpdate c vrf root u allow p = .ok r) :
    r = ⟨p.epoch, p.version, p.value⟩ ∧
    ((allow = true ∧ p.value = [] ∧
        existence c vrf root u true p.version p.existenceVrf p.existence = .ok ()) ∨
      existenceWithVal c vrf root u p.value p.epoch p.commitmentNonce true p.version
        p.existenceVrf p.existence = .ok ()) ∧
    (2 ≤ p.version → ∃ pv pp,
      existenceWithCommitment c vrf root u c.staleValue p.epoch false (p.version - 1) pv pp = .ok ()) := by
  unfold singleUpdate at h
  simp only at h
  split at h
  · cases h
  rename_i hfirst
  have h1 : (allow = true ∧ p.value = [] ∧
        existence c vrf root u true p.version p.existenceVrf p.existence = .ok ()) ∨
      existenceWithVal c vrf root u p.value p.epoch p.commitmentNonce true p.version
        p.existenceVrf p.existence = .ok () := by
    split at hfirst
    · rename_i hc
      simp only [Bool.and_eq_true, decide_eq_true_eq] at hc
      exact Or.inl ⟨hc.1, hc.2, hfirst⟩
    · exact Or.inr hfirst
  split at h
  · injection h with h
    exact ⟨h.symm, h1, fun h2 => by omega⟩
  · split at h
    · cases h
    · cases h
    · rename_i pp pv _ _
      split at h
      · cases h
      · rename_i hs
        injection h with h
        exact ⟨h.symm, h1, fun _ => ⟨pv, pp, hs⟩⟩

theorem verifyUpdates_ok {c : Cfg} {vrf : VrfTable} {root : Dig} {u : Bytes} {allow : Bool} :
    ∀ (ups : List UpdateProof) (prev : Option Nat) (rs : List VerifyResult),
      verifyUpdates c vrf root u allow prev ups = .ok rs →
      rs = ups.map (fun p => ⟨p.epoch, p.version, p.value⟩) ∧
      ∀ p ∈ ups, singleUpdate c vrf root u allow p = .ok ⟨p.epoch, p.version, p.value⟩ := by
  intro ups
  induction ups with
  | nil =>
    intro prev rs h
    simp only [verifyUpdates] at h
    injection h with h
    simp [← h]
  | cons p rest ih =>
    intro prev rs h
    have h' : ∃ r rs', singleUpdate c vrf root u allow p = .ok r ∧
        verifyUpdates c vrf root u allow (some p.epoch) rest = .ok rs' ∧ rs = r :: rs' := by
      cases prev with
      | none =>
        simp only [verifyUpdates, Bool.false_eq_true, if_false] at h
        split at h
        · cases h
        rename_i r hr
        split at h
        · cases h
        rename_i rs' hrs
        injection h with h
        exact ⟨r, rs', hr, hrs, h.symm⟩
      | some pe =>
        simp only [verifyUpdates] at h
        split at h
        · cases h
        split at h
        · cases h
        rename_i r hr
        split at h
        · cases h
        rename_i rs' hrs
        injection h with h
        exact ⟨r, rs', hr, hrs, h.symm⟩
    obtain ⟨r, rs', hr, hrs, rfl⟩ := h'
    obtain ⟨e1, e2⟩ := ih _ _ hrs
    have hr' := (singleUpdate_ok hr).1
    subst hr'
    refine ⟨by rw [e1]; rfl, ?_⟩
    intro q hq
    rcases List.mem_cons.mp hq with rfl | hq
    · exact hr
    · exact e2 q hq

/-! ### the marker proofs -/

theorem verifyAll_ok {α β} (f : α → β → Except VErr Unit) :
    ∀ (as : List α) (bs : List β), verifyAll f as bs = .ok () →
      ∀ i (h1 : i < as.length) (h2 : i < bs.length), f as[i] bs[i] = .ok () := by
  intro as
  induction as with
  | nil => intro bs _ i h1; simp at h1
  | cons a as ih =>
    intro bs h i h1 h2
    cases bs with
    | nil => simp at h2
    | cons b bs =>
      simp only [verifyAll] at h
      split at h
      · cases h
      rename_i hab
      cases i with
      | zero => exact hab
      | succ j => exact ih bs h j (by simpa using h1) (by simpa using h2)

/-- every element of the first list has been checked against some element of the second, if the
second is at least as long -/
theorem verifyAll_mem {α β} (f : α → β → Except VErr Unit) (as : List α) (bs : List β)
    (h : verifyAll f as bs = .ok ()) (hl : as.length ≤ bs.length) {a : α} (ha : a ∈ as) :
    ∃ b ∈ bs, f a b = .ok () := by
  obtain ⟨i, hi, rfl⟩ := List.getElem_of_mem ha
  exact ⟨bs[i]'(by omega), List.getElem_mem _, verifyAll_ok f as bs h i hi (by omega)⟩

/-! ### the whole verifier -/

theorem history_ok {c : Cfg} {vrf : VrfTable} {root : Dig} {E : Nat} {u : Bytes} {π : HistoryProof}
    {p : HistoryParams} {allow : Bool} {rs : List VerifyResult}
    (h : history c vrf root E u π p allow = .ok rs) :
    ∃ past future, withHistoryParams E π p = .ok (past, future) ∧
      verifyUpdates c vrf root u allow none π.updates = .ok rs ∧
      (∀ v ∈ future, ∃ pf np, nonexistence c vrf root u true v pf np = .ok ()) := by
  unfold history at h
  split at h
  · cases h
  rename_i past future hw
  split at h
  · cases h
  rename_i rs' hu
  split at h
  · cases h
  split at h
  · cases h
  rename_i hf
  injection h with h
  subst h
  refine ⟨past, future, hw, hu, ?_⟩
  intro v hv
  obtain ⟨v0, sh⟩ := withHistoryParams_ok hw
  have hl : future.length ≤ (π.futureVrf.zip π.future).length := by
    rw [List.length_zip, sh.futureLen.1, sh.futureLen.2]; simp
  obtain ⟨b, _, hb⟩ := verifyAll_mem _ _ _ hf hl hv
  refine ⟨b.1, b.2, ?_⟩
  split at hb
  · cases hb
  · assumption

end Akd.Snd
