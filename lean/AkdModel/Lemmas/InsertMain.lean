/-
The main induction of C01b: `insertRec` on a represented sub-tree (or an empty position) and a
prefix-free batch computes a well-formed tree with exactly the old and the new leaves, represents
its children, and only writes below the position.
-/
import AkdModel.Lemmas.InsertStep
namespace Akd.Ins
open Akd NodeLabel NodeStore
open Akd.Canon (Incomp)

/-- the leaves a batch adds at epoch `ep` -/
def newLeaves (els : List (BitStr × Dig)) (ep : Nat) : List Leaf := els.map fun x => ⟨x.1, x.2, ep⟩

def LeafOK (epoch : Nat) (lf : Leaf) : Prop := 1 ≤ lf.ep ∧ lf.ep ≤ epoch ∧ lf.lbl.length ≤ 256

/-- the `0` sentinel of `set_child` -/
def oMin (a b : Option CTree) : Nat :=
  match a, b with
  | none, none => 0
  | some x, none => minEp x
  | none, some y => minEp y
  | some x, some y => min (minEp x) (minEp y)

def dir : Bool → Direction
  | false => .left
  | true => .right

/-- the node being worked on in Phase 2: label `p`, optional children `ch false` / `ch true` -/
structure St (c : Cfg) (m : InsertMode) (epoch : Nat) (p : BitStr) (ty : NodeType) (s : NodeStore)
    (cur : TreeNode) (ch : Bool → Option CTree) (done : Prop) : Prop where
  label : cur.label = ofBits p
  type : cur.nodeType = ty
  left : cur.left = olbl (ch false)
  right : cur.right = olbl (ch true)
  last_le : cur.lastEpoch ≤ epoch
  last_eq : done → cur.lastEpoch = epoch
  min_inv : cur.minDescEpoch = oMin (ch false) (ch true) ∨
    (cur.minDescEpoch = epoch ∧ ch false = none ∧ ch true = none)
  min_eq : done → cur.minDescEpoch = oMin (ch false) (ch true)
  kids : ∀ b t, ch b = some t → Rep c m s t ∧ t.WF ∧ (p ++ [b]) <+: t.lbl
  leafok : ∀ b, ∀ lf ∈ oleaves (ch b), LeafOK epoch lf

theorem St.mono {c m epoch p ty s cur ch} {done done' : Prop} (h : St c m epoch p ty s cur ch done)
    (hd : done' → done) : St c m epoch p ty s cur ch done' :=
  ⟨h.label, h.type, h.left, h.right, h.last_le, fun x => h.last_eq (hd x), h.min_inv,
    fun x => h.min_eq (hd x), h.kids, h.leafok⟩

/-- the specification of `insertRec` at a given amount of fuel -/
def Spec (c : Cfg) (m : InsertMode) (epoch fuel : Nat) : Prop :=
  ∀ (s : NodeStore) (pre : BitStr) (ot : Option CTree) (set : ElementSet Dig) (bs : List (BitStr × Dig)),
    257 ≤ fuel + pre.length → 1 ≤ pre.length →
    SetOK set → set.elems = bs.map enc → bs ≠ [] →
    (∀ b ∈ bs, pre <+: b.1 ∧ b.1.length ≤ 256) →
    (∀ t, ot = some t → Rep c m s t ∧ t.WF ∧ pre <+: t.lbl) →
    (∀ lf ∈ oleaves ot, LeafOK epoch lf) →
    (oleaves ot ++ newLeaves bs epoch).Pairwise Incomp →
    ∃ s' n isNew num t',
      insertRec c m epoch fuel s (olbl ot) set = .ok (s', n, isNew, num) ∧
      NodeIs c m t' n ∧ RepKids c m s' t' ∧ t'.WF ∧ pre <+: t'.lbl ∧
      t'.leaves.Perm (oleaves ot ++ newLeaves bs epoch) ∧ Frame pre s s'

theorem snoc_prefix_unique {p x : BitStr} {b d : Bool} (h1 : (p ++ [b]) <+: x) (h2 : (p ++ [d]) <+: x) :
    b = d := by
  have a := Canon.getElem?_of_snoc_prefix h1
  have b' := Canon.getElem?_of_snoc_prefix h2
  rw [a] at b'
  exact Option.some.inj b'

theorem mem_newLeaves {bs : List (BitStr × Dig)} {ep : Nat} {lf : Leaf} (h : lf ∈ newLeaves bs ep) :
    ∃ b ∈ bs, lf = ⟨b.1, b.2, ep⟩ := by
  obtain ⟨b, hb, rfl⟩ := List.mem_map.1 h
  exact ⟨b, hb, rfl⟩

theorem min_step (epoch : Nat) (hep : 1 ≤ epoch) (d : Bool) (ch : Bool → Option CTree) (t' : CTree) (cm : Nat)
    (hinv : cm = oMin (ch false) (ch true) ∨ (cm = epoch ∧ ch false = none ∧ ch true = none))
    (h2 : minEp t' ≤ epoch) (h3 : ∀ b x, ch b = some x → 1 ≤ minEp x)
    (h4 : ∀ y, ch d = some y → minEp t' ≤ minEp y) :
    (if cm = 0 then minEp t' else min cm (minEp t'))
      = oMin (if false = d then some t' else ch false) (if true = d then some t' else ch true) := by
  have key : ∀ (a b : Option CTree), ch false = a → ch true = b →
      (if cm = 0 then minEp t' else min cm (minEp t'))
        = oMin (if false = d then some t' else a) (if true = d then some t' else b) := by
    intro a b ha hb
    rw [ha, hb] at hinv
    have h3a : ∀ x, a = some x → 1 ≤ minEp x := fun x hx => h3 false x (ha.trans hx)
    have h3b : ∀ x, b = some x → 1 ≤ minEp x := fun x hx => h3 true x (hb.trans hx)
    rcases hinv with hinv | ⟨hc, h1, h2⟩
    · cases d
      · have h4a : ∀ x, a = some x → minEp t' ≤ minEp x := fun x hx => h4 x (ha.trans hx)
        simp only [if_true, Bool.true_eq_false, if_false]
        cases a with
        | none =>
          cases b with
          | none => simp only [oMin] at hinv ⊢; split <;> omega
          | some y => have := h3b y rfl; simp only [oMin] at hinv ⊢; split <;> omega
        | some x =>
          have := h3a x rfl
          have := h4a x rfl
          cases b with
          | none => simp only [oMin] at hinv ⊢; split <;> omega
          | some y => have := h3b y rfl; simp only [oMin] at hinv ⊢; split <;> omega
      · have h4b : ∀ x, b = some x → minEp t' ≤ minEp x := fun x hx => h4 x (hb.trans hx)
        simp only [if_true, Bool.false_eq_true, if_false]
        cases a with
        | none =>
          cases b with
          | none => simp only [oMin] at hinv ⊢; split <;> omega
          | some y => have := h3b y rfl; have := h4b y rfl; simp only [oMin] at hinv ⊢; split <;> omega
        | some x =>
          have := h3a x rfl
          cases b with
          | none => simp only [oMin] at hinv ⊢; split <;> omega
          | some y => have := h3b y rfl; have := h4b y rfl; simp only [oMin] at hinv ⊢; split <;> omega
    · subst h1 h2
      cases d
      · simp only [if_true, Bool.true_eq_false, if_false, oMin]; split <;> omega
      · simp only [if_true, Bool.false_eq_true, if_false, oMin]; split <;> omega
  exact key _ _ rfl rfl

theorem childLabel_dir {c m epoch p ty s cur ch done} (h : St c m epoch p ty s cur ch done) (d : Bool) :
    cur.childLabel (dir d) = olbl (ch d) := by
  cases d
  · exact h.left
  · exact h.right

/-- the leaves of the tree computed by a recursive call are fine -/
theorem leafOK_of_perm {epoch : Nat} (hep : 1 ≤ epoch) {old : List Leaf} {bs : List (BitStr × Dig)}
    {ls : List Leaf} (hp : ls.Perm (old ++ newLeaves bs epoch)) (hold : ∀ lf ∈ old, LeafOK epoch lf)
    (hbs : ∀ b ∈ bs, b.1.length ≤ 256) : ∀ lf ∈ ls, LeafOK epoch lf := by
  intro lf h
  rcases List.mem_append.1 (hp.mem_iff.1 h) with h | h
  · exact hold lf h
  · obtain ⟨b, hb, rfl⟩ := mem_newLeaves h
    exact ⟨hep, Nat.le_refl _, hbs b hb⟩

/-- one side of Phase 2 -/
theorem side_spec (c : Cfg) (m : InsertMode) (epoch fuel : Nat) (hep : 1 ≤ epoch)
    (hspec : Spec c m epoch fuel)
    {p : BitStr} {ty : NodeType} {s : NodeStore} {cur : TreeNode} {ch : Bool → Option CTree} {done : Prop}
    (hst : St c m epoch p ty s cur ch done) (d : Bool) (num : Nat)
    (hfuel : 257 ≤ fuel + (p.length + 1))
    (sub : ElementSet Dig) (bsd : List (BitStr × Dig)) (hok : SetOK sub) (hel : sub.elems = bsd.map enc)
    (hbs : ∀ b ∈ bsd, (p ++ [d]) <+: b.1 ∧ b.1.length ≤ 256)
    (hpf : (oleaves (ch d) ++ newLeaves bsd epoch).Pairwise Incomp) :
    ∃ s' cur' num' ch', side (insertRec c m epoch fuel) (dir d) s cur num sub = .ok (s', cur', num') ∧
      St c m epoch p ty s' cur' ch' (done ∨ bsd ≠ []) ∧ (∀ b, b ≠ d → ch' b = ch b) ∧
      (oleaves (ch' d)).Perm (oleaves (ch d) ++ newLeaves bsd epoch) ∧
      (ch' d = none → ch d = none ∧ bsd = []) ∧ Frame (p ++ [d]) s s' := by
  by_cases hne : bsd = []
  · subst hne
    refine ⟨s, cur, num, ch, ?_, hst.mono (fun h => h.elim id (fun h => absurd rfl h)), fun _ _ => rfl,
      by simp [newLeaves], fun h => ⟨h, rfl⟩, Frame.refl _ _⟩
    unfold side
    rw [hel]; rfl
  · -- the recursive call
    obtain ⟨s1, n, isNew, lnum, t', hrec, hn, hkids, hwf, hpre, hperm, hfr⟩ :=
      hspec s (p ++ [d]) (ch d) sub bsd (by simp; omega) (by simp) hok hel hne hbs
        (fun t ht => hst.kids d t ht) (hst.leafok d) hpf
    have hlok : ∀ lf ∈ t'.leaves, LeafOK epoch lf :=
      leafOK_of_perm hep hperm (hst.leafok d) (fun b hb => (hbs b hb).2)
    have hlen : ∀ lf ∈ t'.leaves, lf.lbl.length ≤ 256 := fun lf h => (hlok lf h).2.2
    have hq : t'.lbl.length ≤ 256 := lbl_length_le t' hwf hlen
    -- a new leaf
    obtain ⟨b0, hb0⟩ := List.exists_mem_of_ne_nil bsd hne
    have hnew : (⟨b0.1, b0.2, epoch⟩ : Leaf) ∈ t'.leaves :=
      hperm.mem_iff.2 (List.mem_append_right _ (List.mem_map_of_mem hb0))
    have hmax : maxEp t' = epoch := maxEp_eq t' epoch (fun lf h => (hlok lf h).2.1) _ hnew rfl
    have hminle : minEp t' ≤ epoch := minEp_le t' _ hnew
    -- setChild
    obtain ⟨cur2, hsc, c1, c2, c3, c4, c5, c6⟩ :=
      setChild_spec cur n p t'.lbl d hst.label (nodeIs_label hn) hq hpre
    -- writeNode
    obtain ⟨pv, hw⟩ := writeNode_ok s1 { n with parent := cur.label } isNew
    refine ⟨s1.setRec ⟨n.label, { n with parent := cur.label }, pv⟩, cur2, num + lnum,
      fun b => if b = d then some t' else ch b, ?_, ?_, ?_, ?_, ?_, ?_⟩
    · unfold side
      have hemp : sub.elems.isEmpty = false := by
        rw [hel]; cases bsd with
        | nil => exact absurd rfl hne
        | cons _ _ => rfl
      rw [hemp, childLabel_dir hst d, hrec]
      simp only [Bool.false_eq_true, if_false]
      rw [hsc]
      simp only
      rw [hw]
    · have hlast : cur2.lastEpoch = epoch := by
        rw [c5, nodeIs_lastEpoch hn, hmax]
        have := hst.last_le
        omega
      have hmin : cur2.minDescEpoch = oMin (if false = d then some t' else ch false)
          (if true = d then some t' else ch true) := by
        rw [c6, nodeIs_minDesc hn]
        apply min_step epoch hep d ch t' _ hst.min_inv hminle
        · intro b x hx
          obtain ⟨lf, h1, h2⟩ := minEp_mem x
          rw [← h2]
          exact (hst.leafok b lf (by simp [oleaves, hx, h1])).1
        · intro y hy
          apply minEp_mono
          intro lf h
          exact hperm.mem_iff.2 (List.mem_append_left _ (by simp [oleaves, hy, h]))
      refine ⟨c1.trans hst.label, c2.trans hst.type, ?_, ?_, by omega, fun _ => hlast, .inl hmin,
        fun _ => hmin, ?_, ?_⟩
      · rw [c3]
        cases d
        · simp [olbl, nodeIs_label hn]
        · simp [hst.left]
      · rw [c4]
        cases d
        · simp [hst.right]
        · simp [olbl, nodeIs_label hn]
      · intro b t hbt
        by_cases hbd : b = d
        · subst hbd
          simp only [if_true, Option.some.injEq] at hbt
          subst hbt
          exact ⟨rep_write t' hwf hlen { n with parent := cur.label } (nodeIs_parent hn cur.label) hkids pv,
            hwf, hpre⟩
        · simp only [hbd, if_false] at hbt
          obtain ⟨hr, hw', hp'⟩ := hst.kids b t hbt
          have hlent : ∀ lf ∈ t.leaves, lf.lbl.length ≤ 256 := fun lf h =>
            (hst.leafok b lf (by simp [oleaves, hbt, h])).2.2
          refine ⟨?_, hw', hp'⟩
          apply rep_setRec t hw' hlent t'.lbl hq
            (fun h => hbd (snoc_prefix_unique (hp'.trans h) hpre)) _ (nodeIs_label hn)
          exact rep_frame hfr t hw' hlent (fun x hx hx' => hbd (snoc_prefix_unique (hp'.trans hx) hx')) hr
      · intro b lf hlf
        by_cases hbd : b = d
        · subst hbd
          simp only [if_true, oleaves, Option.map_some, Option.getD_some] at hlf
          exact hlok lf hlf
        · simp only [hbd, if_false] at hlf
          exact hst.leafok b lf hlf
    · intro b hbd; simp [hbd]
    · simpa [oleaves] using hperm
    · intro h; simp at h
    · exact hfr.trans (frame_setRec (p ++ [d]) t'.lbl hq hpre _ _ (nodeIs_label hn))

/-! ### Phases 2 and 3 together -/

/-- all writes happened strictly below `p` -/
def Frame2 (p : BitStr) (s s' : NodeStore) : Prop :=
  ∀ b : BitStr, b.length ≤ 256 → ¬ (p ++ [false]) <+: b → ¬ (p ++ [true]) <+: b →
    s'.getRec (ofBits b) = s.getRec (ofBits b)

theorem Frame2.frame {p pre : BitStr} {s s' : NodeStore} (h : Frame2 p s s') (hp : pre <+: p) :
    Frame pre s s' := fun b hb hn =>
  h b hb (fun h' => hn (hp.trans (Canon.prefix_of_snoc_prefix h')))
    (fun h' => hn (hp.trans (Canon.prefix_of_snoc_prefix h')))

theorem goes_exists {p : BitStr} {x : BitStr × Dig} (h1 : p <+: x.1) (h2 : p.length < x.1.length) :
    ∃ d, goes p d x = true :=
  ⟨x.1[p.length], (goes_iff _ _ _).2 (Canon.snoc_prefix_of_getElem? h1 (List.getElem?_eq_getElem h2))⟩

theorem goes_unique {p : BitStr} {x : BitStr × Dig} {d d' : Bool} (h1 : goes p d x = true)
    (h2 : goes p d' x = true) : d = d' :=
  snoc_prefix_unique ((goes_iff _ _ _).1 h1) ((goes_iff _ _ _).1 h2)

theorem goes_true_eq_not {p : BitStr} {x : BitStr × Dig} (h1 : p <+: x.1) (h2 : p.length < x.1.length) :
    goes p true x = !goes p false x := by
  obtain ⟨d, hd⟩ := goes_exists h1 h2
  cases d
  · rw [hd]
    cases h : goes p true x
    · rfl
    · exact absurd (goes_unique h hd) (by decide)
  · rw [hd]
    cases h : goes p false x
    · rfl
    · exact absurd (goes_unique h hd) (by decide)

theorem newLeaves_filter_sublist (bs : List (BitStr × Dig)) (f : BitStr × Dig → Bool) (ep : Nat) :
    (newLeaves (bs.filter f) ep).Sublist (newLeaves bs ep) :=
  (List.filter_sublist (l := bs)).map _

theorem finish (c : Cfg) (m : InsertMode) (epoch fuel : Nat) (hep : 1 ≤ epoch)
    (hspec : Spec c m epoch fuel)
    {p : BitStr} {ty : NodeType} {s : NodeStore} {cur : TreeNode} {ch : Bool → Option CTree}
    (hst : St c m epoch p ty s cur ch False) (hty : ty ≠ .leaf)
    (hfuel : 257 ≤ fuel + (p.length + 1)) (isNew : Bool) (num : Nat)
    (set : ElementSet Dig) (bs : List (BitStr × Dig)) (hok : SetOK set) (hel : set.elems = bs.map enc)
    (hne : bs ≠ [])
    (hbs : ∀ b ∈ bs, p <+: b.1 ∧ p.length < b.1.length ∧ b.1.length ≤ 256)
    (hpf : ((oleaves (ch false) ++ oleaves (ch true)) ++ newLeaves bs epoch).Pairwise Incomp) :
    ∃ s' cur' num' ch',
      phase23 c m (insertRec c m epoch fuel) s cur isNew num set = .ok (s', cur', isNew, num') ∧
      St c m epoch p ty s' cur' ch' True ∧
      cur'.hash = c.parentHash (CRoot.childValue c (hm m) (ch' false)) (CRoot.childLabel c (ch' false))
        (CRoot.childValue c (hm m) (ch' true)) (CRoot.childLabel c (ch' true)) ∧
      (oleaves (ch' false) ++ oleaves (ch' true)).Perm
        ((oleaves (ch false) ++ oleaves (ch true)) ++ newLeaves bs epoch) ∧
      (∀ d, ch' d = none → ch d = none ∧ bs.filter (goes p d) = []) ∧ Frame2 p s s' := by
  obtain ⟨b0, hb0⟩ := List.exists_mem_of_ne_nil bs hne
  have hp256 : p.length ≤ 256 := by have := hbs b0 hb0; omega
  obtain ⟨okL, elL, okR, elR⟩ := partition_spec set bs p hok hel (fun b hb => ⟨(hbs b hb).1, (hbs b hb).2.2⟩) hp256
  have hbsd : ∀ d, ∀ b ∈ bs.filter (goes p d), (p ++ [d]) <+: b.1 ∧ b.1.length ≤ 256 := by
    intro d b hb
    rw [List.mem_filter] at hb
    exact ⟨(goes_iff _ _ _).1 hb.2, (hbs b hb.1).2.2⟩
  -- left
  obtain ⟨s1, cur1, num1, ch1, e1, st1, same1, perm1, none1, fr1⟩ :=
    side_spec c m epoch fuel hep hspec hst false num hfuel _ _ okL elL (hbsd false)
      (hpf.sublist ((List.sublist_append_left _ _).append (newLeaves_filter_sublist bs _ epoch)))
  have ht1 : ch1 true = ch true := same1 true (by decide)
  -- right
  obtain ⟨s2, cur2, num2, ch2, e2, st2, same2, perm2, none2, fr2⟩ :=
    side_spec c m epoch fuel hep hspec st1 true num1 hfuel _ _ okR elR (hbsd true)
      (by rw [ht1]; exact hpf.sublist ((List.sublist_append_right _ _).append (newLeaves_filter_sublist bs _ epoch)))
  have hf2 : ch2 false = ch1 false := same2 false (by decide)
  have hdone : (False ∨ bs.filter (goes p false) ≠ []) ∨ bs.filter (goes p true) ≠ [] := by
    obtain ⟨d, hd⟩ := goes_exists (hbs b0 hb0).1 (hbs b0 hb0).2.1
    have hm : b0 ∈ bs.filter (goes p d) := List.mem_filter.2 ⟨hb0, hd⟩
    cases d
    · exact .inl (.inr (List.ne_nil_of_mem hm))
    · exact .inr (List.ne_nil_of_mem hm)
  have st2' := st2.mono (done' := True) (fun _ => hdone)
  have hlast : cur2.lastEpoch = epoch := st2'.last_eq trivial
  have hrep : ∀ d t, ch2 d = some t → Rep c m s2 t ∧ maxEp t ≤ cur2.lastEpoch := by
    intro d t ht
    refine ⟨(st2'.kids d t ht).1, ?_⟩
    rw [hlast]
    exact maxEp_le t epoch (fun lf h => (st2'.leafok d lf (by simp [oleaves, ht, h])).2.1)
  have hup := updateHash_spec c m s2 cur2 (by rw [st2'.type]; exact hty) (ch2 false) (ch2 true)
    st2'.left st2'.right (hrep false) (hrep true)
  refine ⟨s2, { cur2 with
      hash := c.parentHash (CRoot.childValue c (hm m) (ch2 false)) (CRoot.childLabel c (ch2 false))
                (CRoot.childValue c (hm m) (ch2 true)) (CRoot.childLabel c (ch2 true)) },
    num2, ch2, ?_, ?_, rfl, ?_, ?_, ?_⟩
  · unfold phase23
    simp only [dir] at e1 e2
    rw [hst.label, e1]
    simp only
    rw [e2]
    simp only
    rw [hup]
  · exact ⟨st2'.label, st2'.type, st2'.left, st2'.right, st2'.last_le, st2'.last_eq, st2'.min_inv,
      st2'.min_eq, st2'.kids, st2'.leafok⟩
  · rw [hf2]
    rw [ht1] at perm2
    have hsplit : (newLeaves (bs.filter (goes p false)) epoch ++ newLeaves (bs.filter (goes p true)) epoch).Perm
        (newLeaves bs epoch) := by
      unfold newLeaves
      rw [← List.map_append]
      apply List.Perm.map
      have : bs.filter (goes p true) = bs.filter (fun x => !goes p false x) :=
        List.filter_congr (fun b hb => goes_true_eq_not (hbs b hb).1 (hbs b hb).2.1)
      rw [this]
      exact List.filter_append_perm _ _
    refine (perm1.append perm2).trans ?_
    refine List.Perm.trans ?_ (List.Perm.append_left _ hsplit)
    simp only [List.append_assoc]
    apply List.Perm.append_left
    rw [← List.append_assoc, ← List.append_assoc]
    exact List.Perm.append_right _ List.perm_append_comm
  · intro d hd
    cases d
    · rw [hf2] at hd
      exact none1 hd
    · have := none2 hd
      rw [ht1] at this
      exact this
  · intro b hb hn0 hn1
    exact (fr2 b hb hn1).trans (fr1 b hb hn0)

/-! ### assembling the result node -/

theorem conclude {c : Cfg} {m : InsertMode} {epoch : Nat} {pre p : BitStr} {s s' : NodeStore}
    {cur' : TreeNode} {ch' : Bool → Option CTree} {old : List Leaf} {bs : List (BitStr × Dig)}
    (hst : St c m epoch p .interior s' cur' ch' True)
    (hhash : cur'.hash = c.parentHash (CRoot.childValue c (hm m) (ch' false)) (CRoot.childLabel c (ch' false))
        (CRoot.childValue c (hm m) (ch' true)) (CRoot.childLabel c (ch' true)))
    (hperm : (oleaves (ch' false) ++ oleaves (ch' true)).Perm (old ++ newLeaves bs epoch)) (hne : bs ≠ [])
    (hsome : ∀ d, ch' d ≠ none) (hpre : pre <+: p) (hfr : Frame pre s s') :
    ∃ t', NodeIs c m t' cur' ∧ RepKids c m s' t' ∧ t'.WF ∧ pre <+: t'.lbl ∧
      t'.leaves.Perm (old ++ newLeaves bs epoch) ∧ Frame pre s s' := by
  obtain ⟨L, hL⟩ : ∃ L, ch' false = some L := by
    cases h : ch' false with
    | none => exact absurd h (hsome false)
    | some L => exact ⟨L, rfl⟩
  obtain ⟨R, hR⟩ : ∃ R, ch' true = some R := by
    cases h : ch' true with
    | none => exact absurd h (hsome true)
    | some R => exact ⟨R, rfl⟩
  have hperm' : (L.leaves ++ R.leaves).Perm (old ++ newLeaves bs epoch) := by
    simpa [oleaves, hL, hR] using hperm
  obtain ⟨b0, hb0⟩ := List.exists_mem_of_ne_nil bs hne
  have hnew : (⟨b0.1, b0.2, epoch⟩ : Leaf) ∈ L.leaves ++ R.leaves :=
    hperm'.mem_iff.2 (List.mem_append_right _ (List.mem_map_of_mem hb0))
  have hle : ∀ lf ∈ L.leaves ++ R.leaves, lf.ep ≤ epoch := by
    intro lf h
    rcases List.mem_append.1 h with h | h
    · exact (hst.leafok false lf (by simp [oleaves, hL, h])).2.1
    · exact (hst.leafok true lf (by simp [oleaves, hR, h])).2.1
  have hmax : maxEp (.node p L R) = epoch := maxEp_eq (.node p L R) epoch hle _ hnew rfl
  obtain ⟨kl1, kl2, kl3⟩ := hst.kids false L hL
  obtain ⟨kr1, kr2, kr3⟩ := hst.kids true R hR
  refine ⟨.node p L R, ?_, ⟨kl1, kr1⟩, ⟨kl3, kr3, kl2, kr2⟩, hpre, hperm', hfr⟩
  refine ⟨hst.label, hst.type, ?_, ?_, ?_, ?_, ?_⟩
  · rw [hst.left, hL]; rfl
  · rw [hst.right, hR]; rfl
  · rw [hhash, hL, hR]; rfl
  · rw [hst.last_eq trivial, hmax]
  · rw [hst.min_eq trivial, hL, hR]; rfl

theorem incomp_old_new {old : List Leaf} {bs : List (BitStr × Dig)} {ep : Nat}
    (hpf : (old ++ newLeaves bs ep).Pairwise Incomp) :
    ∀ a ∈ old, ∀ b ∈ bs, ¬ a.lbl <+: b.1 ∧ ¬ b.1 <+: a.lbl := by
  intro a ha b hb
  rw [List.pairwise_append] at hpf
  exact hpf.2.2 a ha ⟨b.1, b.2, ep⟩ (List.mem_map_of_mem hb)

/-- if not every element continues with the other bit, some element continues with `d` -/
theorem side_nonempty {p : BitStr} {bs : List (BitStr × Dig)}
    (hstrict : ∀ b ∈ bs, p <+: b.1 ∧ p.length < b.1.length) (d : Bool)
    (hnot : ¬ ∀ b ∈ bs, (p ++ [!d]) <+: b.1) : bs.filter (goes p d) ≠ [] := by
  intro h
  apply hnot
  intro b hb
  obtain ⟨d', hd'⟩ := goes_exists (hstrict b hb).1 (hstrict b hb).2
  have : d' ≠ d := by
    rintro rfl
    exact List.ne_nil_of_mem (List.mem_filter.2 ⟨hb, hd'⟩) h
  have hd : d' = !d := by cases d <;> cases d' <;> simp_all
  rw [← hd]
  exact (goes_iff _ _ _).1 hd'

end Akd.Ins
