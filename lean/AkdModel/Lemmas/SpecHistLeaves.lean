/-
Specification-level facts about whole histories (C04b), part 2: the leaf set of a later state,
restricted to the epochs of an earlier one, is the leaf set of the earlier one; and the current epoch
always has a leaf.
-/
import AkdModel.Lemmas.SpecHistInv
namespace Akd.SpecHist
open Akd Spec Pub

/-- what a new version adds to the leaf set carries the epoch of that version -/
theorem delta_ep (c : Cfg) (key : Dig) (vrf : VrfTable) (u : Bytes) (n : Nat) (v : Bytes) (e : Nat) :
    ∀ lf ∈ delta c key vrf u n v e, lf.ep = e := by
  intro lf h
  simp only [delta, List.mem_append] at h
  rcases h with h | h
  · unfold staleNew at h
    split at h
    · cases h
    · split at h
      · simp only [List.mem_singleton] at h; rw [h]
      · cases h
  · unfold freshNew at h
    split at h
    · simp only [List.mem_singleton] at h; rw [h]
    · cases h

/-- one batch: the leaf set grows by leaves of the new epoch only -/
theorem leaves_applyBatch (c : Cfg) (key : Dig) (vrf : VrfTable) (s : State) (b : List (Bytes × Bytes))
    (hI : Inv s) :
    applyBatch s b = s ∨ ∃ D : List Leaf, (∀ lf ∈ D, lf.ep = s.epoch + 1) ∧
      (Spec.leaves c key vrf (applyBatch s b).table).Perm (Spec.leaves c key vrf s.table ++ D) := by
  rcases applyBatch_cases' s b with h | ⟨hnd, _, h⟩
  · exact .inl h
  · right
    rw [h]
    obtain ⟨i1, _⟩ := fold_spec c key vrf (s.epoch + 1) s.table hI.vers
      (b.filter (isChange s.table)) s.table hnd (fun _ _ => rfl)
    refine ⟨_, ?_, i1⟩
    intro lf hlf
    obtain ⟨x, _, hx⟩ := List.mem_flatMap.1 hlf
    exact delta_ep c key vrf _ _ _ _ lf hx

theorem filter_leaves_applyBatch (c : Cfg) (key : Dig) (vrf : VrfTable) (s : State) (b : List (Bytes × Bytes))
    (hI : Inv s) (i : Nat) (hi : i ≤ s.epoch) :
    ((Spec.leaves c key vrf (applyBatch s b).table).filter (fun lf => lf.ep ≤ i)).Perm
      ((Spec.leaves c key vrf s.table).filter (fun lf => lf.ep ≤ i)) := by
  rcases leaves_applyBatch c key vrf s b hI with h | ⟨D, hD, hp⟩
  · rw [h]
  · refine (hp.filter _).trans ?_
    rw [List.filter_append]
    have : D.filter (fun lf => lf.ep ≤ i) = [] := by
      rw [List.filter_eq_nil_iff]
      intro lf hlf
      have := hD lf hlf
      simp only [decide_eq_true_eq]
      omega
    rw [this, List.append_nil]

theorem filter_leaves_foldl (c : Cfg) (key : Dig) (vrf : VrfTable) (i : Nat) :
    ∀ (h : List (List (Bytes × Bytes))) (s : State), Inv s → i ≤ s.epoch →
      ((Spec.leaves c key vrf (h.foldl applyBatch s).table).filter (fun lf => lf.ep ≤ i)).Perm
        ((Spec.leaves c key vrf s.table).filter (fun lf => lf.ep ≤ i))
  | [], _, _, _ => List.Perm.refl _
  | b :: h, s, hI, hi =>
    (filter_leaves_foldl c key vrf i h _ (inv_applyBatch s b hI)
      (Nat.le_trans hi (applyBatch_epoch_ge s b))).trans (filter_leaves_applyBatch c key vrf s b hI i hi)

/-- the leaves of a state carry epochs `1 ..` its epoch -/
theorem leaves_ep_inv (c : Cfg) (key : Dig) (vrf : VrfTable) (s : State) (hI : Inv s) :
    ∀ lf ∈ Spec.leaves c key vrf s.table, 1 ≤ lf.ep ∧ lf.ep ≤ s.epoch :=
  leaves_ep c key vrf s.table hI.keys 1 s.epoch hI.eps

/-- **(a)** the leaves of the whole history up to the epoch of a prefix are the leaves of the prefix -/
theorem leaves_prefix (c : Cfg) (key : Dig) (vrf : VrfTable) (h : List (List (Bytes × Bytes))) (k : Nat) :
    ((Spec.leaves c key vrf (Spec.run h).table).filter
        (fun lf => lf.ep ≤ (Spec.run (h.take k)).epoch)).Perm
      (Spec.leaves c key vrf (Spec.run (h.take k)).table) := by
  have hI := inv_run (h.take k)
  have h1 := filter_leaves_foldl c key vrf (Spec.run (h.take k)).epoch (h.drop k) _ hI (Nat.le_refl _)
  rw [← run_take_drop] at h1
  have h2 : (Spec.leaves c key vrf (Spec.run (h.take k)).table).filter
      (fun lf => lf.ep ≤ (Spec.run (h.take k)).epoch) = Spec.leaves c key vrf (Spec.run (h.take k)).table := by
    rw [List.filter_eq_self]
    intro lf hlf
    have := (leaves_ep_inv c key vrf _ hI lf hlf).2
    simpa using this
  rw [h2] at h1
  exact h1

/-- **(b)** the current epoch has a leaf, provided the oracle table knows the label of the version -/
theorem last_leaf (c : Cfg) (key : Dig) (vrf : VrfTable) (s : State) (hI : Inv s) (h0 : 1 ≤ s.epoch)
    (ht : ∀ x ∈ s.table, ∀ ver, 1 ≤ ver → ver ≤ s.epoch → (vrf.get? ⟨x.1, true, ver⟩).isSome) :
    ∃ lf ∈ Spec.leaves c key vrf s.table, lf.ep = s.epoch := by
  rcases hI.last with h | ⟨u, v, hv, he⟩
  · omega
  · have hmem : (u, s.table.get u) ∈ s.table := mem_of_get s.table u (fun h => by rw [h] at hv; cases hv)
    have hver := versOK_version_le (hI.vers u) hv
    have hlen := versOK_length_le (hI.vers u) s.epoch (hI.eps u)
    obtain ⟨l, hl⟩ := Option.isSome_iff_exists.1 (ht _ hmem v.version hver.1 (by omega))
    exact ⟨_, fresh_present c key s.table u v hv l hl, he⟩

end Akd.SpecHist
