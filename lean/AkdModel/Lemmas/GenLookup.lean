/-
Proof generation over storage, part 3 (directory level): in a state that represents the
specification state, `Dir.lookup` returns the honest lookup proof over the canonical tree, and that
proof verifies to the label's last version.
-/
import AkdModel.Thm.C01c
import AkdModel.Thm.C05
import AkdModel.Thm.C06
import AkdModel.Lemmas.GenProof
namespace Akd.Gen
open Akd

theorem markerVersion_bounds (v : Nat) (h : 1 ≤ v) : 1 ≤ Dir.markerVersion v ∧ Dir.markerVersion v ≤ v := by
  unfold Dir.markerVersion
  rw [Nat.shiftLeft_eq, Nat.one_mul]
  exact ⟨Nat.one_le_two_pow, Nat.log2_self_le (by omega)⟩

theorem genNonMembership_label (c : Cfg) (t : CRoot) (x : BitStr) :
    (t.genNonMembership c x).label = NodeLabel.ofBits x := by
  unfold CRoot.genNonMembership
  split
  rfl

/-- the honest lookup proof, on the canonical tree -/
def honestLookup (c : Cfg) (key : Dig) (t : CRoot) (u : Bytes) (last : Spec.Ver) (le lm ln : NodeLabel) : LookupProof :=
  ⟨last.epoch, last.value, last.version, some ⟨u, true, last.version⟩, t.genMembership c le.bits,
    some ⟨u, true, Dir.markerVersion last.version⟩, t.genMembership c lm.bits,
    some ⟨u, false, last.version⟩, t.genNonMembership c ln.bits, c.nonce key le last.version last.value⟩

/-- the honest lookup proof is accepted and verifies to the last version -/
theorem honestLookup_verifies (c : Cfg) (hc : c.Lawful) (hfresh : C05.EmptyLabelFresh c)
    (key : Dig) (vrf : VrfTable) (hv : C06.VrfOK vrf)
    (t : CRoot) (hwf : t.WF) (h256 : C05.Leaves256 t)
    (u : Bytes) (vs : List Spec.Ver) (hon : C06.HonestFor c key vrf t u vs)
    (last : Spec.Ver) (hlast : vs.getLast? = some last) (E : Nat) (hE : last.version ≤ E)
    (le lm ln : NodeLabel) (hle : vrf.get? ⟨u, true, last.version⟩ = some le)
    (hlm : vrf.get? ⟨u, true, Dir.markerVersion last.version⟩ = some lm)
    (hln : vrf.get? ⟨u, false, last.version⟩ = some ln) :
    Verify.lookup c vrf (t.rootHash c) E u (honestLookup c key t u last le lm ln)
      = .ok ⟨last.epoch, last.version, last.value⟩ := by
  have hV : Pub.VersOK vs := hon.versions
  have hmem : last ∈ vs := List.mem_of_getLast? hlast
  have hver : last.version = vs.length := Pub.versOK_last hV hlast
  have hver1 : 1 ≤ last.version := (Pub.versOK_version_le hV hmem).1
  -- the fresh leaf of the last version
  obtain ⟨l, hl, hleaf⟩ := hon.fresh_present last hmem
  rw [hle] at hl
  cases hl
  have he := C05.membership_complete_leaf c t hwf _ hleaf
  simp only at he
  rw [Pub.ofBits_bits_256 le (hv.len _ _ hle)] at he
  -- the fresh leaf of the marker version
  obtain ⟨m1, m2⟩ := markerVersion_bounds last.version hver1
  have hmi : Dir.markerVersion last.version - 1 < vs.length := by omega
  obtain ⟨l', hl', hleaf'⟩ := hon.fresh_present (vs[Dir.markerVersion last.version - 1]) (List.getElem_mem hmi)
  have hmv : (vs[Dir.markerVersion last.version - 1]).version = Dir.markerVersion last.version := by
    rw [hV.1 _ hmi]; omega
  rw [hmv, hlm] at hl'
  cases hl'
  have hm := C05.membership_complete_leaf c t hwf _ hleaf'
  simp only at hm
  rw [Pub.ofBits_bits_256 lm (hv.len _ _ hlm)] at hm
  -- the stale label of the last version is absent
  have hnot : ∀ lf ∈ t.leaves, lf.lbl ≠ ln.bits := by
    intro lf hlf hlb
    obtain ⟨w, hw, hwv⟩ := (hon.stale_iff last.version ln hver1 hln).1 ⟨lf, hlf, hlb⟩
    have := (Pub.versOK_version_le hV hw).2
    omega
  have hne : t ≠ CRoot.empty := by
    intro h
    rw [h] at hleaf
    simp [CRoot.empty, CRoot.leaves] at hleaf
  have hn := C05.nonmembership_complete c hc hfresh t hwf h256 hne ln.bits
    (Pub.bits_length_256 ln (hv.len _ _ hln)) hnot
  have hnl : (t.genNonMembership c ln.bits).label = ln := by
    rw [genNonMembership_label, Pub.ofBits_bits_256 ln (hv.len _ _ hln)]
  have hve := C05.membership_complete c t le.bits
  have hvm := C05.membership_complete c t lm.bits
  simp [Verify.lookup, honestLookup, Verify.existenceWithVal, Verify.existence, Verify.nonexistence,
    Verify.verifyLabel, he.1, he.2, hm.1, hnl, hle, hlm, hln, hve, hvm, hn, Nat.not_lt.2 hE,
    Nat.pos_iff_ne_zero.1 hver1]


/-- what the tree code needs to know about the tree of a state that represents `sp` -/
theorem refines_tree_facts (c : Cfg) (d : Dir) (sp : Spec.State) (hv : C06.VrfOK d.vrf) (href : C01.Refines c d sp) :
    let t := CRoot.ofLeaves (Spec.leaves c d.commitmentKey d.vrf sp.table)
    t.WF ∧ C05.Leaves256 t ∧ (∀ lf ∈ t.leaves, lf.ep ≤ sp.epoch) := by
  intro t
  have hV : ∀ u, Pub.VersOK (sp.table.get u) := fun u => (href.versions u).1
  have hpfL := Pub.prefixFree_leaves hv.inj hv.len c d.commitmentKey sp.table href.keys hV
  have hlenL := Pub.leaves_len hv.len c d.commitmentKey sp.table
  have hepL := Pub.leaves_ep c d.commitmentKey d.vrf sp.table href.keys 1 sp.epoch (fun u => (href.versions u).2)
  have hspecL := C01.ofLeaves_spec _ hpfL (fun x hx h => by have := hlenL x hx; rw [h] at this; cases this)
  exact ⟨hspecL.1, fun lf hlf => hlenL lf (hspecL.2.mem_iff.1 hlf),
    fun lf hlf => (hepL lf (hspecL.2.mem_iff.1 hlf)).2⟩

/-- generation: the three tree proofs of a 256-bit label in a state that represents `sp` -/
theorem refines_gen (c : Cfg) (d : Dir) (sp : Spec.State) (hv : C06.VrfOK d.vrf) (href : C01.Refines c d sp)
    (n : Nat) (l : NodeLabel) (hl : l.len = 256) :
    let t := CRoot.ofLeaves (Spec.leaves c d.commitmentKey d.vrf sp.table)
    d.nodes.rootHash c ⟨sp.epoch, n⟩ = .ok (t.rootHash c) ∧
    d.nodes.membershipProof c ⟨sp.epoch, n⟩ l = .ok (t.genMembership c l.bits) ∧
    d.nodes.nonMembershipProof c ⟨sp.epoch, n⟩ l = .ok (t.genNonMembership c l.bits) := by
  intro t
  obtain ⟨hwf, h256, hep⟩ := refines_tree_facts c d sp hv href
  have hrep := (C01.reprRoot_iff c .directory d.nodes t).1 href.tree
  have hlen : ∀ lf ∈ t.leaves, lf.lbl.length ≤ 256 := fun lf h => by rw [h256 lf h]; exact Nat.le_refl _
  have hx : l.bits.length ≤ 256 := by rw [Pub.bits_length_256 l hl]; exact Nat.le_refl _
  have hnp : ∀ lf ∈ t.leaves, lf.lbl <+: l.bits → lf.lbl = l.bits := fun lf hlf hp =>
    hp.eq_of_length_le (by rw [h256 lf hlf]; exact hx)
  refine ⟨C01.rootHash_of_reprRoot c .directory d.nodes t sp.epoch n href.tree hep, ?_, ?_⟩
  · have := membershipProof_core c d.nodes ⟨sp.epoch, n⟩ t l.bits hx hrep hwf hlen hep hnp
    rwa [Pub.ofBits_bits_256 l hl] at this
  · have := nonMembershipProof_core c d.nodes ⟨sp.epoch, n⟩ t l.bits hx hrep hwf hlen hep hnp
    rwa [Pub.ofBits_bits_256 l hl] at this

theorem lookup_unpublished_core (c : Cfg) (d : Dir) (sp : Spec.State) (href : C01.Refines c d sp) (u : Bytes)
    (hnone : sp.table.get u = []) : d.lookup c u = .error .notFound := by
  obtain ⟨n, hazks⟩ := href.azks
  unfold Dir.lookup
  simp only [throw, throwThe, MonadExceptOf.throw, hazks,
    Pub.stateLeq_none d sp.table sp.epoch href.states u hnone]

theorem lookup_gen (c : Cfg) (d : Dir) (sp : Spec.State) (users : List Bytes) (N : Nat)
    (hv : C06.VrfOK d.vrf) (ht : C01.VrfTotal d.vrf users N) (hN : sp.epoch + 1 ≤ N)
    (href : C01.Refines c d sp) (u : Bytes) (hmem : u ∈ users) (last : Spec.Ver)
    (hlast : (sp.table.get u).getLast? = some last) :
    last.version ≤ sp.epoch ∧
    ∃ le lm ln, d.vrf.get? ⟨u, true, last.version⟩ = some le ∧
      d.vrf.get? ⟨u, true, Dir.markerVersion last.version⟩ = some lm ∧
      d.vrf.get? ⟨u, false, last.version⟩ = some ln ∧
      d.lookup c u = .ok (honestLookup c d.commitmentKey
          (CRoot.ofLeaves (Spec.leaves c d.commitmentKey d.vrf sp.table)) u last le lm ln,
        sp.epoch, Spec.rootHash c d.commitmentKey d.vrf sp) := by
  obtain ⟨n, hazks⟩ := href.azks
  have hV : Pub.VersOK (sp.table.get u) := (href.versions u).1
  have hEp := (href.versions u).2
  have hlmem : last ∈ sp.table.get u := List.mem_of_getLast? hlast
  have hlen := Pub.versOK_length_le hV _ hEp
  obtain ⟨hv1, hv2⟩ := Pub.versOK_version_le hV hlmem
  obtain ⟨m1, m2⟩ := markerVersion_bounds last.version hv1
  obtain ⟨st, hst, _, hsv, hsval, hsep⟩ := Pub.stateLeq_some d sp.table sp.epoch href.states u hV
    (fun v hvm => (hEp v hvm).2) last hlast
  obtain ⟨le, hle⟩ := Option.isSome_iff_exists.1 (ht u hmem true last.version hv1 (by omega))
  obtain ⟨lm, hlm⟩ := Option.isSome_iff_exists.1 (ht u hmem true (Dir.markerVersion last.version) m1 (by omega))
  obtain ⟨ln, hln⟩ := Option.isSome_iff_exists.1 (ht u hmem false last.version hv1 (by omega))
  obtain ⟨g1, g2, _⟩ := refines_gen c d sp hv href n le (hv.len _ _ hle)
  obtain ⟨_, g3, _⟩ := refines_gen c d sp hv href n lm (hv.len _ _ hlm)
  obtain ⟨_, _, g4⟩ := refines_gen c d sp hv href n ln (hv.len _ _ hln)
  refine ⟨by omega, le, lm, ln, hle, hlm, hln, ?_⟩
  unfold Dir.lookup
  simp only [bind, Except.bind, pure, Except.pure, hazks, hst,
    Dir.vrfLabel, hsv, hle, hlm, hln, g1, g2, g3, g4, Dir.liftT, hsval, hsep]
  rfl

end Akd.Gen
