/-
Store side of the publish theorem (C01c): `begin` / `commit` around `batchInsert`.
Everything the tree code does to the store is a sequence of `setRec`; while a transaction is
active these writes keep the log keyed by the records' own labels, one binding per key, so that
`commit` (which replays the log into the database) preserves every read.
-/
import AkdModel.Thm.C01b
namespace Akd.Pub
open Akd NodeStore

/-! ### reads are all that `ReprRoot` sees -/

theorem repr_getRec_congr (c : Cfg) (m : InsertMode) (s s' : NodeStore)
    (h : ∀ k, s'.getRec k = s.getRec k) : ∀ t : CTree, C01.Repr c m s t → C01.Repr c m s' t
  | .leaf _ _ _, hr => by
    simp only [C01.Repr] at hr ⊢
    rw [h]; exact hr
  | .node _ l r, hr => by
    simp only [C01.Repr] at hr ⊢
    rw [h]
    exact ⟨hr.1, repr_getRec_congr c m s s' h l hr.2.1, repr_getRec_congr c m s s' h r hr.2.2⟩

theorem reprRoot_getRec_congr (c : Cfg) (m : InsertMode) (s s' : NodeStore)
    (h : ∀ k, s'.getRec k = s.getRec k) (t : CRoot) (hr : C01.ReprRoot c m s t) : C01.ReprRoot c m s' t := by
  obtain ⟨h1, h2, h3⟩ := hr
  refine ⟨?_, fun a ha => repr_getRec_congr c m s s' h a (h2 a ha),
    fun a ha => repr_getRec_congr c m s s' h a (h3 a ha)⟩
  rw [h]; exact h1

/-! ### `begin` -/

theorem getRec_begin (s : NodeStore) (h1 : s.inTxn = false) (h2 : s.log = []) (k : NodeLabel) :
    s.begin.getRec k = s.getRec k := by
  simp [NodeStore.begin, NodeStore.getRec, h1, h2, NodeMap.get?]

/-! ### the log invariant -/

/-- a transaction is active; the log is keyed by the records' labels, one binding per key -/
def LogOK (s : NodeStore) : Prop :=
  s.inTxn = true ∧ (∀ kr ∈ s.log, kr.1 = kr.2.label) ∧ s.log.Pairwise (fun a b => a.1 ≠ b.1)

theorem logOK_begin (s : NodeStore) (h2 : s.log = []) : LogOK s.begin := by
  simp [LogOK, NodeStore.begin, h2]

theorem mem_set (m : NodeMap) (r : NodeRec) : ∀ kr ∈ NodeMap.set m r, kr ∈ m ∨ kr = (r.label, r) := by
  induction m with
  | nil => intro kr h; simp [NodeMap.set] at h; exact .inr h
  | cons x rest ih =>
    obtain ⟨k', r'⟩ := x
    intro kr h
    simp only [NodeMap.set] at h
    split at h
    · rename_i hk
      rcases List.mem_cons.1 h with h | h
      · right; rw [h, hk]
      · left; exact List.mem_cons_of_mem _ h
    · rcases List.mem_cons.1 h with h | h
      · left; rw [h]; exact List.mem_cons_self
      · rcases ih kr h with h | h
        · left; exact List.mem_cons_of_mem _ h
        · right; exact h

theorem pairwise_set (m : NodeMap) (r : NodeRec) (hp : m.Pairwise (fun a b => a.1 ≠ b.1)) :
    (NodeMap.set m r).Pairwise (fun a b => a.1 ≠ b.1) := by
  induction m with
  | nil => simp [NodeMap.set]
  | cons x rest ih =>
    obtain ⟨k', r'⟩ := x
    rw [List.pairwise_cons] at hp
    simp only [NodeMap.set]
    split
    · rw [List.pairwise_cons]
      exact ⟨fun a ha => hp.1 a ha, hp.2⟩
    · rename_i hk
      rw [List.pairwise_cons]
      refine ⟨fun a ha => ?_, ih hp.2⟩
      rcases mem_set rest r a ha with h | h
      · exact hp.1 a h
      · rw [h]; exact hk

theorem logOK_setRec (s : NodeStore) (r : NodeRec) (h : LogOK s) : LogOK (s.setRec r) := by
  obtain ⟨h1, h2, h3⟩ := h
  unfold NodeStore.setRec
  rw [if_pos h1]
  refine ⟨h1, fun kr hkr => ?_, pairwise_set _ _ h3⟩
  rcases mem_set _ _ kr hkr with h | h
  · exact h2 kr h
  · rw [h]

/-! ### every store operation of the tree code is a sequence of `setRec` -/

section Inv
variable (P : NodeStore → Prop) (hP : ∀ s r, P s → P (s.setRec r))
include hP

theorem inv_writeNode {s s' : NodeStore} {n : TreeNode} {isNew : Bool}
    (h : s.writeNode n isNew = .ok s') (hs : P s) : P s' := by
  obtain ⟨p, hp⟩ := Ins.writeNode_ok s n isNew
  rw [hp] at h
  cases h
  exact hP _ _ hs

theorem inv_phase1 {c : Cfg} {epoch : Nat} {s s' : NodeStore} {nl : Option NodeLabel} {set : ElementSet Dig}
    {cur : TreeNode} {isNew : Bool} {num : Nat}
    (h : Ins.phase1 c epoch s nl set = .ok (s', cur, isNew, num)) (hs : P s) : P s' := by
  unfold Ins.phase1 at h
  split at h
  · split at h
    · cases h
    · simp only at h
      split at h
      · split at h
        · cases h
        · split at h
          · cases h
          · rename_i hw
            cases h
            exact inv_writeNode P hP hw hs
      · cases h; exact hs
  · cases h; exact hs
  · cases h; exact hs

theorem inv_side {rec : Ins.RecFn}
    (hrec : ∀ s nl set s' n b k, rec s nl set = .ok (s', n, b, k) → P s → P s')
    {d : Direction} {s s' : NodeStore} {cur cur' : TreeNode} {num num' : Nat} {sub : ElementSet Dig}
    (h : Ins.side rec d s cur num sub = .ok (s', cur', num')) (hs : P s) : P s' := by
  unfold Ins.side at h
  split at h
  · cases h; exact hs
  · split at h
    · cases h
    · rename_i hr
      split at h
      · cases h
      · split at h
        · cases h
        · rename_i hw
          cases h
          exact inv_writeNode P hP hw (hrec _ _ _ _ _ _ _ hr hs)

theorem inv_phase23 {c : Cfg} {mode : InsertMode} {rec : Ins.RecFn}
    (hrec : ∀ s nl set s' n b k, rec s nl set = .ok (s', n, b, k) → P s → P s')
    {s s' : NodeStore} {cur cur' : TreeNode} {isNew isNew' : Bool} {num num' : Nat} {set : ElementSet Dig}
    (h : Ins.phase23 c mode rec s cur isNew num set = .ok (s', cur', isNew', num')) (hs : P s) : P s' := by
  unfold Ins.phase23 at h
  split at h
  · cases h
  · rename_i h1
    split at h
    · cases h
    · rename_i h2
      split at h
      · cases h
      · cases h
        exact inv_side P hP hrec h2 (inv_side P hP hrec h1 hs)

theorem inv_insertRec (c : Cfg) (mode : InsertMode) (epoch : Nat) : ∀ (fuel : Nat) (s : NodeStore)
    (nl : Option NodeLabel) (set : ElementSet Dig) (s' : NodeStore) (n : TreeNode) (b : Bool) (k : Nat),
    insertRec c mode epoch fuel s nl set = .ok (s', n, b, k) → P s → P s'
  | 0, _, _, _, _, _, _, _, h, _ => by simp [insertRec] at h
  | fuel + 1, s, nl, set, s', n, b, k, h, hs => by
    rw [Ins.insertRec_succ] at h
    split at h
    · cases h
    · rename_i h1
      exact inv_phase23 P hP (inv_insertRec c mode epoch fuel) h (inv_phase1 P hP h1 hs)

theorem inv_batchInsert {c : Cfg} {mode : InsertMode} {s s' : NodeStore} {a a' : Azks}
    {nodes : List (NodeLabel × Dig)}
    (h : s.batchInsert c mode a nodes = .ok (s', a')) (hs : P s) : P s' := by
  unfold NodeStore.batchInsert at h
  simp only at h
  split at h
  · cases h; exact hs
  · split at h
    · cases h
    · rename_i hr
      split at h
      · cases h
      · rename_i hw
        cases h
        exact inv_writeNode P hP hw (inv_insertRec P hP c mode _ _ _ _ _ _ _ _ _ hr hs)

end Inv

theorem logOK_batchInsert {c : Cfg} {mode : InsertMode} {s s' : NodeStore} {a a' : Azks}
    {nodes : List (NodeLabel × Dig)}
    (h : s.batchInsert c mode a nodes = .ok (s', a')) (hs : LogOK s) : LogOK s' :=
  inv_batchInsert LogOK logOK_setRec h hs

/-! ### `commit` -/

theorem get_foldl_set : ∀ (log db : NodeMap) (k : NodeLabel),
    (∀ kr ∈ log, kr.1 = kr.2.label) → log.Pairwise (fun a b => a.1 ≠ b.1) →
    NodeMap.get? (log.foldl (fun d (kr : NodeLabel × NodeRec) => NodeMap.set d kr.2) db) k =
      match NodeMap.get? log k with
      | some r => some r
      | none => NodeMap.get? db k
  | [], db, k, _, _ => by simp [NodeMap.get?]
  | (k', r') :: rest, db, k, hk, hp => by
    rw [List.pairwise_cons] at hp
    have hk' : k' = r'.label := hk (k', r') List.mem_cons_self
    rw [List.foldl_cons, get_foldl_set rest _ k (fun kr h => hk kr (List.mem_cons_of_mem _ h)) hp.2]
    simp only [NodeMap.get?]
    by_cases h : k' = k
    · have hnone : NodeMap.get? rest k = none := by
        have : ∀ (m : NodeMap), (∀ a ∈ m, k ≠ a.1) → NodeMap.get? m k = none := by
          intro m
          induction m with
          | nil => intro _; rfl
          | cons x xs ih =>
            intro hm
            obtain ⟨a, b⟩ := x
            simp only [NodeMap.get?]
            rw [if_neg (fun e => hm (a, b) List.mem_cons_self e.symm)]
            exact ih (fun y hy => hm y (List.mem_cons_of_mem _ hy))
        exact this rest (fun a ha => h ▸ hp.1 a ha)
      rw [hnone, if_pos h, Ins.map_get_set, if_pos (h ▸ hk')]
    · rw [if_neg h]
      cases NodeMap.get? rest k with
      | some r => rfl
      | none =>
        simp only
        rw [Ins.map_get_set, if_neg (fun e => h (hk'.trans e.symm))]

theorem getRec_commit (s : NodeStore) (h : LogOK s) (k : NodeLabel) : s.commit.getRec k = s.getRec k := by
  obtain ⟨h1, h2, h3⟩ := h
  simp only [NodeStore.commit, NodeStore.getRec, h1, if_true, Bool.false_eq_true, if_false]
  rw [get_foldl_set s.log s.db k h2 h3]
  cases NodeMap.get? s.log k <;> rfl

theorem commit_idle (s : NodeStore) : s.commit.inTxn = false ∧ s.commit.log = [] := ⟨rfl, rfl⟩

end Akd.Pub
