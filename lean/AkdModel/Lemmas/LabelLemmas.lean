/-
Helper lemmas for C17 (byte/bit facts about `NodeLabel`).
The lemmas are split over `LabelBytes` (bytes vs. bits), `LabelLex` (bit-string order, common
prefixes, `cmp`/`lcp`/`prefixOrdering`), `LabelSearch` (sorting and binary search) and
`LabelSets` (the `AzksElementSet` operations).
-/
import AkdModel.Lemmas.LabelBytes
import AkdModel.Lemmas.LabelLex
import AkdModel.Lemmas.LabelSearch
import AkdModel.Lemmas.LabelSets
