/-
Helper lemmas for C17 (byte/bit facts about `NodeLabel`).
The lemmas are split over `LabelBytes` (bytes vs. bits), `LabelLex` (bit-string order and
common prefixes) and `LabelSearch` (sorting and binary search).
-/
import AkdModel.Lemmas.LabelBytes
import AkdModel.Lemmas.LabelLex
