/-
Helper lemmas for C17, part 3: the label order is a total preorder, insertion sort sorts,
and Rust's `binary_search_by` / `partition_point` on a monotone comparator.
-/
import AkdModel.Lemmas.LabelLex
namespace Akd

/-! ### the label order, sorting -/

namespace NodeLabel

theorem cmp_ne_gt_iff (a b : NodeLabel) :
    cmp a b ≠ .gt ↔ a.len < b.len ∨
      (a.len = b.len ∧ BitStr.toNat a.bits256 ≤ BitStr.toNat b.bits256) := by
  rw [cmp_eq, BitStr.lex_eq_compare _ _ (by simp [bits256_length])]
  rcases Nat.lt_trichotomy a.len b.len with h | h | h
  · simp [Nat.compare_eq_lt.mpr h, h]
  · simp only [h, Nat.compare_eq_eq.mpr, Ordering.eq_then, Nat.lt_irrefl, true_and, false_or]
    rw [ne_eq, Nat.compare_eq_gt]; omega
  · simp [Nat.compare_eq_gt.mpr h]; omega

theorem cmp_total (a b : NodeLabel) (h : ¬ cmp a b ≠ .gt) : cmp b a ≠ .gt := by
  rw [cmp_ne_gt_iff] at *; omega

theorem cmp_trans (a b c : NodeLabel) (h1 : cmp a b ≠ .gt) (h2 : cmp b c ≠ .gt) : cmp a c ≠ .gt := by
  rw [cmp_ne_gt_iff] at *; omega

end NodeLabel

theorem insertByLabel_perm {α} (x : NodeLabel × α) (ys : List (NodeLabel × α)) :
    (insertByLabel x ys).Perm (x :: ys) := by
  induction ys with
  | nil => simp [insertByLabel]
  | cons y ys ih =>
    simp only [insertByLabel]
    split
    · exact (List.Perm.cons y ih).trans (List.Perm.swap x y ys)
    · exact List.Perm.refl _

theorem insertByLabel_sorted {α} (x : NodeLabel × α) (ys : List (NodeLabel × α))
    (h : ys.Pairwise (fun x y => NodeLabel.cmp x.1 y.1 ≠ .gt)) :
    (insertByLabel x ys).Pairwise (fun x y => NodeLabel.cmp x.1 y.1 ≠ .gt) := by
  induction ys with
  | nil => simp [insertByLabel]
  | cons y ys ih =>
    rw [List.pairwise_cons] at h
    simp only [insertByLabel]
    split
    · rename_i hgt
      rw [List.pairwise_cons]
      refine ⟨fun z hz => ?_, ih h.2⟩
      have := (insertByLabel_perm x ys).mem_iff.mp hz
      rcases List.mem_cons.mp this with rfl | hz'
      · exact NodeLabel.cmp_total _ _ (by simpa using hgt)
      · exact h.1 z hz'
    · rename_i hgt
      have hxy : NodeLabel.cmp x.1 y.1 ≠ .gt := by simpa using hgt
      rw [List.pairwise_cons]
      refine ⟨fun z hz => ?_, List.pairwise_cons.mpr h⟩
      rcases List.mem_cons.mp hz with rfl | hz'
      · exact hxy
      · exact NodeLabel.cmp_trans _ _ _ hxy (h.1 z hz')

theorem sortByLabel_sorted' {α} (xs : List (NodeLabel × α)) :
    (sortByLabel xs).Pairwise (fun x y => NodeLabel.cmp x.1 y.1 ≠ .gt) ∧
    (sortByLabel xs).Perm xs := by
  induction xs with
  | nil => simp [sortByLabel]
  | cons x xs ih =>
    have : sortByLabel (x :: xs) = insertByLabel x (sortByLabel xs) := rfl
    rw [this]
    exact ⟨insertByLabel_sorted x _ ih.1, (insertByLabel_perm x _).trans (List.Perm.cons x ih.2)⟩


/-! ### binary search -/

/-- rank of an `Ordering` in the order `lt < eq < gt` -/
def rk : Ordering → Nat
  | .lt => 0
  | .eq => 1
  | .gt => 2

theorem bs_loop_zero {α} (f : α → Ordering) (xs : Array α) (base size : Nat) :
    binarySearchBy.loop f xs 0 base size = base := rfl

theorem bs_loop_small {α} (f : α → Ordering) (xs : Array α) (fuel base size : Nat) (hs : ¬ size > 1) :
    binarySearchBy.loop f xs fuel base size = base := by
  cases fuel with
  | zero => rfl
  | succ fuel => simp only [binarySearchBy.loop, hs, ↓reduceIte]

theorem bs_loop_gt {α} (f : α → Ordering) (xs : Array α) (fuel base size : Nat) (hs : size > 1)
    (hmid : base + size / 2 < xs.size) (hc : f xs[base + size / 2] = .gt) :
    binarySearchBy.loop f xs (fuel + 1) base size
      = binarySearchBy.loop f xs fuel base (size - size / 2) := by
  simp only [binarySearchBy.loop, hs, ↓reduceIte, Array.getElem?_eq_getElem hmid, hc, beq_self_eq_true]

theorem bs_loop_ngt {α} (f : α → Ordering) (xs : Array α) (fuel base size : Nat) (hs : size > 1)
    (hmid : base + size / 2 < xs.size) (hc : f xs[base + size / 2] ≠ .gt) :
    binarySearchBy.loop f xs (fuel + 1) base size
      = binarySearchBy.loop f xs fuel (base + size / 2) (size - size / 2) := by
  have hc' : (f xs[base + size / 2] == .gt) = false := by
    cases hfi : f xs[base + size / 2] <;> simp_all
  simp only [binarySearchBy.loop, hs, ↓reduceIte, Array.getElem?_eq_getElem hmid, hc', Bool.false_eq_true]

/-- what the halving loop establishes about the index it returns -/
def BsPost {α} (f : α → Ordering) (xs : Array α) (b : Nat) : Prop :=
  b < xs.size ∧ (b = 0 ∨ ∃ h : b < xs.size, f xs[b] ≠ .gt) ∧
    ∀ i (h : i < xs.size), b + 1 ≤ i → f xs[i] = .gt

theorem bs_loop_spec {α} (f : α → Ordering) (xs : Array α)
    (hmono : ∀ i j (_ : i < j) (hj : j < xs.size), rk (f xs[i]) ≤ rk (f xs[j]))
    (fuel base size : Nat) (h1 : 1 ≤ size) (h2 : base + size ≤ xs.size) (h3 : size ≤ fuel + 1)
    (hA : base = 0 ∨ ∃ h : base < xs.size, f xs[base] ≠ .gt)
    (hB : ∀ i (h : i < xs.size), base + size ≤ i → f xs[i] = .gt) :
    BsPost f xs (binarySearchBy.loop f xs fuel base size) := by
  induction fuel generalizing base size with
  | zero =>
    have : size = 1 := by omega
    subst this
    rw [bs_loop_zero]
    exact ⟨by omega, hA, hB⟩
  | succ fuel ih =>
    by_cases hs : size > 1
    · have hmid : base + size / 2 < xs.size := by omega
      by_cases hc : f xs[base + size / 2] = .gt
      · rw [bs_loop_gt f xs fuel base size hs hmid hc]
        apply ih base (size - size / 2) (by omega) (by omega) (by omega) hA
        intro i hi hle
        by_cases him : i = base + size / 2
        · subst him; exact hc
        · have := hmono (base + size / 2) i (by omega) hi
          rw [hc] at this
          cases hfi : f xs[i] <;> simp [hfi, rk] at this ⊢
      · rw [bs_loop_ngt f xs fuel base size hs hmid hc]
        apply ih (base + size / 2) (size - size / 2) (by omega) (by omega) (by omega)
          (Or.inr ⟨hmid, hc⟩)
        intro i hi hle
        exact hB i hi (by omega)
    · have : size = 1 := by omega
      subst this
      rw [bs_loop_small _ _ _ _ _ hs]
      exact ⟨by omega, hA, hB⟩

theorem rk_le_lt {o : Ordering} (h : rk o ≤ rk .lt) : o = .lt := by
  cases o <;> simp [rk] at h ⊢

theorem bs_spec {α} (f : α → Ordering) (xs : Array α)
    (hmono : ∀ i j (_ : i < j) (hj : j < xs.size), rk (f xs[i]) ≤ rk (f xs[j])) :
    ((binarySearchBy f xs).1 = true ↔ ∃ i, ∃ h : i < xs.size, f xs[i] = .eq) ∧
    ((∀ i (h : i < xs.size), f xs[i] ≠ .eq) →
      (binarySearchBy f xs).2 ≤ xs.size ∧
      ∀ i (h : i < xs.size), (i < (binarySearchBy f xs).2 → f xs[i] = .lt) ∧
        ((binarySearchBy f xs).2 ≤ i → f xs[i] = .gt)) := by
  unfold binarySearchBy
  by_cases h0 : xs.size = 0
  · simp only [h0, ↓reduceIte]
    refine ⟨⟨fun h => (by cases h), fun ⟨i, h, _⟩ => (by omega)⟩, fun _ => ⟨by omega, fun i h => (by omega)⟩⟩
  · simp only [h0, ↓reduceIte]
    obtain ⟨hb, hA, hB⟩ := bs_loop_spec f xs hmono xs.size 0 xs.size (by omega) (by omega) (by omega)
      (Or.inl rfl) (fun i h hle => by omega)
    generalize binarySearchBy.loop f xs xs.size 0 xs.size = b at hb hA hB
    rw [Array.getElem?_eq_getElem hb]
    simp only
    have hcases : f xs[b] = .lt ∨ f xs[b] = .eq ∨ f xs[b] = .gt := by cases f xs[b] <;> simp
    rcases hcases with hc | hc | hc
    · -- lt
      simp only [hc, beq_self_eq_true, ↓reduceIte, show (Ordering.lt == Ordering.eq) = false from rfl,
        Bool.false_eq_true]
      have hlt : ∀ i (h : i < xs.size), i < b + 1 → f xs[i] = .lt := by
        intro i h hi
        by_cases hib : i = b
        · subst hib; exact hc
        · have := hmono i b (by omega) hb
          rw [hc] at this
          exact rk_le_lt this
      refine ⟨⟨fun h => (by cases h), fun ⟨i, h, he⟩ => ?_⟩, fun _ => ⟨by omega, fun i h => ⟨hlt i h, hB i h⟩⟩⟩
      by_cases hi : i < b + 1
      · rw [hlt i h hi] at he; cases he
      · rw [hB i h (by omega)] at he; cases he
    · -- eq
      simp only [hc, beq_self_eq_true, ↓reduceIte]
      refine ⟨⟨fun _ => ⟨b, hb, hc⟩, fun _ => trivial⟩, fun hne => absurd hc (hne b hb)⟩
    · -- gt
      have hb0 : b = 0 := by
        rcases hA with h | ⟨_, h⟩
        · exact h
        · exact absurd hc h
      subst hb0
      simp only [hc, ↓reduceIte, show (Ordering.gt == Ordering.eq) = false from rfl,
        show (Ordering.gt == Ordering.lt) = false from rfl, Bool.false_eq_true, Nat.add_zero]
      have hgt : ∀ i (h : i < xs.size), f xs[i] = .gt := by
        intro i h
        by_cases hi : i = 0
        · subst hi; exact hc
        · exact hB i h (by omega)
      refine ⟨⟨fun h => (by cases h), fun ⟨i, h, he⟩ => ?_⟩, fun _ => ⟨by omega, fun i h => ⟨fun hh => by omega, fun _ => hgt i h⟩⟩⟩
      rw [hgt i h] at he; cases he

/-! ### list-level corollaries -/

theorem filter_split {α} (q : α → Bool) (a b : List α) (ha : ∀ x ∈ a, q x = true)
    (hb : ∀ x ∈ b, q x = false) :
    (a ++ b).filter q = a ∧ (a ++ b).filter (fun x => !q x) = b := by
  rw [List.filter_append, List.filter_append]
  have h1 : a.filter q = a := List.filter_eq_self.mpr ha
  have h2 : b.filter q = [] := List.filter_eq_nil_iff.mpr (fun x hx => by simp [hb x hx])
  have h3 : a.filter (fun x => !q x) = [] := List.filter_eq_nil_iff.mpr (fun x hx => by simp [ha x hx])
  have h4 : b.filter (fun x => !q x) = b := List.filter_eq_self.mpr (fun x hx => by simp [hb x hx])
  simp [h1, h2, h3, h4]

theorem partitionPoint_spec {α} (q : α → Bool) (l : List α)
    (hmono : l.Pairwise (fun x y => q y = true → q x = true)) :
    l.take (partitionPoint q l.toArray) = l.filter q ∧
    l.drop (partitionPoint q l.toArray) = l.filter (fun x => !q x) := by
  have hm : ∀ i j (_ : i < j) (hj : j < l.toArray.size),
      rk ((fun x => if q x then Ordering.lt else Ordering.gt) l.toArray[i])
        ≤ rk ((fun x => if q x then Ordering.lt else Ordering.gt) l.toArray[j]) := by
    intro i j hij hj
    have hj' : j < l.length := by simpa using hj
    have := List.pairwise_iff_getElem.mp hmono i j (by omega) hj' hij
    simp only [List.getElem_toArray]
    by_cases h1 : q l[j] = true
    · simp [h1, this h1, rk]
    · simp only [h1, Bool.false_eq_true, ↓reduceIte]
      split <;> simp [rk]
  obtain ⟨hk, hsplit⟩ := (bs_spec (fun x => if q x then Ordering.lt else Ordering.gt) l.toArray hm).2 (by
    intro i h
    show (if q l.toArray[i] then Ordering.lt else Ordering.gt) ≠ Ordering.eq
    split <;> simp)
  unfold partitionPoint
  generalize (binarySearchBy (fun x => if q x then Ordering.lt else Ordering.gt) l.toArray).2 = k
    at hk hsplit
  have hk' : k ≤ l.length := by simpa using hk
  have ha : ∀ x ∈ l.take k, q x = true := by
    intro x hx
    obtain ⟨i, hi, rfl⟩ := List.mem_iff_getElem.mp hx
    have hi' : i < k ∧ i < l.length := by simp at hi; omega
    have := (hsplit i (by simpa using hi'.2)).1 hi'.1
    simp only [List.getElem_toArray] at this
    rw [List.getElem_take]
    cases hq : q l[i] <;> simp_all
  have hb : ∀ x ∈ l.drop k, q x = false := by
    intro x hx
    obtain ⟨i, hi, rfl⟩ := List.mem_iff_getElem.mp hx
    have hi' : k + i < l.length := by simp at hi; omega
    have := (hsplit (k + i) (by simpa using hi')).2 (by omega)
    simp only [List.getElem_toArray] at this
    rw [List.getElem_drop]
    cases hq : q l[k + i] <;> simp_all
  have := filter_split q _ _ ha hb
  rw [List.take_append_drop] at this
  exact ⟨this.1.symm, this.2.symm⟩

theorem binarySearchBy_found {α} (f : α → Ordering) (l : List α)
    (hmono : l.Pairwise (fun x y => rk (f x) ≤ rk (f y))) :
    (binarySearchBy f l.toArray).1 = l.any (fun x => f x == .eq) := by
  have hm : ∀ i j (_ : i < j) (hj : j < l.toArray.size),
      rk (f l.toArray[i]) ≤ rk (f l.toArray[j]) := by
    intro i j hij hj
    have hj' : j < l.length := by simpa using hj
    simpa using List.pairwise_iff_getElem.mp hmono i j (by omega) hj' hij
  have h := (bs_spec f l.toArray hm).1
  rw [Bool.eq_iff_iff, h, List.any_eq_true]
  constructor
  · rintro ⟨i, hi, he⟩
    have hi' : i < l.length := by simpa using hi
    exact ⟨l[i], List.getElem_mem hi', by simpa using he⟩
  · rintro ⟨x, hx, he⟩
    obtain ⟨i, hi, rfl⟩ := List.mem_iff_getElem.mp hx
    exact ⟨i, by simpa using hi, by simpa using he⟩

end Akd
