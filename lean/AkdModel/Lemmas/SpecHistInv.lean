/-
Specification-level facts about whole histories (C04b), part 1: the invariant of the states
`Spec.run` reaches, epochs of prefixes, and the labels of the table.  No tree, no VRF.
-/
import AkdModel.Lemmas.PublishLemmas
namespace Akd.SpecHist
open Akd Spec Pub

/-- what holds of every specification state reachable by `applyBatch` from the empty one -/
structure Inv (s : State) : Prop where
  keys : s.table.Pairwise (fun a b => a.1 ≠ b.1)
  vers : ∀ u, VersOK (s.table.get u)
  eps : ∀ u, ∀ v ∈ s.table.get u, 1 ≤ v.epoch ∧ v.epoch ≤ s.epoch
  /-- the current epoch is the epoch of some version: it was bumped by an effective batch -/
  last : s.epoch = 0 ∨ ∃ u, ∃ v ∈ s.table.get u, v.epoch = s.epoch

theorem inv_init : Inv {} :=
  ⟨List.Pairwise.nil, fun _ => ⟨fun i h => absurd h (Nat.not_lt_zero i), List.Pairwise.nil⟩,
    fun _ _ hv => (nomatch hv), .inl rfl⟩

/-- `applyBatch` either does nothing or folds `step` over a non-empty list of changes with distinct labels -/
theorem applyBatch_cases' (s : State) (b : List (Bytes × Bytes)) :
    applyBatch s b = s ∨
      (((b.filter (isChange s.table)).map (·.1)).Nodup ∧ b.filter (isChange s.table) ≠ [] ∧
        applyBatch s b = ⟨s.epoch + 1, (b.filter (isChange s.table)).foldl (step (s.epoch + 1)) s.table⟩) := by
  by_cases h : (b.map (·.1)).eraseDups.length = b.length
  · rw [applyBatch_eq s b h]
    by_cases he : (b.filter (isChange s.table)).isEmpty = true
    · rw [if_pos he]; exact .inl rfl
    · rw [if_neg he]
      have hnd : (b.map (·.1)).Nodup :=
        nodup_of_eraseDups_length _ _ (Nat.le_refl _) (by rw [h, List.length_map])
      exact .inr ⟨hnd.sublist (List.filter_sublist.map _), fun h' => he (by rw [h']; rfl), rfl⟩
  · exact .inl (applyBatch_dup s b h)

theorem inv_applyBatch (s : State) (b : List (Bytes × Bytes)) (hI : Inv s) : Inv (applyBatch s b) := by
  rcases applyBatch_cases' s b with h | ⟨hnd, hne, h⟩
  · rw [h]; exact hI
  · rw [h]
    obtain ⟨_, i2, _, i4, _⟩ := fold_spec Cfg.whatsappV1 (.raw []) [] (s.epoch + 1) s.table hI.vers
      (b.filter (isChange s.table)) s.table hnd (fun _ _ => rfl)
    have hvf := versions_fold s.table s.epoch (b.filter (isChange s.table)) hI.vers hI.eps hnd
    refine ⟨i4 hI.keys, fun u => (hvf u).1, fun u => (hvf u).2, .inr ?_⟩
    obtain ⟨x, hx⟩ := List.exists_mem_of_ne_nil _ hne
    refine ⟨x.1, ⟨(s.table.get x.1).length + 1, x.2, s.epoch + 1⟩, ?_, rfl⟩
    show _ ∈ ((b.filter (isChange s.table)).foldl (step (s.epoch + 1)) s.table).get x.1
    rw [i2 x hx]
    simp

theorem inv_foldl : ∀ (h : List (List (Bytes × Bytes))) (s : State), Inv s → Inv (h.foldl applyBatch s)
  | [], _, hI => hI
  | b :: h, s, hI => inv_foldl h _ (inv_applyBatch s b hI)

theorem inv_run (h : List (List (Bytes × Bytes))) : Inv (Spec.run h) := inv_foldl h _ inv_init

/-! ### epochs -/

theorem applyBatch_epoch_ge (s : State) (b : List (Bytes × Bytes)) : s.epoch ≤ (applyBatch s b).epoch := by
  rcases applyBatch_cases s b with h | h <;> rw [h]
  · exact Nat.le_refl _
  · exact Nat.le_succ _

theorem foldl_epoch_ge : ∀ (h : List (List (Bytes × Bytes))) (s : State), s.epoch ≤ (h.foldl applyBatch s).epoch
  | [], _ => Nat.le_refl _
  | b :: h, s => Nat.le_trans (applyBatch_epoch_ge s b) (foldl_epoch_ge h _)

theorem foldl_epoch_le : ∀ (h : List (List (Bytes × Bytes))) (s : State),
    (h.foldl applyBatch s).epoch ≤ s.epoch + h.length
  | [], _ => Nat.le_refl _
  | b :: h, s => by
    have h1 := foldl_epoch_le h (applyBatch s b)
    have h2 := applyBatch_epoch_le s b
    simp only [List.foldl_cons, List.length_cons]
    omega

theorem run_epoch_le (h : List (List (Bytes × Bytes))) : (Spec.run h).epoch ≤ h.length := by
  have := foldl_epoch_le h {}
  simpa [Spec.run] using this

/-- a history is a prefix followed by the rest -/
theorem run_take_drop (h : List (List (Bytes × Bytes))) (k : Nat) :
    Spec.run h = (h.drop k).foldl applyBatch (Spec.run (h.take k)) := by
  unfold Spec.run
  rw [← List.foldl_append, List.take_append_drop]

theorem run_take_succ (h : List (List (Bytes × Bytes))) (k : Nat) (hk : k < h.length) :
    Spec.run (h.take (k + 1)) = applyBatch (Spec.run (h.take k)) h[k] := by
  unfold Spec.run
  rw [List.take_add_one, List.foldl_append, List.getElem?_eq_getElem hk]
  rfl

/-- the epochs of the prefixes take every value between 0 and the epoch of the longest one -/
theorem prefix_epochs_aux (h : List (List (Bytes × Bytes))) :
    ∀ n, n ≤ h.length → ∀ i, i ≤ (Spec.run (h.take n)).epoch →
      ∃ k, k ≤ n ∧ (Spec.run (h.take k)).epoch = i
  | 0, _, i, hi => ⟨0, Nat.le_refl _, by
      have : (Spec.run (h.take 0)).epoch = 0 := rfl
      omega⟩
  | n + 1, hn, i, hi => by
    by_cases hle : i ≤ (Spec.run (h.take n)).epoch
    · obtain ⟨k, hk, he⟩ := prefix_epochs_aux h n (by omega) i hle
      exact ⟨k, by omega, he⟩
    · refine ⟨n + 1, Nat.le_refl _, ?_⟩
      rw [run_take_succ h n (by omega)] at hi ⊢
      have := applyBatch_epoch_le (Spec.run (h.take n)) h[n]
      omega

theorem prefix_epochs (h : List (List (Bytes × Bytes))) (i : Nat) (hi : i ≤ (Spec.run h).epoch) :
    ∃ k, k ≤ h.length ∧ (Spec.run (h.take k)).epoch = i :=
  prefix_epochs_aux h h.length (Nat.le_refl _) i (by rwa [List.take_length])

/-! ### labels of the table -/

theorem foldl_keys : ∀ (h : List (List (Bytes × Bytes))) (s : State),
    ∀ y ∈ (h.foldl applyBatch s).table, (∃ b ∈ h, y.1 ∈ b.map (·.1)) ∨ y ∈ s.table
  | [], _, y, hy => .inr hy
  | b :: h, s, y, hy => by
    rw [List.foldl_cons] at hy
    rcases foldl_keys h _ y hy with ⟨b', hb', hm⟩ | hm
    · exact .inl ⟨b', List.mem_cons_of_mem _ hb', hm⟩
    · rcases applyBatch_keys s b y hm with hm | hm
      · exact .inl ⟨b, List.mem_cons_self, hm⟩
      · exact .inr hm

theorem run_keys (h : List (List (Bytes × Bytes))) (users : List Bytes) (hb : ∀ b ∈ h, ∀ x ∈ b, x.1 ∈ users) :
    ∀ y ∈ (Spec.run h).table, y.1 ∈ users := by
  intro y hy
  rcases foldl_keys h {} y hy with ⟨b, hbm, hm⟩ | hm
  · obtain ⟨x, hx, hxy⟩ := List.mem_map.1 hm
    exact hxy ▸ hb b hbm x hx
  · exact nomatch hm

end Akd.SpecHist
