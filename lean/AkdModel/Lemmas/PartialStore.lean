/-
C11, store level: facts about `batchInsert` inside a transaction that need no knowledge of the tree —
the database is not touched, every written version is of an epoch `≤` the new epoch, and keys that
are new in this epoch resolve to "not found" at the previous epoch.  The last two come from one
generic induction through the code (`abs_batchInsert`): a store invariant `P` and a node invariant `Q`.
-/
import AkdModel.Lemmas.PublishStore
namespace Akd.Part
open Akd NodeStore

/-! ### `resolve` -/

theorem resolve_le {r : NodeRec} {t : Nat} {n : TreeNode} (h : r.resolve t = .ok n) : n.lastEpoch ≤ t := by
  unfold NodeRec.resolve at h
  split at h
  · split at h
    · split at h
      · cases h
      · cases h; omega
    · cases h
  · cases h; omega

theorem resolve_version {r : NodeRec} {t : Nat} {n : TreeNode} (h : r.resolve t = .ok n) :
    n = r.latest ∨ r.previous = some n := by
  unfold NodeRec.resolve at h
  split at h
  · split at h
    · split at h
      · cases h
      · cases h; right; assumption
    · cases h
  · cases h; left; rfl

/-- a version found at `t` that is not newer than `t'` is also the one found at `t'` -/
theorem resolve_down {r : NodeRec} {t t' : Nat} {n : TreeNode} (h : r.resolve t = .ok n) (hle : t' ≤ t)
    (hn : n.lastEpoch ≤ t') : r.resolve t' = .ok n := by
  unfold NodeRec.resolve at h ⊢
  split at h
  · rename_i h1
    split at h
    · rename_i p hp
      split at h
      · cases h
      · cases h
        rw [if_pos (by omega)]
        rw [if_neg (by omega)]
    · cases h
  · cases h
    rw [if_neg (by omega)]

theorem resolve_ok_latest (r : NodeRec) (t : Nat) (h : r.latest.lastEpoch ≤ t) : r.resolve t = .ok r.latest := by
  unfold NodeRec.resolve
  rw [if_neg (by omega)]

/-! ### the database is not touched inside a transaction -/

theorem db_setRec (s : NodeStore) (r : NodeRec) (h : s.inTxn = true) :
    (s.setRec r).db = s.db ∧ (s.setRec r).inTxn = true := by
  unfold NodeStore.setRec
  rw [if_pos h]
  exact ⟨rfl, h⟩

theorem keeps_db {c : Cfg} {m : InsertMode} {s s' : NodeStore} {a a' : Azks} {els : List (NodeLabel × Dig)}
    (D : NodeMap) (h : s.batchInsert c m a els = .ok (s', a')) (hs : s.db = D ∧ s.inTxn = true) :
    s'.db = D ∧ s'.inTxn = true :=
  Pub.inv_batchInsert (fun s => s.db = D ∧ s.inTxn = true)
    (fun s r hs => ⟨(db_setRec s r hs.2).1.trans hs.1, (db_setRec s r hs.2).2⟩) h hs

/-! ### node-level operations -/

theorem setChild_shape {a b a' b' : TreeNode} (h : a.setChild b = .ok (a', b')) :
    a'.label = a.label ∧ a'.lastEpoch = max a.lastEpoch b.lastEpoch ∧ b' = { b with parent := a.label } := by
  unfold TreeNode.setChild at h
  cases ho : a.label.prefixOrdering b.label <;> rw [ho] at h <;> simp only at h <;> cases h <;>
    exact ⟨rfl, rfl, rfl⟩

theorem updateHash_shape {c : Cfg} {s : NodeStore} {n n' : TreeNode} {m : InsertMode}
    (h : updateHash c s n m = .ok n') : ∃ hv, n' = { n with hash := hv } := by
  unfold NodeStore.updateHash at h
  split at h
  · cases h; exact ⟨n.hash, rfl⟩
  · split at h
    · cases h; exact ⟨_, rfl⟩
    · cases h
    · cases h

/-! ### a generic induction through the insertion: store invariant `P`, node invariant `Q` -/

set_option linter.unusedSectionVars false
section Abs
variable (c : Cfg) (epoch : Nat) (P : NodeStore → Prop) (Q : TreeNode → Prop)
variable (hget : ∀ s k n, P s → s.getNode k epoch = .ok n → Q n)
variable (hwrite : ∀ s n b s', P s → Q n → s.writeNode n b = .ok s' → P s')
variable (hset : ∀ a b a' b', Q a → Q b → a.setChild b = .ok (a', b') → Q a' ∧ Q b')
variable (hleaf : ∀ l v, Q (TreeNode.newLeaf c l v epoch)) (hint : ∀ l, Q (TreeNode.newInterior c l epoch))
variable (hhash : ∀ n hv, Q n → Q { n with hash := hv })
include hget hwrite hset hleaf hint hhash

theorem abs_phase1 {s s' : NodeStore} {nl : Option NodeLabel} {set : ElementSet Dig}
    {cur : TreeNode} {isNew : Bool} {num : Nat}
    (h : Ins.phase1 c epoch s nl set = .ok (s', cur, isNew, num)) (hs : P s) : P s' ∧ Q cur := by
  unfold Ins.phase1 at h
  split at h
  · split at h
    · cases h
    · rename_i existing hg
      have hq := hget _ _ _ hs hg
      simp only at h
      split at h
      · split at h
        · cases h
        · rename_i cur0 ex' hsc
          obtain ⟨q1, q2⟩ := hset _ _ _ _ (hint _) hq hsc
          split at h
          · cases h
          · rename_i s1 hw
            cases h
            exact ⟨hwrite _ _ _ _ hs q2 hw, q1⟩
      · cases h; exact ⟨hs, hq⟩
  · cases h; exact ⟨hs, hleaf _ _⟩
  · cases h; exact ⟨hs, hint _⟩

theorem abs_side {rec : Ins.RecFn}
    (hrec : ∀ s nl set s' n b k, rec s nl set = .ok (s', n, b, k) → P s → P s' ∧ Q n)
    {d : Direction} {s s' : NodeStore} {cur cur' : TreeNode} {num num' : Nat} {sub : ElementSet Dig}
    (h : Ins.side rec d s cur num sub = .ok (s', cur', num')) (hs : P s) (hc : Q cur) : P s' ∧ Q cur' := by
  unfold Ins.side at h
  split at h
  · cases h; exact ⟨hs, hc⟩
  · split at h
    · cases h
    · rename_i s1 ln lnew lnum hr
      obtain ⟨p1, qn⟩ := hrec _ _ _ _ _ _ _ hr hs
      split at h
      · cases h
      · rename_i cur1 ln1 hsc
        obtain ⟨q1, q2⟩ := hset _ _ _ _ hc qn hsc
        split at h
        · cases h
        · rename_i s2 hw
          cases h
          exact ⟨hwrite _ _ _ _ p1 q2 hw, q1⟩

theorem abs_phase23 {mode : InsertMode} {rec : Ins.RecFn}
    (hrec : ∀ s nl set s' n b k, rec s nl set = .ok (s', n, b, k) → P s → P s' ∧ Q n)
    {s s' : NodeStore} {cur cur' : TreeNode} {isNew isNew' : Bool} {num num' : Nat} {set : ElementSet Dig}
    (h : Ins.phase23 c mode rec s cur isNew num set = .ok (s', cur', isNew', num')) (hs : P s) (hc : Q cur) :
    P s' ∧ Q cur' := by
  unfold Ins.phase23 at h
  split at h
  · cases h
  · rename_i h1
    obtain ⟨p1, q1⟩ := abs_side c epoch P Q hget hwrite hset hleaf hint hhash hrec h1 hs hc
    split at h
    · cases h
    · rename_i h2
      obtain ⟨p2, q2⟩ := abs_side c epoch P Q hget hwrite hset hleaf hint hhash hrec h2 p1 q1
      split at h
      · cases h
      · rename_i n' hu
        cases h
        obtain ⟨hv, rfl⟩ := updateHash_shape hu
        exact ⟨p2, hhash _ _ q2⟩

theorem abs_insertRec (mode : InsertMode) : ∀ (fuel : Nat) (s : NodeStore)
    (nl : Option NodeLabel) (set : ElementSet Dig) (s' : NodeStore) (n : TreeNode) (b : Bool) (k : Nat),
    insertRec c mode epoch fuel s nl set = .ok (s', n, b, k) → P s → P s' ∧ Q n
  | 0, _, _, _, _, _, _, _, h, _ => by simp [insertRec] at h
  | fuel + 1, s, nl, set, s', n, b, k, h, hs => by
    rw [Ins.insertRec_succ] at h
    split at h
    · cases h
    · rename_i h1
      obtain ⟨p1, q1⟩ := abs_phase1 c epoch P Q hget hwrite hset hleaf hint hhash h1 hs
      exact abs_phase23 c epoch P Q hget hwrite hset hleaf hint hhash
        (abs_insertRec mode fuel) h p1 q1

end Abs

/-- the generic induction at the level of `batchInsert` (the epoch is `a.latestEpoch + 1`) -/
theorem abs_batchInsert (c : Cfg) (P : NodeStore → Prop) (Q : TreeNode → Prop)
    {mode : InsertMode} {s s' : NodeStore} {a a' : Azks} {nodes : List (NodeLabel × Dig)}
    (hget : ∀ s k n, P s → s.getNode k (a.latestEpoch + 1) = .ok n → Q n)
    (hwrite : ∀ s n b s', P s → Q n → s.writeNode n b = .ok s' → P s')
    (hset : ∀ a b a' b', Q a → Q b → a.setChild b = .ok (a', b') → Q a' ∧ Q b')
    (hleaf : ∀ l v, Q (TreeNode.newLeaf c l v (a.latestEpoch + 1)))
    (hint : ∀ l, Q (TreeNode.newInterior c l (a.latestEpoch + 1)))
    (hhash : ∀ n hv, Q n → Q { n with hash := hv })
    (h : s.batchInsert c mode a nodes = .ok (s', a')) (hs : P s) : P s' := by
  unfold NodeStore.batchInsert at h
  simp only at h
  split at h
  · cases h; exact hs
  · split at h
    · cases h
    · rename_i hr
      split at h
      · cases h
      · rename_i hw
        cases h
        obtain ⟨p1, q1⟩ := abs_insertRec c _ P Q hget hwrite hset hleaf hint hhash mode _ _ _ _ _ _ _ _ hr hs
        exact hwrite _ _ _ _ p1 q1 hw

end Akd.Part

namespace Akd.Part
open Akd NodeStore

/-! ### reads and writes inside a transaction -/

theorem getRec_txn {s : NodeStore} {k : NodeLabel} {r : NodeRec} (ht : s.inTxn = true)
    (h : s.getRec k = some r) :
    s.log.get? k = some r ∨ (s.log.get? k = none ∧ s.db.get? k = some r) := by
  unfold NodeStore.getRec at h
  rw [if_pos ht] at h
  cases hl : s.log.get? k with
  | none => rw [hl] at h; exact .inr ⟨rfl, h⟩
  | some r' => rw [hl] at h; exact .inl h

theorem getNode_rec {s : NodeStore} {k : NodeLabel} {t : Nat} {n : TreeNode} (h : s.getNode k t = .ok n) :
    ∃ r, s.getRec k = some r ∧ r.resolve t = .ok n := by
  unfold NodeStore.getNode at h
  cases hr : s.getRec k with
  | none => rw [hr] at h; cases h
  | some r => rw [hr] at h; exact ⟨r, rfl, h⟩

theorem log_setRec (s : NodeStore) (r : NodeRec) (ht : s.inTxn = true) (k : NodeLabel) :
    (s.setRec r).log.get? k = if k = r.label then some r else s.log.get? k := by
  unfold NodeStore.setRec
  rw [if_pos ht]
  exact Ins.map_get_set _ _ _

/-- what `writeNode` writes: the new version, and as previous version nothing or what the store
resolves at the epoch before -/
theorem writeNode_cases {s s' : NodeStore} {n : TreeNode} {b : Bool} (h : s.writeNode n b = .ok s') :
    ∃ p, s' = s.setRec ⟨n.label, n, p⟩ ∧
      (p = none ∨ ∃ p', p = some p' ∧ b = false ∧
        s.getNode n.label (if n.lastEpoch > 0 then n.lastEpoch - 1 else n.lastEpoch) = .ok p') := by
  unfold NodeStore.writeNode at h
  cases b
  · simp only [Bool.false_eq_true, if_false] at h
    generalize htgt : (if n.lastEpoch > 0 then n.lastEpoch - 1 else n.lastEpoch) = tgt at h
    rcases Ins.getNode_cases s n.label tgt with ⟨p, hp⟩ | hp
    · rw [hp] at h; cases h; exact ⟨some p, rfl, .inr ⟨p, rfl, rfl, hp⟩⟩
    · rw [hp] at h; cases h; exact ⟨none, rfl, .inl rfl⟩
  · simp only [if_true] at h
    cases h; exact ⟨none, rfl, .inl rfl⟩

/-! ### every version written in the transaction is of an epoch `≤` the new epoch -/

/-- all versions in the log are of an epoch `≤ E` -/
def LogLe (E : Nat) (s : NodeStore) : Prop :=
  s.inTxn = true ∧ ∀ k r, s.log.get? k = some r → r.latest.lastEpoch ≤ E

theorem logLe_batchInsert {c : Cfg} {mode : InsertMode} {s s' : NodeStore} {a a' : Azks}
    {nodes : List (NodeLabel × Dig)} (h : s.batchInsert c mode a nodes = .ok (s', a'))
    (hs : LogLe (a.latestEpoch + 1) s) : LogLe (a.latestEpoch + 1) s' := by
  refine abs_batchInsert c (LogLe (a.latestEpoch + 1)) (fun n => n.lastEpoch ≤ a.latestEpoch + 1)
    ?_ ?_ ?_ (fun _ _ => Nat.le_refl _) (fun _ => Nat.le_refl _) (fun _ _ h => h) h hs
  · intro s k n _ hg
    obtain ⟨r, _, hr⟩ := getNode_rec hg
    exact resolve_le hr
  · intro s n b s' hp hq hw
    obtain ⟨p, rfl, _⟩ := writeNode_cases hw
    refine ⟨(db_setRec s _ hp.1).2, fun k r hk => ?_⟩
    rw [log_setRec s _ hp.1] at hk
    split at hk
    · cases hk; exact hq
    · exact hp.2 k r hk
  · intro a b a' b' ha hb hsc
    obtain ⟨_, h2, h3⟩ := setChild_shape hsc
    subst h3
    exact ⟨by rw [h2]; exact Nat.max_le.2 ⟨ha, hb⟩, hb⟩

/-! ### keys that are new in this epoch -/

/-- every record is stored under the label of its node versions -/
def WellKeyed (m : NodeMap) : Prop :=
  ∀ k r, m.get? k = some r → r.latest.label = k ∧ ∀ p, r.previous = some p → p.label = k

/-- the transaction invariant for new keys: the log is well keyed, and a key that is not in the
database holds one version, of the new epoch -/
structure NewInv (D : NodeMap) (E : Nat) (s : NodeStore) : Prop where
  db : s.db = D
  txn : s.inTxn = true
  keyed : WellKeyed s.log
  fresh : ∀ k r, s.log.get? k = some r → D.get? k = none → r.latest.lastEpoch = E ∧ r.previous = none

def NewNode (D : NodeMap) (E : Nat) (n : TreeNode) : Prop :=
  n.lastEpoch ≤ E ∧ (D.get? n.label = none → n.lastEpoch = E)

theorem newInv_getNode {D : NodeMap} {E : Nat} (hD : WellKeyed D) {s : NodeStore} (hs : NewInv D E s)
    {k : NodeLabel} {t : Nat} {n : TreeNode} (hg : s.getNode k t = .ok n) :
    n.label = k ∧ (D.get? k = none → n.lastEpoch = E ∧ E ≤ t) := by
  obtain ⟨r, hr, hres⟩ := getNode_rec hg
  have hv := resolve_version hres
  rcases getRec_txn hs.txn hr with hl | ⟨_, hd⟩
  · refine ⟨?_, fun hnone => ?_⟩
    · rcases hv with rfl | hv
      · exact (hs.keyed k r hl).1
      · exact (hs.keyed k r hl).2 n hv
    · obtain ⟨f1, f2⟩ := hs.fresh k r hl hnone
      rcases hv with rfl | hv
      · exact ⟨f1, f1 ▸ resolve_le hres⟩
      · rw [f2] at hv; cases hv
  · rw [hs.db] at hd
    refine ⟨?_, fun hnone => ?_⟩
    · rcases hv with rfl | hv
      · exact (hD k r hd).1
      · exact (hD k r hd).2 n hv
    · rw [hnone] at hd; cases hd

theorem newInv_batchInsert {c : Cfg} {mode : InsertMode} {s s' : NodeStore} {a a' : Azks}
    {nodes : List (NodeLabel × Dig)} (D : NodeMap) (hD : WellKeyed D)
    (h : s.batchInsert c mode a nodes = .ok (s', a'))
    (hs : NewInv D (a.latestEpoch + 1) s) : NewInv D (a.latestEpoch + 1) s' := by
  refine abs_batchInsert c (NewInv D (a.latestEpoch + 1)) (NewNode D (a.latestEpoch + 1))
    ?_ ?_ ?_ (fun _ _ => ⟨Nat.le_refl _, fun _ => rfl⟩) (fun _ => ⟨Nat.le_refl _, fun _ => rfl⟩)
    (fun _ _ h => h) h hs
  · intro s k n hp hg
    obtain ⟨h1, h2⟩ := newInv_getNode hD hp hg
    obtain ⟨r, _, hr⟩ := getNode_rec hg
    exact ⟨resolve_le hr, fun hnone => (h2 (h1 ▸ hnone)).1⟩
  · intro s n b s' hp hq hw
    obtain ⟨p, rfl, hpv⟩ := writeNode_cases hw
    refine ⟨(db_setRec s _ hp.txn).1.trans hp.db, (db_setRec s _ hp.txn).2, ?_, ?_⟩
    · intro k r hk
      rw [log_setRec s _ hp.txn] at hk
      split at hk
      · rename_i hkl
        cases hk
        refine ⟨hkl.symm, fun p' hp' => ?_⟩
        rcases hpv with rfl | ⟨p'', rfl, _, hg⟩
        · cases hp'
        · cases hp'
          exact (newInv_getNode hD hp hg).1.trans hkl.symm
      · exact hp.keyed k r hk
    · intro k r hk hnone
      rw [log_setRec s _ hp.txn] at hk
      split at hk
      · rename_i hkl
        cases hk
        have hkl' : k = n.label := hkl
        subst hkl'
        have hE : n.lastEpoch = a.latestEpoch + 1 := hq.2 hnone
        refine ⟨hE, ?_⟩
        rcases hpv with rfl | ⟨p'', rfl, _, hg⟩
        · rfl
        · exfalso
          have := (newInv_getNode hD hp hg).2 hnone
          rw [hE] at this
          have := this.2
          rw [if_pos (by omega)] at this
          omega
      · exact hp.fresh k r hk hnone
  · intro a b a' b' ha hb hsc
    obtain ⟨h1, h2, h3⟩ := setChild_shape hsc
    subst h3
    refine ⟨⟨by rw [h2]; exact Nat.max_le.2 ⟨ha.1, hb.1⟩, fun hnone => ?_⟩, hb⟩
    rw [h1] at hnone
    have := ha.2 hnone
    have := hb.1
    rw [h2]
    omega

end Akd.Part
