/-
Helper lemmas for the end-to-end publish theorem (C01c).  Split over
* `PublishStore`  — `begin` / `batchInsert` / `commit` preserve what the tree code reads;
* `PublishTable`  — the specification's version table and its leaf set;
* `PublishDerive` — `stateLeq`, `deriveUpdates`, `setState` against the version table;
* `PublishStep`   — one effective batch: the new table, its invariants, the new value states;
* `PublishHonest` — which leaves sit at which VRF labels of the specification's leaf set.
-/
import AkdModel.Lemmas.PublishStore
import AkdModel.Lemmas.PublishStep
import AkdModel.Lemmas.PublishHonest
