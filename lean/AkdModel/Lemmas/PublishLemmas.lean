/-
Helper lemmas for the end-to-end publish theorem (C01c).
-/
import AkdModel.Dir
import AkdModel.Spec
import AkdModel.Thm.C01b
import AkdModel.Thm.C06
namespace Akd
end Akd
