/- helper lemmas for `Thm/C14.lean` (insertion into a tree that already holds leaves of the epoch being inserted).

The strict bound `lf.ep ≤ a.latestEpoch` of `batchInsert_refines` is used in one place only: at the root level
(`Ins.batchInsert_root`), to derive `LeafOK (a.latestEpoch + 1) lf`, i.e. `lf.ep ≤ epoch` — everything below
(`St`, `Spec`, `finish`, `spec_all`) is already stated with `≤ epoch`.  `Ins.batchInsert_root_le`
(`Lemmas/InsertRoot.lean`) is the root-level lemma with the weak bound; here are the list facts for splitting a
batch in two. -/
import AkdModel.Thm.C01b
namespace Akd.C01
open Akd

theorem newLeaves_append (e1 e2 : List (BitStr × Dig)) (ep : Nat) :
    newLeaves (e1 ++ e2) ep = newLeaves e1 ep ++ newLeaves e2 ep := List.map_append

/-- the fold over `e1 ++ e2` is the fold over `e2` of the fold over `e1` -/
theorem foldl_newLeaves_append (t : CRoot) (e1 e2 : List (BitStr × Dig)) (ep : Nat) :
    (newLeaves (e1 ++ e2) ep).foldl CRoot.insert1 t
      = (newLeaves e2 ep).foldl CRoot.insert1 ((newLeaves e1 ep).foldl CRoot.insert1 t) := by
  rw [newLeaves_append, List.foldl_append]

/-- the hypotheses on `e1 ++ e2` give those on the first sub-batch -/
theorem split_fst (t : CRoot) (e1 e2 : List (BitStr × Dig)) (ep : Nat)
    (hpf : PrefixFree (t.leaves ++ newLeaves (e1 ++ e2) ep))
    (hlen : ∀ lf ∈ t.leaves ++ newLeaves (e1 ++ e2) ep, 1 ≤ lf.lbl.length ∧ lf.lbl.length ≤ 256) :
    PrefixFree (t.leaves ++ newLeaves e1 ep) ∧
      ∀ lf ∈ t.leaves ++ newLeaves e1 ep, 1 ≤ lf.lbl.length ∧ lf.lbl.length ≤ 256 := by
  rw [newLeaves_append, ← List.append_assoc] at hpf hlen
  exact ⟨List.Pairwise.sublist (List.sublist_append_left _ _) hpf,
    fun lf h => hlen lf (List.mem_append_left _ h)⟩

/-- … and those on the second sub-batch, for the tree after the first one -/
theorem split_snd (t : CRoot) (hwf : t.WF) (e1 e2 : List (BitStr × Dig)) (ep : Nat) (hE : 1 ≤ ep)
    (hep : ∀ lf ∈ t.leaves, 1 ≤ lf.ep ∧ lf.ep ≤ ep)
    (hpf : PrefixFree (t.leaves ++ newLeaves (e1 ++ e2) ep))
    (hlen : ∀ lf ∈ t.leaves ++ newLeaves (e1 ++ e2) ep, 1 ≤ lf.lbl.length ∧ lf.lbl.length ≤ 256) :
    ((newLeaves e1 ep).foldl CRoot.insert1 t).WF ∧
      (∀ lf ∈ ((newLeaves e1 ep).foldl CRoot.insert1 t).leaves, 1 ≤ lf.ep ∧ lf.ep ≤ ep) ∧
      PrefixFree (((newLeaves e1 ep).foldl CRoot.insert1 t).leaves ++ newLeaves e2 ep) ∧
      ∀ lf ∈ ((newLeaves e1 ep).foldl CRoot.insert1 t).leaves ++ newLeaves e2 ep,
        1 ≤ lf.lbl.length ∧ lf.lbl.length ≤ 256 := by
  obtain ⟨hpf1, hlen1⟩ := split_fst t e1 e2 ep hpf hlen
  obtain ⟨w1, p1⟩ := foldl_insert1_spec t hwf e1 ep hpf1 hlen1
  rw [newLeaves_append, ← List.append_assoc] at hpf hlen
  have pp : (((newLeaves e1 ep).foldl CRoot.insert1 t).leaves ++ newLeaves e2 ep).Perm
      (t.leaves ++ newLeaves e1 ep ++ newLeaves e2 ep) := p1.append_right _
  refine ⟨w1, ?_, (pp.pairwise_iff Canon.Incomp.symm).2 hpf, fun lf h => hlen lf (pp.mem_iff.1 h)⟩
  intro lf h
  rcases List.mem_append.1 (p1.mem_iff.1 h) with h | h
  · exact hep lf h
  · obtain ⟨b, _, rfl⟩ := List.mem_map.1 h
    exact ⟨hE, Nat.le_refl _⟩

end Akd.C01
