/-
Helper lemmas for C05 that need the byte-level label facts of `Thm/C17.lean`.
-/
import AkdModel.Lemmas.TrieLemmas
import AkdModel.Thm.C17
namespace Akd
open NodeLabel

namespace NodeLabel

theorem ofBits_len (bs : BitStr) : (ofBits bs).len = bs.length := rfl

theorem ofBits_nil : ofBits [] = NodeLabel.root := by decide +kernel

theorem ofBits_inj {a b : BitStr} (ha : a.length ≤ 256) (hb : b.length ≤ 256) (h : ofBits a = ofBits b) :
    a = b := by
  rw [← C17.bits_ofBits a ha, ← C17.bits_ofBits b hb, h]

theorem isPrefixOf_ofBits {a b : BitStr} (ha : a.length ≤ 256) (hb : b.length ≤ 256) :
    (ofBits a).isPrefixOf (ofBits b) = true ↔ a <+: b := by
  rw [C17.isPrefixOf_iff _ _ ha hb, C17.bits_ofBits a ha, C17.bits_ofBits b hb]

/-- `lcp` of two labels of bit strings that differ before bit 256 -/
theorem lcp_ofBits (e : NodeLabel) {a b : BitStr} (ha : a.length ≤ 256) (hb : b.length ≤ 256)
    (hae : ofBits a ≠ e) (hbe : ofBits b ≠ e) (hlt : (BitStr.commonPrefix a b).length < 256) :
    lcp e (ofBits a) (ofBits b) = ofBits (BitStr.commonPrefix a b) := by
  obtain ⟨h1, h2, h3⟩ := C17.lcp_spec e (ofBits a) (ofBits b) hae hbe ha hb
  rw [C17.bits_ofBits a ha, C17.bits_ofBits b hb] at h1 h2
  have hlen : (lcp e (ofBits a) (ofBits b)).len < 256 := by rw [h2]; exact hlt
  rw [← h1]
  exact (C17.ofBits_bits _ (Nat.le_of_lt hlen) (h3 hlen)).symm

end NodeLabel

/-- both real configurations use an "empty label" that is not the label of any bit string -/
theorem Cfg.whatsappV1_emptyLabel_fresh (bs : BitStr) : NodeLabel.ofBits bs ≠ Cfg.whatsappV1.emptyLabel := by
  cases bs with
  | nil => decide +kernel
  | cons b bs => intro h; have := congrArg NodeLabel.len h; simp [ofBits_len, Cfg.whatsappV1, Cfg.wv1Empty] at this

theorem Cfg.experimental_emptyLabel_fresh (bs : BitStr) : NodeLabel.ofBits bs ≠ Cfg.experimental.emptyLabel := by
  cases bs with
  | nil => decide +kernel
  | cons b bs => intro h; have := congrArg NodeLabel.len h; simp [ofBits_len, Cfg.experimental, Cfg.expEmpty] at this

/-! ### non-membership proofs -/

theorem NodeLabel.isPrefixOf_len_le {a b : NodeLabel} (h : a.isPrefixOf b = true) : a.len ≤ b.len := by
  unfold isPrefixOf at h
  split at h
  · cases h
  · omega

theorem childrenNotPrefix_absurd (c : Cfg) (p : NonMembershipProof) (k : CTree) (hk : k.WF) (lf : Leaf)
    (hlf : lf ∈ k.leaves) (h256 : lf.lbl.length = 256) (hlab : ofBits lf.lbl = p.label)
    (hne : ofBits k.lbl ≠ c.emptyLabel)
    (hch : p.child0.label = ofBits k.lbl ∨ p.child1.label = ofBits k.lbl)
    (h : childrenNotPrefix c p = true) : False := by
  have hp := CTree.WF.leaf_prefix hk hlf
  have hlen : k.lbl.length ≤ 256 := h256 ▸ hp.length_le
  have hpre : (ofBits k.lbl).isPrefixOf p.label = true := by
    rw [← hlab]; exact (isPrefixOf_ofBits hlen (Nat.le_of_eq h256)).mpr hp
  obtain ⟨h0, h1⟩ := (childrenNotPrefix_iff c p).mp h
  rcases hch with e | e
  · rw [e] at h0; exact h0 hne hpre
  · rw [e] at h1; exact h1 hne hpre

namespace CRoot

theorem nonmembership_sound_core (c : Cfg) (hc : c.Lawful)
    (hE : ∀ bs : BitStr, bs.length ≤ 256 → ofBits bs ≠ c.emptyLabel)
    (t : CRoot) (hwf : t.WF) (h256 : ∀ lf ∈ t.leaves, lf.lbl.length = 256)
    (π : NonMembershipProof) (h : verifyNonMembership c (t.rootHash c) π = true) :
    ∀ lf ∈ t.leaves, ofBits lf.lbl ≠ π.label := by
  intro lf hlf hlab
  simp only [verifyNonMembership, Bool.and_eq_true] at h
  obtain ⟨⟨hshape, hcnp⟩, hmem⟩ := h
  obtain ⟨-, -, hpre, hlp, hlbl, hhash⟩ := (nonMembershipShape_iff c π).mp hshape
  obtain ⟨a, ha, hla⟩ := mem_leaves.mp hlf
  have hawf := hwf.child ha
  have hlf256 := h256 lf hlf
  have hpa := CTree.WF.leaf_prefix hawf hla
  -- the final contradiction, for any well-formed tree `k` that is a child of the anchor
  have fin : ∀ k : CTree, k.WF → lf ∈ k.leaves →
      (π.child0.label = ofBits k.lbl ∨ π.child1.label = ofBits k.lbl) → False := by
    intro k hk hlk hch
    have hlen : k.lbl.length ≤ 256 := hlf256 ▸ (CTree.WF.leaf_prefix hk hlk).length_le
    exact childrenNotPrefix_absurd c π k hk lf hlk hlf256 hlab (hE _ hlen) hch hcnp
  rcases verifyMembership_cases c hc t _ hmem with ⟨-, h2⟩ | ⟨o, ho, ⟨-, -, h2⟩ | ⟨a', s, rfl, hs, h1, h2⟩⟩
  · -- anchored at the root
    rw [← hhash] at h2
    rcases not_empty_cases t with he | he
    · rw [value_empty c _ t he] at h2
      exact hc.parent_ne_emptyRoot _ _ _ _ h2
    · rw [value_eq_parent c _ t he] at h2
      obtain ⟨-, e0, -, e1⟩ := hc.parent_inj _ _ _ _ _ _ _ _ h2
      rcases ha with ha | ha
      · rw [ha] at e0; exact fin a hawf hla (Or.inl e0)
      · rw [ha] at e1; exact fin a hawf hla (Or.inr e1)
  · -- an empty slot is not a parent hash
    rw [← hhash] at h2
    exact hc.parent_ne_emptyNode _ _ _ _ h2
  · -- anchored at a subtree `s` of the child `a'`
    have ha' : t.Child a' := ho.elim (fun h => Or.inl h.symm) (fun h => Or.inr h.symm)
    rw [← hhash] at h2
    cases s with
    | leaf q w e => exact hc.leaf_ne_parent _ _ _ _ _ _ h2.symm
    | node q l r =>
      obtain ⟨-, e0, -, e1⟩ := hc.parent_inj _ _ _ _ _ _ _ _ h2
      have ha'wf := hwf.child ha'
      have hswf := CTree.WF.sub hs ha'wf
      -- the anchor's label is a prefix of the leaf's label
      have hq : q <+: lf.lbl := by
        rw [hlp, hlbl, h1, ← hlab] at hpre
        have hql : q.length ≤ 256 := by
          have := isPrefixOf_len_le hpre
          simpa [ofBits_len, hlf256, CTree.lbl] using this
        exact (isPrefixOf_ofBits hql (Nat.le_of_eq hlf256)).mp hpre
      have hpa' : a'.lbl <+: lf.lbl := (CTree.WF.sub_prefix hs ha'wf).trans hq
      have : a = a' := hwf.child_unique ha ha' hpa hpa'
      subst this
      have hin := CTree.WF.sub_leaves hs hawf hla hq
      simp only [CTree.leaves, List.mem_append] at hin
      rcases hin with hin | hin
      · exact fin l hswf.2.2.1 hin (Or.inl e0)
      · exact fin r hswf.2.2.2 hin (Or.inr e1)

theorem nonmembership_complete_core (c : Cfg)
    (hE : ∀ bs : BitStr, bs.length ≤ 256 → ofBits bs ≠ c.emptyLabel)
    (t : CRoot) (hwf : t.WF) (h256 : ∀ lf ∈ t.leaves, lf.lbl.length = 256)
    (hne : t.l ≠ none ∨ t.r ≠ none)
    (x : BitStr) (hx : x.length = 256) (hnot : ∀ lf ∈ t.leaves, lf.lbl ≠ x) :
    verifyNonMembership c (t.rootHash c) (t.genNonMembership c x) = true := by
  have hmemb : verifyMembership c (t.rootHash c) (t.genNonMembership c x).longestPrefixMembershipProof = true := by
    rw [genNonMembership_mp]; exact verifyMembership_lcpProof c t x
  have hxle : x.length ≤ 256 := Nat.le_of_eq hx
  have hxx : (ofBits x).isPrefixOf (ofBits x) = true := (isPrefixOf_ofBits hxle hxle).mpr (List.prefix_refl x)
  -- 256-bit leaves below every subtree of a child
  have h256s : ∀ a, t.Child a → ∀ s, CTree.Sub s a → ∀ lf ∈ s.leaves, lf.lbl.length = 256 :=
    fun a ha s hs lf hl => h256 lf (mem_leaves.mpr ⟨a, ha, hs.leaves_subset hl⟩)
  -- a tree whose label is not a prefix of `x` is a harmless child
  have harmless : ∀ k : CTree, k.lbl.length ≤ 256 → ¬ k.lbl <+: x →
      ofBits x ≠ ofBits k.lbl ∧ (ofBits k.lbl).isPrefixOf (ofBits x) ≠ true := by
    intro k hk hnp
    have h2 : (ofBits k.lbl).isPrefixOf (ofBits x) ≠ true := fun h => hnp ((isPrefixOf_ofBits hk hxle).mp h)
    exact ⟨fun e => h2 (by rw [← e]; exact hxx), h2⟩
  simp only [verifyNonMembership, Bool.and_eq_true]
  refine ⟨?_, hmemb⟩
  rw [nonMembershipShape_iff, childrenNotPrefix_iff]
  rcases path_fst c t hwf x with ⟨he, hn⟩ | ⟨a, ha, hpa, he⟩
  · -- the walk stays at the root
    rw [genNonMembership_none c t x he]
    simp only [lcpChildren]
    have slot : ∀ o, (o = t.l ∨ o = t.r) →
        ofBits x ≠ childLabel c o ∧ (childLabel c o ≠ c.emptyLabel → (childLabel c o).isPrefixOf (ofBits x) ≠ true) := by
      intro o ho
      cases o with
      | none => exact ⟨hE x hxle, fun h => absurd rfl h⟩
      | some a =>
        have ha : t.Child a := ho.elim (fun h => Or.inl h.symm) (fun h => Or.inr h.symm)
        have := harmless a (CTree.WF.lbl_length_le (hwf.child ha) (h256s a ha a .refl)) (hn a ha)
        exact ⟨this.1, fun _ => this.2⟩
    have hroot : (if lcp c.emptyLabel (element c t.l).label (element c t.r).label = c.emptyLabel then NodeLabel.root
        else lcp c.emptyLabel (element c t.l).label (element c t.r).label) = NodeLabel.root := by
      cases hl : t.l with
      | none =>
        have e : lcp c.emptyLabel (element c none).label (element c t.r).label = c.emptyLabel :=
          C17.lcp_empty _ _ _ (Or.inl rfl)
        rw [if_pos e]
      | some a =>
        cases hr : t.r with
        | none =>
          have e : lcp c.emptyLabel (element c (some a)).label (element c none).label = c.emptyLabel :=
            C17.lcp_empty _ _ _ (Or.inr rfl)
          rw [if_pos e]
        | some b =>
          have ha : t.Child a := Or.inl hl
          have hb : t.Child b := Or.inr hr
          have hal := CTree.WF.lbl_length_le (hwf.child ha) (h256s a ha a .refl)
          have hbl := CTree.WF.lbl_length_le (hwf.child hb) (h256s b hb b .refl)
          have hcp : BitStr.commonPrefix a.lbl b.lbl = [] :=
            BitStr.commonPrefix_fork [] _ _ (hwf.1 a hl).1 (hwf.2 b hr).1
          have : lcp c.emptyLabel (element c (some a)).label (element c (some b)).label = NodeLabel.root := by
            simp only [element, childLabel]
            rw [lcp_ofBits _ hal hbl (hE _ hal) (hE _ hbl) (by simp [hcp]), hcp, ofBits_nil]
          rw [this, if_neg]
          rw [← ofBits_nil]; exact hE [] (by simp)
    have hpre : NodeLabel.root.isPrefixOf (ofBits x) = true := by
      rw [← ofBits_nil]; exact (isPrefixOf_ofBits (by simp) hxle).mpr List.nil_prefix
    exact ⟨⟨(slot _ (Or.inl rfl)).1, (slot _ (Or.inr rfl)).1, hpre, hroot.symm, hroot,
        (value_eq_parent c _ t hne).symm⟩,
      (slot _ (Or.inl rfl)).2, (slot _ (Or.inr rfl)).2⟩
  · -- the walk enters the child `a` and stops at `d`
    have hawf := hwf.child ha
    have hsub := CTree.path_sub c x a
    have hdp := CTree.path_prefix c x a hpa
    have hdwf := CTree.WF.sub hsub hawf
    have hd256 := h256s a ha _ hsub
    cases hd : (a.path c x).1 with
    | leaf q v e =>
      exfalso
      rw [hd] at hdp hd256 hsub
      have hm : (⟨q, v, e⟩ : Leaf) ∈ (CTree.leaf q v e).leaves := by simp [CTree.leaves]
      have hlen := hd256 _ hm
      refine hnot ⟨q, v, e⟩ (mem_leaves.mpr ⟨a, ha, hsub.leaves_subset hm⟩) ?_
      exact hdp.eq_of_length (by rw [hx]; exact hlen)
    | node q l r =>
      rw [hd] at he hdp hd256 hsub hdwf
      have hstop := CTree.path_stop c x a hawf hd
      rw [genNonMembership_node c t x he]
      simp only [lcpChildren, CTree.element]
      have hll := CTree.WF.lbl_length_le hdwf.2.2.1 (fun lf h => hd256 lf (List.mem_append_left _ h))
      have hrl := CTree.WF.lbl_length_le hdwf.2.2.2 (fun lf h => hd256 lf (List.mem_append_right _ h))
      have hql := CTree.WF.node_length_lt hdwf hd256
      have hL := harmless l hll hstop.1
      have hR := harmless r hrl hstop.2
      have hcp : BitStr.commonPrefix l.lbl r.lbl = q := BitStr.commonPrefix_fork q _ _ hdwf.1 hdwf.2.1
      have hlcp : lcp c.emptyLabel (ofBits l.lbl) (ofBits r.lbl) = ofBits q := by
        rw [lcp_ofBits _ hll hrl (hE _ hll) (hE _ hrl) (by rw [hcp]; exact hql), hcp]
      simp only [hlcp, if_neg (hE q (Nat.le_of_lt hql))]
      exact ⟨⟨hL.1, hR.1, (isPrefixOf_ofBits (Nat.le_of_lt hql) hxle).mpr hdp, trivial, trivial, rfl⟩,
        fun _ => hL.2, fun _ => hR.2⟩

end CRoot

end Akd
