/-
Directory side of the publish theorem (C01c): the value-state table against the specification's
version table — `stateLeq` finds the last version, `deriveUpdates` produces exactly the leaves
the specification's changes call for, `setState` appends the new states.
-/
import AkdModel.Lemmas.PublishTable
namespace Akd.Pub
open Akd Spec

/-- the body of `C01.StatesMatch` on the components -/
def SMatch (states : List ValueState) (vrf : VrfTable) (T : Table) : Prop :=
  (∀ s ∈ states, ∃ v ∈ T.get s.username,
      v.version = s.version ∧ v.epoch = s.epoch ∧ v.value = s.value ∧
      vrf.get? ⟨s.username, true, s.version⟩ = some s.label) ∧
  (∀ u v, v ∈ T.get u → ∃ s ∈ states,
      s.username = u ∧ s.version = v.version ∧ s.epoch = v.epoch ∧ s.value = v.value) ∧
  states.Pairwise (fun a b => ¬ (a.username = b.username ∧ a.epoch = b.epoch))

/-! ### `stateLeq` -/

def pick (acc : Option ValueState) (s : ValueState) : Option ValueState :=
  match acc with
  | none => some s
  | some a => if s.epoch > a.epoch then some s else some a

theorem stateLeq_eq (d : Dir) (u : Bytes) (e : Nat) :
    d.stateLeq u e = (d.states.filter (fun s => s.username = u ∧ s.epoch ≤ e)).foldl pick none := rfl

theorem foldl_pick_some : ∀ (F : List ValueState) (a : ValueState),
    ∃ b, F.foldl pick (some a) = some b ∧ b ∈ a :: F ∧ ∀ s ∈ a :: F, s.epoch ≤ b.epoch
  | [], a => ⟨a, rfl, List.mem_cons_self, fun s hs => by simp at hs; subst hs; exact Nat.le_refl _⟩
  | x :: F, a => by
    simp only [List.foldl_cons, pick]
    by_cases h : x.epoch > a.epoch
    · rw [if_pos h]
      obtain ⟨b, h1, h2, h3⟩ := foldl_pick_some F x
      refine ⟨b, h1, List.mem_cons_of_mem _ h2, fun s hs => ?_⟩
      rcases List.mem_cons.1 hs with rfl | hs
      · have := h3 x List.mem_cons_self; omega
      · exact h3 s hs
    · rw [if_neg h]
      obtain ⟨b, h1, h2, h3⟩ := foldl_pick_some F a
      refine ⟨b, h1, ?_, fun s hs => ?_⟩
      · rcases List.mem_cons.1 h2 with rfl | h2
        · exact List.mem_cons_self
        · exact List.mem_cons_of_mem _ (List.mem_cons_of_mem _ h2)
      · rcases List.mem_cons.1 hs with rfl | hs
        · exact h3 s List.mem_cons_self
        · rcases List.mem_cons.1 hs with rfl | hs
          · have := h3 a List.mem_cons_self; omega
          · exact h3 s (List.mem_cons_of_mem _ hs)

theorem stateLeq_none (d : Dir) (T : Table) (E : Nat) (hm : SMatch d.states d.vrf T) (u : Bytes)
    (h : T.get u = []) : d.stateLeq u E = none := by
  rw [stateLeq_eq]
  have : d.states.filter (fun s => s.username = u ∧ s.epoch ≤ E) = [] := by
    rw [List.filter_eq_nil_iff]
    intro s hs hp
    simp only [decide_eq_true_eq] at hp
    obtain ⟨v, hv, _⟩ := hm.1 s hs
    rw [hp.1, h] at hv
    cases hv
  rw [this]; rfl

theorem stateLeq_some (d : Dir) (T : Table) (E : Nat) (hm : SMatch d.states d.vrf T) (u : Bytes)
    (hv : VersOK (T.get u)) (hE : ∀ v ∈ T.get u, v.epoch ≤ E) (last : Ver)
    (h : (T.get u).getLast? = some last) :
    ∃ st, d.stateLeq u E = some st ∧ st.username = u ∧ st.version = last.version ∧ st.value = last.value ∧
      st.epoch = last.epoch := by
  obtain ⟨init, hinit⟩ := List.getLast?_eq_some_iff.1 h
  have hlast : last ∈ T.get u := by rw [hinit]; simp
  -- the state of the last version passes the filter
  obtain ⟨s0, hs0, hs0u, _, hs0e, _⟩ := hm.2.1 u last hlast
  have hs0F : s0 ∈ d.states.filter (fun s => s.username = u ∧ s.epoch ≤ E) := by
    rw [List.mem_filter]
    refine ⟨hs0, ?_⟩
    simp only [decide_eq_true_eq]
    exact ⟨hs0u, hs0e ▸ hE last hlast⟩
  rw [stateLeq_eq]
  cases hF : d.states.filter (fun s => s.username = u ∧ s.epoch ≤ E) with
  | nil => rw [hF] at hs0F; cases hs0F
  | cons a F =>
    obtain ⟨b, hb1, hb2, hb3⟩ := foldl_pick_some F a
    have hfold : (a :: F).foldl pick none = some b := hb1
    refine ⟨b, hfold, ?_⟩
    rw [← hF, List.mem_filter] at hb2
    have hbu : b.username = u := by
      have := hb2.2; simp only [decide_eq_true_eq] at this; exact this.1
    obtain ⟨v, hvm, hvv, hve, hvval, _⟩ := hm.1 b hb2.1
    rw [hbu] at hvm
    have hle : last.epoch ≤ v.epoch := by
      have := hb3 s0 (hF ▸ hs0F)
      omega
    -- `v` is the last version
    have hvl : v = last := by
      rw [hinit] at hvm hv
      rcases List.mem_append.1 hvm with hvi | hvi
      · have := (versOK_concat hv).2.2 v hvi; omega
      · simpa using hvi
    subst hvl
    exact ⟨hbu, hvv.symm, hvval.symm, hve.symm⟩

/-! ### `deriveUpdates` -/

/-- a pair of the batch whose value differs from the label's current one -/
def isChange (T : Table) (x : Bytes × Bytes) : Bool :=
  match (T.get x.1).getLast? with
  | some last => decide (last.value ≠ x.2)
  | none => true

/-- the value state of a change -/
def mkState (vrf : VrfTable) (T : Table) (e : Nat) (x : Bytes × Bytes) : ValueState :=
  ⟨x.1, e, (T.get x.1).length + 1, (vrf.get? ⟨x.1, true, (T.get x.1).length + 1⟩).getD default, x.2⟩

theorem versOK_last {vs : List Ver} (h : VersOK vs) {last : Ver} (hl : vs.getLast? = some last) :
    last.version = vs.length := by
  obtain ⟨init, rfl⟩ := List.getLast?_eq_some_iff.1 hl
  rw [(versOK_concat h).2.1]; simp

theorem derive_spec (c : Cfg) (d : Dir) (T : Table) (E : Nat) (hm : SMatch d.states d.vrf T)
    (hv : ∀ u, VersOK (T.get u)) (hE : ∀ u, ∀ v ∈ T.get u, v.epoch ≤ E)
    (hlen : ∀ k l, d.vrf.get? k = some l → l.len = 256) :
    ∀ (b : List (Bytes × Bytes)),
    (∀ x ∈ b, ∀ f ver, 1 ≤ ver → ver ≤ (T.get x.1).length + 1 → (d.vrf.get? ⟨x.1, f, ver⟩).isSome) →
    ∃ els' : List (BitStr × Dig),
      d.deriveUpdates c E b = .ok (els'.map (fun x => (NodeLabel.ofBits x.1, x.2)),
        (b.filter (isChange T)).map (mkState d.vrf T (E + 1))) ∧
      C01.newLeaves els' (E + 1) = (b.filter (isChange T)).flatMap
        (fun x => delta c d.commitmentKey d.vrf x.1 (T.get x.1).length x.2 (E + 1)) ∧
      (els' = [] ↔ b.filter (isChange T) = [])
  | [], _ => ⟨[], rfl, rfl, by simp⟩
  | (u, v) :: rest, htot => by
    obtain ⟨els', h1, h2, h3⟩ := derive_spec c d T E hm hv hE hlen rest
      (fun x hx => htot x (List.mem_cons_of_mem _ hx))
    have htu : ∀ f ver, 1 ≤ ver → ver ≤ (T.get u).length + 1 → (d.vrf.get? ⟨u, f, ver⟩).isSome :=
      htot (u, v) List.mem_cons_self
    rw [Dir.deriveUpdates]
    simp only [h1, bind, Except.bind, pure, Except.pure]
    cases hl : (T.get u).getLast? with
    | none =>
      have hnil : T.get u = [] := List.getLast?_eq_none_iff.1 hl
      have hch : isChange T (u, v) = true := by simp [isChange, hl]
      rw [stateLeq_none d T E hm u hnil]
      have hs := htu true 1 (Nat.le_refl _) (by omega)
      obtain ⟨l, hl1⟩ := Option.isSome_iff_exists.1 hs
      simp only [Dir.vrfLabel, hl1]
      refine ⟨(l.bits, c.commit v (c.nonce d.commitmentKey l 1 v)) :: els', ?_, ?_, ?_⟩
      · simp only [List.map_cons, List.filter_cons, hch, if_true, ofBits_bits_256 l (hlen _ _ hl1)]
        simp [mkState, hnil, hl1]
      · simp only [List.filter_cons, hch, if_true, List.flatMap_cons, ← h2]
        simp [C01.newLeaves, delta, staleNew, freshNew, hnil, hl1]
      · simp [hch]
    | some last =>
      obtain ⟨st, hst, _, hsv, hsval, _⟩ := stateLeq_some d T E hm u (hv u) (hE u) last hl
      have hlv := versOK_last (hv u) hl
      rw [hst]
      simp only
      by_cases hval : st.value = v
      · have hch : isChange T (u, v) = false := by simp [isChange, hl, ← hsval, hval]
        rw [if_pos hval]
        refine ⟨els', ?_, ?_, ?_⟩
        · simp [hch]
        · simp [hch, h2]
        · simp [hch, h3]
      · have hch : isChange T (u, v) = true := by simp [isChange, hl, ← hsval, hval]
        rw [if_neg hval]
        have hpos : 1 ≤ (T.get u).length := by
          obtain ⟨init, hi⟩ := List.getLast?_eq_some_iff.1 hl
          rw [hi]; simp
        have hs1 := htu false st.version (by omega) (by omega)
        have hs2 := htu true (st.version + 1) (by omega) (by omega)
        obtain ⟨ls, hls⟩ := Option.isSome_iff_exists.1 hs1
        obtain ⟨lf, hlf⟩ := Option.isSome_iff_exists.1 hs2
        simp only [Dir.vrfLabel, hls, hlf]
        refine ⟨(ls.bits, c.staleValue) ::
          (lf.bits, c.commit v (c.nonce d.commitmentKey lf (st.version + 1) v)) :: els', ?_, ?_, ?_⟩
        · simp only [List.map_cons, List.filter_cons, hch, if_true, ofBits_bits_256 ls (hlen _ _ hls),
            ofBits_bits_256 lf (hlen _ _ hlf)]
          rw [hsv, hlv] at hlf
          simp [mkState, hlf, hsv, hlv]
        · simp only [List.filter_cons, hch, if_true, List.flatMap_cons, ← h2]
          rw [hsv, hlv] at hls hlf
          have hne : (T.get u).length ≠ 0 := by omega
          simp [C01.newLeaves, delta, staleNew, freshNew, hls, hlf, hne, hsv, hlv]
        · simp [hch]

/-! ### `setState` -/

theorem setState_append (ss : List ValueState) (v : ValueState)
    (h : ∀ s ∈ ss, ¬ (s.username = v.username ∧ s.epoch = v.epoch)) : Dir.setState ss v = ss ++ [v] := by
  induction ss with
  | nil => rfl
  | cons s rest ih =>
    simp only [Dir.setState]
    rw [if_neg (h s List.mem_cons_self), ih (fun x hx => h x (List.mem_cons_of_mem _ hx))]
    rfl

theorem foldl_setState_append : ∀ (sts ss : List ValueState),
    (∀ s ∈ ss, ∀ v ∈ sts, ¬ (s.username = v.username ∧ s.epoch = v.epoch)) →
    sts.Pairwise (fun a b => ¬ (a.username = b.username ∧ a.epoch = b.epoch)) →
    sts.foldl Dir.setState ss = ss ++ sts
  | [], ss, _, _ => by simp
  | v :: sts, ss, h1, h2 => by
    rw [List.pairwise_cons] at h2
    rw [List.foldl_cons, setState_append ss v (fun s hs => h1 s hs v List.mem_cons_self),
      foldl_setState_append sts (ss ++ [v]) ?_ h2.2]
    · simp
    · intro s hs w hw
      rcases List.mem_append.1 hs with hs | hs
      · exact h1 s hs w (List.mem_cons_of_mem _ hw)
      · simp at hs; subst hs; exact h2.1 w hw

end Akd.Pub
