/-
Helper lemmas for C04 (pure part, root level): the auditor's rebuild over the element lists of
`AuditGenTree` returns the root hash of the trie published at the epoch.
-/
import AkdModel.Lemmas.AuditGenTree
namespace Akd.AGen
open Akd
open Akd.Ins (maxEp minEp oleaves)

/-! ### root-level definitions -/

def restrictR (hi : Nat) (t : CRoot) : CRoot := ⟨t.l.bind (restrict hi), t.r.bind (restrict hi)⟩

def collapseR (c : Cfg) (lo hi : Nat) (t : CRoot) : CRoot :=
  ⟨t.l.bind (collapse c lo hi), t.r.bind (collapse c lo hi)⟩

def oE (c : Cfg) (lo hi : Nat) : Option CTree → List AzksElement
  | none => []
  | some a => E c lo hi a

def oI (lo hi : Nat) : Option CTree → List AzksElement
  | none => []
  | some a => I lo hi a

/-- the `unchanged` list of the single-epoch proof for `(lo, lo+1)` is `ER c lo lo t` -/
def ER (c : Cfg) (lo hi : Nat) (t : CRoot) : List AzksElement := oE c lo hi t.l ++ oE c lo hi t.r

/-- the `inserted` list -/
def IR (lo hi : Nat) (t : CRoot) : List AzksElement := oI lo hi t.l ++ oI lo hi t.r

theorem leaves_eq (t : CRoot) : t.leaves = oleaves t.l ++ oleaves t.r := rfl

/-! ### `restrictR` is the trie published at epoch `hi` -/

theorem restrictR_wf (hi : Nat) (t : CRoot) (hwf : t.WF) : (restrictR hi t).WF := by
  constructor
  · intro x hx
    obtain ⟨a, ha, hr⟩ := Option.bind_eq_some_iff.mp hx
    obtain ⟨h1, h2⟩ := restrict_wf hi a (hwf.1 a ha).2 x hr
    exact ⟨(hwf.1 a ha).1.trans h1, h2⟩
  · intro x hx
    obtain ⟨a, ha, hr⟩ := Option.bind_eq_some_iff.mp hx
    obtain ⟨h1, h2⟩ := restrict_wf hi a (hwf.2 a ha).2 x hr
    exact ⟨(hwf.2 a ha).1.trans h1, h2⟩

theorem oleaves_bind_restrict (hi : Nat) (o : Option CTree) :
    oleaves (o.bind (restrict hi)) = (oleaves o).filter (fun lf => decide (lf.ep ≤ hi)) := by
  cases o with
  | none => rfl
  | some a => exact restrict_leaves hi a

theorem restrictR_leaves (hi : Nat) (t : CRoot) :
    (restrictR hi t).leaves = t.leaves.filter (fun lf => decide (lf.ep ≤ hi)) := by
  rw [leaves_eq, leaves_eq, List.filter_append]
  simp only [restrictR, oleaves_bind_restrict]

theorem ofLeaves_filter (hi : Nat) (t : CRoot) (hwf : t.WF) (hne : ∀ lf ∈ t.leaves, lf.lbl ≠ []) :
    CRoot.ofLeaves (t.leaves.filter (fun lf => decide (lf.ep ≤ hi))) = restrictR hi t := by
  have hpf : C01.PrefixFree (t.leaves.filter (fun lf => decide (lf.ep ≤ hi))) :=
    List.Pairwise.sublist List.filter_sublist (C01.wf_prefixFree t hwf)
  obtain ⟨w, p⟩ := C01.ofLeaves_spec _ hpf (fun x hx => hne x (List.mem_filter.mp hx).1)
  refine C01.wf_unique _ _ w (restrictR_wf hi t hwf) ?_
  rw [restrictR_leaves]
  exact p

/-! ### `collapseR` -/

theorem collapseR_wf (c : Cfg) (lo hi : Nat) (t : CRoot) (hwf : t.WF) : (collapseR c lo hi t).WF := by
  constructor
  · intro x hx
    obtain ⟨a, ha, hr⟩ := Option.bind_eq_some_iff.mp hx
    obtain ⟨h1, h2⟩ := collapse_wf c lo hi a (hwf.1 a ha).2 x hr
    exact ⟨(hwf.1 a ha).1.trans h1, h2⟩
  · intro x hx
    obtain ⟨a, ha, hr⟩ := Option.bind_eq_some_iff.mp hx
    obtain ⟨h1, h2⟩ := collapse_wf c lo hi a (hwf.2 a ha).2 x hr
    exact ⟨(hwf.2 a ha).1.trans h1, h2⟩

theorem oE_leaves (c : Cfg) (lo hi : Nat) (o : Option CTree) (hwf : ∀ a, o = some a → a.WF)
    (hlen : ∀ lf ∈ oleaves o, lf.lbl.length ≤ 256) :
    (oE c lo hi o).map Aud.toLeaf = oleaves (o.bind (collapse c lo hi)) := by
  cases o with
  | none => rfl
  | some a => exact collapse_leaves c lo hi a (hwf a rfl) hlen

theorem ER_leaves (c : Cfg) (lo hi : Nat) (t : CRoot) (hwf : t.WF)
    (hlen : ∀ lf ∈ t.leaves, lf.lbl.length ≤ 256) :
    (ER c lo hi t).map Aud.toLeaf = (collapseR c lo hi t).leaves := by
  rw [leaves_eq] at hlen
  rw [leaves_eq, ER, List.map_append]
  simp only [collapseR]
  rw [oE_leaves c lo hi t.l (fun a ha => (hwf.1 a ha).2) (fun lf h => hlen lf (List.mem_append_left _ h)),
    oE_leaves c lo hi t.r (fun a ha => (hwf.2 a ha).2) (fun lf h => hlen lf (List.mem_append_right _ h))]

theorem ER_label (c : Cfg) (lo hi : Nat) (t : CRoot) (hwf : t.WF)
    (hlen : ∀ lf ∈ t.leaves, lf.lbl.length ≤ 256) :
    ∀ n ∈ ER c lo hi t, n.label = NodeLabel.ofBits n.label.bits := by
  rw [leaves_eq] at hlen
  intro n hn
  rcases List.mem_append.mp hn with h | h
  · cases hl : t.l with
    | none => rw [hl] at h; cases h
    | some a =>
      rw [hl] at h
      exact E_label c lo hi a (hwf.1 a hl).2
        (fun lf hm => hlen lf (List.mem_append_left _ (by rw [hl]; exact hm))) n h
  · cases hr : t.r with
    | none => rw [hr] at h; cases h
    | some a =>
      rw [hr] at h
      exact E_label c lo hi a (hwf.2 a hr).2
        (fun lf hm => hlen lf (List.mem_append_right _ (by rw [hr]; exact hm))) n h

theorem bind_sim (c : Cfg) (lo hi : Nat) (hlh : lo ≤ hi) (o : Option CTree) :
    Sim c (o.bind (collapse c lo hi)) (o.bind (restrict hi)) := by
  cases o with
  | none => exact ⟨rfl, rfl⟩
  | some a => exact collapse_sim c lo hi hlh a

/-- **frontier rebuild**: opaque sub-tries do not change the root value -/
theorem collapseR_value (c : Cfg) (lo hi : Nat) (hlh : lo ≤ hi) (t : CRoot) :
    (collapseR c lo hi t).value c .noLeafEpoch = (restrictR hi t).value c .withLeafEpoch := by
  have h1 := bind_sim c lo hi hlh t.l
  have h2 := bind_sim c lo hi hlh t.r
  simp only [collapseR, restrictR]
  generalize t.l.bind (collapse c lo hi) = a at h1
  generalize t.l.bind (restrict hi) = a' at h1
  generalize t.r.bind (collapse c lo hi) = b at h2
  generalize t.r.bind (restrict hi) = b' at h2
  obtain ⟨h11, h12⟩ := h1
  obtain ⟨h21, h22⟩ := h2
  cases a <;> cases a' <;> cases b <;> cases b' <;>
    simp_all [CRoot.value, CRoot.childValue, CRoot.childLabel]

theorem collapseR_len (c : Cfg) (lo hi : Nat) (t : CRoot) (hwf : t.WF)
    (hlen : ∀ lf ∈ t.leaves, lf.lbl.length ≤ 256) :
    ∀ lf ∈ (collapseR c lo hi t).leaves, lf.lbl.length ≤ 256 := by
  intro lf h
  rw [← ER_leaves c lo hi t hwf hlen] at h
  obtain ⟨n, hn, rfl⟩ := List.mem_map.mp h
  have hl := ER_label c lo hi t hwf hlen n hn
  simp only [Aud.toLeaf]
  -- `n.label.bits` has at most 256 bits (it is a prefix of the 256 stored bits)
  have : n.label.bits.length ≤ 256 := by
    simp [NodeLabel.bits, NodeLabel.bits256]
    omega
  exact this

/-! ### a node list that enumerates the leaves of a well-formed trie of opaque elements -/

theorem leaf_pos {F : CRoot} (hF : F.WF) {lf : Leaf} (h : lf ∈ F.leaves) : 1 ≤ lf.lbl.length := by
  obtain ⟨a, ha, hl⟩ := CRoot.mem_leaves.mp h
  rcases ha with ha | ha
  · have := ((hF.1 a ha).1.trans (Canon.Tree.lbl_prefix (hF.1 a ha).2 lf hl)).length_le
    simpa using this
  · have := ((hF.2 a ha).1.trans (Canon.Tree.lbl_prefix (hF.2 a ha).2 lf hl)).length_le
    simpa using this

theorem good_of_tree (ns : List AzksElement) (F : CRoot) (hF : F.WF)
    (hlen : ∀ lf ∈ F.leaves, lf.lbl.length ≤ 256)
    (hperm : (ns.map Aud.toLeaf).Perm F.leaves)
    (hlab : ∀ n ∈ ns, n.label = NodeLabel.ofBits n.label.bits) :
    Aud.Good ns ∧ Aud.frontierOf ns = F := by
  have hmem : ∀ n ∈ ns, Aud.toLeaf n ∈ F.leaves :=
    fun n hn => hperm.mem_iff.mp (List.mem_map.mpr ⟨n, hn, rfl⟩)
  have hb : ∀ n ∈ ns, n.label.bits.length ≤ 256 := fun n hn => hlen _ (hmem n hn)
  have hlenEq : ∀ n ∈ ns, n.label.len = n.label.bits.length := by
    intro n hn
    have := congrArg NodeLabel.len (hlab n hn)
    rw [Ins.ofBits_len] at this
    exact this
  have g : Aud.Good ns := by
    refine ⟨?_, ?_, ?_⟩
    · intro n hn
      refine ⟨by rw [hlenEq n hn]; exact hb n hn, ?_⟩
      rw [hlab n hn]
      exact C17.ofBits_normalised _ (hb n hn)
    · intro n hn
      rw [hlenEq n hn]
      exact leaf_pos hF (hmem n hn)
    · have hp : (ns.map Aud.toLeaf).Pairwise Canon.Incomp :=
        (hperm.pairwise_iff Canon.Incomp.symm).mpr (Canon.Root.pairwise hF)
      rw [List.pairwise_map] at hp
      exact hp
  refine ⟨g, ?_⟩
  exact C01.wf_unique _ _ g.spec.1 hF (g.spec.2.trans hperm)

theorem rebuild_of_tree (c : Cfg) (hce : c.emptyLabel.len = 0) (ns : List AzksElement) (F : CRoot) (hF : F.WF)
    (hlen : ∀ lf ∈ F.leaves, lf.lbl.length ≤ 256)
    (hperm : (ns.map Aud.toLeaf).Perm F.leaves)
    (hlab : ∀ n ∈ ns, n.label = NodeLabel.ofBits n.label.bits) (latest : Option Nat) :
    Auditor.rebuildRoot c ns latest = .ok (c.rootHash (F.value c .noLeafEpoch)) := by
  obtain ⟨g, e⟩ := good_of_tree ns F hF hlen hperm hlab
  rw [g.rebuild c hce latest, e]

/-! ### the two rebuilds -/

theorem ER_perm (c : Cfg) (lo : Nat) (t : CRoot) :
    (ER c lo lo t ++ (IR lo (lo + 1) t).map (rehash c (lo + 1))).Perm (ER c lo (lo + 1) t) := by
  have ho : ∀ o : Option CTree,
      (oE c lo lo o ++ (oI lo (lo + 1) o).map (rehash c (lo + 1))).Perm (oE c lo (lo + 1) o) := by
    intro o
    cases o with
    | none => exact List.Perm.refl _
    | some a => exact E_perm c lo a
  simp only [ER, IR, List.map_append]
  refine List.Perm.trans ?_ ((ho t.l).append (ho t.r))
  simp only [List.append_assoc]
  refine List.Perm.append_left _ ?_
  rw [← List.append_assoc, ← List.append_assoc]
  exact List.Perm.append_right _ List.perm_append_comm

/-- first rebuild: the `unchanged` list gives the root hash published at `lo` -/
theorem rebuild_unchanged (c : Cfg) (hce : c.emptyLabel.len = 0) (t : CRoot) (hwf : t.WF)
    (hl : ∀ lf ∈ t.leaves, 1 ≤ lf.lbl.length ∧ lf.lbl.length ≤ 256) (lo : Nat) (latest : Option Nat) :
    Auditor.rebuildRoot c (ER c lo lo t) latest
      = .ok ((CRoot.ofLeaves (t.leaves.filter (fun lf => decide (lf.ep ≤ lo)))).rootHash c) := by
  have hlen : ∀ lf ∈ t.leaves, lf.lbl.length ≤ 256 := fun lf h => (hl lf h).2
  rw [rebuild_of_tree c hce _ (collapseR c lo lo t) (collapseR_wf c lo lo t hwf)
    (collapseR_len c lo lo t hwf hlen) (by rw [ER_leaves c lo lo t hwf hlen])
    (ER_label c lo lo t hwf hlen) latest]
  rw [collapseR_value c lo lo (Nat.le_refl _) t,
    ofLeaves_filter lo t hwf (fun lf h h0 => by have := (hl lf h).1; rw [h0] at this; simp at this)]
  rfl

/-- second rebuild: with the inserted leaves re-hashed at `lo + 1`, the root hash published at `lo + 1` -/
theorem rebuild_inserted (c : Cfg) (hce : c.emptyLabel.len = 0) (t : CRoot) (hwf : t.WF)
    (hl : ∀ lf ∈ t.leaves, 1 ≤ lf.lbl.length ∧ lf.lbl.length ≤ 256) (lo : Nat) (latest : Option Nat) :
    Auditor.rebuildRoot c (ER c lo lo t ++ (IR lo (lo + 1) t).map (rehash c (lo + 1))) latest
      = .ok ((CRoot.ofLeaves (t.leaves.filter (fun lf => decide (lf.ep ≤ lo + 1)))).rootHash c) := by
  have hlen : ∀ lf ∈ t.leaves, lf.lbl.length ≤ 256 := fun lf h => (hl lf h).2
  have hp := ER_perm c lo t
  rw [rebuild_of_tree c hce _ (collapseR c lo (lo + 1) t) (collapseR_wf c lo (lo + 1) t hwf)
    (collapseR_len c lo (lo + 1) t hwf hlen)
    (by rw [← ER_leaves c lo (lo + 1) t hwf hlen]; exact hp.map _)
    (fun n hn => ER_label c lo (lo + 1) t hwf hlen n (hp.mem_iff.mp hn)) latest]
  rw [collapseR_value c lo (lo + 1) (Nat.le_succ _) t,
    ofLeaves_filter (lo + 1) t hwf (fun lf h h0 => by have := (hl lf h).1; rw [h0] at this; simp at this)]
  rfl

/-- the label check of the repaired auditor accepts the generated node set -/
theorem labels_ok (c : Cfg) (t : CRoot) (hwf : t.WF)
    (hl : ∀ lf ∈ t.leaves, 1 ≤ lf.lbl.length ∧ lf.lbl.length ≤ 256) (lo : Nat) :
    Auditor.labelsPrefixFree ((ER c lo lo t ++ IR lo (lo + 1) t).map (·.label)) = true := by
  have hlen : ∀ lf ∈ t.leaves, lf.lbl.length ≤ 256 := fun lf h => (hl lf h).2
  have hp := ER_perm c lo t
  obtain ⟨g, _⟩ := good_of_tree (ER c lo lo t ++ (IR lo (lo + 1) t).map (rehash c (lo + 1)))
    (collapseR c lo (lo + 1) t) (collapseR_wf c lo (lo + 1) t hwf)
    (collapseR_len c lo (lo + 1) t hwf hlen)
    (by rw [← ER_leaves c lo (lo + 1) t hwf hlen]; exact hp.map _)
    (fun n hn => ER_label c lo (lo + 1) t hwf hlen n (hp.mem_iff.mp hn))
  have hlabels : (ER c lo lo t ++ IR lo (lo + 1) t).map (·.label)
      = (ER c lo lo t ++ (IR lo (lo + 1) t).map (rehash c (lo + 1))).map (·.label) := by
    simp only [List.map_append, List.map_map]
    rfl
  rw [hlabels, Aud.labelsPrefixFree_iff]
  refine ⟨?_, ?_⟩
  · intro l hl'
    obtain ⟨n, hn, rfl⟩ := List.mem_map.mp hl'
    exact g.norm n hn
  · rw [List.pairwise_map]
    exact g.pf

end Akd.AGen
