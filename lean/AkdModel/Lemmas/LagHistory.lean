/- helper lemmas for `Thm/C13d.lean` (a lagging instance over any publish history) -/
import AkdModel.Thm.C13c
import AkdModel.Thm.C01c
import AkdModel.Lemmas.LagKeys
namespace Akd.Lag
open Akd C01 C11 Part

theorem lbls_split (p : BitStr) (a b : CTree) (q : BitStr) (h : q ∈ lbls a ∨ q ∈ lbls b) :
    q ∈ lbls (CTree.split p a b) := by
  unfold CTree.split
  split <;> simp only [lbls, List.mem_cons, List.mem_append] <;> rcases h with h | h <;> simp [h]

theorem lbls_insert1 (x : Leaf) : ∀ (t : CTree) (q : BitStr), q ∈ lbls t → q ∈ lbls (t.insert1 x)
  | .leaf q0 v e, q, h => by
    unfold CTree.insert1
    simp only
    split
    · exact lbls_split _ _ _ _ (.inl h)
    · exact h
  | .node q0 l r, q, h => by
    unfold CTree.insert1
    simp only
    split
    · split
      · exact lbls_split _ _ _ _ (.inl h)
      · exact h
    · simp only [lbls, List.mem_cons, List.mem_append] at h
      split
      · simp only [lbls, List.mem_cons, List.mem_append]
        rcases h with h | h | h
        · exact .inl h
        · exact .inr (.inl (lbls_insert1 x l q h))
        · exact .inr (.inr h)
      · simp only [lbls, List.mem_cons, List.mem_append]
        rcases h with h | h | h
        · exact .inl h
        · exact .inr (.inl h)
        · exact .inr (.inr (lbls_insert1 x r q h))
      · simp only [lbls, List.mem_cons, List.mem_append]
        exact h

theorem rootK_insert1 (t : CRoot) (x : Leaf) (q : BitStr) (h : RootK t q) : RootK (t.insert1 x) q := by
  rcases h with h | h
  · exact .inl h
  · right
    unfold CRoot.insert1
    split
    · exact h
    · rw [List.mem_append] at h ⊢
      rcases h with h | h
      · left
        cases hl : t.l with
        | none => rw [hl] at h; simp [olbls] at h
        | some a =>
          rw [hl] at h
          simp only [olbls, Option.map_some, Option.getD_some] at h ⊢
          exact lbls_insert1 x a q h
      · exact .inr h
    · rw [List.mem_append] at h ⊢
      rcases h with h | h
      · exact .inl h
      · right
        cases hr : t.r with
        | none => rw [hr] at h; simp [olbls] at h
        | some a =>
          rw [hr] at h
          simp only [olbls, Option.map_some, Option.getD_some] at h ⊢
          exact lbls_insert1 x a q h

theorem rootK_foldl : ∀ (xs : List Leaf) (t : CRoot) (q : BitStr), RootK t q → RootK (xs.foldl CRoot.insert1 t) q
  | [], _, _, h => h
  | x :: xs, t, q, h => rootK_foldl xs (t.insert1 x) q (rootK_insert1 t x q h)

theorem rootK_nodeKeys {t : CRoot} {q : BitStr} (h : RootK t q) : NodeLabel.ofBits q ∈ nodeKeys t := by
  simp only [nodeKeys, List.mem_cons, List.mem_map]
  rcases h with rfl | h
  · exact .inl Ins.ofBits_nil
  · refine .inr ⟨q, ?_, rfl⟩
    have e : ∀ o : Option CTree, (o.map treeLabels).getD [] = Part.olbls o := by
      intro o; cases o <;> simp [Part.olbls, treeLabels_eq]
    rwa [e, e]

theorem nodeKeys_foldl (xs : List Leaf) (t : CRoot) (k : NodeLabel) (h : k ∈ nodeKeys t) :
    k ∈ nodeKeys (xs.foldl CRoot.insert1 t) := by
  obtain ⟨q, hq, rfl⟩ := nodeKeys_rootK h
  exact rootK_nodeKeys (rootK_foldl xs t q hq)

theorem runDir_append (c : Cfg) : ∀ (h1 h2 : List (List (Bytes × Bytes))) (d : Dir),
    runDir c d (h1 ++ h2) = runDir c (runDir c d h1) h2
  | [], _, _ => rfl
  | b :: rest, h2, d => by
    simp only [List.cons_append, runDir]
    split <;> exact runDir_append c rest h2 _


/-- the database after the commit of a publish: well keyed, and it holds nothing but nodes of the new tree -/
theorem commit_db (c : Cfg) (hc : c.emptyLabel.len = 0)
    (s : NodeStore) (a : Azks) (t : CRoot)
    (hidle : s.inTxn = false ∧ s.log = [])
    (hrep : C01.ReprRoot c .directory s t) (hwf : t.WF)
    (hkeyed : C11.WellKeyed s.db)
    (hdom : ∀ k, (s.db.get? k).isSome → k ∈ C11.nodeKeys t)
    (hep : ∀ lf ∈ t.leaves, 1 ≤ lf.ep ∧ lf.ep ≤ a.latestEpoch)
    (els : List (BitStr × Dig))
    (hpf : C01.PrefixFree (t.leaves ++ C01.newLeaves els (a.latestEpoch + 1)))
    (hlen : ∀ lf ∈ t.leaves ++ C01.newLeaves els (a.latestEpoch + 1), 1 ≤ lf.lbl.length ∧ lf.lbl.length ≤ 256)
    (s' : NodeStore) (a' : Azks)
    (hins : s.begin.batchInsert c .directory a (els.map fun x => (NodeLabel.ofBits x.1, x.2)) = .ok (s', a')) :
    C11.WellKeyed s'.commit.db ∧
    ∀ k, (s'.commit.db.get? k).isSome →
      k ∈ C11.nodeKeys ((C01.newLeaves els (a.latestEpoch + 1)).foldl CRoot.insert1 t) := by
  have hlog : Pub.LogOK s' := Pub.logOK_batchInsert hins (Pub.logOK_begin s hidle.2)
  have hdb := Part.keeps_db s.db hins ⟨rfl, rfl⟩
  have h0 : Part.NewInv s.db (a.latestEpoch + 1) s.begin :=
    ⟨rfl, rfl, fun k r hk => by simp [NodeStore.begin, hidle.2, NodeMap.get?] at hk,
      fun k r hk => by simp [NodeStore.begin, hidle.2, NodeMap.get?] at hk⟩
  have hnew := Part.newInv_batchInsert s.db hkeyed hins h0
  have hchg := LagK.chg_batchInsert c hc s a t hidle hrep hwf hep els hpf hlen s' a' hins
  have hget : ∀ k, s'.commit.db.get? k = match s'.log.get? k with
      | some r => some r
      | none => s.db.get? k := by
    intro k
    simp only [NodeStore.commit]
    rw [Pub.get_foldl_set _ _ k hlog.2.1 hlog.2.2, hdb.1]
    cases s'.log.get? k <;> rfl
  constructor
  · intro k r hk
    rw [hget k] at hk
    cases hl : s'.log.get? k with
    | some r' =>
      rw [hl] at hk
      simp only [Option.some.injEq] at hk
      exact hk ▸ hnew.keyed k r' hl
    | none =>
      rw [hl] at hk
      exact hkeyed k r hk
  · intro k hk
    rw [hget k] at hk
    cases hl : s'.log.get? k with
    | none =>
      rw [hl] at hk
      exact nodeKeys_foldl _ t k (hdom k hk)
    | some r' =>
      have hg' : s'.getRec k = some r' := by
        unfold NodeStore.getRec
        rw [hdb.2, if_pos rfl, hl]
      have hgb : s.begin.getRec k = s.db.get? k := by
        simp [NodeStore.getRec, NodeStore.begin, hidle.2, NodeMap.get?]
      by_cases hsame : s'.getRec k = s.begin.getRec k
      · rw [hg', hgb] at hsame
        exact nodeKeys_foldl _ t k (hdom k (by rw [← hsame]; rfl))
      · obtain ⟨q, hq, rfl⟩ := hchg k hsame
        exact rootK_nodeKeys hq


set_option linter.unusedVariables false in
/-- one publish with a duplicate-free batch: `C01.publish_refines` together with the storage invariants, the lagging
views and the value states -/
theorem publish_step (c : Cfg) (hc : c.emptyLabel.len = 0) (d : Dir) (sp : Spec.State)
    (users : List Bytes) (N : Nat)
    (hv : C06.VrfOK d.vrf) (ht : VrfTotal d.vrf users N) (hN : sp.epoch + 2 ≤ N)
    (href : Refines c d sp)
    (hat : AtEpoch d.nodes.db sp.epoch) (hkeyed : C11.WellKeyed d.nodes.db)
    (hdom : ∀ k, (d.nodes.db.get? k).isSome →
      k ∈ nodeKeys (CRoot.ofLeaves (Spec.leaves c d.commitmentKey d.vrf sp.table)))
    (b : List (Bytes × Bytes)) (hb : ∀ x ∈ b, x.1 ∈ users)
    (hu : ∀ x ∈ sp.table, x.1 ∈ users)
    (hnd0 : (b.map (·.1)).eraseDups.length = b.length) :
    ∃ d', d.publish c b = .ok (d', (Spec.applyBatch sp b).epoch,
          Spec.rootHash c d.commitmentKey d.vrf (Spec.applyBatch sp b)) ∧
      Refines c d' (Spec.applyBatch sp b) ∧ d'.vrf = d.vrf ∧ d'.commitmentKey = d.commitmentKey ∧
      AtEpoch d'.nodes.db (Spec.applyBatch sp b).epoch ∧ C11.WellKeyed d'.nodes.db ∧
      (∀ k, (d'.nodes.db.get? k).isSome →
        k ∈ nodeKeys (CRoot.ofLeaves (Spec.leaves c d.commitmentKey d.vrf (Spec.applyBatch sp b).table))) ∧
      (∀ e, e ≤ sp.epoch → C13.ViewLe d.nodes d'.nodes e) ∧
      ∃ extra, d'.states = d.states ++ extra ∧
        ∀ x ∈ extra, x.epoch = sp.epoch + 1 ∧ (Spec.applyBatch sp b).epoch = sp.epoch + 1 := by
  generalize hsp' : Spec.applyBatch sp b = sp'
  obtain ⟨n, hazks⟩ := href.azks
  have hnd : (b.map (·.1)).Nodup :=
    Pub.nodup_of_eraseDups_length _ _ (Nat.le_refl _) (by rw [hnd0, List.length_map])
  have hV : ∀ u, Pub.VersOK (sp.table.get u) := fun u => (href.versions u).1
  have hEp : ∀ u, ∀ v ∈ sp.table.get u, 1 ≤ v.epoch ∧ v.epoch ≤ sp.epoch := fun u => (href.versions u).2
  have hLen : ∀ u, (sp.table.get u).length ≤ sp.epoch := fun u => Pub.versOK_length_le (hV u) _ (hEp u)
  have htot : ∀ x ∈ b, ∀ f ver, 1 ≤ ver → ver ≤ (sp.table.get x.1).length + 1 →
      (d.vrf.get? ⟨x.1, f, ver⟩).isSome := fun x hx f ver h1 h2 =>
    ht x.1 (hb x hx) f ver h1 (by have := hLen x.1; omega)
  obtain ⟨els', hder, hnl, hemp⟩ := Pub.derive_spec c d sp.table sp.epoch href.states hV
    (fun u v hv' => (hEp u v hv').2) hv.len b htot
  have happ : sp' = _ := hsp' ▸ Pub.applyBatch_eq sp b hnd0
  -- the tree before the batch
  have hpfL := Pub.prefixFree_leaves hv.inj hv.len c d.commitmentKey sp.table href.keys hV
  have hlenL := Pub.leaves_len hv.len c d.commitmentKey sp.table
  have hepL := Pub.leaves_ep c d.commitmentKey d.vrf sp.table href.keys 1 sp.epoch hEp
  have hspecL := ofLeaves_spec _ hpfL (fun x hx h => by have := hlenL x hx; rw [h] at this; cases this)
  unfold Dir.publish
  simp only [bind, Except.bind, pure, Except.pure, throw, throwThe, MonadExceptOf.throw]
  rw [if_neg (fun h => h hnd0), hazks]
  simp only [hder]
  by_cases hch : b.filter (Pub.isChange sp.table) = []
  · -- nothing changes
    have hsp : sp' = sp := by rw [happ, hch]; rfl
    have hroot := rootHash_of_reprRoot c .directory d.nodes _ sp.epoch n href.tree
      (fun lf hlf => (hepL lf (hspecL.2.mem_iff.1 hlf)).2)
    rw [hemp.2 hch]
    simp only [List.map_nil, List.isEmpty_nil, if_true, hroot, Dir.liftT]
    refine ⟨d, by rw [hsp]; rfl, hsp ▸ href, rfl, rfl, hsp ▸ hat, hkeyed, hsp ▸ hdom,
      fun e _ => C13.ViewLe.refl _ _, [], by simp, fun x hx => nomatch hx⟩
  · -- an effective batch
    have hsp : sp' = ⟨sp.epoch + 1, (b.filter (Pub.isChange sp.table)).foldl (Pub.step (sp.epoch + 1)) sp.table⟩ := by
      rw [happ, if_neg (by simpa using hch)]
    have hndch : ((b.filter (Pub.isChange sp.table)).map (·.1)).Nodup :=
      hnd.sublist (List.filter_sublist.map _)
    obtain ⟨i1, i2, _, i4, _⟩ := Pub.fold_spec c d.commitmentKey d.vrf (sp.epoch + 1) sp.table hV
      (b.filter (Pub.isChange sp.table)) sp.table hndch (fun _ _ => rfl)
    rw [← hnl] at i1
    have hvers' := Pub.versions_fold sp.table sp.epoch (b.filter (Pub.isChange sp.table)) hV hEp hndch
    have hkeys' := i4 href.keys
    have hV' := fun u => (hvers' u).1
    have hpfL' := Pub.prefixFree_leaves hv.inj hv.len c d.commitmentKey _ hkeys' hV'
    have hlenL' := Pub.leaves_len hv.len c d.commitmentKey
      ((b.filter (Pub.isChange sp.table)).foldl (Pub.step (sp.epoch + 1)) sp.table)
    have hepL' := Pub.leaves_ep c d.commitmentKey d.vrf _ hkeys' 1 (sp.epoch + 1) (fun u => (hvers' u).2)
    have hspecL' := ofLeaves_spec _ hpfL' (fun x hx h => by have := hlenL' x hx; rw [h] at this; cases this)
    -- old leaves ++ new leaves ~ the leaves of the new table
    have hperm : ((CRoot.ofLeaves (Spec.leaves c d.commitmentKey d.vrf sp.table)).leaves ++
        newLeaves els' (sp.epoch + 1)).Perm (Spec.leaves c d.commitmentKey d.vrf
          ((b.filter (Pub.isChange sp.table)).foldl (Pub.step (sp.epoch + 1)) sp.table)) :=
      (List.Perm.append_right _ hspecL.2).trans i1.symm
    have hpf : PrefixFree ((CRoot.ofLeaves (Spec.leaves c d.commitmentKey d.vrf sp.table)).leaves ++
        newLeaves els' (sp.epoch + 1)) := (hperm.pairwise_iff Canon.Incomp.symm).2 hpfL'
    have hlen : ∀ lf ∈ (CRoot.ofLeaves (Spec.leaves c d.commitmentKey d.vrf sp.table)).leaves ++
        newLeaves els' (sp.epoch + 1), 1 ≤ lf.lbl.length ∧ lf.lbl.length ≤ 256 := fun lf hlf => by
      have := hlenL' lf (hperm.mem_iff.1 hlf); omega
    have hep : ∀ lf ∈ (CRoot.ofLeaves (Spec.leaves c d.commitmentKey d.vrf sp.table)).leaves,
        1 ≤ lf.ep ∧ lf.ep ≤ (⟨sp.epoch, n⟩ : Azks).latestEpoch := fun lf hlf => hepL lf (hspecL.2.mem_iff.1 hlf)
    have hbegin : ReprRoot c .directory d.nodes.begin _ :=
      Pub.reprRoot_getRec_congr c .directory d.nodes d.nodes.begin
        (Pub.getRec_begin d.nodes href.idle.1 href.idle.2) _ href.tree
    obtain ⟨s', n', hrun, hrep'⟩ := batchInsert_refines c hc .directory d.nodes.begin ⟨sp.epoch, n⟩ _ hbegin
      hspecL.1 hep els' hpf hlen
    obtain ⟨fw, fp⟩ := foldl_insert1_spec _ hspecL.1 els' (sp.epoch + 1) hpf hlen
    have htree : (newLeaves els' (sp.epoch + 1)).foldl CRoot.insert1
        (CRoot.ofLeaves (Spec.leaves c d.commitmentKey d.vrf sp.table)) =
        CRoot.ofLeaves (Spec.leaves c d.commitmentKey d.vrf
          ((b.filter (Pub.isChange sp.table)).foldl (Pub.step (sp.epoch + 1)) sp.table)) :=
      wf_unique _ _ fw hspecL'.1 ((fp.trans hperm).trans hspecL'.2.symm)
    simp only at hrun hrep'
    rw [htree] at hrep'
    have hlog := Pub.logOK_batchInsert hrun (Pub.logOK_begin d.nodes href.idle.2)
    have hrepc : ReprRoot c .directory s'.commit _ :=
      Pub.reprRoot_getRec_congr c .directory s' s'.commit (Pub.getRec_commit s' hlog) _ hrep'
    have hroot := rootHash_of_reprRoot c .directory s'.commit _ (sp.epoch + 1) n' hrepc
      (fun lf hlf => (hepL' lf (hspecL'.2.mem_iff.1 hlf)).2)
    have hne : els' ≠ [] := fun h => hch (hemp.1 h)
    have hemp' : (els'.map fun x => (NodeLabel.ofBits x.1, x.2)).isEmpty = false := by
      cases els' with
      | nil => exact absurd rfl hne
      | cons _ _ => rfl
    -- the storage invariants
    obtain ⟨s2, n2, hrun2, _, hat2⟩ := full_commit_visible c hc d.nodes ⟨sp.epoch, n⟩ _ href.idle href.tree
      hspecL.1 hat hep els' hpf hlen
    simp only at hrun2 hat2
    rw [hrun] at hrun2
    have hs2 : s2 = s' := by
      injection hrun2 with h; injection h with h _; exact h.symm
    subst hs2
    obtain ⟨hkeyed', hdom'⟩ := commit_db c hc d.nodes ⟨sp.epoch, n⟩ _ href.idle href.tree hspecL.1 hkeyed hdom hep
      els' hpf hlen s2 _ hrun
    simp only at hdom'
    rw [htree] at hdom'
    have hview : ∀ e, e ≤ sp.epoch → C13.ViewLe d.nodes s2.commit e := fun e he =>
      C13.viewLe_publish c hc d.nodes ⟨sp.epoch, n⟩ _ href.idle href.tree hspecL.1 hat hkeyed hdom hep els' hpf hlen
        s2 _ hrun e he
    -- the value states
    have hstates : ((b.filter (Pub.isChange sp.table)).map (Pub.mkState d.vrf sp.table (sp.epoch + 1))).foldl
        Dir.setState d.states = d.states ++ (b.filter (Pub.isChange sp.table)).map
          (Pub.mkState d.vrf sp.table (sp.epoch + 1)) := by
      apply Pub.foldl_setState_append
      · intro s hs w hw h
        obtain ⟨x, _, rfl⟩ := List.mem_map.1 hw
        obtain ⟨v, hvm, _, he, _⟩ := href.states.1 s hs
        have := (hEp _ v hvm).2
        have h2 := h.2
        simp only [Pub.mkState] at h2
        omega
      · rw [List.pairwise_map]
        have : (b.filter (Pub.isChange sp.table)).Pairwise (fun a b => a.1 ≠ b.1) := by
          have := hndch
          rwa [List.Nodup, List.pairwise_map] at this
        exact this.imp (fun h h' => h h'.1)
    have hsm := Pub.smatch_fold sp.table sp.epoch (b.filter (Pub.isChange sp.table)) hV hEp hndch
      d.states d.vrf href.states (fun x hx => htot x ((List.mem_filter.1 hx).1) true _ (by omega) (Nat.le_refl _))
    simp only [hemp', Bool.false_eq_true, if_false, href.idle.1, hrun, Dir.liftT, hroot, hstates]
    rw [if_neg (fun h => h rfl)]
    refine ⟨{ d with nodes := s2.commit, azks := some ⟨sp.epoch + 1, n'⟩,
                     states := d.states ++ (b.filter (Pub.isChange sp.table)).map
                       (Pub.mkState d.vrf sp.table (sp.epoch + 1)) }, ?_, ?_, rfl, rfl, ?_, hkeyed', ?_, hview,
              _, rfl, ?_⟩
    · rw [hsp]; rfl
    · rw [hsp]
      exact ⟨⟨n', rfl⟩, Pub.commit_idle s2, hrepc, hsm, hvers', hkeys'⟩
    · rw [hsp]; exact hat2
    · rw [hsp]; exact hdom'
    · intro x hx
      obtain ⟨y, _, rfl⟩ := List.mem_map.1 hx
      rw [hsp]
      exact ⟨rfl, rfl⟩

/-! ### any number of publishes -/

/-- the storage invariants of a directory state (`C13.StoreOK`) -/
structure StoreInv (c : Cfg) (d : Dir) (sp : Spec.State) : Prop where
  refines : Refines c d sp
  atEpoch : AtEpoch d.nodes.db sp.epoch
  keyed : C11.WellKeyed d.nodes.db
  dom : ∀ k, (d.nodes.db.get? k).isSome →
    k ∈ nodeKeys (CRoot.ofLeaves (Spec.leaves c d.commitmentKey d.vrf sp.table))
  statesLe : ∀ x ∈ d.states, x.epoch ≤ sp.epoch

theorem statesLe_of_refines {c : Cfg} {d : Dir} {sp : Spec.State} (href : Refines c d sp) :
    ∀ x ∈ d.states, x.epoch ≤ sp.epoch := by
  intro x hx
  obtain ⟨v, hvm, _, he, _⟩ := href.states.1 x hx
  have := ((href.versions x.username).2 v hvm).2
  omega

theorem applyBatch_epoch_ge (s : Spec.State) (b : List (Bytes × Bytes)) : s.epoch ≤ (Spec.applyBatch s b).epoch := by
  rcases Pub.applyBatch_cases s b with h | h <;> rw [h]
  · exact Nat.le_refl _
  · exact Nat.le_succ _

/-- **every history from a state with the invariants**: the invariants hold at the end, earlier epochs' views only
shrink, and the value states added are of later epochs -/
theorem run_inv (c : Cfg) (hc : c.emptyLabel.len = 0) (users : List Bytes) (N : Nat) :
    ∀ (h : List (List (Bytes × Bytes))) (d : Dir) (sp : Spec.State),
      C06.VrfOK d.vrf → VrfTotal d.vrf users N → sp.epoch + h.length + 1 ≤ N → StoreInv c d sp →
      (∀ x ∈ sp.table, x.1 ∈ users) → (∀ b ∈ h, ∀ x ∈ b, x.1 ∈ users) →
      StoreInv c (runDir c d h) (h.foldl Spec.applyBatch sp) ∧ (runDir c d h).vrf = d.vrf ∧
        (runDir c d h).commitmentKey = d.commitmentKey ∧
        (h.foldl Spec.applyBatch sp).epoch ≤ sp.epoch + h.length ∧
        (∀ x ∈ (h.foldl Spec.applyBatch sp).table, x.1 ∈ users) ∧
        (∀ e, e ≤ sp.epoch → C13.ViewLe d.nodes (runDir c d h).nodes e) ∧
        ∃ extra, (runDir c d h).states = d.states ++ extra ∧ ∀ x ∈ extra, sp.epoch < x.epoch
  | [], d, sp, _, _, _, hinv, hu, _ =>
    ⟨hinv, rfl, rfl, Nat.le_refl _, hu, fun e _ => C13.ViewLe.refl _ _, [], by simp [runDir], fun x hx => nomatch hx⟩
  | b :: rest, d, sp, hv, ht, hN, hinv, hu, hb => by
    simp only [List.length_cons] at hN
    have hle := Pub.applyBatch_epoch_le sp b
    have hge := applyBatch_epoch_ge sp b
    have hu' : ∀ x ∈ (Spec.applyBatch sp b).table, x.1 ∈ users := by
      intro x hx
      rcases Pub.applyBatch_keys sp b x hx with h | h
      · obtain ⟨y, hy, hyx⟩ := List.mem_map.1 h
        exact hyx ▸ hb b List.mem_cons_self y hy
      · exact hu x h
    have hb' : ∀ b' ∈ rest, ∀ x ∈ b', x.1 ∈ users := fun b' hb'' => hb b' (List.mem_cons_of_mem _ hb'')
    rw [List.foldl_cons]
    by_cases hdup : (b.map (·.1)).eraseDups.length = b.length
    · obtain ⟨d', hpub, href', hvrf, hkey, hat', hkeyed', hdom', hview, extra, hst, hextra⟩ :=
        publish_step c hc d sp users N hv ht (by omega) hinv.refines hinv.atEpoch hinv.keyed hinv.dom b
          (hb b List.mem_cons_self) hu hdup
      have hrun : runDir c d (b :: rest) = runDir c d' rest := by
        simp only [runDir, hpub]
      have hinv' : StoreInv c d' (Spec.applyBatch sp b) :=
        ⟨href', hat', hkeyed', by rw [hvrf, hkey]; exact hdom', statesLe_of_refines href'⟩
      obtain ⟨i1, i2, i3, i4, i5, i6, extra', i7, i8⟩ := run_inv c hc users N rest d' _ (hvrf ▸ hv) (hvrf ▸ ht)
        (by omega) hinv' hu' hb'
      rw [hrun]
      refine ⟨i1, i2.trans hvrf, i3.trans hkey, by simp only [List.length_cons]; omega, i5, ?_,
        extra ++ extra', by rw [i7, hst, List.append_assoc], ?_⟩
      · intro e he
        exact C13.ViewLe.trans (hview e he) (i6 e (by omega))
      · intro x hx
        rcases List.mem_append.1 hx with hx | hx
        · have := (hextra x hx).1; omega
        · have := i8 x hx; omega
    · obtain ⟨⟨e, hpub⟩, hsp⟩ := (publish_refines c hc d sp users N hv ht (by omega) hinv.refines b
        (hb b List.mem_cons_self) hu).1 hdup
      have hrun : runDir c d (b :: rest) = runDir c d rest := by
        simp only [runDir, hpub]
      rw [hrun, hsp]
      obtain ⟨i1, i2, i3, i4, i5, i6, i7⟩ := run_inv c hc users N rest d sp hv ht (by omega) hinv hu hb'
      exact ⟨i1, i2, i3, by simp only [List.length_cons]; omega, i5, i6, i7⟩

/-- the requests of an instance that holds `d`'s epoch record and reads the storage reached after the further
history `h` -/
theorem lagging_run (c : Cfg) (hc : c.emptyLabel.len = 0) (users : List Bytes) (N : Nat)
    (h : List (List (Bytes × Bytes))) (d : Dir) (sp : Spec.State)
    (hv : C06.VrfOK d.vrf) (ht : VrfTotal d.vrf users N) (hN : sp.epoch + h.length + 1 ≤ N) (hinv : StoreInv c d sp)
    (hu : ∀ x ∈ sp.table, x.1 ∈ users) (hb : ∀ b ∈ h, ∀ x ∈ b, x.1 ∈ users) (dlag : Dir)
    (hlag : dlag = { runDir c d h with azks := d.azks }) :
    (dlag.epochHash c = d.epochHash c ∨ ∃ x, dlag.epochHash c = .error x) ∧
    (∀ u, dlag.lookup c u = d.lookup c u ∨ ∃ x, dlag.lookup c u = .error x) ∧
    (∀ u p, dlag.keyHistory c u p = d.keyHistory c u p ∨ ∃ x, dlag.keyHistory c u p = .error x) ∧
    (∀ s0 e0, dlag.audit c s0 e0 = d.audit c s0 e0 ∨ ∃ x, dlag.audit c s0 e0 = .error x) := by
  obtain ⟨_, i2, i3, _, _, i6, extra, i7, i8⟩ := run_inv c hc users N h d sp hv ht hN hinv hu hb
  obtain ⟨n, hazks⟩ := hinv.refines.azks
  subst hlag
  exact C13.lagging_requests c d _ ⟨sp.epoch, n⟩ hazks hazks i2 i3 (i6 sp.epoch (Nat.le_refl _)) hinv.statesLe
    extra i8 i7

end Akd.Lag
