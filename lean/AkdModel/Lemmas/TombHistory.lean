/- helper lemmas for `Thm/C20c.lean` (history requests on a tombstoned directory) -/
import AkdModel.Thm.C03
import AkdModel.Thm.C20
namespace Akd.Tomb
open Akd

/-! ### `Dir.tombstone`, unfolded -/

theorem tombstone_eq (d : Dir) (u : Bytes) (e : Nat) :
    d.tombstone u e = if (d.states.filter (fun s => s.username = u)).isEmpty then .error .notFound
      else .ok { d with states := d.states.map (tf u e) } := rfl

theorem tombstone_nonempty {d d' : Dir} {u : Bytes} {e : Nat} (h : d.tombstone u e = .ok d') :
    (d.states.filter (fun s => s.username = u)).isEmpty = false := by
  rw [tombstone_eq] at h
  split at h
  · cases h
  · next hn => simpa using hn

theorem tf_version (u e s) : (tf u e s).version = s.version := by
  unfold tf; split <;> rfl

/-! ### tombstoning twice -/

theorem tf_tf (u : Bytes) (c1 c2 : Nat) (s : ValueState) :
    tf u c2 (tf u c1 s) = tf u (max c1 c2) s := by
  by_cases h1 : s.username = u ∧ s.epoch ≤ c1 ∧ s.value ≠ []
  · have hm : s.username = u ∧ s.epoch ≤ max c1 c2 ∧ s.value ≠ [] :=
      ⟨h1.1, by have := h1.2.1; omega, h1.2.2⟩
    have e1 : tf u c1 s = { s with value := [] } := by unfold tf; rw [if_pos h1]
    have em : tf u (max c1 c2) s = { s with value := [] } := by unfold tf; rw [if_pos hm]
    rw [e1, em]
    unfold tf
    rw [if_neg (fun h => h.2.2 rfl)]
  · have e1 : tf u c1 s = s := by unfold tf; rw [if_neg h1]
    rw [e1]
    by_cases h2 : s.username = u ∧ s.epoch ≤ c2 ∧ s.value ≠ []
    · have hm : s.username = u ∧ s.epoch ≤ max c1 c2 ∧ s.value ≠ [] :=
        ⟨h2.1, by have := h2.2.1; omega, h2.2.2⟩
      unfold tf
      rw [if_pos h2, if_pos hm]
    · have hm : ¬ (s.username = u ∧ s.epoch ≤ max c1 c2 ∧ s.value ≠ []) := by
        intro hm
        have hc1 : ¬ s.epoch ≤ c1 := fun hh => h1 ⟨hm.1, hh, hm.2.2⟩
        have hc2 : ¬ s.epoch ≤ c2 := fun hh => h2 ⟨hm.1, hh, hm.2.2⟩
        have := hm.2.1
        omega
      unfold tf
      rw [if_neg h2, if_neg hm]

theorem filter_user_map_tf (u u' : Bytes) (e : Nat) (l : List ValueState) :
    (l.map (tf u e)).filter (fun s => s.username = u') = (l.filter (fun s => s.username = u')).map (tf u e) := by
  rw [List.filter_map]
  congr 1
  apply List.filter_congr
  intro s _
  simp only [Function.comp, tf_username]

theorem tombstone_twice' (d d1 d2 : Dir) (u : Bytes) (c1 c2 : Nat)
    (h1 : d.tombstone u c1 = .ok d1) (h2 : d1.tombstone u c2 = .ok d2) :
    d.tombstone u (max c1 c2) = .ok d2 := by
  have hne := tombstone_nonempty h1
  have e1 := tombstone_ok h1
  have e2 := tombstone_ok h2
  rw [tombstone_eq, hne]
  subst e1
  subst e2
  simp only [Bool.false_eq_true, if_false, List.map_map]
  congr 2
  apply List.map_congr_left
  intro s _
  exact (tf_tf u c1 c2 s).symm

/-! ### the history of another label -/

theorem filter_other_map_tf (u u' : Bytes) (e : Nat) (hne : u' ≠ u) (l : List ValueState) :
    (l.map (tf u e)).filter (fun s => s.username = u') = l.filter (fun s => s.username = u') := by
  rw [filter_user_map_tf]
  conv => rhs; rw [← List.map_id (l.filter (fun s => s.username = u'))]
  apply List.map_congr_left
  intro s hs
  have := (List.mem_filter.1 hs).2
  simp only [decide_eq_true_eq] at this
  rw [tf_other (by rw [this]; exact hne)]
  rfl

theorem updateProof_states (c : Cfg) (d : Dir) (ss : List ValueState) :
    Dir.updateProof c { d with states := ss } = Dir.updateProof c d := rfl

theorem vrfLabel_states (d : Dir) (ss : List ValueState) :
    Dir.vrfLabel { d with states := ss } = Dir.vrfLabel d := rfl

/-- `keyHistory` reads the value states of the label only -/
theorem keyHistory_states_congr (c : Cfg) (d : Dir) (ss : List ValueState) (u : Bytes) (p : HistoryParams)
    (h : ss.filter (fun s => s.username = u) = d.states.filter (fun s => s.username = u)) :
    Dir.keyHistory c { d with states := ss } u p = d.keyHistory c u p := by
  unfold Dir.keyHistory
  simp only [h, updateProof_states, vrfLabel_states]

theorem tombstone_other_history' (c : Cfg) (d d' : Dir) (u u' : Bytes) (cut : Nat)
    (htomb : d.tombstone u cut = .ok d') (hne : u' ≠ u) (p : HistoryParams) :
    d'.keyHistory c u' p = d.keyHistory c u' p := by
  rw [tombstone_ok htomb]
  exact keyHistory_states_congr c d _ u' p (filter_other_map_tf u u' cut hne d.states)

/-! ### the data `keyHistory` collects, on the tombstoned directory -/

theorem insertDesc_map (f : ValueState → ValueState) (he : ∀ s, (f s).epoch = s.epoch) (s : ValueState) :
    ∀ l : List ValueState, Dir.insertDesc (f s) (l.map f) = (Dir.insertDesc s l).map f
  | [] => rfl
  | x :: xs => by
    simp only [List.map_cons, Dir.insertDesc, he]
    split
    · rfl
    · simp only [List.map_cons, insertDesc_map f he s xs]

theorem sortDesc_map (f : ValueState → ValueState) (he : ∀ s, (f s).epoch = s.epoch) :
    ∀ l : List ValueState, (l.map f).foldr Dir.insertDesc [] = (l.foldr Dir.insertDesc []).map f
  | [] => rfl
  | s :: l => by
    simp only [List.map_cons, List.foldr_cons, sortDesc_map f he l, insertDesc_map f he]

theorem filter_epoch_map_tf (u : Bytes) (e E : Nat) (l : List ValueState) :
    (l.map (tf u e)).filter (fun s => s.epoch ≤ E) = (l.filter (fun s => s.epoch ≤ E)).map (tf u e) := by
  rw [List.filter_map]
  congr 1
  apply List.filter_congr
  intro s _
  simp only [Function.comp, tf_epoch]

theorem data_tomb (u : Bytes) (cut E : Nat) (l : List ValueState) :
    (((l.map (tf u cut)).filter (fun s => s.username = u)).filter (fun s => s.epoch ≤ E)).foldr Dir.insertDesc []
      = (((l.filter (fun s => s.username = u)).filter (fun s => s.epoch ≤ E)).foldr Dir.insertDesc []).map (tf u cut) := by
  rw [filter_user_map_tf, filter_epoch_map_tf, sortDesc_map _ (tf_epoch u cut)]

theorem mem_sortDesc (x : ValueState) : ∀ F : List ValueState, x ∈ F.foldr Dir.insertDesc [] ↔ x ∈ F
  | [] => by simp
  | s :: F => by
    simp only [List.foldr_cons, Gen.mem_insertDesc, mem_sortDesc x F, List.mem_cons]

/-- the entry as reported after tombstoning up to `cut` (= `C20.tombVer`) -/
def blank (cut : Nat) (v : Spec.Ver) : Spec.Ver :=
  if Spec.tombstoned (some cut) v then { v with value := [] } else v

theorem blank_version (cut : Nat) (v : Spec.Ver) : (blank cut v).version = v.version := by
  unfold blank; split <;> rfl

theorem blank_epoch (cut : Nat) (v : Spec.Ver) : (blank cut v).epoch = v.epoch := by
  unfold blank; split <;> rfl

theorem blank_cases (cut : Nat) (v : Spec.Ver) :
    (Spec.tombstoned (some cut) v = false ∧ blank cut v = v) ∨
    (Spec.tombstoned (some cut) v = true ∧ v.value ≠ [] ∧ blank cut v = { v with value := [] }) := by
  cases h : Spec.tombstoned (some cut) v with
  | false => left; exact ⟨rfl, by unfold blank; rw [h]; rfl⟩
  | true =>
    right
    refine ⟨rfl, ?_, by unfold blank; rw [h]; rfl⟩
    simp only [Spec.tombstoned, Bool.and_eq_true, decide_eq_true_eq] at h
    exact h.2

theorem verOf_tf (u : Bytes) (cut : Nat) (s : ValueState) (h : s.username = u) :
    Gen.verOf (tf u cut s) = blank cut (Gen.verOf s) := by
  by_cases h' : s.epoch ≤ cut ∧ s.value ≠ []
  · have h1 : s.username = u ∧ s.epoch ≤ cut ∧ s.value ≠ [] := ⟨h, h'⟩
    have h2 : Spec.tombstoned (some cut) (Gen.verOf s) = true := by
      simp only [Spec.tombstoned, Gen.verOf, Bool.and_eq_true]
      exact ⟨decide_eq_true h'.1, decide_eq_true h'.2⟩
    unfold tf blank
    rw [if_pos h1, h2]
    rfl
  · have h1 : ¬ (s.username = u ∧ s.epoch ≤ cut ∧ s.value ≠ []) := fun hh => h' hh.2
    have h2 : Spec.tombstoned (some cut) (Gen.verOf s) = false := by
      cases hb : Spec.tombstoned (some cut) (Gen.verOf s) with
      | false => rfl
      | true =>
        simp only [Spec.tombstoned, Gen.verOf, Bool.and_eq_true] at hb
        exact absurd ⟨of_decide_eq_true hb.1, of_decide_eq_true hb.2⟩ h'
    unfold tf blank
    rw [if_neg h1, h2]
    rfl

open Gen in
/-- **generation on the tombstoned directory**: the honest proof for the blanked entries, same markers -/
theorem keyHistory_gen_tomb (c : Cfg) (d : Dir) (sp : Spec.State) (users : List Bytes) (N : Nat)
    (hv : C06.VrfOK d.vrf) (ht : C01.VrfTotal d.vrf users N) (hN : sp.epoch + 1 ≤ N)
    (href : C01.Refines c d sp) (u : Bytes) (hmem : u ∈ users) (hpub : sp.table.get u ≠ [])
    (p : HistoryParams) (hp : ∀ n, p = .mostRecent n → 1 ≤ n) (cut : Nat) :
    ∃ past future,
      Marker.markers? ((sp.table.get u).length + 1 - (C07.expected (sp.table.get u) p).length)
        (sp.table.get u).length sp.epoch = some (past, future) ∧
      Dir.keyHistory c { d with states := d.states.map (tf u cut) } u p = .ok (honestHistory c d.commitmentKey d.vrf
          (CRoot.ofLeaves (Spec.leaves c d.commitmentKey d.vrf sp.table)) u
          ((C07.expected (sp.table.get u) p).map (blank cut)) past future,
        sp.epoch, Spec.rootHash c d.commitmentKey d.vrf sp) := by
  obtain ⟨n, hazks⟩ := href.azks
  have hV : Pub.VersOK (sp.table.get u) := (href.versions u).1
  have hEp := (href.versions u).2
  have hlen := Pub.versOK_length_le hV _ hEp
  have hD := expected_descFrom (sp.table.get u) hV hpub p hp
  have hsorted := sorted_states_eq d sp.table sp.epoch href.states u hV (fun v hvm => (hEp v hvm).2)
  -- the data list
  obtain ⟨data, hdata, hmap⟩ : ∃ data, (match p with
      | .complete => ((d.states.filter (fun s : ValueState => s.username = u)).filter
          (fun s : ValueState => s.epoch ≤ sp.epoch)).foldr Dir.insertDesc []
      | .mostRecent n => (((d.states.filter (fun s : ValueState => s.username = u)).filter
          (fun s : ValueState => s.epoch ≤ sp.epoch)).foldr Dir.insertDesc []).take n) = data ∧
      data.map verOf = C07.expected (sp.table.get u) p := by
    refine ⟨_, rfl, ?_⟩
    cases p with
    | complete => exact hsorted
    | mostRecent r => simp only [C07.expected, List.map_take, hsorted]
  have huser : ∀ s ∈ data, s.username = u := by
    intro s hs
    rw [← hdata] at hs
    have hs' : s ∈ ((d.states.filter (fun s : ValueState => s.username = u)).filter
          (fun s : ValueState => s.epoch ≤ sp.epoch)).foldr Dir.insertDesc [] := by
      cases p with
      | complete => exact hs
      | mostRecent r => exact List.mem_of_mem_take hs
    rw [mem_sortDesc] at hs'
    have := (List.mem_filter.1 (List.mem_filter.1 hs').1).2
    simpa using this
  have hdata' : (match p with
      | .complete => (((d.states.map (tf u cut)).filter (fun s : ValueState => s.username = u)).filter
          (fun s : ValueState => s.epoch ≤ sp.epoch)).foldr Dir.insertDesc []
      | .mostRecent n => ((((d.states.map (tf u cut)).filter (fun s : ValueState => s.username = u)).filter
          (fun s : ValueState => s.epoch ≤ sp.epoch)).foldr Dir.insertDesc []).take n) = data.map (tf u cut) := by
    rw [← hdata]
    cases p with
    | complete => exact data_tomb u cut sp.epoch d.states
    | mostRecent r => simp only [data_tomb, List.map_take]
  have hvers : (C07.expected (sp.table.get u) p).map (·.version) = data.map (·.version) := by
    rw [← hmap, List.map_map]; rfl
  have hk : (C07.expected (sp.table.get u) p).length = data.length := by rw [← hmap, List.length_map]
  rw [hvers] at hD
  cases hdt : data with
  | nil => have := hD.pos; rw [hdt] at this; simp at this
  | cons first rest =>
  subst hdt
  simp only [List.map_cons] at hD
  obtain ⟨hmin, hmax⟩ := hD.min_max
  simp only [List.foldl_cons, Nat.min_self, Nat.max_self, List.foldl_map, List.length_cons, List.length_map] at hmin hmax
  have hmin' : ((first :: rest).map (tf u cut)).foldl (fun a s => min a s.version) (tf u cut first).version
      = (sp.table.get u).length + 1 - (rest.length + 1) := by
    simp only [List.map_cons, List.foldl_cons, List.foldl_map, tf_version, Nat.min_self]; exact hmin
  have hmax' : ((first :: rest).map (tf u cut)).foldl (fun a s => max a s.version) (tf u cut first).version
      = (sp.table.get u).length := by
    simp only [List.map_cons, List.foldl_cons, List.foldl_map, tf_version, Nat.max_self]; exact hmax
  have hkL := hD.le
  have hk1 := hD.pos
  simp only [List.length_cons, List.length_map] at hkL hk1
  have hk' : (C07.expected (sp.table.get u) p).length = rest.length + 1 := by rw [hk]; rfl
  obtain ⟨⟨past, future⟩, hm⟩ := Option.isSome_iff_exists.1
    (C08.markers_no_panic ((sp.table.get u).length + 1 - (rest.length + 1)) (sp.table.get u).length sp.epoch
      (by omega) (by omega) hlen)
  obtain ⟨hpb, hfb⟩ := markers_bounds hm
  have hmemvs : ∀ x ∈ first :: rest, verOf x ∈ sp.table.get u := fun x hx =>
    expected_mem _ p (by rw [← hmap]; exact List.mem_map_of_mem hx)
  have htot : ∀ f v, 1 ≤ v → v ≤ sp.epoch → (d.vrf.get? ⟨u, f, v⟩).isSome := fun f v h1 h2 =>
    ht u hmem f v h1 (by omega)
  have hgen := fun l hl => refines_gen c d sp hv href n l hl
  refine ⟨past, future, by rw [hk']; exact hm, ?_⟩
  have hne : (d.states.filter (fun s => s.username = u)).isEmpty = false := by
    cases hvs : sp.table.get u with
    | nil => exact absurd hvs hpub
    | cons v _ =>
      obtain ⟨s, hs, hsu, -⟩ := href.states.2.1 u v (by rw [hvs]; exact List.mem_cons_self)
      have : s ∈ d.states.filter (fun s => s.username = u) := by
        rw [List.mem_filter]; exact ⟨hs, by simpa using hsu⟩
      cases hf : d.states.filter (fun s => s.username = u) with
      | nil => rw [hf] at this; cases this
      | cons _ _ => rfl
  have hne' : ((d.states.map (tf u cut)).filter (fun s => s.username = u)).isEmpty = false := by
    rw [filter_user_map_tf, List.isEmpty_map]; exact hne
  have hupsd : ((first :: rest).map (tf u cut)).mapM (Dir.updateProof c d ⟨sp.epoch, n⟩ u) = .ok
      (((first :: rest).map (tf u cut)).map (fun s => honestUpdate c d.commitmentKey d.vrf
        (CRoot.ofLeaves (Spec.leaves c d.commitmentKey d.vrf sp.table)) u (verOf s))) := by
    apply mapM_ok
    intro x hx
    obtain ⟨s, hs, rfl⟩ := List.mem_map.1 hx
    have hx' := Pub.versOK_version_le hV (hmemvs s hs)
    simp only [verOf] at hx'
    exact updateProof_gen c d _ _ u (tf u cut s) (fun f v h1 h2 => htot f v h1 (by rw [tf_version] at h2; omega))
      (fun f v l hl => (hgen l (hv.len _ _ hl)).2.1) (by rw [tf_version]; exact hx'.1)
  have hpastd : past.mapM (fun v => do
        let l ← d.vrfLabel u true v
        Dir.liftT (d.nodes.membershipProof c ⟨sp.epoch, n⟩ l)) = .ok
      (past.map (fun v => (CRoot.ofLeaves (Spec.leaves c d.commitmentKey d.vrf sp.table)).genMembership c
        (lab d.vrf u true v).bits)) := by
    apply mapM_ok (g := fun v => (CRoot.ofLeaves (Spec.leaves c d.commitmentKey d.vrf sp.table)).genMembership c
      (lab d.vrf u true v).bits)
    intro x hx
    obtain ⟨l, hl⟩ := Option.isSome_iff_exists.1 (htot true x (hpb x hx).1 (by have := (hpb x hx).2; omega))
    simp only [bind, Except.bind, Dir.vrfLabel, hl, (hgen l (hv.len _ _ hl)).2.1, Dir.liftT, lab_eq hl]
  have hfutd : future.mapM (fun v => do
        let l ← d.vrfLabel u true v
        Dir.liftT (d.nodes.nonMembershipProof c ⟨sp.epoch, n⟩ l)) = .ok
      (future.map (fun v => (CRoot.ofLeaves (Spec.leaves c d.commitmentKey d.vrf sp.table)).genNonMembership c
        (lab d.vrf u true v).bits)) := by
    apply mapM_ok (g := fun v => (CRoot.ofLeaves (Spec.leaves c d.commitmentKey d.vrf sp.table)).genNonMembership c
      (lab d.vrf u true v).bits)
    intro x hx
    obtain ⟨l, hl⟩ := Option.isSome_iff_exists.1 (htot true x (by have := (hfb x hx).1; omega) (hfb x hx).2)
    simp only [bind, Except.bind, Dir.vrfLabel, hl, (hgen l (hv.len _ _ hl)).2.2, Dir.liftT, lab_eq hl]
  have hres := keyHistory_eval c { d with states := d.states.map (tf u cut) } u p ⟨sp.epoch, n⟩
    ((first :: rest).map (tf u cut)) (tf u cut first) past future
    (((first :: rest).map (tf u cut)).map (fun s => honestUpdate c d.commitmentKey d.vrf
      (CRoot.ofLeaves (Spec.leaves c d.commitmentKey d.vrf sp.table)) u (verOf s)))
    (past.map (fun v => (CRoot.ofLeaves (Spec.leaves c d.commitmentKey d.vrf sp.table)).genMembership c (lab d.vrf u true v).bits))
    (future.map (fun v => (CRoot.ofLeaves (Spec.leaves c d.commitmentKey d.vrf sp.table)).genNonMembership c (lab d.vrf u true v).bits))
    (Spec.rootHash c d.commitmentKey d.vrf sp)
    hazks hne' hdata' rfl (by rw [hmin']; omega) (by rw [hmax']; omega) (by rw [hmin', hmax']; exact hm)
    hupsd hpastd hfutd (C01.rootHash_of_reprRoot c .directory d.nodes _ sp.epoch n href.tree
      (refines_tree_facts c d sp hv href).2.2)
  have hups_eq : ((first :: rest).map (tf u cut)).map (fun s => honestUpdate c d.commitmentKey d.vrf
        (CRoot.ofLeaves (Spec.leaves c d.commitmentKey d.vrf sp.table)) u (verOf s))
      = ((C07.expected (sp.table.get u) p).map (blank cut)).map (honestUpdate c d.commitmentKey d.vrf
        (CRoot.ofLeaves (Spec.leaves c d.commitmentKey d.vrf sp.table)) u) := by
    rw [← hmap, List.map_map, List.map_map, List.map_map]
    apply List.map_congr_left
    intro s hs
    simp only [Function.comp, verOf_tf u cut s (huser s hs)]
  rw [hres, hups_eq]
  rfl

/-! ### verification of the honest proof for blanked entries -/

/-- a failing update proof anywhere fails the whole loop -/
theorem verifyUpdates_error_of_mem (c : Cfg) (vrf : VrfTable) (root : Dig) (u : Bytes) (allow : Bool)
    (p : UpdateProof) (hp : ∃ e, Verify.singleUpdate c vrf root u allow p = .error e) :
    ∀ (ups : List UpdateProof) (prev : Option Nat), p ∈ ups →
      ∃ e, Verify.verifyUpdates c vrf root u allow prev ups = .error e
  | [], _, h => nomatch h
  | a :: l, prev, h => by
    have hcond : (if (match prev with | some pe => decide (a.epoch > pe) | none => false) then
          (Except.error VErr.history : Except VErr (List Verify.VerifyResult))
        else
          match Verify.singleUpdate c vrf root u allow a with
          | .error e => .error e
          | .ok r =>
            match Verify.verifyUpdates c vrf root u allow (some a.epoch) l with
            | .error e => .error e
            | .ok rs => .ok (r :: rs)) = Verify.verifyUpdates c vrf root u allow prev (a :: l) := by
      conv => rhs; unfold Verify.verifyUpdates
      rfl
    rw [← hcond]
    cases (match prev with | some pe => decide (a.epoch > pe) | none => false) with
    | true => exact ⟨_, rfl⟩
    | false =>
      simp only [Bool.false_eq_true, if_false]
      cases hs : Verify.singleUpdate c vrf root u allow a with
      | error e => exact ⟨e, rfl⟩
      | ok r =>
        rcases List.mem_cons.1 h with rfl | h'
        · obtain ⟨e, he⟩ := hp
          rw [hs] at he; cases he
        · obtain ⟨e, he⟩ := verifyUpdates_error_of_mem c vrf root u allow p hp l (some a.epoch) h'
          exact ⟨e, by simp only [he]⟩

section
open Gen
variable {c : Cfg} {key : Dig} {vrf : VrfTable} {t : CRoot} {u : Bytes} {vs : List Spec.Ver}

/-- allow mode: a blanked honest update proof is accepted with the empty value -/
theorem blankUpdate_verifies_allow (hv : C06.VrfOK vrf) (hwf : t.WF) (hon : C06.HonestFor c key vrf t u vs)
    (v : Spec.Ver) (hmem : v ∈ vs)
    (hsome : v.version > 1 → (vrf.get? ⟨u, false, v.version - 1⟩).isSome) (cut : Nat) :
    Verify.singleUpdate c vrf (t.rootHash c) u true (honestUpdate c key vrf t u (blank cut v))
      = .ok (C07.resultOf (blank cut v)) := by
  rcases blank_cases cut v with ⟨-, e⟩ | ⟨-, -, e⟩
  · rw [e]; exact honestUpdate_verifies hv hwf hon v hmem hsome true
  · rw [e]
    obtain ⟨-, h2⟩ := fresh_existence hv hwf hon v hmem
    unfold Verify.singleUpdate honestUpdate
    by_cases hgt : v.version > 1
    · have h4 := stale_existence hv hwf hon v hmem hgt (hsome hgt)
      have hle : ¬ v.version ≤ 1 := by omega
      simp only [h2, Bool.true_and, decide_true, if_true, hgt, hle, if_false, h4, C07.resultOf]
    · have hle : v.version ≤ 1 := by omega
      simp only [h2, Bool.true_and, decide_true, if_true, hle, C07.resultOf]

/-- strict mode: a blanked honest update proof of a non-empty value is rejected (the leaf commits to the
true value) -/
theorem blankUpdate_rejected (hc : c.Lawful) (hv : C06.VrfOK vrf) (hwf : t.WF)
    (hon : C06.HonestFor c key vrf t u vs) (v : Spec.Ver) (hmem : v ∈ vs) (hne : v.value ≠ []) :
    Verify.singleUpdate c vrf (t.rootHash c) u false (honestUpdate c key vrf t u { v with value := [] })
      = .error .membership := by
  obtain ⟨h1, -⟩ := fresh_existence hv hwf hon v hmem
  have hneq : c.leafHash (c.commit [] (c.nonce key (lab vrf u true v.version) v.version [])) v.epoch
      ≠ (t.genMembership c (lab vrf u true v.version).bits).hashVal := by
    rw [h1]
    intro h
    exact hne ((hc.commit_inj _ _ _ _ (hc.leaf_inj _ _ _ _ h).1).1).symm
  unfold Verify.singleUpdate honestUpdate
  simp only [Bool.false_and, Bool.false_eq_true, if_false, Verify.existenceWithVal, hneq, ne_eq,
    not_false_eq_true, if_true]

/-- the history verifier on the honest proof for blanked entries: parameters and markers pass, the answer is
that of the loop over the update proofs -/
theorem history_blank (hc : c.Lawful) (hfresh : C05.EmptyLabelFresh c) (hv : C06.VrfOK vrf) (hwf : t.WF)
    (h256 : C05.Leaves256 t) (hon : C06.HonestFor c key vrf t u vs) (hne : vs ≠ [])
    (E : Nat) (hE : vs.length ≤ E)
    (htot : ∀ f x, 1 ≤ x → x ≤ E → (vrf.get? ⟨u, f, x⟩).isSome)
    (p : HistoryParams) (hp : ∀ n, p = .mostRecent n → 1 ≤ n) (allow : Bool)
    (past future : List Nat)
    (hm : Marker.markers? (vs.length + 1 - (C07.expected vs p).length) vs.length E = some (past, future))
    (cut : Nat) :
    Verify.history c vrf (t.rootHash c) E u
        (honestHistory c key vrf t u ((C07.expected vs p).map (blank cut)) past future) p allow
      = Verify.verifyUpdates c vrf (t.rootHash c) u allow none
          (((C07.expected vs p).map (blank cut)).map (honestUpdate c key vrf t u)) := by
  have hV : Pub.VersOK vs := hon.versions
  have hD := expected_descFrom vs hV hne p hp
  obtain ⟨hpb, hfb⟩ := markers_bounds hm
  have hkL : (C07.expected vs p).length ≤ vs.length := by have := hD.le; rwa [List.length_map] at this
  have hk1 : 1 ≤ (C07.expected vs p).length := by have := hD.pos; rwa [List.length_map] at this
  have hvers : (((C07.expected vs p).map (blank cut)).map (honestUpdate c key vrf t u)).map (·.version)
      = (C07.expected vs p).map (·.version) := by
    rw [List.map_map, List.map_map]
    apply List.map_congr_left
    intro v _
    simp only [Function.comp, honestUpdate, blank_version]
  have hw : Verify.withHistoryParams E
      (honestHistory c key vrf t u ((C07.expected vs p).map (blank cut)) past future) p = .ok (past, future) := by
    apply withHistoryParams_honest E vs.length _ p past future
    · have : (honestHistory c key vrf t u ((C07.expected vs p).map (blank cut)) past future).updates.map (·.version)
          = (C07.expected vs p).map (·.version) := hvers
      rw [this]; exact hD
    · exact hE
    · simp only [honestHistory, List.length_map]
      exact C07.expected_length vs p
    · simp only [honestHistory, List.length_map]
      exact hm
    all_goals simp only [honestHistory, List.length_map]
  have hpast : Verify.verifyAll (fun (x : Nat) (y : VrfProof × MembershipProof) =>
        Verify.existence c vrf (t.rootHash c) u true x y.1 y.2) past
      ((past.map (fun x => (some ⟨u, true, x⟩ : VrfProof))).zip
        (past.map (fun x => t.genMembership c (lab vrf u true x).bits))) = .ok () := by
    apply verifyAll_ok
    intro x hx
    exact past_existence hv hwf hon x (hpb x hx).1 (by have := (hpb x hx).2; omega)
  unfold Verify.history
  rw [hw]
  simp only [honestHistory] at hpast ⊢
  cases hu : Verify.verifyUpdates c vrf (t.rootHash c) u allow none
      (((C07.expected vs p).map (blank cut)).map (honestUpdate c key vrf t u)) with
  | error e => rfl
  | ok rs =>
    simp only [hpast]
    rw [verifyAll_ok _ _ _ future]
    intro x hx
    simp only [future_nonexistence hc hfresh hv hwf h256 hon hne x (hfb x hx).1
      (htot true x (by have := (hfb x hx).1; omega) (hfb x hx).2)]

/-- **allow mode**: the proof for the blanked entries verifies to the blanked entries -/
theorem blankHistory_verifies_allow (hc : c.Lawful) (hfresh : C05.EmptyLabelFresh c) (hv : C06.VrfOK vrf) (hwf : t.WF)
    (h256 : C05.Leaves256 t) (hon : C06.HonestFor c key vrf t u vs) (hne : vs ≠ [])
    (E : Nat) (hE : vs.length ≤ E)
    (htot : ∀ f x, 1 ≤ x → x ≤ E → (vrf.get? ⟨u, f, x⟩).isSome)
    (p : HistoryParams) (hp : ∀ n, p = .mostRecent n → 1 ≤ n)
    (past future : List Nat)
    (hm : Marker.markers? (vs.length + 1 - (C07.expected vs p).length) vs.length E = some (past, future))
    (cut : Nat) :
    Verify.history c vrf (t.rootHash c) E u
        (honestHistory c key vrf t u ((C07.expected vs p).map (blank cut)) past future) p true
      = .ok ((C07.expected vs p).map fun v => C07.resultOf (blank cut v)) := by
  rw [history_blank hc hfresh hv hwf h256 hon hne E hE htot p hp true past future hm cut]
  have hV : Pub.VersOK vs := hon.versions
  have h := verifyUpdates_honest c vrf (t.rootHash c) u true (honestUpdate c key vrf t u) (fun _ => rfl)
    ((C07.expected vs p).map (blank cut)) none ?_ ?_ (fun pe hpe => nomatch hpe)
  · rw [h, List.map_map]; rfl
  · intro w hw
    obtain ⟨v, hvm, rfl⟩ := List.mem_map.1 hw
    have hvm' := expected_mem vs p hvm
    have hb := Pub.versOK_version_le hV hvm'
    exact blankUpdate_verifies_allow hv hwf hon v hvm' (fun hgt => htot false _ (by omega) (by omega)) cut
  · rw [List.pairwise_map]
    simp only [blank_epoch]
    exact expected_sorted vs hV p

/-- **strict mode, a blanked entry in range**: the proof for the blanked entries is rejected -/
theorem blankHistory_rejected (hc : c.Lawful) (hfresh : C05.EmptyLabelFresh c) (hv : C06.VrfOK vrf) (hwf : t.WF)
    (h256 : C05.Leaves256 t) (hon : C06.HonestFor c key vrf t u vs) (hne : vs ≠ [])
    (E : Nat) (hE : vs.length ≤ E)
    (htot : ∀ f x, 1 ≤ x → x ≤ E → (vrf.get? ⟨u, f, x⟩).isSome)
    (p : HistoryParams) (hp : ∀ n, p = .mostRecent n → 1 ≤ n)
    (past future : List Nat)
    (hm : Marker.markers? (vs.length + 1 - (C07.expected vs p).length) vs.length E = some (past, future))
    (cut : Nat) (hsome : ∃ v ∈ C07.expected vs p, Spec.tombstoned (some cut) v = true) :
    ∃ e, Verify.history c vrf (t.rootHash c) E u
        (honestHistory c key vrf t u ((C07.expected vs p).map (blank cut)) past future) p false = .error e := by
  rw [history_blank hc hfresh hv hwf h256 hon hne E hE htot p hp false past future hm cut]
  obtain ⟨v, hvm, htv⟩ := hsome
  have hvm' := expected_mem vs p hvm
  rcases blank_cases cut v with ⟨hf, -⟩ | ⟨-, hval, e⟩
  · rw [htv] at hf; cases hf
  · apply verifyUpdates_error_of_mem c vrf (t.rootHash c) u false
      (honestUpdate c key vrf t u (blank cut v))
    · rw [e]; exact ⟨_, blankUpdate_rejected hc hv hwf hon v hvm' hval⟩
    · exact List.mem_map_of_mem (List.mem_map_of_mem hvm)

theorem map_blank_of_none (cut : Nat) (l : List Spec.Ver)
    (h : ∀ v ∈ l, Spec.tombstoned (some cut) v = false) : l.map (blank cut) = l := by
  conv => rhs; rw [← List.map_id l]
  apply List.map_congr_left
  intro v hv
  rcases blank_cases cut v with ⟨-, e⟩ | ⟨ht, -⟩
  · rw [e]; rfl
  · rw [h v hv] at ht; cases ht

end

end Akd.Tomb
