/-
The root level of C01b: `batchInsert` on a represented root.
-/
import AkdModel.Lemmas.InsertCases
namespace Akd.Ins
open Akd NodeLabel NodeStore
open Akd.Canon (Incomp)

def oMax (a b : Option CTree) : Nat := max ((a.map maxEp).getD 0) ((b.map maxEp).getD 0)

def RepRoot (c : Cfg) (m : InsertMode) (s : NodeStore) (t : CRoot) : Prop :=
  (∃ r, s.getRec NodeLabel.root = some r ∧ r.latest.label = NodeLabel.root ∧ r.latest.nodeType = .root ∧
    r.latest.left = olbl t.l ∧ r.latest.right = olbl t.r ∧
    r.latest.hash = t.value c (hm m) ∧
    r.latest.lastEpoch = oMax t.l t.r ∧ r.latest.minDescEpoch = oMin t.l t.r)
  ∧ (∀ a, t.l = some a → Rep c m s a) ∧ (∀ b, t.r = some b → Rep c m s b)

theorem oMax_le (a b : Option CTree) (E : Nat) (h : ∀ lf ∈ oleaves a ++ oleaves b, lf.ep ≤ E) :
    oMax a b ≤ E := by
  have ha : ∀ x, a = some x → maxEp x ≤ E := fun x hx =>
    maxEp_le x E (fun lf hl => h lf (by simp [oleaves, hx, hl]))
  have hb : ∀ x, b = some x → maxEp x ≤ E := fun x hx =>
    maxEp_le x E (fun lf hl => h lf (by simp [oleaves, hx, hl]))
  unfold oMax
  cases a with
  | none =>
    cases b with
    | none => simp
    | some y => have := hb y rfl; simpa using this
  | some x =>
    have := ha x rfl
    cases b with
    | none => simpa using this
    | some y => have := hb y rfl; simp; omega

theorem oMax_eq (a b : Option CTree) (E : Nat) (h : ∀ lf ∈ oleaves a ++ oleaves b, lf.ep ≤ E)
    (lf : Leaf) (hlf : lf ∈ oleaves a ++ oleaves b) (he : lf.ep = E) : oMax a b = E := by
  have hle := oMax_le a b E h
  have : E ≤ oMax a b := by
    unfold oMax
    rcases List.mem_append.1 hlf with hl | hl
    · cases a with
      | none => simp [oleaves] at hl
      | some x =>
        have := le_maxEp x lf (by simpa [oleaves] using hl)
        simp only [Option.map_some, Option.getD_some]
        omega
    · cases b with
      | none => simp [oleaves] at hl
      | some y =>
        have := le_maxEp y lf (by simpa [oleaves] using hl)
        simp only [Option.map_some, Option.getD_some]
        omega
  omega

theorem newLeaves_perm {bs els : List (BitStr × Dig)} (h : bs.Perm els) (ep : Nat) :
    (newLeaves bs ep).Perm (newLeaves els ep) := h.map _

/-- the root level, for a tree whose leaves are not newer than the epoch being inserted (they may be OF that
epoch: a second sub-batch within one epoch, C14) -/
theorem batchInsert_root_le (c : Cfg) (hc : c.emptyLabel.len = 0) (m : InsertMode)
    (s : NodeStore) (a : Azks) (t : CRoot)
    (hrep : RepRoot c m s t) (hwf : t.WF)
    (hep : ∀ lf ∈ t.leaves, 1 ≤ lf.ep ∧ lf.ep ≤ a.latestEpoch + 1)
    (els : List (BitStr × Dig))
    (hpf : (t.leaves ++ newLeaves els (a.latestEpoch + 1)).Pairwise Incomp)
    (hlen : ∀ lf ∈ t.leaves ++ newLeaves els (a.latestEpoch + 1), 1 ≤ lf.lbl.length ∧ lf.lbl.length ≤ 256) :
    ∃ s' n t', s.batchInsert c m a (els.map enc) = .ok (s', ⟨a.latestEpoch + 1, n⟩) ∧
      RepRoot c m s' t' ∧ t'.WF ∧ t'.leaves.Perm (t.leaves ++ newLeaves els (a.latestEpoch + 1)) := by
  by_cases hels : els = []
  · subst hels
    exact ⟨s, a.numNodes, t, rfl, hrep, hwf, by simp [newLeaves]⟩
  generalize hepoch : a.latestEpoch + 1 = epoch at hpf hlen
  have hep1 : 1 ≤ epoch := by omega
  have hlenE : ∀ b ∈ els, 1 ≤ b.1.length ∧ b.1.length ≤ 256 := fun b hb =>
    hlen ⟨b.1, b.2, epoch⟩ (List.mem_append_right _ (List.mem_map_of_mem hb))
  obtain ⟨bs, hperm, hok, hel⟩ := ofList_spec els (fun b hb => (hlenE b hb).2)
  have hne : bs ≠ [] := fun h => hels (by rw [h] at hperm; exact hperm.symm.eq_nil)
  have hlenB : ∀ b ∈ bs, 1 ≤ b.1.length ∧ b.1.length ≤ 256 := fun b hb => hlenE b (hperm.mem_iff.1 hb)
  have hpfB : (t.leaves ++ newLeaves bs epoch).Pairwise Incomp :=
    (List.Perm.pairwise_iff (fun h => Incomp.symm h)
      (List.Perm.append_left _ (newLeaves_perm hperm epoch))).2 hpf
  obtain ⟨⟨r, hg, r1, r2, r3, r4, r5, r6, r7⟩, hrl, hrr⟩ := hrep
  have hlokT : ∀ lf ∈ t.leaves, LeafOK epoch lf := fun lf h =>
    ⟨(hep lf h).1, by have := (hep lf h).2; omega, (hlen lf (List.mem_append_left _ h)).2⟩
  have hmaxle : oMax t.l t.r ≤ epoch := oMax_le _ _ _ (fun lf h => (hlokT lf h).2.1)
  have hgn := getNode_latest s _ r epoch hg (by rw [r6]; exact hmaxle)
  have hlcp := setLcp_spec c.emptyLabel hc _ bs hok hel hne hlenB
  have hl256 := lcpAll_length_le bs hne (fun b hb => (hlenB b hb).2)
  have h1 : phase1 c epoch s (some NodeLabel.root) (ElementSet.ofList (els.map enc))
      = .ok (s, r.latest, false, 0) := by
    unfold phase1
    simp only
    rw [hgn]
    simp only
    rw [hlcp, ← ofBits_nil, lcp_ofBits c.emptyLabel hc _ _ (by simp) hl256]
    have : BitStr.commonPrefix [] (lcpAll bs) = [] := by cases lcpAll bs <;> rfl
    rw [this, if_neg (Nat.lt_irrefl _)]
  have hst : St c m epoch [] .root s r.latest (fun b => if b then t.r else t.l) False := by
    refine ⟨r1.trans ofBits_nil.symm, r2, r3, r4, by rw [r6]; exact hmaxle, fun h => h.elim, .inl r7,
      fun h => h.elim, ?_, ?_⟩
    · intro b t' hbt
      cases b
      · simp only [Bool.false_eq_true, if_false] at hbt
        exact ⟨hrl t' hbt, (hwf.1 t' hbt).2, by simpa using (hwf.1 t' hbt).1⟩
      · simp only [if_true] at hbt
        exact ⟨hrr t' hbt, (hwf.2 t' hbt).2, by simpa using (hwf.2 t' hbt).1⟩
    · intro b lf hlf
      apply hlokT
      cases b
      · simp only [Bool.false_eq_true, if_false] at hlf
        exact List.mem_append_left _ hlf
      · simp only [if_true] at hlf
        exact List.mem_append_right _ hlf
  obtain ⟨s', cur', num', ch', hrun, hst', hhash, hperm', hnone, hfr⟩ :=
    finish c m epoch 299 hep1 (spec_all c m epoch hc hep1 299) hst (by decide) (by simp) false 0 _ bs hok hel hne
      (fun b hb => ⟨List.nil_prefix, Nat.lt_of_lt_of_le Nat.zero_lt_one (hlenB b hb).1, (hlenB b hb).2⟩)
      hpfB
  obtain ⟨pv, hw⟩ := writeNode_ok s' cur' false
  -- at least one child
  obtain ⟨b0, hb0⟩ := List.exists_mem_of_ne_nil bs hne
  have hsomeone : ¬ (ch' false = none ∧ ch' true = none) := by
    rintro ⟨h0, h1⟩
    obtain ⟨d, hd⟩ := goes_exists (p := []) (x := b0) List.nil_prefix (Nat.lt_of_lt_of_le Nat.zero_lt_one (hlenB b0 hb0).1)
    have hm : b0 ∈ bs.filter (goes [] d) := List.mem_filter.2 ⟨hb0, hd⟩
    cases d
    · rw [(hnone false h0).2] at hm; simp at hm
    · rw [(hnone true h1).2] at hm; simp at hm
  have hpermT : (oleaves (ch' false) ++ oleaves (ch' true)).Perm (t.leaves ++ newLeaves els epoch) :=
    hperm'.trans (List.Perm.append_left _ (newLeaves_perm hperm epoch))
  have hnew : (⟨b0.1, b0.2, epoch⟩ : Leaf) ∈ oleaves (ch' false) ++ oleaves (ch' true) :=
    hperm'.mem_iff.2 (List.mem_append_right _ (List.mem_map_of_mem hb0))
  have hle : ∀ lf ∈ oleaves (ch' false) ++ oleaves (ch' true), lf.ep ≤ epoch := by
    intro lf h
    rcases List.mem_append.1 h with h | h
    · exact (hst'.leafok false lf h).2.1
    · exact (hst'.leafok true lf h).2.1
  refine ⟨s'.setRec ⟨cur'.label, cur', pv⟩, a.numNodes + num', ⟨ch' false, ch' true⟩, ?_, ⟨?_, ?_, ?_⟩, ⟨?_, ?_⟩,
    hpermT⟩
  · unfold batchInsert
    simp only [hepoch]
    have hemp : (ElementSet.ofList (els.map enc)).elems.isEmpty = false := by
      rw [hel]
      cases bs with
      | nil => exact absurd rfl hne
      | cons _ _ => rfl
    rw [hemp]
    simp only [Bool.false_eq_true, if_false]
    rw [show (300 : Nat) = 299 + 1 from rfl, insertRec_succ, h1]
    simp only
    rw [hrun]
    simp only
    rw [hw]
  · refine ⟨⟨cur'.label, cur', pv⟩, ?_, hst'.label.trans ofBits_nil, hst'.type, hst'.left, hst'.right, ?_, ?_,
      hst'.min_eq trivial⟩
    · rw [← ofBits_nil, ← hst'.label]
      exact getRec_setRec_self _ _
    · rw [hhash]
      unfold CRoot.value
      cases h0 : ch' false with
      | none =>
        cases h1 : ch' true with
        | none => exact absurd ⟨h0, h1⟩ hsomeone
        | some y => rfl
      | some x => rfl
    · rw [hst'.last_eq trivial]
      exact (oMax_eq _ _ epoch hle _ hnew rfl).symm
  · intro x hx
    have hx : ch' false = some x := hx
    obtain ⟨k1, k2, k3⟩ := hst'.kids false x hx
    apply rep_setRec x k2 (fun lf h => (hst'.leafok false lf (by simp [oleaves, hx, h])).2.2) [] (by simp)
      _ _ hst'.label k1
    intro h
    have := (k3.trans h).length_le
    simp at this
  · intro x hx
    have hx : ch' true = some x := hx
    obtain ⟨k1, k2, k3⟩ := hst'.kids true x hx
    apply rep_setRec x k2 (fun lf h => (hst'.leafok true lf (by simp [oleaves, hx, h])).2.2) [] (by simp)
      _ _ hst'.label k1
    intro h
    have := (k3.trans h).length_le
    simp at this
  · intro x hx
    obtain ⟨_, k2, k3⟩ := hst'.kids false x hx
    exact ⟨by simpa using k3, k2⟩
  · intro x hx
    obtain ⟨_, k2, k3⟩ := hst'.kids true x hx
    exact ⟨by simpa using k3, k2⟩

theorem batchInsert_root (c : Cfg) (hc : c.emptyLabel.len = 0) (m : InsertMode)
    (s : NodeStore) (a : Azks) (t : CRoot)
    (hrep : RepRoot c m s t) (hwf : t.WF)
    (hep : ∀ lf ∈ t.leaves, 1 ≤ lf.ep ∧ lf.ep ≤ a.latestEpoch)
    (els : List (BitStr × Dig))
    (hpf : (t.leaves ++ newLeaves els (a.latestEpoch + 1)).Pairwise Incomp)
    (hlen : ∀ lf ∈ t.leaves ++ newLeaves els (a.latestEpoch + 1), 1 ≤ lf.lbl.length ∧ lf.lbl.length ≤ 256) :
    ∃ s' n t', s.batchInsert c m a (els.map enc) = .ok (s', ⟨a.latestEpoch + 1, n⟩) ∧
      RepRoot c m s' t' ∧ t'.WF ∧ t'.leaves.Perm (t.leaves ++ newLeaves els (a.latestEpoch + 1)) :=
  batchInsert_root_le c hc m s a t hrep hwf
    (fun lf h => ⟨(hep lf h).1, Nat.le_succ_of_le (hep lf h).2⟩) els hpf hlen

end Akd.Ins
