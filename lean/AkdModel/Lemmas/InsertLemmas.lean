/-
Helper lemmas for the refinement of the storage-based batch insertion to the canonical trie.
-/
import AkdModel.CTrie
import AkdModel.Insert
import AkdModel.Thm.C17
import AkdModel.Thm.C01a
namespace Akd
end Akd
