/-
Helper lemmas for the refinement of the storage-based batch insertion to the canonical trie (C01b).
The proof is split over
* `InsertStore` — reads after writes on `NodeStore`;
* `InsertBits`  — label operations on `ofBits` labels, on bit strings;
* `InsertSets`  — `ofList` / `partition` / `setLcp` on both element-set representations;
* `InsertRep`   — the representation relation, epoch metadata, frame lemmas;
* `InsertStep`  — `insertRec` cut into phases; `setChild`, `getChild`, `updateHash`;
* `InsertMain`  — the specification `Spec` of `insertRec`, one side of Phase 2, Phases 2+3;
* `InsertCases` — the cases of Phase 1 and the induction on fuel (`spec_all`);
* `InsertRoot`  — the root level (`batchInsert_root`).
-/
import AkdModel.Lemmas.InsertRoot
