/-
Helper lemmas for C09 (frontiers of a trie, the auditor's rebuild).

* `AuditLabels`   — the prefix-freeness check of the repaired auditor (`labelsPrefixFree_iff`);
* `AuditRebuild`  — the rebuild computes the canonical trie of opaque elements;
* `AuditFrontier` — the frontier lemma and the core of audit soundness;
* this file       — the pieces put together for `Auditor.consecutive` / `Auditor.verify`.
-/
import AkdModel.Verify
import AkdModel.Thm.C01b
import AkdModel.Thm.C05
import AkdModel.Lemmas.AuditLabels
import AkdModel.Lemmas.AuditRebuild
import AkdModel.Lemmas.AuditFrontier
namespace Akd.Aud
open Akd

/-- equality of auditor results is decidable (used by the `decide` witnesses) -/
@[instance_reducible] def decEqResult : DecidableEq (Except VErr Unit) := fun a b =>
  match a, b with
  | .ok (), .ok () => isTrue rfl
  | .error x, .error y =>
    if h : x = y then isTrue (by rw [h]) else isFalse (by intro h'; cases h'; exact h rfl)
  | .ok _, .error _ => isFalse (by intro h; cases h)
  | .error _, .ok _ => isFalse (by intro h; cases h)

/-! ### what acceptance means -/

theorem appendOnlyHash_ok (c : Cfg) (nodes : List AzksElement) (expected : Dig) (latest : Option Nat) :
    Auditor.appendOnlyHash c nodes expected latest = .ok () ↔
      Auditor.rebuildRoot c nodes latest = .ok expected := by
  unfold Auditor.appendOnlyHash
  cases h : Auditor.rebuildRoot c nodes latest with
  | error e => simp
  | ok r =>
    by_cases hr : r = expected
    · simp [hr]
    · simp only [hr, ↓reduceIte, reduceCtorEq, false_iff]
      intro h'
      cases h'
      exact hr rfl

/-- the nodes of the second rebuild -/
def insNodes (c : Cfg) (p : NodeStore.SingleAppendOnlyProof) (ep : Nat) : List AzksElement :=
  p.inserted.map fun x => (⟨x.label, c.leafHash x.value ep⟩ : AzksElement)

theorem consecutive_ok (c : Cfg) (p : NodeStore.SingleAppendOnlyProof) (s e : Dig) (ep : Nat) :
    Auditor.consecutive c p s e ep = .ok () ↔
      Auditor.labelsPrefixFree ((p.unchanged ++ p.inserted).map (·.label)) = true ∧
      Auditor.rebuildRoot c p.unchanged none = .ok s ∧ ep ≠ 0 ∧
      Auditor.rebuildRoot c (p.unchanged ++ insNodes c p ep) (some (ep - 1)) = .ok e := by
  unfold Auditor.consecutive
  cases hl : Auditor.labelsPrefixFree ((p.unchanged ++ p.inserted).map (·.label)) with
  | false => simp
  | true =>
    simp only [Bool.not_true, Bool.false_eq_true, ↓reduceIte, true_and]
    cases h1 : Auditor.appendOnlyHash c p.unchanged s none with
    | error x =>
      simp only [reduceCtorEq, false_iff]
      intro h
      rw [(appendOnlyHash_ok c _ _ _).mpr h.1] at h1
      cases h1
    | ok u =>
      cases u
      have h1' := (appendOnlyHash_ok c _ _ _).mp h1
      by_cases h0 : ep = 0
      · simp [h0]
      · simp only [h0, ↓reduceIte, h1', ne_eq, not_false_eq_true, true_and]
        exact appendOnlyHash_ok c _ _ _

/-! ### node lists with well-formed labels -/

/-- a node as an opaque leaf -/
def toLeaf (n : AzksElement) : Leaf := ⟨n.label.bits, n.value, 0⟩

/-- the canonical trie of opaque elements over a node list -/
def frontierOf (ns : List AzksElement) : CRoot := CRoot.ofLeaves (ns.map toLeaf)

/-- well-formed labels, none empty, pairwise prefix-free -/
structure Good (ns : List AzksElement) : Prop where
  norm : ∀ n ∈ ns, n.label.len ≤ 256 ∧ n.label.Normalised
  pos : ∀ n ∈ ns, 1 ≤ n.label.len
  pf : ns.Pairwise (fun a b => ¬ a.label.bits <+: b.label.bits ∧ ¬ b.label.bits <+: a.label.bits)

theorem Good.prefixFree {ns : List AzksElement} (h : Good ns) : C01.PrefixFree (ns.map toLeaf) := by
  unfold C01.PrefixFree
  rw [List.pairwise_map]
  exact h.pf

theorem Good.spec {ns : List AzksElement} (h : Good ns) :
    (frontierOf ns).WF ∧ (frontierOf ns).leaves.Perm (ns.map toLeaf) := by
  refine C01.ofLeaves_spec _ h.prefixFree ?_
  intro x hx
  obtain ⟨n, hn, rfl⟩ := List.mem_map.mp hx
  intro h0
  have h1 := bits_len n.label (h.norm n hn).1
  have h2 := h.pos n hn
  simp only [toLeaf] at h0
  rw [h0] at h1
  simp at h1
  omega

theorem Good.len_le {ns : List AzksElement} (h : Good ns) : ∀ lf ∈ (frontierOf ns).leaves, lf.lbl.length ≤ 256 := by
  intro lf hlf
  obtain ⟨n, hn, rfl⟩ := List.mem_map.mp (h.spec.2.mem_iff.mp hlf)
  simp only [toLeaf]
  rw [bits_len n.label (h.norm n hn).1]
  exact (h.norm n hn).1

/-- the rebuild over a good node list -/
theorem Good.rebuild {ns : List AzksElement} (h : Good ns) (c : Cfg) (hc : c.emptyLabel.len = 0)
    (latest : Option Nat) :
    Auditor.rebuildRoot c ns latest = .ok (c.rootHash ((frontierOf ns).value c .noLeafEpoch)) := by
  let els : List (BitStr × Dig) := ns.map fun n => (n.label.bits, n.value)
  have e1 : (els.map fun x => (⟨NodeLabel.ofBits x.1, x.2⟩ : AzksElement)) = ns := by
    simp only [els, List.map_map]
    conv => rhs; rw [← List.map_id ns]
    apply List.map_congr_left
    intro n hn
    simp only [Function.comp_apply, id_eq]
    rw [C17.ofBits_bits n.label (h.norm n hn).1 (h.norm n hn).2]
  have e2 : (els.map fun x => (⟨x.1, x.2, 0⟩ : Leaf)) = ns.map toLeaf := by
    simp only [els, List.map_map]
    rfl
  have := rebuildRoot_canonical c hc els latest (by rw [e2]; exact h.prefixFree) (by
    intro x hx
    obtain ⟨n, hn, rfl⟩ := List.mem_map.mp hx
    simp only
    rw [bits_len n.label (h.norm n hn).1]
    exact ⟨h.pos n hn, (h.norm n hn).1⟩)
  rw [e1, e2] at this
  exact this

/-! ### the corner: an element labelled with the empty bit string -/

/-- the rebuild over a single element carrying the root label: the element is dropped by
`partition`, the root is re-hashed over two empty slots -/
theorem rebuildRoot_rootLabel (c : Cfg) (v : Dig) (latest : Option Nat) :
    Auditor.rebuildRoot c [⟨NodeLabel.root, v⟩] latest
      = .ok (c.rootHash (c.parentHash c.emptyNodeHash c.emptyLabel c.emptyNodeHash c.emptyLabel)) := by
  cases latest <;> rfl

/-- an element of a pairwise prefix-free list whose label is the empty bit string is alone -/
theorem singleton_of_nil {L : List AzksElement}
    (hpw : L.Pairwise (fun a b => ¬ a.label.bits <+: b.label.bits ∧ ¬ b.label.bits <+: a.label.bits))
    {x : AzksElement} (hx : x ∈ L) (h0 : x.label.bits = []) : L = [x] := by
  obtain ⟨s, t, rfl⟩ := List.append_of_mem hx
  rw [List.pairwise_append, List.pairwise_cons] at hpw
  obtain ⟨_, ⟨hxt, _⟩, hsx⟩ := hpw
  have hs : s = [] := by
    cases s with
    | nil => rfl
    | cons y s =>
      exfalso
      exact (hsx y (by simp) x (by simp)).2 (h0 ▸ List.nil_prefix)
  have ht : t = [] := by
    cases t with
    | nil => rfl
    | cons y t =>
      exfalso
      exact (hxt y (by simp)).1 (h0 ▸ List.nil_prefix)
  rw [hs, ht]; rfl

/-! ### one epoch -/

theorem consecutive_sound (c : Cfg) (hc : c.Lawful) (hce : c.emptyLabel.len = 0) (hfresh : C05.EmptyLabelFresh c)
    (T₁ T₂ : CRoot) (h₁ : T₁.WF) (h₂ : T₂.WF)
    (hl₁ : ∀ lf ∈ T₁.leaves, lf.lbl.length ≤ 256) (hl₂ : ∀ lf ∈ T₂.leaves, lf.lbl.length ≤ 256)
    (p : NodeStore.SingleAppendOnlyProof) (e : Nat)
    (hacc : Auditor.consecutive c p (T₁.rootHash c) (T₂.rootHash c) e = .ok ()) :
    ∀ lf ∈ T₁.leaves, lf ∈ T₂.leaves := by
  obtain ⟨hlpf, hr₁, _, hr₂⟩ := (consecutive_ok c p _ _ e).mp hacc
  obtain ⟨hN, hpw⟩ := (labelsPrefixFree_iff _).mp hlpf
  rw [List.pairwise_map] at hpw
  have hN' : ∀ n ∈ p.unchanged ++ p.inserted, n.label.len ≤ 256 ∧ n.label.Normalised :=
    fun n hn => hN n.label (List.mem_map.mpr ⟨n, hn, rfl⟩)
  by_cases hcorner : ∃ n ∈ p.unchanged, n.label.len = 0
  · -- an unchanged element carries the empty bit string: it is alone, and dropped by both rebuilds
    obtain ⟨n, hn, hn0⟩ := hcorner
    have hnL : n ∈ p.unchanged ++ p.inserted := List.mem_append_left _ hn
    have hroot : n.label = NodeLabel.root := normalised_len0 n.label hn0 (hN' n hnL).2
    have hbits : n.label.bits = [] := by
      apply List.eq_nil_of_length_eq_zero
      rw [bits_len n.label (hN' n hnL).1]; exact hn0
    have hsing := singleton_of_nil hpw hnL hbits
    have hU : p.unchanged = [n] ∧ p.inserted = [] := by
      rcases List.append_eq_singleton_iff.mp hsing with ⟨h, _⟩ | h
      · rw [h] at hn; cases hn
      · exact h
    have hn' : n = ⟨NodeLabel.root, n.value⟩ := by
      cases n; simp only at hroot; rw [hroot]
    simp only [insNodes, hU.1, hU.2, List.map_nil, List.append_nil] at hr₁ hr₂
    rw [hn', rebuildRoot_rootLabel] at hr₁ hr₂
    have heq : T₁.rootHash c = T₂.rootHash c := by
      have a := Except.ok.inj hr₁
      have b := Except.ok.inj hr₂
      rw [← a, ← b]
    have := C01.rootHash_injective c hc T₁ T₂ h₁ h₂ hl₁ hl₂ heq
    intro lf hlf
    rw [← this]; exact hlf
  · -- the general case
    have hposU : ∀ n ∈ p.unchanged, 1 ≤ n.label.len := by
      intro n hn
      apply Classical.byContradiction
      intro h
      exact hcorner ⟨n, hn, by omega⟩
    have hpwU := (List.pairwise_append.mp hpw).1
    have gU : Good p.unchanged :=
      ⟨fun n hn => hN' n (List.mem_append_left _ hn), hposU, hpwU⟩
    rw [gU.rebuild c hce none] at hr₁
    have hv₁ : (frontierOf p.unchanged).value c .noLeafEpoch = T₁.value c .withLeafEpoch :=
      hc.root_inj _ _ (Except.ok.inj hr₁)
    intro lf hlf
    obtain ⟨x, hx, -⟩ := (frontier_root c hc hfresh _ T₁ gU.spec.1 h₁ gU.len_le hl₁ hv₁).2 lf hlf
    obtain ⟨u, hu, -⟩ := List.mem_map.mp (gU.spec.2.mem_iff.mp hx)
    -- the inserted labels are not empty either, since `u` exists
    have hposI : ∀ n ∈ p.inserted, 1 ≤ n.label.len := by
      intro n hn
      apply Classical.byContradiction
      intro h
      have hnL : n ∈ p.unchanged ++ p.inserted := List.mem_append_right _ hn
      have hbits : n.label.bits = [] := by
        apply List.eq_nil_of_length_eq_zero
        rw [bits_len n.label (hN' n hnL).1]; omega
      exact ((List.pairwise_append.mp hpw).2.2 u hu n hn).2 (hbits ▸ List.nil_prefix)
    have gA : Good (p.unchanged ++ insNodes c p e) := by
      refine ⟨?_, ?_, ?_⟩
      · intro n hn
        rcases List.mem_append.mp hn with h | h
        · exact hN' n (List.mem_append_left _ h)
        · obtain ⟨m, hm, rfl⟩ := List.mem_map.mp h
          exact hN' m (List.mem_append_right _ hm)
      · intro n hn
        rcases List.mem_append.mp hn with h | h
        · exact hposU n h
        · obtain ⟨m, hm, rfl⟩ := List.mem_map.mp h
          exact hposI m hm
      · obtain ⟨pU, pI, pUI⟩ := List.pairwise_append.mp hpw
        refine List.pairwise_append.mpr ⟨pU, ?_, ?_⟩
        · unfold insNodes
          rw [List.pairwise_map]
          exact pI
        · intro a ha b hb
          obtain ⟨m, hm, rfl⟩ := List.mem_map.mp hb
          exact pUI a ha m hm
    rw [gA.rebuild c hce (some (e - 1))] at hr₂
    have hv₂ : (frontierOf (p.unchanged ++ insNodes c p e)).value c .noLeafEpoch = T₂.value c .withLeafEpoch :=
      hc.root_inj _ _ (Except.ok.inj hr₂)
    refine audit_core c hc hfresh _ _ T₁ T₂ gU.spec.1 gA.spec.1 h₁ h₂ gU.len_le gA.len_le hl₁ hl₂ hv₁ hv₂ ?_ lf hlf
    intro y hy
    refine ⟨y, ?_, rfl, rfl⟩
    apply gA.spec.2.mem_iff.mpr
    rw [List.map_append]
    exact List.mem_append_left _ (gU.spec.2.mem_iff.mp hy)

/-! ### many epochs -/

theorem go_sound (c : Cfg) (hc : c.Lawful) (hce : c.emptyLabel.len = 0) (hfresh : C05.EmptyLabelFresh c) :
    ∀ (Ts : List CRoot) (prs : List NodeStore.SingleAppendOnlyProof) (eps : List Nat),
    (∀ t ∈ Ts, t.WF ∧ ∀ lf ∈ t.leaves, lf.lbl.length ≤ 256) →
    eps.length + 1 = Ts.length → eps.length = prs.length →
    Auditor.verify.go c (Ts.map (CRoot.rootHash c)) prs eps = .ok () →
    ∀ (i : Nat) (t₁ t₂ : CRoot), Ts[i]? = some t₁ → Ts[i + 1]? = some t₂ → ∀ lf ∈ t₁.leaves, lf ∈ t₂.leaves
  | [], _, _, _, h, _, _ => by simp at h
  | [_], _, _, _, _, _, _ => by
    intro i t₁ t₂ _ h2
    simp at h2
  | a :: b :: Ts, [], eps, _, h1, h2, _ => by
    simp only [List.length_nil] at h2
    rw [h2] at h1
    simp at h1
  | a :: b :: Ts, pr :: prs, [], _, _, h2, _ => by simp at h2
  | a :: b :: Ts, pr :: prs, ep :: eps, hwf, h1, h2, hgo => by
    simp only [List.map_cons, Auditor.verify.go] at hgo
    cases hcons : Auditor.consecutive c pr (a.rootHash c) (b.rootHash c) (ep + 1) with
    | error x => rw [hcons] at hgo; cases hgo
    | ok u =>
      cases u
      rw [hcons] at hgo
      simp only at hgo
      have ha := hwf a (by simp)
      have hb := hwf b (by simp)
      have step := consecutive_sound c hc hce hfresh a b ha.1 hb.1 ha.2 hb.2 pr (ep + 1) hcons
      have ih := go_sound c hc hce hfresh (b :: Ts) prs eps
        (fun t ht => hwf t (List.mem_cons_of_mem _ ht))
        (by simp only [List.length_cons] at h1 ⊢; omega)
        (by simp only [List.length_cons] at h2; omega)
        (by simpa only [List.map_cons] using hgo)
      intro i t₁ t₂ hi hj
      cases i with
      | zero =>
        simp only [List.getElem?_cons_zero, Option.some.injEq, Nat.zero_add, List.getElem?_cons_succ] at hi hj
        subst hi hj
        exact step
      | succ i =>
        simp only [List.getElem?_cons_succ] at hi hj
        exact ih i t₁ t₂ hi (by simpa only [List.getElem?_cons_succ] using hj)

theorem verify_sound (c : Cfg) (hc : c.Lawful) (hce : c.emptyLabel.len = 0) (hfresh : C05.EmptyLabelFresh c)
    (Ts : List CRoot) (hwf : ∀ t ∈ Ts, t.WF ∧ ∀ lf ∈ t.leaves, lf.lbl.length ≤ 256)
    (p : NodeStore.AppendOnlyProof)
    (hacc : Auditor.verify c (Ts.map (CRoot.rootHash c)) p = .ok ()) :
    ∀ (i j : Nat), i ≤ j → ∀ (t₁ t₂ : CRoot), Ts[i]? = some t₁ → Ts[j]? = some t₂ →
      ∀ lf ∈ t₁.leaves, lf ∈ t₂.leaves := by
  unfold Auditor.verify at hacc
  simp only [List.length_map, ne_eq, ite_not] at hacc
  split at hacc
  · rename_i h1
    split at hacc
    · rename_i h2
      have step := go_sound c hc hce hfresh Ts p.proofs p.epochs hwf h1 h2 hacc
      intro i j hij
      obtain ⟨k, rfl⟩ := Nat.exists_eq_add_of_le hij
      clear hij
      induction k with
      | zero =>
        intro t₁ t₂ hi hj lf hlf
        rw [Nat.add_zero, hi] at hj
        cases hj
        exact hlf
      | succ k ih =>
        intro t₁ t₂ hi hj lf hlf
        have hjlt : i + k < Ts.length := by
          have := (List.getElem?_eq_some_iff.mp hj).1
          omega
        exact step (i + k) Ts[i + k] t₂ (List.getElem?_eq_getElem hjlt) hj lf
          (ih t₁ Ts[i + k] hi (List.getElem?_eq_getElem hjlt) lf hlf)
    · cases hacc
  · cases hacc

end Akd.Aud
