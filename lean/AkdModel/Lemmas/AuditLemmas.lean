/-
Helper lemmas for C09 (frontiers of a trie, the auditor's rebuild).
-/
import AkdModel.Verify
import AkdModel.Thm.C01b
import AkdModel.Thm.C05
namespace Akd
end Akd
