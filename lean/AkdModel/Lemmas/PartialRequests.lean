/- helper lemmas for `Thm/C11b.lean` (requests on a partially written commit) -/
import AkdModel.Thm.C11
import AkdModel.Dir
import AkdModel.Lemmas.PartialReadsCongr
namespace Akd.Part
open Akd C01

/-! ### node level: the reads of the partially written database -/

/-- `resolve` fails with "not found" only -/
theorem resolve_err {r : NodeRec} {e : Nat} {x : Err} (h : r.resolve e = .error x) : x = .notFound := by
  unfold NodeRec.resolve at h
  split at h
  · split at h
    · split at h
      · cases h; rfl
      · cases h
    · cases h; rfl
  · cases h

/-- a read of a store without a transaction, in terms of `C11.viewAt` -/
theorem rd_idle (s : NodeStore) (h : s.inTxn = false) (e : Nat) (k : NodeLabel) :
    rd s e k = match C11.viewAt s.db e k with
      | some n => .ok n
      | none => .error .notFound := by
  unfold rd NodeStore.getNode NodeStore.getRec C11.viewAt
  rw [h]
  simp only [Bool.false_eq_true, if_false]
  cases s.db.get? k with
  | none => rfl
  | some r =>
    simp only
    cases hr : r.resolve e with
    | ok n => rfl
    | error x => rw [resolve_err hr]

/-- node level, every key: as of the previous epoch the partially written database reads as the old one -/
theorem partial_reads (c : Cfg) (hc : c.emptyLabel.len = 0)
    (s : NodeStore) (a : Azks) (t : CRoot)
    (hidle : s.inTxn = false ∧ s.log = [])
    (hrep : ReprRoot c .directory s t) (hwf : t.WF)
    (hat : C11.AtEpoch s.db a.latestEpoch) (hkeyed : C11.WellKeyed s.db)
    (hdom : ∀ k, (s.db.get? k).isSome → k ∈ C11.nodeKeys t)
    (hep : ∀ lf ∈ t.leaves, 1 ≤ lf.ep ∧ lf.ep ≤ a.latestEpoch)
    (els : List (BitStr × Dig))
    (hpf : PrefixFree (t.leaves ++ newLeaves els (a.latestEpoch + 1)))
    (hlen : ∀ lf ∈ t.leaves ++ newLeaves els (a.latestEpoch + 1), 1 ≤ lf.lbl.length ∧ lf.lbl.length ≤ 256)
    (s' : NodeStore) (a' : Azks)
    (hins : s.begin.batchInsert c .directory a (els.map fun x => (NodeLabel.ofBits x.1, x.2)) = .ok (s', a'))
    (W : List NodeRec) (hW : ∀ r ∈ W, ∃ k, s'.log.get? k = some r) :
    View s { db := C11.applyWrites s.db W, log := [], inTxn := false } a.latestEpoch := by
  intro k
  rw [rd_idle _ rfl, rd_idle s hidle.1]
  cases hd : s.db.get? k with
  | some r =>
    rw [C11.partial_commit_invisible_all c hc s a t hidle hrep hwf hat hdom hep els hpf hlen s' a' hins W hW k
      (by rw [hd]; rfl)]
  | none =>
    have hv : C11.viewAt s.db a.latestEpoch k = none := by
      unfold C11.viewAt; rw [hd]
    have hv' : C11.viewAt (C11.applyWrites s.db W) a.latestEpoch k = none := by
      unfold C11.viewAt C11.applyWrites
      rcases Part.foldl_set_get W s.db k with h | ⟨r', hr', hl, h⟩
      · rw [h, hd]
      · obtain ⟨k', hk'⟩ := hW r' hr'
        have hlog : Pub.LogOK s' := Pub.logOK_batchInsert hins (Pub.logOK_begin s hidle.2)
        have hkey : k' = r'.label := hlog.2.1 (k', r') (Part.get?_mem _ _ _ hk')
        rw [hkey, hl] at hk'
        rw [h]
        simp only [C11.new_keys_invisible c .directory s a _ s' a' hidle hkeyed hins k r' hk' hd]
    rw [hv, hv']

/-! ### request level -/

/-- states of a later epoch are not seen by `stateLeq` -/
theorem stateLeq_append (nodes ns : NodeStore) (az : Option Azks) (states extra : List ValueState) (vrf : VrfTable)
    (ck : Dig) (u : Bytes) (cur : Nat) (hextra : ∀ x ∈ extra, cur < x.epoch) :
    Dir.stateLeq ⟨ns, az, states ++ extra, vrf, ck⟩ u cur = Dir.stateLeq ⟨nodes, az, states, vrf, ck⟩ u cur := by
  unfold Dir.stateLeq
  simp only [List.filter_append]
  have : extra.filter (fun s => decide (s.username = u ∧ s.epoch ≤ cur)) = [] := by
    rw [List.filter_eq_nil_iff]
    intro x hx
    have := hextra x hx
    simp only [decide_eq_true_eq, not_and]
    intro _
    omega
  rw [this, List.append_nil]

theorem vrfLabel_ns (nodes ns : NodeStore) (az : Option Azks) (states ss : List ValueState) (vrf : VrfTable)
    (ck : Dig) : Dir.vrfLabel ⟨ns, az, ss, vrf, ck⟩ = Dir.vrfLabel ⟨nodes, az, states, vrf, ck⟩ := rfl

theorem epochHash_congr (c : Cfg) (nodes ns : NodeStore) (a : Azks) (states ss : List ValueState)
    (vrf : VrfTable) (ck : Dig) (hr : ns.rootHash c a = nodes.rootHash c a) :
    Dir.epochHash c ⟨ns, some a, ss, vrf, ck⟩ = Dir.epochHash c ⟨nodes, some a, states, vrf, ck⟩ := by
  unfold Dir.epochHash
  simp only [hr]

theorem lookup_congr (c : Cfg) (nodes ns : NodeStore) (a : Azks) (states ss : List ValueState)
    (vrf : VrfTable) (ck : Dig) (hr : ns.rootHash c a = nodes.rootHash c a)
    (hm : ∀ l, ns.membershipProof c a l = nodes.membershipProof c a l)
    (hn : ∀ l, ns.nonMembershipProof c a l = nodes.nonMembershipProof c a l) (u : Bytes)
    (hs : Dir.stateLeq ⟨ns, some a, ss, vrf, ck⟩ u a.latestEpoch
      = Dir.stateLeq ⟨nodes, some a, states, vrf, ck⟩ u a.latestEpoch) :
    Dir.lookup c ⟨ns, some a, ss, vrf, ck⟩ u = Dir.lookup c ⟨nodes, some a, states, vrf, ck⟩ u := by
  unfold Dir.lookup
  simp only [hs, hr, hm, hn, vrfLabel_ns nodes ns (some a) states ss vrf ck]

theorem updateProof_congr (c : Cfg) (nodes ns : NodeStore) (a : Azks) (states ss : List ValueState)
    (vrf : VrfTable) (ck : Dig)
    (hm : ∀ l, ns.membershipProof c a l = nodes.membershipProof c a l) (u : Bytes) :
    Dir.updateProof c ⟨ns, some a, ss, vrf, ck⟩ a u = Dir.updateProof c ⟨nodes, some a, states, vrf, ck⟩ a u := by
  funext st
  unfold Dir.updateProof
  simp only [hm, vrfLabel_ns nodes ns (some a) states ss vrf ck]

theorem keyHistory_congr (c : Cfg) (nodes ns : NodeStore) (a : Azks) (states ss : List ValueState)
    (vrf : VrfTable) (ck : Dig) (hr : ns.rootHash c a = nodes.rootHash c a)
    (hm : ∀ l, ns.membershipProof c a l = nodes.membershipProof c a l)
    (hn : ∀ l, ns.nonMembershipProof c a l = nodes.nonMembershipProof c a l) (u : Bytes) (p : HistoryParams)
    (h1 : (ss.filter (fun s => s.username = u)).isEmpty = (states.filter (fun s => s.username = u)).isEmpty)
    (h2 : (ss.filter (fun s => s.username = u)).filter (fun s => s.epoch ≤ a.latestEpoch)
      = (states.filter (fun s => s.username = u)).filter (fun s => s.epoch ≤ a.latestEpoch)) :
    Dir.keyHistory c ⟨ns, some a, ss, vrf, ck⟩ u p = Dir.keyHistory c ⟨nodes, some a, states, vrf, ck⟩ u p := by
  unfold Dir.keyHistory
  simp only [h1, h2, hr, hm, hn, vrfLabel_ns nodes ns (some a) states ss vrf ck,
    updateProof_congr c nodes ns a states ss vrf ck hm]

/-- states of a later epoch are not among the data `keyHistory` collects -/
theorem filter_append_later (states extra : List ValueState) (u : Bytes) (cur : Nat)
    (hextra : ∀ x ∈ extra, cur < x.epoch) :
    ((states ++ extra).filter (fun s => s.username = u)).filter (fun s => s.epoch ≤ cur)
      = (states.filter (fun s => s.username = u)).filter (fun s => s.epoch ≤ cur) := by
  rw [List.filter_append, List.filter_append]
  have : (extra.filter (fun s => decide (s.username = u))).filter (fun s => decide (s.epoch ≤ cur)) = [] := by
    rw [List.filter_eq_nil_iff]
    intro x hx
    have := hextra x (List.mem_filter.1 hx).1
    simp only [decide_eq_true_eq]
    omega
  rw [this, List.append_nil]

theorem isEmpty_filter_append (states extra : List ValueState) (u : Bytes)
    (h : states.filter (fun s => s.username = u) ≠ []) :
    ((states ++ extra).filter (fun s => s.username = u)).isEmpty
      = (states.filter (fun s => s.username = u)).isEmpty := by
  rw [List.filter_append]
  cases hf : states.filter (fun s => decide (s.username = u)) with
  | nil => exact absurd hf h
  | cons x xs => rfl

/-- without a state of the label at or before the epoch there is no history -/
theorem keyHistory_nodata (c : Cfg) (d : Dir) (a : Azks) (hazks : d.azks = some a) (u : Bytes)
    (p : HistoryParams)
    (h : (d.states.filter (fun s => s.username = u)).filter (fun s => s.epoch ≤ a.latestEpoch) = []) :
    d.keyHistory c u p = .error .notFound := by
  unfold Dir.keyHistory
  simp only [hazks, h]
  cases p <;> simp [throw, throwThe, MonadExcept.throw, bind, Except.bind] <;>
    split <;> rfl

theorem audit_congr (c : Cfg) (nodes ns : NodeStore) (a : Azks) (states ss : List ValueState)
    (vrf : VrfTable) (ck : Dig)
    (ha : ∀ s0 e0, ns.appendOnlyProof c a s0 e0 = nodes.appendOnlyProof c a s0 e0) (s0 e0 : Nat) :
    Dir.audit c ⟨ns, some a, ss, vrf, ck⟩ s0 e0 = Dir.audit c ⟨nodes, some a, states, vrf, ck⟩ s0 e0 := by
  unfold Dir.audit
  simp only [ha]

end Akd.Part
