/-
Helper lemmas about the storage-manager state machine.
Part 1: association-list maps (`Map.get?`, `Map.set`, `Map.setAll`, `Map.erase`).
`Map.WF` is defined in `Thm/C16.lean` (it is part of the statements); here the same property is
called `Map.KU` ("keys unique"), definitionally the same proposition.
-/
import AkdModel.Store
import AkdModel.PublishIO
namespace Akd.Store

/-- keys are unique (this is `Map.WF` of `Thm/C16.lean`, definitionally) -/
abbrev Map.KU (m : Map) : Prop := m.Pairwise (fun a b => a.key ≠ b.key)

namespace Map

theorem get?_nil (k : Key) : Map.get? [] k = none := rfl

theorem get?_cons (x : Rec) (xs : Map) (k : Key) :
    Map.get? (x :: xs) k = if x.key = k then some x else Map.get? xs k := by
  simp only [Map.get?, List.find?_cons]
  by_cases h : x.key = k <;> simp [h]

theorem get?_some_key {m : Map} {k : Key} {r : Rec} (h : m.get? k = some r) : r.key = k := by
  have := List.find?_some h
  simpa using this

theorem get?_some_mem {m : Map} {k : Key} {r : Rec} (h : m.get? k = some r) : r ∈ m :=
  List.mem_of_find?_eq_some h

theorem get?_eq_none {m : Map} {k : Key} : m.get? k = none ↔ ∀ r ∈ m, r.key ≠ k := by
  simp [Map.get?, List.find?_eq_none]

theorem KU_unique {m : Map} (h : m.KU) {a b : Rec} (ha : a ∈ m) (hb : b ∈ m)
    (hk : a.key = b.key) : a = b := by
  induction m with
  | nil => cases ha
  | cons x xs ih =>
    rw [Map.KU, List.pairwise_cons] at h
    rcases List.mem_cons.1 ha with rfl | ha' <;> rcases List.mem_cons.1 hb with rfl | hb'
    · rfl
    · exact absurd hk (h.1 _ hb')
    · exact absurd hk.symm (h.1 _ ha')
    · exact ih h.2 ha' hb'

theorem get?_of_mem {m : Map} (h : m.KU) {r : Rec} (hr : r ∈ m) : m.get? r.key = some r := by
  cases hg : m.get? r.key with
  | none => exact absurd rfl (get?_eq_none.1 hg r hr)
  | some r' =>
    have := KU_unique h (get?_some_mem hg) hr (get?_some_key hg)
    rw [this]

theorem get?_eq_some_iff {m : Map} (h : m.KU) {k : Key} {r : Rec} :
    m.get? k = some r ↔ r ∈ m ∧ r.key = k := by
  constructor
  · intro hg; exact ⟨get?_some_mem hg, get?_some_key hg⟩
  · rintro ⟨hm, rfl⟩; exact get?_of_mem h hm

/-! ### `set` -/

theorem set_nil (r : Rec) : Map.set [] r = [r] := rfl

theorem set_cons (x : Rec) (xs : Map) (r : Rec) :
    Map.set (x :: xs) r = if x.key = r.key then r :: xs else x :: Map.set xs r := rfl

theorem get?_set_same (m : Map) (r : Rec) : (m.set r).get? r.key = some r := by
  induction m with
  | nil => simp [set_nil, get?_cons]
  | cons x xs ih =>
    rw [set_cons]
    by_cases h : x.key = r.key
    · simp [h, get?_cons]
    · simp [h, get?_cons, ih]

theorem get?_set_other (m : Map) (r : Rec) {k : Key} (hk : r.key ≠ k) :
    (m.set r).get? k = m.get? k := by
  induction m with
  | nil => simp [set_nil, get?_cons, hk, get?_nil]
  | cons x xs ih =>
    rw [set_cons]
    by_cases h : x.key = r.key
    · have : x.key ≠ k := h ▸ hk
      simp [h, get?_cons, hk]
    · simp [h, get?_cons, ih]

theorem get?_set (m : Map) (r : Rec) (k : Key) :
    (m.set r).get? k = if r.key = k then some r else m.get? k := by
  by_cases h : r.key = k
  · subst h; simp [get?_set_same]
  · simp [h, get?_set_other]

theorem mem_set {m : Map} {r x : Rec} (h : x ∈ m.set r) : x = r ∨ x ∈ m := by
  induction m with
  | nil => simp [set_nil] at h; exact Or.inl h
  | cons y ys ih =>
    rw [set_cons] at h
    by_cases hy : y.key = r.key
    · simp only [hy, if_true, List.mem_cons] at h
      rcases h with h | h
      · exact Or.inl h
      · exact Or.inr (List.mem_cons_of_mem _ h)
    · simp only [hy, if_false, List.mem_cons] at h
      rcases h with h | h
      · exact Or.inr (h ▸ List.mem_cons_self)
      · rcases ih h with h | h
        · exact Or.inl h
        · exact Or.inr (List.mem_cons_of_mem _ h)

theorem mem_set_self (m : Map) (r : Rec) : r ∈ m.set r :=
  get?_some_mem (get?_set_same m r)

theorem KU_set {m : Map} (h : m.KU) (r : Rec) : (m.set r).KU := by
  induction m with
  | nil => simp [set_nil, Map.KU]
  | cons x xs ih =>
    rw [Map.KU, List.pairwise_cons] at h
    rw [set_cons]
    by_cases hx : x.key = r.key
    · simp only [hx, if_true]
      rw [Map.KU, List.pairwise_cons]
      exact ⟨fun b hb => hx ▸ h.1 b hb, h.2⟩
    · simp only [hx, if_false]
      rw [Map.KU, List.pairwise_cons]
      refine ⟨fun b hb => ?_, ih h.2⟩
      rcases mem_set hb with rfl | hb
      · exact hx
      · exact h.1 b hb

/-- under unique keys, membership in `set` is exact -/
theorem mem_set_iff {m : Map} (h : m.KU) {r x : Rec} :
    x ∈ m.set r ↔ x = r ∨ (x ∈ m ∧ x.key ≠ r.key) := by
  constructor
  · intro hx
    by_cases hk : x.key = r.key
    · exact Or.inl (KU_unique (KU_set h r) hx (mem_set_self m r) hk)
    · rcases mem_set hx with rfl | hm
      · exact Or.inl rfl
      · exact Or.inr ⟨hm, hk⟩
  · rintro (rfl | ⟨hm, hk⟩)
    · exact mem_set_self m _
    · have := get?_of_mem h hm
      rw [← get?_set_other m r (Ne.symm hk)] at this
      exact get?_some_mem this

/-! ### `setAll` -/

theorem setAll_nil (m : Map) : m.setAll [] = m := rfl

theorem setAll_cons (m : Map) (r : Rec) (rs : List Rec) :
    m.setAll (r :: rs) = (m.set r).setAll rs := rfl

theorem KU_setAll {m : Map} (h : m.KU) (rs : List Rec) : (m.setAll rs).KU := by
  induction rs generalizing m with
  | nil => exact h
  | cons r rs ih => exact ih (KU_set h r)

theorem mem_setAll {m : Map} {rs : List Rec} {x : Rec} (h : x ∈ m.setAll rs) : x ∈ rs ∨ x ∈ m := by
  induction rs generalizing m with
  | nil => exact Or.inr h
  | cons r rs ih =>
    rcases ih (m := m.set r) h with h | h
    · exact Or.inl (List.mem_cons_of_mem _ h)
    · rcases mem_set h with rfl | h
      · exact Or.inl List.mem_cons_self
      · exact Or.inr h

/-- with unique keys in the batch, the batch wins, else the old binding stays -/
theorem get?_setAll (m : Map) {rs : List Rec} (hrs : Map.KU rs) (k : Key) :
    (m.setAll rs).get? k = (match Map.get? rs k with | some r => some r | none => m.get? k) := by
  induction rs generalizing m with
  | nil => simp [setAll_nil, get?_nil]
  | cons r rs ih =>
    rw [Map.KU, List.pairwise_cons] at hrs
    rw [setAll_cons, ih _ hrs.2, get?_cons]
    by_cases hk : r.key = k
    · have : Map.get? rs k = none := get?_eq_none.2 (fun b hb => hk ▸ (hrs.1 b hb).symm)
      simp [hk, this, get?_set]
    · simp [hk, get?_set]

/-- membership in `setAll` under unique keys on both sides -/
theorem mem_setAll_iff {m : Map} {rs : List Rec} (hm : m.KU) (hrs : Map.KU rs) {x : Rec} :
    x ∈ m.setAll rs ↔ x ∈ rs ∨ (x ∈ m ∧ Map.get? rs x.key = none) := by
  have hw := KU_setAll hm rs
  constructor
  · intro hx
    have := get?_of_mem hw hx
    rw [get?_setAll m hrs] at this
    cases hg : Map.get? rs x.key with
    | none => rw [hg] at this; exact Or.inr ⟨get?_some_mem this, rfl⟩
    | some y =>
      rw [hg] at this
      simp only [Option.some.injEq] at this
      subst this
      exact Or.inl (get?_some_mem hg)
  · rintro (hx | ⟨hx, hn⟩)
    · have : (m.setAll rs).get? x.key = some x := by
        rw [get?_setAll m hrs, get?_of_mem hrs hx]
      exact get?_some_mem this
    · have : (m.setAll rs).get? x.key = some x := by
        rw [get?_setAll m hrs, hn]; exact get?_of_mem hm hx
      exact get?_some_mem this

/-! ### `erase`, `filter` -/

theorem KU_filter {m : Map} (h : m.KU) (p : Rec → Bool) : Map.KU (m.filter p) :=
  List.Pairwise.sublist List.filter_sublist h

theorem KU_erase {m : Map} (h : m.KU) (k : Key) : (m.erase k).KU := KU_filter h _

theorem mem_erase {m : Map} {k : Key} {x : Rec} (h : x ∈ m.erase k) : x ∈ m :=
  (List.mem_filter.1 h).1

theorem KU_foldl_erase {m : Map} (h : m.KU) (ks : List Key) : (ks.foldl Map.erase m).KU := by
  induction ks generalizing m with
  | nil => exact h
  | cons k ks ih => exact ih (KU_erase h k)

theorem mem_foldl_erase {m : Map} {ks : List Key} {x : Rec} (h : x ∈ ks.foldl Map.erase m) :
    x ∈ m := by
  induction ks generalizing m with
  | nil => exact h
  | cons k ks ih => exact mem_erase (ih h)

theorem foldl_erase_nil (ks : List Key) : ks.foldl Map.erase [] = [] := by
  induction ks with
  | nil => rfl
  | cons k ks ih => exact ih

/-- `find?` through a filter on a key-determined predicate -/
theorem get?_filter (m : Map) (p : Rec → Bool) (k : Key) :
    Map.get? (m.filter p) k = (m.find? (fun r => p r && decide (r.key = k))) := by
  simp [Map.get?, List.find?_filter]

end Map
/-! ## Part 2: the cache primitives -/

namespace State

theorem ext' {s t : State} (h1 : s.db = t.db) (h2 : s.hasCache = t.hasCache) (h3 : s.cache = t.cache)
    (h4 : s.cacheAzks = t.cacheAzks) (h5 : s.log = t.log) (h6 : s.active = t.active)
    (h7 : s.canClean = t.canClean) : s = t := by
  cases s; cases t; simp_all

@[simp] theorem cachePut_db (s : State) (r : Rec) : (s.cachePut r).db = s.db := by
  unfold cachePut; (repeat' split) <;> rfl
@[simp] theorem cachePut_log (s : State) (r : Rec) : (s.cachePut r).log = s.log := by
  unfold cachePut; (repeat' split) <;> rfl
@[simp] theorem cachePut_active (s : State) (r : Rec) : (s.cachePut r).active = s.active := by
  unfold cachePut; (repeat' split) <;> rfl
@[simp] theorem cachePut_hasCache (s : State) (r : Rec) : (s.cachePut r).hasCache = s.hasCache := by
  unfold cachePut; (repeat' split) <;> rfl
@[simp] theorem cachePut_canClean (s : State) (r : Rec) : (s.cachePut r).canClean = s.canClean := by
  unfold cachePut; (repeat' split) <;> rfl

theorem cachePutAll_nil (s : State) : s.cachePutAll [] = s := rfl
theorem cachePutAll_cons (s : State) (r : Rec) (rs : List Rec) :
    s.cachePutAll (r :: rs) = (s.cachePut r).cachePutAll rs := rfl

@[simp] theorem cachePutAll_db (s : State) (rs : List Rec) : (s.cachePutAll rs).db = s.db := by
  induction rs generalizing s with
  | nil => rfl
  | cons r rs ih => rw [cachePutAll_cons, ih, cachePut_db]
@[simp] theorem cachePutAll_log (s : State) (rs : List Rec) : (s.cachePutAll rs).log = s.log := by
  induction rs generalizing s with
  | nil => rfl
  | cons r rs ih => rw [cachePutAll_cons, ih, cachePut_log]
@[simp] theorem cachePutAll_active (s : State) (rs : List Rec) : (s.cachePutAll rs).active = s.active := by
  induction rs generalizing s with
  | nil => rfl
  | cons r rs ih => rw [cachePutAll_cons, ih, cachePut_active]
@[simp] theorem cachePutAll_hasCache (s : State) (rs : List Rec) : (s.cachePutAll rs).hasCache = s.hasCache := by
  induction rs generalizing s with
  | nil => rfl
  | cons r rs ih => rw [cachePutAll_cons, ih, cachePut_hasCache]
@[simp] theorem cachePutAll_canClean (s : State) (rs : List Rec) : (s.cachePutAll rs).canClean = s.canClean := by
  induction rs generalizing s with
  | nil => rfl
  | cons r rs ih => rw [cachePutAll_cons, ih, cachePut_canClean]

/-- the cache primitives do not look at `db`, `log`, `active`, `canClean` -/
theorem cachePut_frame (s : State) (d : Map) (l : Map) (a c : Bool) (r : Rec) :
    ({ s with db := d, log := l, active := a, canClean := c }).cachePut r
      = { s.cachePut r with db := d, log := l, active := a, canClean := c } := by
  unfold cachePut; (repeat' split) <;> rfl

theorem cachePutAll_frame (s : State) (d : Map) (l : Map) (a c : Bool) (rs : List Rec) :
    ({ s with db := d, log := l, active := a, canClean := c }).cachePutAll rs
      = { s.cachePutAll rs with db := d, log := l, active := a, canClean := c } := by
  induction rs generalizing s with
  | nil => rfl
  | cons r rs ih => rw [cachePutAll_cons, cachePutAll_cons, cachePut_frame, ← ih]

/-- writing the batch to the database and then to the cache is the record-by-record write -/
theorem setAll_putAll_fold (s : State) (rs : List Rec) :
    ({ s with db := s.db.setAll rs }).cachePutAll rs
      = rs.foldl (fun s r => ({ s with db := s.db.set r }).cachePut r) s := by
  induction rs generalizing s with
  | nil => rfl
  | cons r rs ih =>
    rw [List.foldl_cons, ← ih, cachePutAll_cons, Map.setAll_cons]
    congr 1
    simp only [cachePut_db]
    unfold cachePut; (repeat' split) <;> rfl

end State
/-! ## Part 3: selections return members -/

namespace State

theorem userStates_sub {m : Map} {u : Nat} {r : Rec} (h : r ∈ userStates m u) : r ∈ m :=
  (List.mem_filter.1 h).1

theorem maxBy_mem {f : Rec → Nat} {l : List Rec} {x : Rec} (h : maxBy f l = some x) : x ∈ l := by
  induction l generalizing x with
  | nil => cases h
  | cons y ys ih =>
    simp only [maxBy] at h
    split at h
    · rename_i z hz
      split at h
      · cases h; exact List.mem_cons_of_mem _ (ih hz)
      · cases h; exact List.mem_cons_self
    · cases h; exact List.mem_cons_self

theorem minBy_mem {f : Rec → Nat} {l : List Rec} {x : Rec} (h : minBy f l = some x) : x ∈ l := by
  induction l generalizing x with
  | nil => cases h
  | cons y ys ih =>
    simp only [minBy] at h
    split at h
    · rename_i z hz
      split at h
      · cases h; exact List.mem_cons_of_mem _ (ih hz)
      · cases h; exact List.mem_cons_self
    · cases h; exact List.mem_cons_self

theorem select_mem {rs : List Rec} {f : Flag} {r : Rec} (h : select rs f = some r) : r ∈ rs := by
  cases f with
  | specificVersion v => exact (List.mem_filter.1 (minBy_mem h)).1
  | specificEpoch e => exact List.mem_of_find?_eq_some h
  | leqEpoch e => exact (List.mem_filter.1 (maxBy_mem h)).1
  | maxEpoch => exact maxBy_mem h
  | minEpoch => exact minBy_mem h

end State
/-! ## Part 4: the commit order -/


theorem Map.get?_append (a b : Map) (k : Key) :
    Map.get? (a ++ b) k = (match Map.get? a k with | some r => some r | none => Map.get? b k) := by
  unfold Map.get?
  rw [List.find?_append]
  cases List.find? (fun r => decide (r.key = k)) a <;> rfl

/-- lookup through a filter on a key-determined predicate -/
theorem Map.get?_filter_key (m : Map) (p : Key → Bool) (k : Key) :
    Map.get? (m.filter (fun r => p r.key)) k = if p k then m.get? k else none := by
  induction m with
  | nil => simp [Map.get?_nil]
  | cons x xs ih =>
    rw [List.filter_cons]
    by_cases hx : p x.key = true
    · rw [if_pos hx, Map.get?_cons, Map.get?_cons, ih]
      by_cases hk : x.key = k
      · subst hk; simp [hx]
      · simp [hk]
    · rw [if_neg hx, ih, Map.get?_cons]
      by_cases hk : x.key = k
      · subst hk; simp [hx]
      · simp [hk]

namespace State

theorem commitOrder_perm (log : Map) : (commitOrder log).Perm log := by
  unfold commitOrder
  have := List.filter_append_perm (fun r : Rec => decide (r.key ≠ Key.azks)) log
  simpa using this

theorem mem_commitOrder {log : Map} {r : Rec} : r ∈ commitOrder log ↔ r ∈ log :=
  (commitOrder_perm log).mem_iff

theorem KU_commitOrder {log : Map} (h : log.KU) : Map.KU (commitOrder log) := by
  refine (List.Perm.pairwise_iff ?_ (commitOrder_perm log)).2 h
  intro a b hab; exact hab.symm

theorem get?_commitOrder (log : Map) (k : Key) : Map.get? (commitOrder log) k = log.get? k := by
  unfold commitOrder
  rw [Map.get?_append, Map.get?_filter_key log (fun k => decide (k ≠ Key.azks)),
    Map.get?_filter_key log (fun k => decide (k = Key.azks))]
  by_cases hk : k = Key.azks
  · simp [hk]
  · simp only [hk, decide_false, decide_true, ne_eq, not_false_eq_true, if_true, Bool.false_eq_true, if_false]
    cases log.get? k <;> rfl

theorem commitOrder_getLast {log : Map} (hz : ∃ r ∈ log, r.key = Key.azks) :
    ∃ r, (commitOrder log).getLast? = some r ∧ r.key = Key.azks := by
  obtain ⟨z, hz, hk⟩ := hz
  unfold commitOrder
  have hne : log.filter (fun r => decide (r.key = Key.azks)) ≠ [] := by
    intro e
    have : z ∈ log.filter (fun r => decide (r.key = Key.azks)) := List.mem_filter.2 ⟨hz, by simp [hk]⟩
    rw [e] at this; cases this
  rw [List.getLast?_append]
  cases hl : (log.filter (fun r => decide (r.key = Key.azks))).getLast? with
  | none => exact absurd (List.getLast?_eq_none_iff.1 hl) hne
  | some r =>
    refine ⟨r, rfl, ?_⟩
    have := List.mem_of_getLast? hl
    simpa using (List.mem_filter.1 this).2

/-- a filter that rejects the epoch record does not see the commit order -/
theorem filter_commitOrder (log : Map) (p : Rec → Bool) (hp : ∀ a, p a = true → a.key ≠ Key.azks) :
    (commitOrder log).filter p = log.filter p := by
  unfold commitOrder
  rw [List.filter_append, List.filter_filter, List.filter_filter]
  have h2 : log.filter (fun a => p a && decide (a.key = Key.azks)) = [] := by
    rw [List.filter_eq_nil_iff]; intro a _ h
    simp only [Bool.and_eq_true, decide_eq_true_eq] at h
    exact hp a h.1 h.2
  rw [h2, List.append_nil]
  apply List.filter_congr
  intro a _
  by_cases h : p a = true
  · simp [h, hp a h]
  · simp [h]

theorem userStates_commitOrder (log : Map) (u : Nat) :
    userStates (commitOrder log) u = userStates log u := by
  unfold userStates
  apply filter_commitOrder
  intro a h hk
  rw [hk] at h
  cases h

end State
/-! ## Part 5: programs over the machine -/


/-- inside a transaction the insertion's operations touch neither the database nor the flag -/
theorem step_iop_active (p : Params) (s : State) (o : IOp) (f : Bool) (ha : s.active = true) :
    (step p s (o.toOp f)).1.db = s.db ∧ (step p s (o.toOp f)).1.active = true := by
  cases o with
  | get k =>
    simp only [IOp.toOp, step, State.get]
    split
    · exact ⟨rfl, ha⟩
    · split
      · exact ⟨rfl, ha⟩
      · split
        · simp [ha]
        · exact ⟨rfl, ha⟩
  | batchGet ks =>
    simp only [IOp.toOp, step, State.batchGet]
    split
    · exact ⟨rfl, ha⟩
    · split
      · exact ⟨rfl, ha⟩
      · split
        · exact ⟨rfl, ha⟩
        · simp [ha]
  | set r =>
    simp [IOp.toOp, step, State.set, ha]
  | userVersions us fl =>
    simp only [IOp.toOp, step, State.userVersions]
    split <;> exact ⟨rfl, ha⟩

/-- reads never touch the database, the log or the flag -/
theorem step_iop_read (p : Params) (s : State) (o : IOp) (f : Bool) (hro : ∀ r, o ≠ .set r) :
    (step p s (o.toOp f)).1.db = s.db ∧ (step p s (o.toOp f)).1.active = s.active ∧
      (step p s (o.toOp f)).1.log = s.log := by
  cases o with
  | get k =>
    simp only [IOp.toOp, step, State.get]
    split
    · exact ⟨rfl, rfl, rfl⟩
    · split
      · exact ⟨rfl, rfl, rfl⟩
      · split
        · simp
        · exact ⟨rfl, rfl, rfl⟩
  | batchGet ks =>
    simp only [IOp.toOp, step, State.batchGet]
    split
    · exact ⟨rfl, rfl, rfl⟩
    · split
      · exact ⟨rfl, rfl, rfl⟩
      · split
        · exact ⟨rfl, rfl, rfl⟩
        · simp
  | set r => exact absurd rfl (hro r)
  | userVersions us fl =>
    simp only [IOp.toOp, step, State.userVersions]
    split <;> exact ⟨rfl, rfl, rfl⟩

/-- a property every operation of the program preserves holds of the state `runIOps` ends in -/
theorem runIOps_preserves (P : State → Prop) (p : Params) (k : Option Nat) (ops : List IOp)
    (hstep : ∀ s o f, o ∈ ops → P s → P (step p s (o.toOp f)).1) :
    ∀ s n, P s → P (runIOps p k s n ops).1 := by
  induction ops with
  | nil => intro s n h; exact h
  | cons o rest ih =>
    intro s n h
    have h1 := hstep s o (decide (k = some n)) List.mem_cons_self h
    simp only [runIOps]
    split
    · exact h1
    · exact ih (fun s o f ho => hstep s o f (List.mem_cons_of_mem _ ho)) _ _ h1

end Akd.Store
