/-
One effective batch (C01c): `Spec.applyBatch` as a fold of `step` over the changes, the
invariants of the new table, and the value states after the batch.
-/
import AkdModel.Lemmas.PublishDerive
namespace Akd.Pub
open Akd Spec

/-! ### batches without a repeated label -/

theorem eraseDups_length_le {α} [BEq α] : ∀ (n : Nat) (l : List α), l.length ≤ n → l.eraseDups.length ≤ l.length
  | _, [], _ => by simp
  | 0, _ :: _, h => by simp at h
  | n + 1, a :: as, h => by
    rw [List.eraseDups_cons]
    have h1 := List.length_filter_le (fun b => !b == a) as
    have h2 := eraseDups_length_le n (as.filter fun b => !b == a) (by simp at h; omega)
    simp only [List.length_cons]
    omega

theorem nodup_of_eraseDups_length {α} [BEq α] [LawfulBEq α] :
    ∀ (n : Nat) (l : List α), l.length ≤ n → l.eraseDups.length = l.length → l.Nodup
  | _, [], _, _ => by simp
  | 0, _ :: _, h, _ => by simp at h
  | n + 1, a :: as, h, he => by
    rw [List.eraseDups_cons] at he
    have h1 := List.length_filter_le (fun b => !b == a) as
    have h2 := eraseDups_length_le _ (as.filter fun b => !b == a) (Nat.le_refl _)
    simp only [List.length_cons] at he h
    have h3 : (as.filter fun b => !b == a).length = as.length := by omega
    have h4 : (as.filter fun b => !b == a) = as := (List.filter_sublist).eq_of_length h3
    rw [h4] at he
    rw [List.nodup_cons]
    refine ⟨fun hm => ?_, nodup_of_eraseDups_length n as (by omega) (by omega)⟩
    have := (List.filter_eq_self.1 h4) a hm
    simp at this

/-! ### `applyBatch` -/

theorem applyBatch_dup (s : State) (b : List (Bytes × Bytes)) (h : (b.map (·.1)).eraseDups.length ≠ b.length) :
    applyBatch s b = s := by
  unfold applyBatch
  rw [if_pos h]

theorem applyBatch_eq (s : State) (b : List (Bytes × Bytes)) (h : (b.map (·.1)).eraseDups.length = b.length) :
    applyBatch s b =
      if (b.filter (isChange s.table)).isEmpty then s
      else ⟨s.epoch + 1, (b.filter (isChange s.table)).foldl (step (s.epoch + 1)) s.table⟩ := by
  unfold applyBatch
  rw [if_neg (by simpa using h)]
  rfl

theorem mem_fold_step (e : Nat) : ∀ (ch : List (Bytes × Bytes)) (T : Table),
    ∀ y ∈ ch.foldl (step e) T, y.1 ∈ ch.map (·.1) ∨ y ∈ T
  | [], _, y, hy => .inr hy
  | x :: ch, T, y, hy => by
    rw [List.foldl_cons] at hy
    rcases mem_fold_step e ch _ y hy with h | h
    · exact .inl (List.mem_cons_of_mem _ h)
    · rcases mem_put _ _ _ y h with h | h
      · left; rw [h]; exact List.mem_cons_self
      · exact .inr h

theorem applyBatch_cases (s : State) (b : List (Bytes × Bytes)) :
    applyBatch s b = s ∨
      applyBatch s b = ⟨s.epoch + 1, (b.filter (isChange s.table)).foldl (step (s.epoch + 1)) s.table⟩ := by
  by_cases h : (b.map (·.1)).eraseDups.length = b.length
  · rw [applyBatch_eq s b h]
    split
    · exact .inl rfl
    · exact .inr rfl
  · exact .inl (applyBatch_dup s b h)

theorem applyBatch_epoch_le (s : State) (b : List (Bytes × Bytes)) : (applyBatch s b).epoch ≤ s.epoch + 1 := by
  rcases applyBatch_cases s b with h | h <;> rw [h]
  · exact Nat.le_succ _
  · exact Nat.le_refl _

theorem applyBatch_keys (s : State) (b : List (Bytes × Bytes)) :
    ∀ y ∈ (applyBatch s b).table, y.1 ∈ b.map (·.1) ∨ y ∈ s.table := by
  rcases applyBatch_cases s b with h | h <;> rw [h]
  · exact fun y hy => .inr hy
  · intro y hy
    rcases mem_fold_step _ _ _ y hy with h | h
    · left
      obtain ⟨x, hx, hxy⟩ := List.mem_map.1 h
      exact hxy ▸ List.mem_map_of_mem (List.mem_filter.1 hx).1
    · exact .inr h

/-! ### the table after the batch -/

theorem versOK_length_le {vs : List Ver} (h : VersOK vs) (E : Nat) (he : ∀ v ∈ vs, 1 ≤ v.epoch ∧ v.epoch ≤ E) :
    vs.length ≤ E := by
  have key : ∀ (l : List Ver) (k : Nat), (∀ v ∈ l, k ≤ v.epoch ∧ v.epoch ≤ E) →
      l.Pairwise (fun a b => a.epoch < b.epoch) → l.length ≤ E + 1 - k := by
    intro l
    induction l with
    | nil => intro k _ _; simp
    | cons a l ih =>
      intro k hb hp
      rw [List.pairwise_cons] at hp
      have ha := hb a List.mem_cons_self
      have := ih (k + 1) (fun v hv => ⟨by have := hp.1 v hv; omega, (hb v (List.mem_cons_of_mem _ hv)).2⟩) hp.2
      simp only [List.length_cons]
      omega
  have := key vs 1 he h.2
  omega

section Step
variable (T : Table) (E : Nat) (ch : List (Bytes × Bytes))
  (hv : ∀ u, VersOK (T.get u)) (hE : ∀ u, ∀ v ∈ T.get u, 1 ≤ v.epoch ∧ v.epoch ≤ E)
  (hnd : (ch.map (·.1)).Nodup)
include hv hE hnd

omit hE in
theorem get_fold (u : Bytes) :
    (ch.foldl (step (E + 1)) T).get u = T.get u ∨
    ∃ x ∈ ch, x.1 = u ∧ (ch.foldl (step (E + 1)) T).get u = T.get u ++ [⟨(T.get u).length + 1, x.2, E + 1⟩] := by
  obtain ⟨_, i2, i3, _, _⟩ := fold_spec Cfg.whatsappV1 (.raw []) [] (E + 1) T hv ch T hnd (fun _ _ => rfl)
  by_cases hu : u ∈ ch.map (·.1)
  · obtain ⟨x, hx, rfl⟩ := List.mem_map.1 hu
    exact .inr ⟨x, hx, rfl, i2 x hx⟩
  · exact .inl (i3 u hu)

theorem versions_fold (u : Bytes) :
    VersOK ((ch.foldl (step (E + 1)) T).get u) ∧
      ∀ v ∈ (ch.foldl (step (E + 1)) T).get u, 1 ≤ v.epoch ∧ v.epoch ≤ E + 1 := by
  rcases get_fold T E ch hv hnd u with h | ⟨x, _, _, h⟩
  · rw [h]
    exact ⟨hv u, fun v hm => by have := hE u v hm; omega⟩
  · rw [h]
    refine ⟨versOK_snoc (hv u) _ _ (fun w hw => by have := hE u w hw; omega), fun v hm => ?_⟩
    rcases List.mem_append.1 hm with hm | hm
    · have := hE u v hm; omega
    · simp at hm; subst hm; simp

theorem smatch_fold (states : List ValueState) (vrf : VrfTable) (hm : SMatch states vrf T)
    (hsome : ∀ x ∈ ch, (vrf.get? ⟨x.1, true, (T.get x.1).length + 1⟩).isSome) :
    SMatch (states ++ ch.map (mkState vrf T (E + 1))) vrf (ch.foldl (step (E + 1)) T) := by
  obtain ⟨_, i2, i3, _, _⟩ := fold_spec Cfg.whatsappV1 (.raw []) [] (E + 1) T hv ch T hnd (fun _ _ => rfl)
  have hsub : ∀ u, ∀ v ∈ T.get u, v ∈ (ch.foldl (step (E + 1)) T).get u := by
    intro u v hm
    rcases get_fold T E ch hv hnd u with h | ⟨x, _, _, h⟩
    · rw [h]; exact hm
    · rw [h]; exact List.mem_append_left _ hm
  have hep : ∀ s ∈ states, s.epoch ≤ E := by
    intro s hs
    obtain ⟨v, hvm, _, he, _⟩ := hm.1 s hs
    have := hE _ v hvm
    omega
  refine ⟨?_, ?_, ?_⟩
  · intro s hs
    rcases List.mem_append.1 hs with hs | hs
    · obtain ⟨v, hvm, h⟩ := hm.1 s hs
      exact ⟨v, hsub _ v hvm, h⟩
    · obtain ⟨x, hx, rfl⟩ := List.mem_map.1 hs
      refine ⟨⟨(T.get x.1).length + 1, x.2, E + 1⟩, ?_, rfl, rfl, rfl, ?_⟩
      · show _ ∈ (ch.foldl (step (E + 1)) T).get x.1
        rw [i2 x hx]; simp
      · obtain ⟨l, hl⟩ := Option.isSome_iff_exists.1 (hsome x hx)
        simp [mkState, hl]
  · intro u v hvm
    rcases get_fold T E ch hv hnd u with h | ⟨x, hx, hxu, h⟩
    · rw [h] at hvm
      obtain ⟨s, hs, h'⟩ := hm.2.1 u v hvm
      exact ⟨s, List.mem_append_left _ hs, h'⟩
    · rw [h] at hvm
      rcases List.mem_append.1 hvm with hvm | hvm
      · obtain ⟨s, hs, h'⟩ := hm.2.1 u v hvm
        exact ⟨s, List.mem_append_left _ hs, h'⟩
      · simp at hvm; subst hvm
        refine ⟨mkState vrf T (E + 1) x, List.mem_append_right _ (List.mem_map_of_mem hx), ?_⟩
        simp [mkState, hxu]
  · rw [List.pairwise_append]
    refine ⟨hm.2.2, ?_, ?_⟩
    · rw [List.pairwise_map]
      have : ch.Pairwise (fun a b => a.1 ≠ b.1) := by
        have := hnd
        rwa [List.Nodup, List.pairwise_map] at this
      exact this.imp (fun h h' => h h'.1)
    · intro s hs w hw h
      obtain ⟨x, _, rfl⟩ := List.mem_map.1 hw
      have := hep s hs
      have h2 := h.2
      simp only [mkState] at h2
      omega

end Step

end Akd.Pub
