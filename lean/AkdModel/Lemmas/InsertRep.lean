/-
The representation relation between storage and canonical trees (a copy of the definitions of
`Thm/C01b.lean`, which imports this file and proves the two versions equal), epoch metadata,
and the frame lemmas: `Rep` only depends on the records under the labels of the tree.
-/
import AkdModel.Lemmas.InsertStore
import AkdModel.Lemmas.InsertSets
namespace Akd.Ins
open Akd NodeLabel

def hm : InsertMode → HashMode
  | .directory => .withLeafEpoch
  | .auditor => .noLeafEpoch

def maxEp : CTree → Nat
  | .leaf _ _ e => e
  | .node _ l r => max (maxEp l) (maxEp r)

def minEp : CTree → Nat
  | .leaf _ _ e => e
  | .node _ l r => min (minEp l) (minEp r)

/-- `n` is the node record of the root of `t` -/
def NodeIs (c : Cfg) (m : InsertMode) (t : CTree) (n : TreeNode) : Prop :=
  match t with
  | .leaf q v e =>
    n.label = ofBits q ∧ n.nodeType = .leaf ∧ n.left = none ∧ n.right = none ∧
      n.hash = v ∧ n.lastEpoch = e ∧ n.minDescEpoch = e
  | .node q l r =>
    n.label = ofBits q ∧ n.nodeType = .interior ∧
      n.left = some (ofBits l.lbl) ∧ n.right = some (ofBits r.lbl) ∧
      n.hash = (CTree.node q l r).azks c (hm m) ∧
      n.lastEpoch = maxEp (.node q l r) ∧ n.minDescEpoch = minEp (.node q l r)

def Rep (c : Cfg) (m : InsertMode) (s : NodeStore) : CTree → Prop
  | .leaf q v e => ∃ r, s.getRec (ofBits q) = some r ∧ NodeIs c m (.leaf q v e) r.latest
  | .node q l r' =>
    (∃ r, s.getRec (ofBits q) = some r ∧ NodeIs c m (.node q l r') r.latest) ∧ Rep c m s l ∧ Rep c m s r'

def RepKids (c : Cfg) (m : InsertMode) (s : NodeStore) : CTree → Prop
  | .leaf _ _ _ => True
  | .node _ l r => Rep c m s l ∧ Rep c m s r

theorem rep_iff (c : Cfg) (m : InsertMode) (s : NodeStore) (t : CTree) :
    Rep c m s t ↔ (∃ r, s.getRec (ofBits t.lbl) = some r ∧ NodeIs c m t r.latest) ∧ RepKids c m s t := by
  cases t <;> simp [Rep, RepKids, CTree.lbl]

theorem nodeIs_label {c m t n} (h : NodeIs c m t n) : n.label = ofBits t.lbl := by
  cases t <;> exact h.1

theorem nodeIs_lastEpoch {c m t n} (h : NodeIs c m t n) : n.lastEpoch = maxEp t := by
  cases t
  · exact h.2.2.2.2.2.1
  · exact h.2.2.2.2.2.1

theorem nodeIs_minDesc {c m t n} (h : NodeIs c m t n) : n.minDescEpoch = minEp t := by
  cases t
  · exact h.2.2.2.2.2.2
  · exact h.2.2.2.2.2.2

/-- the `parent` field is not constrained -/
theorem nodeIs_parent {c m t n} (h : NodeIs c m t n) (p : NodeLabel) : NodeIs c m t { n with parent := p } := by
  cases t <;> exact h

/-! ### epoch metadata -/

theorem le_maxEp : ∀ (t : CTree) (lf : Leaf), lf ∈ t.leaves → lf.ep ≤ maxEp t
  | .leaf _ _ _, lf, h => by simp [CTree.leaves] at h; subst h; simp [maxEp]
  | .node _ l r, lf, h => by
    simp only [CTree.leaves, List.mem_append] at h
    simp only [maxEp]
    rcases h with h | h
    · have := le_maxEp l lf h; omega
    · have := le_maxEp r lf h; omega

theorem maxEp_mem : ∀ (t : CTree), ∃ lf ∈ t.leaves, lf.ep = maxEp t
  | .leaf q v e => ⟨⟨q, v, e⟩, by simp [CTree.leaves], rfl⟩
  | .node _ l r => by
    obtain ⟨a, ha, ha'⟩ := maxEp_mem l
    obtain ⟨b, hb, hb'⟩ := maxEp_mem r
    simp only [maxEp, CTree.leaves, List.mem_append]
    rcases Nat.le_total (maxEp l) (maxEp r) with h | h
    · exact ⟨b, .inr hb, by omega⟩
    · exact ⟨a, .inl ha, by omega⟩

theorem minEp_le : ∀ (t : CTree) (lf : Leaf), lf ∈ t.leaves → minEp t ≤ lf.ep
  | .leaf _ _ _, lf, h => by simp [CTree.leaves] at h; subst h; simp [minEp]
  | .node _ l r, lf, h => by
    simp only [CTree.leaves, List.mem_append] at h
    simp only [minEp]
    rcases h with h | h
    · have := minEp_le l lf h; omega
    · have := minEp_le r lf h; omega

theorem minEp_mem : ∀ (t : CTree), ∃ lf ∈ t.leaves, lf.ep = minEp t
  | .leaf q v e => ⟨⟨q, v, e⟩, by simp [CTree.leaves], rfl⟩
  | .node _ l r => by
    obtain ⟨a, ha, ha'⟩ := minEp_mem l
    obtain ⟨b, hb, hb'⟩ := minEp_mem r
    simp only [minEp, CTree.leaves, List.mem_append]
    rcases Nat.le_total (minEp l) (minEp r) with h | h
    · exact ⟨a, .inl ha, by omega⟩
    · exact ⟨b, .inr hb, by omega⟩

theorem maxEp_le (t : CTree) (E : Nat) (h : ∀ lf ∈ t.leaves, lf.ep ≤ E) : maxEp t ≤ E := by
  obtain ⟨lf, h1, h2⟩ := maxEp_mem t
  rw [← h2]; exact h lf h1

theorem maxEp_eq (t : CTree) (E : Nat) (h : ∀ lf ∈ t.leaves, lf.ep ≤ E) (lf : Leaf) (hm : lf ∈ t.leaves)
    (he : lf.ep = E) : maxEp t = E := by
  have := maxEp_le t E h
  have := le_maxEp t lf hm
  omega

theorem le_minEp (t : CTree) (E : Nat) (h : ∀ lf ∈ t.leaves, E ≤ lf.ep) : E ≤ minEp t := by
  obtain ⟨lf, h1, h2⟩ := minEp_mem t
  rw [← h2]; exact h lf h1

/-- more leaves, smaller minimum -/
theorem minEp_mono (t t' : CTree) (h : ∀ lf ∈ t.leaves, lf ∈ t'.leaves) : minEp t' ≤ minEp t := by
  obtain ⟨lf, h1, h2⟩ := minEp_mem t
  rw [← h2]; exact minEp_le t' lf (h lf h1)

/-! ### labels of a well-formed tree -/

theorem lbl_length_le (t : CTree) (hwf : t.WF) (hlen : ∀ lf ∈ t.leaves, lf.lbl.length ≤ 256) :
    t.lbl.length ≤ 256 := by
  obtain ⟨lf, h⟩ := Canon.Tree.exists_mem_leaves t
  exact Nat.le_trans (Canon.Tree.lbl_prefix hwf lf h).length_le (hlen lf h)

/-! ### frame -/

/-- `Rep` only reads records under labels extending the root label of the tree -/
theorem rep_congr (c : Cfg) (m : InsertMode) (s s' : NodeStore) : ∀ (t : CTree), t.WF →
    (∀ lf ∈ t.leaves, lf.lbl.length ≤ 256) →
    (∀ b : BitStr, b.length ≤ 256 → t.lbl <+: b → s'.getRec (ofBits b) = s.getRec (ofBits b)) →
    Rep c m s t → Rep c m s' t
  | .leaf q v e, _, hlen, hf, h => by
    obtain ⟨r, h1, h2⟩ := h
    refine ⟨r, ?_, h2⟩
    rw [hf q (hlen ⟨q, v, e⟩ (by simp [CTree.leaves])) (List.prefix_refl _)]
    exact h1
  | .node q l r', hwf, hlen, hf, h => by
    obtain ⟨⟨r, h1, h2⟩, hl, hr⟩ := h
    have hq := lbl_length_le _ hwf hlen
    obtain ⟨pl, pr, wl, wr⟩ := hwf
    refine ⟨⟨r, ?_, h2⟩, ?_, ?_⟩
    · rw [hf q hq (List.prefix_refl _)]; exact h1
    · exact rep_congr c m s s' l wl (fun lf h => hlen lf (by simp [CTree.leaves, h]))
        (fun b hb hp => hf b hb ((Canon.prefix_of_snoc_prefix pl).trans hp)) hl
    · exact rep_congr c m s s' r' wr (fun lf h => hlen lf (by simp [CTree.leaves, h]))
        (fun b hb hp => hf b hb ((Canon.prefix_of_snoc_prefix pr).trans hp)) hr

/-- all writes happened under labels extending `pre` -/
def Frame (pre : BitStr) (s s' : NodeStore) : Prop :=
  ∀ b : BitStr, b.length ≤ 256 → ¬ pre <+: b → s'.getRec (ofBits b) = s.getRec (ofBits b)

theorem Frame.refl (pre : BitStr) (s : NodeStore) : Frame pre s s := fun _ _ _ => rfl

theorem Frame.trans {pre : BitStr} {s s' s'' : NodeStore} (h1 : Frame pre s s') (h2 : Frame pre s' s'') :
    Frame pre s s'' := fun b hb hp => (h2 b hb hp).trans (h1 b hb hp)

theorem Frame.mono {pre pre' : BitStr} {s s' : NodeStore} (h : Frame pre' s s') (hp : pre <+: pre') :
    Frame pre s s' := fun b hb hn => h b hb (fun h' => hn (hp.trans h'))

theorem frame_setRec (pre q : BitStr) (hq : q.length ≤ 256) (hp : pre <+: q) (s : NodeStore) (r : NodeRec)
    (hr : r.label = ofBits q) : Frame pre s (s.setRec r) := by
  intro b hb hn
  apply getRec_setRec_ne
  rw [hr]
  intro h
  exact hn (ofBits_inj hb hq h ▸ hp)

theorem rep_frame {c m s s'} {pre : BitStr} (hf : Frame pre s s') (t : CTree) (hwf : t.WF)
    (hlen : ∀ lf ∈ t.leaves, lf.lbl.length ≤ 256) (hdis : ∀ x, t.lbl <+: x → ¬ pre <+: x)
    (h : Rep c m s t) : Rep c m s' t :=
  rep_congr c m s s' t hwf hlen (fun b hb hp => hf b hb (hdis b hp)) h

/-- a write under a label that does not extend the tree's root label -/
theorem rep_setRec {c m s} (t : CTree) (hwf : t.WF) (hlen : ∀ lf ∈ t.leaves, lf.lbl.length ≤ 256)
    (q : BitStr) (hq : q.length ≤ 256) (hn : ¬ t.lbl <+: q) (r : NodeRec) (hr : r.label = ofBits q)
    (h : Rep c m s t) : Rep c m (s.setRec r) t := by
  apply rep_congr c m s _ t hwf hlen _ h
  intro b hb hp
  apply getRec_setRec_ne
  rw [hr]
  intro e
  exact hn (ofBits_inj hb hq e ▸ hp)

/-- writing the root record of `t`, its children being represented already -/
theorem rep_write {c m s} (t : CTree) (hwf : t.WF) (hlen : ∀ lf ∈ t.leaves, lf.lbl.length ≤ 256)
    (n : TreeNode) (hn : NodeIs c m t n) (hk : RepKids c m s t) (pv : Option TreeNode) :
    Rep c m (s.setRec ⟨n.label, n, pv⟩) t := by
  rw [rep_iff]
  have hl := nodeIs_label hn
  refine ⟨⟨⟨n.label, n, pv⟩, ?_, hn⟩, ?_⟩
  · rw [← hl]; exact getRec_setRec_self s ⟨n.label, n, pv⟩
  · cases t with
    | leaf => trivial
    | node q l r =>
      have hq := lbl_length_le _ hwf hlen
      obtain ⟨pl, pr, wl, wr⟩ := hwf
      have hnl : ¬ l.lbl <+: q := fun h => by
        have := (pl.trans h).length_le; simp at this; omega
      have hnr : ¬ r.lbl <+: q := fun h => by
        have := (pr.trans h).length_le; simp at this; omega
      exact ⟨rep_setRec l wl (fun lf h => hlen lf (by simp [CTree.leaves, h])) q hq hnl _ hl hk.1,
        rep_setRec r wr (fun lf h => hlen lf (by simp [CTree.leaves, h])) q hq hnr _ hl hk.2⟩

end Akd.Ins
