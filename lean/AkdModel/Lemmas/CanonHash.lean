/-
Helper lemmas about the digests of the canonical trie: with a lawful configuration the
digest of a (sub)trie together with its label determines it.
-/
import AkdModel.Lemmas.CanonLemmas
import AkdModel.Thm.C17
namespace Akd.Canon

/-! ### digests -/

theorem ofBits_inj {a b : BitStr} (ha : a.length ≤ 256) (hb : b.length ≤ 256)
    (h : NodeLabel.ofBits a = NodeLabel.ofBits b) : a = b := by
  rw [← C17.bits_ofBits a ha, ← C17.bits_ofBits b hb, h]

namespace Tree
open CTree

/-- all labels in the tree have length ≤ 256 -/
theorem lbl_length_le {t : CTree} (hwf : t.WF) (hl : ∀ lf ∈ t.leaves, lf.lbl.length ≤ 256) :
    t.lbl.length ≤ 256 := by
  obtain ⟨lf, h⟩ := exists_mem_leaves t
  exact Nat.le_trans (lbl_prefix hwf lf h).length_le (hl lf h)

theorem azks_inj (c : Cfg) (hc : c.Lawful) : ∀ (t₁ t₂ : CTree), t₁.WF → t₂.WF →
    (∀ lf ∈ t₁.leaves, lf.lbl.length ≤ 256) → (∀ lf ∈ t₂.leaves, lf.lbl.length ≤ 256) →
    t₁.lbl = t₂.lbl → t₁.azks c .withLeafEpoch = t₂.azks c .withLeafEpoch → t₁ = t₂
  | leaf q v e, leaf q' v' e', _, _, _, _, hq, h => by
    simp only [azks] at h
    obtain ⟨rfl, rfl⟩ := hc.leaf_inj _ _ _ _ h
    simp only [lbl] at hq
    rw [hq]
  | leaf q v e, node q' l' r', _, _, _, _, _, h => by
    simp only [azks] at h
    exact absurd h (hc.leaf_ne_parent _ _ _ _ _ _)
  | node q l r, leaf q' v' e', _, _, _, _, _, h => by
    simp only [azks] at h
    exact absurd h.symm (hc.leaf_ne_parent _ _ _ _ _ _)
  | node q l r, node q' l' r', w₁, w₂, b₁, b₂, hq, h => by
    simp only [azks] at h
    simp only [lbl] at hq
    obtain ⟨hlv, hll, hrv, hrl⟩ := hc.parent_inj _ _ _ _ _ _ _ _ h
    have bl : ∀ lf ∈ l.leaves, lf.lbl.length ≤ 256 := fun lf h => b₁ lf (by simp [leaves, h])
    have br : ∀ lf ∈ r.leaves, lf.lbl.length ≤ 256 := fun lf h => b₁ lf (by simp [leaves, h])
    have bl' : ∀ lf ∈ l'.leaves, lf.lbl.length ≤ 256 := fun lf h => b₂ lf (by simp [leaves, h])
    have br' : ∀ lf ∈ r'.leaves, lf.lbl.length ≤ 256 := fun lf h => b₂ lf (by simp [leaves, h])
    have e1 := azks_inj c hc l l' w₁.2.2.1 w₂.2.2.1 bl bl'
      (ofBits_inj (lbl_length_le w₁.2.2.1 bl) (lbl_length_le w₂.2.2.1 bl') hll) hlv
    have e2 := azks_inj c hc r r' w₁.2.2.2 w₂.2.2.2 br br'
      (ofBits_inj (lbl_length_le w₁.2.2.2 br) (lbl_length_le w₂.2.2.2 br') hrl) hrv
    rw [hq, e1, e2]

end Tree

namespace Root
open CRoot

theorem child_inj (c : Cfg) (hc : c.Lawful) {o₁ o₂ : Option CTree}
    (w₁ : ∀ a, o₁ = some a → a.WF) (w₂ : ∀ a, o₂ = some a → a.WF)
    (b₁ : ∀ lf ∈ (o₁.map CTree.leaves).getD [], lf.lbl.length ≤ 256)
    (b₂ : ∀ lf ∈ (o₂.map CTree.leaves).getD [], lf.lbl.length ≤ 256)
    (hv : childValue c .withLeafEpoch o₁ = childValue c .withLeafEpoch o₂)
    (hl : childLabel c o₁ = childLabel c o₂) : o₁ = o₂ := by
  have ne : ∀ t : CTree, t.azks c .withLeafEpoch ≠ c.emptyNodeHash := by
    intro t
    cases t with
    | leaf q v e => exact hc.leaf_ne_emptyNode _ _
    | node q l r => exact hc.parent_ne_emptyNode _ _ _ _
  cases o₁ with
  | none =>
    cases o₂ with
    | none => rfl
    | some b => exact absurd hv.symm (ne b)
  | some a =>
    cases o₂ with
    | none => exact absurd hv (ne a)
    | some b =>
      simp only [childValue, childLabel] at hv hl
      simp only [Option.map_some, Option.getD_some] at b₁ b₂
      rw [Tree.azks_inj c hc a b (w₁ a rfl) (w₂ b rfl) b₁ b₂
        (ofBits_inj (Tree.lbl_length_le (w₁ a rfl) b₁) (Tree.lbl_length_le (w₂ b rfl) b₂) hl) hv]

theorem value_inj (c : Cfg) (hc : c.Lawful) (t₁ t₂ : CRoot) (h₁ : t₁.WF) (h₂ : t₂.WF)
    (hl₁ : ∀ lf ∈ t₁.leaves, lf.lbl.length ≤ 256) (hl₂ : ∀ lf ∈ t₂.leaves, lf.lbl.length ≤ 256)
    (h : t₁.value c .withLeafEpoch = t₂.value c .withLeafEpoch) : t₁ = t₂ := by
  obtain ⟨l₁, r₁⟩ := t₁
  obtain ⟨l₂, r₂⟩ := t₂
  have key : c.parentHash (childValue c .withLeafEpoch l₁) (childLabel c l₁)
        (childValue c .withLeafEpoch r₁) (childLabel c r₁) =
      c.parentHash (childValue c .withLeafEpoch l₂) (childLabel c l₂)
        (childValue c .withLeafEpoch r₂) (childLabel c r₂) → (⟨l₁, r₁⟩ : CRoot) = ⟨l₂, r₂⟩ := by
    intro h
    obtain ⟨hlv, hll, hrv, hrl⟩ := hc.parent_inj _ _ _ _ _ _ _ _ h
    have e1 := child_inj c hc (fun a h => (h₁.1 a h).2) (fun a h => (h₂.1 a h).2)
      (fun lf h => hl₁ lf (by simp only [leaves, List.mem_append]; exact Or.inl h))
      (fun lf h => hl₂ lf (by simp only [leaves, List.mem_append]; exact Or.inl h)) hlv hll
    have e2 := child_inj c hc (fun a h => (h₁.2 a h).2) (fun a h => (h₂.2 a h).2)
      (fun lf h => hl₁ lf (by simp only [leaves, List.mem_append]; exact Or.inr h))
      (fun lf h => hl₂ lf (by simp only [leaves, List.mem_append]; exact Or.inr h)) hrv hrl
    simp only at e1 e2
    rw [e1, e2]
  unfold value at h
  split at h <;> split at h
  · simp_all
  · exact absurd h.symm (hc.parent_ne_emptyRoot _ _ _ _)
  · exact absurd h (hc.parent_ne_emptyRoot _ _ _ _)
  · exact key h

end Root
end Akd.Canon
