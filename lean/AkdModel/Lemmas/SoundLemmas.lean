/-
Helper lemmas for C06 / C07 (verifier soundness at directory level).

Everything here is about the verifiers and an arbitrary well-formed tree; the honest-directory
predicate (`C06.HonestFor`) only enters in `Thm/C06.lean`.
-/
import AkdModel.Verify
import AkdModel.Spec
import AkdModel.Thm.C05
import AkdModel.Thm.C08
namespace Akd.Snd
open Akd

/-! ### 256-bit labels -/

theorem normalised_of_len_256 (l : NodeLabel) (h : l.len = 256) : l.Normalised := by
  unfold NodeLabel.Normalised NodeLabel.bits
  rw [h]
  have : l.bits256.length = 256 := NodeLabel.bits256_length l
  simp [List.take_of_length_le (Nat.le_of_eq this)]

/-- a 256-bit label is the label of its bit string -/
theorem ofBits_bits_256 (l : NodeLabel) (h : l.len = 256) : NodeLabel.ofBits l.bits = l :=
  C17.ofBits_bits l (Nat.le_of_eq h) (normalised_of_len_256 l h)

theorem bits_length_256 (l : NodeLabel) (h : l.len = 256) : l.bits.length = 256 := by
  rw [NodeLabel.bits_length, h]; rfl

/-- a 256-bit string whose label is `l` is the bit string of `l` -/
theorem eq_bits_of_ofBits {bs : BitStr} {l : NodeLabel} (hb : bs.length = 256)
    (h : NodeLabel.ofBits bs = l) : bs = l.bits := by
  rw [← h, C17.bits_ofBits bs (Nat.le_of_eq hb)]

/-! ### what the base verifiers check -/

theorem verifyLabel_true {vrf : VrfTable} {u : Bytes} {fresh : Bool} {ver : Nat} {pf : VrfProof}
    {nl : NodeLabel} (h : Verify.verifyLabel vrf u fresh ver pf nl = true) :
    pf = some ⟨u, fresh, ver⟩ ∧ vrf.get? ⟨u, fresh, ver⟩ = some nl := by
  unfold Verify.verifyLabel at h
  cases pf with
  | none => simp at h
  | some cl =>
    obtain ⟨cu, cf, cv⟩ := cl
    simp only [Bool.and_eq_true, decide_eq_true_eq] at h
    obtain ⟨⟨⟨h1, h2⟩, h3⟩, h4⟩ := h
    subst h1 h2 h3
    refine ⟨rfl, ?_⟩
    cases hg : VrfTable.get? vrf ⟨cu, cf, cv⟩ with
    | none => simp [hg] at h4
    | some l => simp [hg] at h4; rw [h4]

theorem existence_ok {c : Cfg} {vrf : VrfTable} {root : Dig} {u : Bytes} {fresh : Bool} {ver : Nat}
    {pf : VrfProof} {mp : MembershipProof}
    (h : Verify.existence c vrf root u fresh ver pf mp = .ok ()) :
    vrf.get? ⟨u, fresh, ver⟩ = some mp.label ∧ verifyMembership c root mp = true := by
  unfold Verify.existence at h
  split at h
  · cases h
  · split at h
    · cases h
    · rename_i h1 h2
      exact ⟨(verifyLabel_true (by simpa using h1)).2, by simpa using h2⟩

theorem existenceWithCommitment_ok {c : Cfg} {vrf : VrfTable} {root : Dig} {u : Bytes} {cm : Dig}
    {ep : Nat} {fresh : Bool} {ver : Nat} {pf : VrfProof} {mp : MembershipProof}
    (h : Verify.existenceWithCommitment c vrf root u cm ep fresh ver pf mp = .ok ()) :
    mp.hashVal = c.leafHash cm ep ∧
    vrf.get? ⟨u, fresh, ver⟩ = some mp.label ∧ verifyMembership c root mp = true := by
  unfold Verify.existenceWithCommitment at h
  split at h
  · cases h
  · rename_i h1
    exact ⟨(Classical.not_not.mp h1).symm, existence_ok h⟩

theorem existenceWithVal_ok {c : Cfg} {vrf : VrfTable} {root : Dig} {u : Bytes} {value : Bytes}
    {ep : Nat} {nonce : Dig} {fresh : Bool} {ver : Nat} {pf : VrfProof} {mp : MembershipProof}
    (h : Verify.existenceWithVal c vrf root u value ep nonce fresh ver pf mp = .ok ()) :
    mp.hashVal = c.leafHash (c.commit value nonce) ep ∧
    vrf.get? ⟨u, fresh, ver⟩ = some mp.label ∧ verifyMembership c root mp = true := by
  unfold Verify.existenceWithVal at h
  split at h
  · cases h
  · rename_i h1
    exact ⟨(Classical.not_not.mp h1).symm, existence_ok h⟩

theorem nonexistence_ok {c : Cfg} {vrf : VrfTable} {root : Dig} {u : Bytes} {fresh : Bool} {ver : Nat}
    {pf : VrfProof} {np : NonMembershipProof}
    (h : Verify.nonexistence c vrf root u fresh ver pf np = .ok ()) :
    vrf.get? ⟨u, fresh, ver⟩ = some np.label ∧ verifyNonMembership c root np = true := by
  unfold Verify.nonexistence at h
  split at h
  · cases h
  · split at h
    · cases h
    · rename_i h1 h2
      exact ⟨(verifyLabel_true (by simpa using h1)).2, by simpa using h2⟩

/-! ### accepted tree proofs against a well-formed tree with 256-bit leaves -/

/-- a leaf-shaped digest is only accepted for a real leaf, at the bit string of the claimed label -/
theorem leaf_of_membership (c : Cfg) (hc : c.Lawful) (t : CRoot) (h256 : C05.Leaves256 t)
    (mp : MembershipProof) (v : Dig) (e : Nat) (hv : mp.hashVal = c.leafHash v e)
    (h : verifyMembership c (t.rootHash c) mp = true) :
    ∃ lf ∈ t.leaves, lf.lbl = mp.label.bits ∧ lf.value = v ∧ lf.ep = e := by
  obtain ⟨lf, hlf, h1, h2, h3⟩ := C05.membership_sound_leaf c hc t mp v e hv h
  exact ⟨lf, hlf, eq_bits_of_ofBits (h256 lf hlf) h1, h2, h3⟩

/-- whatever digest it carries, an accepted membership proof for a 256-bit label is about a leaf -/
theorem leaf_of_membership_256 (c : Cfg) (hc : c.Lawful) (hfresh : C05.EmptyLabelFresh c)
    (t : CRoot) (hwf : t.WF) (h256 : C05.Leaves256 t)
    (mp : MembershipProof) (hl : mp.label.len = 256)
    (h : verifyMembership c (t.rootHash c) mp = true) :
    ∃ lf ∈ t.leaves, lf.lbl = mp.label.bits := by
  rcases CRoot.verifyMembership_cases c hc t mp h with
    ⟨h1, -⟩ | ⟨o, ho, ⟨-, h1, -⟩ | ⟨a, s, rfl, hs, h1, -⟩⟩
  · rw [h1] at hl; exact absurd hl (by decide)
  · exfalso
    rw [h1] at hl
    exact hfresh c.emptyLabel.bits (Nat.le_of_eq (bits_length_256 _ hl)) (ofBits_bits_256 _ hl)
  · have hch : t.Child a := ho.elim (fun h => Or.inl h.symm) (fun h => Or.inr h.symm)
    have hsub : ∀ lf ∈ s.leaves, lf ∈ t.leaves := fun lf hlf =>
      CRoot.mem_leaves.mpr ⟨a, hch, hs.leaves_subset hlf⟩
    cases s with
    | leaf q w f =>
      have hm : (⟨q, w, f⟩ : Leaf) ∈ t.leaves := hsub _ (by simp [CTree.leaves])
      exact ⟨⟨q, w, f⟩, hm, eq_bits_of_ofBits (h256 _ hm) h1.symm⟩
    | node q l r =>
      exfalso
      have hswf : (CTree.node q l r).WF := CTree.WF.sub hs (CRoot.WF.child hwf hch)
      have := CTree.WF.node_length_lt hswf (fun lf hlf => h256 lf (hsub lf hlf))
      rw [h1] at hl
      simp only [CTree.lbl, NodeLabel.ofBits_len] at hl
      omega

/-- an accepted non-membership proof for a 256-bit label: no leaf at its bit string -/
theorem no_leaf_of_nonmembership (c : Cfg) (hc : c.Lawful) (hfresh : C05.EmptyLabelFresh c)
    (t : CRoot) (hwf : t.WF) (h256 : C05.Leaves256 t)
    (np : NonMembershipProof) (hl : np.label.len = 256)
    (h : verifyNonMembership c (t.rootHash c) np = true) :
    ∀ lf ∈ t.leaves, lf.lbl ≠ np.label.bits := by
  intro lf hlf he
  apply C05.nonmembership_sound c hc hfresh t hwf h256 np h lf hlf
  rw [he, ofBits_bits_256 _ hl]

end Akd.Snd
