/-
Helper lemmas for C06 / C07 (verifier soundness at directory level).

Everything here is about the verifiers and an arbitrary well-formed tree; the honest-directory
predicate (`C06.HonestFor`) only enters in `Thm/C06.lean`.
-/
import AkdModel.Verify
import AkdModel.Spec
import AkdModel.Thm.C05
import AkdModel.Thm.C08
namespace Akd.Snd
open Akd

/-! ### 256-bit labels -/

theorem normalised_of_len_256 (l : NodeLabel) (h : l.len = 256) : l.Normalised := by
  unfold NodeLabel.Normalised NodeLabel.bits
  rw [h]
  have : l.bits256.length = 256 := NodeLabel.bits256_length l
  simp [List.take_of_length_le (Nat.le_of_eq this)]

/-- a 256-bit label is the label of its bit string -/
theorem ofBits_bits_256 (l : NodeLabel) (h : l.len = 256) : NodeLabel.ofBits l.bits = l :=
  C17.ofBits_bits l (Nat.le_of_eq h) (normalised_of_len_256 l h)

theorem bits_length_256 (l : NodeLabel) (h : l.len = 256) : l.bits.length = 256 := by
  rw [NodeLabel.bits_length, h]; rfl

/-- a 256-bit string whose label is `l` is the bit string of `l` -/
theorem eq_bits_of_ofBits {bs : BitStr} {l : NodeLabel} (hb : bs.length = 256)
    (h : NodeLabel.ofBits bs = l) : bs = l.bits := by
  rw [← h, C17.bits_ofBits bs (Nat.le_of_eq hb)]

/-! ### what the base verifiers check -/

theorem verifyLabel_true {vrf : VrfTable} {u : Bytes} {fresh : Bool} {ver : Nat} {pf : VrfProof}
    {nl : NodeLabel} (h : Verify.verifyLabel vrf u fresh ver pf nl = true) :
    pf = some ⟨u, fresh, ver⟩ ∧ vrf.get? ⟨u, fresh, ver⟩ = some nl := by
  unfold Verify.verifyLabel at h
  cases pf with
  | none => simp at h
  | some cl =>
    obtain ⟨cu, cf, cv⟩ := cl
    simp only [Bool.and_eq_true, decide_eq_true_eq] at h
    obtain ⟨⟨⟨h1, h2⟩, h3⟩, h4⟩ := h
    simp only at h1 h2 h3
    subst h1 h2 h3
    refine ⟨rfl, ?_⟩
    cases hg : VrfTable.get? vrf ⟨cu, cf, cv⟩ with
    | none => simp [hg] at h4
    | some l => simp [hg] at h4; rw [h4]

theorem existence_ok {c : Cfg} {vrf : VrfTable} {root : Dig} {u : Bytes} {fresh : Bool} {ver : Nat}
    {pf : VrfProof} {mp : MembershipProof}
    (h : Verify.existence c vrf root u fresh ver pf mp = .ok ()) :
    vrf.get? ⟨u, fresh, ver⟩ = some mp.label ∧ verifyMembership c root mp = true := by
  unfold Verify.existence at h
  split at h
  · cases h
  · split at h
    · cases h
    · rename_i h1 h2
      simp only [Bool.not_eq_true', Bool.not_eq_false] at h1 h2
      simp only [Bool.not_eq_true] at h1 h2
      exact ⟨(verifyLabel_true (by simpa using h1)).2, by simpa using h2⟩

theorem existenceWithCommitment_ok {c : Cfg} {vrf : VrfTable} {root : Dig} {u : Bytes} {cm : Dig}
    {ep : Nat} {fresh : Bool} {ver : Nat} {pf : VrfProof} {mp : MembershipProof}
    (h : Verify.existenceWithCommitment c vrf root u cm ep fresh ver pf mp = .ok ()) :
    mp.hashVal = c.leafHash cm ep ∧
    vrf.get? ⟨u, fresh, ver⟩ = some mp.label ∧ verifyMembership c root mp = true := by
  unfold Verify.existenceWithCommitment at h
  split at h
  · cases h
  · rename_i h1
    exact ⟨(Classical.not_not.mp h1).symm, existence_ok h⟩

theorem existenceWithVal_ok {c : Cfg} {vrf : VrfTable} {root : Dig} {u : Bytes} {value : Bytes}
    {ep : Nat} {nonce : Dig} {fresh : Bool} {ver : Nat} {pf : VrfProof} {mp : MembershipProof}
    (h : Verify.existenceWithVal c vrf root u value ep nonce fresh ver pf mp = .ok ()) :
    mp.hashVal = c.leafHash (c.commit value nonce) ep ∧
    vrf.get? ⟨u, fresh, ver⟩ = some mp.label ∧ verifyMembership c root mp = true := by
  unfold Verify.existenceWithVal at h
  split at h
  · cases h
  · rename_i h1
    exact ⟨(Classical.not_not.mp h1).symm, existence_ok h⟩

theorem nonexistence_ok {c : Cfg} {vrf : VrfTable} {root : Dig} {u : Bytes} {fresh : Bool} {ver : Nat}
    {pf : VrfProof} {np : NonMembershipProof}
    (h : Verify.nonexistence c vrf root u fresh ver pf np = .ok ()) :
    vrf.get? ⟨u, fresh, ver⟩ = some np.label ∧ verifyNonMembership c root np = true := by
  unfold Verify.nonexistence at h
  split at h
  · cases h
  · split at h
    · cases h
    · rename_i h1 h2
      exact ⟨(verifyLabel_true (by simpa using h1)).2, by simpa using h2⟩

end Akd.Snd
