/-
C04: why `audit_complete` needs the hypothesis "some leaf has an epoch ≥ en".

`NodeStore.batchInsert` advances `latestEpoch` on an empty batch without touching the root node.
Below: one batch (two leaves, epoch 1), then two empty batches (latest epoch 3).  The append-only
proof generated for the range (1, 2) is EMPTY — `appendOnlyHelper` sees `root.lastEpoch = 1 ≤ 1` and
returns `([], [])` for the root — and the auditor, which rebuilds the empty tree from it, rejects it
against the root hashes published at epochs 1 and 2 (both the hash of the two-leaf tree).
All other hypotheses of `audit_complete` hold for this state.  (`Dir.publish` never produces it: it
does not call `batchInsert` for a batch that yields no elements.)
-/
import AkdModel.Lemmas.AuditGenLemmas
namespace Akd.AGen
open Akd

def cexStore (c : Cfg) : Except Err (NodeStore × Azks) := do
  let (s, a) ← ({} : NodeStore).azksNew c
  let (s, a) ← s.batchInsert c .directory a
    [(NodeLabel.ofBits [false, false], .raw [1]), (NodeLabel.ofBits [true], .raw [2])]
  let (s, a) ← s.batchInsert c .directory a []
  s.batchInsert c .directory a []

/-- the trie this store represents -/
def cexTree : CRoot := CRoot.ofLeaves [⟨[false, false], .raw [1], 1⟩, ⟨[true], .raw [2], 1⟩]

/-- latest epoch 3; the proof for (1, 2) has no elements; the auditor rejects it -/
def cexCheck (c : Cfg) : Bool :=
  match cexStore c with
  | .error _ => false
  | .ok (s, a) =>
    a.latestEpoch == 3 &&
    match s.appendOnlyProof c a 1 2 with
    | .error _ => false
    | .ok π =>
      π.proofs.all (fun p => p.unchanged.isEmpty && p.inserted.isEmpty) &&
      match Auditor.verify c [hashAt c cexTree 1, hashAt c cexTree 2] π with
      | .error .audit => true
      | _ => false

theorem audit_counterexample : cexCheck Cfg.whatsappV1 = true := by decide +kernel

end Akd.AGen
