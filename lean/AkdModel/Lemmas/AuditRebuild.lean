/-
Helper lemmas for C09: the auditor's rebuild (`Auditor.rebuildRoot`) computes the canonical trie
over the node set, hashed without leaf epochs — an instance of the refinement theorem C01b.
-/
import AkdModel.Verify
import AkdModel.Thm.C01b
namespace Akd.Aud
open Akd

/-! ### leaf epochs do not matter in `noLeafEpoch` mode -/

def setEpLeaf (k : Nat) (x : Leaf) : Leaf := ⟨x.lbl, x.value, k⟩

def setEp (k : Nat) : CTree → CTree
  | .leaf q v _ => .leaf q v k
  | .node q l r => .node q (setEp k l) (setEp k r)

def setEpO (k : Nat) : Option CTree → Option CTree
  | none => none
  | some t => some (setEp k t)

def setEpR (k : Nat) (t : CRoot) : CRoot := ⟨setEpO k t.l, setEpO k t.r⟩

theorem setEp_lbl (k : Nat) (t : CTree) : (setEp k t).lbl = t.lbl := by
  cases t <;> rfl

theorem setEp_azks (c : Cfg) (k : Nat) : ∀ t : CTree, (setEp k t).azks c .noLeafEpoch = t.azks c .noLeafEpoch
  | .leaf _ _ _ => rfl
  | .node q l r => by
    simp only [setEp, CTree.azks, setEp_azks c k l, setEp_azks c k r, setEp_lbl]

theorem setEp_split (k : Nat) (p : BitStr) (a b : CTree) :
    setEp k (CTree.split p a b) = CTree.split p (setEp k a) (setEp k b) := by
  unfold CTree.split
  rw [setEp_lbl]
  split <;> rfl

theorem setEp_insert1 (k : Nat) (x : Leaf) : ∀ t : CTree,
    setEp k (t.insert1 x) = (setEp k t).insert1 (setEpLeaf k x)
  | .leaf q v e => by
    simp only [CTree.insert1, setEp, setEpLeaf]
    split
    · rw [setEp_split]; rfl
    · rfl
  | .node q l r => by
    simp only [CTree.insert1, setEp, setEpLeaf]
    split
    · split
      · rw [setEp_split]; rfl
      · rfl
    · split
      · simp only [setEp]
        rw [setEp_insert1 k x l]; rfl
      · simp only [setEp]
        rw [setEp_insert1 k x r]; rfl
      · rfl

theorem setEpR_insert1 (k : Nat) (x : Leaf) (t : CRoot) :
    setEpR k (t.insert1 x) = (setEpR k t).insert1 (setEpLeaf k x) := by
  obtain ⟨tl, tr⟩ := t
  obtain ⟨q, v, e⟩ := x
  cases q with
  | nil => rfl
  | cons b q =>
    cases b
    · cases tl with
      | none => rfl
      | some a =>
        simp only [CRoot.insert1, setEpR, setEpO, setEpLeaf]
        rw [setEp_insert1]; rfl
    · cases tr with
      | none => rfl
      | some a =>
        simp only [CRoot.insert1, setEpR, setEpO, setEpLeaf]
        rw [setEp_insert1]; rfl

theorem setEpR_foldl (k : Nat) : ∀ (xs : List Leaf) (t : CRoot),
    setEpR k (xs.foldl CRoot.insert1 t) = (xs.map (setEpLeaf k)).foldl CRoot.insert1 (setEpR k t)
  | [], _ => rfl
  | x :: xs, t => by
    simp only [List.foldl_cons, List.map_cons]
    rw [setEpR_foldl k xs, setEpR_insert1]

theorem setEpR_value (c : Cfg) (k : Nat) (t : CRoot) :
    (setEpR k t).value c .noLeafEpoch = t.value c .noLeafEpoch := by
  obtain ⟨tl, tr⟩ := t
  cases tl <;> cases tr <;>
    simp [setEpR, setEpO, CRoot.value, CRoot.childValue, CRoot.childLabel, setEp_azks, setEp_lbl]

/-- the root value in `noLeafEpoch` mode of the canonical trie does not depend on the epochs -/
theorem ofLeaves_value_ep (c : Cfg) (els : List (BitStr × Dig)) (e₁ e₂ : Nat) :
    (CRoot.ofLeaves (els.map fun x => (⟨x.1, x.2, e₁⟩ : Leaf))).value c .noLeafEpoch
      = (CRoot.ofLeaves (els.map fun x => (⟨x.1, x.2, e₂⟩ : Leaf))).value c .noLeafEpoch := by
  rw [← setEpR_value c e₂ (CRoot.ofLeaves (els.map fun x => (⟨x.1, x.2, e₁⟩ : Leaf)))]
  unfold CRoot.ofLeaves
  rw [setEpR_foldl, List.map_map]
  rfl

/-! ### the rebuild -/

theorem prefixFree_ep (els : List (BitStr × Dig)) (e₁ e₂ : Nat)
    (h : C01.PrefixFree (els.map fun x => (⟨x.1, x.2, e₁⟩ : Leaf))) :
    C01.PrefixFree (els.map fun x => (⟨x.1, x.2, e₂⟩ : Leaf)) := by
  unfold C01.PrefixFree at h ⊢
  rw [List.pairwise_map] at h ⊢
  exact h

theorem rebuild_aux (c : Cfg) (hc : c.emptyLabel.len = 0) (els : List (BitStr × Dig)) (E : Nat)
    (s₀ : NodeStore) (hr0 : C01.ReprRoot c .auditor s₀ CRoot.empty)
    (hpf : C01.PrefixFree (els.map fun x => (⟨x.1, x.2, 0⟩ : Leaf)))
    (hlen : ∀ x ∈ els, 1 ≤ x.1.length ∧ x.1.length ≤ 256) :
    ∃ s' a', s₀.batchInsert c .auditor ⟨E, 1⟩ (els.map fun x => (NodeLabel.ofBits x.1, x.2)) = .ok (s', a') ∧
      s'.rootHash c a' = .ok (c.rootHash
        ((CRoot.ofLeaves (els.map fun x => (⟨x.1, x.2, 0⟩ : Leaf))).value c .noLeafEpoch)) := by
  have hpf' : C01.PrefixFree (CRoot.empty.leaves ++ C01.newLeaves els (E + 1)) := by
    simpa [CRoot.empty, CRoot.leaves, C01.newLeaves] using prefixFree_ep els 0 (E + 1) hpf
  have hlen' : ∀ lf ∈ CRoot.empty.leaves ++ C01.newLeaves els (E + 1),
      1 ≤ lf.lbl.length ∧ lf.lbl.length ≤ 256 := by
    intro lf h
    simp only [CRoot.empty, CRoot.leaves, Option.map_none, Option.getD_none, List.append_nil,
      List.nil_append, C01.newLeaves, List.mem_map] at h
    obtain ⟨x, hx, rfl⟩ := h
    exact hlen x hx
  have hep : ∀ lf ∈ CRoot.empty.leaves, 1 ≤ lf.ep ∧ lf.ep ≤ (⟨E, 1⟩ : Azks).latestEpoch := by
    intro lf h; simp [CRoot.empty, CRoot.leaves] at h
  obtain ⟨s', n, hrun, hrep'⟩ := C01.batchInsert_refines c hc .auditor s₀ ⟨E, 1⟩ CRoot.empty hr0
    Canon.Root.empty_wf hep els hpf' hlen'
  have hrh := C01.rootHash_of_reprRoot c .auditor s' _ (E + 1) n hrep'
    (C01.foldl_ep_le CRoot.empty Canon.Root.empty_wf ⟨E, 1⟩ hep els hpf' hlen')
  refine ⟨s', _, hrun, ?_⟩
  rw [hrh]
  have := ofLeaves_value_ep c els (E + 1) 0
  simp only [CRoot.ofLeaves] at this
  simp only [C01.newLeaves, C01.hashMode, this, CRoot.ofLeaves]

theorem rebuildRoot_canonical (c : Cfg) (hc : c.emptyLabel.len = 0) (els : List (BitStr × Dig))
    (latest : Option Nat)
    (hpf : C01.PrefixFree (els.map fun x => (⟨x.1, x.2, 0⟩ : Leaf)))
    (hlen : ∀ x ∈ els, 1 ≤ x.1.length ∧ x.1.length ≤ 256) :
    Auditor.rebuildRoot c (els.map fun x => ⟨NodeLabel.ofBits x.1, x.2⟩) latest
      = .ok (c.rootHash ((CRoot.ofLeaves (els.map fun x => (⟨x.1, x.2, 0⟩ : Leaf))).value c .noLeafEpoch)) := by
  obtain ⟨s₀, h0, hr0⟩ := C01.azksNew_repr c .auditor ({} : NodeStore)
  unfold Auditor.rebuildRoot
  simp only [h0, List.map_map, Function.comp_def]
  cases latest with
  | none =>
    obtain ⟨s', a', hrun, hrh⟩ := rebuild_aux c hc els 0 s₀ hr0 hpf hlen
    simp only [hrun, hrh]
  | some e =>
    obtain ⟨s', a', hrun, hrh⟩ := rebuild_aux c hc els e s₀ hr0 hpf hlen
    simp only [hrun, hrh]

end Akd.Aud
