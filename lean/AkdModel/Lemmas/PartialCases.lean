/-
C11: the case analysis of Phase 1 of `insertRec` and the induction on fuel
(`Lemmas/InsertCases.lean` replayed with the transaction invariant).
-/
import AkdModel.Lemmas.PartialMain
namespace Akd.Part
open Akd NodeLabel NodeStore
open Akd.Canon (Incomp)
open Akd.Ins

/-- the conclusion of `SpecP` -/
def ConclP (D : NodeMap) (K : BitStr → Prop) (c : Cfg) (m : InsertMode) (epoch fuel : Nat) (s : NodeStore)
    (pre : BitStr) (ot : Option CTree) (set : ElementSet Dig) (bs : List (BitStr × Dig)) : Prop :=
  ∃ s' n isNew num t',
    insertRec c m epoch fuel s (olbl ot) set = .ok (s', n, isNew, num) ∧
    NodeIs c m t' n ∧ RepKids c m s' t' ∧ t'.WF ∧ pre <+: t'.lbl ∧
    t'.leaves.Perm (oleaves ot ++ newLeaves bs epoch) ∧ Frame pre s s' ∧
    TI D epoch K s' ∧ (isNew = true → ¬ K t'.lbl)

theorem gk_none_mono {K : BitStr → Prop} {pre pre' : BitStr} (h : GK K pre none) (hp : pre <+: pre') :
    GK K pre' none := fun q hq hpq => h q hq (hp.trans hpq)

/-- `Ins.conclude`, which also tells the label of the assembled node -/
theorem concludeP {c : Cfg} {m : InsertMode} {epoch : Nat} {pre p : BitStr} {s s' : NodeStore}
    {cur' : TreeNode} {ch' : Bool → Option CTree} {old : List Leaf} {bs : List (BitStr × Dig)}
    (hst : St c m epoch p .interior s' cur' ch' True)
    (hhash : cur'.hash = c.parentHash (CRoot.childValue c (hm m) (ch' false)) (CRoot.childLabel c (ch' false))
        (CRoot.childValue c (hm m) (ch' true)) (CRoot.childLabel c (ch' true)))
    (hperm : (oleaves (ch' false) ++ oleaves (ch' true)).Perm (old ++ newLeaves bs epoch)) (hne : bs ≠ [])
    (hsome : ∀ d, ch' d ≠ none) (hpre : pre <+: p) (hfr : Frame pre s s') :
    ∃ t', NodeIs c m t' cur' ∧ RepKids c m s' t' ∧ t'.WF ∧ pre <+: t'.lbl ∧
      t'.leaves.Perm (old ++ newLeaves bs epoch) ∧ Frame pre s s' ∧ t'.lbl = p := by
  obtain ⟨L, hL⟩ : ∃ L, ch' false = some L := by
    cases h : ch' false with
    | none => exact absurd h (hsome false)
    | some L => exact ⟨L, rfl⟩
  obtain ⟨R, hR⟩ : ∃ R, ch' true = some R := by
    cases h : ch' true with
    | none => exact absurd h (hsome true)
    | some R => exact ⟨R, rfl⟩
  have hperm' : (L.leaves ++ R.leaves).Perm (old ++ newLeaves bs epoch) := by
    simpa [oleaves, hL, hR] using hperm
  obtain ⟨b0, hb0⟩ := List.exists_mem_of_ne_nil bs hne
  have hnew : (⟨b0.1, b0.2, epoch⟩ : Leaf) ∈ L.leaves ++ R.leaves :=
    hperm'.mem_iff.2 (List.mem_append_right _ (List.mem_map_of_mem hb0))
  have hle : ∀ lf ∈ L.leaves ++ R.leaves, lf.ep ≤ epoch := by
    intro lf h
    rcases List.mem_append.1 h with h | h
    · exact (hst.leafok false lf (by simp [oleaves, hL, h])).2.1
    · exact (hst.leafok true lf (by simp [oleaves, hR, h])).2.1
  have hmax : maxEp (.node p L R) = epoch := maxEp_eq (.node p L R) epoch hle _ hnew rfl
  obtain ⟨kl1, kl2, kl3⟩ := hst.kids false L hL
  obtain ⟨kr1, kr2, kr3⟩ := hst.kids true R hR
  refine ⟨.node p L R, ?_, ⟨kl1, kr1⟩, ⟨kl3, kr3, kl2, kr2⟩, hpre, hperm', hfr, rfl⟩
  refine ⟨hst.label, hst.type, ?_, ?_, ?_, ?_, ?_⟩
  · rw [hst.left, hL]; rfl
  · rw [hst.right, hR]; rfl
  · rw [hhash, hL, hR]; rfl
  · rw [hst.last_eq trivial, hmax]
  · rw [hst.min_eq trivial, hL, hR]; rfl

/-- empty position, one element: a new leaf -/
theorem case_leafP {D : NodeMap} {K : BitStr → Prop}
    (c : Cfg) (m : InsertMode) (epoch fuel : Nat) (s : NodeStore) (pre : BitStr)
    (set : ElementSet Dig) (b : BitStr × Dig) (hok : SetOK set) (hel : set.elems = [b].map enc)
    (hb : pre <+: b.1 ∧ b.1.length ≤ 256) (hti : TI D epoch K s) (hgk : GK K pre none) :
    ConclP D K c m epoch (fuel + 1) s pre none set [b] := by
  obtain ⟨_, elL, _, elR⟩ := partition_spec set [b] b.1 hok hel
    (by intro x hx; simp at hx; subst hx; exact ⟨List.prefix_refl _, hb.2⟩) hb.2
  have hgl : [b].filter (goes b.1 false) = [] := by
    have := goes_self b.1 false b.2; simp_all
  have hgr : [b].filter (goes b.1 true) = [] := by
    have := goes_self b.1 true b.2; simp_all
  rw [hgl] at elL
  rw [hgr] at elR
  refine ⟨s, TreeNode.newLeaf c (ofBits b.1) b.2 epoch, true, 1, .leaf b.1 b.2 epoch, ?_,
    ⟨rfl, rfl, rfl, rfl, rfl, rfl, rfl⟩, trivial, trivial, hb.1, by simp [CTree.leaves, oleaves, newLeaves],
    Frame.refl _ _, hti, fun _ => gk_none_fresh hgk hb.1⟩
  rw [insertRec_succ]
  have h1 : phase1 c epoch s (olbl none) set = .ok (s, TreeNode.newLeaf c (ofBits b.1) b.2 epoch, true, 1) := by
    unfold phase1
    rw [hel]; rfl
  rw [h1]
  simp only
  unfold phase23
  have hl : (TreeNode.newLeaf c (ofBits b.1) b.2 epoch).label = ofBits b.1 := rfl
  rw [hl, side_empty _ _ _ _ _ _ elL]
  simp only
  rw [side_empty _ _ _ _ _ _ elR]
  simp only
  unfold updateHash
  rw [if_pos (show (TreeNode.newLeaf c (ofBits b.1) b.2 epoch).nodeType = .leaf from rfl)]

/-- empty position, at least two elements: a new interior node at the common prefix -/
theorem case_interiorP {D : NodeMap} {K : BitStr → Prop} (hK : ∀ q, K q → q.length ≤ 256)
    (c : Cfg) (m : InsertMode) (epoch fuel : Nat) (hc : c.emptyLabel.len = 0)
    (hep : 1 ≤ epoch) (hD : DbAt D epoch K) (hspec : SpecP D K c m epoch fuel) (s : NodeStore) (pre : BitStr)
    (set : ElementSet Dig) (bs : List (BitStr × Dig))
    (hfuel : 257 ≤ fuel + 1 + pre.length) (hpre1 : 1 ≤ pre.length)
    (hok : SetOK set) (hel : set.elems = bs.map enc) (h2 : 2 ≤ bs.length)
    (hbs : ∀ b ∈ bs, pre <+: b.1 ∧ b.1.length ≤ 256)
    (hpf : (newLeaves bs epoch).Pairwise Incomp) (hti : TI D epoch K s) (hgk : GK K pre none) :
    ConclP D K c m epoch (fuel + 1) s pre none set bs := by
  have hne : bs ≠ [] := by intro h; rw [h] at h2; simp at h2
  have hlcp := setLcp_spec c.emptyLabel hc set bs hok hel hne (fun b hb => by
    have := (hbs b hb).1.length_le
    exact ⟨by omega, (hbs b hb).2⟩)
  have hpl := lcpAll_prefix bs hne
  have hprep : pre <+: lcpAll bs := (prefix_lcpAll_iff bs hne _).2 (fun b hb => (hbs b hb).1)
  -- every element is strictly longer than the common prefix
  have hstrict : ∀ b ∈ bs, lcpAll bs <+: b.1 ∧ (lcpAll bs).length < b.1.length := by
    intro b hb
    refine ⟨hpl b hb, ?_⟩
    apply Classical.byContradiction
    intro hnlt
    have heq : lcpAll bs = b.1 := (hpl b hb).eq_of_length_le (by omega)
    obtain ⟨a', ha', hna⟩ := exists_other _ hpf (by simpa [newLeaves] using h2) ⟨b.1, b.2, epoch⟩
      (List.mem_map_of_mem hb)
    obtain ⟨b', hb', rfl⟩ := mem_newLeaves ha'
    exact hna (heq ▸ hpl b' hb')
  have hboth : ∀ d, bs.filter (goes (lcpAll bs) d) ≠ [] := by
    intro d
    apply side_nonempty hstrict d
    intro hall
    have := ((prefix_lcpAll_iff bs hne _).2 hall).length_le
    simp at this
    omega
  have h1 : phase1 c epoch s (olbl none) set
      = .ok (s, TreeNode.newInterior c (ofBits (lcpAll bs)) epoch, true, 1) := by
    unfold phase1
    rw [hel, hlcp]
    obtain ⟨b1, b2, rest, rfl⟩ : ∃ b1 b2 rest, bs = b1 :: b2 :: rest := by
      cases bs with
      | nil => simp at h2
      | cons b1 r =>
        cases r with
        | nil => simp at h2
        | cons b2 rest => exact ⟨b1, b2, rest, rfl⟩
    rfl
  have hst : St c m epoch (lcpAll bs) .interior s (TreeNode.newInterior c (ofBits (lcpAll bs)) epoch)
      (fun _ => none) False :=
    ⟨rfl, rfl, rfl, rfl, Nat.le_refl _, fun h => h.elim, .inr ⟨rfl, rfl, rfl⟩, fun h => h.elim,
      fun _ _ h => by simp at h, fun _ lf h => by simp [oleaves] at h⟩
  obtain ⟨s', cur', num', ch', hrun, hst', hhash, hperm, hnone, hfr, hti'⟩ :=
    finishP hK c m epoch fuel hep hD hspec hst (by decide)
      (by have := hprep.length_le; omega) true 1 set bs hok hel hne
      (fun b hb => ⟨(hstrict b hb).1, (hstrict b hb).2, (hbs b hb).2⟩)
      (by simpa [oleaves] using hpf) hti
      (fun d => gk_none_mono hgk (hprep.trans (List.prefix_append _ _)))
  obtain ⟨t', k1, k2, k3, k4, k5, k6⟩ := conclude (s := s) (old := []) hst' hhash
    (by simpa [oleaves] using hperm) hne
    (fun d h => hboth d (hnone d h).2) hprep (hfr.frame hprep)
  refine ⟨s', cur', true, num', t', ?_, k1, k2, k3, k4, by simpa [oleaves] using k5, k6, hti',
    fun _ => gk_none_fresh hgk k4⟩
  rw [insertRec_succ, h1]
  exact hrun

/-- existing sub-tree whose label is not a prefix of all elements: decompress (case 1a) -/
theorem case_decompressP {D : NodeMap} {K : BitStr → Prop} (hK : ∀ q, K q → q.length ≤ 256)
    (c : Cfg) (m : InsertMode) (epoch fuel : Nat) (hc : c.emptyLabel.len = 0)
    (hep : 1 ≤ epoch) (hD : DbAt D epoch K) (hspec : SpecP D K c m epoch fuel) (s : NodeStore) (pre : BitStr)
    (t : CTree) (set : ElementSet Dig) (bs : List (BitStr × Dig))
    (hfuel : 257 ≤ fuel + 1 + pre.length) (hpre1 : 1 ≤ pre.length)
    (hok : SetOK set) (hel : set.elems = bs.map enc) (hne : bs ≠ [])
    (hbs : ∀ b ∈ bs, pre <+: b.1 ∧ b.1.length ≤ 256)
    (hrep : Rep c m s t) (hwf : t.WF) (hpt : pre <+: t.lbl) (hlok : ∀ lf ∈ t.leaves, LeafOK epoch lf)
    (hpf : (t.leaves ++ newLeaves bs epoch).Pairwise Incomp)
    (hlt : (BitStr.commonPrefix t.lbl (lcpAll bs)).length < t.lbl.length)
    (hti : TI D epoch K s) (hgk : GK K pre (some t)) :
    ConclP D K c m epoch (fuel + 1) s pre (some t) set bs := by
  obtain ⟨⟨r, hg, hn⟩, hkids⟩ := (rep_iff c m s t).1 hrep
  have hlen : ∀ lf ∈ t.leaves, lf.lbl.length ≤ 256 := fun lf h => (hlok lf h).2.2
  have hq : t.lbl.length ≤ 256 := lbl_length_le t hwf hlen
  have hmaxle : maxEp t ≤ epoch := maxEp_le t epoch (fun lf h => (hlok lf h).2.1)
  have hgn := getNode_latest s _ r epoch hg (by rw [nodeIs_lastEpoch hn]; exact hmaxle)
  obtain ⟨ex, hex⟩ : ∃ ex, r.latest = ex := ⟨_, rfl⟩
  rw [hex] at hn hgn
  have hlcp := setLcp_spec c.emptyLabel hc set bs hok hel hne (fun b hb => by
    have := (hbs b hb).1.length_le
    exact ⟨by omega, (hbs b hb).2⟩)
  have hl256 := lcpAll_length_le bs hne (fun b hb => (hbs b hb).2)
  have hpl := lcpAll_prefix bs hne
  have hprel : pre <+: lcpAll bs := (prefix_lcpAll_iff bs hne _).2 (fun b hb => (hbs b hb).1)
  generalize hpdef : BitStr.commonPrefix t.lbl (lcpAll bs) = p at hlt
  have hp_t : p <+: t.lbl := hpdef ▸ Canon.commonPrefix_prefix_left _ _
  have hp_l : p <+: lcpAll bs := hpdef ▸ Canon.commonPrefix_prefix_right _ _
  have hprep : pre <+: p := hpdef ▸ Canon.prefix_commonPrefix _ _ _ hpt hprel
  -- the direction of the existing sub-tree
  obtain ⟨d0, hd0⟩ : ∃ d0, (p ++ [d0]) <+: t.lbl :=
    ⟨t.lbl[p.length], Canon.snoc_prefix_of_getElem? hp_t (List.getElem?_eq_getElem hlt)⟩
  obtain ⟨lf0, hlf0⟩ := Canon.Tree.exists_mem_leaves t
  have hstrict : ∀ b ∈ bs, p <+: b.1 ∧ p.length < b.1.length := by
    intro b hb
    refine ⟨hp_l.trans (hpl b hb), ?_⟩
    apply Classical.byContradiction
    intro hnlt
    have heq : p = b.1 := (hp_l.trans (hpl b hb)).eq_of_length_le (by omega)
    exact (incomp_old_new hpf lf0 hlf0 b hb).2 (heq ▸ hp_t.trans (Canon.Tree.lbl_prefix hwf lf0 hlf0))
  have hother : bs.filter (goes p (!d0)) ≠ [] := by
    apply side_nonempty hstrict
    rw [Bool.not_not]
    intro hall
    have h1 : (p ++ [d0]) <+: lcpAll bs := (prefix_lcpAll_iff bs hne _).2 hall
    have h2 := Canon.prefix_commonPrefix _ _ _ hd0 h1
    rw [hpdef] at h2
    have := h2.length_le
    simp at this
    omega
  -- setChild, writeNode
  obtain ⟨cur2, hsc, c1, c2, c3, c4, c5, c6⟩ :=
    setChild_spec (TreeNode.newInterior c (ofBits p) epoch) ex p t.lbl d0 rfl (nodeIs_label hn) hq hd0
  obtain ⟨pv, hw⟩ := writeNode_ok s { ex with parent := (TreeNode.newInterior c (ofBits p) epoch).label } false
  obtain ⟨s1, hs1⟩ : ∃ s1, s1 = s.setRec ⟨ex.label,
      { ex with parent := (TreeNode.newInterior c (ofBits p) epoch).label }, pv⟩ := ⟨_, rfl⟩
  have hw' : s.writeNode { ex with parent := (TreeNode.newInterior c (ofBits p) epoch).label } false
      = .ok s1 := hs1 ▸ hw
  -- the rewrite of the pushed-down node keeps its as-of-`epoch - 1` view
  have hti1 : TI D epoch K s1 :=
    ti_write_same hD hep hti (r0 := r) ((nodeIs_label hn).symm ▸ hg)
      ((eraseParent_parent ex _).trans (congrArg C13.eraseParent hex.symm))
      ((nodeIs_lastEpoch hn).symm ▸ hmaxle) hw'
  have h1 : phase1 c epoch s (olbl (some t)) set = .ok (s1, cur2, true, 1) := by
    unfold phase1
    simp only [olbl, Option.map_some]
    rw [hgn]
    simp only
    rw [hlcp, lcp_ofBits c.emptyLabel hc _ _ hq hl256, hpdef]
    rw [if_pos (show (ofBits p).len < (ofBits t.lbl).len from hlt), hsc]
    simp only
    rw [hw']
  have hfr1 : Frame pre s s1 := hs1 ▸ frame_setRec pre t.lbl hq hpt _ _ (nodeIs_label hn)
  have hrep1 : Rep c m s1 t :=
    hs1 ▸ rep_write t hwf hlen { ex with parent := (TreeNode.newInterior c (ofBits p) epoch).label }
      (nodeIs_parent hn _) hkids pv
  have hminle : minEp t ≤ epoch := by
    obtain ⟨lf, h1, h2⟩ := minEp_mem t
    rw [← h2]; exact (hlok lf h1).2.1
  have hst : St c m epoch p .interior s1 cur2 (fun b => if b = d0 then some t else none) False := by
    refine ⟨c1, c2, ?_, ?_, ?_, fun h => h.elim, .inl ?_, fun h => h.elim, ?_, ?_⟩
    · rw [c3]; cases d0 <;> simp [olbl, nodeIs_label hn, TreeNode.newInterior]
    · rw [c4]; cases d0 <;> simp [olbl, nodeIs_label hn, TreeNode.newInterior]
    · rw [c5, nodeIs_lastEpoch hn]
      show max epoch (maxEp t) ≤ epoch
      omega
    · rw [c6, nodeIs_minDesc hn]
      show (if epoch = 0 then minEp t else min epoch (minEp t)) = _
      rw [if_neg (by omega)]
      cases d0 <;> simp [oMin] <;> omega
    · intro b t' hbt
      by_cases hbd : b = d0
      · simp only [hbd, if_true, Option.some.injEq] at hbt
        subst hbt; subst hbd
        exact ⟨hrep1, hwf, hd0⟩
      · simp [hbd] at hbt
    · intro b lf hlf
      by_cases hbd : b = d0
      · simp only [hbd, if_true, oleaves, Option.map_some, Option.getD_some] at hlf
        exact hlok lf hlf
      · simp [hbd, oleaves] at hlf
  have holv : oleaves ((fun b => if b = d0 then some t else none) false)
      ++ oleaves ((fun b => if b = d0 then some t else none) true) = t.leaves := by
    cases d0 <;> simp [oleaves]
  obtain ⟨hfreshp, hgk'⟩ := gk_above hgk hwf hprep hd0
  obtain ⟨s', cur', num', ch', hrun, hst', hhash, hperm, hnone, hfr, hti'⟩ :=
    finishP hK c m epoch fuel hep hD hspec hst (by decide)
      (by have := hprep.length_le; omega) true 1 set bs hok hel hne
      (fun b hb => ⟨(hstrict b hb).1, (hstrict b hb).2, (hbs b hb).2⟩)
      (by rw [holv]; exact hpf) hti1 hgk'
  rw [holv] at hperm
  have hsome : ∀ d, ch' d ≠ none := by
    intro d h
    by_cases hd : d = d0
    · have := (hnone d h).1
      simp [hd] at this
    · have hd' : d = !d0 := by cases d <;> cases d0 <;> simp_all
      exact hother (hd' ▸ (hnone d h).2)
  obtain ⟨t', k1, k2, k3, k4, k5, k6, k7⟩ := concludeP (s := s) hst' hhash hperm hne hsome hprep
    (hfr1.trans (hfr.frame hprep))
  refine ⟨s', cur', true, num', t', ?_, k1, k2, k3, k4, k5, k6, hti', fun _ => k7 ▸ hfreshp⟩
  rw [insertRec_succ, h1]
  exact hrun

/-- existing sub-tree whose label is a prefix of all elements: descend (cases 2/3) -/
theorem case_descendP {D : NodeMap} {K : BitStr → Prop} (hK : ∀ q, K q → q.length ≤ 256)
    (c : Cfg) (m : InsertMode) (epoch fuel : Nat) (hc : c.emptyLabel.len = 0)
    (hep : 1 ≤ epoch) (hD : DbAt D epoch K) (hspec : SpecP D K c m epoch fuel) (s : NodeStore) (pre : BitStr)
    (t : CTree) (set : ElementSet Dig) (bs : List (BitStr × Dig))
    (hfuel : 257 ≤ fuel + 1 + pre.length) (hpre1 : 1 ≤ pre.length)
    (hok : SetOK set) (hel : set.elems = bs.map enc) (hne : bs ≠ [])
    (hbs : ∀ b ∈ bs, pre <+: b.1 ∧ b.1.length ≤ 256)
    (hrep : Rep c m s t) (hwf : t.WF) (hpt : pre <+: t.lbl) (hlok : ∀ lf ∈ t.leaves, LeafOK epoch lf)
    (hpf : (t.leaves ++ newLeaves bs epoch).Pairwise Incomp)
    (hge : ¬ (BitStr.commonPrefix t.lbl (lcpAll bs)).length < t.lbl.length)
    (hti : TI D epoch K s) (hgk : GK K pre (some t)) :
    ConclP D K c m epoch (fuel + 1) s pre (some t) set bs := by
  obtain ⟨⟨r, hg, hn⟩, hkids⟩ := (rep_iff c m s t).1 hrep
  have hlen : ∀ lf ∈ t.leaves, lf.lbl.length ≤ 256 := fun lf h => (hlok lf h).2.2
  have hq : t.lbl.length ≤ 256 := lbl_length_le t hwf hlen
  have hmaxle : maxEp t ≤ epoch := maxEp_le t epoch (fun lf h => (hlok lf h).2.1)
  have hgn := getNode_latest s _ r epoch hg (by rw [nodeIs_lastEpoch hn]; exact hmaxle)
  have hlcp := setLcp_spec c.emptyLabel hc set bs hok hel hne (fun b hb => by
    have := (hbs b hb).1.length_le
    exact ⟨by omega, (hbs b hb).2⟩)
  have hl256 := lcpAll_length_le bs hne (fun b hb => (hbs b hb).2)
  have hpl := lcpAll_prefix bs hne
  have hcp : BitStr.commonPrefix t.lbl (lcpAll bs) = t.lbl := Canon.commonPrefix_eq_left_of_length_ge hge
  have htl : t.lbl <+: lcpAll bs := hcp ▸ Canon.commonPrefix_prefix_right t.lbl (lcpAll bs)
  have hall : ∀ b ∈ bs, t.lbl <+: b.1 := fun b hb => htl.trans (hpl b hb)
  obtain ⟨b0, hb0⟩ := List.exists_mem_of_ne_nil bs hne
  have h1 : phase1 c epoch s (olbl (some t)) set = .ok (s, r.latest, false, 0) := by
    unfold phase1
    simp only [olbl, Option.map_some]
    rw [hgn]
    simp only
    rw [hlcp, lcp_ofBits c.emptyLabel hc _ _ hq hl256, hcp]
    rw [if_neg (Nat.lt_irrefl _)]
  cases t with
  | leaf q v e =>
    exact absurd (hall b0 hb0) (incomp_old_new hpf ⟨q, v, e⟩ (by simp [CTree.leaves]) b0 hb0).1
  | node q l r' =>
    simp only [CTree.lbl] at hall hpt hq hcp htl
    have hstrict : ∀ b ∈ bs, q <+: b.1 ∧ q.length < b.1.length := by
      intro b hb
      refine ⟨hall b hb, ?_⟩
      apply Classical.byContradiction
      intro hnlt
      have heq : q = b.1 := (hall b hb).eq_of_length_le (by omega)
      obtain ⟨lf0, hlf0⟩ := Canon.Tree.exists_mem_leaves (.node q l r')
      exact (incomp_old_new hpf lf0 hlf0 b hb).2 (heq ▸ Canon.Tree.lbl_prefix hwf lf0 hlf0)
    have hgk' : ∀ d, GK K (q ++ [d]) ((fun b => if b then some r' else some l) d) := by
      intro d
      have := gk_children hgk hwf hpt d
      cases d
      · simpa using this
      · simpa using this
    obtain ⟨n1, n2, n3, n4, n5, n6, n7⟩ := hn
    obtain ⟨pl, pr, wl, wr⟩ := hwf
    have hst : St c m epoch q .interior s r.latest (fun b => if b then some r' else some l) False := by
      refine ⟨n1, n2, by simpa [olbl] using n3, by simpa [olbl] using n4, ?_, fun h => h.elim, .inl ?_,
        fun h => h.elim, ?_, ?_⟩
      · rw [n6]; exact hmaxle
      · rw [n7]; rfl
      · intro b t' hbt
        cases b
        · simp only [Bool.false_eq_true, if_false, Option.some.injEq] at hbt
          subst hbt
          exact ⟨hkids.1, wl, pl⟩
        · simp only [if_true, Option.some.injEq] at hbt
          subst hbt
          exact ⟨hkids.2, wr, pr⟩
      · intro b lf hlf
        apply hlok
        cases b
        · simp only [Bool.false_eq_true, if_false, oleaves, Option.map_some, Option.getD_some] at hlf
          simp [CTree.leaves, hlf]
        · simp only [if_true, oleaves, Option.map_some, Option.getD_some] at hlf
          simp [CTree.leaves, hlf]
    obtain ⟨s', cur', num', ch', hrun, hst', hhash, hperm, hnone, hfr, hti'⟩ :=
      finishP hK c m epoch fuel hep hD hspec hst (by decide)
        (by have := hpt.length_le; omega) false 0 set bs hok hel hne
        (fun b hb => ⟨(hstrict b hb).1, (hstrict b hb).2, (hbs b hb).2⟩)
        (by simpa [oleaves, CTree.leaves] using hpf) hti hgk'
    have hsome : ∀ d, ch' d ≠ none := by
      intro d h
      have := (hnone d h).1
      cases d <;> simp at this
    obtain ⟨t', k1, k2, k3, k4, k5, k6⟩ := conclude (s := s) (old := (CTree.node q l r').leaves) hst' hhash
      (by simpa [oleaves, CTree.leaves] using hperm) hne hsome hpt (hfr.frame hpt)
    refine ⟨s', cur', false, num', t', ?_, k1, k2, k3, k4, by simpa [oleaves] using k5, k6, hti',
      fun h => by cases h⟩
    rw [insertRec_succ, h1]
    exact hrun

/-- **the main lemma**, for every amount of fuel -/
theorem spec_allP {D : NodeMap} {K : BitStr → Prop} (hK : ∀ q, K q → q.length ≤ 256)
    (c : Cfg) (m : InsertMode) (epoch : Nat) (hc : c.emptyLabel.len = 0) (hep : 1 ≤ epoch)
    (hD : DbAt D epoch K) : ∀ fuel, SpecP D K c m epoch fuel
  | 0 => by
    intro s pre ot set bs hfuel _ _ _ hne hbs _ _ _ _ _
    obtain ⟨b, hb⟩ := List.exists_mem_of_ne_nil bs hne
    have := (hbs b hb).1.length_le
    have := (hbs b hb).2
    omega
  | fuel + 1 => by
    have ih := spec_allP hK c m epoch hc hep hD fuel
    intro s pre ot set bs hfuel hpre1 hok hel hne hbs hot hlok hpf hti hgk
    cases ot with
    | none =>
      cases bs with
      | nil => exact absurd rfl hne
      | cons b rest =>
        cases rest with
        | nil => exact case_leafP c m epoch fuel s pre set b hok hel (hbs b (by simp)) hti hgk
        | cons b2 rest =>
          exact case_interiorP hK c m epoch fuel hc hep hD ih s pre set _ (by omega) hpre1 hok hel
            (by simp) hbs (by simpa [oleaves] using hpf) hti hgk
    | some t =>
      obtain ⟨hrep, hwf, hpt⟩ := hot t rfl
      have hlok' : ∀ lf ∈ t.leaves, LeafOK epoch lf := by simpa [oleaves] using hlok
      have hpf' : (t.leaves ++ newLeaves bs epoch).Pairwise Incomp := by simpa [oleaves] using hpf
      by_cases hlt : (BitStr.commonPrefix t.lbl (lcpAll bs)).length < t.lbl.length
      · exact case_decompressP hK c m epoch fuel hc hep hD ih s pre t set bs (by omega) hpre1 hok hel hne hbs
          hrep hwf hpt hlok' hpf' hlt hti hgk
      · exact case_descendP hK c m epoch fuel hc hep hD ih s pre t set bs (by omega) hpre1 hok hel hne hbs
          hrep hwf hpt hlok' hpf' hlt hti hgk

end Akd.Part
