/-
C19 helper lemmas: varint writer/reader round trip (bit-level facts, `readVarint64`/`readVarint32` on `writeVarint`).
-/
import AkdModel.Proto
namespace Akd.Proto

theorem low7_or_high (n : Nat) : (n &&& 127) ||| ((n >>> 7) <<< 7) = n := by
  apply Nat.eq_of_testBit_eq
  intro j
  have h127 : (127 : Nat) = 2 ^ 7 - 1 := by decide
  rw [h127]
  simp only [Nat.testBit_or, Nat.testBit_and, Nat.testBit_two_pow_sub_one, Nat.testBit_shiftLeft,
    Nat.testBit_shiftRight]
  by_cases hj : j < 7
  · have : ¬ (j ≥ 7) := by omega
    simp [hj, this]
  · have h2 : j ≥ 7 := by omega
    have : 7 + (j - 7) = j := by omega
    simp [hj, h2, this]

theorem acc_step (acc n i : Nat) :
    acc ||| (n &&& 127) <<< (7 * i) ||| (n >>> 7) <<< (7 * (i + 1)) = acc ||| n <<< (7 * i) := by
  have : 7 * (i + 1) = 7 + 7 * i := by omega
  rw [this, Nat.shiftLeft_add, Nat.or_assoc, ← Nat.shiftLeft_or_distrib, low7_or_high]

theorem and127_lt (n : Nat) : n &&& 127 < 128 := by
  have : n &&& 127 ≤ 127 := Nat.and_le_right
  omega

theorem low7_or_128 (n : Nat) : (n &&& 127) ||| 128 = (n &&& 127) + 128 := by
  have h := and127_lt n
  have : (n &&& 127) ||| 128 = 128 ||| (n &&& 127) := Nat.or_comm _ _
  rw [this]
  have h2 := Nat.two_pow_add_eq_or_of_lt (i := 7) (b := n &&& 127) h
  rw [show (2:Nat) ^ 7 = 128 from rfl] at h2
  have h3 := h2 1
  rw [Nat.mul_one] at h3
  omega

theorem contByte_toNat (n : Nat) : (UInt8.ofNat ((n &&& 127) ||| 128)).toNat = (n &&& 127) + 128 := by
  rw [low7_or_128]
  have := and127_lt n
  rw [UInt8.toNat_ofNat']
  omega

theorem contByte_low (n : Nat) : (UInt8.ofNat ((n &&& 127) ||| 128)).toNat &&& 127 = n &&& 127 := by
  rw [contByte_toNat, ← low7_or_128]
  apply Nat.eq_of_testBit_eq
  intro j
  have h127 : (127 : Nat) = 2 ^ 7 - 1 := by decide
  have h128 : (128 : Nat) = 2 ^ 7 := by decide
  rw [h127, h128]
  simp only [Nat.testBit_or, Nat.testBit_and, Nat.testBit_two_pow_sub_one, Nat.testBit_two_pow]
  by_cases hj : j < 7
  · have : ¬ (7 = j) := by omega
    simp [hj, this]
  · simp [hj]

theorem lastByte_toNat (n : Nat) (h : n < 128) : (UInt8.ofNat n).toNat = n := by
  rw [UInt8.toNat_ofNat']
  omega

theorem and127_of_lt (n : Nat) (h : n < 128) : n &&& 127 = n := by
  have h127 : (127 : Nat) = 2 ^ 7 - 1 := by decide
  rw [h127, Nat.and_two_pow_sub_one_eq_mod]
  exact Nat.mod_eq_of_lt h


theorem shr7_lt (n k : Nat) (hk : 7 ≤ k) (h : n < 2 ^ k) : n >>> 7 < 2 ^ (k - 7) := by
  rw [Nat.shiftRight_eq_div_pow]
  apply (Nat.div_lt_iff_lt_mul (by decide)).mpr
  rw [← Nat.pow_add]
  have : k - 7 + 7 = k := by omega
  rwa [this]

theorem writeVarint_go_succ (n fw : Nat) :
    writeVarint.go n (fw + 1) =
      if n < 128 then [UInt8.ofNat n] else UInt8.ofNat ((n &&& 127) ||| 128) :: writeVarint.go (n >>> 7) fw := rfl

theorem read64_go (rest : Bytes) (fuel : Nat) : ∀ i acc n fw, i + fuel = 10 → 1 ≤ fuel → fuel ≤ fw →
    n < 2 ^ (64 - 7 * i) →
    readVarint64.go i acc (writeVarint.go n fw ++ rest) fuel = some (acc ||| n <<< (7 * i), rest) := by
  induction fuel with
  | zero => intro i acc n fw _ h; omega
  | succ fuel ih =>
    intro i acc n fw hi _ hfw hn
    obtain ⟨fw, rfl⟩ : ∃ k, fw = k + 1 := ⟨fw - 1, by omega⟩
    rw [writeVarint_go_succ]
    by_cases h9 : i = 9
    · subst h9
      have hn2 : n < 2 := by simpa using hn
      have hn128 : n < 128 := by omega
      rw [if_pos hn128]
      simp only [List.cons_append, List.nil_append, readVarint64.go, if_true]
      rw [lastByte_toNat n hn128]
      have : ¬ n > 1 := by omega
      rw [if_neg this]
    · by_cases hn128 : n < 128
      · rw [if_pos hn128]
        simp only [List.cons_append, List.nil_append, readVarint64.go, if_neg h9]
        rw [lastByte_toNat n hn128, if_pos hn128, and127_of_lt n hn128]
      · rw [if_neg hn128]
        simp only [List.cons_append, readVarint64.go, if_neg h9]
        rw [contByte_low, contByte_toNat]
        have : ¬ ((n &&& 127) + 128 < 128) := by omega
        rw [if_neg this]
        rw [ih (i + 1) _ (n >>> 7) fw (by omega) (by omega) (by omega)]
        · rw [acc_step]
        · have := shr7_lt n (64 - 7 * i) (by omega) hn
          have h2 : 64 - 7 * (i + 1) = 64 - 7 * i - 7 := by omega
          rwa [h2]

theorem read32_go (rest : Bytes) (fuel : Nat) : ∀ i acc n fw, i + fuel = 5 → 1 ≤ fuel → fuel ≤ fw →
    n < 2 ^ (32 - 7 * i) →
    readVarint32.go i acc (writeVarint.go n fw ++ rest) fuel = some (acc ||| n <<< (7 * i), rest) := by
  induction fuel with
  | zero => intro i acc n fw _ h; omega
  | succ fuel ih =>
    intro i acc n fw hi _ hfw hn
    obtain ⟨fw, rfl⟩ : ∃ k, fw = k + 1 := ⟨fw - 1, by omega⟩
    rw [writeVarint_go_succ]
    by_cases h9 : i = 4
    · subst h9
      have hn2 : n < 16 := by simpa using hn
      have hn128 : n < 128 := by omega
      rw [if_pos hn128]
      simp only [List.cons_append, List.nil_append, readVarint32.go, if_true]
      rw [lastByte_toNat n hn128]
      have : ¬ n > 15 := by omega
      rw [if_neg this]
    · by_cases hn128 : n < 128
      · rw [if_pos hn128]
        simp only [List.cons_append, List.nil_append, readVarint32.go, if_neg h9]
        rw [lastByte_toNat n hn128, if_pos hn128, and127_of_lt n hn128]
      · rw [if_neg hn128]
        simp only [List.cons_append, readVarint32.go, if_neg h9]
        rw [contByte_low, contByte_toNat]
        have : ¬ ((n &&& 127) + 128 < 128) := by omega
        rw [if_neg this]
        rw [ih (i + 1) _ (n >>> 7) fw (by omega) (by omega) (by omega)]
        · rw [acc_step]
        · have := shr7_lt n (32 - 7 * i) (by omega) hn
          have h2 : 32 - 7 * (i + 1) = 32 - 7 * i - 7 := by omega
          rwa [h2]

theorem readVarint64_write (n : Nat) (h : n < 2 ^ 64) (rest : Bytes) :
    readVarint64 (writeVarint n ++ rest) = some (n, rest) := by
  unfold readVarint64 writeVarint
  rw [read64_go rest 10 0 0 n 10 rfl (by decide) (Nat.le_refl _) h]
  simp

theorem readVarint32_write (n : Nat) (h : n < 2 ^ 32) (rest : Bytes) :
    readVarint32 (writeVarint n ++ rest) = some (n, rest) := by
  unfold readVarint32 writeVarint
  rw [read32_go rest 5 0 0 n 10 rfl (by decide) (by decide) h]
  simp

theorem writeVarint_go_length_pos (n fw : Nat) (h : 1 ≤ fw) : 1 ≤ (writeVarint.go n fw).length := by
  obtain ⟨fw, rfl⟩ : ∃ k, fw = k + 1 := ⟨fw - 1, by omega⟩
  rw [writeVarint_go_succ]
  split <;> simp

theorem writeVarint_length_pos (n : Nat) : 1 ≤ (writeVarint n).length :=
  writeVarint_go_length_pos n 10 (by decide)

theorem writeVarint_small (n : Nat) (h : n < 128) : writeVarint n = [UInt8.ofNat n] := by
  unfold writeVarint
  rw [writeVarint_go_succ, if_pos h]

end Akd.Proto
