/-
`insertRec` cut into its phases (C01b), and what the node-level operations (`setChild`,
`getChild`, `updateHash`) compute on represented trees.
-/
import AkdModel.Lemmas.InsertRep
namespace Akd.Ins
open Akd NodeLabel NodeStore

abbrev RecFn := NodeStore → Option NodeLabel → ElementSet Dig → Except Err (NodeStore × TreeNode × Bool × Nat)

/-- Phase 1 of `recursive_batch_insert_nodes` -/
def phase1 (c : Cfg) (epoch : Nat) (s : NodeStore) (nodeLabel : Option NodeLabel) (set : ElementSet Dig) :
    Except Err (NodeStore × TreeNode × Bool × Nat) :=
  match nodeLabel, set.elems with
  | some nl, _ =>
    match s.getNode nl epoch with
    | .error e => .error e
    | .ok existing =>
      let setLcp := set.setLcp c.emptyLabel
      let lcpLabel := NodeLabel.lcp c.emptyLabel nl setLcp
      if lcpLabel.len < nl.len then
        match (TreeNode.newInterior c lcpLabel epoch).setChild existing with
        | .error e => .error e
        | .ok (cur, existing') =>
          match s.writeNode existing' false with
          | .error e => .error e
          | .ok s' => .ok (s', cur, true, 1)
      else .ok (s, existing, false, 0)
  | none, [x] => .ok (s, TreeNode.newLeaf c x.1 x.2 epoch, true, 1)
  | none, _ => .ok (s, TreeNode.newInterior c (set.setLcp c.emptyLabel) epoch, true, 1)

/-- one side of Phase 2 -/
def side (rec : RecFn) (d : Direction) (s : NodeStore) (cur : TreeNode) (num : Nat) (sub : ElementSet Dig) :
    Except Err (NodeStore × TreeNode × Nat) :=
  if sub.elems.isEmpty then .ok (s, cur, num)
  else
    match rec s (cur.childLabel d) sub with
    | .error e => .error e
    | .ok (s, ln, lnew, lnum) =>
      match cur.setChild ln with
      | .error e => .error e
      | .ok (cur, ln) =>
        match s.writeNode ln lnew with
        | .error e => .error e
        | .ok s => .ok (s, cur, num + lnum)

/-- Phases 2 and 3 -/
def phase23 (c : Cfg) (mode : InsertMode) (rec : RecFn) (s : NodeStore) (cur : TreeNode) (isNew : Bool)
    (num : Nat) (set : ElementSet Dig) : Except Err (NodeStore × TreeNode × Bool × Nat) :=
  match side rec .left s cur num (set.partition cur.label).1 with
  | .error e => .error e
  | .ok (s, cur', num) =>
    match side rec .right s cur' num (set.partition cur.label).2 with
    | .error e => .error e
    | .ok (s, cur', num) =>
      match updateHash c s cur' mode with
      | .error e => .error e
      | .ok cur' => .ok (s, cur', isNew, num)

theorem insertRec_succ (c : Cfg) (mode : InsertMode) (epoch fuel : Nat) (s : NodeStore)
    (nl : Option NodeLabel) (set : ElementSet Dig) :
    insertRec c mode epoch (fuel + 1) s nl set =
      match phase1 c epoch s nl set with
      | .error e => .error e
      | .ok (s, cur, isNew, num) => phase23 c mode (insertRec c mode epoch fuel) s cur isNew num set := by
  rfl

/-! ### `setChild` -/

theorem setChild_spec (self child : TreeNode) (p q : BitStr) (d : Bool)
    (hs : self.label = ofBits p) (hc : child.label = ofBits q) (hq : q.length ≤ 256)
    (hpq : (p ++ [d]) <+: q) :
    ∃ cur', self.setChild child = .ok (cur', { child with parent := self.label }) ∧
      cur'.label = self.label ∧ cur'.nodeType = self.nodeType ∧
      cur'.left = (if d then self.left else some child.label) ∧
      cur'.right = (if d then some child.label else self.right) ∧
      cur'.lastEpoch = max self.lastEpoch child.lastEpoch ∧
      cur'.minDescEpoch = (if self.minDescEpoch = 0 then child.minDescEpoch
        else min self.minDescEpoch child.minDescEpoch) := by
  have hp : p.length ≤ 256 := by
    have := hpq.length_le; simp at this; omega
  have ho := prefixOrdering_ofBits p q hp hq
  unfold TreeNode.setChild
  rw [hs, hc]
  cases d
  · rw [ho.1.2 hpq]
    exact ⟨_, rfl, rfl, rfl, rfl, rfl, rfl, rfl⟩
  · rw [ho.2.2 hpq]
    exact ⟨_, rfl, rfl, rfl, rfl, rfl, rfl, rfl⟩

/-! ### optional sub-trees, `getChild`, `updateHash` -/

def olbl (o : Option CTree) : Option NodeLabel := o.map (fun t => ofBits t.lbl)

def oleaves (o : Option CTree) : List Leaf := (o.map CTree.leaves).getD []

theorem azksValue_nodeIs {c : Cfg} {m : InsertMode} {t : CTree} {n : TreeNode} (h : NodeIs c m t n) :
    nodeToAzksValue c (decide (m = .directory)) (some n) = t.azks c (hm m) := by
  cases t with
  | leaf q v e =>
    obtain ⟨_, h2, _, _, h5, h6, _⟩ := h
    cases m <;> simp [nodeToAzksValue, h2, h5, h6, CTree.azks, hm]
  | node q l r =>
    obtain ⟨_, h2, _, _, h5, _, _⟩ := h
    simp [nodeToAzksValue, h2, h5]

theorem getChild_rep (c : Cfg) (m : InsertMode) (s : NodeStore) (o : Option CTree) (ep : Nat)
    (hrep : ∀ t, o = some t → Rep c m s t ∧ maxEp t ≤ ep) (n : TreeNode) (d : Direction)
    (h : n.childLabel d = olbl o) :
    ∃ on, s.getChild n d ep = .ok on ∧
      nodeToAzksValue c (decide (m = .directory)) on = CRoot.childValue c (hm m) o ∧
      nodeToLabel c on = CRoot.childLabel c o := by
  unfold NodeStore.getChild
  rw [h]
  cases o with
  | none => exact ⟨none, rfl, rfl, rfl⟩
  | some t =>
    obtain ⟨hr, hle⟩ := hrep t rfl
    obtain ⟨⟨r, hg, hn⟩, _⟩ := (rep_iff c m s t).1 hr
    simp only [olbl, Option.map_some]
    rw [getNode_latest s _ r ep hg (by rw [nodeIs_lastEpoch hn]; exact hle)]
    exact ⟨some r.latest, rfl, azksValue_nodeIs hn, nodeIs_label hn⟩

theorem updateHash_spec (c : Cfg) (m : InsertMode) (s : NodeStore) (n : TreeNode)
    (hty : n.nodeType ≠ .leaf) (o1 o2 : Option CTree) (hl : n.left = olbl o1) (hr : n.right = olbl o2)
    (hrl : ∀ t, o1 = some t → Rep c m s t ∧ maxEp t ≤ n.lastEpoch)
    (hrr : ∀ t, o2 = some t → Rep c m s t ∧ maxEp t ≤ n.lastEpoch) :
    updateHash c s n m = .ok { n with
      hash := c.parentHash (CRoot.childValue c (hm m) o1) (CRoot.childLabel c o1)
                (CRoot.childValue c (hm m) o2) (CRoot.childLabel c o2) } := by
  obtain ⟨a, ha, ha1, ha2⟩ := getChild_rep c m s o1 n.lastEpoch hrl n .left hl
  obtain ⟨b, hb, hb1, hb2⟩ := getChild_rep c m s o2 n.lastEpoch hrr n .right hr
  unfold NodeStore.updateHash
  rw [if_neg hty, ha, hb]
  simp only [ha1, ha2, hb1, hb2]

end Akd.Ins
